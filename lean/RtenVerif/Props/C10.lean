import RtenVerif.Lemmas.ShapeInferRange

/-!
# C10 — Shape inference never contradicts execution (partial)

Model: `RtenVerif/Model/ShapeInfer.lean`.  `Agrees σ inferred executed` is the property's
predicate: a scalar / vector result claims the rank and every element, a shape result claims the
rank and every dimension (each symbolic expression evaluated under the assignment `σ`).

Proved here (T1 per rule, T2 composition): the value-level rules of `Add`/`Sub`/`Mul`/`Div`
with the length-1 cycling rule, `Equal` (given a sound `range`, which is C11.T2), one element of
`Where`, `Unsqueeze`/`Squeeze` between scalars and length-1 vectors.  Stated false with witnesses: `Where` with the pre-fix `== 1` test, `Where`
on three scalars before the fix (rank), the broadcast rule on a zero-sized dimension.
Everything else is tied by differential execution only (see `checks/C10.json`).
-/
namespace RtenVerif.ShapeInfer

/-! ## T1 — element-wise arithmetic on shape-carrying values -/

/-- **C10.T1-binary (scalars)**: a scalar ∘ scalar result agrees with the executed scalar. -/
theorem c10_binary_scalar_sound (σ : Env) (op) (f) (h : OpHom σ op f) (x y : Sym) (ca cb cr : CT) (r : STn)
    (ha : Agrees σ (.scalar x) ca) (hb : Agrees σ (.scalar y) cb)
    (hi : symBinary op (.scalar x) (.scalar y) = some r)
    (he : execBinary f ca cb = some cr) : Agrees σ r cr := by
  obtain ⟨vx, rfl, hx⟩ := ha
  obtain ⟨vy, rfl, hy⟩ := hb
  simp only [symBinary] at hi
  simp only [execBinary] at he
  cases ho : op x y with
  | none => simp [ho] at hi
  | some o =>
    simp only [ho, Option.map_some] at hi; cases hi
    cases hf : f vx vy with
    | none => simp [hf] at he
    | some w =>
      simp only [hf, Option.map_some] at he; cases he
      exact ⟨w, rfl, h x y o vx vy w ho hx hy hf⟩

/-- **C10.T1-binary (length-1 cycling, left)**: `[x] ∘ r` (a scalar or a length-1 vector on the
left, a vector of any length on the right) infers `[x ∘ r₀, x ∘ r₁, …]`, which is what NumPy
broadcasting executes. -/
theorem c10_binary_cycle_left_sound (σ : Env) (op) (f) (h : OpHom σ op f) (x : Sym) (vx : Int)
    (rs : List Sym) (vrs : List Int) (out : List Sym) (w : List Int)
    (hx : x.eval σ = some vx) (hr : evalList σ rs = some vrs)
    (hi : zipCycle op [x] rs = some out) (he : czip f [vx] vrs = some w) :
    Agrees σ (.vector out) (.vector w) := by
  refine ⟨w, rfl, ?_⟩
  simp only [zipCycle] at hi
  simp only [czip] at he
  exact mapO_left σ op f h x vx hx rs vrs out w hr hi he

/-- The element rules of `Add`, `Sub`, `Mul`, `Div` are homomorphisms for integer `+ - *` and
truncating division (division by zero has no executed result). Unbounded integers: `i32`
wrap-around of the folded constants is outside this model. -/
theorem c10_add_hom (σ : Env) : OpHom σ addOp (fun a b => some (a + b)) := by
  intro x y r vx vy w ho hx hy hf
  cases hf
  unfold addOp at ho
  split at ho <;> cases ho <;> simp_all [Sym.eval]

theorem c10_sub_hom (σ : Env) : OpHom σ subOp (fun a b => some (a - b)) := by
  intro x y r vx vy w ho hx hy hf
  cases hf
  unfold subOp at ho
  split at ho <;> cases ho <;> simp_all [Sym.eval]

theorem c10_mul_hom (σ : Env) : OpHom σ mulOp (fun a b => some (a * b)) := by
  intro x y r vx vy w ho hx hy hf
  cases hf
  unfold mulOp at ho
  split at ho <;> cases ho <;> simp_all [Sym.eval]

theorem c10_div_hom (σ : Env) : OpHom σ divOp (fun a b => if b = 0 then none else some (tdiv a b)) := by
  intro x y r vx vy w ho hx hy hf
  by_cases hz : vy = 0
  · simp [hz] at hf
  · simp only [hz, if_false] at hf; cases hf
    unfold divOp at ho
    split at ho
    · split at ho <;> cases ho <;> simp_all [Sym.eval]
    · cases ho; simp_all [Sym.eval]

/-- Non-vacuity: `[$n] + [2, -3]` with `n = 5` infers `[n + 2, n + -3]`, executes to `[7, 2]`. -/
example : zipCycle addOp [.var "n" true] [.val 2, .val (-3)] = some [.add (.var "n" true) (.val 2), .add (.var "n" true) (.val (-3))] ∧
    czip (fun a b => some (a + b)) [5] [2, -3] = some [7, 2] := by decide

/-! ## T1 — `Equal` -/


/-- **C10.T1-equal (0 branch)**: when `Equal` folds to the constant 0 because the ranges are
disjoint, and the ranges are sound, the executed comparison is 0 (the operands differ). -/
theorem c10_equal_zero_sound (σ : Env) (x y : Sym) (vx vy : Int)
    (hrx : RangeSound σ x) (hry : RangeSound σ y)
    (hx : x.eval σ = some vx) (hy : y.eval σ = some vy)
    (hne : x.beq y = false) (hi : eqOp x y = some (.val 0)) : vx ≠ vy := by
  unfold eqOp at hi
  simp only [hne, Bool.false_eq_true, if_false] at hi
  have h1 := hrx vx hx
  have h2 := hry vy hy
  by_cases hcond : (x.range.2 < y.range.1 || y.range.2 < x.range.1) = true
  · simp only [Bool.or_eq_true, decide_eq_true_eq] at hcond
    omega
  · simp [hcond] at hi

/-- The hypothesis is needed — this is exactly the pre-`f73ff8c` defect: with the old
`range (Neg x) = (-hi, -lo)` computed from an unsound operand range, `Equal(-x, 0)` folded to 0
although `x = 0` makes it 1.  With the current `range` the fold does not happen: -/
example : eqOp (.neg (.var "x" true)) (.val 0) = none := by decide

/-- `Equal` on a symbol and the same symbol folds to 1 (same name ⇒ same value). -/
example : eqOp (.var "x" true) (.var "x" true) = some (.val 1) := by decide

/-! ## T1 — `Where` -/

/-- **C10.T1-where (element)**: with the kernel's truth test (`c ≠ 0`) a decided element is the
executed element. -/
theorem c10_where_elem_sound (σ : Env) (c x y r : Sym) (vc vx vy : Int)
    (hc : c.eval σ = some vc) (hx : x.eval σ = some vx) (hy : y.eval σ = some vy)
    (hi : whereElem (fun v => v != 0) c x y = some r) :
    r.eval σ = some (if vc ≠ 0 then vx else vy) := by
  unfold whereElem at hi
  split at hi
  · rename_i v
    simp only [Sym.eval] at hc; cases hc
    cases hi
    by_cases hv : vc = 0
    · simp [hv, hy]
    · simp [hv, hx]
  · cases hi

/-- **Finding (fixed)**: the rule before the fix tested `c == 1`. For the condition `[2]` it
selects `y` although the kernel (`cond != 0`) selects `x`: inference claimed the value 7, execution
produced 5. -/
theorem c10_where_eq1_false :
    ∃ (c x y r : Sym) (σ : Env), whereElem (fun v => v == 1) c x y = some r ∧
      r.eval σ = some 7 ∧ (if (2 : Int) ≠ 0 then (5 : Int) else 7) = 5 ∧
      c.eval σ = some 2 ∧ x.eval σ = some 5 ∧ y.eval σ = some 7 :=
  ⟨.val 2, .val 5, .val 7, .val 7, fun _ => none, by decide, by decide, by decide, by decide, by decide, by decide⟩

/-- **Finding (fixed)**: `Where` on three scalars inferred a length-1 *vector* before the fix
(`allScalarFix = false`) although the executed result is a scalar — a wrong rank claim; with the
fix the result is a scalar. -/
theorem c10_where_scalar_rank :
    (whereInfer (fun v => v != 0) false (.scalar (.val 1)) (.scalar (.val 5)) (.scalar (.val 7))).toOption = some (.vector [.val 5]) ∧
    (whereInfer (fun v => v != 0) true (.scalar (.val 1)) (.scalar (.val 5)) (.scalar (.val 7))).toOption = some (.scalar (.val 5)) ∧
    ¬ Agrees (fun _ => none) (.vector [.val 5]) (.scalar 5) := by
  refine ⟨by decide, by decide, ?_⟩
  rintro ⟨vs, h, _⟩
  cases h

/-! ## T1 — layout rules between scalars and vectors -/

/-- **C10.T1-unsqueeze**: `Unsqueeze(scalar, axes=[0])` infers `[e]`; executed `[v]`. -/
theorem c10_unsqueeze_sound (σ : Env) (a r : STn) (v : Int)
    (ha : Agrees σ a (.scalar v)) (hi : unsqueezeScalar a = some r) : Agrees σ r (.vector [v]) := by
  cases a <;> simp [unsqueezeScalar] at hi
  subst hi
  obtain ⟨v', h, he⟩ := ha
  cases h
  exact ⟨[v], rfl, by simp [evalList, mapO, he]⟩

/-- **C10.T1-squeeze**: `Squeeze` of a length-1 vector infers the scalar; executed `v`. -/
theorem c10_squeeze_sound (σ : Env) (a r : STn) (v : Int)
    (ha : Agrees σ a (.vector [v])) (hi : squeezeVector a = some r) : Agrees σ r (.scalar v) := by
  cases a with
  | vector es =>
    match es, hi with
    | [e], hi =>
      simp only [squeezeVector] at hi; cases hi
      obtain ⟨vs, h, he⟩ := ha
      cases h
      simp only [evalList, mapO] at he
      cases hev : e.eval σ with
      | none => simp [hev] at he
      | some w =>
        simp only [hev] at he
        cases he
        exact ⟨v, rfl, hev⟩
  | scalar e => simp [squeezeVector] at hi
  | shape ds => simp [squeezeVector] at hi
  | unknown => simp [squeezeVector] at hi

/-! ## The broadcast rule and zero-sized dimensions -/

/-- **Finding `C10-broadcast-zero-dim` (fixed by a4a397a, together with C11-broadcast-zero-one)**: two
distinct symbolic dimensions broadcast to `Broadcast(a, b)`. `eval` used to compute it as `max`,
which is 1 for `a = 1, b = 0` although the executed (NumPy) dimension is 0; the fixed evaluation
`bcastI` gives 0. -/
theorem c10_broadcast_zero_dim_false :
    (bdim (.var "a" true) (.var "b" true)).toOption = some (.bcast (.var "a" true) (.var "b" true)) ∧
    Max.max (1 : Int) 0 = 1 ∧
    (Sym.bcast (.var "a" true) (.var "b" true)).eval (fun n => if n = "a" then some 1 else some 0) = some 0 := by
  decide

/-! ## T2 — composition over a plan -/

/-- One node of a plan: the inferred tensor of its output is computed from the inferred tensors
of earlier values, the executed tensor from the executed ones. -/
structure PNode where
  out : Nat
  infer : (Nat → STn) → STn
  exec : (Nat → Option CT) → Option CT

def upd {α} (m : Nat → α) (k : Nat) (v : α) : Nat → α := fun i => if i = k then v else m i

/-- Run inference and execution side by side over a plan. -/
def runPlan : List PNode → (Nat → STn) → (Nat → Option CT) → (Nat → STn) × (Nat → Option CT)
  | [], s, c => (s, c)
  | n :: ns, s, c => runPlan ns (upd s n.out (n.infer s)) (upd c n.out (n.exec c))

/-- `AllAgree`: every value that was executed agrees with what inference says about it. -/
def AllAgree (σ : Env) (s : Nat → STn) (c : Nat → Option CT) : Prop :=
  ∀ id ct, c id = some ct → Agrees σ (s id) ct

/-- T1 for a node, in the form the composition needs. -/
def NodeSound (σ : Env) (n : PNode) : Prop :=
  ∀ s c, AllAgree σ s c → ∀ ct, n.exec c = some ct → Agrees σ (n.infer s) ct

/-- **C10.T2** If every node's rule satisfies T1 and the inputs agree, then after any plan every
executed value agrees with its inferred tensor. -/
theorem c10_plan_sound (σ : Env) : ∀ (plan : List PNode) (s : Nat → STn) (c : Nat → Option CT),
    (∀ n ∈ plan, NodeSound σ n) → AllAgree σ s c →
    AllAgree σ (runPlan plan s c).1 (runPlan plan s c).2 := by
  intro plan
  induction plan with
  | nil => intro s c _ h; exact h
  | cons n ns ih =>
    intro s c hall h
    simp only [runPlan]
    apply ih
    · intro m hm; exact hall m (by simp [hm])
    · intro id ct hc
      unfold upd at hc ⊢
      by_cases hid : id = n.out
      · simp only [hid, if_true] at hc ⊢
        exact hall n (by simp) s c h ct hc
      · simp only [hid, if_false] at hc ⊢
        exact h id ct hc

/-! Non-vacuity of T2: closed instances of every hypothesis of the graph-level theorem are in
`Props/C10Plan.lean` (`demo_hyps`, `demo_inputs_agree`, and the instance of `c10_plan_sound_kinds`). -/

end RtenVerif.ShapeInfer
