import RtenVerif.Lemmas.PlanCache
import RtenVerif.Props.C26
import RtenVerif.Props.C02
/-!
# C22 — Concurrent use of one model gives sequential results

> When several threads call run or partial_run on the same loaded model concurrently, with
> different inputs and different requested output sets, each call returns exactly what it would
> return if the calls were made one at a time. No call blocks forever or panics because of another.

Model (`Model/PlanCache.lean`, last section): the only mutable state shared by calls is the plan
cache behind `Graph::cached_plan: Mutex<Option<Arc<CachedPlan>>>`.  A `run` call is
`[lock; matches-or-replan; unlock]` (one atomic step) followed by `run_plan` with the call's own
`Arc` (a step that reads no shared mutable state); `partial_run` never touches the cache.  A
schedule is an arbitrary list of thread indices.

* `c22_hit_plan_valid` (T1): whatever happened before, the plan a call leaves the critical
  section with is a valid plan (C03 `PlanOK`) *for that call's own request* — hit or miss.
  Before the fix of `CachedPlan::matches` this was false (`c22_T1_orig_false`).
* `c22_call_spec` (T2): for **every** schedule, every finished call's outcome satisfies `Spec`,
  a relation that mentions only the call's own arguments: the cache content is unobservable up
  to the choice among valid plans.  `c22_errors_sequential`: an error outcome is *exactly* the
  outcome of the same call made alone on a fresh model.  `c22_values_sequential`: on graphs
  with unique producers the plan a call holds and the plan it would get alone give the same
  output values in C02's value-carrying model of `run_plan` (both succeed with equal outputs or
  both fail) — by C02's `c02_plan_independent_iff` and C03's `c03_complete` (planner completeness
  on unique-producer graphs); no hypothesis of another property is left open.  Equality of
  *failing* outcomes is false in general (`Executor.c02_error_depends_on_order`).
* `c22_progress`, `c22_all_done` (T3): a thread's step never waits for another thread: the
  critical section contains no blocking call and its only loop terminates (`c03_terminates`);
  after any schedule in which a thread was scheduled twice, it is done — no deadlock through
  this mutex.
Runtime assumptions (not modelled): `std::sync::Mutex` is a mutex, rayon pools are live, kernels
are data-race free, `Arc` reference counting.

What "exactly what it would return alone" means here: proved for validation errors, planning
errors and `Ok` values; for a run in which a kernel fails only "both fail" is proved — which
operator error is reported depends on the plan order (`Executor.c02_error_depends_on_order`).

`c22_progress` / `c22_all_done` hold by construction of the three-state `Pc` (a call takes at
most two steps); their content is that no step waits and that `create_plan` terminates.  Mutex
poisoning is not represented: a panic *inside* a critical section would poison `cached_plan` and
make every later `lock().unwrap()` panic.  The critical section contains `matches`,
`create_plan` and `CachedPlan::new`; the planner model has no panic outcome (none was observed by
C03's exhaustive correspondence runs), and `run_plan` — where the request-dependent panic sites
are — runs after the unlock and is panic-free for accepted requests (`c26_run_never_panics`,
`c26_partial_never_panics`), so no modelled panic occurs while a plan-cache mutex is held.

Two executor models are used: `PlanCache.runPlan` (outcome classes and panic sites; no in-place
taking) and C02's `Executor.runPlan` (values; in-place taking).  They share the graph IR, the
plan and `PlanOK`; no refinement between them is proved.
-/
namespace RtenVerif.PlanCache
open RtenVerif.Graph RtenVerif.Planner

/-- What a finished call may return, stated on its own arguments only. -/
def Spec (m : Mdl) (k : Call) (o : Outcome) : Prop :=
  if k.isPartial then o = partialRun m k.opsOk k.req.inputs k.req.outs
  else if validateInputs m k.req.inputs = false then o = .errInvalidInput
  else
    (∃ e, createPlan m.g k.req.ids k.req.outs (cacheOpts false) = .error e ∧ o = .errPlan e) ∨
    (∃ plan, ArgsOK m.g k.req.ids k.req.outs ∧
      PlanOK m.g false (resolvedNew m.g k.req.ids false) k.req.outs plan ∧
      o = runPlan m.g k.opsOk k.req.inputs plan k.req.outs)

/-- A thread is in a state consistent with its own call. -/
def PcOK (m : Mdl) (k : Call) : Pc → Prop
  | .start => True
  | .planned plan => k.isPartial = false ∧ validateInputs m k.req.inputs = true ∧
      ArgsOK m.g k.req.ids k.req.outs ∧
      PlanOK m.g false (resolvedNew m.g k.req.ids false) k.req.outs plan
  | .done o => Spec m k o

/-- System invariant: cache invariant + every thread consistent with its own call. -/
structure SysInv (m : Mdl) (calls : List Call) (s : Sys) : Prop where
  cache : CacheInv m.g false s.cache
  len : s.pcs.length = calls.length
  pcs : ∀ (i : Nat) (k : Call) (pc : Pc), calls[i]? = some k → s.pcs[i]? = some pc → PcOK m k pc

/-- On an error `get_cached_plan` was a miss and the error is `create_plan`'s. -/
theorem getCachedPlan_error {g : Graph} {isSub : Bool} {cache : Option CachedPlan}
    {ins outs : List Nat} {e : PlanError} {v : Ver}
    (h : (getCachedPlan v g isSub cache ins outs).1 = .error e) :
    createPlan g ins outs (cacheOpts isSub) = .error e := by
  have hmiss : (match createPlan g ins outs (cacheOpts isSub) with
        | .ok p => ((.ok p : Except PlanError (List Nat)), some (CachedPlan.new ins outs p))
        | .error e => (.error e, cache)).1 = .error e →
      createPlan g ins outs (cacheOpts isSub) = .error e := by
    intro hm
    cases hp : createPlan g ins outs (cacheOpts isSub) with
    | error e' => rw [hp] at hm; exact hm
    | ok p => rw [hp] at hm; cases hm
  unfold getCachedPlan at h
  cases cache with
  | none => exact hmiss h
  | some c =>
    simp only at h
    split at h
    · cases h
    · exact hmiss h

/-- One step of one call preserves the cache invariant and the call's consistency. -/
theorem stepCall_ok {m : Mdl} {k : Call} {pc : Pc} {c : Option CachedPlan}
    (hc : CacheInv m.g false c) (hpc : PcOK m k pc) :
    CacheInv m.g false (stepCall .fixed m k pc c).2 ∧ PcOK m k (stepCall .fixed m k pc c).1 := by
  cases pc with
  | done o => exact ⟨hc, hpc⟩
  | planned plan =>
    obtain ⟨hp, hv, hargs, hok⟩ := hpc
    refine ⟨hc, ?_⟩
    show Spec m k _
    unfold Spec
    rw [if_neg (by simp [hp]), if_neg (by simp [hv])]
    exact Or.inr ⟨plan, hargs, hok, rfl⟩
  | start =>
    unfold stepCall
    simp only
    by_cases hp : k.isPartial = true
    · simp only [hp, if_true]
      refine ⟨hc, ?_⟩
      show Spec m k _
      unfold Spec
      simp [hp]
    · simp only [hp, Bool.false_eq_true, if_false]
      cases hv : validateInputs m k.req.inputs with
      | false =>
        simp only [Bool.not_false, if_true]
        refine ⟨hc, ?_⟩
        show Spec m k _
        unfold Spec
        simp [hp, hv]
      | true =>
        simp only [Bool.not_true, Bool.false_eq_true, if_false]
        have hinv := getCachedPlan_inv (isSub := false) k.req.ids k.req.outs hc
        cases hg : getCachedPlan .fixed m.g false c k.req.ids k.req.outs with
        | mk r c' =>
          rw [hg] at hinv
          cases r with
          | error e =>
            refine ⟨hinv, ?_⟩
            show Spec m k _
            unfold Spec
            rw [if_neg hp, if_neg (by simp [hv])]
            exact Or.inl ⟨e, getCachedPlan_error (by rw [hg]), rfl⟩
          | ok plan =>
            have := getCachedPlan_ok hc (by rw [hg] : (getCachedPlan .fixed m.g false c k.req.ids k.req.outs).1 = .ok plan)
            exact ⟨hinv, by simpa using hp, hv, this.1, this.2⟩

theorem stepSys_inv {m : Mdl} {calls : List Call} {s : Sys} (i : Nat)
    (h : SysInv m calls s) : SysInv m calls (stepSys .fixed m calls s i) := by
  unfold stepSys
  cases hk : calls[i]? with
  | none => exact h
  | some k =>
    cases hpc : s.pcs[i]? with
    | none => exact h
    | some pc =>
      simp only
      obtain ⟨h1, h2⟩ := stepCall_ok h.cache (h.pcs i k pc hk hpc)
      refine ⟨h1, by simp [h.len], ?_⟩
      intro j k' pc' hk' hpc'
      by_cases hij : i = j
      · subst hij
        rw [hk] at hk'; injection hk' with hk'; subst hk'
        have hlt : i < s.pcs.length := by
          cases hl : s.pcs[i]? with
          | none => rw [hl] at hpc; cases hpc
          | some _ => exact (List.getElem?_eq_some_iff.mp hl).1
        simp only [List.getElem?_set_self hlt, Option.some.injEq] at hpc'
        subst hpc'
        exact h2
      · rw [List.getElem?_set_ne hij] at hpc'
        exact h.pcs j k' pc' hk' hpc'

theorem execSched_inv {m : Mdl} {calls : List Call} (sched : List Nat) :
    ∀ {s : Sys}, SysInv m calls s → SysInv m calls (execSched .fixed m calls sched s) := by
  induction sched with
  | nil => intro s h; exact h
  | cons i is ih => intro s h; exact ih (stepSys_inv i h)

theorem initSys_inv {m : Mdl} {c : Option CachedPlan} (hc : Reachable m c) (calls : List Call) :
    SysInv m calls (initSys c calls) := by
  refine ⟨reachable_inv hc, by simp [initSys], ?_⟩
  intro i k pc _ hpc
  simp only [initSys, List.getElem?_map] at hpc
  cases hci : calls[i]? with
  | none => simp [hci] at hpc
  | some k' => simp [hci] at hpc; subst hpc; trivial

/-! ## T1 -/

/-- **C22.T1** In every state reachable by any schedule of any calls, from any cache content
left behind by earlier calls: a thread that has left the critical section holds a plan that is
valid, complete and minimal (C03 `PlanOK`) for *its own* request, and that request is well-formed. -/
theorem c22_hit_plan_valid {m : Mdl} {c : Option CachedPlan} (hc : Reachable m c) (calls : List Call)
    (sched : List Nat) {i : Nat} {k : Call} {plan : List Nat} (hk : calls[i]? = some k)
    (hp : (execSched .fixed m calls sched (initSys c calls)).pcs[i]? = some (.planned plan)) :
    ArgsOK m.g k.req.ids k.req.outs ∧
      PlanOK m.g false (resolvedNew m.g k.req.ids false) k.req.outs plan := by
  have := (execSched_inv sched (initSys_inv hc calls)).pcs i k _ hk hp
  exact ⟨this.2.2.1, this.2.2.2⟩

/-- T1 is false for `CachedPlan::matches` before the fix: thread 0 runs `[a,b] → [y]`, then
thread 1 asks `[a,a] → [y]`, hits the cache and leaves the critical section with the plan `[3]`,
which needs `b`; its `run_plan` step panics.  Alone, thread 1 gets an error. -/
theorem c22_T1_orig_false :
    let calls : List Call := [{ req := ⟨[(0, wv), (1, wv)], [2]⟩ }, { req := ⟨[(0, wv), (0, wv)], [2]⟩ }]
    (execSched .orig wMdl calls [0, 1] (initSys none calls)).pcs[1]? = some (.planned [3]) ∧
    (execSched .orig wMdl calls [0, 1, 1] (initSys none calls)).pcs[1]? =
      some (.done (.panic .missingInput)) ∧
    (execSched .orig wMdl calls [1, 1, 0] (initSys none calls)).pcs[1]? =
      some (.done (.errPlan .dupInput)) ∧
    ¬ArgsOK wGraph [0, 0] [2] := by
  refine ⟨by decide, by decide, by decide, ?_⟩
  intro h; exact absurd h.2.2.1 (by decide)

/-! ## T2 -/

/-- **C22.T2** For every schedule, every finished call returned something its own arguments
allow (`Spec` mentions nothing but the call): the other calls and the cache are unobservable up
to the choice among valid plans for the call's request. -/
theorem c22_call_spec {m : Mdl} {c : Option CachedPlan} (hc : Reachable m c) (calls : List Call)
    (sched : List Nat) {i : Nat} {k : Call} {o : Outcome} (hk : calls[i]? = some k)
    (hd : (execSched .fixed m calls sched (initSys c calls)).pcs[i]? = some (.done o)) :
    Spec m k o :=
  (execSched_inv sched (initSys_inv hc calls)).pcs i k _ hk hd

/-- The sequential reference: the call made alone on a freshly loaded model also satisfies
`Spec` (so `Spec` is not vacuous: it is met by the sequential execution). -/
theorem runAlone_spec (m : Mdl) (k : Call) : Spec m k (runAlone .fixed m k none) := by
  unfold Spec runAlone
  by_cases hp : k.isPartial = true
  · rw [if_pos hp, if_pos hp]
  · rw [if_neg hp, if_neg hp, run_fst]
    by_cases hv : validateInputs m k.req.inputs = false
    · rw [if_pos hv, if_pos hv]
    · rw [if_neg hv, if_neg hv, getCachedPlan_cold]
      show (∃ e, createPlan m.g k.req.ids k.req.outs (cacheOpts false) = .error e ∧
          (match createPlan m.g k.req.ids k.req.outs (cacheOpts false) with
            | .error e => Outcome.errPlan e
            | .ok plan => runPlan m.g k.opsOk k.req.inputs plan k.req.outs) = .errPlan e) ∨
        (∃ plan, ArgsOK m.g k.req.ids k.req.outs ∧
          PlanOK m.g false (resolvedNew m.g k.req.ids false) k.req.outs plan ∧
          (match createPlan m.g k.req.ids k.req.outs (cacheOpts false) with
            | .error e => Outcome.errPlan e
            | .ok plan => runPlan m.g k.opsOk k.req.inputs plan k.req.outs) =
            runPlan m.g k.opsOk k.req.inputs plan k.req.outs)
      cases hcp : createPlan m.g k.req.ids k.req.outs (cacheOpts false) with
      | error e => exact Or.inl ⟨e, rfl, rfl⟩
      | ok p =>
        have hargs := argsOK_of_createPlan_ok hcp
        exact Or.inr ⟨p, hargs, c03_plan_ok hargs hcp, rfl⟩

/-- `run_plan` itself never reports a validation or planning error. -/
def Outcome.fromRunPlan : Outcome → Bool
  | .ok | .errOpNotFound | .errOp | .panic _ => true
  | _ => false

theorem execLoop_error {g : Graph} {views : List Nat} {opsOk : Bool} :
    ∀ (plan : List Nat) (st : RSt) (o : Outcome),
      execLoop g views opsOk plan st = .error o → o.fromRunPlan = true := by
  intro plan
  induction plan with
  | nil => intro st o h; simp [execLoop] at h
  | cons i is ih =>
    intro st o h
    unfold execLoop at h
    split at h
    · injection h with h; subst h; rfl
    · split at h
      · injection h with h; subst h; rfl
      · split at h
        · injection h with h; subst h; rfl
        · split at h
          · injection h with h; subst h; rfl
          · exact ih _ _ h

theorem runPlan_class (g : Graph) (opsOk : Bool) (inputs : List (Nat × InVal)) (plan outs : List Nat) :
    (runPlan g opsOk inputs plan outs).fromRunPlan = true := by
  unfold runPlan
  simp only
  split
  · rfl
  · rfl
  · split
    · rfl
    · split
      · rename_i o h; exact execLoop_error _ _ _ h
      · split <;> rfl

/-- Errors are exactly sequential: if a `run` call finishes with a validation or planning error
in some interleaving, the same call made alone on a freshly loaded model returns the same error. -/
theorem c22_errors_sequential {m : Mdl} {c : Option CachedPlan} (hc : Reachable m c)
    (calls : List Call) (sched : List Nat) {i : Nat} {k : Call} {o : Outcome}
    (hk : calls[i]? = some k) (hnp : k.isPartial = false)
    (hd : (execSched .fixed m calls sched (initSys c calls)).pcs[i]? = some (.done o))
    (herr : o = .errInvalidInput ∨ ∃ e, o = .errPlan e) :
    runAlone .fixed m k none = o := by
  have hs := c22_call_spec hc calls sched hk hd
  unfold Spec at hs
  rw [if_neg (by simp [hnp])] at hs
  unfold runAlone
  rw [if_neg (by simp [hnp]), run_fst]
  by_cases hv : validateInputs m k.req.inputs = false
  · rw [if_pos hv] at hs ⊢; exact hs.symm
  · rw [if_neg hv] at hs ⊢
    rcases hs with ⟨e, he, ho⟩ | ⟨plan, _, _, ho⟩
    · rw [getCachedPlan_cold]
      show (match createPlan m.g k.req.ids k.req.outs (cacheOpts false) with
        | .error e => Outcome.errPlan e
        | .ok plan => runPlan m.g k.opsOk k.req.inputs plan k.req.outs) = o
      rw [he, ho]
    · have hcl := runPlan_class m.g k.opsOk k.req.inputs plan k.req.outs
      rw [← ho] at hcl
      rcases herr with h | ⟨e, h⟩ <;> (subst h; cases hcl)

/-- Planner completeness for `k`'s request: if a valid plan exists at all, `create_plan` finds
one. -/
def PlannerComplete (m : Mdl) (k : Call) : Prop :=
  (∃ p, PlanOK m.g false (resolvedNew m.g k.req.ids false) k.req.outs p) →
    ∃ p', createPlan m.g k.req.ids k.req.outs (cacheOpts false) = .ok p'

/-- …which on unique-producer graphs is C03.T2c (`c03_complete`), for well-formed ids. -/
theorem plannerComplete_of_unique {m : Mdl} {k : Call} (hu : UniqueProducer m.g)
    (hargs : ArgsOK m.g k.req.ids k.req.outs) : PlannerComplete m k := by
  rintro ⟨p, hp⟩
  obtain ⟨p', hp', _⟩ := c03_complete (opts := cacheOpts false) hu hargs hp
  exact ⟨p', hp'⟩

/-- **C22.T2, value form** (discharges the former `PlanIndependent` hypothesis by C02's
`c02_plan_independent_iff`).  Take any schedule of any calls from any reachable cache, and a
thread that has left the critical section holding `plan` — possibly another call's cached plan
for a permutation of its ids.  Then the same call made alone on a freshly loaded model plans
successfully (C03.T2c `c03_complete`), with some `p'`, and C02's value-carrying model of `run_plan`
(`Executor.runPlan`, including in-place execution and reference counting) returns the outputs
`vals` with the held plan **iff** it returns the same `vals` with `p'`: same outputs on success,
and both succeed or both fail.  The hypotheses on `ops`/`r` are exactly those of C02's theorem
(well-formed request, no captures, operator contract, unique producers, the call's ids are the
supplied inputs).  Full equality of *failing* outcomes is false — which operator error is
reported depends on the plan order (`Executor.c02_error_depends_on_order`). -/
theorem c22_values_sequential {V : Type} {ops : Executor.Ops V} {r : Executor.Run V}
    {m : Mdl} {c : Option CachedPlan} (hc : Reachable m c)
    (calls : List Call) (sched : List Nat) {i : Nat} {k : Call} {plan : List Nat}
    (hk : calls[i]? = some k)
    (hp : (execSched .fixed m calls sched (initSys c calls)).pcs[i]? = some (.planned plan))
    (hg : r.g = m.g) (hwf : Executor.WF r) (hcap : r.g.captures = [])
    (hct : Executor.Contract ops r.g) (hu : UniqueProducer r.g)
    (hin : ∀ d ∈ k.req.ids, r.isInput d = true) :
    ∃ p', createPlan m.g k.req.ids k.req.outs (cacheOpts false) = .ok p' ∧
      ∀ vals, (Executor.runPlan ops r Executor.nocap plan k.req.outs).outcome = .ok vals ↔
        (Executor.runPlan ops r Executor.nocap p' k.req.outs).outcome = .ok vals := by
  obtain ⟨hargs, hok⟩ := c22_hit_plan_valid hc calls sched hk hp
  obtain ⟨p', hp'⟩ := plannerComplete_of_unique (k := k) (hg ▸ hu) hargs ⟨plan, hok⟩
  have hok' := c03_plan_ok (argsOK_of_createPlan_ok hp') hp'
  refine ⟨p', hp', fun vals => ?_⟩
  rw [← hg] at hok hok'
  exact Executor.c02_plan_independent_iff hwf hcap hct hu hin hargs.1 hok hok' vals

/-- **No call panics because of another** (outcome level): on a graph whose operator inputs and
outputs are value or constant nodes, for every schedule of any calls from any reachable cache,
every finished call returned `Ok` or an error — in the reduced `run_plan` none of the panic
sites is reachable with the plan the call holds (`runPlan_accepted`, `partialRun_no_panic`). -/
theorem c22_never_panics {m : Mdl} (hwf : WFG m.g) (hwo : WFGo m.g) {c : Option CachedPlan}
    (hc : Reachable m c) (calls : List Call) (sched : List Nat) {i : Nat} {k : Call} {o : Outcome}
    (hk : calls[i]? = some k)
    (hd : (execSched .fixed m calls sched (initSys c calls)).pcs[i]? = some (.done o)) :
    o.isPanic = false := by
  have hs := c22_call_spec hc calls sched hk hd
  unfold Spec at hs
  by_cases hp : k.isPartial = true
  · rw [if_pos hp] at hs; rw [hs]; exact partialRun_no_panic hwf hwo _ _ _
  · rw [if_neg hp] at hs
    by_cases hv : validateInputs m k.req.inputs = false
    · rw [if_pos hv] at hs; rw [hs]; rfl
    · rw [if_neg hv] at hs
      rcases hs with ⟨e, _, ho⟩ | ⟨plan, hargs, hok, ho⟩
      · rw [ho]; rfl
      · rcases runPlan_accepted hwf k.opsOk hargs hok with ⟨_, h⟩ | h <;> (rw [ho, h]; rfl)

/-! ## Subgraph plan caches (`If` branches, `Loop` bodies)

The graph of an `If` branch or `Loop` body has its own `cached_plan` mutex, shared by all
concurrent runs and taken by `run_subgraph` with `is_subgraph = true`.  The cache lemmas are
generic in `isSub`, so they lift to the whole family of graphs of a model: however the critical
sections of however many threads on however many of these caches interleave (a list of lock
events), every cache keeps its invariant and every critical section hands out a plan that is
valid for the request it was asked for — with the graph's captures counted as available exactly
when the graph is a subgraph. -/

/-- Every cache of the family satisfies its invariant (`isSub` = "is not the top-level graph"). -/
structure FamInv (graphs : List Graph) (caches : List (Option CachedPlan)) : Prop where
  len : caches.length = graphs.length
  inv : ∀ (i : Nat) (g : Graph) (c : Option CachedPlan), graphs[i]? = some g → caches[i]? = some c →
    CacheInv g (isSubOf i) c

theorem famInv_cold (graphs : List Graph) : FamInv graphs (graphs.map (fun _ => none)) := by
  refine ⟨by simp, ?_⟩
  intro i g c _ hc
  simp only [List.getElem?_map] at hc
  cases hg : graphs[i]? with
  | none => simp [hg] at hc
  | some _ => simp [hg] at hc; subst hc; trivial

theorem lockStep_inv {graphs : List Graph} {caches : List (Option CachedPlan)} (e : LockEv)
    (h : FamInv graphs caches) : FamInv graphs (lockStep graphs caches e).2 := by
  unfold lockStep
  cases hg : graphs[e.gi]? with
  | none => exact h
  | some g =>
    cases hc : caches[e.gi]? with
    | none => exact h
    | some c =>
      simp only
      refine ⟨by simp [h.len], ?_⟩
      intro i g' c' hg' hc'
      by_cases hi : e.gi = i
      · subst hi
        rw [hg] at hg'; injection hg' with hg'; subst hg'
        have hlt : e.gi < caches.length := (List.getElem?_eq_some_iff.mp hc).1
        rw [List.getElem?_set_self hlt] at hc'
        injection hc' with hc'; subst hc'
        exact getCachedPlan_inv _ _ (h.inv _ _ _ hg hc)
      · rw [List.getElem?_set_ne hi] at hc'
        exact h.inv i g' c' hg' hc'

theorem cachesAfter_inv {graphs : List Graph} (evs : List LockEv) :
    ∀ {caches : List (Option CachedPlan)}, FamInv graphs caches →
      FamInv graphs (cachesAfter graphs evs caches) := by
  induction evs with
  | nil => intro _ h; exact h
  | cons e es ih => intro _ h; exact ih (lockStep_inv e h)

/-- **C22.T1 for the whole family of plan caches.** After any sequence of critical sections on
the caches of the top-level graph and of the `If`/`Loop` body graphs (any threads, any
interleaving, valid or invalid requests), the next critical section `e` — top-level or nested —
that returns a plan returns one that is valid, complete and minimal for `e`'s own request on
`e`'s own graph, with `captures_available = is_subgraph`; and an error is `create_plan`'s error
for that very request. -/
theorem c22_nested_plan_valid {graphs : List Graph} {caches0 : List (Option CachedPlan)}
    (h0 : FamInv graphs caches0) (evs : List LockEv) (e : LockEv) :
    (∀ plan, (lockStep graphs (cachesAfter graphs evs caches0) e).1 = some (.ok plan) →
      ∃ g, graphs[e.gi]? = some g ∧ ArgsOK g e.ins e.outs ∧
        PlanOK g false (resolvedNew g e.ins (isSubOf e.gi)) e.outs plan) ∧
    (∀ err, (lockStep graphs (cachesAfter graphs evs caches0) e).1 = some (.error err) →
      ∃ g, graphs[e.gi]? = some g ∧ createPlan g e.ins e.outs (cacheOpts (isSubOf e.gi)) = .error err) := by
  have hinv := cachesAfter_inv evs h0
  generalize cachesAfter graphs evs caches0 = caches at hinv
  unfold lockStep
  cases hg : graphs[e.gi]? with
  | none => constructor <;> (intro _ h; simp at h)
  | some g =>
    cases hc : caches[e.gi]? with
    | none => constructor <;> (intro _ h; simp at h)
    | some c =>
      simp only [Option.some.injEq]
      constructor
      · intro plan h
        obtain ⟨h1, h2⟩ := getCachedPlan_ok (hinv.inv _ _ _ hg hc) h
        exact ⟨g, rfl, h1, h2⟩
      · intro err h
        exact ⟨g, rfl, getCachedPlan_error h⟩

/-- Non-vacuity: a model with a top-level graph and one subgraph (with a capture); two threads'
nested critical sections interleaved with top-level ones; the capture is available only
because the graph is planned as a subgraph (last conjunct: planned as a top-level graph it is not). -/
example :
    let sub : Graph := { nodes := [.value, .value, .operator { inputs := [some 0], outputs := [some 1] }],
                         captures := [0] }
    lockTrace [wGraph, sub]
      [⟨0, [0, 1], [2]⟩, ⟨1, [], [1]⟩, ⟨0, [1, 0], [2]⟩, ⟨1, [], [1]⟩, ⟨0, [0, 1], [4]⟩, ⟨1, [], [1, 1]⟩]
      [none, none] = ['m', 'm', 'h', 'h', 'm', 'm'] ∧
    (lockStep [wGraph, sub] [none, none] ⟨1, [], [1]⟩).1 = some (.ok [2]) ∧
    (lockStep [sub] [none] ⟨0, [], [1]⟩).1 = some (.error .missingInput) := by
  decide

/-- The requests of the body graph `k` are constant: every lock event on cache `k` carries
`(ins, outs)` (what `If` / `Loop` do: `Vec::new()` / the body's input ids, and the body graph's
`output_ids()`; the harness asserts it on the logged lock events). -/
def ConstReq (k : Nat) (ins outs : List Nat) (evs : List LockEv) : Prop :=
  ∀ e ∈ evs, e.gi = k → e.ins = ins ∧ e.outs = outs

theorem cachesAfter_fixed {graphs : List Graph} {k : Nat} {g : Graph} {ins outs : List Nat}
    (hg : graphs[k]? = some g) :
    ∀ (evs : List LockEv) (caches : List (Option CachedPlan)), ConstReq k ins outs evs →
      (∀ c, caches[k]? = some c → FixedCache g (isSubOf k) ins outs c) →
      ∀ c, (cachesAfter graphs evs caches)[k]? = some c → FixedCache g (isSubOf k) ins outs c := by
  intro evs
  induction evs with
  | nil => intro caches _ h; exact h
  | cons e es ih =>
    intro caches hreq h
    apply ih _ (fun e' he' => hreq e' (List.mem_cons_of_mem _ he'))
    intro c hc
    unfold lockStep at hc
    cases hge : graphs[e.gi]? with
    | none => rw [hge] at hc; exact h c hc
    | some g' =>
      cases hce : caches[e.gi]? with
      | none => rw [hge, hce] at hc; exact h c hc
      | some c0 =>
        rw [hge, hce] at hc
        simp only at hc
        by_cases hk : e.gi = k
        · have hlt : e.gi < caches.length := (List.getElem?_eq_some_iff.mp hce).1
          obtain ⟨hi, ho⟩ := hreq e (List.mem_cons_self ..) hk
          subst hk
          rw [hg] at hge; injection hge with hge; subst hge
          rw [List.getElem?_set_self hlt] at hc
          injection hc with hc; subst hc
          rw [hi, ho]
          exact (getCachedPlan_fixed_request (h c0 hce)).2
        · rw [List.getElem?_set_ne hk] at hc
          exact h c hc

/-- **The plan cache of an `If` branch / `Loop` body is transparent.**  If all critical sections
on cache `k` carry the same request — as they do for body graphs — then after any sequence of
critical sections of any threads on any caches of the family, starting from cold caches, the next
critical section on cache `k` returns *exactly* `create_plan`'s answer for the body graph (the
same plan, or the same error): a nested run executes the very plan it would execute if its call
were made alone on a freshly loaded model.  Together with the determinism of `run_plan` as a
function of (graph, plan, inputs, capture environment) this is why the result of an `If`/`Loop`
operator does not depend on the other threads; at top level, where the plan may be a different
valid plan, C02's `c02_plan_independent_iff` applies with `If`/`Loop` as operators. -/
theorem c22_subgraph_cache_transparent {graphs : List Graph} {k : Nat} {g : Graph}
    {ins outs : List Nat} (hg : graphs[k]? = some g) (evs : List LockEv)
    (hreq : ConstReq k ins outs evs) :
    (lockStep graphs (cachesAfter graphs evs (graphs.map (fun _ => none))) ⟨k, ins, outs⟩).1 =
      some (createPlan g ins outs (cacheOpts (isSubOf k))) := by
  have hfix := cachesAfter_fixed hg evs (graphs.map (fun _ => none)) hreq (by
    intro c hc
    simp only [List.getElem?_map, hg, Option.map_some, Option.some.injEq] at hc
    subst hc; trivial)
  have hlen := (cachesAfter_inv evs (famInv_cold graphs)).len
  have hk : k < graphs.length := (List.getElem?_eq_some_iff.mp hg).1
  obtain ⟨c, hc⟩ : ∃ c, (cachesAfter graphs evs (graphs.map (fun _ => none)))[k]? = some c :=
    ⟨_, List.getElem?_eq_getElem (by rw [hlen]; exact hk)⟩
  unfold lockStep
  simp only [hg, hc]
  rw [(getCachedPlan_fixed_request (hfix c hc)).1]

/-- Non-vacuity: the body graph of the example above, locked four times by two threads between
top-level critical sections, returns `create_plan`'s plan `[2]` every time. -/
example :
    let sub : Graph := { nodes := [.value, .value, .operator { inputs := [some 0], outputs := [some 1] }],
                         captures := [0] }
    (lockStep [wGraph, sub]
      (cachesAfter [wGraph, sub] [⟨0, [0, 1], [2]⟩, ⟨1, [], [1]⟩, ⟨0, [1, 0], [4]⟩, ⟨1, [], [1]⟩, ⟨1, [], [1]⟩]
        [none, none]) ⟨1, [], [1]⟩).1 = some (.ok [2]) ∧
    createPlan sub [] [1] (cacheOpts true) = .ok [2] := by
  decide

/-! ## T3 -/

/-- Steps a thread still has to take. -/
def pcMeasure : Pc → Nat
  | .start => 2
  | .planned _ => 1
  | .done _ => 0

/-- **C22.T3a** A step of an unfinished call always makes progress, whatever the cache holds and
whatever the other threads are doing: no step has a waiting condition (the critical section is a
single atomic step containing no blocking call; `c22_critical_section_terminates`). -/
theorem c22_progress (v : Ver) (m : Mdl) (k : Call) (pc : Pc) (c : Option CachedPlan)
    (h : pcMeasure pc ≠ 0) : pcMeasure (stepCall v m k pc c).1 < pcMeasure pc := by
  cases pc with
  | done o => exact absurd rfl h
  | planned plan => simp [stepCall, pcMeasure]
  | start =>
    unfold stepCall
    simp only
    split
    · simp [pcMeasure]
    · split
      · simp [pcMeasure]
      · split <;> simp [pcMeasure]

/-- The only loop inside the critical section terminates (C03.T1): the fuel of the planner model
is never exhausted, i.e. `create_plan` returns on every graph and request. -/
theorem c22_critical_section_terminates (g : Graph) (ins outs : List Nat) :
    createPlan g ins outs (cacheOpts false) ≠ .error .outOfFuel :=
  c03_terminates g ins outs (cacheOpts false)

theorem stepSys_pcs_ne {v : Ver} {m : Mdl} {calls : List Call} {s : Sys} {i j : Nat} (h : j ≠ i) :
    (stepSys v m calls s j).pcs[i]? = s.pcs[i]? := by
  unfold stepSys
  split
  · simp only; rw [List.getElem?_set_ne h]
  · rfl

theorem stepSys_pcs_self {v : Ver} {m : Mdl} {calls : List Call} {s : Sys} {i : Nat} {k : Call} {pc : Pc}
    (hk : calls[i]? = some k) (hpc : s.pcs[i]? = some pc) :
    (stepSys v m calls s i).pcs[i]? = some (stepCall v m k pc s.cache).1 := by
  unfold stepSys
  rw [hk, hpc]
  simp only
  have hlt : i < s.pcs.length := (List.getElem?_eq_some_iff.mp hpc).1
  rw [List.getElem?_set_self hlt]

theorem execSched_done {v : Ver} {m : Mdl} {calls : List Call} {i : Nat} {k : Call}
    (hk : calls[i]? = some k) :
    ∀ (sched : List Nat) (s : Sys) (pc : Pc), s.pcs[i]? = some pc → pcMeasure pc ≤ sched.count i →
      ∃ o, (execSched v m calls sched s).pcs[i]? = some (.done o) := by
  intro sched
  induction sched with
  | nil =>
    intro s pc hpc hm
    cases pc with
    | done o => exact ⟨o, hpc⟩
    | planned _ => simp [pcMeasure] at hm
    | start => simp [pcMeasure] at hm
  | cons j js ih =>
    intro s pc hpc hm
    by_cases hji : j = i
    · subst hji
      have hstep := stepSys_pcs_self (v := v) (m := m) hk hpc
      refine ih _ _ hstep ?_
      simp only [List.count_cons_self] at hm
      by_cases h0 : pcMeasure pc = 0
      · cases pc with
        | done o => simp [stepCall, pcMeasure]
        | planned _ => simp [pcMeasure] at h0
        | start => simp [pcMeasure] at h0
      · have := c22_progress v m k pc s.cache h0
        omega
    · have hstep : (stepSys v m calls s j).pcs[i]? = some pc := by rw [stepSys_pcs_ne hji]; exact hpc
      refine ih _ _ hstep ?_
      rw [List.count_cons_of_ne (by exact fun h => hji h)] at hm
      exact hm

/-- **C22.T3b** No deadlock through the plan-cache mutex: in any schedule that gives a call two
turns — wherever the other threads' steps fall — that call has finished. -/
theorem c22_all_done (v : Ver) (m : Mdl) (c : Option CachedPlan) (calls : List Call) (sched : List Nat)
    {i : Nat} {k : Call} (hk : calls[i]? = some k) (h2 : 2 ≤ sched.count i) :
    ∃ o, (execSched v m calls sched (initSys c calls)).pcs[i]? = some (.done o) := by
  refine execSched_done hk sched (initSys c calls) .start ?_ h2
  simp [initSys, hk]

/-! ## Non-vacuity -/

/-- Two threads forcing a cache replacement, thread 1 planned while thread 0 is between its
steps; every outcome equals the sequential one (`decide`d on the concrete interleavings). -/
def wCalls : List Call :=
  [{ req := ⟨[(0, wv), (1, wv)], [2]⟩ }, { req := ⟨[(0, wv), (1, { wv with owned := true })], [4, 2]⟩ },
   { isPartial := true, req := ⟨[(0, wv)], [4]⟩ }]

example : (execSched .fixed wMdl wCalls [0, 1, 2, 1, 0] (initSys none wCalls)).pcs =
    [.done .ok, .done .ok, .done (.okIds [0])] := by decide
example : (execSched .fixed wMdl wCalls [1, 0, 0, 1, 2] (initSys none wCalls)).cache =
    some { inputs := [0, 1], outputs := [2], plan := [3] } := by decide
example : (execSched .fixed wMdl wCalls [0, 1] (initSys none wCalls)).pcs =
    [.planned [3], .planned [3, 5], .start] := by decide
example : wCalls.map (fun k => runAlone .fixed wMdl k none) = [.ok, .ok, .okIds [0]] := by decide

/-! ### Non-vacuity of `c22_values_sequential`

C02's graph `twoFailing` (`a = F(x)`, `b = G(x)`): thread 0 asks `[x] → [a, b]` and caches the
plan `[3, 4]`; thread 1 asks `[x] → [b, a]`, hits the cache (same ids, other order) and holds
`[3, 4]`, whereas alone it would have planned `[4, 3]`.  All hypotheses hold, and both plans give
thread 1 the same outputs. -/

def tMdl : Mdl := { g := Executor.twoFailing }
def tv : InVal := { dtype := 1, shape := [2] }
def tCalls : List Call := [{ req := ⟨[(0, tv)], [1, 2]⟩ }, { req := ⟨[(0, tv)], [2, 1]⟩ }]

example : (execSched .fixed tMdl tCalls [0, 1] (initSys none tCalls)).pcs[1]? = some (.planned [3, 4]) := by
  decide
example : createPlan tMdl.g [0] [2, 1] (cacheOpts false) = .ok [4, 3] := by decide

theorem twoFailing_unique : UniqueProducer Executor.twoFailing := by
  intro p op v hop hv
  have hi : p < 5 := by
    unfold getOp getNode at hop
    by_cases hi : p < 5
    · exact hi
    · have : Executor.twoFailing.nodes[p]? = none := by
        apply List.getElem?_eq_none; simp [Executor.twoFailing]; omega
      rw [this] at hop; simp at hop
  have : p = 0 ∨ p = 1 ∨ p = 2 ∨ p = 3 ∨ p = 4 := by omega
  rcases this with rfl | rfl | rfl | rfl | rfl <;>
    simp [getOp, getNode, Executor.twoFailing] at hop <;> subst hop <;>
    simp [opOutputs] at hv <;> subst hv <;> decide

example : ∃ p', createPlan tMdl.g [0] [2, 1] (cacheOpts false) = .ok p' ∧
    ∀ vals, (Executor.runPlan Executor.okOps Executor.twoRun Executor.nocap [3, 4] [2, 1]).outcome = .ok vals ↔
      (Executor.runPlan Executor.okOps Executor.twoRun Executor.nocap p' [2, 1]).outcome = .ok vals :=
  c22_values_sequential (m := tMdl) (k := { req := ⟨[(0, tv)], [2, 1]⟩ }) Reachable.cold tCalls [0, 1]
    (i := 1) (by decide) (by decide) rfl Executor.twoRun_wf rfl
    Executor.okOps_contract
    twoFailing_unique (by intro d hd; simp [Req.ids] at hd; subst hd; rfl)

end RtenVerif.PlanCache
