import RtenVerif.Lemmas.PlanCache
import RtenVerif.Props.C02
import RtenVerif.Lemmas.ExecutorDemoOps
/-!
# C25.T2 for the modelled planner — no hypothesis about the plan cache left open

`Props/C25Seq.lean` proves T2 on C25's own small executor with an abstract `planner` and the
hypothesis `CacheTransparent`.  This file closes that hypothesis for the **code's planner**:
the sequence of runs is replayed on

* `Planner.createPlan` (C03's model of `Planner::create_plan`, order-*sensitive*: it returns
  `[3,4]` for outputs `[1,2]` and `[4,3]` for `[2,1]` on `Executor.twoFailing`),
* `PlanCache.getCachedPlan .fixed` (C22/C26's model of `get_cached_plan` / `CachedPlan::matches`),
* `Executor.runPlan` (C02's value-carrying model of `run_plan`, with reference counts and
  in-place execution),

all imported read-only.  `cacheTransparent_exec` derives "the plan a call is handed (hit or miss)
and the plan it would get on a fresh model return `.ok vals` together" from
`getCachedPlan_ok` (C22.T1), `c03_complete` + `c03_plan_ok` (C03) and
`Executor.c02_plan_independent_iff` (C02); `c25_T2_sequence_exec` is the induction over the
sequence.  What remains are **separately named assumptions** (`Assumptions`), none about the cache:

* `noCaptures`   — the model graph is a top-level graph;
* `unique`       — `UniqueProducer g`: every value is produced by at most one operator;
* `opContract`   — `Executor.Contract ops g`: an operator run in place returns what it returns
                   out of place (C13's per-operator obligation), `in_place_inputs` is a set;
* `wf`           — per request `Executor.WF`: an id is not supplied twice, supplied ids and
                   operator outputs are value/constant resp. value nodes;
* kernel determinism — `Ops.run` / `Ops.runInPlace` are functions (built into the model; tested).

That the constants are the same for every run of the sequence (`consts` is a parameter here) is
T1: `c25_T1_memory` / `c25_T2_consts_unchanged` on Model/RunPurity and `c02_T4_temps`,
`c02_T4_inplace_operands` on this executor model.  In the model "same request, same state ⇒ same
result" is trivial (everything is a function); the content of T2 is that the only state a run
leaves behind — the plan cache — cannot be observed in the outputs.

`exec_example_*`: a closed instance on `Executor.twoFailing` where the second request hits the
cache with a plan in the *other* order than a fresh planner run would produce.
-/
namespace RtenVerif.C25Exec
open RtenVerif.Graph RtenVerif.Planner RtenVerif.PlanCache

variable {V : Type}

/-- One `Model::run` request: inputs in argument order (`true` = passed by value), outputs. -/
structure ReqX (V : Type) where
  ins : List (Nat × Bool × V)
  outs : List Nat

def ReqX.ids (q : ReqX V) : List Nat := q.ins.map (·.1)

def findIn (ins : List (Nat × Bool × V)) (owned : Bool) (id : Nat) : Option V :=
  (ins.find? (fun e => e.1 == id && e.2.1 == owned)).map (·.2.2)

/-- The `run_plan` call of a request on a model with constants `consts`. -/
def mkRun (g : Graph) (consts : Nat → V) (q : ReqX V) : Executor.Run V :=
  { g := g, consts := consts, borrowed := findIn q.ins false, owned := findIn q.ins true }

inductive XErr where
  | plan (e : PlanError)
  | exec (e : Executor.Err)
deriving Repr, DecidableEq

instance {α : Type} [DecidableEq α] : DecidableEq (Except XErr α)
  | .ok a, .ok b => if h : a = b then isTrue (by rw [h]) else isFalse (by intro h'; cases h'; exact h rfl)
  | .error a, .error b =>
    if h : a = b then isTrue (by rw [h]) else isFalse (by intro h'; cases h'; exact h rfl)
  | .ok _, .error _ => isFalse (by intro h; cases h)
  | .error _, .ok _ => isFalse (by intro h; cases h)

def liftExec : Except Executor.Err (List V) → Except XErr (List V)
  | .ok v => .ok v
  | .error e => .error (.exec e)

theorem liftExec_ok (x : Except Executor.Err (List V)) (vals : List V) :
    liftExec x = .ok vals ↔ x = .ok vals := by
  cases x <;> simp [liftExec]

/-- `Graph::run` on the cache the earlier runs left: result and new cache. -/
def runReqX (ops : Executor.Ops V) (g : Graph) (consts : Nat → V) (cache : Option CachedPlan)
    (q : ReqX V) : Except XErr (List V) × Option CachedPlan :=
  match getCachedPlan .fixed g false cache q.ids q.outs with
  | (.error e, c') => (.error (.plan e), c')
  | (.ok plan, c') =>
    (liftExec (Executor.runPlan ops (mkRun g consts q) Executor.nocap plan q.outs).outcome, c')

/-- A sequence of runs on one model. -/
def runSeqX (ops : Executor.Ops V) (g : Graph) (consts : Nat → V) :
    Option CachedPlan → List (ReqX V) → List (Except XErr (List V))
  | _, [] => []
  | c, q :: qs =>
    let res := runReqX ops g consts c q
    res.1 :: runSeqX ops g consts res.2 qs

/-- Same outputs, or both fail. -/
def OutEquiv (a b : Except XErr (List V)) : Prop := ∀ vals, a = .ok vals ↔ b = .ok vals

def SeqEquivX : List (Except XErr (List V)) → List (Except XErr (List V)) → Prop
  | [], [] => True
  | a :: as, b :: bs => OutEquiv a b ∧ SeqEquivX as bs
  | _, _ => False

/-- The named assumptions of T2 on the code's planner (none of them about the cache). -/
structure Assumptions (ops : Executor.Ops V) (g : Graph) (consts : Nat → V) (qs : List (ReqX V)) : Prop where
  /-- the model graph is a top-level graph -/
  noCaptures : g.captures = []
  /-- every value has at most one producer -/
  unique : UniqueProducer g
  /-- operator contract: in place ≡ out of place; `in_place_inputs` is a set -/
  opContract : Executor.Contract ops g
  /-- every request is well formed -/
  wf : ∀ q, q ∈ qs → Executor.WF (mkRun g consts q)

theorem isInput_of_mem (g : Graph) (consts : Nat → V) (q : ReqX V) :
    ∀ d, d ∈ q.ids → (mkRun g consts q).isInput d = true := by
  intro d hd
  unfold ReqX.ids at hd
  obtain ⟨e, he, hed⟩ := List.mem_map.mp hd
  obtain ⟨id, b, v⟩ := e
  simp only at hed
  subst hed
  have hsome : (q.ins.find? (fun e => e.1 == id && e.2.1 == b)).isSome = true := by
    rw [List.find?_isSome]
    exact ⟨(id, b, v), he, by simp⟩
  unfold Executor.Run.isInput mkRun findIn
  cases b with
  | false => simp only [Option.isSome_map, hsome, Bool.true_or]
  | true => simp only [Option.isSome_map, hsome, Bool.or_true]

/-- **`CacheTransparent` for the code's planner.**  From any cache content satisfying the cache
invariant (every content reachable by earlier runs does: `getCachedPlan_inv`), if
`get_cached_plan` hands the request a plan — its own or the cached plan of a request with the same
id sets in another order — then `create_plan` on a fresh model succeeds for this request, and
C02's `run_plan` model returns `.ok vals` with the one plan iff with the other. -/
theorem cacheTransparent_exec (ops : Executor.Ops V) (g : Graph) (consts : Nat → V) (q : ReqX V)
    (hcap : g.captures = []) (hu : UniqueProducer g) (hct : Executor.Contract ops g)
    (hwf : Executor.WF (mkRun g consts q))
    {cache : Option CachedPlan} (hinv : CacheInv g false cache) {plan : List Nat}
    (h : (getCachedPlan .fixed g false cache q.ids q.outs).1 = .ok plan) :
    ∃ p', createPlan g q.ids q.outs (cacheOpts false) = .ok p' ∧
      ∀ vals, (Executor.runPlan ops (mkRun g consts q) Executor.nocap plan q.outs).outcome = .ok vals ↔
        (Executor.runPlan ops (mkRun g consts q) Executor.nocap p' q.outs).outcome = .ok vals := by
  obtain ⟨hargs, hok⟩ := getCachedPlan_ok hinv h
  obtain ⟨p', hp', hok'⟩ := c03_complete (opts := cacheOpts false) hu hargs hok
  refine ⟨p', hp', fun vals => ?_⟩
  exact Executor.c02_plan_independent_iff (r := mkRun g consts q) hwf hcap hct hu
    (isInput_of_mem g consts q) hargs.1 hok hok' vals

theorem getCachedPlan_cold (g : Graph) (ins outs : List Nat) :
    getCachedPlan .fixed g false none ins outs =
      (match createPlan g ins outs (cacheOpts false) with
        | .ok p => (.ok p, some (CachedPlan.new ins outs p))
        | .error e => (.error e, none)) := rfl

/-- A planning error of `get_cached_plan` is `create_plan`'s error for this very request. -/
theorem getCachedPlan_error' {g : Graph} {cache : Option CachedPlan} {ins outs : List Nat} {e : PlanError}
    (h : (getCachedPlan .fixed g false cache ins outs).1 = .error e) :
    createPlan g ins outs (cacheOpts false) = .error e := by
  unfold getCachedPlan at h
  cases hp : createPlan g ins outs (cacheOpts false) with
  | error e' =>
    rw [hp] at h
    cases cache with
    | none => simp only at h; cases h; rfl
    | some c =>
      simp only at h
      split at h
      · cases h
      · cases h; rfl
  | ok p =>
    rw [hp] at h
    cases cache with
    | none => simp only at h; cases h
    | some c =>
      simp only at h
      split at h <;> cases h

/-- One run of a sequence agrees with the run alone on a fresh model. -/
theorem runReqX_equiv (ops : Executor.Ops V) (g : Graph) (consts : Nat → V) (q : ReqX V)
    (hcap : g.captures = []) (hu : UniqueProducer g) (hct : Executor.Contract ops g)
    (hwf : Executor.WF (mkRun g consts q))
    {cache : Option CachedPlan} (hinv : CacheInv g false cache) :
    OutEquiv (runReqX ops g consts cache q).1 (runReqX ops g consts none q).1 ∧
      CacheInv g false (runReqX ops g consts cache q).2 := by
  have hinv' := getCachedPlan_inv (g := g) (isSub := false) q.ids q.outs hinv
  constructor
  · intro vals
    cases hg : getCachedPlan .fixed g false cache q.ids q.outs with
    | mk res c' =>
      cases res with
      | error e =>
        have he := getCachedPlan_error' (by rw [hg])
        simp only [runReqX, hg, getCachedPlan_cold, he]
      | ok plan =>
        obtain ⟨p', hp', hiff⟩ := cacheTransparent_exec ops g consts q hcap hu hct hwf hinv
          (plan := plan) (by rw [hg])
        simp only [runReqX, hg, getCachedPlan_cold, hp', liftExec_ok]
        exact hiff vals
  · unfold runReqX
    cases hg : getCachedPlan .fixed g false cache q.ids q.outs with
    | mk res c' =>
      rw [hg] at hinv'
      cases res <;> exact hinv'

/-- **C25.T2 on the code's planner.**  For the modelled `create_plan`, `get_cached_plan` and
`run_plan`, any sequence of runs on one model — starting from any cache content earlier runs may
have left — returns, run by run, what that request returns alone on a freshly loaded model: the
same outputs, or both fail.  Assumptions: `Assumptions` (top-level graph, unique producers,
operator contract, well-formed requests); nothing is assumed about the cache or the planner. -/
theorem c25_T2_sequence_exec (ops : Executor.Ops V) (g : Graph) (consts : Nat → V) :
    ∀ (qs : List (ReqX V)) (cache : Option CachedPlan), CacheInv g false cache →
      Assumptions ops g consts qs →
      SeqEquivX (runSeqX ops g consts cache qs) (qs.map (fun q => (runReqX ops g consts none q).1)) := by
  intro qs
  induction qs with
  | nil => intro _ _ _; exact True.intro
  | cons q qs ih =>
    intro cache hinv ha
    obtain ⟨h1, h2⟩ := runReqX_equiv ops g consts q ha.noCaptures ha.unique ha.opContract
      (ha.wf q List.mem_cons_self) hinv
    simp only [runSeqX, List.map_cons, SeqEquivX]
    exact ⟨h1, ih _ h2 ⟨ha.noCaptures, ha.unique, ha.opContract,
      fun q' hq' => ha.wf q' (List.mem_cons_of_mem _ hq')⟩⟩

/-- From a freshly loaded model. -/
theorem c25_T2_sequence_exec_fresh (ops : Executor.Ops V) (g : Graph) (consts : Nat → V)
    (qs : List (ReqX V)) (ha : Assumptions ops g consts qs) :
    SeqEquivX (runSeqX ops g consts none qs) (qs.map (fun q => (runReqX ops g consts none q).1)) :=
  c25_T2_sequence_exec ops g consts qs none True.intro ha

/-! ## The plan caches of subgraphs (`If` branches, `Loop` bodies)

`run_subgraph` fills the `cached_plan` of the branch / body graph, and that cache survives the
run as well.  `Assumptions.noCaptures` restricts `c25_T2_sequence_exec` to the top-level graph, whose
subgraph operators are abstract functions (`Ops.run`).  That this abstraction does not hide a
history dependence through the nested caches is the following: a subgraph operator always issues
the *same* `(input_ids, output_ids)` to its body graph (`If`: no inputs and the branch's
`output_ids()`; `Loop`: the body's input ids in order and its `output_ids()`), so the body's cache
only ever sees one request, and for such a cache `get_cached_plan` is literally `create_plan`
(b-C22C26's `getCachedPlan_fixed_request`): every nested `run_plan` of every run executes exactly
the plan a freshly loaded model would create — not merely an equivalent one. -/

/-- The plans `get_cached_plan` hands a subgraph operator in `n` successive calls with its fixed
request, starting from cache content `c`. -/
def subPlans (g : Graph) (ins outs : List Nat) : Nat → Option CachedPlan → List (Except PlanError (List Nat))
  | 0, _ => []
  | n + 1, c =>
    (getCachedPlan .fixed g true c ins outs).1 ::
      subPlans g ins outs n (getCachedPlan .fixed g true c ins outs).2

/-- **C25.T2, nested caches.** Whatever earlier runs (of the fixed request) left in a body graph's
plan cache, every later call is handed exactly `create_plan`'s answer for a cold cache — the same
plan, or the same planning error.  Hence the nested `run_plan` calls, and with them the subgraph
operator as a function of its inputs and captured values, do not depend on the run history. -/
theorem c25_T2_subgraph_cache (g : Graph) (ins outs : List Nat) :
    ∀ (n : Nat) (cache : Option CachedPlan), FixedCache g true ins outs cache →
      subPlans g ins outs n cache = List.replicate n (createPlan g ins outs (cacheOpts true)) := by
  intro n
  induction n with
  | zero => intro _ _; rfl
  | succ n ih =>
    intro cache h
    obtain ⟨h1, h2⟩ := getCachedPlan_fixed_request h
    simp only [subPlans, List.replicate_succ]
    rw [h1, ih _ h2]

/-- The cache of a freshly loaded model is of that form. -/
theorem fixedCache_cold (g : Graph) (ins outs : List Nat) : FixedCache g true ins outs none := True.intro

/-! ## Closed example: an order-sensitive planner and a cache hit with the "other" plan -/

section Example
open RtenVerif.Executor (twoFailing)

/-- Every operator returns its own node id, in place or not (so the contract holds). -/
def okOps : Executor.Ops Nat :=
  { len := fun _ => 1, inPlaceIdx := fun _ => [], isSubgraph := fun _ => false
    run := fun i _ _ => some [i], runInPlace := fun i _ _ => some [i] }

/-- `x = 10` lent; outputs `[a, b]`, then `[b, a]` (graph `0:x 1:a 2:b 3: a = F(x) 4: b = G(x)`). -/
def exReqs : List (ReqX Nat) :=
  [{ ins := [(0, false, 10)], outs := [1, 2] }, { ins := [(0, false, 10)], outs := [2, 1] }]

/-- The code's planner is order sensitive on this graph… -/
theorem exec_example_order_sensitive :
    createPlan twoFailing [0] [1, 2] (cacheOpts false) = .ok [3, 4] ∧
    createPlan twoFailing [0] [2, 1] (cacheOpts false) = .ok [4, 3] := by decide

/-- …and the second request of the sequence is run with the first request's cached plan `[3, 4]`,
not with the plan `[4, 3]` it gets alone. -/
theorem exec_example_cache_hit :
    (getCachedPlan .fixed twoFailing false (some (CachedPlan.new [0] [1, 2] [3, 4])) [0] [2, 1]).1 =
      .ok [3, 4] := by decide

theorem twoFailing_unique' : UniqueProducer twoFailing := by
  intro p op v hop hv
  have hi : p < 5 := by
    unfold getOp getNode at hop
    by_cases hi : p < 5
    · exact hi
    · have : twoFailing.nodes[p]? = none := by
        apply List.getElem?_eq_none; simp [twoFailing]; omega
      rw [this] at hop; simp at hop
  have : p = 0 ∨ p = 1 ∨ p = 2 ∨ p = 3 ∨ p = 4 := by omega
  rcases this with rfl | rfl | rfl | rfl | rfl <;>
    simp [getOp, getNode, twoFailing] at hop <;> subst hop <;>
    simp [opOutputs] at hv <;> subst hv <;> decide

theorem exRun_wf (q : ReqX Nat) (hq : q ∈ exReqs) : Executor.WF (mkRun twoFailing (fun _ => 0) q) := by
  have hown : ∀ v, (mkRun twoFailing (fun _ => (0 : Nat)) q).owned v = none := by
    intro v
    simp only [exReqs, List.mem_cons, List.mem_nil_iff, or_false] at hq
    rcases hq with rfl | rfl <;> simp [mkRun, findIn]
  refine ⟨rfl, fun v hv => absurd (hown v) hv, fun v hv => absurd (hown v) hv, ?_⟩
  exact Executor.twoRun_wf.outsValue

/-- All assumptions hold for the example (closed: no hypotheses). -/
theorem exec_example_assumptions : Assumptions okOps twoFailing (fun _ => 0) exReqs :=
  { noCaptures := rfl
    unique := twoFailing_unique'
    opContract := ⟨fun _ => List.nodup_nil, fun _ h => absurd rfl h, by intros; rfl⟩
    wf := exRun_wf }

/-- The theorem applied: both runs of the sequence agree with the runs alone… -/
theorem exec_example_T2 :
    SeqEquivX (runSeqX okOps twoFailing (fun _ => 0) none exReqs)
      (exReqs.map (fun q => (runReqX okOps twoFailing (fun _ => 0) none q).1)) :=
  c25_T2_sequence_exec_fresh okOps twoFailing (fun _ => 0) exReqs exec_example_assumptions

/-- …and concretely (evaluated by the kernel). -/
theorem exec_example_values :
    runSeqX okOps twoFailing (fun _ => 0) none exReqs = [.ok [3, 4], .ok [4, 3]] ∧
    exReqs.map (fun q => (runReqX okOps twoFailing (fun _ => 0) none q).1) = [.ok [3, 4], .ok [4, 3]] := by
  decide

/-! ### A closed example with in-place operators

`0:x 1:a 2:b  3: a = F(x)  4: b = G(x)`, both operators in-place capable (`Add`-like, value
dependent: `Lemmas/ExecutorDemoOps.lean`), `x = 10` passed **by value**.  Whichever operator the
plan schedules second takes `x` in place; the plan order depends on the order of the requested
outputs, and the second request is served with the first one's cached plan. -/

def ipG : Graph :=
  { nodes := [.value, .value, .value,
      .operator { inputs := [some 0], outputs := [some 1], inPlace := true },
      .operator { inputs := [some 0], outputs := [some 2], inPlace := true }] }

def ipOps : Executor.Ops Nat := Executor.sumOps (fun i => if i = 3 ∨ i = 4 then [0] else [])

def ipReqs : List (ReqX Nat) :=
  [{ ins := [(0, true, 10)], outs := [1, 2] }, { ins := [(0, true, 10)], outs := [2, 1] }]

theorem ipG_getOp_lt {p : Nat} {op : OpNode} (hop : getOp ipG p = some op) : p < 5 := by
  unfold getOp getNode at hop
  by_cases hi : p < 5
  · exact hi
  · have : ipG.nodes[p]? = none := by
      apply List.getElem?_eq_none; simp [ipG]; omega
    rw [this] at hop; simp at hop

theorem ipG_unique : UniqueProducer ipG := by
  intro p op v hop hv
  have hi := ipG_getOp_lt hop
  have : p = 0 ∨ p = 1 ∨ p = 2 ∨ p = 3 ∨ p = 4 := by omega
  rcases this with rfl | rfl | rfl | rfl | rfl <;>
    simp [getOp, getNode, ipG] at hop <;> subst hop <;>
    simp [opOutputs] at hv <;> subst hv <;> decide

theorem ipRun_wf (q : ReqX Nat) (hq : q ∈ ipReqs) : Executor.WF (mkRun ipG (fun _ => 0) q) := by
  have hb : ∀ v, (mkRun ipG (fun _ => (0 : Nat)) q).borrowed v = none := by
    intro v
    simp only [ipReqs, List.mem_cons, List.mem_nil_iff, or_false] at hq
    rcases hq with rfl | rfl <;> simp [mkRun, findIn]
  have ho : ∀ v, (mkRun ipG (fun _ => (0 : Nat)) q).owned v ≠ none → v = 0 := by
    intro v hv
    simp only [ipReqs, List.mem_cons, List.mem_nil_iff, or_false] at hq
    rcases hq with rfl | rfl <;>
      · simp only [mkRun, findIn, List.find?_cons, List.find?_nil] at hv
        by_cases h0 : v = 0
        · exact h0
        · have : ((0 : Nat) == v) = false := by simp; omega
          simp [this] at hv
  refine ⟨rfl, fun v _ => hb v, ?_, ?_⟩
  · intro v hv
    rw [ho v hv]
    rfl
  · intro i op hop o ho'
    have hi := ipG_getOp_lt hop
    have : i = 0 ∨ i = 1 ∨ i = 2 ∨ i = 3 ∨ i = 4 := by omega
    rcases this with rfl | rfl | rfl | rfl | rfl <;>
      simp [getOp, getNode, mkRun, ipG] at hop <;> subst hop <;>
      simp [opOutputs] at ho' <;> subst ho' <;> rfl

theorem ip_example_assumptions : Assumptions ipOps ipG (fun _ => 0) ipReqs :=
  { noCaptures := rfl
    unique := ipG_unique
    opContract := Executor.sumOps_contract _ _ _ (fun i => by split <;> simp) (fun _ _ => rfl)
    wf := ipRun_wf }

/-- The operator scheduled second really runs in place on the caller's value, and which one that
is depends on the plan: `[3,4]` takes `x` in place at operator 4, `[4,3]` at operator 3. -/
theorem ip_example_in_place :
    ((Executor.runPlan ipOps (mkRun ipG (fun _ => 0) { ins := [(0, true, 10)], outs := [2, 1] })
        Executor.nocap [3, 4] [2, 1]).steps.map (fun t => (t.op, t.rip))) = [(3, false), (4, true)] ∧
    ((Executor.runPlan ipOps (mkRun ipG (fun _ => 0) { ins := [(0, true, 10)], outs := [2, 1] })
        Executor.nocap [4, 3] [2, 1]).steps.map (fun t => (t.op, t.rip))) = [(4, false), (3, true)] := by
  decide

/-- `c25_T2_sequence_exec` applied (the second request hits the cache with `[3, 4]`, alone it
plans `[4, 3]`), and the values. -/
theorem ip_example_T2 :
    SeqEquivX (runSeqX ipOps ipG (fun _ => 0) none ipReqs)
      (ipReqs.map (fun q => (runReqX ipOps ipG (fun _ => 0) none q).1)) :=
  c25_T2_sequence_exec_fresh ipOps ipG (fun _ => 0) ipReqs ip_example_assumptions

theorem ip_example_values :
    createPlan ipG [0] [2, 1] (cacheOpts false) = .ok [4, 3] ∧
    runSeqX ipOps ipG (fun _ => 0) none ipReqs = [.ok [13, 14], .ok [14, 13]] ∧
    ipReqs.map (fun q => (runReqX ipOps ipG (fun _ => 0) none q).1) = [.ok [13, 14], .ok [14, 13]] := by
  decide

end Example

end RtenVerif.C25Exec

