import RtenVerif.Model.Contours
import RtenVerif.Lemmas.Contours

/-!
# C36 — Contour tracing and drawing stay on the image

Property text: *for any binary mask, every traced contour point is a foreground pixel adjacent
to the background or image edge, and every foreground connected component has an outer
contour; drawing and filling primitives only modify pixels inside the image and inside the
shape's bounds, for any shape coordinates, including ones outside the image.*

Model: `RtenVerif.Model.Contours`.

Proved for all inputs (unbounded image sizes and coordinates):
* **T1** every point of every contour `find_contours` returns is a foreground pixel of the input
  inside the image — for every mask size, mask and retrieval mode
  (`c36_contour_points_foreground`; invariant: non-zero entries of the working mask are non-zero
  in the padded input, and border following only ever stands on non-zero entries).
* **T4** checked writes: whatever pixel list a primitive produces, only in-image pixels are
  written and a pixel outside the image turns into a panic (`writeAll_spec`); `fill_rect`
  writes only pixels of the rect (`c36_fillRect_spec`); `stroke_rect` (with the width clamp of
  the fix) writes only pixels of the rect (`c36_strokeRect_spec`); `draw_line` of width 1
  writes only in-image pixels and emits exactly `max(|dx|, |dy|)` points of the clamped line
  (`c36_drawLine1_in_image`, `c36_bresenham_length`).
Bounded (kernel evaluation of a complete finite scope, labelled as such):
* **T2b** Bresenham points lie in the bounding box of the endpoints — all lines with endpoints
  in `[0,4]²` (`c36_bresenham_bbox_bounded`, in `Props/C36Bounded`).
* **T1/S5** `find_contours` terminates within the fuel bound, and every contour point is an
  in-image foreground pixel with a background pixel or the image edge in its 8-neighbourhood —
  all masks with `rows, cols ≤ 3`, `rows·cols ≤ 6` in both modes
  (`c36_contours_bounded_small`, in `Props/C36Bounded`; all 3×3 masks were also checked this
  way once but take > 5 min of kernel time and are left to the exhaustive correspondence run).
* **S5a** scan-loop clause of "every component has an outer contour": an unlabelled foreground
  pixel with background to its left starts a contour whose first point it is
  (`c36_visit_starts_contour`); the component-level statement is left `_partial` (see the comment
  at the end of this file).
Not proved in general: termination of border following and adjacency to the background for
arbitrary masks (bounded only), "every component has an outer contour", the minor-axis bound of
Bresenham, `FillIter` (T3) — these are covered by the correspondence/oracle runs only.
-/
namespace RtenVerif.Contours

/-! ## T4 checked writes -/

/-- **C36.T4a** Only in-image pixels of the requested list are written, in order; the call
panics iff some requested pixel is outside the image. -/
theorem writeAll_spec (h w : Int) (ps : List Pt) :
    (∀ p ∈ (writeAll h w ps).1, inImage h w p = true ∧ p ∈ ps) ∧
    ((writeAll h w ps).2 = false ↔ ∀ p ∈ ps, inImage h w p = true) ∧
    ((writeAll h w ps).2 = false → (writeAll h w ps).1 = ps) := by
  induction ps with
  | nil => simp [writeAll]
  | cons q qs ih =>
    obtain ⟨ih1, ih2, ih3⟩ := ih
    simp only [writeAll]
    by_cases hq : inImage h w q = true
    · simp only [hq, if_true]
      refine ⟨?_, ?_, ?_⟩
      · intro p hp
        rcases List.mem_cons.mp hp with rfl | hp
        · exact ⟨hq, List.mem_cons_self⟩
        · exact ⟨(ih1 p hp).1, List.mem_cons_of_mem _ (ih1 p hp).2⟩
      · rw [ih2]; simp [hq]
      · intro hf; rw [ih3 hf]
    · rw [if_neg hq]
      refine ⟨?_, ?_, ?_⟩
      · intro p hp; cases hp
      · constructor
        · intro hf; cases hf
        · intro hall
          exact absurd (hall q List.mem_cons_self) hq
      · intro hf; cases hf

theorem mem_rectPixels {t l b r : Int} {p : Pt} (hp : p ∈ rectPixels t l b r) :
    t ≤ p.1 ∧ p.1 < b ∧ l ≤ p.2 ∧ p.2 < r := by
  simp only [rectPixels, List.mem_flatMap, List.mem_map, List.mem_range] at hp
  obtain ⟨dy, hdy, dx, hdx, rfl⟩ := hp
  simp only [Int.ofNat_eq_natCast]
  omega

/-- **C36.T4b** `fill_rect`: every modified pixel is inside the image and inside the rect; a
rect that is not contained in the image makes the call panic (never an out-of-image write). -/
theorem c36_fillRect_spec (h w t l b r : Int) :
    (∀ p ∈ (fillRect h w t l b r).1,
      inImage h w p = true ∧ t ≤ p.1 ∧ p.1 < b ∧ l ≤ p.2 ∧ p.2 < r) ∧
    ((fillRect h w t l b r).2 = false ↔ ∀ p ∈ rectPixels t l b r, inImage h w p = true) := by
  obtain ⟨h1, h2, _⟩ := writeAll_spec h w (rectPixels t l b r)
  exact ⟨fun p hp => ⟨(h1 p hp).1, mem_rectPixels (h1 p hp).2⟩, h2⟩

theorem strokeWidth_bounds (t l b r sw : Int) :
    0 ≤ strokeWidth t l b r sw ∧
    (strokeWidth t l b r sw > 0 → strokeWidth t l b r sw ≤ r - l ∧ strokeWidth t l b r sw ≤ b - t) := by
  simp only [strokeWidth]
  split <;> split <;> split <;> omega

/-- **C36.T4c** `stroke_rect`: every modified pixel is inside the image and inside the rect,
for every stroke width (this needs the width clamp of the fix; see the negation witness for
the unclamped version below). -/
theorem c36_strokeRect_spec (h w t l b r sw : Int) :
    ∀ p ∈ (strokeRect h w t l b r sw).1,
      inImage h w p = true ∧ t ≤ p.1 ∧ p.1 < b ∧ l ≤ p.2 ∧ p.2 < r := by
  intro p hp
  simp only [strokeRect] at hp
  obtain ⟨h1, _, _⟩ := writeAll_spec h w _
  obtain ⟨him, hmem⟩ := h1 p hp
  refine ⟨him, ?_⟩
  obtain ⟨hs0, hs1⟩ := strokeWidth_bounds t l b r sw
  simp only [List.mem_append] at hmem
  rcases hmem with ((hm | hm) | hm) | hm <;> have := mem_rectPixels hm <;> omega

/-- The unclamped `stroke_rect` (the code before the fix) writes outside the rect: 1×5 rect
`tlbr (0,1,5,2)`, width 2, on a 5×3 image paints pixel `(0,0)`. -/
theorem c36_strokeRect_unclamped_false :
    ¬ (∀ p ∈ (writeAll 5 3 (rectPixels 0 1 5 (1 + 2) ++ rectPixels 0 (1 + 2) (0 + 2) (2 - 2) ++
        rectPixels 0 (2 - 2) 5 2 ++ rectPixels (5 - 2) (1 + 2) 5 (2 - 2))).1, (1 : Int) ≤ p.2 ∧ p.2 < 2) := by
  decide

/-! ## T2 Bresenham -/

theorem Bres.run_length (n : Nat) (b : Bres) : (Bres.run n b).length = n := by
  induction n generalizing b with
  | zero => rfl
  | succ n ih => simp [Bres.run, ih]

/-- **C36.T2a** The iterator yields exactly `max(|dx|, |dy|)` points (so the end point is not
drawn and a zero-length line draws nothing) — as the code has it. -/
theorem c36_bresenham_length (s e : Pt) :
    ((bresenham s e).length : Int) =
      if iabs (e.2 - s.2) ≥ iabs (e.1 - s.1) then iabs (e.2 - s.2) else iabs (e.1 - s.1) := by
  simp only [bresenham, Bres.run_length, Bres.new]
  simp only [iabs]
  split <;> split <;> split <;> omega

/-- **C36.T2c** `draw_line` with width 1 writes only in-image pixels, for any endpoints. -/
theorem c36_drawLine1_in_image (h w : Int) (s e : Pt) :
    ∀ p ∈ (drawLine1 h w s e).1, inImage h w p = true := fun p hp =>
  ((writeAll_spec h w _).1 p hp).1

/-- The clamp puts both endpoints inside a non-empty image. -/
theorem c36_clamp_in_image (h w : Int) (p : Pt) (hh : 0 < h) (hw : 0 < w) :
    inImage h w (clampToBounds p h w) = true := by
  unfold inImage
  apply decide_eq_true
  simp only [clampToBounds, clampI]
  refine ⟨?_, ?_, ?_, ?_⟩ <;> (repeat' split) <;> omega

/-! ## T1 contour points are foreground pixels -/

/-- **C36.T1** For every mask of every size and both retrieval modes: if `find_contours`
returns, every point of every contour is a foreground pixel of the input inside the image. -/
theorem c36_contour_points_foreground (rows cols : Nat) (mask : List Bool) (outerOnly : Bool)
    (cs : List (List Pt)) (h : findContours rows cols mask outerOnly = .ok cs) :
    ∀ c ∈ cs, ∀ p ∈ c, maskAt rows cols mask p = true := by
  unfold findContours at h
  simp only at h
  split at h
  · rename_i s hs
    cases h
    have := scanAll_good (padMask rows cols mask) (cols + 2) _ outerOnly _ _ s
      (fun i hi => hi) (by intro c hc; cases hc) hs
    intro c hc p hp
    exact good_padMask rows cols mask p (this.2 c (List.mem_reverse.mp hc) p hp)
  · cases h
  · cases h


/-- Non-vacuity: the hypothesis is met by a mask with two components (and the conclusion is
not trivial: the mask has background pixels). -/
example : findContours 1 4 [true, false, true, true] false = .ok [[(0, 0)], [(0, 2), (0, 3)]] := by
  decide +kernel

/-! ## S5 "every component has an outer contour": the scan-loop clause -/

/-- **C36.S5a** (scan-loop clause of "every component has an outer contour") In List mode, when
the raster scan reaches an unlabelled foreground pixel `p` (working value 1) whose left
neighbour is background, `visit` starts a border there: if it returns, exactly one contour is
added and its first point is `p` (in image coordinates). -/
theorem c36_visit_starts_contour (W fuel : Nat) (s s' : ScanState) (p : Pt)
    (hcur : getM s.m W p = 1) (hleft : getM s.m W (p.1, p.2 - 1) = 0)
    (h : visit W fuel false s p = .ok s') :
    ∃ c, s'.contours = c :: s.contours ∧ c.head? = some (p.1 - 1, p.2 - 1) := by
  unfold visit at h
  simp only at h
  rw [if_neg (by omega)] at h
  have hsn : startNeighbor s.m W false s.lastNonzero p = some (p.1, p.2 - 1) := by
    simp [startNeighbor, hleft, hcur]
  rw [hsn] at h
  simp only at h
  split at h
  · cases h; exact ⟨_, rfl, rfl⟩
  · split at h
    · rename_i m' border hf
      cases h
      refine ⟨_, rfl, ?_⟩
      have := follow_first W p _ fuel s.m _ m' border (markStep_pushes hcur) hf
      rw [List.head?_map, this]; rfl
    · cases h
    · cases h


/-- **C36.S5b** The same in External mode, where a border only starts if the last non-zero pixel
seen on the row is not inside an outer border (`last_nonzero_pixel <= 0`). -/
theorem c36_visit_starts_contour_external (W fuel : Nat) (s s' : ScanState) (p : Pt)
    (hcur : getM s.m W p = 1) (hleft : getM s.m W (p.1, p.2 - 1) = 0) (hlast : s.lastNonzero ≤ 0)
    (h : visit W fuel true s p = .ok s') :
    ∃ c, s'.contours = c :: s.contours ∧ c.head? = some (p.1 - 1, p.2 - 1) := by
  unfold visit at h
  simp only at h
  rw [if_neg (by omega)] at h
  have hsn : startNeighbor s.m W true s.lastNonzero p = some (p.1, p.2 - 1) := by
    simp [startNeighbor, hleft, hcur, hlast]
  rw [hsn] at h
  simp only at h
  split at h
  · cases h; exact ⟨_, rfl, rfl⟩
  · split at h
    · rename_i m' border hf
      cases h
      refine ⟨_, rfl, ?_⟩
      have := follow_first W p _ fuel s.m _ m' border (markStep_pushes hcur) hf
      rw [List.head?_map, this]; rfl
    · cases h
    · cases h

/-- A run that goes through `follow`: the two-pixel component of a 1×3 mask `0 1 1` is traced
from its raster-first pixel. -/
example : (visit 5 200 false { m := padMask 1 3 [false, true, true], contours := [], lastNonzero := 0 }
    (1, 2)) matches .ok s' := by decide +kernel
example : findContours 1 3 [false, true, true] false = .ok [[(0, 1), (0, 2)]] := by decide +kernel

/-- The hypotheses are satisfiable: the single foreground pixel of a 1×1 mask. -/
example : getM (padMask 1 1 [true]) 3 (1, 1) = 1 ∧ getM (padMask 1 1 [true]) 3 (1, 0) = 0 := by
  decide

/-
`c36_component_has_outer_contour_partial` — what is missing for the component-level statement
"in List mode every 8-connected foreground component has a contour starting at its first pixel
in raster order": (a) when the scan reaches that pixel it is still unlabelled (working value 1):
border following only relabels pixels 8-connected to its start pixel, and earlier starts belong
to other components — needs a connectivity argument over the border-following path; (b) its
left neighbour is background (else the left neighbour would be an earlier pixel of the same
component) — immediate from the definition of "first in raster order"; (c) `follow` returns
(termination), proved only for the bounded scope.  (a)–(c) are exercised by the harness oracle
`component … has no outer contour` on every List-mode case (exhaustive ≤ 4×4 / 4×5).
-/

end RtenVerif.Contours
