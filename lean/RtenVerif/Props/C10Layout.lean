import RtenVerif.Props.C10Plan

/-! # C10 — shape-level `Transpose`, `Unsqueeze`, `Squeeze` and `ConstantOfShape` -/
namespace RtenVerif.ShapeInfer

theorem evalList_reverse (σ : Env) : ∀ (es : List Sym) (vs : List Int),
    evalList σ es = some vs → evalList σ es.reverse = some vs.reverse := by
  intro es
  induction es with
  | nil => intro vs h; simp only [evalList, mapO] at h; cases h; rfl
  | cons e es ih =>
    intro vs h
    obtain ⟨v, vs', he, hes, rfl⟩ := evalList_cons σ e es vs h
    simp only [List.reverse_cons]
    exact evalList_append σ _ [e] _ [v] (ih vs' hes) (by simp [evalList, mapO, he])

theorem evalList_gets (σ : Env) (es : List Sym) (vs : List Int) (h : evalList σ es = some vs) :
    ∀ (p : List Nat) (out : List Sym), mapO (fun i => es[i]?) p = some out →
      ∃ w, mapO (fun i => vs[i]?) p = some w ∧ evalList σ out = some w := by
  intro p
  induction p with
  | nil => intro out h1; simp only [mapO] at h1; cases h1; exact ⟨[], rfl, rfl⟩
  | cons i p ih =>
    intro out h1
    simp only [mapO] at h1
    cases he : es[i]? with
    | none => simp [he] at h1
    | some e =>
      simp only [he] at h1
      cases hr : mapO (fun i => es[i]?) p with
      | none => simp [hr] at h1
      | some os =>
        simp only [hr] at h1; cases h1
        obtain ⟨v, hv, hev⟩ := evalList_getElem σ es vs i e h he
        obtain ⟨w, hw, hew⟩ := ih os hr
        exact ⟨v :: w, by simp [mapO, hv, hw], evalList_cons_intro σ e os v w hev hew⟩

/-- **C10.T1-transpose**. -/
theorem c10_transpose_sound (σ : Env) (perm : Option (List Nat)) (a : STn) (c : CT) (out : List Sym)
    (ha : Agrees σ a c) (hi : transposeInfer perm a = .ok (.shape out)) :
    ∃ zs, ctranspose perm c.dims = some zs ∧ Agrees σ (.shape out) (.shaped zs) := by
  unfold transposeInfer at hi
  cases hd : a.dims with
  | none => simp [hd] at hi
  | some ds =>
    have hev := dims_agree σ a c ds ha hd
    simp only [hd] at hi
    cases perm with
    | none =>
      simp only [Except.ok.injEq, STn.shape.injEq] at hi; subst hi
      exact ⟨_, rfl, evalList_reverse σ ds _ hev⟩
    | some p =>
      simp only at hi
      cases hm : mapO (fun i => ds[i]?) p with
      | none => simp [hm] at hi
      | some o =>
        simp only [hm, Except.ok.injEq, STn.shape.injEq] at hi; subst hi
        obtain ⟨w, hw, hew⟩ := evalList_gets σ ds _ hev p o hm
        exact ⟨w, hw, hew⟩

theorem evalList_insertAt (σ : Env) : ∀ (k : Nat) (es : List Sym) (vs : List Int),
    evalList σ es = some vs → evalList σ (insertAt k (.val 1) es) = some (insertAt k 1 vs) := by
  intro k
  induction k with
  | zero => intro es vs h; exact evalList_cons_intro σ _ es 1 vs rfl h
  | succ k ih =>
    intro es vs h
    cases es with
    | nil => simp only [evalList, mapO] at h; cases h; rfl
    | cons e es =>
      obtain ⟨v, vs', he, hes, rfl⟩ := evalList_cons σ e es vs h
      simp only [insertAt]
      exact evalList_cons_intro σ e _ v _ he (ih es vs' hes)

theorem evalList_foldl_insert (σ : Env) : ∀ (axes : List Nat) (es : List Sym) (vs : List Int),
    evalList σ es = some vs →
    evalList σ (axes.foldl (fun d ax => insertAt ax (Sym.val 1) d) es) =
      some (axes.foldl (fun d ax => insertAt ax (1 : Int) d) vs) := by
  intro axes
  induction axes with
  | nil => intro es vs h; exact h
  | cons ax axes ih => intro es vs h; exact ih _ _ (evalList_insertAt σ ax es vs h)

/-- **C10.T1-unsqueeze (shape rule)**. -/
theorem c10_unsqueeze_shape_sound (σ : Env) (a : STn) (c : CT) (axes : List Int) (out : List Sym)
    (ha : Agrees σ a c) (hi : unsqueezeShape a axes = .ok (.shape out)) :
    ∃ zs, cunsqueeze c.dims axes = some zs ∧ Agrees σ (.shape out) (.shaped zs) := by
  unfold unsqueezeShape at hi
  cases hd : a.dims with
  | none => simp [hd] at hi
  | some ds =>
    have hev := dims_agree σ a c ds ha hd
    have hlen := evalList_length σ ds _ hev
    simp only [hd] at hi
    cases hm : mapO (resolveIndex (ds.length + axes.length)) axes with
    | none => simp [hm] at hi
    | some rs =>
      simp only [hm] at hi
      by_cases hdup : hasAdjDup (sortNat rs) = true
      · simp [hdup] at hi
      · simp only [hdup, Bool.false_eq_true, if_false, Except.ok.injEq, STn.shape.injEq] at hi; subst hi
        refine ⟨_, by simp only [cunsqueeze, ← hlen, hm, Option.map_some]; rfl, ?_⟩
        exact evalList_foldl_insert σ _ ds _ hev

theorem evalList_removeIdx (σ : Env) (rm : List Nat) : ∀ (es : List Sym) (vs : List Int) (i : Nat),
    evalList σ es = some vs → evalList σ (removeIdx rm i es) = some (removeIdx rm i vs) := by
  intro es
  induction es with
  | nil => intro vs i h; simp only [evalList, mapO] at h; cases h; rfl
  | cons e es ih =>
    intro vs i h
    obtain ⟨v, vs', he, hes, rfl⟩ := evalList_cons σ e es vs h
    simp only [removeIdx]
    by_cases hc : rm.contains i = true
    · simp only [hc, if_true]; exact ih vs' (i + 1) hes
    · simp only [hc, Bool.false_eq_true, if_false]
      exact evalList_cons_intro σ e _ v _ he (ih vs' (i + 1) hes)

/-- **C10.T1-squeeze (shape rule, constant axes)**. -/
theorem c10_squeeze_shape_sound (σ : Env) (a : STn) (c : CT) (axes : List Int) (out : List Sym)
    (ha : Agrees σ a c) (hi : squeezeShape a axes = .ok (.shape out)) :
    ∃ zs, csqueeze c.dims axes = some zs ∧ Agrees σ (.shape out) (.shaped zs) := by
  unfold squeezeShape at hi
  cases hd : a.dims with
  | none => simp [hd] at hi
  | some ds =>
    have hev := dims_agree σ a c ds ha hd
    have hlen := evalList_length σ ds _ hev
    simp only [hd] at hi
    cases hm : mapO (resolveIndex ds.length) axes with
    | none => simp [hm] at hi
    | some rs =>
      simp only [hm, Except.ok.injEq, STn.shape.injEq] at hi; subst hi
      refine ⟨_, by simp only [csqueeze, ← hlen, hm, Option.map_some]; rfl, ?_⟩
      exact evalList_removeIdx σ rs ds _ 0 hev

theorem evalList_replicate_val (σ : Env) (v : Int) : ∀ k, evalList σ (List.replicate k (Sym.val v)) = some (List.replicate k v) := by
  intro k
  induction k with
  | zero => rfl
  | succ k ih => simpa [List.replicate_succ] using evalList_cons_intro σ (.val v) _ v _ rfl ih

/-- **C10.T1-constantofshape** (valued shape input). -/
theorem c10_constantOfShape_sound (σ : Env) (value : Option Int) (shape : List Sym) (vs : List Int) (r : STn) (cr : CT)
    (hs : evalList σ shape = some vs) (hi : constantOfShapeInfer value shape = .ok r)
    (he : cconstantOfShape value vs = some cr) : Agrees σ r cr := by
  cases value with
  | none =>
    simp only [constantOfShapeInfer, Except.ok.injEq] at hi
    simp only [cconstantOfShape, Option.some.injEq] at he
    subst hi; subst he; exact hs
  | some v =>
    match shape, vs, hs with
    | [], vs, hs =>
      simp only [evalList, mapO] at hs; cases hs
      simp only [constantOfShapeInfer, Except.ok.injEq] at hi
      simp only [cconstantOfShape, Option.some.injEq] at he
      subst hi; subst he; exact ⟨v, rfl, rfl⟩
    | [e], vs, hs =>
      obtain ⟨n, vs', hen, hnil, rfl⟩ := evalList_cons σ e [] vs hs
      simp only [evalList, mapO] at hnil; cases hnil
      simp only [cconstantOfShape] at he
      by_cases hn : 0 ≤ n
      · simp only [hn, if_true, Option.some.injEq] at he; subst he
        cases e with
        | val m =>
          simp only [Sym.eval] at hen; cases hen
          simp only [constantOfShapeInfer, hn, if_true, Except.ok.injEq] at hi; subst hi
          exact ⟨_, rfl, evalList_replicate_val σ v _⟩
        | _ =>
          simp only [constantOfShapeInfer, Except.ok.injEq] at hi; subst hi
          simp [Agrees, CT.dims, evalList, mapO, hen, Int.toNat_of_nonneg hn]
      · simp [hn] at he
    | e1 :: e2 :: es, vs, hs =>
      obtain ⟨v1, vs1, _, h2, rfl⟩ := evalList_cons σ e1 _ vs hs
      obtain ⟨v2, vs2, _, _, rfl⟩ := evalList_cons σ e2 _ vs1 h2
      simp only [constantOfShapeInfer, Except.ok.injEq] at hi
      simp only [cconstantOfShape, Option.some.injEq] at he
      subst hi; subst he; exact hs

end RtenVerif.ShapeInfer
