import RtenVerif.Props.C01
import RtenVerif.Props.C01Fusions
import RtenVerif.Lemmas.OptimizeReplace

/-!
# C01 — M1: a concrete (shape × data) operator semantics and `hsem` for real fusions

`tsem F` is one concrete `Sem`: values are tensors `⟨shape, row-major data⟩` over an abstract scalar
structure `F` (only `x*1 = x`, `x/1 = x` are laws of the structure; for `x+z` / `x−z` the identity
property `∀ x, x + z = x` of the *matched constant* `z` is a hypothesis of `hsem_identity`, because in
IEEE arithmetic it holds for `z = −0.0` (resp. `+0.0` for subtraction) but NOT for `z = +0.0`:
`−0.0 + 0.0 = +0.0` — open finding C01-identity-signed-zero, witness `signed_zero_add_law_false`). Elementwise binary
operators broadcast (ONNX / NumPy rule `bshape`) when the shapes are equal or one operand is a
single-element tensor — exactly the situations of the scalar-constant fusions; other broadcasts are
outside this semantics (the operator fails). For a single-element operand of shape `[1,…,1]` the
row-major data of the result is the other operand's data mapped, and the result *shape* is
`bshape` of both shapes: a constant of higher rank yields a higher-rank output.

For Silu, Swish, Reciprocal and Identity (`x+0`, `x*1`) the hypothesis `hsem` of
`c01_rewrite_sound` is proved **shape included**; the rank condition of the fixed guard
(`k ≤ rank x`, `c01_scalar_const_keeps_shape`) is what makes the shapes agree.
`c01_silu_rewrite_instance` instantiates `c01_rewrite_sound` with every hypothesis discharged.
-/
namespace RtenVerif.Optimize.TSem
open RtenVerif.Optimize RtenVerif.Optimize.Fusions

structure Scalars (α : Type) where
  add : α → α → α
  sub : α → α → α
  mul : α → α → α
  div : α → α → α
  zero : α
  one : α
  sig : α → α
  mul_one : ∀ x, mul x one = x
  div_one : ∀ x, div x one = x

structure Ten (α : Type) where
  shape : List Nat
  data : List α
deriving DecidableEq, Repr

inductive FK (α : Type) where
  | add | sub | mul | div | sigmoid | identity | reciprocal | silu
  | swish (alpha : α)
  | other

variable {α : Type}

def allOnes (s : List Nat) : Bool := s.all (· == 1)

/-- elementwise binary operator with the modelled part of broadcasting: a single-element operand of
shape `[1,…,1]` (either side), else equal shapes -/
def binop (f : α → α → α) (a b : Ten α) : Option (Ten α) :=
  match b.data, allOnes b.shape with
  | [y], true => (bshape a.shape b.shape).map fun sh => ⟨sh, a.data.map (f · y)⟩
  | _, _ =>
    match a.data, allOnes a.shape with
    | [x], true => (bshape a.shape b.shape).map fun sh => ⟨sh, b.data.map (f x ·)⟩
    | _, _ => if a.shape = b.shape then some ⟨a.shape, List.zipWith f a.data b.data⟩ else none

def tmap (f : α → α) (a : Ten α) : Ten α := ⟨a.shape, a.data.map f⟩

def tsem (F : Scalars α) : Sem (FK α) (Ten α) where
  app
    | .add, [a, b] => (binop F.add a b).map ([·])
    | .sub, [a, b] => (binop F.sub a b).map ([·])
    | .mul, [a, b] => (binop F.mul a b).map ([·])
    | .div, [a, b] => (binop F.div a b).map ([·])
    | .sigmoid, [a] => some [tmap F.sig a]
    | .identity, [a] => some [a]
    | .reciprocal, [a] => some [tmap (fun x => F.div F.one x) a]
    | .silu, [a] => some [tmap (fun x => F.mul x (F.sig x)) a]
    | .swish alpha, [a] => some [tmap (fun x => F.mul x (F.sig (F.mul alpha x))) a]
    | _, _ => none

theorem zipWith_map_right' (f : α → α → α) (h : α → α) : ∀ xs : List α,
    List.zipWith f xs (xs.map h) = xs.map (fun x => f x (h x)) := by
  intro xs
  induction xs with
  | nil => rfl
  | cons x xs ih => simp [List.zipWith, ih]

theorem allOnes_replicate (s : List Nat) (h : allOnes s = true) : s = List.replicate s.length 1 := by
  induction s with
  | nil => rfl
  | cons x xs ih =>
    simp only [allOnes, List.all_cons, Bool.and_eq_true, beq_iff_eq] at h
    simp only [List.length_cons, List.replicate_succ]
    rw [h.1, ← ih (by simpa [allOnes] using h.2)]

theorem bshapeRev_ones_left (xs : List Nat) : ∀ k, k ≤ xs.length → bshapeRev (List.replicate k 1) xs = some xs := by
  induction xs with
  | nil => intro k hk; have : k = 0 := by simpa using hk
           subst this; rfl
  | cons x xs ih =>
    intro k hk
    cases k with
    | zero => simp [bshapeRev]
    | succ k =>
      have hk' : k ≤ xs.length := by simpa using hk
      have hb : bdim 1 x = some x := by
        unfold bdim; by_cases h : 1 = x
        · simp [h]
        · by_cases h2 : x = 1
          · exact absurd h2.symm h
          · simp [h, h2]
      simp [List.replicate_succ, bshapeRev, hb, ih k hk']

theorem bshape_ones_left (xs : List Nat) (k : Nat) (hk : k ≤ xs.length) : bshape (List.replicate k 1) xs = some xs := by
  unfold bshape
  rw [List.reverse_replicate, bshapeRev_ones_left xs.reverse k (by simpa using hk)]
  simp

/-- Broadcasting against a single-element constant of rank ≤ the rank of `a` on the right (the
fixed guard's condition): shape of `a`, data mapped. -/
theorem binop_scalar_right (f : α → α → α) (a c : Ten α) (y : α) (hd : c.data = [y]) (h1 : allOnes c.shape = true)
    (hr : c.shape.length ≤ a.shape.length) : binop f a c = some ⟨a.shape, a.data.map (f · y)⟩ := by
  have hb : bshape a.shape c.shape = some a.shape := by
    rw [allOnes_replicate c.shape h1]; exact c01_scalar_const_keeps_shape a.shape _ hr
  simp [binop, hd, h1, hb]

/-- … and on the left. -/
theorem binop_scalar_left (f : α → α → α) (c a : Ten α) (y : α) (hd : c.data = [y]) (h1 : allOnes c.shape = true)
    (hr : c.shape.length ≤ a.shape.length) : binop f c a = some ⟨a.shape, a.data.map (f y ·)⟩ := by
  have hb : bshape c.shape a.shape = some a.shape := by
    rw [allOnes_replicate c.shape h1]; exact bshape_ones_left a.shape _ hr
  unfold binop
  split
  · -- `a` is itself a single-element tensor of shape [1,…,1]
    rename_i x hx ha
    simp [hd, hb, hx]
  · simp [hd, h1, hb]

/-- `f x (h x)` elementwise: `binop f a (tmap h a)`. -/
theorem binop_self_map (f : α → α → α) (h : α → α) (a : Ten α) :
    binop f a ⟨a.shape, a.data.map h⟩ = some ⟨a.shape, a.data.map (fun x => f x (h x))⟩ := by
  unfold binop
  split
  · rename_i y hy ha
    -- a.data.map h = [y]: a has one element
    have hb : bshape a.shape a.shape = some a.shape := by
      have := allOnes_replicate a.shape ha
      rw [this]; exact c01_scalar_const_keeps_shape _ _ (by simp)
    cases hda : a.data with
    | nil => simp [hda] at hy
    | cons x xs =>
      cases xs with
      | nil =>
        simp only [hda, List.map, List.cons.injEq, and_true] at hy
        simp [hb, hy]
      | cons x2 xs2 => simp [hda] at hy
  · rename_i hne
    split
    · rename_i x hx ha
      exact absurd ha (fun hh => hne (h x) (by simp [hx]) hh)
    · simp [zipWith_map_right']

/-! ## `hsem` for real fusions (value ids: 0 = x, 5 = the pattern constant, others intermediate) -/

variable (F : Scalars α)

def opSig : Op (FK α) := ⟨10, .sigmoid, [0], [], [1]⟩
def opMulXT : Op (FK α) := ⟨11, .mul, [0, 1], [], [2]⟩
def opSilu : Op (FK α) := ⟨13, .silu, [0], [], [2]⟩

/-- **hsem, Silu**: `Mul(x, Sigmoid(x))` = `Silu(x)`, value and shape, or both fail. -/
theorem hsem_silu (E : Env (Ten α)) :
    run (tsem F) [opSig, opMulXT] E 2 = step (tsem F) E opSilu 2 := by
  cases hx : E 0 with
  | none => simp [run, step, result, readAll, Op.reads, opSig, opMulXT, opSilu, hx]
  | some a =>
    simp [run, step, result, readAll, Op.reads, opSig, opMulXT, opSilu, hx, bind, tsem, tmap, binop_self_map]

def opMulAX : Op (FK α) := ⟨10, .mul, [5, 0], [], [1]⟩
def opSigU : Op (FK α) := ⟨11, .sigmoid, [1], [], [2]⟩
def opMulXT2 : Op (FK α) := ⟨12, .mul, [0, 2], [], [3]⟩
def opSwish (alpha : α) : Op (FK α) := ⟨13, .swish alpha, [0], [], [3]⟩

/-- **hsem, Swish**: `Mul(x, Sigmoid(Mul(alpha, x)))` = `Swish_alpha(x)` when `alpha` is a
single-element constant whose rank does not exceed the rank of `x` (the fixed `get_scalar_operand`). -/
theorem hsem_swish (E : Env (Ten α)) (c : Ten α) (alpha : α) (hc : E 5 = some c) (hd : c.data = [alpha])
    (h1 : allOnes c.shape = true) (hr : ∀ a, E 0 = some a → c.shape.length ≤ a.shape.length)
    (hE1 : E 1 = none) (hE2 : E 2 = none) :
    run (tsem F) [opMulAX, opSigU, opMulXT2] E 3 = step (tsem F) E (opSwish alpha) 3 := by
  cases hx : E 0 with
  | none => simp [run, step, result, readAll, Op.reads, opMulAX, opSigU, opMulXT2, opSwish, hx, hc, hE1, hE2]
  | some a =>
    have hb := binop_scalar_left F.mul c a alpha hd h1 (hr a hx)
    have hs := binop_self_map F.mul (fun x => F.sig (F.mul alpha x)) a
    simp [run, step, result, readAll, Op.reads, opMulAX, opSigU, opMulXT2, opSwish, hx, hc, bind, tsem, tmap, hb,
      List.map_map, Function.comp_def] at hs ⊢
    simp [hs, bind]

def opDivCX : Op (FK α) := ⟨10, .div, [5, 0], [], [1]⟩
def opRecip : Op (FK α) := ⟨11, .reciprocal, [0], [], [1]⟩

/-- **hsem, Reciprocal**: `Div(1, x)` = `Reciprocal(x)` under the rank condition. -/
theorem hsem_reciprocal (E : Env (Ten α)) (c : Ten α) (hc : E 5 = some c) (hd : c.data = [F.one])
    (h1 : allOnes c.shape = true) (hr : ∀ a, E 0 = some a → c.shape.length ≤ a.shape.length) :
    run (tsem F) [opDivCX] E 1 = step (tsem F) E opRecip 1 := by
  cases hx : E 0 with
  | none => simp [run, step, result, readAll, Op.reads, opDivCX, opRecip, hx, hc]
  | some a =>
    have hb := binop_scalar_left F.div c a F.one hd h1 (hr a hx)
    simp [run, step, result, readAll, Op.reads, opDivCX, opRecip, hx, hc, bind, tsem, tmap, hb]

def opBinXC (k : FK α) : Op (FK α) := ⟨10, k, [0, 5], [], [1]⟩
def opIdent : Op (FK α) := ⟨11, .identity, [0], [], [1]⟩

theorem map_id_of (f : α → α) (h : ∀ x, f x = x) (l : List α) : l.map f = l := by
  induction l with
  | nil => rfl
  | cons x xs ih => simp [h x, ih]

/-- **hsem, IdentityFusion** (`x+0`, `x-0`, `x*1`, `x/1`, the output kept through an `Identity`
operator as for a graph output) under the rank condition. -/
theorem hsem_identity (E : Env (Ten α)) (c : Ten α) (hc : E 5 = some c) (h1 : allOnes c.shape = true)
    (hr : ∀ a, E 0 = some a → c.shape.length ≤ a.shape.length) :
    (∀ z, c.data = [z] → (∀ x, F.add x z = x) → run (tsem F) [opBinXC .add] E 1 = step (tsem F) E opIdent 1) ∧
    (∀ z, c.data = [z] → (∀ x, F.sub x z = x) → run (tsem F) [opBinXC .sub] E 1 = step (tsem F) E opIdent 1) ∧
    (c.data = [F.one] → run (tsem F) [opBinXC .mul] E 1 = step (tsem F) E opIdent 1) ∧
    (c.data = [F.one] → run (tsem F) [opBinXC .div] E 1 = step (tsem F) E opIdent 1) := by
  cases hx : E 0 with
  | none =>
    refine ⟨?_, ?_, ?_, ?_⟩
    · intro _ _ _; simp [run, step, result, readAll, Op.reads, opBinXC, opIdent, hx, hc]
    · intro _ _ _; simp [run, step, result, readAll, Op.reads, opBinXC, opIdent, hx, hc]
    · intro _; simp [run, step, result, readAll, Op.reads, opBinXC, opIdent, hx, hc]
    · intro _; simp [run, step, result, readAll, Op.reads, opBinXC, opIdent, hx, hc]
  | some a =>
    refine ⟨?_, ?_, ?_, ?_⟩
    · intro z hd hz
      have hb := binop_scalar_right F.add a c z hd h1 (hr a hx)
      simp [run, step, result, readAll, Op.reads, opBinXC, opIdent, hx, hc, bind, tsem, hb, map_id_of _ hz]
    · intro z hd hz
      have hb := binop_scalar_right F.sub a c z hd h1 (hr a hx)
      simp [run, step, result, readAll, Op.reads, opBinXC, opIdent, hx, hc, bind, tsem, hb, map_id_of _ hz]
    · intro hd
      have hb := binop_scalar_right F.mul a c F.one hd h1 (hr a hx)
      simp [run, step, result, readAll, Op.reads, opBinXC, opIdent, hx, hc, bind, tsem, hb, map_id_of _ F.mul_one]
    · intro hd
      have hb := binop_scalar_right F.div a c F.one hd h1 (hr a hx)
      simp [run, step, result, readAll, Op.reads, opBinXC, opIdent, hx, hc, bind, tsem, hb, map_id_of _ F.div_one]

/-! ## the rank condition is needed (ℤ as scalars) -/

def intScalars : Scalars Int :=
  { add := (· + ·), sub := (· - ·), mul := (· * ·), div := (· / ·), zero := 0, one := 1, sig := id,
    mul_one := Int.mul_one, div_one := Int.ediv_one }

def envBad : Env (Ten Int) := fun i =>
  if i = 0 then some ⟨[3], [1, 2, 3]⟩ else if i = 5 then some ⟨[1, 1], [0]⟩ else none

/-- `x:[3] + 0:[1,1]` has shape `[1,3]`; the Identity rewrite gives `[3]`: without the rank condition
`hsem` is false (the pre-fix defect, reproduced on the real code). -/
theorem hsem_identity_rank_needed :
    run (tsem intScalars) [opBinXC .add] envBad 1 = some ⟨[1, 3], [1, 2, 3]⟩ ∧
    step (tsem intScalars) envBad opIdent 1 = some ⟨[3], [1, 2, 3]⟩ := by decide

/-! ## signed zeros: `x + (+0)` is not an identity (open finding C01-identity-signed-zero) -/

/-- the two IEEE zeros with IEEE addition restricted to them: `−0 + −0 = −0`, everything else `+0` -/
inductive SZ | pz | nz
deriving DecidableEq

def SZ.add : SZ → SZ → SZ
  | .nz, .nz => .nz
  | _, _ => .pz

/-- `z = −0` is an additive identity, `z = +0` is not (`−0 + +0 = +0`): IdentityFusion's removal of
`Add(x, +0.0)` is not covered by `hsem_identity` — and is wrong on the real code at `x = −0.0`. -/
theorem signed_zero_add_law_false :
    (∀ x, SZ.add x .nz = x) ∧ ¬ (∀ x, SZ.add x .pz = x) := by
  refine ⟨fun x => by cases x <;> rfl, fun h => ?_⟩
  have := h .nz
  exact absurd this (by decide)

/-! ## `c01_rewrite_sound` instantiated: the Silu fusion inside a graph -/

/-- consumer of the fused output: 3 = Sigmoid(2) -/
def opPost : Op (FK α) := ⟨12, .sigmoid, [2], [], [3]⟩

/-- Every hypothesis of `c01_rewrite_sound` discharged for `[Sigmoid, Mul, post]` with the
concrete tensor semantics: the graph output 3 is unchanged by the Silu rewrite, for every
environment (inputs / constants) that leaves the operator outputs undefined. -/
theorem c01_silu_rewrite_instance (env : Env (Ten α)) (h1 : env 1 = none) (h2 : env 2 = none) (h3 : env 3 = none) :
    run (tsem F) [opSig, opMulXT, opPost] env 3
      = run (tsem F) (fuse [opSig, opMulXT, opPost] [10, 11] 11 opSilu) env 3 := by
  have := c01_rewrite_sound (tsem F) [opSig] [opPost] opMulXT opSilu [10, 11] [3] env
    (by simp [WF, outsAll, Op.reads, opSig, opMulXT, opPost])
    (by intro i hi; simp [outsAll, opSig, opMulXT, opPost] at hi; rcases hi with rfl | rfl | rfl <;> assumption)
    (by simp [opSig, opMulXT]) (by simp [opPost, opMulXT]) (by simp [opMulXT]) rfl
    (by simp [Op.reads, opSilu, outsAll, opSig])
    (by rfl)
    (by intro E _ _ j hj
        simp [opMulXT] at hj; subst hj
        simpa [opSig] using hsem_silu F E)
    3 (by simp)
  simpa [opMulXT] using this

/-! ## `replace_sound` (M3) instantiated: IdentityFusion through `replace_value` -/

/-- consumer of the removed value: 2 = Sigmoid(1) -/
def opPost1 : Op (FK α) := ⟨12, .sigmoid, [1], [], [2]⟩

/-- `y = Sigmoid(x + z)` with an identity constant `z` (`∀ x, x + z = x`) whose rank does not exceed the rank of `x`: after
IdentityFusion (`Add` removed, its output replaced by `x` in the consumer) every value that was
defined is unchanged. -/
theorem c01_identity_replace_instance (env : Env (Ten α)) (c : Ten α) (z : α) (hz : ∀ x, F.add x z = x)
    (hc : env 5 = some c) (hd : c.data = [z])
    (h1 : allOnes c.shape = true) (hr : ∀ a, env 0 = some a → c.shape.length ≤ a.shape.length)
    (e1 : env 1 = none) (e2 : env 2 = none) (v : Ten α)
    (h : run (tsem F) [opBinXC .add, opPost1] env 2 = some v) :
    run (tsem F) ([opPost1].map (substIns 1 0)) env 2 = some v := by
  have := replace_sound (tsem F) [] [opPost1] (opBinXC .add) 1 0 env
    (by simp [WF, outsAll, Op.reads, opBinXC, opPost1])
    (by intro i hi; simp [outsAll, opBinXC, opPost1] at hi; rcases hi with rfl | rfl <;> assumption)
    rfl (by simp [outsAll, opBinXC, opPost1]) (by simp [opPost1])
    (by intro E hE hEb w hw
        have hE0 : E 0 = env 0 := hE 0 (by simp [outsAll, opBinXC, opPost1])
        have hE5 : E 5 = some c := (hE 5 (by simp [outsAll, opBinXC, opPost1])).trans hc
        cases hx : E 0 with
        | none => simp [step, result, readAll, Op.reads, opBinXC, hx, hEb] at hw
        | some a =>
          have hb := binop_scalar_right F.add a c z hd h1 (hr a (hE0 ▸ hx))
          simp [step, result, readAll, Op.reads, opBinXC, hx, hE5, bind, tsem, hb, map_id_of _ hz] at hw
          rw [← hw])
    2 v h
  simpa using this

end RtenVerif.Optimize.TSem

/-! # Softmax fusions with the `flush_nans_to_zero` flag (seed C01_c)

One lane (the softmax axis) over scalars with a NaN test: `sm` is the lane softmax (it may produce
NaNs, e.g. for a fully masked lane), `Softmax{flush}` replaces NaNs of its result by zero.
`hsem_safe_softmax`: `Where(IsNaN(P), 0, P)`, `P = Softmax{false}(x)`, is `Softmax{true}(x)`.
`hsem_add_softmax`: `Softmax{fl}(Add(qk, mask))` is `AddSoftmax{fl}(qk, mask)` — **for the same flag**;
`add_softmax_flag_needed`: with the flag dropped the results differ on a fully masked lane. -/
namespace RtenVerif.Optimize.SoftmaxSem
open RtenVerif.Optimize

structure Lane (α : Type) where
  add : α → α → α
  zero : α
  isNan : α → Bool
  sm : List α → List α
  sm_length : ∀ l, (sm l).length = l.length

inductive SV (α : Type) where
  | f (l : List α)
  | b (l : List Bool)
deriving DecidableEq

inductive SK where
  | add | isnan | whereZ
  | softmax (flush : Bool)
  | addsoftmax (flush : Bool)
deriving DecidableEq

variable {α : Type}

def flushIf (L : Lane α) (fl : Bool) (l : List α) : List α :=
  if fl then l.map (fun v => if L.isNan v then L.zero else v) else l

def ssem (L : Lane α) : Sem SK (SV α) where
  app
    | .add, [.f a, .f b] => if a.length = b.length then some [.f (List.zipWith L.add a b)] else none
    | .softmax fl, [.f a] => some [.f (flushIf L fl (L.sm a))]
    | .isnan, [.f a] => some [.b (a.map L.isNan)]
    | .whereZ, [.b c, .f [z], .f y] =>
      if c.length = y.length then some [.f (List.zipWith (fun (c : Bool) v => if c then z else v) c y)] else none
    | .addsoftmax fl, [.f a, .f b] =>
      if a.length = b.length then some [.f (flushIf L fl (L.sm (List.zipWith L.add a b)))] else none
    | _, _ => none

theorem where_isnan (L : Lane α) : ∀ l : List α,
    List.zipWith (fun (c : Bool) v => if c then L.zero else v) (l.map L.isNan) l
      = l.map (fun v => if L.isNan v then L.zero else v) := by
  intro l
  induction l with
  | nil => rfl
  | cons x xs ih => simp [List.zipWith, ih]

/-- value ids: 0 = x / qk, 4 = mask, 5 = the zero constant -/
def oSoftmax (fl : Bool) (i o : Nat) : Op SK := ⟨10, .softmax fl, [i], [], [o]⟩
def oIsNan : Op SK := ⟨11, .isnan, [1], [], [2]⟩
def oWhere : Op SK := ⟨12, .whereZ, [2, 5, 1], [], [3]⟩
def oAdd : Op SK := ⟨13, .add, [0, 4], [], [1]⟩
def oAddSoftmax (fl : Bool) : Op SK := ⟨14, .addsoftmax fl, [0, 4], [], [2]⟩

/-- **hsem, SafeSoftmaxFusion**. -/
theorem hsem_safe_softmax (L : Lane α) (E : Env (SV α)) (hz : E 5 = some (.f [L.zero])) (h1 : E 1 = none) (h2 : E 2 = none) :
    run (ssem L) [oSoftmax false 0 1, oIsNan, oWhere] E 3 = step (ssem L) E (oSoftmax true 0 3) 3 := by
  cases hx : E 0 with
  | none => simp [run, step, result, readAll, Op.reads, oSoftmax, oIsNan, oWhere, hx, h1, h2]
  | some xv =>
    cases xv with
    | b l => simp [run, step, result, readAll, Op.reads, oSoftmax, oIsNan, oWhere, hx, h1, h2, ssem, bind]
    | f l =>
      simp [run, step, result, readAll, Op.reads, oSoftmax, oIsNan, oWhere, hx, hz, ssem, bind, flushIf, where_isnan]

/-- **hsem, AddSoftmaxFusion** — the fused operator carries the Softmax's own flag. -/
theorem hsem_add_softmax (L : Lane α) (fl : Bool) (E : Env (SV α)) (h1 : E 1 = none) :
    run (ssem L) [oAdd, oSoftmax fl 1 2] E 2 = step (ssem L) E (oAddSoftmax fl) 2 := by
  cases hq : E 0 with
  | none => simp [run, step, result, readAll, Op.reads, oAdd, oSoftmax, oAddSoftmax, hq, h1]
  | some qv =>
    cases hm : E 4 with
    | none => simp [run, step, result, readAll, Op.reads, oAdd, oSoftmax, oAddSoftmax, hq, hm, h1]
    | some mv =>
      cases qv with
      | b l => cases mv <;> simp [run, step, result, readAll, Op.reads, oAdd, oSoftmax, oAddSoftmax, hq, hm, h1, ssem]
      | f a =>
        cases mv with
        | b l => simp [run, step, result, readAll, Op.reads, oAdd, oSoftmax, oAddSoftmax, hq, hm, h1, ssem]
        | f m =>
          by_cases hl : a.length = m.length
          · simp [run, step, result, readAll, Op.reads, oAdd, oSoftmax, oAddSoftmax, hq, hm, ssem, bind, hl]
          · simp [run, step, result, readAll, Op.reads, oAdd, oSoftmax, oAddSoftmax, hq, hm, h1, ssem, hl]

/-! ## the flag is needed: `Option Int` scalars, `none` = NaN, `-1000` = −inf -/

def optLane : Lane (Option Int) :=
  { add := fun a b => match a, b with
      | some x, some y => if x = -1000 ∨ y = -1000 then some (-1000) else some (x + y)
      | _, _ => none,
    zero := some 0,
    isNan := Option.isNone,
    sm := fun l => if l.all (· == some (-1000)) then l.map (fun _ => none) else l,
    sm_length := by intro l; split <;> simp }

def envMasked : Env (SV (Option Int)) := fun i =>
  if i = 0 then some (.f [some 1, some 2]) else if i = 4 then some (.f [some (-1000), some (-1000)]) else none

/-- A fully masked lane: `Softmax{flush}(qk + mask)` is all zeros, `AddSoftmax{flush = false}` is all
NaN — dropping the flag in AddSoftmaxFusion (seed C01_c) changes NaN positions. -/
theorem add_softmax_flag_needed :
    run (ssem optLane) [oAdd, oSoftmax true 1 2] envMasked 2 = some (.f [some 0, some 0]) ∧
    step (ssem optLane) envMasked (oAddSoftmax false) 2 = some (.f [none, none]) ∧
    step (ssem optLane) envMasked (oAddSoftmax true) 2 = some (.f [some 0, some 0]) := by decide

end RtenVerif.Optimize.SoftmaxSem
