import RtenVerif.Props.C01
import RtenVerif.Props.C01Fusions
import RtenVerif.Lemmas.OptimizeReplace

/-!
# C01 — M1: a concrete (shape × data) operator semantics and `hsem` for real fusions

`tsem F` is one concrete `Sem`: values are tensors `⟨shape, row-major data⟩` over an abstract scalar
structure `F` (any field; only `x+0 = x`, `x-0 = x`, `x*1 = x`, `x/1 = x` are used). Elementwise binary
operators broadcast (ONNX / NumPy rule `bshape`) when the shapes are equal or one operand is a
single-element tensor — exactly the situations of the scalar-constant fusions; other broadcasts are
outside this semantics (the operator fails). For a single-element operand of shape `[1,…,1]` the
row-major data of the result is the other operand's data mapped, and the result *shape* is
`bshape` of both shapes: a constant of higher rank yields a higher-rank output.

For Silu, Swish, Reciprocal and Identity (`x+0`, `x*1`) the hypothesis `hsem` of
`c01_rewrite_sound` is proved **shape included**; the rank condition of the fixed guard
(`k ≤ rank x`, `c01_scalar_const_keeps_shape`) is what makes the shapes agree.
`c01_silu_rewrite_instance` instantiates `c01_rewrite_sound` with every hypothesis discharged.
-/
namespace RtenVerif.Optimize.TSem
open RtenVerif.Optimize RtenVerif.Optimize.Fusions

structure Scalars (α : Type) where
  add : α → α → α
  sub : α → α → α
  mul : α → α → α
  div : α → α → α
  zero : α
  one : α
  sig : α → α
  add_zero : ∀ x, add x zero = x
  sub_zero : ∀ x, sub x zero = x
  mul_one : ∀ x, mul x one = x
  div_one : ∀ x, div x one = x

structure Ten (α : Type) where
  shape : List Nat
  data : List α
deriving DecidableEq, Repr

inductive FK (α : Type) where
  | add | sub | mul | div | sigmoid | identity | reciprocal | silu
  | swish (alpha : α)
  | other

variable {α : Type}

def allOnes (s : List Nat) : Bool := s.all (· == 1)

/-- elementwise binary operator with the modelled part of broadcasting: a single-element operand of
shape `[1,…,1]` (either side), else equal shapes -/
def binop (f : α → α → α) (a b : Ten α) : Option (Ten α) :=
  match b.data, allOnes b.shape with
  | [y], true => (bshape a.shape b.shape).map fun sh => ⟨sh, a.data.map (f · y)⟩
  | _, _ =>
    match a.data, allOnes a.shape with
    | [x], true => (bshape a.shape b.shape).map fun sh => ⟨sh, b.data.map (f x ·)⟩
    | _, _ => if a.shape = b.shape then some ⟨a.shape, List.zipWith f a.data b.data⟩ else none

def tmap (f : α → α) (a : Ten α) : Ten α := ⟨a.shape, a.data.map f⟩

def tsem (F : Scalars α) : Sem (FK α) (Ten α) where
  app
    | .add, [a, b] => (binop F.add a b).map ([·])
    | .sub, [a, b] => (binop F.sub a b).map ([·])
    | .mul, [a, b] => (binop F.mul a b).map ([·])
    | .div, [a, b] => (binop F.div a b).map ([·])
    | .sigmoid, [a] => some [tmap F.sig a]
    | .identity, [a] => some [a]
    | .reciprocal, [a] => some [tmap (fun x => F.div F.one x) a]
    | .silu, [a] => some [tmap (fun x => F.mul x (F.sig x)) a]
    | .swish alpha, [a] => some [tmap (fun x => F.mul x (F.sig (F.mul alpha x))) a]
    | _, _ => none

theorem zipWith_map_right' (f : α → α → α) (h : α → α) : ∀ xs : List α,
    List.zipWith f xs (xs.map h) = xs.map (fun x => f x (h x)) := by
  intro xs
  induction xs with
  | nil => rfl
  | cons x xs ih => simp [List.zipWith, ih]

theorem allOnes_replicate (s : List Nat) (h : allOnes s = true) : s = List.replicate s.length 1 := by
  induction s with
  | nil => rfl
  | cons x xs ih =>
    simp only [allOnes, List.all_cons, Bool.and_eq_true, beq_iff_eq] at h
    simp only [List.length_cons, List.replicate_succ]
    rw [h.1, ← ih (by simpa [allOnes] using h.2)]

theorem bshapeRev_ones_left (xs : List Nat) : ∀ k, k ≤ xs.length → bshapeRev (List.replicate k 1) xs = some xs := by
  induction xs with
  | nil => intro k hk; have : k = 0 := by simpa using hk
           subst this; rfl
  | cons x xs ih =>
    intro k hk
    cases k with
    | zero => simp [bshapeRev]
    | succ k =>
      have hk' : k ≤ xs.length := by simpa using hk
      have hb : bdim 1 x = some x := by
        unfold bdim; by_cases h : 1 = x
        · simp [h]
        · by_cases h2 : x = 1
          · exact absurd h2.symm h
          · simp [h, h2]
      simp [List.replicate_succ, bshapeRev, hb, ih k hk']

theorem bshape_ones_left (xs : List Nat) (k : Nat) (hk : k ≤ xs.length) : bshape (List.replicate k 1) xs = some xs := by
  unfold bshape
  rw [List.reverse_replicate, bshapeRev_ones_left xs.reverse k (by simpa using hk)]
  simp

/-- Broadcasting against a single-element constant of rank ≤ the rank of `a` on the right (the
fixed guard's condition): shape of `a`, data mapped. -/
theorem binop_scalar_right (f : α → α → α) (a c : Ten α) (y : α) (hd : c.data = [y]) (h1 : allOnes c.shape = true)
    (hr : c.shape.length ≤ a.shape.length) : binop f a c = some ⟨a.shape, a.data.map (f · y)⟩ := by
  have hb : bshape a.shape c.shape = some a.shape := by
    rw [allOnes_replicate c.shape h1]; exact c01_scalar_const_keeps_shape a.shape _ hr
  simp [binop, hd, h1, hb]

/-- … and on the left. -/
theorem binop_scalar_left (f : α → α → α) (c a : Ten α) (y : α) (hd : c.data = [y]) (h1 : allOnes c.shape = true)
    (hr : c.shape.length ≤ a.shape.length) : binop f c a = some ⟨a.shape, a.data.map (f y ·)⟩ := by
  have hb : bshape c.shape a.shape = some a.shape := by
    rw [allOnes_replicate c.shape h1]; exact bshape_ones_left a.shape _ hr
  unfold binop
  split
  · -- `a` is itself a single-element tensor of shape [1,…,1]
    rename_i x hx ha
    simp [hd, hb, hx]
  · simp [hd, h1, hb]

/-- `f x (h x)` elementwise: `binop f a (tmap h a)`. -/
theorem binop_self_map (f : α → α → α) (h : α → α) (a : Ten α) :
    binop f a ⟨a.shape, a.data.map h⟩ = some ⟨a.shape, a.data.map (fun x => f x (h x))⟩ := by
  unfold binop
  split
  · rename_i y hy ha
    -- a.data.map h = [y]: a has one element
    have hb : bshape a.shape a.shape = some a.shape := by
      have := allOnes_replicate a.shape ha
      rw [this]; exact c01_scalar_const_keeps_shape _ _ (by simp)
    cases hda : a.data with
    | nil => simp [hda] at hy
    | cons x xs =>
      cases xs with
      | nil =>
        simp only [hda, List.map, List.cons.injEq, and_true] at hy
        simp [hb, hy]
      | cons x2 xs2 => simp [hda] at hy
  · rename_i hne
    split
    · rename_i x hx ha
      exact absurd ha (fun hh => hne (h x) (by simp [hx]) hh)
    · simp [zipWith_map_right']

/-! ## `hsem` for real fusions (value ids: 0 = x, 5 = the pattern constant, others intermediate) -/

variable (F : Scalars α)

def opSig : Op (FK α) := ⟨10, .sigmoid, [0], [], [1]⟩
def opMulXT : Op (FK α) := ⟨11, .mul, [0, 1], [], [2]⟩
def opSilu : Op (FK α) := ⟨13, .silu, [0], [], [2]⟩

/-- **hsem, Silu**: `Mul(x, Sigmoid(x))` = `Silu(x)`, value and shape, or both fail. -/
theorem hsem_silu (E : Env (Ten α)) :
    run (tsem F) [opSig, opMulXT] E 2 = step (tsem F) E opSilu 2 := by
  cases hx : E 0 with
  | none => simp [run, step, result, readAll, Op.reads, opSig, opMulXT, opSilu, hx]
  | some a =>
    simp [run, step, result, readAll, Op.reads, opSig, opMulXT, opSilu, hx, bind, tsem, tmap, binop_self_map]

def opMulAX : Op (FK α) := ⟨10, .mul, [5, 0], [], [1]⟩
def opSigU : Op (FK α) := ⟨11, .sigmoid, [1], [], [2]⟩
def opMulXT2 : Op (FK α) := ⟨12, .mul, [0, 2], [], [3]⟩
def opSwish (alpha : α) : Op (FK α) := ⟨13, .swish alpha, [0], [], [3]⟩

/-- **hsem, Swish**: `Mul(x, Sigmoid(Mul(alpha, x)))` = `Swish_alpha(x)` when `alpha` is a
single-element constant whose rank does not exceed the rank of `x` (the fixed `get_scalar_operand`). -/
theorem hsem_swish (E : Env (Ten α)) (c : Ten α) (alpha : α) (hc : E 5 = some c) (hd : c.data = [alpha])
    (h1 : allOnes c.shape = true) (hr : ∀ a, E 0 = some a → c.shape.length ≤ a.shape.length)
    (hE1 : E 1 = none) (hE2 : E 2 = none) :
    run (tsem F) [opMulAX, opSigU, opMulXT2] E 3 = step (tsem F) E (opSwish alpha) 3 := by
  cases hx : E 0 with
  | none => simp [run, step, result, readAll, Op.reads, opMulAX, opSigU, opMulXT2, opSwish, hx, hc, hE1, hE2]
  | some a =>
    have hb := binop_scalar_left F.mul c a alpha hd h1 (hr a hx)
    have hs := binop_self_map F.mul (fun x => F.sig (F.mul alpha x)) a
    simp [run, step, result, readAll, Op.reads, opMulAX, opSigU, opMulXT2, opSwish, hx, hc, bind, tsem, tmap, hb,
      List.map_map, Function.comp_def] at hs ⊢
    simp [hs, bind]

def opDivCX : Op (FK α) := ⟨10, .div, [5, 0], [], [1]⟩
def opRecip : Op (FK α) := ⟨11, .reciprocal, [0], [], [1]⟩

/-- **hsem, Reciprocal**: `Div(1, x)` = `Reciprocal(x)` under the rank condition. -/
theorem hsem_reciprocal (E : Env (Ten α)) (c : Ten α) (hc : E 5 = some c) (hd : c.data = [F.one])
    (h1 : allOnes c.shape = true) (hr : ∀ a, E 0 = some a → c.shape.length ≤ a.shape.length) :
    run (tsem F) [opDivCX] E 1 = step (tsem F) E opRecip 1 := by
  cases hx : E 0 with
  | none => simp [run, step, result, readAll, Op.reads, opDivCX, opRecip, hx, hc]
  | some a =>
    have hb := binop_scalar_left F.div c a F.one hd h1 (hr a hx)
    simp [run, step, result, readAll, Op.reads, opDivCX, opRecip, hx, hc, bind, tsem, tmap, hb]

def opBinXC (k : FK α) : Op (FK α) := ⟨10, k, [0, 5], [], [1]⟩
def opIdent : Op (FK α) := ⟨11, .identity, [0], [], [1]⟩

theorem map_id_of (f : α → α) (h : ∀ x, f x = x) (l : List α) : l.map f = l := by
  induction l with
  | nil => rfl
  | cons x xs ih => simp [h x, ih]

/-- **hsem, IdentityFusion** (`x+0`, `x-0`, `x*1`, `x/1`, the output kept through an `Identity`
operator as for a graph output) under the rank condition. -/
theorem hsem_identity (E : Env (Ten α)) (c : Ten α) (hc : E 5 = some c) (h1 : allOnes c.shape = true)
    (hr : ∀ a, E 0 = some a → c.shape.length ≤ a.shape.length) :
    (c.data = [F.zero] → run (tsem F) [opBinXC .add] E 1 = step (tsem F) E opIdent 1) ∧
    (c.data = [F.zero] → run (tsem F) [opBinXC .sub] E 1 = step (tsem F) E opIdent 1) ∧
    (c.data = [F.one] → run (tsem F) [opBinXC .mul] E 1 = step (tsem F) E opIdent 1) ∧
    (c.data = [F.one] → run (tsem F) [opBinXC .div] E 1 = step (tsem F) E opIdent 1) := by
  cases hx : E 0 with
  | none =>
    refine ⟨?_, ?_, ?_, ?_⟩ <;> intro _ <;>
      simp [run, step, result, readAll, Op.reads, opBinXC, opIdent, hx, hc]
  | some a =>
    refine ⟨?_, ?_, ?_, ?_⟩ <;> intro hd
    · have hb := binop_scalar_right F.add a c F.zero hd h1 (hr a hx)
      simp [run, step, result, readAll, Op.reads, opBinXC, opIdent, hx, hc, bind, tsem, hb, map_id_of _ F.add_zero]
    · have hb := binop_scalar_right F.sub a c F.zero hd h1 (hr a hx)
      simp [run, step, result, readAll, Op.reads, opBinXC, opIdent, hx, hc, bind, tsem, hb, map_id_of _ F.sub_zero]
    · have hb := binop_scalar_right F.mul a c F.one hd h1 (hr a hx)
      simp [run, step, result, readAll, Op.reads, opBinXC, opIdent, hx, hc, bind, tsem, hb, map_id_of _ F.mul_one]
    · have hb := binop_scalar_right F.div a c F.one hd h1 (hr a hx)
      simp [run, step, result, readAll, Op.reads, opBinXC, opIdent, hx, hc, bind, tsem, hb, map_id_of _ F.div_one]

/-! ## the rank condition is needed (ℤ as scalars) -/

def intScalars : Scalars Int :=
  { add := (· + ·), sub := (· - ·), mul := (· * ·), div := (· / ·), zero := 0, one := 1, sig := id,
    add_zero := Int.add_zero, sub_zero := Int.sub_zero, mul_one := Int.mul_one, div_one := Int.ediv_one }

def envBad : Env (Ten Int) := fun i =>
  if i = 0 then some ⟨[3], [1, 2, 3]⟩ else if i = 5 then some ⟨[1, 1], [0]⟩ else none

/-- `x:[3] + 0:[1,1]` has shape `[1,3]`; the Identity rewrite gives `[3]`: without the rank condition
`hsem` is false (the pre-fix defect, reproduced on the real code). -/
theorem hsem_identity_rank_needed :
    run (tsem intScalars) [opBinXC .add] envBad 1 = some ⟨[1, 3], [1, 2, 3]⟩ ∧
    step (tsem intScalars) envBad opIdent 1 = some ⟨[3], [1, 2, 3]⟩ := by decide

/-! ## `c01_rewrite_sound` instantiated: the Silu fusion inside a graph -/

/-- consumer of the fused output: 3 = Sigmoid(2) -/
def opPost : Op (FK α) := ⟨12, .sigmoid, [2], [], [3]⟩

/-- Every hypothesis of `c01_rewrite_sound` discharged for `[Sigmoid, Mul, post]` with the
concrete tensor semantics: the graph output 3 is unchanged by the Silu rewrite, for every
environment (inputs / constants) that leaves the operator outputs undefined. -/
theorem c01_silu_rewrite_instance (env : Env (Ten α)) (h1 : env 1 = none) (h2 : env 2 = none) (h3 : env 3 = none) :
    run (tsem F) [opSig, opMulXT, opPost] env 3
      = run (tsem F) (fuse [opSig, opMulXT, opPost] [10, 11] 11 opSilu) env 3 := by
  have := c01_rewrite_sound (tsem F) [opSig] [opPost] opMulXT opSilu [10, 11] [3] env
    (by simp [WF, outsAll, Op.reads, opSig, opMulXT, opPost])
    (by intro i hi; simp [outsAll, opSig, opMulXT, opPost] at hi; rcases hi with rfl | rfl | rfl <;> assumption)
    (by simp [opSig, opMulXT]) (by simp [opPost, opMulXT]) (by simp [opMulXT]) rfl
    (by simp [Op.reads, opSilu, outsAll, opSig])
    (by rfl)
    (by intro E _ _ j hj
        simp [opMulXT] at hj; subst hj
        simpa [opSig] using hsem_silu F E)
    3 (by simp)
  simpa [opMulXT] using this

/-! ## `replace_sound` (M3) instantiated: IdentityFusion through `replace_value` -/

/-- consumer of the removed value: 2 = Sigmoid(1) -/
def opPost1 : Op (FK α) := ⟨12, .sigmoid, [1], [], [2]⟩

/-- `y = Sigmoid(x + 0)` with a zero constant whose rank does not exceed the rank of `x`: after
IdentityFusion (`Add` removed, its output replaced by `x` in the consumer) every value that was
defined is unchanged. -/
theorem c01_identity_replace_instance (env : Env (Ten α)) (c : Ten α) (hc : env 5 = some c) (hd : c.data = [F.zero])
    (h1 : allOnes c.shape = true) (hr : ∀ a, env 0 = some a → c.shape.length ≤ a.shape.length)
    (e1 : env 1 = none) (e2 : env 2 = none) (v : Ten α)
    (h : run (tsem F) [opBinXC .add, opPost1] env 2 = some v) :
    run (tsem F) ([opPost1].map (substIns 1 0)) env 2 = some v := by
  have := replace_sound (tsem F) [] [opPost1] (opBinXC .add) 1 0 env
    (by simp [WF, outsAll, Op.reads, opBinXC, opPost1])
    (by intro i hi; simp [outsAll, opBinXC, opPost1] at hi; rcases hi with rfl | rfl <;> assumption)
    rfl (by simp [outsAll, opBinXC, opPost1]) (by simp [opPost1])
    (by intro E hE hEb w hw
        have hE0 : E 0 = env 0 := hE 0 (by simp [outsAll, opBinXC, opPost1])
        have hE5 : E 5 = some c := (hE 5 (by simp [outsAll, opBinXC, opPost1])).trans hc
        cases hx : E 0 with
        | none => simp [step, result, readAll, Op.reads, opBinXC, hx, hEb] at hw
        | some a =>
          have hb := binop_scalar_right F.add a c F.zero hd h1 (hr a (hE0 ▸ hx))
          simp [step, result, readAll, Op.reads, opBinXC, hx, hE5, bind, tsem, hb, map_id_of _ F.add_zero] at hw
          rw [← hw])
    2 v h
  simpa using this

end RtenVerif.Optimize.TSem
