import RtenVerif.Model.Pattern

/-!
# C01 — T2 (shape side of the scalar-constant fusions, MatMul scale algebra) and T4 witnesses

* `c01_scalar_const_keeps_shape`: a single-element constant of rank `k ≤ rank x` broadcast against
  `x` leaves the shape of `x` unchanged — the side condition the fixed code checks
  (`constants_preserve_rank` / `get_scalar_operand`).
* `c01_scalar_const_shape_false`: the statement without the rank condition is false
  (`[3]` with a `[1,1]` constant broadcasts to `[1,3]`): the pre-fix defect, reproduced on the real
  code by the `identity/…/c2` templates. `c01_scalar_const_rank_needed` is the general converse.
* `c01_matmul_scale`: scaling commutes with the dot product (exact algebra over ℤ), the identity
  behind `MatMulScaleFusion`; `c01_identity_algebra` for `x+0, x-0, x*1, x/1`.
* T4 (matcher): only `decide`d witnesses on concrete graphs here (labelled tests, not proofs);
  the matcher model is tied to the implementation by the structural correspondence.
-/
namespace RtenVerif.Optimize.Fusions

/-- ONNX multidirectional broadcasting of one dimension pair. -/
def bdim (a b : Nat) : Option Nat :=
  if a = b then some a else if b = 1 then some a else if a = 1 then some b else none

/-- broadcasting on reversed shapes (innermost dimension first) -/
def bshapeRev : List Nat → List Nat → Option (List Nat)
  | [], ys => some ys
  | xs, [] => some xs
  | x :: xs, y :: ys =>
    match bdim x y, bshapeRev xs ys with
    | some d, some r => some (d :: r)
    | _, _ => none

def bshape (a b : List Nat) : Option (List Nat) := (bshapeRev a.reverse b.reverse).map List.reverse

theorem bshapeRev_ones (xs : List Nat) : ∀ k, k ≤ xs.length → bshapeRev xs (List.replicate k 1) = some xs := by
  induction xs with
  | nil => intro k hk; have : k = 0 := by simpa using hk
           subst this; rfl
  | cons x xs ih =>
    intro k hk
    cases k with
    | zero => simp [bshapeRev]
    | succ k =>
      have hk' : k ≤ xs.length := by simpa using hk
      have hb : bdim x 1 = some x := by
        unfold bdim; by_cases h : x = 1 <;> simp [h]
      simp [List.replicate_succ, bshapeRev, hb, ih k hk']

/-- **T2 (shape).** A single-element constant whose rank does not exceed the rank of `x` does not
change the shape of `x ∘ c` for a broadcasting binary operator. -/
theorem c01_scalar_const_keeps_shape (xs : List Nat) (k : Nat) (hk : k ≤ xs.length) :
    bshape xs (List.replicate k 1) = some xs := by
  unfold bshape
  rw [List.reverse_replicate, bshapeRev_ones xs.reverse k (by simpa using hk)]
  simp

theorem bshapeRev_length (xs ys r : List Nat) (h : bshapeRev xs ys = some r) : r.length = max xs.length ys.length := by
  induction xs generalizing ys r with
  | nil => simp [bshapeRev] at h; subst h; simp
  | cons x xs ih =>
    cases ys with
    | nil => simp [bshapeRev] at h; subst h; simp
    | cons y ys =>
      simp only [bshapeRev] at h
      cases hb : bdim x y with
      | none => simp [hb] at h
      | some d =>
        cases hr : bshapeRev xs ys with
        | none => simp [hb, hr] at h
        | some r' =>
          simp [hb, hr] at h; subst h
          have := ih ys r' hr
          simp [this]
          try omega

/-- Converse: with a higher-rank constant the output shape is never the shape of `x`. -/
theorem c01_scalar_const_rank_needed (xs : List Nat) (k : Nat) (hk : xs.length < k) :
    bshape xs (List.replicate k 1) ≠ some xs := by
  unfold bshape
  intro h
  rw [List.reverse_replicate] at h
  cases hr : bshapeRev xs.reverse (List.replicate k 1) with
  | none => rw [hr] at h; simp at h
  | some r =>
    rw [hr] at h
    have h' : r.reverse = xs := by simpa using h
    have hl := bshapeRev_length _ _ _ hr
    have : r.length = xs.length := by rw [← h']; simp
    simp at hl; omega

/-- The unguarded statement (any single-element constant) is false: the pre-fix defect. -/
theorem c01_scalar_const_shape_false : ¬ ∀ (xs : List Nat) (k : Nat), bshape xs (List.replicate k 1) = some xs := by
  intro h; have := h [3] 2; revert this; decide

example : bshape [3] [1, 1] = some [1, 3] := by decide
example : bshape [] [1] = some [1] := by decide
example : bshape [2, 3] [1, 1] = some [2, 3] := by decide

/-! ## exact algebra -/

def dot : List Int → List Int → Int
  | a :: as, b :: bs => a * b + dot as bs
  | _, _ => 0

/-- **T2 (MatMulScale).** `(c·a) · b = c · (a · b) = a · (c·b)`: a scalar commutes with every
entry of a matrix product. -/
theorem c01_matmul_scale (c : Int) : ∀ (a b : List Int),
    dot (a.map (c * ·)) b = c * dot a b ∧ dot a (b.map (c * ·)) = c * dot a b := by
  intro a
  induction a with
  | nil => intro b; simp [dot]
  | cons x xs ih =>
    intro b
    cases b with
    | nil => simp [dot]
    | cons y ys =>
      obtain ⟨h1, h2⟩ := ih ys
      constructor
      · simp only [List.map, dot, h1]; rw [Int.mul_add, Int.mul_assoc]
      · simp only [List.map, dot, h2]; rw [Int.mul_add, ← Int.mul_assoc, Int.mul_comm x c, Int.mul_assoc]

theorem c01_identity_algebra (x : Int) : x + 0 = x ∧ x - 0 = x ∧ x * 1 = x ∧ x / 1 = x := by
  refine ⟨Int.add_zero x, Int.sub_zero x, Int.mul_one x, Int.ediv_one x⟩

/-! ## T4 witnesses (tests on concrete graphs, decided by evaluation) -/
open RtenVerif.Pattern

/-- values 0 = x, 1 = y; 2 = Sigmoid(x) (op 10); 3 = Mul(2, 0) (op 11); 4 = Sigmoid(y) (op 12); 5 = Mul(0, 4) (op 13) -/
def gSilu : GView :=
  { ops := [⟨10, "Sigmoid", [some 0], [2]⟩, ⟨11, "Mul", [some 2, some 0], [3]⟩,
            ⟨12, "Sigmoid", [some 1], [4]⟩, ⟨13, "Mul", [some 0, some 4], [5]⟩],
    consts := [], values := [0, 1, 2, 3, 4, 5] }

def siluP : Pat := .op "Mul" [.sym "x" false, .op "Sigmoid" [.sym "x" false] none] none
def cfg0 : MatchCfg := { strictKeys := true, rankGuard := true, rank := fun _ => none }

/-- commutative matching = operand permutation, with one consistent binding for `x` -/
example : matchPat gSilu cfg0 16 siluP 11 [] = some [("x", 0)] := by decide
/-- symbol consistency: `x * Sigmoid(y)` is not an embedding of `x * Sigmoid(x)` -/
example : matchPat gSilu cfg0 16 siluP 13 [] = none := by decide

/-- Where(IsNaN(S1(x)), 0, S2(x)) with two different Softmax operators (30, 31). -/
def gSafe : GView :=
  { ops := [⟨30, "Softmax", [some 0], [1]⟩, ⟨31, "Softmax", [some 0], [2]⟩, ⟨32, "IsNaN", [some 1], [3]⟩,
            ⟨33, "Where", [some 3, some 9, some 2], [4]⟩],
    consts := [⟨9, "f", [], [0], []⟩], values := [0, 1, 2, 3, 4] }
def safeP : Pat :=
  let y := Pat.op "Softmax" [.sym "x" false] (some "softmax")
  .op "Where" [.op "IsNaN" [y] none, .const 0 false, y] none

/-- the pre-fix matcher binds the key `softmax` twice (first wins) and reports a match … -/
example : (matchPat gSafe { cfg0 with strictKeys := false } 16 safeP 33 []).isSome = true := by decide
/-- … the fixed matcher requires the same operator. -/
theorem c01_repeated_key_same_operator : matchPat gSafe cfg0 16 safeP 33 [] = none := by decide

end RtenVerif.Optimize.Fusions
