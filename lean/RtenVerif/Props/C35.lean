import RtenVerif.Lemmas.Poly
import RtenVerif.Lemmas.PolyHull

/-!
# C35 — Polygon algorithms return geometrically valid results

Property text: *for any point set, the convex hull is convex, contains every input point and
uses only input points; the minimum-area rectangle contains every point; polygon
simplification keeps the first point, returns a subsequence of the input, and every removed
point lies within epsilon of the simplified outline.*

Model: `RtenVerif.Model.Poly` (of `rten-imageproc/src/poly_algos.rs`).

What is proved here
* **T1** (Douglas–Peucker, full strength, arbitrary distance function and NaN-tolerant
  comparisons): termination, first/last point kept, subsequence, every removed point within
  `epsilon` of the kept segment spanning it — for polylines and polygons.
* **T2** (convex hull, for *every* sort comparator, i.e. also for the rounded `f32` keys):
  hull ⊆ input; consecutive triples turn strictly left (exact cross product), hence adjacent
  hull points are distinct; the hull starts with the first sorted point, which is the
  `min_by` point whenever that point's key sorts first.  The code's key order `keyLe` and its
  orientation form `exactLe` give the same hull (`hullKey_eq_hullExact`, `Props/C35Order`).
* **T4** (`min_area_rect`, exact arithmetic, un-normalised axes): the projection fold bounds
  every hull point, `min_par ≤ par(p) ≤ max_par`, `perp(p) ≤ max_perp` (`c35_edgeBounds_spec`);
  the missing lower bound `0 ≤ perp(p)` is literally the containment statement S3
  (`c35_perpProj_eq_cross`).  The f32 rectangle itself is checked by the harness oracle.
* **T2i** the hull never repeats a point; the sort really sorts by angle
  (`Props/C35Order`: `c35_hullExact_nodup`, `c35_sorted_by_angle`).
* **S3** containment / global convexity is *not* proved for all inputs: it is stated
  (`hullContainsCheck`) and checked by kernel evaluation on a small finite scope
  (`RtenVerif.Props.C35Bounded`, a bounded statement), and by the exact-arithmetic oracle of
  the harness on every run of the real code (incl. all lists of ≤ 4 points of a 3×3 grid).
-/
namespace RtenVerif.Poly

variable {P D : Type}

/-! ## T1 Douglas–Peucker -/

/-- The laws hold for the driver's comparison structure (`none` = NaN). -/
theorem natCmp_laws : natCmp.Laws where
  ge_total a b ha hb := by
    cases a <;> cases b <;> simp_all [natCmp] <;> omega
  ge_trans a b d h1 h2 := by
    cases a <;> cases b <;> cases d <;> simp_all [natCmp] <;> omega
  ge_left a b h := by cases a <;> cases b <;> simp_all [natCmp]
  gt_num a e h := by cases a <;> cases e <;> simp_all [natCmp]
  gt_mono a b e h1 h2 := by
    cases a <;> cases b <;> cases e <;> simp_all [natCmp] <;> omega
  ge_not_gt a e h := by cases a <;> cases e <;> simp_all [natCmp] <;> omega
  zero_num := by simp [natCmp]

/-- **C35.T1a** Termination and totality of `simplify_polyline`: it panics exactly when the
assertion `epsilon >= 0.` fails, and otherwise returns (the recursion never runs out of
fuel `len + 1`, i.e. it terminates). -/
theorem c35_polyline_terminates (c : Cmp D) (h : c.Laws) (dist : P → P → P → D) (eps : D)
    (pts : List P) :
    (c.ge eps c.zero = true → ∃ out, simplifyPolyline c dist eps pts = .ok out) ∧
    (c.ge eps c.zero = false → simplifyPolyline c dist eps pts = .panic) := by
  constructor
  · intro heps
    have := dpInternal_isSome c h dist eps heps (pts.length + 1) pts true (by omega)
    obtain ⟨out, hout⟩ := Option.isSome_iff_exists.mp this
    exact ⟨out, by simp [simplifyPolyline, heps, hout]⟩
  · intro heps
    simp [simplifyPolyline, heps]

/-- **C35.T1b** Specification of `simplify_polyline` on a non-empty polyline: the output
arises from the input by deleting interior runs, every deleted point being within `eps` (the
code's own test `¬ dist > eps`) of the kept segment that spans it. -/
theorem c35_polyline_spans (c : Cmp D) (h : c.Laws) (dist : P → P → P → D) (eps : D)
    (pts out : List P) (hne : pts ≠ [])
    (hrun : simplifyPolyline c dist eps pts = .ok out) :
    Spans (Within c dist eps) pts out := by
  unfold simplifyPolyline at hrun
  split at hrun
  · rename_i heps
    split at hrun
    · rename_i o ho
      cases hrun
      exact (dpInternal_spans c h dist eps heps _ pts true _ hne ho).1 rfl
    · cases hrun
  · cases hrun

/-- **C35.T1c** Consequences: subsequence of the input, first and last point kept. -/
theorem c35_polyline_subseq (c : Cmp D) (h : c.Laws) (dist : P → P → P → D) (eps : D)
    (pts out : List P) (hrun : simplifyPolyline c dist eps pts = .ok out) :
    out.Sublist pts ∧ out.head? = pts.head? ∧ out.getLast? = pts.getLast? := by
  cases pts with
  | nil =>
    unfold simplifyPolyline at hrun
    split at hrun
    · simp [dpInternal] at hrun; subst hrun; simp
    · cases hrun
  | cons a rest =>
    have hs := c35_polyline_spans c h dist eps (a :: rest) out (by simp) hrun
    refine ⟨hs.sublist, ?_, hs.getLast?⟩
    obtain ⟨o, rfl⟩ := hs.head
    rfl

theorem simplifyPolygon_cons (c : Cmp D) (dist : P → P → P → D) (eps : D) (a : P)
    (rest : List P) :
    simplifyPolygon c dist eps (a :: rest) =
      match simplifyPolyline c dist eps ((a :: rest) ++ [a]) with
      | .ok out => .ok out.dropLast
      | .panic => .panic
      | .nofuel => .nofuel := rfl

/-- **C35.T1d** `simplify_polygon`: total (panics only on `epsilon < 0`/NaN; the empty
polygon gives the empty polygon — this is the behaviour after the fix, the unfixed code
indexed `points[0]`). -/
theorem c35_polygon_terminates (c : Cmp D) (h : c.Laws) (dist : P → P → P → D) (eps : D)
    (pts : List P) :
    (c.ge eps c.zero = true → ∃ out, simplifyPolygon c dist eps pts = .ok out) ∧
    (c.ge eps c.zero = false → pts ≠ [] → simplifyPolygon c dist eps pts = .panic) ∧
    simplifyPolygon c dist eps ([] : List P) = .ok [] := by
  refine ⟨?_, ?_, rfl⟩
  · intro heps
    cases pts with
    | nil => exact ⟨[], rfl⟩
    | cons a rest =>
      obtain ⟨o, ho⟩ := (c35_polyline_terminates c h dist eps (a :: rest ++ [a])).1 heps
      exact ⟨o.dropLast, by rw [simplifyPolygon_cons, ho]⟩
  · intro heps hne
    cases pts with
    | nil => exact absurd rfl hne
    | cons a rest =>
      have ho := (c35_polyline_terminates c h dist eps (a :: rest ++ [a])).2 heps
      rw [simplifyPolygon_cons, ho]

/-- **C35.T1e** Specification of `simplify_polygon` on a non-empty polygon `a :: rest`: the
output starts with the first point `a`, is a subsequence of the input, and — closing both
outlines with `a` — every removed point is within `eps` of the kept segment spanning it
(the last segment runs from the last kept point back to `a`). -/
theorem c35_polygon_spec (c : Cmp D) (h : c.Laws) (dist : P → P → P → D) (eps : D)
    (a : P) (rest out : List P)
    (hrun : simplifyPolygon c dist eps (a :: rest) = .ok out) :
    (∃ out', out = a :: out') ∧ out.Sublist (a :: rest) ∧
    Spans (Within c dist eps) (a :: rest ++ [a]) (out ++ [a]) := by
  rw [simplifyPolygon_cons] at hrun
  split at hrun
  · rename_i o ho
    cases hrun
    have hs := c35_polyline_spans c h dist eps (a :: rest ++ [a]) o (by simp) ho
    have hlast : o.getLast? = some a := by
      rw [hs.getLast?, List.getLast?_concat]
    have ho' : o = o.dropLast ++ [a] := by
      have hne : o ≠ [] := hs.ne_nil.2
      rw [List.getLast?_eq_some_getLast hne] at hlast
      have := List.dropLast_concat_getLast hne
      rw [Option.some.inj hlast] at this
      exact this.symm
    have hsub := hs.dropLast_sublist
    have e : (a :: rest ++ [a]).dropLast = a :: rest := by
      rw [List.dropLast_concat]
    rw [e] at hsub
    refine ⟨?_, hsub, ?_⟩
    · -- the closed polyline has ≥ 2 points, so its simplification has ≥ 2 points
      have h2 : ∃ b r, (a :: rest) ++ [a] = a :: b :: r := by
        cases rest with
        | nil => exact ⟨a, [], rfl⟩
        | cons r rs => exact ⟨r, rs ++ [a], rfl⟩
      obtain ⟨b, r, hbr⟩ := h2
      rw [hbr] at hs
      obtain ⟨c', o', ho2⟩ := hs.two
      rw [ho2]
      exact ⟨(c' :: o').dropLast, rfl⟩
    · rw [← ho']; exact hs
  · cases hrun
  · cases hrun

/-- **C35.T1f** Index form: run on index-tagged points, the kept indices are strictly
increasing (so the result is a subsequence *by position*, also with duplicate points). -/
theorem c35_polyline_indices_increasing (c : Cmp D) (h : c.Laws) (dist : P → P → P → D)
    (eps : D) (pts : List P) (out : List (P × Nat))
    (hrun : simplifyPolyline c (fun a b p => dist a.1 b.1 p.1) eps pts.zipIdx = .ok out) :
    out.Pairwise (fun x y => x.2 < y.2) := by
  have hs := (c35_polyline_subseq c h _ eps _ out hrun).1
  refine List.Pairwise.sublist hs ?_
  have := List.pairwise_lt_range (n := pts.length)
  rw [List.pairwise_iff_getElem]
  intro i j hi hj hij
  simp only [List.getElem_zipIdx]
  omega

/-- **C35.T1g** `Within` is the code's test `¬ (dist > eps)`, which a NaN distance passes.  For
the driver's comparison structure (bit patterns, `none` = NaN) it means: the distance is NaN
**or** numerically `≤ eps`; when the distance function is NaN-free on the polyline, every
removed point is numerically within `eps`. -/
theorem c35_within_natCmp (dist : P → P → P → Option Nat) (eps : Nat) (a b p : P) :
    Within natCmp dist (some eps) a b p ↔ (dist a b p = none ∨ ∃ d, dist a b p = some d ∧ d ≤ eps) := by
  unfold Within
  cases h : dist a b p with
  | none => simp [natCmp]
  | some d => simp [natCmp]

/-- Non-vacuity for T1: a concrete run on indices with a table distance (point 2 is far
from the segment 0–4, the others are close). -/
example :
    simplifyPolyline natCmp (fun a b p => if p = 2 ∧ a = 0 ∧ b = 4 then some 9 else some 1)
      (some 5) [0, 1, 2, 3, 4] = .ok [0, 2, 4] := by decide

/-- Non-vacuity: NaN distances (`none`) are tolerated; negative/NaN epsilon panics. -/
example :
    simplifyPolyline natCmp (fun _ _ (p : Nat) => if p = 1 then none else some 7) (some 5)
      [0, 1, 2, 3] = .ok [0, 2, 3] ∧
    simplifyPolyline natCmp (fun _ _ (_ : Nat) => some 7) none [0, 1, 2] = .panic := by decide

/-- Without the assertion `epsilon >= 0` the recursion would not terminate: with a comparison
structure in which `0 > eps`, a two-point polyline exhausts any fuel (shown for fuel 50). -/
example :
    dpInternal ⟨fun (a b : Int) => decide (a ≥ b), fun a b => decide (a > b), 0⟩
      (fun _ _ (_ : Nat) => 0) (-1) 50 [0, 1] true = none := by decide

/-! ## T2 convex hull -/

variable {α : Type}

/-- **C35.T2a** The hull uses only input points (any comparator). -/
theorem c35_hull_subset (pt : α → Pt) (le : α → α → Bool) (xs : List α) (q : Pt)
    (hq : q ∈ hullWith pt le xs) : ∃ x ∈ xs, pt x = q := by
  unfold hullWith at hq
  rw [List.mem_reverse] at hq
  rcases mem_scan _ _ hq with h | h
  · obtain ⟨x, hx, rfl⟩ := List.mem_map.mp h
    exact ⟨x, (mem_isort le x xs).mp ((dedupKey_sublist pt _).mem hx), rfl⟩
  · simp at h

/-- **C35.T2b** Strict left turns: any three consecutive hull points `a, b, c` satisfy
`cross a b c > 0` (exact integer cross product) — for *any* sort comparator. -/
theorem c35_hull_turns (pt : α → Pt) (le : α → α → Bool) (xs : List α)
    (pre post : List Pt) (a b c : Pt)
    (hh : hullWith pt le xs = pre ++ a :: b :: c :: post) : cross a b c > 0 := by
  unfold hullWith at hh
  have ht := scan_turns ((dedupKey pt (isort le xs)).map pt) [] (by
    intro pre c b a post he; simp at he)
  have hrev := congrArg List.reverse hh
  rw [List.reverse_reverse] at hrev
  refine ht post.reverse c b a pre.reverse ?_
  rw [hrev]; simp

/-- **C35.T2c** Adjacent hull points (distance 1 and 2 in the list) are distinct. -/
theorem c35_hull_adjacent_distinct (pt : α → Pt) (le : α → α → Bool) (xs : List α)
    (pre post : List Pt) (a b c : Pt)
    (hh : hullWith pt le xs = pre ++ a :: b :: c :: post) : a ≠ c ∧ b ≠ c := by
  have := c35_hull_turns pt le xs pre post a b c hh
  constructor
  · rintro rfl; simp [cross] at this
  · rintro rfl
    simp only [cross] at this
    rw [Int.mul_comm (b.2 - a.2)] at this
    omega

/-- **C35.T2d** The hull has no more points than the input has, counted with multiplicity:
it is a subsequence of the sorted, de-duplicated point list. -/
theorem c35_hull_sublist_sorted (pt : α → Pt) (le : α → α → Bool) (xs : List α) :
    (hullWith pt le xs).Sublist ((dedupKey pt (isort le xs)).map pt) := by
  unfold hullWith
  have := scan_sublist ((dedupKey pt (isort le xs)).map pt) []
  rw [List.append_nil] at this
  have h2 := this.reverse
  rwa [List.reverse_reverse] at h2

/-- **C35.T2e** The hull starts with the first point in sort order. -/
theorem c35_hull_head (pt : α → Pt) (le : α → α → Bool) (xs : List α) :
    (hullWith pt le xs).head? = (isort le xs).head?.map pt := by
  unfold hullWith
  rw [List.head?_reverse, scan_getLast?]
  simp only [if_true, List.head?_map, dedupKey_head?]

/-- **C35.T2f** `min_by` returns an input point that no input point precedes in the code's
order (largest `y`, then smallest `x`). -/
theorem c35_minPoint_spec (pts : List Pt) (m : Pt) (hm : minPoint pts = some m) :
    m ∈ pts ∧ ∀ q ∈ pts, minLt q m = false := by
  cases pts with
  | nil => simp [minPoint] at hm
  | cons p ps =>
    simp only [minPoint, Option.some.injEq] at hm
    subst hm
    refine ⟨foldl_min_mem _ ps p, ?_⟩
    intro q hq
    obtain ⟨h1, h2⟩ := foldl_min_le ps p
    rcases List.mem_cons.mp hq with rfl | hq
    · exact h1
    · exact h2 q hq

/-- Head of an insertion sort: if the entries of the point `m` strictly precede all others
and the comparator is total, the sorted list starts with an entry of `m`. -/
theorem isort_head_min (pt : α → Pt) (le : α → α → Bool) (m : Pt) :
    ∀ (xs : List α),
      (∀ x ∈ xs, ∀ y ∈ xs, le x y = true ∨ le y x = true) →
      (∀ x ∈ xs, ∀ y ∈ xs, pt x = m → pt y ≠ m → le y x = false) →
      (∃ x ∈ xs, pt x = m) → ∃ z, (isort le xs).head? = some z ∧ pt z = m := by
  intro xs
  induction xs with
  | nil => intro _ _ ⟨x, hx, _⟩; simp at hx
  | cons x xs ih =>
    intro htot hmin hex
    have htot' : ∀ a ∈ xs, ∀ b ∈ xs, le a b = true ∨ le b a = true := fun a ha b hb =>
      htot a (List.mem_cons_of_mem _ ha) b (List.mem_cons_of_mem _ hb)
    have hmin' : ∀ a ∈ xs, ∀ b ∈ xs, pt a = m → pt b ≠ m → le b a = false := fun a ha b hb =>
      hmin a (List.mem_cons_of_mem _ ha) b (List.mem_cons_of_mem _ hb)
    simp only [isort]
    cases hs : isort le xs with
    | nil =>
      have hxs : xs = [] := by
        cases xs with
        | nil => rfl
        | cons y ys =>
          have : y ∈ isort le (y :: ys) := (mem_isort le y _).mpr List.mem_cons_self
          rw [hs] at this; simp at this
      subst hxs
      obtain ⟨z, hz, hzm⟩ := hex
      simp only [List.mem_singleton] at hz; subst hz
      exact ⟨z, rfl, hzm⟩
    | cons hd tl =>
      have hhd : hd ∈ xs := (mem_isort le hd xs).mp (by rw [hs]; exact List.mem_cons_self)
      simp only [insertBy]
      by_cases hx : pt x = m
      · by_cases hle : le x hd = true
        · simp only [hle, if_true]; exact ⟨x, rfl, hx⟩
        · simp only [hle]
          refine ⟨hd, rfl, ?_⟩
          apply Classical.byContradiction
          intro hne
          have h1 := hmin x List.mem_cons_self hd (List.mem_cons_of_mem _ hhd) hx hne
          rcases htot x List.mem_cons_self hd (List.mem_cons_of_mem _ hhd) with h2 | h2
          · exact hle h2
          · rw [h1] at h2; cases h2
      · have hex' : ∃ a ∈ xs, pt a = m := by
          obtain ⟨z, hz, hzm⟩ := hex
          rcases List.mem_cons.mp hz with rfl | hz
          · exact absurd hzm hx
          · exact ⟨z, hz, hzm⟩
        obtain ⟨z, hz, hzm⟩ := ih htot' hmin' hex'
        rw [hs] at hz
        simp only [List.head?_cons, Option.some.injEq] at hz
        subst hz
        have h1 := hmin hd (List.mem_cons_of_mem _ hhd) x List.mem_cons_self hzm hx
        simp only [h1, Bool.false_eq_true, if_false]
        exact ⟨hd, rfl, hzm⟩

/-- **C35.T2g** The hull starts at the `min_by` point, provided the comparator is total on
the input and sorts the entries of that point strictly first (the code gives them the key
`-inf`; `c35_hullExact_starts_min` discharges both hypotheses for the orientation form of the
code's order, `c35_hullKey_*` in `Props/C35Order` transfer the results to the key order). -/
theorem c35_hull_starts_min (pt : α → Pt) (le : α → α → Bool) (xs : List α) (m : Pt)
    (hm : minPoint (xs.map pt) = some m)
    (htot : ∀ x ∈ xs, ∀ y ∈ xs, le x y = true ∨ le y x = true)
    (hfirst : ∀ x ∈ xs, ∀ y ∈ xs, pt x = m → pt y ≠ m → le y x = false) :
    (hullWith pt le xs).head? = some m := by
  rw [c35_hull_head]
  obtain ⟨hmem, _⟩ := c35_minPoint_spec _ m hm
  obtain ⟨x, hx, hxm⟩ := List.mem_map.mp hmem
  obtain ⟨z, hz, hzm⟩ := isort_head_min pt le m xs htot hfirst ⟨x, hx, hxm⟩
  rw [hz]; simp [hzm]

/-- **C35.T2h** `convex_hull` (orientation form `exactLe` of the sort order; equal to the code's key
order by `hullKey_eq_hullExact`): the hull starts at the `min_by`
point, for every input. -/
theorem c35_hullExact_starts_min (pts : List Pt) (m : Pt) (hm : minPoint pts = some m) :
    (hullExact pts).head? = some m := by
  unfold hullExact
  rw [hm]
  refine c35_hull_starts_min id (exactLe m) pts m (by simpa using hm) ?_ ?_
  · intro x _ y _
    simp only [exactLe]
    have hanti : cross m y x = -(cross m x y) := by simp only [cross]; grind
    by_cases hx : x = m <;> by_cases hy : y = m <;> simp [hx, hy]
    by_cases h1 : cross m x y > 0
    · simp [h1]
    · by_cases h2 : cross m x y < 0
      · right; simp [hanti]; omega
      · have h0 : cross m x y = 0 := by omega
        simp [hanti, h0]; omega
  · intro x _ y _ hx hy
    simp only [id] at hx hy
    simp [exactLe, hx, hy]

/-- **C35.T2a/b for `hullExact`** (instances of the generic theorems; `hullKey = hullExact`): the hull of
`convex_hull` uses only input points and every three consecutive hull points turn strictly
left. -/
theorem c35_hullExact_subset_turns (pts : List Pt) :
    (∀ q ∈ hullExact pts, q ∈ pts) ∧
    ∀ pre post a b c, hullExact pts = pre ++ a :: b :: c :: post → cross a b c > 0 := by
  unfold hullExact
  cases hm : minPoint pts with
  | none => exact ⟨fun q hq => by simp at hq, fun pre post a b c h => by simp at h⟩
  | some m =>
    refine ⟨fun q hq => ?_, fun pre post a b c h => c35_hull_turns id (exactLe m) pts pre post a b c h⟩
    obtain ⟨x, hx, rfl⟩ := c35_hull_subset id (exactLe m) pts q hq
    exact hx

/-- The hull of a square with an interior point, a duplicate and collinear edge points is the four corners. -/
example :
    hullExact [(0, 0), (2, 0), (4, 0), (4, 4), (0, 4), (2, 2), (4, 4), (2, 4)] =
      [(0, 4), (0, 0), (4, 0), (4, 4)] := by decide

/-! ## S3 containment (bounded) -/

/-- The full S3 statement as a decidable check: all input points lie on or to the left of every
hull edge including the closing edge (`last → first`), and all cyclic triples turn strictly
left.  A 1-point hull must equal every input point; a 2-point hull must have distinct ends and
every input point on the segment between them. -/
def edgesOk (hull pts : List Pt) : Bool :=
  match hull with
  | [] => pts.isEmpty
  | [a] => pts.all fun p => p == a
  | [a, b] => a != b && pts.all fun p =>
      decide (cross a b p = 0) &&
      decide (min a.1 b.1 ≤ p.1 ∧ p.1 ≤ max a.1 b.1 ∧ min a.2 b.2 ≤ p.2 ∧ p.2 ≤ max a.2 b.2)
  | h0 :: h1 :: _ =>
    let closed := hull ++ [h0]
    ((closed.zip (closed.drop 1)).all fun e => pts.all fun p => decide (cross e.1 e.2 p ≥ 0)) &&
    -- strict left turns around the whole cycle, including the two triples through the closing edge
    (let cyc := hull ++ [h0, h1]
     (cyc.zip ((cyc.drop 1).zip (cyc.drop 2))).all fun t => decide (cross t.1 t.2.1 t.2.2 > 0))

/-- Decode `n` into a list of `len` points of the 3×3 grid. -/
def gridPts : Nat → Nat → List Pt
  | 0, _ => []
  | len + 1, n => (Int.ofNat (n % 3), Int.ofNat (n / 3 % 3)) :: gridPts len (n / 9)

/-- Every hull vertex is an extreme point and all inputs are inside/on the hull. -/
def hullContainsCheck (pts : List Pt) : Bool :=
  edgesOk (hullExact pts) pts

/-! ## T4 `min_area_rect` projection bounds -/

theorem optMin_le (a : Option Int) (b : Int) :
    (∀ x, optMin a b = some x → x ≤ b) ∧ (∀ y x, a = some y → optMin a b = some x → x ≤ y) := by
  cases a with
  | none => simp [optMin]
  | some v => simp only [optMin, Option.some.injEq]; constructor <;> intros <;> split at * <;> omega

theorem optMax_ge (a : Option Int) (b : Int) :
    (∀ x, optMax a b = some x → b ≤ x) ∧ (∀ y x, a = some y → optMax a b = some x → y ≤ x) := by
  cases a with
  | none => simp [optMax]
  | some v => simp only [optMax, Option.some.injEq]; constructor <;> intros <;> split at * <;> omega

/-- `acc` bounds the projections of `p`. -/
def Covered (s e : Pt) (acc : Option Int × Option Int × Option Int) (p : Pt) : Prop :=
  ∃ a b c, acc = (some a, some b, some c) ∧ a ≤ parProj s e p ∧ parProj s e p ≤ b ∧
    perpProj s e p ≤ c

def edgeStep (s e : Pt) (acc : Option Int × Option Int × Option Int) (p : Pt) :
    Option Int × Option Int × Option Int :=
  (optMin acc.1 (parProj s e p), optMax acc.2.1 (parProj s e p), optMax acc.2.2 (perpProj s e p))

theorem edgeStep_self (s e : Pt) (acc) (q : Pt) : Covered s e (edgeStep s e acc q) q := by
  obtain ⟨a, b, c⟩ := acc
  cases a <;> cases b <;> cases c <;>
    simp only [edgeStep, optMin, optMax, Covered, Prod.mk.injEq, Option.some.injEq] <;>
    refine ⟨_, _, _, ⟨rfl, rfl, rfl⟩, ?_, ?_, ?_⟩ <;> (try split) <;> omega

theorem edgeStep_mono (s e : Pt) (acc) (q p : Pt) (h : Covered s e acc p) :
    Covered s e (edgeStep s e acc q) p := by
  obtain ⟨a, b, c, rfl, h1, h2, h3⟩ := h
  simp only [edgeStep, optMin, optMax, Covered, Prod.mk.injEq, Option.some.injEq]
  refine ⟨_, _, _, ⟨rfl, rfl, rfl⟩, ?_, ?_, ?_⟩ <;> split <;> omega

theorem foldl_covered (s e : Pt) (l : List Pt) (acc) (p : Pt)
    (h : p ∈ l ∨ Covered s e acc p) : Covered s e (l.foldl (edgeStep s e) acc) p := by
  induction l generalizing acc with
  | nil => rcases h with h | h; exact absurd h (by simp); exact h
  | cons q qs ih =>
    simp only [List.foldl_cons]
    apply ih
    rcases h with h | h
    · rcases List.mem_cons.mp h with rfl | h
      · exact Or.inr (edgeStep_self s e acc p)
      · exact Or.inl h
    · exact Or.inr (edgeStep_mono s e acc q p h)

/-- **C35.T4a** The projection fold of `min_area_rect` for the edge `s → e` bounds every hull
point: `min_par ≤ par(p) ≤ max_par` and `perp(p) ≤ max_perp` (exact arithmetic,
un-normalised axes). -/
theorem c35_edgeBounds_spec (s e : Pt) (hull : List Pt) (p : Pt) (hp : p ∈ hull) :
    ∃ minPar maxPar maxPerp, edgeBounds s e hull = (some minPar, some maxPar, some maxPerp) ∧
      minPar ≤ parProj s e p ∧ parProj s e p ≤ maxPar ∧ perpProj s e p ≤ maxPerp :=
  foldl_covered s e hull (none, none, none) p (Or.inl hp)

/-- **C35.T4b** The perpendicular projection is the orientation test of the hull scan, so the
lower bound `0 ≤ perp(p)` of the rectangle is exactly "p is left of or on the edge". -/
theorem c35_perpProj_eq_cross (s e p : Pt) : perpProj s e p = cross s e p := by
  simp only [perpProj, cross]; grind


end RtenVerif.Poly
