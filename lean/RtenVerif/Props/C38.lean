import RtenVerif.Lemmas.ProtobufDecode
import RtenVerif.Generated.OnnxSchema

/-!
# C38 — the ONNX protobuf decoder terminates and never panics

All theorems are about the machine-integer model `RtenVerif.Protobuf` of the **fixed** decoder
(`rten-onnx` commits "fix: validate protobuf field lengths against the input size" and
"fix: limit nesting depth of embedded protobuf messages") and are generic in the schema `S`
(the generated ONNX schema is one instance).  The only hypothesis is `d.size < 2^64`
(an input addressable by `u64` positions).

* T1 `c38_decode_terminates`, `c38_parse_total`, `c38_field_progress`, `c38_consume_within`
* T2 `c38_overlong_length_is_error`, `c38_accepted_length_fits`, `c38_toplevel_end_is_input_size`
* T3 `c38_decode_terminates` (no `wrap`), `c38_alloc_bounded`
* the linear work bound and the nesting invariant are in `Props/C38Cost.lean`
* `c38_depth_limit` is a lemma restating the depth guard; `c38_old_*` are *illustrations* (`decide`d
  facts about isolated fragments of the pre-fix arithmetic, not a model of the old decoder). Neither
  is in the audited property-level theorem list.
-/
namespace RtenVerif.Protobuf
open RtenVerif.Generated.OnnxSchema

/-! ## T1 progress and termination -/

/-- T1 (progress, one field header): a successful `Fields::next` strictly advances the position,
and the field's sub-reader `(p, fend)` lies inside the enclosing message. -/
theorem c38_field_progress {d : Bytes} (hsz : d.size < UInt64.size) {pos end_ : UInt64}
    (hpe : pos.toNat ≤ end_.toNat) (hes : end_.toNat ≤ d.size)
    {num : UInt64} {fv : FieldValue} {p fend : UInt64}
    (h : nextField d pos end_ = .field num fv p fend) :
    pos.toNat < p.toNat ∧ p.toNat ≤ fend.toNat ∧ fend.toNat ≤ end_.toNat :=
  let r := nextField_field hsz hpe hes h
  ⟨r.1, r.2.1, r.2.2.1⟩

/-- T1 (progress, field body): whatever a non-message arm does with a field (read, skip, packed
iteration) leaves the position inside the field, never before its start and never beyond its end;
failures are real errors. -/
theorem c38_consume_within {d : Bytes} (hsz : d.size < UInt64.size) {p fend : UInt64}
    (hpf : p.toNat ≤ fend.toNat) (hfs : fend.toNat ≤ d.size) (fuel : Nat)
    (hfuel : fend.toNat - p.toNat < fuel) (k : Kind) (fv : FieldValue) :
    (∀ v p2, consumeField d fuel k fv p fend = .ok (v, p2) → p.toNat ≤ p2.toNat ∧ p2.toNat ≤ fend.toNat) ∧
    (∀ e, consumeField d fuel k fv p fend = .error e → e ≠ .wrap ∧ e ≠ .fuel) :=
  consumeField_spec hsz hpf hfs fuel hfuel k fv

/-- T1 + T3 (termination, no wrap): decoding the message region `[pos, end_)` with fuel exceeding its
length never runs out of fuel and never reaches a wrapping addition — every failure is a real
`ErrorKind` — and a successfully decoded message ends exactly at `end_` (it never passes the end). -/
theorem c38_decode_terminates (S : Schema) {d : Bytes} (hsz : d.size < UInt64.size) :
    ∀ (fuel depth m : Nat) (pos end_ : UInt64) (acc : List (UInt64 × Val)),
      pos.toNat ≤ end_.toNat → end_.toNat ≤ d.size → end_.toNat - pos.toNat < fuel →
      (∀ r p, decodeFields S d fuel depth m pos end_ acc = .ok (r, p) → p.toNat = end_.toNat) ∧
      (∀ e, decodeFields S d fuel depth m pos end_ acc = .error e → e ≠ .wrap ∧ e ≠ .fuel) := by
  intro fuel
  induction fuel with
  | zero => intro depth m pos end_ acc _ _ h; omega
  | succ fuel ih =>
    intro depth m pos end_ acc hpe hes hfuel
    unfold decodeFields
    split
    · -- end of message
      rename_i p hn
      have := nextField_done hsz hpe hes hn
      exact ⟨fun r q h => (by cases h; exact this.1), fun e h => (by cases h)⟩
    · rename_i e hn
      have := nextField_err hsz hpe hes hn
      exact ⟨fun r q h => (by cases h), fun e' h => (by cases h; exact this)⟩
    · rename_i num fv p fend hn
      have hf := nextField_field hsz hpe hes hn
      split
      · -- embedded message
        rename_i child hk
        split
        · rename_i l
          split
          · exact ⟨fun r q h => (by cases h), fun e' h => (by cases h; exact real_tooDeep)⟩
          · have hsub := lrSub_spec hsz (pos := p) (end_ := fend) hf.2.1 (by omega) l
            split
            · rename_i e hs
              exact ⟨fun r q h => (by cases h), fun e' h => (by cases h; exact hsub.err _ hs)⟩
            · rename_i cend hs
              have hc := hsub.ok _ hs
              have ih1 := ih (depth + 1) child p cend [] (by omega) (by omega) (by omega)
              split
              · rename_i e hd
                exact ⟨fun r q h => (by cases h), fun e' h => (by cases h; exact ih1.2 _ hd)⟩
              · rename_i sub p2 hd
                have hp2 := ih1.1 _ _ hd
                exact ih depth m p2 end_ _ (by omega) hes (by omega)
        · exact ⟨fun r q h => (by cases h), fun e' h => (by cases h; exact real_typeMismatch)⟩
      · -- any other arm
        rename_i k hk
        have hc := consumeField_spec hsz (p := p) (fend := fend) hf.2.1 (by omega) fuel (by omega)
          (S.lookup m num).kind fv
        split
        · rename_i e hd
          exact ⟨fun r q h => (by cases h), fun e' h => (by cases h; exact hc.2 _ hd)⟩
        · rename_i v p2 hd
          have hp2 := hc.1 _ _ hd
          exact ih depth m p2 end_ _ (by omega) hes (by omega)

/-- `Fields::new` on a fresh reader: the top-level limit is exactly the input size. -/
theorem c38_toplevel_end_is_input_size {d : Bytes} (hsz : d.size < UInt64.size) :
    lrNew d 0 (UInt64.ofNat (UInt64.size - 1)) = sizeU d := by
  have hs := sizeU_toNat hsz
  have := size_eq
  apply UInt64.toNat_inj.mp
  unfold lrNew
  have hr : (vrRemaining d 0).toNat = d.size := by
    rw [vrRem_toNat hsz]; rfl
  have hmax : (UInt64.ofNat (UInt64.size - 1)).toNat = UInt64.size - 1 := by decide
  have hmin : (minU (UInt64.ofNat (UInt64.size - 1)) (vrRemaining d 0)).toNat = d.size := by
    unfold minU
    split
    · rename_i h
      rw [UInt64.le_iff_toNat_le, hmax, hr] at h
      rw [hmax]; omega
    · exact hr
  unfold satAdd
  have h0 : (0 : UInt64).toNat = 0 := rfl
  rw [if_pos (by rw [hmin, h0]; omega)]
  rw [toNat_add_of_lt (by rw [hmin, h0]; omega), hmin, h0, hs]
  omega

/-- T1 (totality of `ModelProto::parse_buf` / `parse_file` / `is_onnx_model`, any schema, any root
message): with fuel `|d| + 1` the model decoder always finishes, with either a message whose decoding
consumed exactly the whole input, or a real `ErrorKind`; the pseudo-outcomes "out of fuel"
(non-termination) and "wrapped addition" are unreachable. -/
theorem c38_parse_total (S : Schema) (d : Bytes) (root : Nat) (hsz : d.size < UInt64.size) :
    (∃ r, parse S d root = .ok (r, sizeU d)) ∨
    (∃ e, parse S d root = .error e ∧ e ≠ .wrap ∧ e ≠ .fuel) := by
  unfold parse
  rw [c38_toplevel_end_is_input_size hsz]
  have hs := sizeU_toNat hsz
  have h0 : (0 : UInt64).toNat = 0 := rfl
  have := c38_decode_terminates S hsz (d.size + 1) 0 root 0 (sizeU d) []
    (by rw [h0]; omega) (by omega) (by rw [h0, hs]; omega)
  cases hres : decodeFields S d (d.size + 1) 0 root 0 (sizeU d) [] with
  | ok rp =>
    obtain ⟨r, p⟩ := rp
    have hp := this.1 r p hres
    left
    exact ⟨r, by rw [UInt64.toNat_inj.mp hp]⟩
  | error e =>
    right
    exact ⟨e, rfl, this.2 e hres⟩

/-! ## T2 over-long length prefixes -/

/-- T2: if the header of a length-delimited field (tag with wire type 2, then the length varint `l`)
is readable at `pos` and `l` exceeds the bytes remaining in the enclosing message after the prefix,
`Fields::next` fails with `Eof` — and so does the decoding of the enclosing message, for every
schema, message type, depth and (positive) fuel. -/
theorem c38_overlong_length_is_error (S : Schema) {d : Bytes} {pos end_ tag p1 l p2 : UInt64}
    (htag : lrReadVarint d pos end_ = .ok tag p1) (hwt : tag &&& 7 = 2)
    (hlen : lrReadVarint d p1 end_ = .ok l p2)
    (hlong : end_.toNat - p2.toNat < l.toNat) :
    nextField d pos end_ = .err .eof ∧
    ∀ fuel depth m acc, decodeFields S d (fuel + 1) depth m pos end_ acc = .error .eof := by
  have hnext : nextField d pos end_ = .err .eof := by
    unfold nextField
    rw [htag]
    simp only [readValue, hwt, hlen]
    have hc : lrCheck p2 end_ l = false := by
      cases hb : lrCheck p2 end_ l with
      | false => rfl
      | true => rw [lrCheck_iff] at hb; omega
    simp [lrSub, hc]
  refine ⟨hnext, ?_⟩
  intro fuel depth m acc
  unfold decodeFields
  rw [hnext]

/-- T2 (converse direction): every length-delimited field that `Fields::next` hands out fits in its
enclosing message, hence in the input: `p + l = fend ≤ end_ ≤ |d|`, with no wrap in `p + l`. -/
theorem c38_accepted_length_fits {d : Bytes} (hsz : d.size < UInt64.size) {pos end_ : UInt64}
    (hpe : pos.toNat ≤ end_.toNat) (hes : end_.toNat ≤ d.size)
    {num l p fend : UInt64} (h : nextField d pos end_ = .field num (.len l) p fend) :
    p.toNat + l.toNat = fend.toNat ∧ fend.toNat ≤ end_.toNat ∧ fend.toNat ≤ d.size := by
  have r := nextField_field hsz hpe hes h
  have := r.2.2.2 l rfl
  omega

/-! ## T3 allocation sizes and nesting depth -/

/-- T3 (allocations): a `string`/`bytes` field of declared length `l` is only read — and its buffer
only allocated — when `l` bytes are available inside the field's sub-reader, i.e. `l` never exceeds
the remaining input. -/
theorem c38_alloc_bounded {d : Bytes} (hsz : d.size < UInt64.size) {p fend : UInt64}
    (hpf : p.toNat ≤ fend.toNat) (hfs : fend.toNat ≤ d.size) {utf8 : Bool} {l : UInt64}
    {v : Option Val} {p2 : UInt64} (h : consumeBlob d utf8 p fend l = .ok (v, p2)) :
    l.toNat ≤ d.size - p.toNat ∧ p2.toNat = p.toNat + l.toNat := by
  have := consumeBlob_alloc hsz hpf hfs h
  omega

/-- Lemma (restates the guard): at depth `maxDepth = 100` an embedded message is refused. The
property-level statement is the invariant `c38_depth_invariant` in `Props/C38Cost.lean`. -/
theorem c38_depth_limit (S : Schema) (d : Bytes) {fuel depth m child : Nat} {pos end_ num l p fend : UInt64}
    {acc : List (UInt64 × Val)} (hn : nextField d pos end_ = .field num (.len l) p fend)
    (hk : (S.lookup m num).kind = .msg child) (hd : maxDepth ≤ depth) :
    decodeFields S d (fuel + 1) depth m pos end_ acc = .error .tooDeep := by
  unfold decodeFields
  rw [hn]
  simp only [hk]
  rw [if_pos hd]

/-! ## Non-vacuity: concrete inputs meeting the hypotheses -/

/-- ModelProto { graph { node {} } } -/
def exOk : Bytes := #[0x3a, 0x02, 0x0a, 0x00]
/-- unknown field 15, length 100, two bytes left (accepted before the fix) -/
def exOverlong : Bytes := #[0x7a, 0x64, 0x01, 0x02]

/-- Outcome class of a decoder run: error kind, or final position (decidable projection; `Val` has no
`DecidableEq`). -/
def resClass {α : Type} (r : Except Err (α × UInt64)) : Sum Err UInt64 :=
  match r with
  | .ok (_, p) => .inr p
  | .error e => .inl e

example : exOk.size < UInt64.size := by decide
example : (nextField exOk 0 4 = .field 7 (.len 2) 2 4) := by decide
example : resClass (parse schema exOk idModelProto) = .inr 4 := by decide
-- hypotheses of `c38_overlong_length_is_error` on `7A 64 01 02`:
example : lrReadVarint exOverlong 0 4 = .ok 0x7a 1 ∧ (0x7a : UInt64) &&& 7 = 2 ∧
    lrReadVarint exOverlong 1 4 = .ok 100 2 ∧ (4 : UInt64).toNat - (2 : UInt64).toNat < (100 : UInt64).toNat := by
  decide
example : resClass (parse schema exOverlong idModelProto) = .inl .eof := by decide
-- hypotheses of `c38_depth_limit` / `c38_consume_within`:
example : (schema.lookup idModelProto 7).kind = .msg idGraphProto := by decide
example : resClass (consumeField exOk 3 .skip (.len 2) 2 4) = .inr 4 := by decide

/-! ## Illustrations: fragments of the arithmetic before the fix

Not theorems about the old decoder (no model of it exists here): `oldCheck`, `oldSubEnd`,
`oldSkipPos` are isolated expressions of the old code and `oldVarintOuter` is a one-state
abstraction written to exhibit the fixed point.  They explain *why* the pre-fix tree fails; that it
does fail is shown by running the harness against the pre-fix tree (see findings/C38.json). -/

/-- Old code, input `7A F5 FF … 01 00 00 00 00`: the field's sub-reader end wraps to 0, the wrapped
bounds check passes, and `seek_relative(len as i64)` moves the cursor from 11 back to 0 — the decoder
re-reads the same field forever (the observed hang). -/
theorem c38_old_skip_goes_backwards :
    oldCheck 11 (oldSubEnd 11 (UInt64.ofNat (2^64 - 11))) (UInt64.ofNat (2^64 - 11)) = true ∧
    oldSkipPos 11 (UInt64.ofNat (2^64 - 11)) = some 0 := by decide

/-- Old code, input `7A 64 01 02`: the length (100) is never compared with the input size (4): the
sub-reader end is 102, the check `2 + 100 ≤ 102` passes and the cursor moves to 102, beyond the input. -/
theorem c38_old_overlong_accepted :
    oldCheck 2 (oldSubEnd 2 100) 100 = true ∧ oldSkipPos 2 100 = some 102 := by decide

/-- Old `read_varint`: after ten continuation bytes (`index = 10`) with more input available, one pass
of the outer loop leaves the state unchanged — an infinite loop on an 11-byte input. -/
theorem c38_old_varint_stuck :
    oldVarintOuter (Array.replicate 11 0x80) 10 10 = some (10, 10) := by decide

/-- The fixed model on the same inputs: errors. -/
theorem c38_fixed_on_old_witnesses :
    resClass (parse schema
      (#[0x7a, 0xf5, 0xff, 0xff, 0xff, 0xff, 0xff, 0xff, 0xff, 0xff, 0x01, 0, 0, 0, 0]) idModelProto)
      = .inl .eof ∧
    resClass (parse schema (Array.replicate 11 0x80) idModelProto) = .inl .invalidVarint := by
  constructor <;> decide

end RtenVerif.Protobuf
