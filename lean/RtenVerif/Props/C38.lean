import RtenVerif.Model.Protobuf
import RtenVerif.Generated.OnnxSchema

namespace RtenVerif.Protobuf
open RtenVerif.Generated.OnnxSchema

/-- Old arithmetic witness: with the pre-fix code, skipping a field of length 2^64-11 at position 11
passes the wrapped bounds check and seeks back to position 0. -/
theorem c38_old_skip_goes_backwards :
    oldCheck 11 (oldSubEnd 11 (UInt64.ofNat (2^64 - 11))) (UInt64.ofNat (2^64 - 11)) = true ∧
    oldSkipPos 11 (UInt64.ofNat (2^64 - 11)) = some 0 := by decide

end RtenVerif.Protobuf
