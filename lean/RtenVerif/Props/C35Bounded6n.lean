import RtenVerif.Props.C35Bounded6Defs

/-! C35.S3 bounded scope, chunk `n`: smallest code in `6..15`, second smallest in `6..15`
(kernel evaluation; bounded statement). -/
namespace RtenVerif.Poly

theorem c35_chunk6_n : chunkOk 6 15 6 15 = true := by decide +kernel

end RtenVerif.Poly
