import RtenVerif.Lemmas.ControlFlowSim5
import RtenVerif.Lemmas.ControlFlowSpec

/-!
# C24 — control-flow subgraphs behave like the equivalent inlined graph

Model: `RtenVerif/Model/ControlFlow.lean` (`evalG` naive semantics, `runPlan` operational semantics).

## T1 (operational = naive)
FULL STATEMENT (for every well-formed program — globally unique names, operators in a valid order —
every fuel, every owned/borrowed split of the arguments):
    `runPlan S fuel g (flag args) [] = evalG S true fuel [] g args`.
* Against the ONNX reading of empty scan outputs it is FALSE: `c24_loop_zero_iter_scan_false`
  (zero-iteration loop with scan outputs); against the code's reading (`evalG S false`) it holds.
* Proved parts (this file): the `Loop` fold is *shared* by both semantics and depends on the body
  runner only pointwise (`c24_loop_congr`), its unrolling law (`c24_loop_unroll`) and zero-iteration
  case (`c24_loop_zero_iterations`); the environment handed to a subgraph resolves every node of
  the parent graph to the value the parent holds — whether it stayed in `temp_values` (by
  reference) or was just moved by value — and every other name to what the parent's own
  environment gives (`c24_child_sees_parent_locals`, `c24_child_sees_outer`,
  `c24_extract_keeps_other_captures`).
* Global simulation over whole nested runs: PROVED (`c24_runPlan_eq_evalG`) for all well-formed
  programs (valid ONNX naming) and operators with at most one in-place input: in-place execution,
  re-capture of a graph's own captures by a nested operator, any nesting of If/Loop, any iteration
  count, any owned/borrowed split.  The component-level hole `c24_getInput_misses_capture_node`
  is shown unreachable inside that proof.

## T2 (ownership safety) — proved
`RcInv` holds initially and is preserved by every step of every (nested) `run_plan`
(`c24_rc_invariant_init/_step/_steps`); under it every value moved by value into a subgraph or taken
for in-place execution has no remaining use (`c24_byvalue_capture_has_no_later_use`,
`c24_inplace_take_has_no_later_use`); a value with `rc ≠ 1` is never moved
(`c24_shared_value_never_moved`); `take_input` only touches the innermost by-value map
(`c24_byref_never_taken`, `c24_can_take_only_by_value`).  `Loop` hands the *same* environment value
to every iteration (model of `captures.clone()`), so a take in iteration k cannot be seen by k+1
(`c24_loop_iterations_independent` is an instance checked by `decide`).

## T3 (optimizer guard) — proved: `c24_fusion_keeps_captured`.
-/
namespace RtenVerif.ControlFlow

variable {P V : Type}

/-! ## T1 -/

/-- Program `s5` of the harness: `5 = 1*2; (6, 7) = Loop(trip = 3){ carried 5; scan neg(carried) }`. -/
def progZeroScan : Graph Prim Tens :=
  .mk [1, 2, 3] []
    [ .prim .mul [1, 2] 5,
      .loop (some 3) none [5]
        (.mk [80, 81, 82] []
          [.prim .ident [81] 83, .prim .add [82, 5] 84, .prim .neg [82] 85] [83, 84, 85])
        [6, 7] ]
    [6, 7]

def argsZero : List Tens := [⟨[2], [1, 2]⟩, ⟨[2], [3, 4]⟩, ⟨[], [0]⟩]
def argsTwo : List Tens := [⟨[2], [1, 2]⟩, ⟨[2], [3, 4]⟩, ⟨[], [2]⟩]

/-- FULL T1 is FALSE of the code: a loop that runs zero times and has a scan output returns too few
outputs (`OutputMismatch`) where ONNX prescribes an empty scan output. Pinned at operator level by
`test_loop_condition_initially_false`. -/
theorem c24_loop_zero_iter_scan_false :
    runTop intSem 3 progZeroScan (argsZero.map (fun v => (false, v))) = .error .outputMismatch ∧
    evalG intSem true 3 [] progZeroScan argsZero = .ok [⟨[2], [3, 8]⟩, ⟨[0], []⟩] := by
  decide

/-- …with two iterations both semantics agree (test; non-vacuity of the model). -/
example :
    runTop intSem 3 progZeroScan (argsTwo.map (fun v => (true, v))) =
      .ok [⟨[2], [9, 24]⟩, ⟨[2, 2], [-3, -8, -6, -16]⟩] ∧
    evalG intSem true 3 [] progZeroScan argsTwo =
      .ok [⟨[2], [9, 24]⟩, ⟨[2, 2], [-3, -8, -6, -16]⟩] := by
  decide

/-- (Lemma, function extensionality — not a property-level statement.) The `Loop` fold depends on
the body runner only through its results: if the operational body
run and the naive body evaluation agree on every argument list, the whole loops agree. -/
theorem c24_loop_congr (S : Sem P V) (onnx : Bool) (run₁ run₂ : Nat → List V → Except Err (List V))
    (h : ∀ i args, run₁ i args = run₂ i args) (bi bo : Nat) (tv cv : Option V) (cs : List V) :
    loopCore S onnx run₁ bi bo tv cv cs = loopCore S onnx run₂ bi bo tv cv cs := by
  have : run₁ = run₂ := by funext i args; exact h i args
  rw [this]

/-- (Lemma: unfolding of `loopIter`.) Unrolling law of the fold (ONNX `Loop`): one more iteration = run the body on
`(i, cond, carried…)`, read the new condition, keep the first `k` results as carried values and
append the rest to the scan lists. -/
theorem c24_loop_unroll (S : Sem P V) (run : Nat → List V → Except Err (List V)) (k rem i : Nat)
    (c c' : Int) (cs rest : List V) (sc : List (List V)) (co : V) (hc : c ≠ 0)
    (hrun : run i (S.ofInt i :: S.ofInt c :: cs) = .ok (co :: rest)) (hco : S.item co = some c') :
    loopIter S run k (rem + 1) i c cs sc =
      loopIter S run k rem (i + 1) c' (rest.take k) (pushScans sc (rest.drop k)) := by
  simp [loopIter, hc, hrun, hco]

/-- (Lemma: unfolding of `loopIter`.) The loop stops when the condition is false or the trip
count is exhausted. -/
theorem c24_loop_stop (S : Sem P V) (run : Nat → List V → Except Err (List V)) (k rem i : Nat)
    (c : Int) (cs : List V) (sc : List (List V)) (h : rem = 0 ∨ c = 0) :
    loopIter S run k rem i c cs sc = .ok (cs, sc) := by
  cases rem with
  | zero => rfl
  | succ r =>
    rcases h with h | h
    · omega
    · simp [loopIter, h]

/-- Zero iterations (trip count ≤ 0 or condition false at start), no scan outputs: the initial
carried values are returned unchanged, in both readings. -/
theorem c24_loop_zero_iterations (S : Sem P V) (onnx : Bool)
    (run : Nat → List V → Except Err (List V)) (tv cv : Option V) (cs : List V) (m c0 : Int)
    (hm : tripOf S tv = some m) (hc : condOf S cv = some c0)
    (hz : m ≤ 0 ∨ c0 = 0) :
    loopCore S onnx run (2 + cs.length) (1 + cs.length) tv cv cs = .ok cs := by
  have hstop : loopIter S run cs.length m.toNat 0 c0 cs (replicateNil (1 + cs.length - 1 - cs.length))
      = .ok (cs, replicateNil (1 + cs.length - 1 - cs.length)) := by
    apply c24_loop_stop
    rcases hz with hz | hz
    · left; omega
    · right; exact hz
  have h0 : 1 + cs.length - 1 - cs.length = 0 := by omega
  rw [h0] at hstop
  have hnil : (replicateNil 0 : List (List V)) = [] := rfl
  rw [hnil] at hstop
  simp [loopCore, hm, hc, hnil, hstop, finishScans]

example : loopCore intSem true (fun _ _ => .error .opError) 3 2 (some ⟨[], [0]⟩) none [⟨[1], [7]⟩]
    = .ok [⟨[1], [7]⟩] :=
  c24_loop_zero_iterations intSem true _ (some ⟨[], [0]⟩) none [⟨[1], [7]⟩] 0 1 rfl rfl (Or.inl (by decide))

/-- What a subgraph reads for a node of its parent graph `g`, through the environment `run_plan`
builds *after* by-value extraction: exactly the parent's owned value if it has one (whether it was
left in `temp_values` or moved by value), else the parent's constant / borrowed input. -/
theorem c24_child_sees_parent_locals (g : Graph P V) (views : Env V) (st : St V) (ins ds : List Nat)
    (n : Nat) (hn : n ∈ g.defs) :
    let ex := extractByVal g.caps ins st ds
    getInput ({ locals := g.defs, caps := g.caps, views := views, tempRef := ex.1.temp,
                byVal := ex.2 } :: ex.1.env) n =
      match look st.temp n with
      | some v => some v
      | none => look views n := by
  intro ex
  have hc := caps_not_def g n hn
  rw [getInput_frame_local g views ex.1.temp ex.2 ex.1.env n hn]
  cases h : look st.temp n with
  | some v =>
    rcases extractByVal_visible g.caps ins ds st n v h hc with ⟨h1, _⟩ | ⟨h1, h2⟩
    · simp [ex, h1]
    · simp [ex, h1, h2]
  | none =>
    have h1 := extractByVal_temp_none g.caps ins ds st n h
    have h2 := extractByVal_not_key g.caps ins ds st n h hc
    simp [ex, h1, h2]

/-- Instance: the owned value `1` (count 1) is moved by value and still read by the child. -/
example :
    let g : Graph Prim Tens := .mk [1] [] [.prim .neg [1] 2] [2]
    let st : St Tens := ⟨[(1, ⟨[], [4]⟩)], fun _ => 1, []⟩
    let ex := extractByVal g.caps [] st [1]
    ex.2 = [(1, ⟨[], [4]⟩)] ∧ look ex.1.temp 1 = none ∧
    getInput ({ locals := g.defs, caps := g.caps, views := [], tempRef := ex.1.temp,
                byVal := ex.2 } :: ex.1.env) 1 = some ⟨[], [4]⟩ := by
  decide

/-- For a name the parent graph does not define, the lookup continues in the parent's own
environment. -/
theorem c24_child_sees_outer (g : Graph P V) (views tempRef byVal : Env V) (env : List (Frame V))
    (n : Nat) (hn : n ∉ g.defs) :
    getInput ({ locals := g.defs, caps := g.caps, views := views, tempRef := tempRef,
                byVal := byVal } :: env) n = getInput env n :=
  getInput_frame_outer g views tempRef byVal env n hn

/-- By-value extraction leaves the parent's own environment unchanged for every name that is not
one of the operator's dependencies. -/
theorem c24_extract_keeps_other_captures (gc ins : List Nat) : ∀ (ds : List Nat) (st : St V) (n : Nat),
    n ∉ ds → getInput (extractByVal gc ins st ds).1.env n = getInput st.env n
  | [], _, _, _ => rfl
  | m :: ms, st, n, hn => by
    have hnm : n ≠ m := fun h => hn (h ▸ List.mem_cons_self)
    have hns : n ∉ ms := fun h => hn (List.mem_cons_of_mem _ h)
    have htake : getInput (takeValue gc st m).2.env n = getInput st.env n := by
      unfold takeValue
      split
      · split
        · rfl
        · split
          · exact getInput_takeInput_ne st.env m n hnm
          · rfl
      · rfl
    unfold extractByVal
    split
    · exact c24_extract_keeps_other_captures gc ins ms st n hns
    · split
      · rename_i v st' htv
        rw [htv] at htake
        simp only []
        rw [c24_extract_keeps_other_captures gc ins ms st' n hns, htake]
      · rename_i st' htv
        rw [htv] at htake
        rw [c24_extract_keeps_other_captures gc ins ms st' n hns, htake]

/-- Input collection of a primitive step that does not run in place is the shared `lookups` over
`run_plan`'s lookup order; so whenever that order agrees with the naive environment on the
operator's inputs, the step computes the naive result. -/
theorem c24_collect_eq_lookups (views : Env V) (st : St V) : ∀ (ins : List Nat) (pos : Nat),
    collect views st [] pos ins = lookups (opLookup views st) ins
  | [], _ => rfl
  | n :: ns, pos => by
    simp only [collect, lookups, look]
    rw [c24_collect_eq_lookups views st ns (pos + 1)]

theorem c24_lookups_congr (f g : Nat → Option V) : ∀ (ns : List Nat), (∀ n ∈ ns, f n = g n) →
    lookups f ns = lookups g ns
  | [], _ => rfl
  | n :: ns, h => by
    simp only [lookups]
    rw [h n List.mem_cons_self, c24_lookups_congr f g ns (fun m hm => h m (List.mem_cons_of_mem _ hm))]

/-- Component-level hole: `CaptureEnv::get_input` skips the local graph for a *capture node*, but
`run_plan` stores a by-value capture taken from the enclosing environment under exactly that node.
Such a value can be taken in place (`can_take_input`) but not read.  On graphs produced by the
loaders this state is unreachable: a graph that passes one of its own capture nodes on to a nested
operator mentions the name twice in `capture_names` (once itself, once through the nested
operator), so its parent's reference count is ≥ 2 and the value is never moved by value into the
graph's environment in the first place (harness scenarios s1/s2 exercise exactly this). -/
theorem c24_getInput_misses_capture_node :
    let env : List (Frame Tens) :=
      [ { locals := [7], caps := [5], views := [], tempRef := [], byVal := [(5, ⟨[], [42]⟩)] },
        { locals := [5], caps := [], views := [], tempRef := [], byVal := [] } ]
    canTake env 5 = true ∧ getInput env 5 = none := by
  decide

/-! ### `decide`d instances of the full T1 statement (tests, not proofs) -/

/-- Harness scenario s3: a by-value capture (`5`) used by an in-place capable operator in every
iteration of a loop. -/
def progS3 : Graph Prim Tens :=
  .mk [1, 2, 3] []
    [ .prim .mul [1, 2] 5,
      .loop (some 3) none [1]
        (.mk [60, 61, 62] []
          [.prim .neg [5] 63, .prim .add [63, 62] 64, .prim .ident [61] 65] [65, 64, 63])
        [6, 7] ]
    [6, 7]

def argsS3 : List Tens := [⟨[2], [1, 2]⟩, ⟨[2], [3, 4]⟩, ⟨[], [3]⟩]

/-- The value `5` is moved by value into the loop's environment (owned inputs) and negated in place
in iteration 0; iterations 1 and 2 still see it: results equal the naive fold. -/
theorem c24_loop_iterations_independent :
    runTop intSem 3 progS3 (argsS3.map (fun v => (true, v))) = evalG intSem true 3 [] progS3 argsS3 ∧
    runTop intSem 3 progS3 (argsS3.map (fun v => (false, v))) = evalG intSem true 3 [] progS3 argsS3 ∧
    evalG intSem true 3 [] progS3 argsS3 =
      .ok [⟨[2], [-8, -22]⟩, ⟨[3, 2], [-3, -8, -3, -8, -3, -8]⟩] := by
  decide

/-- Harness scenario s1 (capture of a capture through If → Loop). -/
def progS1 : Graph Prim Tens :=
  .mk [1, 2, 3] []
    [ .prim .mul [1, 2] 5,
      .ifOp 3
        (.mk [] [(10, ⟨[], [2]⟩)]
          [ .prim .add [5, 1] 11,
            .loop (some 10) none [11]
              (.mk [20, 21, 22] [] [.prim .ident [21] 23, .prim .sub [22, 5] 24] [23, 24]) [12] ]
          [12])
        (.mk [] [] [.prim .ident [1] 30] [30])
        [6] ]
    [6]

example :
    runTop intSem 4 progS1 ([⟨[2], [1, 2]⟩, ⟨[2], [3, 4]⟩, ⟨[], [1]⟩].map (fun v => (true, v))) =
      evalG intSem true 4 [] progS1 [⟨[2], [1, 2]⟩, ⟨[2], [3, 4]⟩, ⟨[], [1]⟩] ∧
    evalG intSem true 4 [] progS1 [⟨[2], [1, 2]⟩, ⟨[2], [3, 4]⟩, ⟨[], [1]⟩] = .ok [⟨[2], [-2, -6]⟩] := by
  decide

/-! ### T1 over whole nested runs (fragment) -/

/-- **T1, global refinement.** For every operator semantics whose operators
declare at most one in-place input (`hS`; all single-output operators of rten do — only the two
multi-output attention-cache operators declare two), every fuel and every well-formed program `g`
of nesting depth
`< fuel` (`wfG`: distinct names per graph, no shadowing of an enclosing graph's names by a subgraph,
outputs distinct and defined by the graph — what ONNX requires of a valid model), for *every* owned/borrowed split of the arguments, the
operational semantics — reference counts, in-place candidate selection and the `run_in_place`
condition, `take_value` from `temp_values` *and* out of the by-value captures inside a subgraph,
by-value capture extraction, the `CaptureEnv` chain, release of dead values, `Loop` with any number of iterations (zero included), arbitrary nesting of
`If` and `Loop` — returns exactly what the naive semantics returns (same values or same error
class). The naive semantics is taken in its code reading of empty scan outputs (`onnx := false`);
it differs from the ONNX reading only on zero-iteration loops with scan outputs
(`c24_loop_zero_iter_scan_false`).
The operator contract `run_in_place = run` is part of the model (`Sem.run` is used for both).
Graphs that pass one of their own captures on to a nested operator are covered: such a name occurs
twice in `capture_names`, the parent's count is ≥ 2, so the value is never moved by value into the
graph's environment and the hole `c24_getInput_misses_capture_node` is unreachable
(`recapture_count`, `noEnvTake_of_once`, invariant `Inv.byvalonce`). -/
theorem c24_runPlan_eq_evalG (S : Sem P V) (hS : ∀ k, (S.inPlaceIdx k).length ≤ 1)
    (fuel : Nat)
    (g : Graph P V) (args : List (Bool × V)) (hwf : wfG fuel g = true) :
    runTop S fuel g args = evalG S false fuel [] g (args.map (·.2)) :=
  runPlan_refines S hS fuel g args [] [] hwf
    (fun _ _ => ⟨rfl, rfl⟩) trivial (fun _ h => absurd rfl h) (fun _ _ _ => rfl)

/-- The general form: a subgraph run in any capture environment `E` that agrees with the naive
enclosing environment `σ` on the graph's free names (and does not shadow its names). -/
theorem c24_runPlan_eq_evalG_env (S : Sem P V) (hS : ∀ k, (S.inPlaceIdx k).length ≤ 1)
    (fuel : Nat) (g : Graph P V) (args : List (Bool × V)) (E : List (Frame V)) (σ : Env V)
    (hwf : wfG fuel g = true)
    (hshadow : ∀ n, n ∈ g.allDefs → getInput E n = none ∧ look σ n = none) (hhead : headOK E)
    (honce : ∀ n, look (headByVal E) n ≠ none → g.capNames.count n ≤ 1)
    (hfree : ∀ n, n ∉ g.defs → Needed g g.ops n → getInput E n = look σ n) :
    runPlan S fuel g args E = evalG S false fuel σ g (args.map (·.2)) :=
  runPlan_refines S hS fuel g args E σ hwf hshadow hhead honce hfree

theorem intSem_one_inplace : ∀ k, (intSem.inPlaceIdx k).length ≤ 1 := by
  intro k; cases k <;> decide

/-- Non-vacuity: scenarios s3 (loop with a by-value capture) and s1 without the branch's own use of
`5` are well-formed, so the theorem applies to them with owned arguments (by-value captures). -/
example : wfG 3 progS3 = true := by decide

example :
    runTop intSem 3 progS3 (argsS3.map (fun v => (true, v))) =
      evalG intSem false 3 [] progS3 argsS3 := by
  have := c24_runPlan_eq_evalG intSem intSem_one_inplace 3 progS3
    (argsS3.map (fun v => (true, v))) (by decide)
  simpa [List.map_map, Function.comp_def] using this

/-- `progS1` (a branch that uses `5` itself *and* passes it on to its loop — capture of a capture)
is covered too. -/
example :
    runTop intSem 4 progS1 ([⟨[2], [1, 2]⟩, ⟨[2], [3, 4]⟩, ⟨[], [1]⟩].map (fun v => (true, v))) =
      evalG intSem false 4 [] progS1 [⟨[2], [1, 2]⟩, ⟨[2], [3, 4]⟩, ⟨[], [1]⟩] := by
  have := c24_runPlan_eq_evalG intSem intSem_one_inplace 4 progS1
    ([⟨[2], [1, 2]⟩, ⟨[2], [3, 4]⟩, ⟨[], [1]⟩].map (fun v => (true, v))) (by decide)
  simpa [List.map_map, Function.comp_def] using this

/-! ### The naive side is the ONNX text, not the model's own loop -/

/-- **The model of `Loop::run_subgraph` (`loopCore`: countdown recursion, `trip_count.unwrap_or(
i32::MAX)`, `cond.unwrap_or(1)`, `(step as i32) < trip_count && cond != 0`, scan lists) computes the
ONNX `Loop` as the operator text states it** (`loopSpec`: left fold over the iteration numbers
`List.range M`, keep-going value in the state, no definition shared with `loopCore`), for every body,
trip count (absent, zero, negative, any size), condition (absent, false at start, false after k) and
both readings of empty scan outputs. -/
theorem c24_loopCore_eq_loopSpec (S : Sem P V) (onnx : Bool)
    (run : Nat → List V → Except Err (List V)) (bodyIn bodyOut : Nat) (tripV condV : Option V)
    (cs : List V) :
    loopCore S onnx run bodyIn bodyOut tripV condV cs =
      loopSpec S onnx run bodyIn bodyOut tripV condV cs :=
  loopCore_eq_loopSpec S onnx run bodyIn bodyOut tripV condV cs

/-- **T1 against the independent semantics**: `run_plan` = the naive graph semantics whose `Loop` is
the ONNX-text fold (`evalGSpec`). -/
theorem c24_runPlan_eq_evalGSpec (S : Sem P V) (hS : ∀ k, (S.inPlaceIdx k).length ≤ 1) (fuel : Nat)
    (g : Graph P V) (args : List (Bool × V)) (hwf : wfG fuel g = true) :
    runTop S fuel g args = evalGSpec S false fuel [] g (args.map (·.2)) := by
  rw [evalG_eq_spec]; exact c24_runPlan_eq_evalG S hS fuel g args hwf

/-- A body for the edge-case instances below: inputs `(i, keepgoing, x)`, outputs
`(i < 2, x + 1, scan i)`. -/
def edgeBody : Nat → List Tens → Except Err (List Tens)
  | i, [it, _, x] => .ok [⟨[], [if i < 2 then 1 else 0]⟩, ⟨x.shape, x.data.map (· + 1)⟩, it]
  | _, _ => .error .arity

/-- Edge instances of the ONNX-text fold (tests of the *specification*; `decide`): trip 5 with the
condition turning false after iteration 2 (three iterations run); trip 0; negative trip; condition
false at start; trip 2 cuts the loop before the condition does. -/
example : loopSpec intSem true edgeBody 3 3 (some ⟨[], [5]⟩) none [⟨[], [10]⟩] =
    .ok [⟨[], [13]⟩, ⟨[3], [0, 1, 2]⟩] := by decide
example : loopSpec intSem true edgeBody 3 3 (some ⟨[], [0]⟩) none [⟨[], [10]⟩] =
    .ok [⟨[], [10]⟩, ⟨[0], []⟩] := by decide
example : loopSpec intSem false edgeBody 3 3 (some ⟨[], [-1]⟩) none [⟨[], [10]⟩] =
    .ok [⟨[], [10]⟩] := by decide
example : loopSpec intSem true edgeBody 3 3 (some ⟨[], [5]⟩) (some ⟨[], [0]⟩) [⟨[], [10]⟩] =
    .ok [⟨[], [10]⟩, ⟨[0], []⟩] := by decide
example : loopSpec intSem true edgeBody 3 3 (some ⟨[], [2]⟩) (some ⟨[], [7]⟩) [⟨[], [10]⟩] =
    .ok [⟨[], [12]⟩, ⟨[2], [0, 1]⟩] := by decide
example : loopSpec intSem true edgeBody 3 3 (some ⟨[2], [1, 2]⟩) none [⟨[], [10]⟩] =
    .error .badCond := by decide

/-! ## T2 -/

theorem c24_rc_invariant_init (g : Graph P V) (temp : Env V) (env : List (Frame V)) :
    RcInv g g.ops { temp := temp, rc := rcInit g, env := env } := rcInv_init g temp env

theorem c24_rc_invariant_step (S : Sem P V) (rec : Runner P V) (g : Graph P V) (views : Env V)
    (st st' : St V) (op : Op P V) (rest : List (Op P V))
    (hinv : RcInv g (op :: rest) st) (h : stepOp S rec g views st op = .ok st') :
    RcInv g rest st' := rcInv_step S rec g views st st' op rest hinv h

theorem c24_rc_invariant_steps (S : Sem P V) (rec : Runner P V) (g : Graph P V) (views : Env V)
    (ops rest : List (Op P V)) (st st' : St V) (hinv : RcInv g (ops ++ rest) st)
    (h : stepOps S rec g views st ops = .ok st') : RcInv g rest st' :=
  rcInv_steps S rec g views ops rest st st' hinv h

/-- A parent value moved by value into a subgraph's environment is a dependency of that operator
only: no later step (input or nested capture), no requested output, and not a second occurrence in
the same operator (e.g. both branches of an `If`) needs it. -/
theorem c24_byvalue_capture_has_no_later_use (g : Graph P V) (op : Op P V) (rest : List (Op P V))
    (st : St V) (hinv : RcInv g (op :: rest) st) (p : Nat × V)
    (hp : p ∈ (extractByVal g.caps op.directInputs st (deps g op)).2)
    (hval : isValueNode g p.1 = true) :
    (deps g op).count p.1 = 1 ∧ p.1 ∉ rest.flatMap (deps g) ∧ p.1 ∉ g.outputs ∧
      p.1 ∉ op.directInputs := by
  obtain ⟨hmem, hnin, hrc⟩ := extractByVal_keys g.caps op.directInputs (deps g op) st p hp
  obtain ⟨h1, h2, h3⟩ := rc_one_no_remaining_use g op rest st hinv p.1 hval hmem hrc
  exact ⟨h1, h2, h3, by simpa using hnin⟩

/-- The same for values taken for in-place execution of a primitive operator (inside a subgraph
these may come from the by-value captures). -/
theorem c24_inplace_take_has_no_later_use (g : Graph P V) (k : P) (ins : List Nat) (out : Nat)
    (rest : List (Op P V)) (st st' : St V) (hinv : RcInv g (.prim k ins out :: rest) st)
    (cs : List (Nat × Nat)) (vs : List (Nat × V)) (htk : takeAll g.caps st cs = .ok (st', vs))
    (c : Nat × Nat) (hc : c ∈ cs) (hin : c.2 ∈ ins) (hval : isValueNode g c.2 = true) :
    ins.count c.2 = 1 ∧ c.2 ∉ rest.flatMap (deps g) ∧ c.2 ∉ g.outputs := by
  have hrc := takeAll_rc_one g.caps cs st st' vs htk c hc
  have := rc_one_no_remaining_use g (.prim k ins out) rest st hinv c.2 hval
    (by rw [deps_prim]; exact hin) hrc
  rw [deps_prim] at this
  exact this

/-- Non-vacuity: in scenario s3 the refcount invariant holds initially and `5` (count 1: only the
loop captures it) is extracted by value at the loop step. -/
example :
    (extractByVal (progS3.caps) [3, 1]
      { temp := [(5, (⟨[2], [3, 8]⟩ : Tens))], rc := fun n => if n = 5 then 1 else 2, env := [] }
      [3, 1, 5]).2 = [(5, ⟨[2], [3, 8]⟩)] := by
  decide

/-- `rc ≠ 1` (another step, a requested output or a second capture still needs the value): the
value is not moved — it can only be captured by reference. -/
theorem c24_shared_value_never_moved (gc : List Nat) (st : St V) (n : Nat) (h : st.rc n ≠ 1) :
    takeValue gc st n = (none, st) := takeValue_none_of_rc_ne_one gc st n h

/-- `take_input` never changes by-reference captures, constants, inputs or any outer
environment. -/
theorem c24_byref_never_taken (env : List (Frame V)) (n : Nat) :
    ((takeInput env n).2).map (fun f => (f.locals, f.caps, f.views, f.tempRef)) =
      env.map (fun f => (f.locals, f.caps, f.views, f.tempRef)) ∧
    (takeInput env n).2.tail = env.tail := takeInput_frames env n

theorem c24_can_take_only_by_value (env : List (Frame V)) (n : Nat) :
    canTake env n = true ↔
      ∃ f ps, env = f :: ps ∧ (f.locals.contains n || f.caps.contains n) = true ∧
        (look f.byVal n).isSome = true := canTake_iff env n

/-! ## T3 -/

/-- If the guard lets a fusion through, every captured value that had a producer still has one
afterwards (the fused operator). -/
theorem c24_fusion_keeps_captured (ops : List (Nat × List Nat)) (unfused : List Nat) (newId : Nat)
    (preserved captured : List Nat)
    (hguard : guardFind captured (unfusedOutputs ops unfused) preserved = none)
    (v : Nat) (hcap : v ∈ captured) (hprod : producedBy ops v) :
    producedBy (applyFusion ops unfused newId preserved) v := by
  obtain ⟨o, ho, hv⟩ := hprod
  by_cases hu : unfused.contains o.1 = true
  · have hout : v ∈ unfusedOutputs ops unfused := by
      unfold unfusedOutputs
      exact List.mem_flatMap.mpr ⟨o, List.mem_filter.mpr ⟨ho, hu⟩, hv⟩
    have := guardFind_none captured _ preserved hguard v hout hcap
    exact ⟨(newId, preserved), by simp [applyFusion], this⟩
  · refine ⟨o, ?_, hv⟩
    simp only [applyFusion, List.mem_append, List.mem_filter]
    left
    exact ⟨ho, by simpa using hu⟩

/-- Without the guard the statement fails: an `Identity` fusion (`preserved = []`) of the operator
producing a captured value leaves it without a producer. -/
theorem c24_fusion_without_guard_false :
    guardFind [5] (unfusedOutputs [(0, [5])] [0]) [] = some 5 ∧
    ¬ producedBy (applyFusion [(0, [5])] [0] 9 []) 5 := by
  refine ⟨by decide, ?_⟩
  rintro ⟨o, ho, hv⟩
  simp [applyFusion] at ho
  subst ho
  simp at hv

example : guardFind [5] (unfusedOutputs [(0, [4]), (1, [5])] [0, 1]) [5] = none := by decide

end RtenVerif.ControlFlow
