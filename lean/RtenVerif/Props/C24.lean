import RtenVerif.Model.ControlFlow

/-!
# C24 — control-flow subgraphs behave like the equivalent inlined graph
(work in progress: witnesses first)
-/
namespace RtenVerif.ControlFlow

/-- Program `s5` of the harness: `5 = 1*2; (6, 7) = Loop(trip = 3){ carried 5; scan neg(carried) }`. -/
def progZeroScan : Graph Prim Tens :=
  .mk [1, 2, 3] []
    [ .prim .mul [1, 2] 5,
      .loop (some 3) none [5]
        (.mk [80, 81, 82] []
          [.prim .ident [81] 83, .prim .add [82, 5] 84, .prim .neg [82] 85] [83, 84, 85])
        [6, 7] ]
    [6, 7]

def argsZero : List Tens := [⟨[2], [1, 2]⟩, ⟨[2], [3, 4]⟩, ⟨[], [0]⟩]
def argsTwo : List Tens := [⟨[2], [1, 2]⟩, ⟨[2], [3, 4]⟩, ⟨[], [2]⟩]

/-- FULL T1 for `Loop` (operational = ONNX fold semantics) is FALSE of the code: a loop that runs
zero times and has a scan output returns too few outputs (`OutputMismatch`) where ONNX prescribes an
empty scan output. Pinned at operator level by `test_loop_condition_initially_false`. -/
theorem c24_loop_zero_iter_scan_false :
    runTop intSem 3 progZeroScan (argsZero.map (fun v => (false, v))) = .error .outputMismatch ∧
    evalG intSem true 3 [] progZeroScan argsZero = .ok [⟨[2], [3, 8]⟩, ⟨[0], []⟩] := by
  decide

/-- …while with two iterations both agree (sanity / non-vacuity of the model). -/
example :
    runTop intSem 3 progZeroScan (argsTwo.map (fun v => (true, v))) =
      .ok [⟨[2], [9, 24]⟩, ⟨[2, 2], [-3, -8, -6, -16]⟩] ∧
    evalG intSem true 3 [] progZeroScan argsTwo =
      .ok [⟨[2], [9, 24]⟩, ⟨[2, 2], [-3, -8, -6, -16]⟩] := by
  decide

end RtenVerif.ControlFlow
