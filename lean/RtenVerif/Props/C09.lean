import RtenVerif.Model.Layout

/-!
# C09 — Layout transformations match a reference array model
(theorems added incrementally)
-/
namespace RtenVerif.Layout
open RtenVerif.Arr

/-- smoke test of the model (a test, not a theorem about all inputs). -/
theorem c09_smoke : (transposed ⟨0, 6, [(2, 3), (3, 1)]⟩).dims = [(3, 1), (2, 3)] := by decide

end RtenVerif.Layout
