import RtenVerif.Lemmas.Layout
import RtenVerif.Lemmas.Slice
import RtenVerif.Lemmas.Perm
import RtenVerif.Lemmas.Gather
import RtenVerif.Lemmas.SliceT1
import RtenVerif.Lemmas.AxisSel
import RtenVerif.Lemmas.WF
import RtenVerif.Lemmas.Broadcast
import RtenVerif.Lemmas.Squeeze
import RtenVerif.Lemmas.RowMajor
import RtenVerif.Lemmas.Clip
import RtenVerif.Lemmas.SliceCopy
import RtenVerif.Lemmas.Append
import RtenVerif.Props.C08
import RtenVerif.Lemmas.WFOwned
import RtenVerif.Lemmas.Copy
import RtenVerif.Lemmas.CopyRange

/-!
# C09 — Layout transformations match a reference array model

`denote v s` is the array a view `v = (base, len, dims)` denotes over storage `s`:
shape `sizes dims`, element `idx` = `s (base + Σ idx_k * stride_k)`.
For every operation `op` the T1 theorem has the form
`(op_layout v).map (denote · s) = op_ref (denote v s)`:
either both sides are the same array, or both report the same error class.
-/
namespace RtenVerif.Layout
open RtenVerif.Arr RtenVerif.Overlap

variable {α : Type} [Inhabited α]

theorem map_getD_range {β : Type} (d : List β) (x : β) :
    (List.range d.length).map (fun i => d.getD i x) = d := by
  apply List.ext_getElem
  · simp
  · intro i h1 h2
    simp [List.getD_eq_getElem?_getD, List.getElem?_eq_getElem h2]

theorem transposed_dims (v : View) : (transposed v).dims = v.dims.reverse := by
  simp only [transposed, permuteIter]
  rw [List.map_reverse, map_getD_range]

/-- **C09.T1 transpose.** -/
theorem c09_transpose (v : View) (s : Nat → α) :
    denote (transposed v) s = (denote v s).transpose := by
  unfold NArr.transpose
  apply denote_refines v (transposed v) s List.reverse
  · simp [transposed_dims, sizes, denote]
  · intro idx h
    have hl := validIdx_length h
    simp only [denote, NArr.ofFn_shape, List.length_reverse] at hl h ⊢
    rw [← validIdx_reverse _ _ (by simp [hl]), List.reverse_reverse]
    exact h
  · intro idx h
    have hl := validIdx_length h
    simp only [denote, NArr.ofFn_shape, List.length_reverse, sizes_length] at hl
    rw [transposed_dims]
    show (transposed v).base + _ = _
    simp only [transposed]
    rw [← offset_reverse v.dims idx.reverse (by simp [hl]), List.reverse_reverse]

/-- **C09.T1 move_axis**: same array, or both panic (axis out of range). -/
theorem c09_move_axis (v : View) (src dst : Nat) (s : Nat → α) :
    (moveAxis v src dst).map (fun v' => denote v' s) = (denote v s).moveAxis src dst := by
  unfold moveAxis NArr.moveAxis
  have hr : (denote v s).rank = v.dims.length := by simp [NArr.rank, denote]
  rw [hr]
  by_cases hc : src < v.dims.length ∧ dst < v.dims.length
  · rw [if_pos hc, if_pos hc]
    simp only [Except.map]
    congr 1
    obtain ⟨hs, hd⟩ := hc
    have hE : (v.dims.eraseIdx src).length = v.dims.length - 1 := by
      simp [List.length_eraseIdx, hs]
    have hEs : ((sizes v.dims).eraseIdx src).length = v.dims.length - 1 := by
      simp [List.length_eraseIdx, hs]
    have hIs : ∀ x, (((sizes v.dims).eraseIdx src).insertIdx dst x).length = v.dims.length := by
      intro x
      rw [List.length_insertIdx, hEs, if_pos (by omega)]; omega
    apply denote_refines v _ s
      (fun idx => (idx.eraseIdx dst).insertIdx src (idx.getD dst 0))
    · simp only [denote, NArr.ofFn_shape, sizes_insertIdx, sizes_eraseIdx, sizes_getD]
    · intro idx h
      have hl := validIdx_length h
      simp only [denote, NArr.ofFn_shape] at h hl ⊢
      have hl' : idx.length = v.dims.length := by rw [hl, hIs]
      have hEi : (idx.eraseIdx dst).length = v.dims.length - 1 := by
        simp [List.length_eraseIdx, hl', hd]
      rw [← insertIdx_eraseIdx_getD idx dst 0 (by omega)] at h
      rw [validIdx_insertIdx _ _ _ _ _ (by omega) (by omega)] at h
      rw [← insertIdx_eraseIdx_getD (sizes v.dims) src 0 (by simpa using hs)]
      rw [validIdx_insertIdx _ _ _ _ _ (by omega) (by omega)]
      exact h
    · intro idx h
      have hl := validIdx_length h
      simp only [denote, NArr.ofFn_shape] at h hl
      have hl' : idx.length = v.dims.length := by rw [hl, hIs]
      have hEi : (idx.eraseIdx dst).length = v.dims.length - 1 := by
        simp [List.length_eraseIdx, hl', hd]
      show v.base + _ = _
      congr 1
      show offset ((v.dims.eraseIdx src).insertIdx dst (v.dims.getD src (0, 0))) idx = _
      have e1 := insertIdx_eraseIdx_getD idx dst 0 (by omega)
      have e2 := insertIdx_eraseIdx_getD v.dims src (0, 0) hs
      calc offset ((v.dims.eraseIdx src).insertIdx dst (v.dims.getD src (0, 0))) idx
          = offset ((v.dims.eraseIdx src).insertIdx dst (v.dims.getD src (0, 0)))
              ((idx.eraseIdx dst).insertIdx dst (idx.getD dst 0)) := by rw [e1]
        _ = idx.getD dst 0 * (v.dims.getD src (0, 0)).2 + offset (v.dims.eraseIdx src) (idx.eraseIdx dst) :=
              offset_insertIdx _ _ _ _ _ (by omega) (by omega)
        _ = offset ((v.dims.eraseIdx src).insertIdx src (v.dims.getD src (0, 0)))
              ((idx.eraseIdx dst).insertIdx src (idx.getD dst 0)) :=
              (offset_insertIdx _ _ _ _ _ (by omega) (by omega)).symm
        _ = offset v.dims ((idx.eraseIdx dst).insertIdx src (idx.getD dst 0)) := by rw [e2]
  · rw [if_neg hc, if_neg hc]; rfl

/-- **C09.T1 insert_axis**: same array, or both panic (`index > ndim`).  The stride chosen for
the new axis is irrelevant: its only valid index is 0. -/
theorem c09_insert_axis (v : View) (k : Nat) (s : Nat → α) :
    (insertAxis v k).map (fun v' => denote v' s) = (denote v s).insertAxis k := by
  unfold insertAxis NArr.insertAxis
  have hr : (denote v s).rank = v.dims.length := by simp [NArr.rank, denote]
  rw [hr]
  by_cases hc : k ≤ v.dims.length
  · rw [if_pos hc, if_pos hc]
    simp only [Except.map]
    congr 1
    generalize (maxByStride v.dims).getD (1, 1) = m
    obtain ⟨sz, st⟩ := m
    have hI : ((sizes v.dims).insertIdx k 1).length = v.dims.length + 1 := by
      rw [List.length_insertIdx, sizes_length, if_pos hc]
    apply denote_refines v _ s (fun idx => idx.eraseIdx k)
    · simp only [denote, NArr.ofFn_shape, sizes_insertIdx]
    · intro idx h
      have hl := validIdx_length h
      simp only [denote, NArr.ofFn_shape] at h hl ⊢
      rw [hI] at hl
      have hEi : (idx.eraseIdx k).length = v.dims.length := by
        simp [List.length_eraseIdx, hl]; omega
      rw [← insertIdx_eraseIdx_getD idx k 0 (by omega)] at h
      rw [validIdx_insertIdx _ _ _ _ _ (by simpa using hc) (by simp [hEi])] at h
      simp only [Bool.and_eq_true] at h
      exact h.2
    · intro idx h
      have hl := validIdx_length h
      simp only [denote, NArr.ofFn_shape] at h hl
      rw [hI] at hl
      have hEi : (idx.eraseIdx k).length = v.dims.length := by
        simp [List.length_eraseIdx, hl]; omega
      have e1 := insertIdx_eraseIdx_getD idx k 0 (by omega)
      rw [← e1] at h
      rw [validIdx_insertIdx _ _ _ _ _ (by simpa using hc) (by simp [hEi])] at h
      simp only [Bool.and_eq_true, decide_eq_true_eq] at h
      show v.base + offset (v.dims.insertIdx k (1, st * sz)) idx = _
      congr 1
      calc offset (v.dims.insertIdx k (1, st * sz)) idx
          = offset (v.dims.insertIdx k (1, st * sz)) ((idx.eraseIdx k).insertIdx k (idx.getD k 0)) := by
            rw [e1]
        _ = idx.getD k 0 * (st * sz) + offset v.dims (idx.eraseIdx k) :=
            offset_insertIdx _ _ _ _ _ hc (by omega)
        _ = offset v.dims (idx.eraseIdx k) := by
            have : idx.getD k 0 = 0 := by omega
            rw [this]; omega
  · rw [if_neg hc, if_neg hc]; rfl

/-- **C09.T1 remove_axis**: same array, or both panic (no such axis / size ≠ 1). -/
theorem c09_remove_axis (v : View) (k : Nat) (s : Nat → α) :
    (removeAxis v k).map (fun v' => denote v' s) = (denote v s).removeAxis k := by
  unfold removeAxis NArr.removeAxis
  have hr : (denote v s).rank = v.dims.length := by simp [NArr.rank, denote]
  have hsh : (denote v s).shape = sizes v.dims := rfl
  rw [hr, hsh, sizes_getD]
  by_cases hc : k < v.dims.length ∧ (v.dims.getD k (0, 0)).1 = 1
  · rw [if_pos hc, if_pos hc]
    simp only [Except.map]
    congr 1
    obtain ⟨hk, h1⟩ := hc
    have hE : (v.dims.eraseIdx k).length = v.dims.length - 1 := by
      simp [List.length_eraseIdx, hk]
    have hEs : ((sizes v.dims).eraseIdx k).length = v.dims.length - 1 := by
      simp [List.length_eraseIdx, hk]
    apply denote_refines v _ s (fun idx => idx.insertIdx k 0)
    · simp only [sizes_eraseIdx]
    · intro idx h
      have hl := validIdx_length h
      rw [hEs] at hl
      rw [← insertIdx_eraseIdx_getD (sizes v.dims) k 0 (by simpa using hk)]
      rw [validIdx_insertIdx _ _ _ _ _ (by omega) (by omega), h, sizes_getD, h1]
      simp
    · intro idx h
      have hl := validIdx_length h
      rw [hEs] at hl
      show v.base + offset (v.dims.eraseIdx k) idx = _
      congr 1
      have e2 := insertIdx_eraseIdx_getD v.dims k (0, 0) hk
      calc offset (v.dims.eraseIdx k) idx
          = 0 * (v.dims.getD k (0, 0)).2 + offset (v.dims.eraseIdx k) idx := by simp
        _ = offset ((v.dims.eraseIdx k).insertIdx k (v.dims.getD k (0, 0))) (idx.insertIdx k 0) :=
            (offset_insertIdx _ _ _ _ _ (by omega) (by omega)).symm
        _ = offset v.dims (idx.insertIdx k 0) := by rw [e2]
  · rw [if_neg hc, if_neg hc]; rfl

theorem getD_map_lt {β γ : Type} (f : β → γ) (l : List β) (k : Nat) (hk : k < l.length) (dflt : γ) :
    (l.map f).getD k dflt = f l[k] := by
  simp [List.getD_eq_getElem?_getD, List.getElem?_eq_getElem hk]

theorem isPerm_eq (n : Nat) (p : List Nat) : NArr.isPerm n p = isValidPermutation n p := by
  simp only [NArr.isPerm, isValidPermutation, List.count_eq_length_filter]

/-- **C09.T1 permute**: same array, or both panic (invalid permutation). -/
theorem c09_permute (v : View) (p : List Nat) (s : Nat → α) :
    (permuted v p).map (fun v' => denote v' s) = (denote v s).permute p := by
  unfold permuted NArr.permute
  have hr : (denote v s).rank = v.dims.length := by simp [NArr.rank, denote]
  have hsh : (denote v s).shape = sizes v.dims := rfl
  rw [hr, hsh, isPerm_eq]
  by_cases hc : isValidPermutation v.dims.length p = true
  · rw [if_pos hc, if_pos hc]
    simp only [Except.map]
    congr 1
    have hperm := perm_of_valid _ _ hc
    have hlen : p.length = v.dims.length := hperm.length_eq.trans List.length_range
    have hnd : p.Nodup := hperm.nodup_iff.mpr List.nodup_range
    have hmem : ∀ d, d < v.dims.length → d ∈ p :=
      fun d hd => hperm.mem_iff.mpr (List.mem_range.mpr hd)
    have hun : ∀ idx k, k < v.dims.length →
        (NArr.unperm p idx).getD k 0 = idx.getD (p.idxOf k) 0 := by
      intro idx k hk
      unfold NArr.unperm
      rw [getD_map_lt _ _ _ (by simpa [hlen] using hk)]
      simp
    apply denote_refines v _ s (NArr.unperm p)
    · show sizes (permuteIter v.dims p) = _
      simp only [permuteIter, sizes, List.map_map]
      apply List.map_congr_left
      intro d _
      have := sizes_getD v.dims d
      simp only [sizes] at this
      simp only [Function.comp]
      exact this.symm
    · intro idx h
      rw [validIdx_iff] at h ⊢
      obtain ⟨hl, hk⟩ := h
      simp only [List.length_map] at hl hk
      refine ⟨by simp [NArr.unperm, hlen], ?_⟩
      intro d hd
      simp only [sizes_length] at hd
      rw [hun idx d hd]
      have hj : p.idxOf d < p.length := List.idxOf_lt_length_of_mem (hmem d hd)
      have := hk (p.idxOf d) hj
      rw [getD_map_lt _ _ _ hj, List.getElem_idxOf hj] at this
      exact this
    · intro idx _
      show v.base + offset (permuteIter v.dims p) idx = _
      congr 1
      let G : Nat → Nat := fun d => idx.getD (p.idxOf d) 0 * (v.dims.getD d (0, 0)).2
      have h1 : offset (permuteIter v.dims p) idx = (p.map G).sum := by
        rw [offset_eq_sum]
        congr 1
        apply List.ext_getElem
        · simp [permuteIter]
        · intro k h1 h2
          simp only [List.length_map, List.length_range, permuteIter] at h1 h2
          simp only [List.getElem_map, List.getElem_range, permuteIter, G]
          rw [getD_map_lt _ _ _ h2, hnd.idxOf_getElem k h2]
      have h2 : offset v.dims (NArr.unperm p idx) = ((List.range v.dims.length).map G).sum := by
        rw [offset_eq_sum]
        congr 1
        apply List.map_congr_left
        intro k hk
        rw [hun idx k (List.mem_range.mp hk)]
      rw [h1, h2]
      exact (hperm.map G).sum_nat
  · rw [if_neg hc, if_neg hc]; rfl

/-- **C09.T1 index_axis**: on a view whose storage window covers its layout, `index_axis` yields
exactly the reference sub-array (never a storage-range panic), or both panic (axis / index out of
range); the resulting view again covers its layout. -/
theorem c09_index_axis (v : View) (axis index : Nat) (s : Nat → α) (hwf : WF v) :
    (indexAxis v axis index).map (fun v' => denote v' s) = (denote v s).indexAxis axis index ∧
    ∀ v', indexAxis v axis index = .ok v' → WF v' := by
  unfold indexAxis NArr.indexAxis
  have hr : (denote v s).rank = v.dims.length := by simp [NArr.rank, denote]
  have hsh : (denote v s).shape = sizes v.dims := rfl
  rw [hr, hsh, sizes_getD]
  by_cases hc : axis < v.dims.length ∧ index < (v.dims.getD axis (0, 0)).1
  · rw [if_pos hc, if_pos hc]
    obtain ⟨hk, hi⟩ := hc
    have hE : (v.dims.eraseIdx axis).length = v.dims.length - 1 := by
      simp [List.length_eraseIdx, hk]
    have hEs : ((sizes v.dims).eraseIdx axis).length = v.dims.length - 1 := by
      simp [List.length_eraseIdx, hk]
    have hvalid : ∀ idx, validIdx ((sizes v.dims).eraseIdx axis) idx = true →
        validIdx (sizes v.dims) (idx.insertIdx axis index) = true := by
      intro idx h
      have hl := validIdx_length h
      rw [hEs] at hl
      rw [← insertIdx_eraseIdx_getD (sizes v.dims) axis 0 (by simpa using hk)]
      rw [validIdx_insertIdx _ _ _ _ _ (by omega) (by omega), h, sizes_getD]
      simp only [Bool.and_true, decide_eq_true_eq]
      exact hi
    have hoffs : ∀ idx, validIdx ((sizes v.dims).eraseIdx axis) idx = true →
        (v.dims.getD axis (0, 0)).2 * index + offset (v.dims.eraseIdx axis) idx =
          offset v.dims (idx.insertIdx axis index) := by
      intro idx h
      have hl := validIdx_length h
      rw [hEs] at hl
      have e2 := insertIdx_eraseIdx_getD v.dims axis (0, 0) hk
      calc (v.dims.getD axis (0, 0)).2 * index + offset (v.dims.eraseIdx axis) idx
          = index * (v.dims.getD axis (0, 0)).2 + offset (v.dims.eraseIdx axis) idx := by
            rw [Nat.mul_comm]
        _ = offset ((v.dims.eraseIdx axis).insertIdx axis (v.dims.getD axis (0, 0)))
              (idx.insertIdx axis index) :=
            (offset_insertIdx _ _ _ _ _ (by omega) (by omega)).symm
        _ = offset v.dims (idx.insertIdx axis index) := by rw [e2]
    by_cases he : numelD (v.dims.eraseIdx axis) = 0
    · rw [if_pos he]
      have hw : v.window 0 0 (v.dims.eraseIdx axis) = .ok ⟨v.base + 0, 0 - 0, v.dims.eraseIdx axis⟩ := by
        unfold View.window; rw [if_pos ⟨Nat.zero_le _, Nat.zero_le _⟩]
      rw [hw]
      constructor
      · simp only [Except.map]
        congr 1
        apply denote_refines v _ s (fun idx => idx.insertIdx axis index)
        · simp only [sizes_eraseIdx]
        · exact hvalid
        · intro idx h
          exfalso
          have := numel_pos_of_valid h
          rw [← sizes_eraseIdx] at this
          unfold numelD at he
          omega
      · intro v' hv'
        injection hv' with hv'
        subst hv'
        unfold WF minDataLen
        have hz : ((sizes (v.dims.eraseIdx axis)).any (· == 0)) = true := (anyZero_iff _).mpr he
        simp [hz]
    · rw [if_neg he]
      have hm := minDataLen_eraseIdx v.dims axis index hk hi he
      unfold WF at hwf
      have hw : v.window ((v.dims.getD axis (0, 0)).2 * index)
          ((v.dims.getD axis (0, 0)).2 * index + minDataLen (v.dims.eraseIdx axis)) (v.dims.eraseIdx axis) =
          .ok ⟨v.base + (v.dims.getD axis (0, 0)).2 * index,
            (v.dims.getD axis (0, 0)).2 * index + minDataLen (v.dims.eraseIdx axis) -
              (v.dims.getD axis (0, 0)).2 * index, v.dims.eraseIdx axis⟩ := by
        unfold View.window; rw [if_pos ⟨by omega, by omega⟩]
      rw [hw]
      constructor
      · simp only [Except.map]
        congr 1
        apply denote_refines v _ s (fun idx => idx.insertIdx axis index)
        · simp only [sizes_eraseIdx]
        · exact hvalid
        · intro idx h
          show v.base + _ + _ = _
          rw [Nat.add_assoc, hoffs idx h]
      · intro v' hv'
        injection hv' with hv'
        subst hv'
        unfold WF
        simp only []
        omega
  · rw [if_neg hc, if_neg hc]
    exact ⟨rfl, fun v' h => by cases h⟩


theorem sliceSels_too_long (items : List NArr.Item) (shape : List Nat)
    (h : shape.length < items.length) : NArr.sliceSels items shape = .error .err := by
  induction shape generalizing items with
  | nil =>
    cases items with
    | nil => simp at h
    | cons it its => cases it <;> rfl
  | cons n ns ih =>
    cases items with
    | nil => simp at h
    | cons it its =>
      have h' : ns.length < its.length := by simpa using h
      cases it with
      | index i =>
        simp only [NArr.sliceSels]
        cases pyIndex i n with
        | none => rfl
        | some p => simp only [ih its h']; rfl
      | range a b c =>
        simp only [NArr.sliceSels]
        split
        · simp only [ih its h']; rfl
        · rfl

/-- **C09.T1 slice** (`try_slice` / `slice_dyn` / `slice_layout`, any mix of index items and
ranges with negative bounds and steps > 1).  On a view whose storage window covers its layout,
the sliced view denotes exactly NumPy's `a[items]` (elements selected per axis by the CPython
slice definition), or both sides report an error (`Result::Err`: too many items, index out of
range, a bound that would need clamping, a negative step) — never a panic.  The result again
covers its layout.  (`hsteps`: `SliceRange::new` rejects a zero step at construction.) -/
theorem c09_slice (v : View) (items : List SliceItem) (s : Nat → α) (hwf : WF v)
    (hsteps : ∀ r, SliceItem.range r ∈ items → r.step ≠ 0) :
    (trySlice v items).map (fun v' => denote v' s) = (denote v s).slice (items.map toRefItem) ∧
    ∀ v', trySlice v items = .ok v' → WF v' := by
  unfold trySlice NArr.slice
  have hsh : (denote v s).shape = sizes v.dims := rfl
  rw [hsh]
  by_cases hlen : v.dims.length < items.length
  · rw [if_pos hlen, sliceSels_too_long _ _ (by simpa using hlen)]
    exact ⟨rfl, fun v' h => by cases h⟩
  · rw [if_neg hlen]
    rcases sliceLoop_spec v.dims items (by omega) hsteps with ⟨ss, haok, hloop, hsel⟩ | ⟨hloop, hsel⟩
    · have hlay : sliceLayout v.dims items =
          .ok (if numelD (aDims v.dims ss) = 0 then 0 else aOff v.dims ss, aDims v.dims ss) := by
        simp only [sliceLayout, hloop, bind, Except.bind, pure, Except.pure]
        congr 2
        by_cases he : numelD (aDims v.dims ss) = 0
        · rw [if_pos he, (anyZero_iff _).mpr he]; rfl
        · rw [if_neg he]
          have : ((sizes (aDims v.dims ss)).any (· == 0)) = false := by
            cases hz : (sizes (aDims v.dims ss)).any (· == 0) with
            | false => rfl
            | true => exact absurd ((anyZero_iff _).mp hz) he
          rw [this]; rfl
      obtain ⟨v', hw, hden, hwf'⟩ := select_refines v ss s haok hwf _ rfl
      rw [hlay]
      simp only []
      rw [hw, hsel]
      refine ⟨?_, ?_⟩
      · simp only [Except.map, hden]
      · intro v'' h
        injection h with h
        exact h ▸ hwf'
    · have hlay : sliceLayout v.dims items = .error .err := by
        simp only [sliceLayout, hloop, bind, Except.bind]
      rw [hlay, hsel]
      exact ⟨rfl, fun v' h => by cases h⟩

/-- Non-vacuity: a stepped slice with negative bounds and an index item on a transposed view. -/
example : (trySlice ⟨0, 12, [(4, 1), (3, 4)]⟩ [.range ⟨-3, none, 2⟩, .index (-1)]).map
      (fun v' => denote v' (fun i => i)) = .ok (⟨[2], [9, 11]⟩ : NArr Nat) ∧
    NArr.slice [.range (-3) none 2, .index (-1)] (⟨[4, 3], [0, 4, 8, 1, 5, 9, 2, 6, 10, 3, 7, 11]⟩ : NArr Nat) =
      .ok ⟨[2], [9, 11]⟩ := ⟨by rfl, by rfl⟩

/-- **C09.T1 slice_axis**: the reference range on one axis, or both panic (no such axis,
`end < start`, `end > size`); storage-window invariant preserved, no storage-range panic. -/
theorem c09_slice_axis (v : View) (axis start stop : Nat) (s : Nat → α) (hwf : WF v) :
    (sliceAxis v axis start stop).map (fun v' => denote v' s) =
      (denote v s).sliceAxis axis start stop ∧
    ∀ v', sliceAxis v axis start stop = .ok v' → WF v' := by
  unfold sliceAxis NArr.sliceAxis
  have hr : (denote v s).rank = v.dims.length := by simp [NArr.rank, denote]
  have hsh : (denote v s).shape = sizes v.dims := rfl
  rw [hr, hsh, sizes_getD]
  by_cases hk : axis < v.dims.length
  · have c1 : ¬ (axis ≥ v.dims.length) := by omega
    rw [if_neg c1]
    by_cases hb : start ≤ stop ∧ stop ≤ (v.dims.getD axis (0, 0)).1
    · have c2 : ¬ (stop < start ∨ stop > (v.dims.getD axis (0, 0)).1) := by omega
      have c3 : axis < v.dims.length ∧ start ≤ stop ∧ stop ≤ (v.dims.getD axis (0, 0)).1 := ⟨hk, hb⟩
      rw [if_neg c2, if_pos c3]
      obtain ⟨v', hw, hden, hwf', _⟩ := axis_select v axis start (stop - start) s hk (by omega) hwf
      by_cases he : numelD (resizeDim v.dims axis (stop - start)) = 0
      · rw [if_pos he] at hw ⊢
        rw [minDataLen_empty _ he] at hw
        rw [hw]
        exact ⟨by simp only [Except.map, hden], fun v'' h => by injection h with h; exact h ▸ hwf'⟩
      · rw [if_neg he] at hw ⊢
        rw [resizeDim_stride, Nat.mul_comm start]
        rw [hw]
        exact ⟨by simp only [Except.map, hden], fun v'' h => by injection h with h; exact h ▸ hwf'⟩
    · have c2 : (stop < start ∨ stop > (v.dims.getD axis (0, 0)).1) := by omega
      have c3 : ¬ (axis < v.dims.length ∧ start ≤ stop ∧ stop ≤ (v.dims.getD axis (0, 0)).1) :=
        fun h => hb h.2
      rw [if_pos c2, if_neg c3]
      exact ⟨rfl, fun v' h => by cases h⟩
  · have c1 : axis ≥ v.dims.length := by omega
    have c3 : ¬ (axis < v.dims.length ∧ start ≤ stop ∧ stop ≤ (v.dims.getD axis (0, 0)).1) :=
      fun h => hk h.1
    rw [if_pos c1, if_neg c3]
    exact ⟨rfl, fun v' h => by cases h⟩

/-- **C09.T1 split_at** (left or right part): `numpy.split(a, [mid], axis)`, or both panic (no
such axis, `mid > size`); no storage-range panic on a view that covers its layout, and both parts
cover theirs. -/
theorem c09_split_at (v : View) (axis mid : Nat) (right : Bool) (s : Nat → α) (hwf : WF v) :
    (splitAt v axis mid right).map (fun v' => denote v' s) =
      (denote v s).splitAt axis mid right ∧
    ∀ v', splitAt v axis mid right = .ok v' → WF v' := by
  unfold splitAt NArr.splitAt NArr.sliceAxis
  have hr : (denote v s).rank = v.dims.length := by simp [NArr.rank, denote]
  have hsh : (denote v s).shape = sizes v.dims := rfl
  rw [hr, hsh, sizes_getD]
  by_cases hc : axis < v.dims.length ∧ mid ≤ (v.dims.getD axis (0, 0)).1
  · rw [if_pos hc, if_pos hc]
    obtain ⟨hk, hm⟩ := hc
    have hwf0 := hwf
    unfold WF at hwf0
    -- left part
    obtain ⟨vl, hwl, hdl, _, hbl⟩ := axis_select v axis 0 mid s hk (by omega) hwf
    have hvl := window_ok_eq _ _ _ _ _ hwl
    -- right part
    obtain ⟨vr, hwr, hdr, _, hbr⟩ :=
      axis_select v axis mid ((v.dims.getD axis (0, 0)).1 - mid) s hk (by omega) hwf
    have hvr := window_ok_eq _ _ _ _ _ hwr
    have hl_le : minDataLen (resizeDim v.dims axis mid) ≤ v.len := by
      by_cases he : numelD (resizeDim v.dims axis mid) = 0
      · rw [minDataLen_empty _ he]; omega
      · have := hbl he; omega
    simp only []
    rw [if_neg (by omega)]
    by_cases her : numelD (resizeDim v.dims axis ((v.dims.getD axis (0, 0)).1 - mid)) = 0
    · rw [if_pos her]
      simp only []
      rw [if_neg (by omega)]
      cases right with
      | true =>
        simp only [if_true, Except.map]
        have c3 : axis < v.dims.length ∧ mid ≤ (v.dims.getD axis (0, 0)).1 ∧
            (v.dims.getD axis (0, 0)).1 ≤ (v.dims.getD axis (0, 0)).1 := ⟨hk, hm, Nat.le_refl _⟩
        rw [if_pos c3]
        refine ⟨?_, ?_⟩
        · congr 1
          rw [← hdr, hvr]
          exact denote_empty _ _ s rfl her
        · intro v' h
          injection h with h
          subst h
          unfold WF
          simp only []
          rw [minDataLen_empty _ her]; omega
      | false =>
        simp only [Bool.false_eq_true, if_false, Except.map]
        have c3 : axis < v.dims.length ∧ 0 ≤ mid ∧ mid ≤ (v.dims.getD axis (0, 0)).1 :=
          ⟨hk, Nat.zero_le _, hm⟩
        rw [if_pos c3]
        refine ⟨?_, ?_⟩
        · congr 1
          simp only [Nat.sub_zero]
          rw [← hdl, hvl]
          apply denote_base_dims
          · simp only []; split <;> omega
          · rfl
        · intro v' h
          injection h with h
          subst h
          unfold WF
          simp only []
          omega
    · rw [if_neg her]
      have hb := hbr her
      simp only []
      rw [if_neg (by
        rw [Nat.mul_comm mid]
        omega)]
      cases right with
      | true =>
        simp only [if_true, Except.map]
        have c3 : axis < v.dims.length ∧ mid ≤ (v.dims.getD axis (0, 0)).1 ∧
            (v.dims.getD axis (0, 0)).1 ≤ (v.dims.getD axis (0, 0)).1 := ⟨hk, hm, Nat.le_refl _⟩
        rw [if_pos c3]
        refine ⟨?_, ?_⟩
        · congr 1
          rw [← hdr, hvr]
          apply denote_base_dims
          · simp only []; rw [if_neg her, Nat.mul_comm mid]
          · rfl
        · intro v' h
          injection h with h
          subst h
          unfold WF
          simp only []
          rw [Nat.mul_comm mid]
          omega
      | false =>
        simp only [Bool.false_eq_true, if_false, Except.map]
        have c3 : axis < v.dims.length ∧ 0 ≤ mid ∧ mid ≤ (v.dims.getD axis (0, 0)).1 :=
          ⟨hk, Nat.zero_le _, hm⟩
        rw [if_pos c3]
        refine ⟨?_, ?_⟩
        · congr 1
          simp only [Nat.sub_zero]
          rw [← hdl, hvl]
          apply denote_base_dims
          · simp only []; split <;> omega
          · rfl
        · intro v' h
          injection h with h
          subst h
          unfold WF
          simp only []
          omega
  · rw [if_neg hc, if_neg hc]
    exact ⟨rfl, fun v' h => by cases h⟩

theorem canBroadcast_eq (d : Dims) (t : List Nat) :
    NArr.canBroadcast (sizes d) t = canBroadcastTo d t := by
  unfold NArr.canBroadcast canBroadcastTo
  by_cases h : d.length > t.length
  · rw [if_pos h]
    have : decide ((sizes d).length ≤ t.length) = false := by simp; omega
    rw [this]; rfl
  · rw [if_neg h]
    have : decide ((sizes d).length ≤ t.length) = true := by simp; omega
    rw [this, sizes_length]; rfl

theorem broadcast_zip (d : Dims) (t : List Nat) (hle : d.length ≤ t.length) :
    List.zip t (broadcastStrides d t) =
      List.zip (t.take (t.length - d.length)) (List.replicate (t.take (t.length - d.length)).length 0) ++
      List.zip (t.drop (t.length - d.length))
        (List.zipWith (fun (p : Nat × Nat) tt => if p.1 == 1 && decide (tt > 1) then 0 else p.2)
          d (t.drop (t.length - d.length))) := by
  have htl : (t.take (t.length - d.length)).length = t.length - d.length := by
    rw [List.length_take]; omega
  have hz := List.zip_append (l₁ := t.take (t.length - d.length))
    (r₁ := t.drop (t.length - d.length))
    (l₂ := List.replicate (t.take (t.length - d.length)).length 0)
    (r₂ := List.zipWith (fun (p : Nat × Nat) tt => if p.1 == 1 && decide (tt > 1) then 0 else p.2)
        d (t.drop (t.length - d.length))) (by rw [List.length_replicate])
  rw [List.take_append_drop] at hz
  have hstr : broadcastStrides d t =
      List.replicate (t.take (t.length - d.length)).length 0 ++
        List.zipWith (fun (p : Nat × Nat) tt => if p.1 == 1 && decide (tt > 1) then 0 else p.2)
          d (t.drop (t.length - d.length)) := by
    unfold broadcastStrides
    rw [htl]
  rw [hstr]
  exact hz

/-- Broadcasting never needs more storage than the source layout. -/
theorem WF_broadcast (v v' : View) (t : List Nat) (hp : broadcast v t = .ok v') (h : WF v) :
    WF v' := by
  unfold broadcast at hp
  split at hp
  · rename_i hc
    injection hp with hp
    subst hp
    unfold WF at h ⊢
    simp only []
    have hle : v.dims.length ≤ t.length := by
      unfold canBroadcastTo at hc
      by_cases h : v.dims.length > t.length
      · rw [if_pos h] at hc; cases hc
      · omega
    have hall : (List.zip (sizes v.dims) (t.drop (t.length - v.dims.length))).all
        (fun (a, b) => a == b || a == 1) = true := by
      unfold canBroadcastTo at hc
      rw [if_neg (by omega)] at hc
      exact hc
    have hdl : (t.drop (t.length - v.dims.length)).length = v.dims.length := by
      rw [List.length_drop]; omega
    by_cases he : numelD (List.zip t (broadcastStrides v.dims t)) = 0
    · rw [minDataLen_empty _ he]; omega
    · have hsz : sizes (List.zip t (broadcastStrides v.dims t)) = t := by
        unfold sizes
        apply List.map_fst_zip
        unfold broadcastStrides
        rw [List.length_append, List.length_replicate, List.length_zipWith, hdl]
        omega
      have hnt : numel t ≠ 0 := by unfold numelD at he; rwa [hsz] at he
      have hntr : numel (t.drop (t.length - v.dims.length)) ≠ 0 := by
        rw [← List.take_append_drop (t.length - v.dims.length) t, numel_append] at hnt
        exact fun h => hnt (by simp [h])
      obtain ⟨hsum, hne⟩ := bc_sum v.dims _ hdl hall
      rw [minDataLen_nonempty _ he, minDataLen_nonempty _ (hne hntr), broadcast_zip _ _ hle,
        List.map_append, List.sum_append, sum_zip_zero, hsum] at *
      omega
  · cases hp

/-- **C09.T1 broadcast** (`try_broadcast`, stride-0 axes): `numpy.broadcast_to(a, target)`, or both
report an error (incompatible shapes). -/
theorem c09_broadcast (v : View) (t : List Nat) (s : Nat → α) :
    (broadcast v t).map (fun v' => denote v' s) = (denote v s).broadcastTo t := by
  unfold broadcast NArr.broadcastTo
  have hsh : (denote v s).shape = sizes v.dims := rfl
  rw [hsh, canBroadcast_eq]
  by_cases hc : canBroadcastTo v.dims t = true
  · rw [if_pos hc, if_pos hc]
    simp only [Except.map]
    congr 1
    have hle : v.dims.length ≤ t.length := by
      unfold canBroadcastTo at hc
      by_cases h : v.dims.length > t.length
      · rw [if_pos h] at hc; cases hc
      · omega
    have hall : (List.zip (sizes v.dims) (t.drop (t.length - v.dims.length))).all
        (fun (a, b) => a == b || a == 1) = true := by
      unfold canBroadcastTo at hc
      rw [if_neg (by omega)] at hc
      exact hc
    have hdl : (t.drop (t.length - v.dims.length)).length = v.dims.length := by
      rw [List.length_drop]; omega
    have htl : (t.take (t.length - v.dims.length)).length = t.length - v.dims.length := by
      rw [List.length_take]; omega
    have hstr : broadcastStrides v.dims t =
        List.replicate (t.take (t.length - v.dims.length)).length 0 ++
          List.zipWith (fun (p : Nat × Nat) tt => if p.1 == 1 && decide (tt > 1) then 0 else p.2)
            v.dims (t.drop (t.length - v.dims.length)) := by
      unfold broadcastStrides
      rw [htl]
    have hzip : List.zip t (broadcastStrides v.dims t) =
        List.zip (t.take (t.length - v.dims.length))
          (List.replicate (t.take (t.length - v.dims.length)).length 0) ++
        List.zip (t.drop (t.length - v.dims.length))
          (List.zipWith (fun (p : Nat × Nat) tt => if p.1 == 1 && decide (tt > 1) then 0 else p.2)
            v.dims (t.drop (t.length - v.dims.length))) := by
      have hz := List.zip_append (l₁ := t.take (t.length - v.dims.length))
        (r₁ := t.drop (t.length - v.dims.length))
        (l₂ := List.replicate (t.take (t.length - v.dims.length)).length 0)
        (r₂ := List.zipWith (fun (p : Nat × Nat) tt => if p.1 == 1 && decide (tt > 1) then 0 else p.2)
            v.dims (t.drop (t.length - v.dims.length))) (by rw [List.length_replicate])
      rw [List.take_append_drop] at hz
      rw [hstr]
      exact hz
    rw [sizes_length]
    apply denote_refines v _ s (NArr.bcSrc (sizes v.dims) (t.length - v.dims.length))
    · show sizes (List.zip t (broadcastStrides v.dims t)) = t
      unfold sizes
      apply List.map_fst_zip
      unfold broadcastStrides
      rw [List.length_append, List.length_replicate, List.length_zipWith, hdl]
      omega
    · intro idx h
      have hl := validIdx_length h
      rw [← List.take_append_drop (t.length - v.dims.length) t,
        ← List.take_append_drop (t.length - v.dims.length) idx,
        validIdx_append _ _ _ _ (by rw [htl, List.length_take]; omega)] at h
      simp only [Bool.and_eq_true] at h
      exact (bc_core v.dims _ _ hdl hall h.2).1
    · intro idx h
      have hl := validIdx_length h
      show v.base + offset (List.zip t (broadcastStrides v.dims t)) idx = _
      congr 1
      have h' := h
      rw [← List.take_append_drop (t.length - v.dims.length) t,
        ← List.take_append_drop (t.length - v.dims.length) idx,
        validIdx_append _ _ _ _ (by rw [htl, List.length_take]; omega)] at h'
      simp only [Bool.and_eq_true] at h'
      rw [hzip]
      have hidx : offset
          (List.zip (t.take (t.length - v.dims.length))
              (List.replicate (t.take (t.length - v.dims.length)).length 0) ++
            List.zip (t.drop (t.length - v.dims.length))
              (List.zipWith (fun (p : Nat × Nat) tt => if p.1 == 1 && decide (tt > 1) then 0 else p.2)
                v.dims (t.drop (t.length - v.dims.length)))) idx =
          offset
          (List.zip (t.take (t.length - v.dims.length))
              (List.replicate (t.take (t.length - v.dims.length)).length 0) ++
            List.zip (t.drop (t.length - v.dims.length))
              (List.zipWith (fun (p : Nat × Nat) tt => if p.1 == 1 && decide (tt > 1) then 0 else p.2)
                v.dims (t.drop (t.length - v.dims.length))))
          (idx.take (t.length - v.dims.length) ++ idx.drop (t.length - v.dims.length)) := by
        rw [List.take_append_drop]
      rw [hidx]
      rw [offset_append _ _ _ _ (by
        rw [List.length_zip, List.length_replicate, Nat.min_self, htl, List.length_take]; omega)]
      rw [offset_zip_zero, Nat.zero_add]
      exact (bc_core v.dims _ _ hdl hall h'.2).2
  · rw [if_neg hc, if_neg hc]; rfl

/-- **C09.T1 squeezed**: `numpy.squeeze(a)` (never fails). -/
theorem c09_squeeze (v : View) (s : Nat → α) :
    denote (squeezed v) s = (denote v s).squeeze := by
  unfold NArr.squeeze
  have hsh : (denote v s).shape = sizes v.dims := rfl
  rw [hsh]
  apply denote_refines v (squeezed v) s (NArr.unsqueeze (sizes v.dims))
  · exact sizes_filter_one v.dims
  · intro idx h
    rw [← sizes_filter_one] at h
    exact (sq_core v.dims idx h).1
  · intro idx h
    rw [← sizes_filter_one] at h
    show v.base + offset (v.dims.filter (fun p => p.1 != 1)) idx = _
    rw [(sq_core v.dims idx h).2]

theorem WF_squeezed (v : View) (h : WF v) : WF (squeezed v) := by
  unfold WF at h ⊢
  show minDataLen (v.dims.filter (fun p => p.1 != 1)) ≤ v.len
  rw [minDataLen_filter_one]
  exact h

/-! ## Operations that keep the row-major element sequence -/

/-- **C09.T1 merge_axes**: merging axes is a C-order reshape to the (layout dependent) shape the
code chose — same elements in the same row-major order, same element count.
(Built on C07's `mergeAxes_rowMajor`.) -/
theorem c09_merge_axes (v : View) (s : Nat → α) :
    (denote v s).reshape (sizes (mergedAxes v).dims) = some (denote (mergedAxes v) s) := by
  have hrm : Iter.rowMajor (mergeAxes v.dims) = Iter.rowMajor v.dims := by
    rw [mergeAxes_eq]; exact Iter.mergeAxes_rowMajor v.dims
  have hn : numel (sizes (mergeAxes v.dims)) = numel (sizes v.dims) := by
    rw [← rowMajor_length', ← rowMajor_length', hrm]
  unfold NArr.reshape
  have hsh : (denote v s).shape = sizes v.dims := rfl
  rw [hsh]
  show (if numel (sizes (mergeAxes v.dims)) = numel (sizes v.dims) then _ else _) = _
  rw [if_pos hn]
  congr 1
  have hd := denote_data (mergedAxes v) s
  have hd0 := denote_data v s
  show (⟨sizes (mergeAxes v.dims), (denote v s).data⟩ : NArr α) = denote (mergedAxes v) s
  have : denote (mergedAxes v) s = ⟨sizes (mergeAxes v.dims), (denote (mergedAxes v) s).data⟩ := rfl
  rw [this, hd, hd0]
  show _ = (⟨_, (Iter.rowMajor (mergeAxes v.dims)).map (fun o => s (v.base + o))⟩ : NArr α)
  rw [hrm]

/-- `merge_axes` as one step: reference reshape (previous theorem) and the storage-window invariant
is kept, so it can be followed by any other covered operation.  (It is not an op of the chain
theorems because its reference needs the shape the layout chose.) -/
theorem c09_merge_axes_step (v : View) (s : Nat → α) (hwf : WF v) :
    (denote v s).reshape (sizes (mergedAxes v).dims) = some (denote (mergedAxes v) s) ∧
    WF (mergedAxes v) :=
  ⟨c09_merge_axes v s, WF_mergedAxes v hwf⟩

/-- A freshly allocated contiguous copy holds exactly the array it was made from
(`to_vec` + `from_shape`; used by `to_contiguous`, `reshaped`, `slice_copy`). -/
theorem c09_copy_roundtrip (A : NArr Nat) (hlen : A.data.length = numel A.shape) :
    (TState.ofArr A).arr = A := by
  unfold TState.ofArr TState.arr
  have hd := denote_data (⟨0, A.data.length, contigDims A.shape⟩ : View)
    (fun i => A.data.getD i 0)
  have hsz : (denote (⟨0, A.data.length, contigDims A.shape⟩ : View)
      (fun i => A.data.getD i 0)).shape = A.shape := sizes_contigDims A.shape
  simp only [] at hd
  rw [rowMajor_contigDims, ← hlen, map_getD_range_list] at hd
  cases A with
  | mk shape data =>
    simp only at hd hsz ⊢
    have : ∀ B : NArr Nat, B.shape = shape → B.data = data → B = ⟨shape, data⟩ := by
      intro B h1 h2; cases B; simp_all
    exact this _ hsz hd

theorem denote_data_length {β : Type} (v : View) (s : Nat → β) :
    (denote v s).data.length = numel (denote v s).shape := by
  simp [denote, NArr.ofFn, idxs_length]

/-- **C09.T1 to_contiguous**: the same array, whether the data is borrowed (already contiguous)
or copied. -/
theorem c09_to_contiguous (t : TState) : (toContiguous t).arr = t.arr := by
  unfold toContiguous
  split
  · rfl
  · exact c09_copy_roundtrip _ (denote_data_length _ _)

/-- **C09.T1 reshaped** (view when contiguous, copy otherwise): `a.reshape(shape)` in C order, or
both fail (element count differs: panic). -/
theorem c09_reshaped (t : TState) (shape : List Nat) :
    (reshaped t shape).map TState.arr =
      match t.arr.reshape shape with
      | some B => .ok B
      | none => .error .panic := by
  unfold reshaped NArr.reshape
  have hsh : t.arr.shape = sizes t.view.dims := rfl
  rw [hsh]
  by_cases hn : numel shape = numelD t.view.dims
  · rw [if_neg (by omega)]
    have hn' : numel shape = numel (sizes t.view.dims) := hn
    rw [if_pos hn']
    simp only []
    by_cases hc : isContiguous t.view.dims = true
    · rw [if_pos hc]
      simp only [Except.map]
      congr 1
      -- both layouts enumerate offsets 0..n
      have h1 := denote_data (⟨t.view.base, t.view.len, contigDims shape⟩ : View)
        (fun i => t.store.getD i 0)
      have h2 := denote_data t.view (fun i => t.store.getD i 0)
      simp only [] at h1
      rw [rowMajor_contigDims, hn'] at h1
      rw [rowMajor_contiguous _ hc] at h2
      have hsz : (denote (⟨t.view.base, t.view.len, contigDims shape⟩ : View)
          (fun i => t.store.getD i 0)).shape = shape := sizes_contigDims shape
      have : ∀ B : NArr Nat, B.shape = shape → B.data = t.arr.data → B = ⟨shape, t.arr.data⟩ := by
        intro B h1 h2; cases B; simp_all
      apply this
      · exact hsz
      · show (denote _ _).data = (denote _ _).data
        rw [h1, h2]
    · rw [if_neg hc]
      simp only [Except.map]
      congr 1
      have := c09_copy_roundtrip ⟨shape, t.arr.data⟩ (by
        show t.arr.data.length = numel shape
        rw [hn']
        exact denote_data_length _ _)
      exact this
  · rw [if_pos hn]
    have hn' : ¬ numel shape = numel (sizes t.view.dims) := hn
    rw [if_neg hn']
    rfl

/-! ## T4: `clip_dim` on an owned tensor -/

theorem strides_getD (d : Dims) (k : Nat) : (strides d).getD k 0 = (d.getD k (0, 0)).2 := by
  induction k generalizing d with
  | zero => cases d <;> simp [strides]
  | succ k ih =>
    cases d with
    | nil => simp [strides]
    | cons q qs =>
      have := ih qs
      simp only [strides] at this ⊢
      simp only [List.map_cons, List.getD_cons_succ, this]

theorem materialize_owned (t : TState) (hb : t.view.base = 0) (hl : t.view.len = t.store.length)
    (hno : mayOverlap t.view.dims = false) (hwf : WF t.view) :
    materialize t = .ok ⟨t.store, ⟨0, t.store.length, t.view.dims⟩⟩ := by
  unfold materialize
  unfold WF at hwf
  have hw : (t.store.drop t.view.base).take t.view.len = t.store := by
    rw [hb, hl, List.drop_zero, List.take_length]
  simp only [hw, hno, Bool.false_eq_true, if_false]
  rw [if_neg (by omega)]

/-- **C09.T4 clip_dim** (owned tensor: data starts at 0, window = whole `Vec`, no internal
overlap, storage covers the layout): when `clip_dim` returns, the tensor holds exactly the
reference range of the axis — every retained element is preserved, in place order.
(`copy_within(range, 0)` + `truncate` is modelled as `drop`/`take` of the `Vec`.) -/
theorem c09_clip_dim (t t' : TState) (axis start stop : Nat)
    (hb : t.view.base = 0) (hl : t.view.len = t.store.length)
    (hno : mayOverlap t.view.dims = false) (hwf : WF t.view)
    (h : clipDim t axis start stop = .ok t') :
    t.arr.sliceAxis axis start stop = .ok t'.arr := by
  unfold clipDim at h
  rw [materialize_owned t hb hl hno hwf] at h
  simp only [bind, Except.bind] at h
  by_cases hk : axis ≥ t.view.dims.length
  · rw [if_pos hk] at h; cases h
  · rw [if_neg hk] at h
    rw [sizes_getD] at h
    by_cases hbad : ¬ (start ≤ stop) ∨ ¬ (stop ≤ (t.view.dims.getD axis (0, 0)).1)
    · rw [if_pos hbad] at h; cases h
    · rw [if_neg hbad] at h
      have hk' : axis < t.view.dims.length := by omega
      obtain ⟨v', hw, hden, _, hbnd⟩ :=
        axis_select t.view axis start (stop - start) (fun i => t.store.getD i 0) hk' (by omega) hwf
      have hv' := window_ok_eq _ _ _ _ _ hw
      -- reference side
      unfold NArr.sliceAxis
      have hr : t.arr.rank = t.view.dims.length := by simp [NArr.rank, TState.arr, denote]
      have hsh : t.arr.shape = sizes t.view.dims := rfl
      rw [hr, hsh, sizes_getD, if_pos ⟨hk', by omega, by omega⟩]
      congr 1
      show NArr.gather _ (denote t.view fun i => t.store.getD i 0) = _
      rw [← hden, hv']
      rw [strides_getD, resizeDim_stride] at h
      by_cases he : numelD (resizeDim t.view.dims axis (stop - start)) = 0
      · simp only [he, if_true] at h
        rw [if_neg (by omega)] at h
        simp only [pure, Except.pure] at h
        injection h with h
        subst h
        unfold TState.arr denote
        apply NArr.ofFn_congr
        intro idx hidx
        exfalso
        have hpos : 0 < numel (sizes (resizeDim t.view.dims axis (stop - start))) :=
          numel_pos_of_valid hidx
        unfold numelD at he
        omega
      · simp only [he, if_false] at h
        split at h
        · cases h
        · simp only [pure, Except.pure] at h
          injection h with h
          subst h
          rename_i hlen
          unfold TState.arr denote
          simp only [if_neg he]
          apply NArr.ofFn_congr
          intro idx hidx
          have hoff := offset_lt_minDataLen _ idx hidx
          symm
          rw [getD_take_drop _ _ _ _ (by omega), hb, Nat.mul_comm start]
          congr 1
          omega

/-! ## `slice_copy` (fixed code) against the reference -/

/-- Whatever the view-slice reference accepts, the copying-slice reference (full NumPy
semantics) accepts with the same selection. -/
theorem copySels_of_sliceSels (items : List NArr.Item) (shape : List Nat) (sels : List Sel)
    (h : NArr.sliceSels items shape = .ok sels) : NArr.copySels items shape = .ok sels := by
  induction items generalizing shape sels with
  | nil => cases shape <;> simpa [NArr.sliceSels, NArr.copySels] using h
  | cons it its ih =>
    cases shape with
    | nil => cases it <;> simp [NArr.sliceSels] at h
    | cons n ns =>
      cases it with
      | index i =>
        simp only [NArr.sliceSels, NArr.copySels] at h ⊢
        cases hp : pyIndex i n with
        | none => simp [hp] at h
        | some p =>
          simp only [hp] at h ⊢
          cases hr : NArr.sliceSels its ns with
          | error e => simp [hr, Except.map] at h
          | ok ss =>
            rw [hr] at h
            rw [ih ns ss hr]
            exact h
      | range a b c =>
        simp only [NArr.sliceSels, NArr.copySels] at h ⊢
        split at h
        · rename_i hc
          have hc0 : ¬ c = 0 := by
            simp only [Bool.and_eq_true, decide_eq_true_eq] at hc
            omega
          rw [if_neg hc0]
          cases hr : NArr.sliceSels its ns with
          | error e => simp [hr, Except.map] at h
          | ok ss =>
            rw [hr] at h
            rw [ih ns ss hr]
            exact h
        · cases h

/-- **C09.T1 slice_copy, fast path** (fixed code): whenever `try_slice` accepts the items
(in-range indices, bounds that need no clamping, steps ≥ 1), `slice_copy` returns a fresh
contiguous tensor holding exactly NumPy's `a[items].copy()`. -/
theorem c09_slice_copy_fast (t : TState) (items : List SliceItem) (v : View) (hwf : WF t.view)
    (hsteps : ∀ r, SliceItem.range r ∈ items → r.step ≠ 0)
    (hv : trySlice t.view items = .ok v) :
    ∃ t', sliceCopy t items = .ok t' ∧
      NArr.sliceCopy (items.map toRefItem) t.arr = .ok t'.arr ∧ WF t'.view := by
  refine ⟨TState.ofArr (denote v (fun i => t.store.getD i 0)), ?_, ?_,
    WF_ofArr _ (denote_data_length _ _)⟩
  · unfold sliceCopy; rw [hv]
  · rw [c09_copy_roundtrip _ (denote_data_length _ _)]
    have hs := (c09_slice t.view items (fun i => t.store.getD i 0) hwf hsteps).1
    rw [hv] at hs
    simp only [Except.map] at hs
    unfold NArr.slice at hs
    unfold NArr.sliceCopy
    cases hsel : NArr.sliceSels (items.map toRefItem) (denote t.view fun i => t.store.getD i 0).shape with
    | error e => rw [hsel] at hs; simp [Except.map] at hs
    | ok sels =>
      rw [hsel] at hs
      have := copySels_of_sliceSels _ _ _ hsel
      show Except.map _ (NArr.copySels _ t.arr.shape) = _
      have hshape : t.arr.shape = (denote t.view fun i => t.store.getD i 0).shape := rfl
      rw [hshape, this]
      simp only [Except.map] at hs ⊢
      injection hs with hs
      rw [hs]
      rfl

/-- **C09.T1 slice_copy, range items** (fixed code; any non-zero steps — negative steps,
clamped bounds — and fewer items than axes): `slice_copy` never fails and returns a fresh
contiguous tensor holding exactly NumPy's `a[items].copy()`, on the view path and on the
copying path alike.  (This is the statement the pre-fix code violated, see
`c09_slice_copy_old_full_false`.) -/
theorem c09_slice_copy_ranges (t : TState) (items : List SliceItem)
    (hlen : items.length ≤ t.view.dims.length) (hr : rangesOnly items) (hwf : WF t.view) :
    ∃ t', sliceCopy t items = .ok t' ∧
      NArr.sliceCopy (items.map toRefItem) t.arr = .ok t'.arr ∧ WF t'.view := by
  have hsteps : ∀ r, SliceItem.range r ∈ items → r.step ≠ 0 := by
    intro r hmem
    obtain ⟨r', h1, h2⟩ := hr _ hmem
    injection h1 with h1
    exact h1 ▸ h2
  cases hv : trySlice t.view items with
  | ok v => exact c09_slice_copy_fast t items v hwf hsteps hv
  | error e =>
    obtain ⟨h1, h2, h3, h4⟩ := copy_path_spec t.view.dims items hlen hr
    obtain ⟨h5, h6⟩ := lists_src t.view.dims items hlen hr
    have hsh : t.arr.shape = sizes t.view.dims := rfl
    have hg : NArr.gather ((rlists t.view.dims items).map Sel.take) t.arr =
        NArr.gather (rsels t.view.dims items) t.arr := by
      unfold NArr.gather
      rw [hsh, h5]
      apply NArr.ofFn_congr
      intro idx hidx
      rw [h6 idx hidx]
    refine ⟨TState.ofArr (NArr.gather (rsels t.view.dims items) t.arr), ?_, ?_,
      WF_ofArr _ (by simp [NArr.gather, NArr.ofFn, idxs_length])⟩
    · unfold sliceCopy
      rw [hv]
      simp only [h1, h2, bind, Except.bind]
      rw [if_neg (by rw [h4]; simp)]
      simp only [pure, Except.pure, hg]
      rfl
    · rw [c09_copy_roundtrip _ (by simp [NArr.gather, NArr.ofFn, idxs_length])]
      unfold NArr.sliceCopy
      rw [hsh, h3]
      rfl

/-! ## T4: `append` (element-wise write path) -/

theorem getD_append_left (a b : List Nat) (i : Nat) (h : i < a.length) :
    (a ++ b).getD i 0 = a.getD i 0 := by
  simp only [List.getD_eq_getElem?_getD, List.getElem?_append_left h]

/-- The storage after the element-wise write loop of `append`
(`slice_axis_mut(axis, old..new).copy_from(other)` after `resize`): every old element is
untouched and every element of `other` sits at the offset of its index in the grown layout. -/
theorem append_write_core (store : List Nat) (d : Dims) (axis : Nat) (oshape : List Nat)
    (g : List Nat → Nat) (fill : Nat) (hk : axis < d.length)
    (hno : mayOverlap (resizeDim d axis ((d.getD axis (0, 0)).1 + oshape.getD axis 0)) = false)
    (hwf : minDataLen d ≤ store.length)
    (hosh : sizes (resizeDim (resizeDim d axis ((d.getD axis (0, 0)).1 + oshape.getD axis 0)) axis
      (oshape.getD axis 0)) = oshape) :
    let old := (d.getD axis (0, 0)).1
    let nd := resizeDim d axis (old + oshape.getD axis 0)
    let sd := resizeDim nd axis (oshape.getD axis 0)
    let st1 := if store.length < minDataLen nd then
      store ++ List.replicate (minDataLen nd - store.length) fill else store
    let start := if numelD sd = 0 then 0 else old * (strides nd).getD axis 0
    let st := writeAll st1 start sd oshape g
    (∀ idx, validIdx (sizes d) idx = true → st.getD (offset nd idx) 0 = store.getD (offset d idx) 0) ∧
    (∀ idx', validIdx oshape idx' = true → st.getD (offset nd (shiftIdx axis old idx')) 0 = g idx') := by
  intro old nd sd st1 start st
  obtain ⟨G1, G2, G3⟩ := append_geometry d axis (oshape.getD axis 0) hk
  have hst1 : minDataLen nd ≤ st1.length ∧ store.length ≤ st1.length := by
    simp only [st1]
    split
    · rw [List.length_append, List.length_replicate]; omega
    · omega
  have hstride : (strides nd).getD axis 0 = (d.getD axis (0, 0)).2 := by
    rw [strides_getD]; exact resizeDim_stride d axis _
  have hfold : st = writeFold (idxs oshape) (fun idx => start + offset sd idx) g st1 := rfl
  -- positions of the writes
  have hpos : ∀ idx', validIdx oshape idx' = true →
      start + offset sd idx' = offset nd (shiftIdx axis old idx') ∧
      validIdx (sizes nd) (shiftIdx axis old idx') = true := by
    intro idx' hv
    have hv' : validIdx (sizes sd) idx' = true := by rw [hosh]; exact hv
    have hne : numelD sd ≠ 0 := by
      have := numel_pos_of_valid hv'
      unfold numelD; omega
    obtain ⟨g1, g2, _⟩ := G1 idx' hv'
    refine ⟨?_, g1⟩
    show (if numelD sd = 0 then 0 else old * (strides nd).getD axis 0) + _ = _
    rw [if_neg hne, hstride]
    exact g2
  have hinjnd : ∀ a b, validIdx (sizes nd) a = true → validIdx (sizes nd) b = true →
      offset nd a = offset nd b → a = b := fun a b ha hb hab =>
    c08_no_overlap_injective nd a b hno (validIdx_ValidIdx nd a ha) (validIdx_ValidIdx nd b hb) hab
  refine ⟨?_, ?_⟩
  · intro idx hv
    obtain ⟨g1, g2, g3⟩ := G2 idx hv
    rw [hfold, writeFold_untouched]
    · have hlt : offset d idx < store.length := by
        have := offset_lt_minDataLen d idx hv; omega
      rw [g2]
      simp only [st1]
      split
      · exact getD_append_left _ _ _ hlt
      · rfl
    · intro idx' hmem heq
      have hv' := mem_idxs.mp hmem
      obtain ⟨p1, p2⟩ := hpos idx' hv'
      have heq : start + offset sd idx' = offset nd idx := heq
      rw [p1] at heq
      have := hinjnd _ _ p2 g1 heq
      have hge := (G1 idx' (by rw [hosh]; exact hv')).2.2
      rw [this] at hge
      omega
  · intro idx' hv
    obtain ⟨p1, p2⟩ := hpos idx' hv
    rw [← p1, hfold]
    apply writeFold_written (idxs oshape) (fun idx => start + offset sd idx) g st1 idx'
    · intro a hmem heq
      have hva := mem_idxs.mp hmem
      obtain ⟨q1, q2⟩ := hpos a hva
      have heq : start + offset sd a = start + offset sd idx' := heq
      rw [q1, p1] at heq
      have := hinjnd _ _ q2 p2 heq
      exact G3 a idx' (by rw [hosh]; exact hva) (by rw [hosh]; exact hv) this
    · show start + offset sd idx' < st1.length
      rw [p1]
      have := offset_lt_minDataLen nd _ p2
      omega
    · exact Or.inr (mem_idxs.mpr hv)

theorem sizes_resizeDim (d : Dims) (axis c : Nat) :
    sizes (resizeDim d axis c) = (sizes d).set axis c := by
  induction axis generalizing d with
  | zero => cases d <;> simp [resizeDim, sizes]
  | succ k ih =>
    cases d with
    | nil => simp [resizeDim, sizes]
    | cons p ds =>
      have := ih ds
      simp only [resizeDim, sizes, List.getElem?_cons_succ, List.map_cons, List.set_cons_succ] at this ⊢
      cases hds : ds[k]? with
      | none =>
        simp only [hds] at this ⊢
        rw [← this]
        rfl
      | some q =>
        simp only [hds, List.set_cons_succ, List.map_cons] at this ⊢
        rw [this]

theorem shape_match_set (a o : List Nat) (axis : Nat) (hl : a.length = o.length)
    (hall : ∀ k, k < a.length → k = axis ∨ a.getD k 0 = o.getD k 0) :
    ((a.set axis (a.getD axis 0 + o.getD axis 0)).set axis (o.getD axis 0)) = o := by
  have key : a.set axis (o.getD axis 0) = o := by
    apply List.ext_getElem
    · simp [hl]
    · intro k h1 h2
      have hk : k < a.length := by simpa using h1
      rw [List.getElem_set]
      split
      · rename_i he
        subst he
        simp [List.getD_eq_getElem?_getD, List.getElem?_eq_getElem h2]
      · rename_i hne
        rcases hall k hk with h | h
        · exact absurd h.symm hne
        · simpa [List.getD_eq_getElem?_getD, List.getElem?_eq_getElem hk,
            List.getElem?_eq_getElem h2] using h
  rw [List.set_set]
  exact key

/-- **C09.T4 append (partial: element-wise write path)**.  Owned tensor (data starts at 0, window
= whole `Vec`, no internal overlap, storage covers the layout).  When `append(axis, other)`
succeeds through the resize + `slice_axis_mut(..).copy_from(other)` path, the layout is the old
one grown along `axis`, every previously valid index still reads the same element, and index
`idx'` of `other` is read at `idx'` shifted by the old size along `axis`.
Missing for the full statement: the contiguous fast path (`copy_into_slice` into the spare
capacity when the grown layout is contiguous), which is tied by the correspondence check only. -/
theorem c09_append_partial (t t' : TState) (axis cap : Nat) (oshape : List Nat)
    (hb : t.view.base = 0) (hl : t.view.len = t.store.length)
    (hno : mayOverlap t.view.dims = false) (hwf : WF t.view)
    (hslow : ¬ (isContiguous (resizeDim t.view.dims axis
        ((sizes t.view.dims).getD axis 0 + oshape.getD axis 0)) = true ∧
      t.store.length + numel oshape = minDataLen (resizeDim t.view.dims axis
        ((sizes t.view.dims).getD axis 0 + oshape.getD axis 0))))
    (h : appendOp t axis cap oshape = .ok t') :
    t'.view.dims = resizeDim t.view.dims axis ((sizes t.view.dims).getD axis 0 + oshape.getD axis 0) ∧
    (∀ idx, validIdx (sizes t.view.dims) idx = true → t'.arr.get idx = t.arr.get idx) ∧
    (∀ idx', validIdx oshape idx' = true →
      t'.arr.get (shiftIdx axis ((sizes t.view.dims).getD axis 0) idx') =
        1000 + (idxs oshape).idxOf idx') := by
  unfold appendOp at h
  rw [materialize_owned t hb hl hno hwf] at h
  simp only [bind, Except.bind] at h
  split at h
  · cases h
  · rename_i hsm
    split at h
    · cases h
    · rename_i hax
      have hk : axis < t.view.dims.length := by omega
      split at h
      · cases h
      · rename_i hcap
        simp only [pure, Except.pure] at h
        injection h with h
        subst h
        have hno' : mayOverlap (resizeDim t.view.dims axis
            ((sizes t.view.dims).getD axis 0 + oshape.getD axis 0)) = false := by
          cases hm : mayOverlap (resizeDim t.view.dims axis
            ((sizes t.view.dims).getD axis 0 + oshape.getD axis 0)) with
          | false => rfl
          | true => exact absurd (Or.inr hm) hcap
        -- shapes agree off-axis
        have hsm' : (t.view.dims.length == oshape.length &&
            (List.range t.view.dims.length).all
              (fun k => k == axis || (sizes t.view.dims).getD k 0 == oshape.getD k 0)) = true := by
          cases hx : (t.view.dims.length == oshape.length &&
            (List.range t.view.dims.length).all
              (fun k => k == axis || (sizes t.view.dims).getD k 0 == oshape.getD k 0)) with
          | true => rfl
          | false => rw [hx] at hsm; exact absurd rfl hsm
        simp only [Bool.and_eq_true, beq_iff_eq, List.all_eq_true, List.mem_range,
          Bool.or_eq_true] at hsm'
        have hosh := (shape_match_set (sizes t.view.dims) oshape axis (by simpa using hsm'.1)
          (fun k hk' => hsm'.2 k (by simpa using hk')))
        rw [← sizes_resizeDim, ← sizes_resizeDim] at hosh
        rw [sizes_getD] at hosh hno' ⊢
        obtain ⟨c1, c2⟩ := append_write_core t.store t.view.dims axis oshape
          (fun idx => 1000 + (idxs oshape).idxOf idx)
          (1000 + (idxs oshape).idxOf ((idxs oshape).headD [])) hk hno' (by unfold WF at hwf; omega) hosh
        obtain ⟨_, G2, _⟩ := append_geometry t.view.dims axis (oshape.getD axis 0) hk
        obtain ⟨G1, _, _⟩ := append_geometry t.view.dims axis (oshape.getD axis 0) hk
        refine ⟨rfl, ?_, ?_⟩
        · intro idx hv
          obtain ⟨g1, _, _⟩ := G2 idx hv
          unfold TState.arr denote
          rw [NArr.get_ofFn _ _ _ (by simpa [sizes_getD] using g1), NArr.get_ofFn _ _ _ hv, hb]
          simp only [Nat.zero_add, sizes_getD, Nat.add_sub_cancel_left]
          exact c1 idx hv
        · intro idx' hv
          have hv' : validIdx (sizes (resizeDim (resizeDim t.view.dims axis
              ((t.view.dims.getD axis (0, 0)).1 + oshape.getD axis 0)) axis (oshape.getD axis 0))) idx' = true := by
            rw [hosh]; exact hv
          obtain ⟨g1, _, _⟩ := G1 idx' hv'
          unfold TState.arr denote
          rw [NArr.get_ofFn _ _ _ (by simpa [sizes_getD] using g1)]
          simp only [Nat.zero_add, sizes_getD, Nat.add_sub_cancel_left]
          exact c2 idx' hv

theorem set_eq_insert_erase (l : List Nat) (k x : Nat) (hk : k < l.length) :
    l.set k x = (l.eraseIdx k).insertIdx k x := by
  induction k generalizing l with
  | zero => cases l with
    | nil => simp at hk
    | cons a as => simp
  | succ k ih =>
    cases l with
    | nil => simp at hk
    | cons a as =>
      simp only [List.set_cons_succ, List.eraseIdx_cons_succ, List.insertIdx_succ_cons]
      rw [ih as (by simpa using hk)]

/-- **C09.T4 append = `numpy.concatenate` (partial: element-wise write path).**  Under the
hypotheses of `c09_append_partial`, the tensor after `append(axis, other)` denotes exactly
`concatenate([a, other], axis)` — the reference the driver evaluates (`NArr.concat`), with
`other` the array whose element at `idx'` is `1000 + position of idx'`. -/
theorem c09_append_concat_partial (t t' : TState) (axis cap : Nat) (oshape : List Nat)
    (hb : t.view.base = 0) (hl : t.view.len = t.store.length)
    (hno : mayOverlap t.view.dims = false) (hwf : WF t.view)
    (hslow : ¬ (isContiguous (resizeDim t.view.dims axis
        ((sizes t.view.dims).getD axis 0 + oshape.getD axis 0)) = true ∧
      t.store.length + numel oshape = minDataLen (resizeDim t.view.dims axis
        ((sizes t.view.dims).getD axis 0 + oshape.getD axis 0))))
    (h : appendOp t axis cap oshape = .ok t') :
    NArr.concatOk axis t.arr.shape oshape = true ∧
    t'.arr = NArr.concat axis t.arr
      (NArr.ofFn oshape (fun idx => 1000 + (idxs oshape).idxOf idx)) := by
  obtain ⟨hd, hold, hnew⟩ := c09_append_partial t t' axis cap oshape hb hl hno hwf hslow h
  -- facts read off the successful run
  have hfacts : axis < t.view.dims.length ∧ t.view.dims.length = oshape.length ∧
      (∀ k, k < t.view.dims.length → k = axis ∨ (sizes t.view.dims).getD k 0 = oshape.getD k 0) := by
    unfold appendOp at h
    rw [materialize_owned t hb hl hno hwf] at h
    simp only [bind, Except.bind] at h
    split at h
    · cases h
    · rename_i hsm
      split at h
      · cases h
      · rename_i hax
        have hsm' : (t.view.dims.length == oshape.length &&
            (List.range t.view.dims.length).all
              (fun k => k == axis || (sizes t.view.dims).getD k 0 == oshape.getD k 0)) = true := by
          cases hx : (t.view.dims.length == oshape.length &&
            (List.range t.view.dims.length).all
              (fun k => k == axis || (sizes t.view.dims).getD k 0 == oshape.getD k 0)) with
          | true => rfl
          | false => rw [hx] at hsm; exact absurd rfl hsm
        simp only [Bool.and_eq_true, beq_iff_eq, List.all_eq_true, List.mem_range,
          Bool.or_eq_true] at hsm'
        exact ⟨by omega, hsm'.1, hsm'.2⟩
  obtain ⟨hk, hlen, hall⟩ := hfacts
  have hsh : t.arr.shape = sizes t.view.dims := rfl
  refine ⟨?_, ?_⟩
  · unfold NArr.concatOk
    rw [hsh]
    simp only [Bool.and_eq_true, beq_iff_eq, List.all_eq_true, List.mem_range, Bool.or_eq_true,
      sizes_length]
    exact ⟨hlen, fun k hk' => hall k hk'⟩
  · have hosh := shape_match_set (sizes t.view.dims) oshape axis (by simpa using hlen)
      (fun k hk' => hall k (by simpa using hk'))
    rw [← sizes_resizeDim, ← sizes_resizeDim] at hosh
    obtain ⟨G1, G2, _⟩ := append_geometry t.view.dims axis (oshape.getD axis 0) hk
    rw [← sizes_getD] at G1 G2
    unfold NArr.concat
    have ht' : t'.arr = NArr.ofFn (sizes t'.view.dims) (fun idx => t'.arr.get idx) := by
      unfold TState.arr denote
      apply NArr.ofFn_congr
      intro idx hidx
      rw [NArr.get_ofFn _ _ _ hidx]
    rw [ht', hd, sizes_resizeDim, hsh]
    apply NArr.ofFn_congr
    intro idx hidx
    simp only [NArr.ofFn_shape]
    rw [← sizes_resizeDim] at hidx
    have hlidx := validIdx_length hidx
    rw [sizes_length] at hlidx
    have hndlen : (resizeDim t.view.dims axis
        ((sizes t.view.dims).getD axis 0 + oshape.getD axis 0)).length = t.view.dims.length := by
      have := congrArg List.length (sizes_resizeDim t.view.dims axis
        ((sizes t.view.dims).getD axis 0 + oshape.getD axis 0))
      simpa using this
    rw [hndlen] at hlidx
    by_cases hi : idx.getD axis 0 < (sizes t.view.dims).getD axis 0
    · rw [if_pos hi]
      -- an index of the grown tensor below the old size is an old index
      have hvold : validIdx (sizes t.view.dims) idx = true := by
        rw [validIdx_iff] at hidx ⊢
        refine ⟨by simpa using hlidx, ?_⟩
        intro k hk'
        have := hidx.2 k (by rw [sizes_resizeDim]; simpa using hk')
        by_cases hka : k = axis
        · subst hka; exact hi
        · rw [sizes_resizeDim, getD_set_ne _ _ _ _ (Ne.symm hka)] at this
          exact this
      exact hold idx hvold
    · rw [if_neg hi]
      -- … and one above is a shifted index of `other`
      have hvnew : validIdx oshape (idx.set axis (idx.getD axis 0 - (sizes t.view.dims).getD axis 0)) = true := by
        rw [validIdx_iff] at hidx ⊢
        refine ⟨by simp [hlidx, hlen], ?_⟩
        intro k hk'
        have hk'' : k < t.view.dims.length := by omega
        have := hidx.2 k (by rw [sizes_resizeDim]; simpa using hk'')
        by_cases hka : k = axis
        · subst hka
          rw [sizes_resizeDim, getD_set_self _ _ _ (by simpa using hk'')] at this
          rw [getD_set_self _ _ _ (by omega)]
          omega
        · rw [sizes_resizeDim, getD_set_ne _ _ _ _ (Ne.symm hka)] at this
          rw [getD_set_ne _ _ _ _ (Ne.symm hka)]
          rcases hall k hk'' with h' | h'
          · exact absurd h' hka
          · rw [← h']; exact this
      have hshift : shiftIdx axis ((sizes t.view.dims).getD axis 0)
          (idx.set axis (idx.getD axis 0 - (sizes t.view.dims).getD axis 0)) = idx := by
        unfold shiftIdx
        rw [set_eq_insert_erase _ _ _ (by omega), List.eraseIdx_insertIdx_self,
          getD_insertIdx_self _ _ _ (by simp [List.length_eraseIdx, hlidx, hk]; omega)]
        have : (sizes t.view.dims).getD axis 0 + (idx.getD axis 0 - (sizes t.view.dims).getD axis 0) =
            idx.getD axis 0 := by omega
        rw [this]
        exact insertIdx_eraseIdx_getD idx axis 0 (by omega)
      rw [NArr.get_ofFn _ _ _ hvnew, ← hnew _ hvnew, hshift]

/-- Non-vacuity: an owned 2×3 tensor with row stride 4 (room for one more column) takes the
element-wise write path; evaluated result. -/
example : (appendOp ⟨[0, 1, 2, 3, 4, 5, 6, 7], ⟨0, 8, [(2, 4), (3, 1)]⟩⟩ 1 8 [2, 1]).map TState.arr =
      .ok ⟨[2, 4], [0, 1, 2, 1000, 4, 5, 6, 1001]⟩ ∧
    mayOverlap [(2, 4), (3, 1)] = false ∧ WF ⟨0, 8, [(2, 4), (3, 1)]⟩ ∧
    ¬ (isContiguous (resizeDim [(2, 4), (3, 1)] 1 (3 + 1)) = true ∧ 8 + numel [2, 1] =
      minDataLen (resizeDim [(2, 4), (3, 1)] 1 (3 + 1))) :=
  ⟨by rfl, by decide, by unfold WF; decide, by decide⟩

/-- Non-vacuity of `c09_clip_dim`: an owned 2×4 tensor clipped to columns 1..3 (evaluated), both
sides; and a rejected request (`end > size`) panics on both sides. -/
example : (clipDim ⟨[0, 1, 2, 3, 4, 5, 6, 7], ⟨0, 8, [(2, 4), (4, 1)]⟩⟩ 1 1 3).map TState.arr =
      .ok ⟨[2, 2], [1, 2, 5, 6]⟩ ∧
    NArr.sliceAxis 1 1 3 (⟨[2, 4], [0, 1, 2, 3, 4, 5, 6, 7]⟩ : NArr Nat) = .ok ⟨[2, 2], [1, 2, 5, 6]⟩ ∧
    (clipDim ⟨[0, 1, 2, 3, 4, 5, 6, 7], ⟨0, 8, [(2, 4), (4, 1)]⟩⟩ 1 1 5).map TState.arr = .error .panic ∧
    NArr.sliceAxis 1 1 5 (⟨[2, 4], [0, 1, 2, 3, 4, 5, 6, 7]⟩ : NArr Nat) = .error .panic :=
  ⟨by rfl, by rfl, by rfl, by rfl⟩

/-! ## T2: chains of operations compose -/

/-- The view operations covered by a T1 theorem above. -/
inductive VOp
  | tr
  | perm (p : List Nat)
  | mv (src dst : Nat)
  | ia (k : Nat)
  | ra (k : Nat)
  | ix (axis index : Nat)
  | sl (items : List SliceItem)
  | sa (axis start stop : Nat)
  | split (axis mid : Nat) (right : Bool)
  | bc (target : List Nat)
  | sq

def VOp.applyL : VOp → View → Except Err View
  | .tr, v => .ok (transposed v)
  | .perm p, v => permuted v p
  | .mv a b, v => moveAxis v a b
  | .ia k, v => insertAxis v k
  | .ra k, v => removeAxis v k
  | .ix a i, v => indexAxis v a i
  | .sl items, v => trySlice v items
  | .sa a b c, v => sliceAxis v a b c
  | .split a m r, v => splitAt v a m r
  | .bc t, v => broadcast v t
  | .sq, v => .ok (squeezed v)

def VOp.applyR : VOp → NArr α → Except Err (NArr α)
  | .tr, A => .ok A.transpose
  | .perm p, A => A.permute p
  | .mv a b, A => A.moveAxis a b
  | .ia k, A => A.insertAxis k
  | .ra k, A => A.removeAxis k
  | .ix a i, A => A.indexAxis a i
  | .sl items, A => A.slice (items.map toRefItem)
  | .sa a b c, A => A.sliceAxis a b c
  | .split a m r, A => A.splitAt a m r
  | .bc t, A => A.broadcastTo t
  | .sq, A => .ok A.squeeze

/-- Slice ranges are built by `SliceRange::new`, which rejects a zero step. -/
def VOp.stepsOk : VOp → Prop
  | .sl items => ∀ r, SliceItem.range r ∈ items → r.step ≠ 0
  | _ => True

/-- **C09.T1 (all covered operations at once)**: on a view whose storage window covers its
layout, the operation denotes the reference operation or fails with the same error class, and
the result covers its layout again. -/
theorem c09_step (op : VOp) (v : View) (s : Nat → α) (hwf : WF v) (hs : op.stepsOk) :
    (op.applyL v).map (fun v' => denote v' s) = op.applyR (denote v s) ∧
    ∀ v', op.applyL v = .ok v' → WF v' := by
  cases op with
  | tr =>
    refine ⟨by simp only [VOp.applyL, VOp.applyR, Except.map, c09_transpose], ?_⟩
    intro v' h
    simp only [VOp.applyL] at h
    injection h with h
    exact h ▸ WF_transposed v hwf
  | perm p => exact ⟨c09_permute v p s, fun v' h => WF_permuted v v' p h hwf⟩
  | mv a b => exact ⟨c09_move_axis v a b s, fun v' h => WF_moveAxis v v' a b h hwf⟩
  | ia k => exact ⟨c09_insert_axis v k s, fun v' h => WF_insertAxis v v' k h hwf⟩
  | ra k => exact ⟨c09_remove_axis v k s, fun v' h => WF_removeAxis v v' k h hwf⟩
  | ix a i => exact c09_index_axis v a i s hwf
  | sl items => exact c09_slice v items s hwf hs
  | sa a b c => exact c09_slice_axis v a b c s hwf
  | split a m r => exact c09_split_at v a m r s hwf
  | bc t => exact ⟨c09_broadcast v t s, fun v' h => WF_broadcast v v' t h hwf⟩
  | sq =>
    refine ⟨by simp only [VOp.applyL, VOp.applyR, Except.map, c09_squeeze], ?_⟩
    intro v' h
    simp only [VOp.applyL] at h
    injection h with h
    exact h ▸ WF_squeezed v hwf

def chainL : List VOp → View → Except Err View
  | [], v => .ok v
  | op :: ops, v => match op.applyL v with
    | .ok v' => chainL ops v'
    | .error e => .error e

def chainR : List VOp → NArr α → Except Err (NArr α)
  | [], A => .ok A
  | op :: ops, A => match op.applyR A with
    | .ok A' => chainR ops A'
    | .error e => .error e

/-- **C09.T2** Any chain of the operations above, applied to the layout of a view that covers its
storage needs, denotes what the same chain of reference operations yields on the denoted array;
a failing step fails on both sides with the same error class, and no step can hit the storage
range assertion (by induction over the chain from the T1 theorems and the invariant). -/
theorem c09_chain (ops : List VOp) (v : View) (s : Nat → α) (hwf : WF v)
    (hs : ∀ op ∈ ops, op.stepsOk) :
    (chainL ops v).map (fun v' => denote v' s) = chainR ops (denote v s) := by
  induction ops generalizing v with
  | nil => rfl
  | cons op ops ih =>
    obtain ⟨hstep, hwf'⟩ := c09_step op v s hwf (hs op List.mem_cons_self)
    simp only [chainL, chainR]
    cases hL : op.applyL v with
    | error e =>
      rw [hL] at hstep
      simp only [Except.map] at hstep
      rw [← hstep]
      rfl
    | ok v' =>
      rw [hL] at hstep
      simp only [Except.map] at hstep
      rw [← hstep]
      exact ih v' (hwf' v' hL) (fun op' h => hs op' (List.mem_cons_of_mem _ h))

/-- Non-vacuity: a chain that runs to completion on a non-contiguous source, evaluated. -/
example : (chainL [.tr, .ia 1, .mv 0 2, .ra 0, .sl [.range ⟨-2, none, 1⟩, .range ⟨0, none, 2⟩],
      .split 1 1 true] ⟨1, 12, [(2, 4), (3, 1)]⟩).map (fun v' => denote v' (fun i => i)) =
    .ok (⟨[2, 1], [3, 7]⟩ : NArr Nat) ∧ WF ⟨1, 12, [(2, 4), (3, 1)]⟩ := ⟨by rfl, by unfold WF; decide⟩

/-- … and one that fails in the middle on both sides. -/
example : (chainL [.tr, .ra 0] ⟨0, 6, [(2, 3), (3, 1)]⟩).map (fun v' => denote v' (fun i => i)) =
    (.error .panic : Except Err (NArr Nat)) ∧
    chainR [.tr, .ra 0] (⟨[2, 3], [0, 1, 2, 3, 4, 5]⟩ : NArr Nat) = .error .panic := ⟨by rfl, by rfl⟩

/-! ## `materialize`: from an arbitrary view to an owned tensor -/

/-- An owned tensor as `from_data_with_strides` builds it: data starts at 0, the window is the
whole `Vec`, the layout has no internal overlap and fits the storage. -/
def Owned (m : TState) : Prop :=
  m.view.base = 0 ∧ m.view.len = m.store.length ∧ mayOverlap m.view.dims = false ∧ WF m.view

/-- **materialize** (how the driver and the harness apply `append` / `clip_dim` to an arbitrary
view): when it succeeds the new tensor is owned and denotes the same array. -/
theorem materialize_ok (t m : TState) (h : materialize t = .ok m) :
    mayOverlap t.view.dims = false ∧
    minDataLen t.view.dims ≤ ((t.store.drop t.view.base).take t.view.len).length ∧
    m = ⟨(t.store.drop t.view.base).take t.view.len,
      ⟨0, ((t.store.drop t.view.base).take t.view.len).length, t.view.dims⟩⟩ := by
  unfold materialize at h
  cases hov : mayOverlap t.view.dims with
  | true => simp [hov] at h
  | false =>
    simp only [hov, Bool.false_eq_true, if_false] at h
    by_cases hlen : minDataLen t.view.dims > ((t.store.drop t.view.base).take t.view.len).length
    · rw [if_pos hlen] at h; cases h
    · rw [if_neg hlen] at h
      injection h with h
      exact ⟨rfl, by omega, h.symm⟩

theorem materialize_arr (t m : TState) (h : materialize t = .ok m) : m.arr = t.arr ∧ Owned m := by
  obtain ⟨hno, hlen, hm⟩ := materialize_ok t m h
  subst hm
  have hwin : ((t.store.drop t.view.base).take t.view.len).length ≤ t.view.len := by
    rw [List.length_take]; omega
  refine ⟨?_, rfl, rfl, hno, ?_⟩
  · unfold TState.arr denote
    apply NArr.ofFn_congr
    intro idx hidx
    have := offset_lt_minDataLen t.view.dims idx hidx
    simp only [Nat.zero_add]
    rw [getD_take_drop _ _ _ _ (by omega)]
  · unfold WF; simp only []; omega

theorem materialize_idem (m : TState) (h : Owned m)
    (hv : m.view = ⟨0, m.store.length, m.view.dims⟩) : materialize m = .ok m := by
  obtain ⟨hb, hl, hno, hwf⟩ := h
  rw [materialize_owned m hb hl hno hwf]
  congr 1
  cases m with
  | mk store view =>
    simp only at hv ⊢
    rw [hv]

/-- **C09.T4 clip_dim on any view** (through `materialize`, as driven): when it returns, the
result is the reference range of the axis of the *original* view's array, and it covers its
layout. -/
theorem c09_clip_dim_any (t t' : TState) (axis start stop : Nat)
    (h : clipDim t axis start stop = .ok t') :
    t.arr.sliceAxis axis start stop = .ok t'.arr := by
  cases hm : materialize t with
  | error e => unfold clipDim at h; rw [hm] at h; cases h
  | ok m =>
    obtain ⟨harr, hown⟩ := materialize_arr t m hm
    have hm' : clipDim m axis start stop = .ok t' := by
      have hmm : materialize m = .ok m := by
        apply materialize_idem m hown
        rw [(materialize_ok t m hm).2.2]
      unfold clipDim at h ⊢
      rw [hm] at h
      rw [hmm]
      exact h
    rw [← harr]
    exact c09_clip_dim m t' axis start stop hown.1 hown.2.1 hown.2.2.1 hown.2.2.2 hm'

/-- **C09.T4 append on any view** (through `materialize`; element-wise write path): the result
is `numpy.concatenate([a, other], axis)` of the *original* view's array. -/
theorem c09_append_any_partial (t t' m : TState) (axis cap : Nat) (oshape : List Nat)
    (hm : materialize t = .ok m)
    (hslow : ¬ (isContiguous (resizeDim m.view.dims axis
        ((sizes m.view.dims).getD axis 0 + oshape.getD axis 0)) = true ∧
      m.store.length + numel oshape = minDataLen (resizeDim m.view.dims axis
        ((sizes m.view.dims).getD axis 0 + oshape.getD axis 0))))
    (h : appendOp t axis cap oshape = .ok t') :
    t'.arr = NArr.concat axis t.arr (NArr.ofFn oshape (fun idx => 1000 + (idxs oshape).idxOf idx)) := by
  obtain ⟨harr, hown⟩ := materialize_arr t m hm
  have hmm : materialize m = .ok m := by
    apply materialize_idem m hown
    rw [(materialize_ok t m hm).2.2]
  have hm' : appendOp m axis cap oshape = .ok t' := by
    unfold appendOp at h ⊢
    rw [hm] at h
    rw [hmm]
    exact h
  rw [← harr]
  exact (c09_append_concat_partial m t' axis cap oshape hown.1 hown.2.1 hown.2.2.1 hown.2.2.2
    hslow hm').2

theorem slicedShape_too_many (d : Dims) (items : List SliceItem) (hr : rangesOnly items)
    (hlen : d.length < items.length) : slicedShape d items = .error .panic := by
  induction d generalizing items with
  | nil =>
    cases items with
    | nil => simp at hlen
    | cons it its => rfl
  | cons p ds ih =>
    obtain ⟨n, st⟩ := p
    cases items with
    | nil => simp at hlen
    | cons it its =>
      have hr' : rangesOnly its := fun x hx => hr x (List.mem_cons_of_mem _ hx)
      simp only [slicedShape, ih its hr' (by simpa using hlen), bind, Except.bind]

theorem copySels_too_many (shape : List Nat) (items : List SliceItem) (hr : rangesOnly items)
    (hlen : shape.length < items.length) :
    NArr.copySels (items.map toRefItem) shape = .error .panic := by
  induction shape generalizing items with
  | nil =>
    cases items with
    | nil => simp at hlen
    | cons it its => cases it <;> rfl
  | cons n ns ih =>
    cases items with
    | nil => simp at hlen
    | cons it its =>
      have hr' : rangesOnly its := fun x hx => hr x (List.mem_cons_of_mem _ hx)
      obtain ⟨r, hit, h0⟩ := hr it List.mem_cons_self
      subst hit
      simp only [List.map_cons, toRefItem, NArr.copySels, h0, if_false,
        ih its hr' (by simpa using hlen)]
      rfl

/-- `slice_copy` with range items, as one step: reference result or the same panic (too many
items), and the result — a fresh contiguous tensor — covers its layout. -/
theorem c09_slice_copy_step (t : TState) (items : List SliceItem) (hr : rangesOnly items)
    (hwf : WF t.view) :
    (sliceCopy t items).map TState.arr = NArr.sliceCopy (items.map toRefItem) t.arr ∧
    ∀ t', sliceCopy t items = .ok t' → WF t'.view := by
  by_cases hlen : items.length ≤ t.view.dims.length
  · obtain ⟨t1, h1, h2, h3⟩ := c09_slice_copy_ranges t items hlen hr hwf
    rw [h1, h2]
    exact ⟨rfl, fun t' h => by injection h with h; exact h ▸ h3⟩
  · have hl : t.view.dims.length < items.length := by omega
    have hL : sliceCopy t items = .error .panic := by
      unfold sliceCopy trySlice
      rw [if_pos hl]
      simp only [slicedShape_too_many _ _ hr hl, bind, Except.bind]
    have hR : NArr.sliceCopy (items.map toRefItem) t.arr = .error .panic := by
      unfold NArr.sliceCopy
      rw [copySels_too_many _ _ hr (by simpa [TState.arr, denote] using hl)]
      rfl
    rw [hL, hR]
    exact ⟨rfl, fun t' h => by cases h⟩

/-! ## The copying loop of `slice_copy` (`copy_range_into_slice`), loop level -/

/-- **C09 copy_range_into_slice, loop level** (code after fix `2a7721f`).  For every number of
axes and every list of resolved index ranges (reversed, stepped, empty, …), writing into an
output buffer of exactly `∏ steps` elements, the loop nest — the four-deep `dest_offset` loop
and, for more axes, the recursion that splits the buffer by the *sliced* sub-tensor length —
(a) returns exactly the elements at the Cartesian product of the ranges in row-major order,
which is the data of the reference `NArr.gather`, and (b) passes every length assertion on the
way (`assert_eq!(dest.len(), sliced_len)`, `split_at_mut`, `assert!(dest.is_empty())`). -/
theorem c09_copy_range_loop (A : NArr Nat) (ranges : List (List Nat)) (dest : List Nat)
    (hrank : ranges.length = A.shape.length) (hd : dest.length = CopyRange.prodLen ranges) :
    CopyRange.copyRangeIntoSlice A.get dest ranges =
      .ok (NArr.gather (ranges.map Sel.take) A).data := by
  rw [CopyRange.copyRangeIntoSlice_spec ranges A.get dest hd, CopyRange.gather_data A ranges hrank]

theorem copyRanges_length (d : Dims) (items : List SliceItem) (lists : List (List Nat))
    (h : copyRanges d items = .ok lists) : lists.length = d.length := by
  induction d generalizing items lists with
  | nil =>
    cases items with
    | nil => simp only [copyRanges] at h; injection h with h; subst h; rfl
    | cons it its => simp [copyRanges] at h
  | cons p ds ih =>
    obtain ⟨n, st⟩ := p
    cases items with
    | nil =>
      simp only [copyRanges, bind, Except.bind] at h
      cases hr : copyRanges ds [] with
      | error e => simp [hr] at h
      | ok rest =>
        simp only [hr, pure, Except.pure] at h
        injection h with h; subst h
        simp [ih [] rest hr]
    | cons it its =>
      simp only [copyRanges, bind, Except.bind] at h
      cases hi : it.indexRange n with
      | error e => simp [hi] at h
      | ok ir =>
        simp only [hi] at h
        cases hr : copyRanges ds its with
        | error e => simp [hr] at h
        | ok rest =>
          simp only [hr, pure, Except.pure] at h
          injection h with h; subst h
          simp [ih its rest hr]

/-- The loop-level model and the gather-level model of `slice_copy`'s copying path agree: with
the index lists and the buffer length `slice_copy_in` computes (`∏ sliced_shape`, checked equal
to `∏ steps`), the loop fills the buffer with exactly the data `sliceCopy` installs. -/
theorem c09_slice_copy_loop (t : TState) (items : List SliceItem) (shp : List Nat)
    (lists : List (List Nat)) (dest : List Nat)
    (hl : copyRanges t.view.dims items = .ok lists)
    (hn : numel shp = numel (lists.map List.length)) (hd : dest.length = numel shp) :
    CopyRange.copyRangeIntoSlice t.arr.get dest lists =
      .ok (NArr.gather (lists.map Sel.take) t.arr).data := by
  apply c09_copy_range_loop
  · rw [copyRanges_length _ _ _ hl]; simp [TState.arr, denote]
  · rw [hd, hn]; rfl

/-- **The pre-fix loop is wrong** (witnesses for finding `C09-slice-copy-rank5-split`): on a
`[2,2,2,2,3]` source with the last axis sliced `-1::-2` (indices `[2, 0]`) the old code, which
split the buffer by the full sub-tensor length (24 instead of 16), fails the inner
`assert_eq!` — a panic — where the fixed loop returns the 32 selected elements; and with an
outer range that selects nothing the old code returned the buffer untouched (uninitialised
memory, here the marker 7) where the fixed loop panics on `assert!(dest.is_empty())`. -/
theorem c09_copy_range_old_false :
    let src : List Nat → Nat := fun idx => idx.foldl (fun a i => 3 * a + i) 0
    CopyRange.copyInnerOld src (List.replicate 32 7) [2, 2, 2, 2, 3]
        [[0, 1], [0, 1], [0, 1], [0, 1], [2, 0]] = .error .panic ∧
    CopyRange.copyInner src (List.replicate 32 7) [[0, 1], [0, 1], [0, 1], [0, 1], [2, 0]] =
        .ok ((CopyRange.cart [[0, 1], [0, 1], [0, 1], [0, 1], [2, 0]]).map src) ∧
    CopyRange.copyInnerOld src [7, 7] [2, 1, 1, 1, 1] [[], [0], [0], [0], [0]] = .ok [7, 7] ∧
    CopyRange.copyInner src [7, 7] [[], [0], [0], [0], [0]] = .error .panic := by
  refine ⟨by rfl, by rfl, by rfl, by rfl⟩

/-! ## T2 on tensor states: view operations, `to_contiguous` and `reshaped` in one chain -/

theorem WF_toContiguous (t : TState) : WF (toContiguous t).view := by
  unfold toContiguous
  split
  · unfold WF; exact Nat.le_refl _
  · exact WF_ofArr _ (denote_data_length _ _)

theorem WF_reshaped (t t' : TState) (shape : List Nat) (hwf : WF t.view)
    (h : reshaped t shape = .ok t') : WF t'.view := by
  unfold reshaped at h
  split at h
  · cases h
  · rename_i hn
    have hn' : numel shape = numelD t.view.dims := by omega
    split at h
    · rename_i hc
      injection h with h
      subst h
      unfold WF at hwf ⊢
      simp only []
      rw [minDataLen_contigDims, hn']
      rw [minDataLen_contiguous _ hc] at hwf
      exact hwf
    · injection h with h
      subst h
      unfold WF
      simp only []
      rw [minDataLen_contigDims, hn']
      have := denote_data_length t.view (fun i => t.store.getD i 0)
      show numel (sizes t.view.dims) ≤ t.arr.data.length
      rw [show t.arr.data.length = numel (sizes t.view.dims) from this]
      exact Nat.le_refl _

/-- Operations on a tensor state (buffer + view). -/
inductive TOp
  | view (op : VOp)
  | tc
  | rs (shape : List Nat)
  | slc (items : List SliceItem)

def TOp.applyL : TOp → TState → Except Err TState
  | .view op, t => (op.applyL t.view).map (fun v => { t with view := v })
  | .tc, t => .ok (toContiguous t)
  | .rs shape, t => reshaped t shape
  | .slc items, t => sliceCopy t items

def TOp.applyR : TOp → NArr Nat → Except Err (NArr Nat)
  | .view op, A => op.applyR A
  | .tc, A => .ok A
  | .rs shape, A => match A.reshape shape with
    | some B => .ok B
    | none => .error .panic
  | .slc items, A => A.sliceCopy (items.map toRefItem)

def TOp.stepsOk : TOp → Prop
  | .view op => op.stepsOk
  | .slc items => rangesOnly items
  | _ => True

theorem c09_state_step (op : TOp) (t : TState) (hwf : WF t.view) (hs : op.stepsOk) :
    (op.applyL t).map TState.arr = op.applyR t.arr ∧
    ∀ t', op.applyL t = .ok t' → WF t'.view := by
  cases op with
  | view op =>
    obtain ⟨h1, h2⟩ := c09_step op t.view (fun i => t.store.getD i 0) hwf hs
    simp only [TOp.applyL, TOp.applyR]
    cases hL : op.applyL t.view with
    | error e =>
      rw [hL] at h1
      exact ⟨h1, fun t' h => by cases h⟩
    | ok v' =>
      rw [hL] at h1
      refine ⟨h1, ?_⟩
      intro t' h
      simp only [Except.map] at h
      injection h with h
      subst h
      exact h2 v' hL
  | tc =>
    refine ⟨by simp only [TOp.applyL, TOp.applyR, Except.map, c09_to_contiguous], ?_⟩
    intro t' h
    simp only [TOp.applyL] at h
    injection h with h
    exact h ▸ WF_toContiguous t
  | rs shape =>
    exact ⟨c09_reshaped t shape, fun t' h => WF_reshaped t t' shape hwf h⟩
  | slc items => exact c09_slice_copy_step t items hs hwf

def chainTL : List TOp → TState → Except Err TState
  | [], t => .ok t
  | op :: ops, t => match op.applyL t with
    | .ok t' => chainTL ops t'
    | .error e => .error e

def chainTR : List TOp → NArr Nat → Except Err (NArr Nat)
  | [], A => .ok A
  | op :: ops, A => match op.applyR A with
    | .ok A' => chainTR ops A'
    | .error e => .error e

/-- **C09.T2 (tensor states)**: chains mixing the view operations with `to_contiguous`,
`reshaped` (view or copy) and `slice_copy` (range items) denote the reference chain; the storage-window invariant is kept
across copies, so later view operations stay covered. -/
theorem c09_state_chain (ops : List TOp) (t : TState) (hwf : WF t.view)
    (hs : ∀ op ∈ ops, op.stepsOk) :
    (chainTL ops t).map TState.arr = chainTR ops t.arr := by
  induction ops generalizing t with
  | nil => rfl
  | cons op ops ih =>
    obtain ⟨hstep, hwf'⟩ := c09_state_step op t hwf (hs op List.mem_cons_self)
    simp only [chainTL, chainTR]
    cases hL : op.applyL t with
    | error e =>
      rw [hL] at hstep
      simp only [Except.map] at hstep
      rw [← hstep]
      rfl
    | ok t' =>
      rw [hL] at hstep
      simp only [Except.map] at hstep
      rw [← hstep]
      exact ih t' (hwf' t' hL) (fun op' h => hs op' (List.mem_cons_of_mem _ h))

/-- Non-vacuity: transpose, copy, reshape, slice on a 2×3 tensor. -/
example : (chainTL [.view .tr, .tc, .rs [6], .view (.sl [.range ⟨1, none, 2⟩]),
      .slc [.range ⟨-1, none, -1⟩]]
      ⟨[0, 1, 2, 3, 4, 5], ⟨0, 6, [(2, 3), (3, 1)]⟩⟩).map TState.arr =
    .ok ⟨[3], [5, 4, 3]⟩ := by rfl

/-! ## The blocked copy loop (`copy_blocked`) -/

/-- **C09 copy_blocked**: the write-by-write model of the 64×64-block / 4×4-tile loop nest
(including the transposing kernel, used when the row stride is 1, and the narrow / short edge
tiles) fills a `rows × cols` row-major buffer with `dest[r][c] = src[r·row_stride + c·col_stride]`
for every `r < rows`, `c < cols` — every element written, none wrongly — and every write of the
loop nest targets a position inside the matrix (so the model's `List.set` never swallows an
out-of-range write).  Tie to the code: the harness compares the real `to_vec` *output* with the
model's output (`CB` requests); the order of the writes and which kernel ran are not observed. -/
theorem c09_copy_blocked (rows cols rs cs : Nat) (src : Nat → Nat) :
    (∀ w ∈ Copy.blockedWrites rows cols, w.r < rows ∧ w.c < cols) ∧
    (Copy.copyBlocked rows cols rs cs src).length = rows * cols ∧
    ∀ r c, r < rows → c < cols →
      (Copy.copyBlocked rows cols rs cs src).getD (r * cols + c) 0 = src (r * rs + c * cs) :=
  ⟨fun w hw => Copy.writes_valid rows cols w hw, Copy.copyBlocked_correct rows cols rs cs src⟩

/-! ## T3: slice arithmetic agrees with the NumPy / CPython definition

For every `start`, optional `stop`, `step ≠ 0` over unbounded `Int` and every axis length `n`. -/

/-- **C09.T3a** `resolve` (positive step, used by the view-returning `slice`): succeeds exactly
when no bound needs clamping and then returns CPython's adjusted bounds. -/
theorem c09_resolve_matches_numpy (r : SliceRange) (n : Nat) (ht : r.step > 0) :
    r.resolve n =
      if NArr.inBounds r.start n && r.stop.all (NArr.inBounds · n) then
        some ((pyBounds r.start r.stop r.step n).1.toNat,
          (max (pyBounds r.start r.stop r.step n).2 (pyBounds r.start r.stop r.step n).1).toNat)
      else none :=
  resolve_pos r n ht

/-- **C09.T3a'** `SliceRange::steps` is CPython's element count, both step signs. -/
theorem c09_steps_matches_numpy (r : SliceRange) (n : Nat) (h0 : r.step ≠ 0) :
    r.steps n = pyCount r.start r.stop r.step n :=
  steps_eq_pyCount r n h0

/-- **C09.T3b** `index_range` / `IndexRange::steps` / the index iterator, positive step: never
fails; the indices are exactly `a[start:stop:step]`'s and `steps` is their number. -/
theorem c09_index_range_pos_matches_numpy (r : SliceRange) (n : Nat) (ht : r.step > 0) :
    ∃ ir, r.indexRange n = .ok ir ∧ ir.toList = pyIndices r.start r.stop r.step n ∧
      ir.steps = pyCount r.start r.stop r.step n :=
  let ⟨ir, h1, h2, h3, _⟩ := indexRange_pos r n ht
  ⟨ir, h1, h2, h3⟩

/-- **C09.T3c** negative step (code after fix `6e0e117`): `index_range` never fails and returns
exactly NumPy's indices — full strength, every `(start, stop, step < 0, n)`. -/
theorem c09_index_range_neg_matches_numpy (r : SliceRange) (n : Nat) (ht : r.step < 0) :
    ∃ ir, r.indexRange n = .ok ir ∧ ir.toList = pyIndices r.start r.stop r.step n ∧
      ir.steps = pyCount r.start r.stop r.step n :=
  indexRange_neg r n ht

/-- **C09.T3** both signs: for every `step ≠ 0` the index iterator of `index_range` is
`a[start:stop:step]`. -/
theorem c09_index_range_matches_numpy (r : SliceRange) (n : Nat) (h0 : r.step ≠ 0) :
    ∃ ir, r.indexRange n = .ok ir ∧ ir.toList = pyIndices r.start r.stop r.step n ∧
      ir.steps = pyCount r.start r.stop r.step n := by
  by_cases ht : r.step > 0
  · exact c09_index_range_pos_matches_numpy r n ht
  · exact indexRange_neg r n (by omega)

/-- The same full statement was **false** of the code before fix `6e0e117` (`indexRangeOld`):
reversing an empty axis, or starting below `-n`, panicked (`dim_size - 1 - resolved.start`
underflows) where NumPy yields `[]` (finding `C09-index-range-neg-start-underflow`, fixed). -/
theorem c09_index_range_old_neg_full_false :
    ¬ ∀ (r : SliceRange) (n : Nat), r.step < 0 →
      ∃ ir, r.indexRangeOld n = .ok ir ∧ ir.toList = pyIndices r.start r.stop r.step n := by
  intro h
  obtain ⟨ir, h1, _⟩ := h ⟨-1, none, -1⟩ 0 (by decide)
  have e : (SliceRange.mk (-1) none (-1)).indexRangeOld 0 = .error .panic := by rfl
  rw [e] at h1
  cases h1

/-- What did hold of the pre-fix code: it either panicked — exactly when NumPy's adjusted start
is `-1`, i.e. `start < -n` or `n = 0`, where NumPy's answer is the empty list — or returned
exactly NumPy's indices. -/
theorem c09_index_range_old_neg_partial (r : SliceRange) (n : Nat) (ht : r.step < 0) :
    (r.indexRangeOld n = .error .panic ∧ (r.start < -(n : Int) ∨ n = 0) ∧
        pyIndices r.start r.stop r.step n = []) ∨
    (∃ ir, r.indexRangeOld n = .ok ir ∧ ir.toList = pyIndices r.start r.stop r.step n ∧
      ir.steps = pyCount r.start r.stop r.step n ∧ ¬ (r.start < -(n : Int) ∨ n = 0)) := by
  have hb : (pyBounds r.start r.stop r.step n).1 = pyAdjust r.start r.step n := rfl
  rcases indexRangeOld_neg r n ht with ⟨h1, h2⟩ | ⟨ir, h1, h2, h3, h4⟩
  · left
    refine ⟨h1, (neg_start_before _ _ _ ht).mp (hb ▸ h2), ?_⟩
    have hR := pyBounds_neg_range r n ht
    have hc : pyCount r.start r.stop r.step n = 0 := by
      unfold pyCount
      rcases hp : pyBounds r.start r.stop r.step n with ⟨S, E⟩
      rw [hp] at h2 hR
      simp only at h2 hR
      simp only [ht, if_true]
      rw [if_neg (by omega)]
    simp [pyIndices, hc]
  · right
    exact ⟨ir, h1, h2, h3, fun h => h4 (hb ▸ (neg_start_before _ _ _ ht).mpr h)⟩

/-- Non-vacuity: a reversed stepped range, and the formerly panicking input on old and new code. -/
example : (SliceRange.mk (-1) (some (-6)) (-2)).indexRange 5 = .ok ⟨4, -1, -2⟩ ∧
    (IndexRange.mk 4 (-1) (-2)).toList = [4, 2, 0] ∧ pyIndices (-1) (some (-6)) (-2) 5 = [4, 2, 0] ∧
    (SliceRange.mk (-4) none (-1)).indexRangeOld 3 = .error .panic ∧
    (SliceRange.mk (-4) none (-1)).indexRange 3 = .ok ⟨0, 0, -1⟩ ∧
    (IndexRange.mk 0 0 (-1)).toList = [] ∧ pyIndices (-4) none (-1) 3 = [] := by
  refine ⟨by rfl, by rfl, by rfl, by rfl, by rfl, by rfl, by rfl⟩

/-! ## `slice_copy`: the pre-fix code deviates from the reference (fixed findings) -/

/-- Full statement "`slice_copy` yields what NumPy's `a[items].copy()` yields, or panics" was
**false** of the code before fix `64c556f` (`sliceCopyOld`): on the slow path (negative step or
clamped bound) the axes that have no slice item were dropped from the result shape.  Witness: a
contiguous 3×1 tensor sliced with `[::-2]` came back with shape `[2]` instead of `[2, 1]`
(finding `C09-slice-copy-drops-unsliced-axes`, fixed). -/
theorem c09_slice_copy_old_full_false :
    ¬ ∀ (t : TState) (items : List SliceItem) (A : NArr Nat),
      sliceCopyOld t items = .ok (TState.ofArr A) →
      NArr.sliceCopy (items.map toRefItem) t.arr = .ok A := by
  intro h
  have e1 : sliceCopyOld ⟨[0, 1, 2], ⟨0, 3, [(3, 1), (1, 1)]⟩⟩ [.range ⟨-1, none, -2⟩] =
      .ok (TState.ofArr ⟨[2], [2, 0]⟩) := by rfl
  have e2 : NArr.sliceCopy ([SliceItem.range ⟨-1, none, -2⟩].map toRefItem)
      (TState.arr ⟨[0, 1, 2], ⟨0, 3, [(3, 1), (1, 1)]⟩⟩) = .ok ⟨[2, 1], [2, 0]⟩ := by rfl
  have h1 := h _ _ _ e1
  rw [e2] at h1
  injection h1 with h2
  injection h2 with h3 _
  revert h3
  decide

/-- Second pre-fix witness (finding `C09-slice-copy-accepts-bad-index-when-empty`, fixed by
`bb4fae9`): on a 2×0 tensor `slice_copy((2, 0..))` returned an empty tensor although index 2 is
out of range (the reference, like NumPy, rejects it). -/
theorem c09_slice_copy_old_accepts_bad_index :
    sliceCopyOld ⟨[], ⟨0, 0, [(2, 1), (0, 2)]⟩⟩ [.index 2, .range ⟨0, none, 1⟩] =
      .ok (TState.ofArr ⟨[0], []⟩) ∧
    NArr.sliceCopy ([SliceItem.index 2, SliceItem.range ⟨0, none, 1⟩].map toRefItem)
      (TState.arr ⟨[], ⟨0, 0, [(2, 1), (0, 2)]⟩⟩) = .error .panic :=
  ⟨by rfl, by rfl⟩

/-- The fixed code on the same two inputs (evaluated examples, i.e. tests; the general statements
for the fixed model are `c09_slice_copy_fast` and `c09_slice_copy_ranges`). -/
theorem c09_slice_copy_fixed_witnesses :
    sliceCopy ⟨[0, 1, 2], ⟨0, 3, [(3, 1), (1, 1)]⟩⟩ [.range ⟨-1, none, -2⟩] =
      .ok (TState.ofArr ⟨[2, 1], [2, 0]⟩) ∧
    sliceCopy ⟨[], ⟨0, 0, [(2, 1), (0, 2)]⟩⟩ [.index 2, .range ⟨0, none, 1⟩] = .error .panic :=
  ⟨by rfl, by rfl⟩

end RtenVerif.Layout
