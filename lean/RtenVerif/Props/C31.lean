import RtenVerif.Lemmas.Filter

/-!
# C31 — Logit filters implement their contracts for all inputs

Property theorems over `RtenVerif.Model.Filter` (model of `rten-generate/src/filter.rs`).
A candidate is an `Item` (token id, f32 bit pattern); `Item.key` is the `f32::total_cmp`
order, `Item.nkey` the IEEE numeric order (`-0.0 = +0.0`), `Item.gt` the IEEE `>` the code
uses in the top-K update guard, `Item.val` the score as an `Ext` (exact value × 2^149, ±inf, NaN).

Summary of what holds:
* `TopK` (current code): never panics, returns exactly `min k n` candidates, sorted
  descending by total order, a sub-multiset of the input, and computes exactly what the
  scalar loop computes whatever the SIMD width (`c31_topk_contract_partial`,
  `c31_topk_simd_eq_scalar`).  "Every excluded score ≤ every kept one" holds in the IEEE
  order for NaN-free input and in the total order if additionally `-0.0`/`+0.0` do not
  both occur.  It is **false** in the total order for inputs with NaN or with both zeros
  (`c31_topk_total_order_false_nan`, `c31_topk_total_order_false_zero`); the exact NaN
  behaviour is `c31_topk_late_nan_ignored` / `c31_topk_nan_kth_frozen`.
* Before commit `fix: TopK filter no longer panics …` the code panicked iff
  `0 < n < k` (`c31_topk_unclamped_panics`).
* `TopP` (no softmax; note `TopP::new` sets `normalize: false` although its doc comment says
  softmax is the default, so `Chain::top_p` sums raw scores): non-empty for non-empty input and
  any `p`; for `p ≠ 1` the shortest prefix of the descending-sorted input at which the f32 test
  `cum < max(p, MIN_POSITIVE)` fails, with ±inf / NaN scores modelled by IEEE rules
  (`c31_topp_contract`), which for finite inputs is the shortest prefix whose exact sum reaches
  the threshold (`c31_topp_minimal`); for `p = 1` the input unchanged, which is not minimal in
  general (`c31_topp_p1_not_minimal`).
* `Chain` is the left fold of its filters; it panics iff it contains a `Temperature` whose
  constructor assertion `temperature >= 0.` fails (NaN / negative), never otherwise.
-/
namespace RtenVerif.Filter

/-- `TopK::new(k).filter(xs)` as modelled (current code). -/
abbrev topKItems (lanes k : Nat) (xs : List Item) : Option (List Item) :=
  topK Item.key Item.gt true lanes k xs

/-- The TopK contract of the property text w.r.t. an order key `nk` on scores. -/
def TopKContract (nk : Item → Int) (k : Nat) (xs out : List Item) : Prop :=
  out.length = min k xs.length ∧ Desc Item.key out ∧
    ∃ excl, (out ++ excl).Perm xs ∧ ∀ e ∈ excl, ∀ t ∈ out, nk e ≤ nk t

/-! ## Order on bit patterns -/

/-- Ties in the total order are identical bit patterns. -/
theorem c31_total_order_ties {a b : Nat} (ha : a < 2 ^ 32) (hb : b < 2 ^ 32)
    (h : tkey a = tkey b) : a = b := tkey_inj ha hb h

/-- The IEEE order is coarser than the total order. -/
theorem c31_numeric_coarser (a b : Item) (h : a.key ≤ b.key) : a.nkey ≤ b.nkey := nkey_mono h

/-- `f32::total_cmp` exactly as std's source computes it: both bit patterns go through the
xor trick (`stdKey`) and are compared as `i32`. -/
def stdTotalCmp (a b : BitVec 32) : Ordering := compare (stdKey a) (stdKey b)

/-- **`tkey` is `f32::total_cmp`.** For all 2^32 × 2^32 bit patterns, std's formula
(`left ^= (((left >> 31) as u32) >> 1) as i32; left.cmp(&right)`) orders two floats exactly
as the model's integer key does; indeed the xor trick *is* `tkey` (`stdKey_eq_tkey`, by case
split on the sign bit and arithmetic on the 31 low bits — no enumeration). -/
theorem c31_tkey_is_total_cmp (a b : BitVec 32) :
    stdTotalCmp a b = compare (tkey a.toNat) (tkey b.toNat) := by
  unfold stdTotalCmp
  rw [stdKey_eq_tkey, stdKey_eq_tkey]

/-- Sanity of the modelled formula on concrete patterns: −NaN, −0, +0, 1.0, +NaN. -/
example : [0xffc00000#32, 0x80000000#32, 0#32, 0x3f800000#32, 0x7fc00000#32].map stdKey
    = [-2143289345, -1, 0, 1065353216, 2143289344] := by decide

/-- Spot checks of the keys (−NaN < −inf < −1 < −0 < +0 < min-subnormal < 1 < +inf < +NaN). -/
example : [0xffc00000, 0xff800000, 0xbf800000, 0x80000000, 0, 1, 0x3f800000, 0x7f800000, 0x7fc00000].map tkey
    = [-2143289345, -2139095041, -1065353217, -1, 0, 1, 1065353216, 2139095040, 2143289344] := by decide
example : fgt 0 0x80000000 = false ∧ fgt 0x3f800000 0 = true ∧ fgt 0x7fc00000 0 = false ∧
    fgt 0 0xffc00000 = false ∧ fgt 0x7f800000 0x7f7fffff = true := by decide

/-! ## T4 — no panic; SIMD = scalar -/

/-- **C31.T4/T1** For every SIMD width, every `k` (including `k > n`) and every input, the
vectorised `TopK` does not panic and returns exactly the result of the scalar loop. -/
theorem c31_topk_simd_eq_scalar (lanes : Nat) (hl : 1 ≤ lanes) (k : Nat) (xs : List Item) :
    topKItems lanes k xs = some (topKSeq Item.key Item.gt k xs) :=
  topK_eq_seq Item.key Item.gt lanes hl k xs

theorem c31_topk_no_panic (lanes : Nat) (hl : 1 ≤ lanes) (k : Nat) (xs : List Item) :
    (topKItems lanes k xs).isSome := by
  rw [c31_topk_simd_eq_scalar lanes hl]; rfl

/-- The code before the clamp fix panics exactly for `0 < n < k` (fixed defect). -/
theorem c31_topk_unclamped_panics (lanes k : Nat) (xs : List Item) :
    topK Item.key Item.gt false lanes k xs = none ↔ xs ≠ [] ∧ xs.length < k :=
  topK_unclamped_none_iff Item.key Item.gt lanes k xs

/-- …and agrees with the current code otherwise. -/
theorem c31_topk_unclamped_agrees (lanes k : Nat) (xs : List Item) (h : k ≤ xs.length) :
    topK Item.key Item.gt false lanes k xs = topKItems lanes k xs :=
  topK_unclamped_eq Item.key Item.gt lanes k xs h

/-- The observed panic: `TopK::new(5)` on 3 dense logits `[1.0, 2.0, 3.0]`; now all three are
returned sorted. -/
example : topK Item.key Item.gt false 16 5 [⟨0, 0x3f800000⟩, ⟨1, 0x40000000⟩, ⟨2, 0x40400000⟩] = none ∧
    topKItems 16 5 [⟨0, 0x3f800000⟩, ⟨1, 0x40000000⟩, ⟨2, 0x40400000⟩]
      = some [⟨2, 0x40400000⟩, ⟨1, 0x40000000⟩, ⟨0, 0x3f800000⟩] := by decide

/-! ## T1 — TopK contract -/

/-- **C31.T1 (partial)** For all widths, `k` and inputs the result has `min k n` entries, is
sorted descending by total order and is a sub-multiset of the input; for NaN-free input
every excluded score is `≤` every kept one in the IEEE order.

Missing w.r.t. the property text ("NaNs handled by total order"): the last clause for inputs
containing NaN — false, see `c31_topk_total_order_false_nan`. -/
theorem c31_topk_contract_partial (lanes : Nat) (hl : 1 ≤ lanes) (k : Nat) (xs : List Item) :
    ∃ out, topKItems lanes k xs = some out ∧
      out.length = min k xs.length ∧ Desc Item.key out ∧
      ∃ excl, (out ++ excl).Perm xs ∧
        ((∀ x ∈ xs, x.isNaN = false) → ∀ e ∈ excl, ∀ t ∈ out, e.nkey ≤ t.nkey) := by
  refine ⟨_, c31_topk_simd_eq_scalar lanes hl k xs, topKSeq_length _ _ k xs, topKSeq_desc _ _ k xs,
    topKExcl Item.key Item.gt k xs, topKSeq_perm _ _ k xs, ?_⟩
  intro hnan
  exact topKSeq_largest Item.key Item.gt Item.nkey (fun a => a.isNaN = false)
    (fun a b h => nkey_mono h) (fun a b ha hb => fgt_iff_nkey ha hb) k xs hnan

/-- **C31.T1 (partial, total order)** The contract of the property text in the *total order*
holds for NaN-free inputs in which `-0.0` and `+0.0` do not both occur. -/
theorem c31_topk_total_order_partial (lanes : Nat) (hl : 1 ≤ lanes) (k : Nat) (xs : List Item)
    (hnan : ∀ x ∈ xs, x.isNaN = false)
    (hz : (∀ x ∈ xs, x.bits ≠ 2 ^ 31) ∨ (∀ x ∈ xs, x.bits ≠ 0)) :
    ∃ out, topKItems lanes k xs = some out ∧ TopKContract Item.key k xs out := by
  refine ⟨_, c31_topk_simd_eq_scalar lanes hl k xs, topKSeq_length _ _ k xs, topKSeq_desc _ _ k xs,
    topKExcl Item.key Item.gt k xs, topKSeq_perm _ _ k xs, ?_⟩
  rcases hz with hz | hz
  · exact topKSeq_largest Item.key Item.gt Item.key (fun a => a.isNaN = false ∧ a.bits ≠ 2 ^ 31)
      (fun a b h => h) (fun a b ha hb => fgt_iff_tkey_noNegZero ha.1 hb.1 ha.2 hb.2) k xs
      (fun x hx => ⟨hnan x hx, hz x hx⟩)
  · exact topKSeq_largest Item.key Item.gt Item.key (fun a => a.isNaN = false ∧ a.bits ≠ 0)
      (fun a b h => h) (fun a b ha hb => fgt_iff_tkey_noPosZero ha.1 hb.1 ha.2 hb.2) k xs
      (fun x hx => ⟨hnan x hx, hz x hx⟩)

/-- **C31.T1 (partial, readable form)** Under the same hypotheses the kept scores are exactly
the scores of the first `min k n` entries of `Sort` (the fully sorted input): "the K largest,
sorted in descending order". (Which of several candidates with identical scores is kept is not
fixed by the property; the model/implementation agreement on ids is checked by the harness.) -/
theorem c31_topk_scores_eq_sorted_prefix (lanes : Nat) (hl : 1 ≤ lanes) (k : Nat) (xs : List Item)
    (hnan : ∀ x ∈ xs, x.isNaN = false)
    (hz : (∀ x ∈ xs, x.bits ≠ 2 ^ 31) ∨ (∀ x ∈ xs, x.bits ≠ 0)) :
    ∃ out, topKItems lanes k xs = some out ∧
      out.map Item.key = ((sortDesc Item.key xs).take (min k xs.length)).map Item.key := by
  obtain ⟨out, ho, hlen, hd, excl, hp, hle⟩ := c31_topk_total_order_partial lanes hl k xs hnan hz
  refine ⟨out, ho, ?_⟩
  rw [← hlen]
  exact keys_eq_sorted_prefix Item.key out excl xs hd hp hle

/-- `Sort` returns a descending (total order) permutation of its input. -/
theorem c31_sort_contract (xs : List Item) :
    Desc Item.key (sortDesc Item.key xs) ∧ (sortDesc Item.key xs).Perm xs :=
  ⟨sortDesc_desc Item.key xs, sortDesc_perm Item.key xs⟩

/-- Non-vacuity: 5 NaN-free logits without `-0.0`, `k = 2`, width 2 (one full chunk is
skipped — `anyGt … = false` — then the tail element is admitted): the two largest are kept,
ties in input order. -/
example :
    let xs : List Item := [⟨0, 0x3f800000⟩, ⟨1, 0x40000000⟩, ⟨2, 0⟩, ⟨3, 0xbf800000⟩, ⟨4, 0x40000000⟩]
    (∀ x ∈ xs, x.isNaN = false) ∧ (∀ x ∈ xs, x.bits ≠ 2 ^ 31) ∧
      anyGt Item.gt [⟨1, 0x40000000⟩, ⟨0, 0x3f800000⟩] [⟨2, 0⟩, ⟨3, 0xbf800000⟩] = false ∧
      topKItems 2 2 xs = some [⟨1, 0x40000000⟩, ⟨4, 0x40000000⟩] := by decide

/-- **Full statement is false (NaN).** `TopK::new(1)` on dense `[0.0, NaN]` keeps `0.0`
although `NaN` is the maximum of the total order. -/
theorem c31_topk_total_order_false_nan :
    ¬ ∀ (lanes : Nat) (_ : 1 ≤ lanes) (k : Nat) (xs : List Item),
      ∃ out, topKItems lanes k xs = some out ∧ TopKContract Item.key k xs out := by
  intro h
  obtain ⟨out, ho, _, _, excl, hp, hle⟩ := h 16 (by omega) 1 [⟨0, 0⟩, ⟨1, 0x7fc00000⟩]
  have hout : out = [⟨0, 0⟩] := by
    have : topKItems 16 1 [⟨0, 0⟩, ⟨1, 0x7fc00000⟩] = some [⟨0, 0⟩] := by decide
    rw [this] at ho; exact (Option.some.inj ho).symm
  subst hout
  have hmem : (⟨1, 0x7fc00000⟩ : Item) ∈ [(⟨0, 0⟩ : Item)] ++ excl :=
    hp.mem_iff.mpr (by simp)
  rcases List.mem_append.mp hmem with hm | hm
  · revert hm; decide
  · have := hle _ hm ⟨0, 0⟩ (by simp)
    revert this; decide

/-- **Full statement is false (signed zeros).** `TopK::new(1)` on dense `[-0.0, +0.0]` keeps
`-0.0` although `+0.0 > -0.0` in the total order (benign: they are numerically equal). -/
theorem c31_topk_total_order_false_zero :
    ¬ ∀ (lanes : Nat) (_ : 1 ≤ lanes) (k : Nat) (xs : List Item), (∀ x ∈ xs, x.isNaN = false) →
      ∃ out, topKItems lanes k xs = some out ∧ TopKContract Item.key k xs out := by
  intro h
  obtain ⟨out, ho, _, _, excl, hp, hle⟩ :=
    h 16 (by omega) 1 [⟨0, 0x80000000⟩, ⟨1, 0⟩] (by decide)
  have hout : out = [⟨0, 0x80000000⟩] := by
    have : topKItems 16 1 [⟨0, 0x80000000⟩, ⟨1, 0⟩] = some [⟨0, 0x80000000⟩] := by decide
    rw [this] at ho; exact (Option.some.inj ho).symm
  subst hout
  have hmem : (⟨1, 0⟩ : Item) ∈ [(⟨0, 0x80000000⟩ : Item)] ++ excl := hp.mem_iff.mpr (by simp)
  rcases List.mem_append.mp hmem with hm | hm
  · revert hm; decide
  · have := hle _ hm ⟨0, 0x80000000⟩ (by simp)
    revert this; decide

/-- **Exact NaN behaviour (1).** NaNs after the first `k` candidates are ignored: the result is
the result on the input with those NaNs deleted. -/
theorem c31_topk_late_nan_ignored (lanes : Nat) (hl : 1 ≤ lanes) (k : Nat) (xs : List Item) :
    topKItems lanes k xs =
      topKItems lanes k (xs.take k ++ (xs.drop k).filter (fun x => !x.isNaN)) := by
  rw [c31_topk_simd_eq_scalar lanes hl, c31_topk_simd_eq_scalar lanes hl]
  exact congrArg some
    (topKSeq_late_nan Item.key Item.gt Item.isNaN (fun a b h => fgt_nan_left h) k xs)

/-- **Exact NaN behaviour (2).** If the smallest (in total order) of the first `k` candidates is
a NaN — a negative NaN among them, or only positive NaNs — nothing is ever admitted. -/
theorem c31_topk_nan_kth_frozen (lanes : Nat) (hl : 1 ≤ lanes) (k : Nat) (xs : List Item)
    (kth : Item) (hk : (sortDesc Item.key (xs.take k)).getLast? = some kth)
    (hnan : kth.isNaN = true) :
    topKItems lanes k xs = some (sortDesc Item.key (xs.take k)) := by
  rw [c31_topk_simd_eq_scalar lanes hl]
  exact congrArg some
    (topKSeq_frozen Item.key Item.gt Item.isNaN (fun a b h => fgt_nan_right h) k xs kth hk hnan)

/-- The observed case: `TopK::new(2)` on 20 logits `[0,1,2,NaN,0,…,0]` returns `[2.0, 1.0]`;
and a negative NaN in front freezes the result. -/
example :
    topKItems 16 2 ([⟨0, 0⟩, ⟨1, 0x3f800000⟩, ⟨2, 0x40000000⟩, ⟨3, 0x7fc00000⟩] ++
        (List.range 16).map (fun i => ⟨i + 4, 0⟩))
      = some [⟨2, 0x40000000⟩, ⟨1, 0x3f800000⟩] ∧
    topKItems 16 1 [⟨0, 0xffc00000⟩, ⟨1, 0x3f800000⟩] = some [⟨0, 0xffc00000⟩] := by decide

/-! ## T2 — TopP

Scores and the running sum live in `Ext` (exact finite value, `+inf`, `-inf`, NaN) with the
IEEE rules for `+` and `<`; the threshold is `max(p, MIN_POSITIVE)` for *every* bit pattern
`p` (`topPThr`, `none` = `+inf`).  Nothing is defaulted: ±inf / NaN scores are answered by
the model and compared with the implementation. -/

/-- `TopP::new(p).normalize(false).filter(xs)` as modelled. -/
abbrev topPItems (pbits : Nat) (xs : List Item) : List Item :=
  topP Item.key Item.val (pbits == oneBits) (topPThr pbits) xs

/-- `0 < threshold` in f32 terms: the initial `cum = 0.0` is below the threshold for every `p`
(this is what the clamp to `MIN_POSITIVE` is for). -/
theorem topPThr_pos (pbits : Nat) : (Ext.fin 0).lt (topPThr pbits) = true := by
  unfold topPThr minPositive
  split
  · simp [Ext.lt]
  · split
    · simp only [Ext.lt]; apply decide_eq_true; omega
    · split <;> simp [Ext.lt]

/-- **C31.T2a** TopP never returns an empty set for non-empty input — any `p` (including NaN,
negative, `> 1`, infinite) and any scores (including ±inf, NaN). -/
theorem c31_topp_nonempty (pbits : Nat) (xs : List Item) (h : xs ≠ []) : topPItems pbits xs ≠ [] := by
  unfold topPItems topP
  split
  · exact h
  · apply takeUntil_ne_nil _ _ _ _ (topPThr_pos pbits)
    intro hs
    have := congrArg List.length hs
    rw [sortDesc_length] at this
    exact h (List.eq_nil_of_length_eq_zero (by simpa using this))

/-- **C31.T2b (all inputs)** For `p ≠ 1.0` the result is a prefix of the input sorted descending
(stable) by total order; it is the *shortest* prefix at which the f32 test
`cum_prob < threshold` fails: the test holds for the sum of every strictly shorter prefix, and
fails for the kept prefix unless everything is kept.  (`¬ cum < thr` means `cum ≥ thr`, or
`cum` is NaN — a NaN score stops the loop without the threshold being reached; see the
examples below.) -/
theorem c31_topp_contract (pbits : Nat) (hp : pbits ≠ oneBits) (xs : List Item) :
    topPItems pbits xs <+: sortDesc Item.key xs ∧
    ((topPItems pbits xs).length < xs.length →
        (sumE Item.val (.fin 0) (topPItems pbits xs)).lt (topPThr pbits) = false) ∧
    ∀ m, m < (topPItems pbits xs).length →
        (sumE Item.val (.fin 0) ((sortDesc Item.key xs).take m)).lt (topPThr pbits) = true := by
  have h1 : (pbits == oneBits) = false := by simpa using hp
  unfold topPItems topP
  simp only [h1, Bool.false_eq_true, if_false]
  refine ⟨takeUntil_prefix _ _ _ _, ?_, ?_⟩
  · intro h
    exact takeUntil_reaches Item.val (topPThr pbits) (.fin 0) (sortDesc Item.key xs)
      (by rw [sortDesc_length]; exact h)
  · intro m hm
    exact takeUntil_minimal Item.val (topPThr pbits) (.fin 0) (sortDesc Item.key xs) m hm

/-- Exact value × 2^149 of a finite score (only used under `Finite` hypotheses). -/
def Item.ival (a : Item) : Int := (scaled a.bits).getD 0

/-- All scores finite (what `scaled` answers for). -/
abbrev AllFinite (xs : List Item) : Prop := ∀ x ∈ xs, (scaled x.bits).isSome = true

theorem val_of_finite (x : Item) (h : (scaled x.bits).isSome = true) :
    x.val = .fin x.ival := by
  obtain ⟨v, hv⟩ := Option.isSome_iff_exists.mp h
  simp [Item.val, Item.ival, extOf, hv]

/-- **C31.T2b (finite probabilities, exact sums)** For a finite `p ≠ 1.0` and finite scores —
the hypotheses name exactly the inputs on which the cumulative sum is the exact integer sum —
the result is the shortest prefix of the descending-sorted input whose exact sum reaches
`max(p, MIN_POSITIVE)`: a proper prefix reaches the threshold and every strictly shorter
prefix is below it. -/
theorem c31_topp_minimal (pbits : Nat) (hp : pbits ≠ oneBits) (xs : List Item)
    (t : Int) (hpf : scaled pbits = some t) (hfin : AllFinite xs) :
    topPItems pbits xs <+: sortDesc Item.key xs ∧
    ((topPItems pbits xs).length < xs.length →
        max t minPositive ≤ ((topPItems pbits xs).map Item.ival).sum) ∧
    ∀ m, m < (topPItems pbits xs).length →
        (((sortDesc Item.key xs).take m).map Item.ival).sum < max t minPositive := by
  obtain ⟨hpre, hreach, hmin⟩ := c31_topp_contract pbits hp xs
  have hnn : isNaN pbits = false := by
    cases hn : isNaN pbits with
    | false => rfl
    | true =>
      exfalso
      unfold isNaN at hn
      simp only [decide_eq_true_eq] at hn
      have he : mag pbits / 2 ^ 23 = 255 := by unfold mag at hn ⊢; omega
      simp [scaled, he] at hpf
  have hthr : topPThr pbits = some (max t minPositive) := by simp [topPThr, hnn, hpf]
  have hsorted : ∀ x ∈ sortDesc Item.key xs, x.val = .fin x.ival := fun x hx =>
    val_of_finite x (hfin x ((mem_sortDesc Item.key).mp hx))
  refine ⟨hpre, ?_, ?_⟩
  · intro h
    have h2 := hreach h
    have hsub : ∀ x ∈ topPItems pbits xs, x.val = .fin x.ival := fun x hx =>
      hsorted x (hpre.subset hx)
    rw [sumE_fin Item.val Item.ival _ hsub 0, hthr] at h2
    simp only [Ext.lt, decide_eq_false_iff_not] at h2
    omega
  · intro m hm
    have h2 := hmin m hm
    have hsub : ∀ x ∈ (sortDesc Item.key xs).take m, x.val = .fin x.ival := fun x hx =>
      hsorted x (List.mem_of_mem_take hx)
    rw [sumE_fin Item.val Item.ival _ hsub 0, hthr] at h2
    simp only [Ext.lt, decide_eq_true_eq] at h2
    omega

/-- For `p = 1.0` the input is returned unchanged (not even sorted). -/
theorem c31_topp_p1_identity (xs : List Item) : topPItems oneBits xs = xs := by
  unfold topPItems topP; simp

/-- **Minimality is false for `p = 1.0`.** Finite probabilities `[1/2, 1/2, 0]`: all three
candidates are kept although the first two already reach 1.0 (so `c31_topp_minimal` cannot
drop its hypothesis `p ≠ 1.0`). -/
theorem c31_topp_p1_not_minimal :
    ¬ ∀ (pbits : Nat) (xs : List Item) (t : Int), scaled pbits = some t → AllFinite xs →
        ∀ m, m < (topPItems pbits xs).length →
          (((sortDesc Item.key xs).take m).map Item.ival).sum < max t minPositive := by
  intro h
  have := h oneBits [⟨0, 0x3f000000⟩, ⟨1, 0x3f000000⟩, ⟨2, 0⟩] (2 ^ 149) (by decide) (by decide)
    2 (by decide)
  revert this; decide

/-- Non-vacuity / boundary: probabilities `[1/4, 1/2, 1/4]` are finite; `p = 0.5` keeps `[1/2]`
(the loop stops as soon as the sum is `≥ p`), `p = 0.75` keeps two (first of the tied
candidates), `p = 0` keeps one (threshold clamped to `MIN_POSITIVE`). -/
example :
    let xs : List Item := [⟨0, 0x3e800000⟩, ⟨1, 0x3f000000⟩, ⟨2, 0x3e800000⟩]
    AllFinite xs ∧ scaled 0x3f000000 = some (2 ^ 148) ∧
    topPItems 0x3f000000 xs = [⟨1, 0x3f000000⟩] ∧
    topPItems 0x3f400000 xs = [⟨1, 0x3f000000⟩, ⟨0, 0x3e800000⟩] ∧
    topPItems 0 xs = [⟨1, 0x3f000000⟩] := by decide

/-- Non-finite scores are modelled, not defaulted (audit witness): on `[+inf, 1.0]` with
`p = 0.5` the loop stops after `+inf`; a positive NaN sorts first and stops the loop at once
(`NaN < thr` is false) although nothing was "reached"; `-inf` sorts last and never stops it;
`+inf` followed by `-inf` is never reached because the loop has already stopped. -/
example :
    topPItems 0x3f000000 [⟨0, 0x7f800000⟩, ⟨1, 0x3f800000⟩] = [⟨0, 0x7f800000⟩] ∧
    topPItems 0x3f000000 [⟨0, 0x3e800000⟩, ⟨1, 0x7fc00000⟩, ⟨2, 0x3f000000⟩] = [⟨1, 0x7fc00000⟩] ∧
    topPItems 0x3f000000 [⟨0, 0x3e000000⟩, ⟨1, 0xff800000⟩, ⟨2, 0x3e000000⟩]
      = [⟨0, 0x3e000000⟩, ⟨2, 0x3e000000⟩, ⟨1, 0xff800000⟩] ∧
    topPItems 0x7fc00000 [⟨0, 0x3e800000⟩, ⟨1, 0x3f000000⟩] = [⟨1, 0x3f000000⟩] ∧
    topPItems 0x7f800000 [⟨0, 0x3e800000⟩, ⟨1, 0x3f000000⟩] = [⟨1, 0x3f000000⟩, ⟨0, 0x3e800000⟩] := by
  decide

/-! ## T3 — Chain

`mul` is the f32 multiplication used by `Temperature` (abstract: the statements hold whatever
it rounds to); `mulDriver` is the exact instance the driver evaluates inside `inDomain`. -/

/-- Lemma (generic `foldlM` law, `chainSpec` is defined as that fold): unfolding of `Chain`. -/
theorem c31_chain_is_fold (mul : Nat → Nat → Nat) (clamp : Bool) (lanes : Nat) (fs : List Spec)
    (xs : List Item) :
    chainSpec mul clamp lanes fs xs = fs.foldlM (fun acc f => applySpec mul clamp lanes f acc) xs := by
  unfold chainSpec chain
  rw [List.foldlM_map]

/-- Lemma (generic `foldlM` law). -/
theorem c31_chain_append (mul : Nat → Nat → Nat) (clamp : Bool) (lanes : Nat) (fs gs : List Spec)
    (xs : List Item) :
    chainSpec mul clamp lanes (fs ++ gs) xs =
      (chainSpec mul clamp lanes fs xs).bind (chainSpec mul clamp lanes gs) := by
  unfold chainSpec
  rw [List.map_append, chain_append]

/-- Lemma (generic `foldlM` law). -/
theorem c31_chain_single (mul : Nat → Nat → Nat) (clamp : Bool) (lanes : Nat) (f : Spec)
    (xs : List Item) : chainSpec mul clamp lanes [f] xs = applySpec mul clamp lanes f xs := by
  unfold chainSpec
  rw [List.map_cons, List.map_nil, chain_cons]
  cases applySpec mul clamp lanes f xs <;> rfl

/-- A filter description that can be constructed without tripping `Temperature::new`'s
`assert!(temperature >= 0.)`. -/
def Spec.valid : Spec → Bool
  | .temp t => tempValid t
  | _ => true

/-- **Error path: the `Temperature::new` assertion.** A temperature filter panics iff its
temperature is NaN or negative — independently of the logits; no other filter description
can panic at all (current code). -/
theorem c31_filter_panics_iff (mul : Nat → Nat → Nat) (lanes : Nat) (hl : 1 ≤ lanes) (f : Spec)
    (xs : List Item) : applySpec mul true lanes f xs = none ↔ f.valid = false := by
  cases f with
  | topK k =>
    have := c31_topk_no_panic lanes hl k xs
    simp only [applySpec, Spec.valid]
    constructor
    · intro h; rw [show topKItems lanes k xs = none from h] at this; cases this
    · intro h; cases h
  | temp t =>
    simp only [applySpec, Spec.valid]
    cases tempValid t <;> simp
    split <;> simp
  | _ => simp [applySpec, Spec.valid]

/-- **C31.T4** No constructible filter of the current code panics, for any input. -/
theorem c31_filter_no_panic (mul : Nat → Nat → Nat) (lanes : Nat) (hl : 1 ≤ lanes) (f : Spec)
    (hv : f.valid = true) (xs : List Item) : (applySpec mul true lanes f xs).isSome := by
  cases h : applySpec mul true lanes f xs with
  | some _ => rfl
  | none => rw [(c31_filter_panics_iff mul lanes hl f xs).mp h] at hv; cases hv

/-- Negative and NaN temperatures panic, `-0.0` and `+inf` do not (spot checks of `tempValid`
against `assert!(temperature >= 0.)`). -/
example : tempValid 0xbf800000 = false ∧ tempValid 0x7fc00000 = false ∧ tempValid 0xff800000 = false ∧
    tempValid 0x80000000 = true ∧ tempValid 0x7f800000 = true ∧ tempValid 0 = true := by decide

/-- What a filter returns (total function on valid descriptions; `c31_filter_no_panic`). -/
def applyTotal (mul : Nat → Nat → Nat) (lanes : Nat) (f : Spec) (xs : List Item) : List Item :=
  (applySpec mul true lanes f xs).getD xs

/-- **C31.T3/T4** With the current code a chain of constructible filters never panics and
equals the plain left fold of its filters' functions: `Chain [f₁,…,fₙ] = fₙ ∘ … ∘ f₁`
(for every f32 multiplication `mul`). -/
theorem c31_chain_eq_foldl (mul : Nat → Nat → Nat) (lanes : Nat) (hl : 1 ≤ lanes) (fs : List Spec)
    (hv : ∀ f ∈ fs, f.valid = true) (xs : List Item) :
    chainSpec mul true lanes fs xs =
      some (fs.foldl (fun acc f => applyTotal mul lanes f acc) xs) := by
  rw [c31_chain_is_fold]
  induction fs generalizing xs with
  | nil => rfl
  | cons f fs ih =>
    rw [List.foldlM_cons, List.foldl_cons]
    have h := c31_filter_no_panic mul lanes hl f (hv f (List.mem_cons_self)) xs
    obtain ⟨ys, hys⟩ := Option.isSome_iff_exists.mp h
    have : applyTotal mul lanes f xs = ys := by simp [applyTotal, hys]
    rw [this, hys]
    exact ih (fun g hg => hv g (List.mem_cons_of_mem _ hg)) ys

/-- A chain containing an unconstructible temperature filter panics (whatever else it holds). -/
theorem c31_chain_invalid_panics (mul : Nat → Nat → Nat) (lanes : Nat) (hl : 1 ≤ lanes)
    (fs gs : List Spec) (f : Spec) (hf : f.valid = false) (hv : ∀ g ∈ fs, g.valid = true)
    (xs : List Item) : chainSpec mul true lanes (fs ++ f :: gs) xs = none := by
  rw [c31_chain_append, c31_chain_eq_foldl mul lanes hl fs hv xs]
  simp only [Option.bind]
  unfold chainSpec
  rw [List.map_cons, chain_cons, (c31_filter_panics_iff mul lanes hl f _).mpr hf]
  rfl

/-- The step-by-step evaluator of the driver computes `chainSpec` (at the driver's exact
multiplication) whenever it answers. -/
theorem c31_runChain_eq (clamp : Bool) (lanes : Nat) (fs : List Spec) (xs : List Item)
    (r : Option (List Item)) (h : runChain clamp lanes fs xs = some r) :
    r = chainSpec mulDriver clamp lanes fs xs := by
  induction fs generalizing xs with
  | nil => simp [runChain] at h; subst h; rfl
  | cons f fs ih =>
    unfold runChain at h
    unfold chainSpec
    rw [List.map_cons, chain_cons]
    split at h
    · cases hf : applySpec mulDriver clamp lanes f xs with
      | none => simp [hf] at h; subst h; rfl
      | some ys => simp only [hf] at h; exact ih ys h
    · cases h

/-- Before the fix a chain could panic: top-P keeps one candidate, then `TopK::new(2)`. -/
example : chainSpec mulDriver false 16 [.topP 0x3f000000, .topK 2]
      [⟨0, 0x3e800000⟩, ⟨1, 0x3f000000⟩, ⟨2, 0x3e800000⟩] = none ∧
    chainSpec mulDriver true 16 [.topP 0x3f000000, .topK 2]
      [⟨0, 0x3e800000⟩, ⟨1, 0x3f000000⟩, ⟨2, 0x3e800000⟩] = some [⟨1, 0x3f000000⟩] := by decide

/-- Temperature 2.0 halves exactly; temperature −1.0 panics. -/
example : chainSpec mulDriver true 16 [.temp 0x40000000] [⟨0, 0x3f800000⟩, ⟨1, 0xc0000000⟩]
      = some [⟨0, 0x3f000000⟩, ⟨1, 0xbf800000⟩] ∧
    chainSpec mulDriver true 16 [.sort, .temp 0xbf800000] [⟨0, 0x3f800000⟩] = none := by decide

end RtenVerif.Filter
