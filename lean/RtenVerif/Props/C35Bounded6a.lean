import RtenVerif.Props.C35Bounded6Defs

/-! C35.S3 bounded scope, chunk `a`: smallest code in `0..0`, second smallest in `0..0`
(kernel evaluation; bounded statement). -/
namespace RtenVerif.Poly

theorem c35_chunk6_a : chunkOk 0 0 0 0 = true := by decide +kernel

end RtenVerif.Poly
