import RtenVerif.Lemmas.PlannerFuel
import RtenVerif.Lemmas.PlannerSort
import RtenVerif.Lemmas.PlannerErr
import RtenVerif.Lemmas.PlannerComplete

/-!
# C03 — Execution plans are valid, complete and minimal

Property theorems over `RtenVerif.Model.Planner` (model of `src/graph/planner.rs`,
`Graph::execution_plan`) and the graph IR `RtenVerif.Model.Graph`.

*For any graph and any set of distinct input and output nodes, planning either reports
an error (cycle, missing input, duplicate or non-value node) or returns an operator
sequence in which every operator appears once, runs only after all values it depends on
(including subgraph captures) are available, every requested output is produced, and
every operator is needed by some requested output.  Planning always terminates.*

All theorems hold for **every** graph of the IR: cyclic ones, operators with repeated /
omitted inputs, several outputs, captures, values with more than one producer, values
that are both supplied and produced, ids that are not in the graph.

* `c03_terminates`      (T1)  neither recursion/loop budget is ever exhausted.
* `c03_error_classes`   (T2a) which errors can come out, and the exact argument check.
* `c03_dfs_error_witness` (T2b) every traversal error has a real cause in the graph.
* `c03_plan_ok`         (T3)  the returned plan is duplicate-free, dependency-closed,
                              complete and minimal (`PlanOK`).
* `c03_complete`        (T2c) on unique-producer graphs, if any `PlanOK` plan exists then
                              planning succeeds (converse of T2b).
* `c03_initial_frontier_nonempty`  the `debug_assert!(!frontier.is_empty())` of `sort_plan`
                              never fires.
* `c03_sort_perm`       (T4)  the returned plan is a permutation of the depth-first plan.
* `c03_sort_orig_*`           the same statements are *false* for `sort_plan` as it was
                              before commit "fix: planner: never schedule an operator
                              twice in sort_plan" (`dedup = false`): concrete witnesses.
-/
namespace RtenVerif.Planner
open RtenVerif.Graph

/-! ## T1 — termination -/

/-- The frontier loop of `sort_plan`, run on the plan produced by the depth-first phase
with budget `plan.length`, finishes. -/
theorem sort_terminates {g : Graph} {ins outs : List Nat} {opts : PlanOptions} {st : St}
    (hdfs : dfsPlan g ins outs opts = .ok st) (ham : opts.allowMissing = false) :
    ∃ out, sortPlanFuel g true st.plan.length st.plan
      (resolvedNew g ins opts.capturesAvailable) = some out := by
  obtain ⟨hinv, _⟩ := dfsPlan_spec hdfs
  rw [ham] at hinv
  obtain ⟨out, h, _⟩ := sortPlan_spec hinv
  exact ⟨out, h⟩

/-- **C03.T1** Planning always terminates: the model's recursion budgets
(`g.nodes.length` nested `visit` calls, `plan.length` iterations of the frontier loop)
are never exhausted — for every graph (cyclic or not), request and option set.  Hence the
fuelled model coincides with the unbounded recursion/loop of the code, which therefore
terminates with recursion depth ≤ number of nodes and ≤ `plan.length` loop iterations. -/
theorem c03_terminates (g : Graph) (ins outs : List Nat) (opts : PlanOptions) :
    createPlan g ins outs opts ≠ .error .outOfFuel := by
  unfold createPlan createPlanWith
  split
  · simp
  · split
    · simp
    · split
      · simp
      · split
        · simp
        · split
          · rename_i e hd
            intro h
            injection h with h
            subst h
            exact dfsPlan_ne_outOfFuel g ins outs opts hd
          · rename_i st hd
            split
            · simp
            · rename_i hcond
              have ham : opts.allowMissing = false := by
                cases h : opts.allowMissing with
                | false => rfl
                | true => simp [h] at hcond
              obtain ⟨out, hout⟩ := sort_terminates hd ham
              simp only [Option.getD_none, hout]
              simp

/-! ## T2 — errors -/

/-- The request is well-formed: distinct ids that are value or constant nodes. -/
def ArgsOK (g : Graph) (ins outs : List Nat) : Prop :=
  outs.Nodup ∧ (∀ o ∈ outs, isValueOrConstant g o = true) ∧
    ins.Nodup ∧ (∀ i ∈ ins, isValueOrConstant g i = true)

theorem firstDup_isSome_iff (xs : List Nat) : (firstDup xs).isSome = true ↔ ¬xs.Nodup := by
  rw [← firstDup_none_iff]
  cases firstDup xs <;> simp

theorem firstDup_isSome_false {xs : List Nat} (h : xs.Nodup) : (firstDup xs).isSome = false := by
  rw [(firstDup_none_iff xs).mpr h]; rfl

theorem all_false_of_not {g : Graph} {xs : List Nat}
    (h : ¬(∀ o ∈ xs, isValueOrConstant g o = true)) : xs.all (isValueOrConstant g) = false := by
  cases hc : xs.all (isValueOrConstant g) with
  | false => rfl
  | true => exact absurd (List.all_eq_true.mp hc) h

/-- On a well-formed request `create_plan` is the traversal followed by the sort. -/
theorem createPlan_of_argsOK {g : Graph} {ins outs : List Nat} (opts : PlanOptions)
    (h : ArgsOK g ins outs) :
    createPlan g ins outs opts =
      match dfsPlan g ins outs opts with
      | .error e => .error e
      | .ok st =>
        if opts.allowMissing || st.plan.isEmpty then .ok (st.plan.map (fun e => e.1))
        else
          match sortPlanFuel g true st.plan.length st.plan
              (resolvedNew g ins opts.capturesAvailable) with
          | some p => .ok p
          | none => .error .outOfFuel := by
  obtain ⟨h1, h2, h3, h4⟩ := h
  simp only [createPlan, createPlanWith, firstDup_isSome_false h1, firstDup_isSome_false h3,
    List.all_eq_true.mpr h2, List.all_eq_true.mpr h4, Bool.false_eq_true, if_false, Bool.not_true,
    Option.getD_none]
  cases dfsPlan g ins outs opts with
  | error e => rfl
  | ok st =>
    dsimp only
    split
    · rfl
    · cases sortPlanFuel g true st.plan.length st.plan
        (resolvedNew g ins opts.capturesAvailable) <;> rfl

/-- **C03.T2a** `create_plan` rejects exactly the malformed requests with an argument
error, checked in the order outputs-unique, outputs-kind, inputs-unique, inputs-kind. -/
theorem c03_argument_check (g : Graph) (ins outs : List Nat) (opts : PlanOptions) :
    (¬outs.Nodup → createPlan g ins outs opts = .error .dupOutput) ∧
    (outs.Nodup → ¬(∀ o ∈ outs, isValueOrConstant g o = true) →
        createPlan g ins outs opts = .error .badOutput) ∧
    (outs.Nodup → (∀ o ∈ outs, isValueOrConstant g o = true) → ¬ins.Nodup →
        createPlan g ins outs opts = .error .dupInput) ∧
    (outs.Nodup → (∀ o ∈ outs, isValueOrConstant g o = true) → ins.Nodup →
        ¬(∀ i ∈ ins, isValueOrConstant g i = true) →
        createPlan g ins outs opts = .error .badInput) := by
  refine ⟨?_, ?_, ?_, ?_⟩
  · intro h
    simp [createPlan, createPlanWith, (firstDup_isSome_iff outs).mpr h]
  · intro h1 h2
    simp [createPlan, createPlanWith, firstDup_isSome_false h1, all_false_of_not h2]
  · intro h1 h2 h3
    simp [createPlan, createPlanWith, firstDup_isSome_false h1, List.all_eq_true.mpr h2,
      (firstDup_isSome_iff ins).mpr h3]
  · intro h1 h2 h3 h4
    simp [createPlan, createPlanWith, firstDup_isSome_false h1, List.all_eq_true.mpr h2,
      firstDup_isSome_false h3, all_false_of_not h4]

/-- **C03.T2b** On a well-formed request every error has a genuine cause in the graph
(`ErrCause`): `cycle` — a needed operator lies on a dependency cycle through values that
were not supplied; `missingInput` — a needed operator depends on a value that is neither
available nor produced by any operator; `noSource` — the same for a requested output.
No other error is possible. -/
theorem c03_error_cause {g : Graph} {ins outs : List Nat} {opts : PlanOptions} {e : PlanError}
    (hargs : ArgsOK g ins outs) (h : createPlan g ins outs opts = .error e) :
    ErrCause g opts (resolvedNew g ins opts.capturesAvailable) outs e := by
  have hne := c03_terminates g ins outs opts
  rw [createPlan_of_argsOK opts hargs] at h hne
  cases hd : dfsPlan g ins outs opts with
  | error e' =>
    simp only [hd] at h hne
    injection h with h; subst h
    rcases dfsPlan_err hd with h' | h'
    · subst h'; exact absurd rfl hne
    · exact h'
  | ok st =>
    simp only [hd] at h hne
    split at h
    · cases h
    · split at h
      · cases h
      · injection h with h; subst h
        rename_i hcond _ hs
        simp only [hcond, hs] at hne
        exact absurd rfl hne

/-- Non-vacuity of `ArgsOK`/`ErrCause`: a two-operator cycle. -/
example : createPlan
    { nodes := [.value, .value, .operator { inputs := [some 1], outputs := [some 0] },
        .operator { inputs := [some 0], outputs := [some 1] }] } [] [0] {} = .error .cycle := by
  decide

/-! ## T3 — the returned plan is valid, complete and minimal -/

theorem mem_availAfter_perm {g : Graph} {r0 a b : List Nat} (hp : a.Perm b) :
    ∀ v, v ∈ availAfter g r0 a → v ∈ availAfter g r0 b := by
  intro v hv
  simp only [availAfter, List.mem_append, List.mem_flatMap] at hv ⊢
  rcases hv with hv | ⟨i, hi, hv⟩
  · exact Or.inl hv
  · exact Or.inr ⟨i, hp.subset hi, hv⟩

/-- The depth-first plan satisfies `PlanOK` (this is what `create_plan` returns with
`allow_missing_inputs`, or when the plan is empty). -/
theorem dfs_plan_ok {g : Graph} {ins outs : List Nat} {opts : PlanOptions} {st : St}
    (hd : dfsPlan g ins outs opts = .ok st) :
    PlanOK g opts.allowMissing (resolvedNew g ins opts.capturesAvailable) outs
      (st.plan.map (fun e => e.1)) := by
  obtain ⟨hinv, hav⟩ := dfsPlan_spec hd
  refine ⟨hinv.nodup, validIds_of_validFrom hinv.valid hinv.ops, ?_, ?_⟩
  · intro o ho
    have := hav o ho
    rw [hinv.res] at this
    simpa [availAfter, flatMap_outsOf_map hinv.ops] using this
  · intro i hi
    obtain ⟨e, he, rfl⟩ := List.mem_map.mp hi
    exact hinv.needed e he

/-- **C03.T4** The plan `create_plan` returns is a permutation of the plan found by the
depth-first traversal (identical to it with `allow_missing_inputs` or when empty). -/
theorem c03_sort_perm {g : Graph} {ins outs plan : List Nat} {opts : PlanOptions}
    (hargs : ArgsOK g ins outs) (h : createPlan g ins outs opts = .ok plan) :
    ∃ st, dfsPlan g ins outs opts = .ok st ∧ plan.Perm (st.plan.map (fun e => e.1)) ∧
      (opts.allowMissing = true → plan = st.plan.map (fun e => e.1)) := by
  rw [createPlan_of_argsOK opts hargs] at h
  cases hd : dfsPlan g ins outs opts with
  | error e' => simp [hd] at h
  | ok st =>
    simp only [hd] at h
    refine ⟨st, rfl, ?_⟩
    split at h
    · injection h with h; subst h
      exact ⟨List.Perm.refl _, fun _ => rfl⟩
    · rename_i hcond
      have ham : opts.allowMissing = false := by
        cases h' : opts.allowMissing with
        | false => rfl
        | true => simp [h'] at hcond
      obtain ⟨hinv, _⟩ := dfsPlan_spec hd
      rw [ham] at hinv
      obtain ⟨out, hout, hperm, _⟩ := sortPlan_spec hinv
      simp only [hout] at h
      injection h with h; subst h
      exact ⟨hperm, fun h' => by rw [ham] at h'; cases h'⟩

/-- **C03.T3** Whenever planning succeeds on a well-formed request, the returned
sequence (a) lists every operator once, (b) runs each operator only after all of its
dependencies — inputs and subgraph captures — are available from the supplied inputs,
constants, graph captures (if `captures_available`) and outputs of earlier entries,
(c) makes every requested output available, and (d) contains only operators needed by a
requested output.  With `allow_missing_inputs`, "available" also accepts values that no
operator produces. -/
theorem c03_plan_ok {g : Graph} {ins outs plan : List Nat} {opts : PlanOptions}
    (hargs : ArgsOK g ins outs) (h : createPlan g ins outs opts = .ok plan) :
    PlanOK g opts.allowMissing (resolvedNew g ins opts.capturesAvailable) outs plan := by
  rw [createPlan_of_argsOK opts hargs] at h
  cases hd : dfsPlan g ins outs opts with
  | error e' => simp [hd] at h
  | ok st =>
    simp only [hd] at h
    have hdfs := dfs_plan_ok hd
    split at h
    · injection h with h; subst h
      exact hdfs
    · rename_i hcond
      have ham : opts.allowMissing = false := by
        cases h' : opts.allowMissing with
        | false => rfl
        | true => simp [h'] at hcond
      obtain ⟨hinv, _⟩ := dfsPlan_spec hd
      rw [ham] at hinv hdfs ⊢
      obtain ⟨out, hout, hperm, hvalid⟩ := sortPlan_spec hinv
      simp only [hout] at h
      injection h with h; subst h
      refine ⟨hperm.nodup_iff.mpr hdfs.nodup, hvalid, ?_, ?_⟩
      · intro o ho
        exact (hdfs.outputs o ho).mono (mem_availAfter_perm hperm.symm)
      · intro i hi
        exact hdfs.minimal i (hperm.subset hi)

/-! ## T2c — completeness: errors only when no valid plan exists -/

/-- **C03.T2c (`PlannerComplete`)** Converse of T2b on graphs where every value has at
most one producer: if *any* `PlanOK` plan `Q` exists for a well-formed request — i.e. the
request is satisfiable without a dependency cycle through unsupplied values and without a
needed value that nobody produces — then `create_plan` does not report an error: it returns
a plan, which is itself `PlanOK`.  Together with `c03_error_cause`: on unique-producer
graphs planning fails **iff** no valid, complete plan exists. -/
theorem c03_complete {g : Graph} {ins outs Q : List Nat} {opts : PlanOptions}
    (hu : UniqueProducer g) (hargs : ArgsOK g ins outs)
    (hQ : PlanOK g opts.allowMissing (resolvedNew g ins opts.capturesAvailable) outs Q) :
    ∃ plan, createPlan g ins outs opts = .ok plan ∧
      PlanOK g opts.allowMissing (resolvedNew g ins opts.capturesAvailable) outs plan := by
  cases h : createPlan g ins outs opts with
  | ok plan => exact ⟨plan, rfl, c03_plan_ok hargs h⟩
  | error e => exact absurd (c03_error_cause hargs h) (no_errCause_of_planOK hu hQ)

/-- On unique-producer graphs: planning fails iff no `PlanOK` plan exists. -/
theorem c03_error_iff_unsat {g : Graph} {ins outs : List Nat} {opts : PlanOptions}
    (hu : UniqueProducer g) (hargs : ArgsOK g ins outs) :
    (∃ e, createPlan g ins outs opts = .error e) ↔
      ¬∃ Q, PlanOK g opts.allowMissing (resolvedNew g ins opts.capturesAvailable) outs Q := by
  constructor
  · rintro ⟨e, he⟩ ⟨Q, hQ⟩
    obtain ⟨plan, hp, _⟩ := c03_complete (opts := opts) hu hargs hQ
    rw [he] at hp; cases hp
  · intro hno
    cases h : createPlan g ins outs opts with
    | ok plan => exact absurd ⟨plan, c03_plan_ok hargs h⟩ hno
    | error e => exact ⟨e, rfl⟩

/-- Why the hypothesis is about registered sources: with two producers of value 0
(operators 2 and 3; the later one, 3, is the registered source and depends on its own
output) the sequence `[2]` is dependency-closed and produces the requested output, yet the
traversal only follows registered sources and reports a cycle.  (`[2]` is not `PlanOK`:
`Needed` also follows registered sources, so it fails minimality.) -/
def twoProducers : Graph :=
  { nodes := [.value, .value,
      .operator { inputs := [some 1], outputs := [some 0] },
      .operator { inputs := [some 0], outputs := [some 0] }] }

theorem c03_complete_needs_uniqueProducer :
    createPlan twoProducers [1] [0] {} = .error .cycle ∧
      ValidIds twoProducers false [1] [2] ∧ 0 ∈ availAfter twoProducers [1] [2] := by
  refine ⟨by decide, ⟨⟨_, rfl, ?_⟩, trivial⟩, by decide⟩
  intro d hd
  have : d = 1 := by
    have h : opDeps twoProducers { inputs := [some 1], outputs := [some 0] } = [1] := by decide
    rw [h] at hd; simpa using hd
  subst this
  exact Or.inl (by decide)

/-- Non-vacuity of T3/T4: a diamond with an in-place-capable branch; the sort moves the
non-in-place operator 6 in front of the in-place-capable operator 5. -/
def diamond : Graph :=
  { nodes := [.value, .value, .value, .value,
      .operator { inputs := [some 0], outputs := [some 1] },
      .operator { inputs := [some 1], outputs := [some 2], inPlace := true },
      .operator { inputs := [some 1], outputs := [some 3] },
      .value,
      .operator { inputs := [some 2, some 3], outputs := [some 7] }] }

example : createPlan diamond [0] [7] {} = .ok [4, 6, 5, 8] := by decide
example : (dfsPlan diamond [0] [7] {}).toOption.map (fun st => st.plan.map (fun e => e.1)) =
    some [4, 5, 6, 8] := by decide
example : ArgsOK diamond [0] [7] := by
  refine ⟨by decide, by decide, by decide, by decide⟩

/-! ## The pre-fix `sort_plan` (`dedup = false`) violates T3/T4/T1 -/

/-- Witness D: value 0 is supplied *and* produced by the planned two-output operator 4. -/
def witnessDup : Graph :=
  { nodes := [.value, .value, .value,
      .operator { inputs := [some 0], outputs := [some 1] },
      .operator { inputs := [], outputs := [some 0, some 2] }] }

/-- Before the fix, `sort_plan` scheduled operator 3 twice (reproduced on the real code:
`execution_plan` returned `[3, 4, 3]`), so "every operator appears once" / "permutation of
the depth-first plan" were false. -/
theorem c03_sort_orig_duplicates :
    createPlanWith witnessDup false (some 100) [0] [1, 2] {} = .ok [3, 4, 3] := by decide

/-- The same request with the code as it stands. -/
theorem c03_sort_fixed_witnessDup : createPlan witnessDup [0] [1, 2] {} = .ok [3, 4] := by decide

/-- Witness C: operators 3 and 4 form a cycle that the supplied value 0 cuts. -/
def witnessCyc : Graph :=
  { nodes := [.value, .value, .value,
      .operator { inputs := [some 2], outputs := [some 0, some 1] },
      .operator { inputs := [some 0], outputs := [some 2] }] }

/-- Before the fix the frontier loop re-scheduled operators 4 and 3 alternately: after 64
iterations (for a two-operator plan) it is still running.  On the real code the call never
returned and its plan vector grew without bound ("planning always terminates" was false). -/
theorem c03_sort_orig_diverges :
    createPlanWith witnessCyc false (some 64) [0] [1] {} = .error .outOfFuel := by decide

/-! The divergence is genuine, not an artefact of the budget 64: -/

def opX : OpNode := { inputs := [some 2], outputs := [some 0, some 1] }
def opR : OpNode := { inputs := [some 0], outputs := [some 2] }
def planCyc : List (Nat × OpNode) := [(4, opR), (3, opX)]

theorem cyc_loop : ∀ (fuel : Nat) (r em : List Nat), 0 ∈ r →
    sortLoop witnessCyc false planCyc fuel [(4, opR)] r em = none ∧
    (2 ∈ r → sortLoop witnessCyc false planCyc fuel [(3, opX)] r em = none) := by
  intro fuel
  induction fuel with
  | zero => intro r em _; exact ⟨rfl, fun _ => rfl⟩
  | succ f ih =>
    intro r em h0
    constructor
    · have hrem : removeAt [(4, opR)] (pickPos [(4, opR)]) = some ((4, opR), []) := by decide
      have hc : (opOutputs opR).flatMap (dependents witnessCyc planCyc) = [(3, opX)] := by decide
      have hready : depsResolved witnessCyc (r ++ opOutputs opR) opX = true := by
        rw [depsResolved_iff]
        intro d hd
        have : d = 2 := by
          have hdeps : opDeps witnessCyc opX = [2] := by decide
          rw [hdeps] at hd; simpa using hd
        subst this
        exact rContains_of_mem (List.mem_append_right _ (by decide))
      simp only [sortLoop, hrem, hc, pushCandidates, List.any_nil, Bool.false_and, hready]
      exact (ih _ _ (List.mem_append_left _ h0)).2 (List.mem_append_right _ (by decide))
    · intro h2
      have hrem : removeAt [(3, opX)] (pickPos [(3, opX)]) = some ((3, opX), []) := by decide
      have hc : (opOutputs opX).flatMap (dependents witnessCyc planCyc) = [(4, opR)] := by decide
      have hready : depsResolved witnessCyc (r ++ opOutputs opX) opR = true := by
        rw [depsResolved_iff]
        intro d hd
        have : d = 0 := by
          have hdeps : opDeps witnessCyc opR = [0] := by decide
          rw [hdeps] at hd; simpa using hd
        subst this
        exact rContains_of_mem (List.mem_append_left _ h0)
      simp only [sortLoop, hrem, hc, pushCandidates, List.any_nil, Bool.false_and, hready]
      exact (ih _ _ (List.mem_append_left _ h0)).1

/-- Before the fix the frontier loop on witness C never ends: **no** budget is enough
(operators 4 and 3 re-schedule each other forever). -/
theorem c03_sort_orig_diverges_all (fuel : Nat) :
    createPlanWith witnessCyc false (some fuel) [0] [1] {} = .error .outOfFuel := by
  have hd : dfsPlan witnessCyc [0] [1] {} =
      .ok { resolved := [0, 2, 0, 1], plan := planCyc, active := [] } := by decide
  have hfr : planCyc.filter (fun e => depsResolved witnessCyc (resolvedNew witnessCyc [0] true) e.2)
      = [(4, opR)] := by decide
  have hloop := (cyc_loop fuel (resolvedNew witnessCyc [0] true) [] (by decide)).1
  have h1 : (firstDup [1]).isSome = false := by decide
  have h2 : [1].all (isValueOrConstant witnessCyc) = true := by decide
  have h3 : (firstDup [0]).isSome = false := by decide
  have h4 : [0].all (isValueOrConstant witnessCyc) = true := by decide
  simp only [createPlanWith, h1, h2, h3, h4, hd, sortPlanFuel, hfr, Option.getD_some]
  rw [hloop]
  rfl

/-- The same request with the code as it stands. -/
theorem c03_sort_fixed_witnessCyc : createPlan witnessCyc [0] [1] {} = .ok [4, 3] := by decide

/-! ## the `debug_assert!(!frontier.is_empty())` site -/

/-- **`debug_assert!(!frontier.is_empty(), "initial frontier is empty")`
(planner.rs, `sort_plan`) never fires**: whenever `create_plan` reaches `sort_plan` (the
traversal succeeded, `allow_missing_inputs` is off and the plan is non-empty) at least one
planned operator has all its dependencies available from the start — the first entry of
the depth-first plan. -/
theorem c03_initial_frontier_nonempty {g : Graph} {ins outs : List Nat} {opts : PlanOptions}
    {st : St} (hd : dfsPlan g ins outs opts = .ok st) (ham : opts.allowMissing = false)
    (hne : st.plan ≠ []) :
    st.plan.filter
      (fun e => depsResolved g (resolvedNew g ins opts.capturesAvailable) e.2) ≠ [] := by
  obtain ⟨hinv, _⟩ := dfsPlan_spec hd
  rw [ham] at hinv
  cases hp : st.plan with
  | nil => exact absurd hp hne
  | cons e es =>
    have hv := hinv.valid
    rw [hp] at hv
    have hready : depsResolved g (resolvedNew g ins opts.capturesAvailable) e.2 = true := by
      rw [depsResolved_iff]
      intro d hd'
      rcases hv.1 d hd' with h | ⟨h, _⟩
      · exact h
      · cases h
    intro hnil
    have : e ∈ (e :: es).filter
        (fun e => depsResolved g (resolvedNew g ins opts.capturesAvailable) e.2) :=
      List.mem_filter.mpr ⟨List.mem_cons_self .., hready⟩
    rw [hnil] at this
    cases this

/-- Non-vacuity: `diamond` reaches `sort_plan` with initial frontier `[4]`. -/
example : (dfsPlan diamond [0] [7] {}).toOption.map (fun st =>
    (st.plan.filter (fun e => depsResolved diamond (resolvedNew diamond [0] true) e.2)).map
      (fun e => e.1)) = some [4] := by decide

/-! ## T2c instantiated -/

theorem diamond_uniqueProducer : UniqueProducer diamond := uniqueProducer_of_upCheck (by decide)

theorem diamond_argsOK : ArgsOK diamond [0] [7] := ⟨by decide, by decide, by decide, by decide⟩

/-- A `PlanOK` plan for `diamond` that is *not* the one `createPlan` returns: the
depth-first order `[4,5,6,8]`. -/
theorem diamond_dfs_planOK : PlanOK diamond false [0] [7] [4, 5, 6, 8] := by
  have hd : dfsPlan diamond [0] [7] {} = .ok
      { resolved := [0, 1, 2, 3, 7],
        plan := [(4, { inputs := [some 0], outputs := [some 1] }),
          (5, { inputs := [some 1], outputs := [some 2], inPlace := true }),
          (6, { inputs := [some 1], outputs := [some 3] }),
          (8, { inputs := [some 2, some 3], outputs := [some 7] })],
        active := [] } := by decide
  exact dfs_plan_ok hd

/-- `c03_complete` instantiated: from the existence of the plan `[4,5,6,8]` it follows that
`createPlan` succeeds (it returns the different plan `[4,6,5,8]`). -/
example : ∃ plan, createPlan diamond [0] [7] {} = .ok plan ∧ PlanOK diamond false [0] [7] plan :=
  c03_complete (opts := {}) diamond_uniqueProducer diamond_argsOK diamond_dfs_planOK

/-- `c03_error_iff_unsat` instantiated in the other direction: without the input `0` the
request fails, hence **no** sequence of operators whatsoever is a `PlanOK` plan for it. -/
theorem diamond_unsat_without_input : ¬∃ Q, PlanOK diamond false [] [7] Q := by
  have hargs : ArgsOK diamond [] [7] := ⟨by decide, by decide, by decide, by decide⟩
  exact (c03_error_iff_unsat (opts := {}) diamond_uniqueProducer hargs).mp
    ⟨.missingInput, by decide⟩

/-! ## T2b — one example per error class, options and captures -/

/-- `.missingInput`, with the cause `c03_error_cause` extracts. -/
example : createPlan diamond [] [7] {} = .error .missingInput ∧
    ErrCause diamond {} [] [7] .missingInput :=
  ⟨by decide,
   c03_error_cause (g := diamond) (ins := []) (outs := [7]) (opts := {}) (e := .missingInput)
     ⟨by decide, by decide, by decide, by decide⟩ (by decide)⟩

/-- `.noSource`: the requested output 0 is a graph input that is not supplied. -/
example : createPlan diamond [] [0] {} = .error .noSource ∧
    ErrCause diamond {} [] [0] .noSource :=
  ⟨by decide,
   c03_error_cause (g := diamond) (ins := []) (outs := [0]) (opts := {}) (e := .noSource)
     ⟨by decide, by decide, by decide, by decide⟩ (by decide)⟩

/-- `allowMissing := true`: the same two requests succeed; the plan is the depth-first one
and the missing value counts as available (`Avail`'s second disjunct). -/
example : createPlan diamond [] [7] { allowMissing := true } = .ok [4, 5, 6, 8] := by decide
example : createPlan diamond [] [0] { allowMissing := true } = .ok [] := by decide
example : PlanOK diamond true [] [7] [4, 5, 6, 8] :=
  c03_plan_ok (g := diamond) (ins := []) (outs := [7]) (plan := [4, 5, 6, 8])
    (opts := { allowMissing := true })
    ⟨by decide, by decide, by decide, by decide⟩ (by decide)

/-- A subgraph operator (3) that captures value 1, and value 1 is also a capture of the
graph itself: available iff `capturesAvailable`. -/
def capGraph : Graph :=
  { nodes := [.value, .value, .value,
      .operator { inputs := [some 0], outputs := [some 2], captureIds := [1] }],
    captures := [1] }

example : opDeps capGraph { inputs := [some 0], outputs := [some 2], captureIds := [1] } = [0, 1] := by
  decide
example : createPlan capGraph [0] [2] {} = .ok [3] := by decide
example : createPlan capGraph [0] [2] { capturesAvailable := false } = .error .missingInput ∧
    ErrCause capGraph { capturesAvailable := false } [0] [2] .missingInput :=
  ⟨by decide,
   c03_error_cause (g := capGraph) (ins := [0]) (outs := [2])
     (opts := { capturesAvailable := false }) (e := .missingInput)
     ⟨by decide, by decide, by decide, by decide⟩ (by decide)⟩
/-- With the capture produced by another operator the producer is scheduled first. -/
example : createPlan
    { nodes := [.value, .value, .value,
        .operator { inputs := [some 0], outputs := [some 2], captureIds := [1] },
        .operator { inputs := [some 0], outputs := [some 1] }] } [0] [2] {} = .ok [4, 3] := by
  decide

end RtenVerif.Planner
