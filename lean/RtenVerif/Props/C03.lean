import RtenVerif.Model.Planner

/-!
# C03 — Execution plans are valid, complete and minimal (starter)
-/
namespace RtenVerif.Planner
open RtenVerif.Graph

/-- Witness graph D: value 0 is supplied *and* produced by the planned two-output operator 4. -/
def witnessDup : Graph :=
  { nodes := [.value, .value, .value,
      .operator { inputs := [some 0], outputs := [some 1] },
      .operator { inputs := [], outputs := [some 0, some 2] }] }

/-- Before the fix, `sort_plan` scheduled operator 3 twice. -/
theorem c03_sort_orig_duplicates :
    createPlanWith witnessDup false (some 100) [0] [1, 2] {} = .ok [3, 4, 3] := by decide

end RtenVerif.Planner
