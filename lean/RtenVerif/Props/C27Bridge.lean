import RtenVerif.Model.ByteBpe
import RtenVerif.Lemmas.Bpe

/-!
# C27 ↔ C28: the two models of `bpe_merge` agree

C27 (`ByteBpe.bpeMerge`: rank-ordered merge list, last entry wins; recursive first-minimum scan;
functional replacement pass) and C28 (`Bpe.bpeMerge`: association list with the most recent
insert first; `windows(2).filter_map.min_by_key`; the in-place index loop) are two transcriptions
of the same Rust function.  They compute the same token list for every merge table and every
input, so C28's results (the in-place loop refines the functional replacement, termination within
`len` rounds, agreement with the reference BPE) apply to the function used in C27's round trip.
(`Lemmas/Bpe.lean` is b-C28C29's file, imported read-only.)
-/
namespace RtenVerif.ByteBpe
open RtenVerif

/-- C27's merge list as C28's `MergeMap`: entry `i` (rank `i`) is inserted after the earlier
ones, i.e. consed in front — what `build_merge_map` does. -/
def toC28From : Nat → List ((Nat × Nat) × Nat) → Bpe.MergeMap Nat → Bpe.MergeMap Nat
  | _, [], acc => acc
  | i, (k, m) :: rest, acc => toC28From (i + 1) rest ((k, (i, m)) :: acc)

def toC28 (ms : List ((Nat × Nat) × Nat)) : Bpe.MergeMap Nat := toC28From 0 ms []

theorem lookup_toC28From : ∀ (ms : List ((Nat × Nat) × Nat)) (i : Nat) (acc : Bpe.MergeMap Nat)
    (p : Nat × Nat),
    Bpe.lookup (toC28From i ms acc) p =
      match mergeLookup ms i p with
      | some r => some r
      | none => Bpe.lookup acc p := by
  intro ms
  induction ms with
  | nil => intro i acc p; simp [toC28From, mergeLookup]
  | cons km rest ih =>
    intro i acc p
    obtain ⟨k, m⟩ := km
    simp only [toC28From, mergeLookup]
    rw [ih]
    cases mergeLookup rest (i + 1) p with
    | some r => rfl
    | none =>
      simp only [Bpe.lookup]
      by_cases hk : k = p
      · simp [hk]
      · have : (k == p) = false := by simpa using hk
        simp [hk, this]

theorem lookup_toC28 (ms : List ((Nat × Nat) × Nat)) (p : Nat × Nat) :
    Bpe.lookup (toC28 ms) p = mergeLookup ms 0 p := by
  unfold toC28
  rw [lookup_toC28From]
  cases mergeLookup ms 0 p <;> simp [Bpe.lookup]

/-! ### `min_by_key` unfolded one element at a time -/

theorem foldl_min_cons {β : Type} (key : β → Nat) : ∀ (ys : List β) (a y : β),
    (y :: ys).foldl (fun best z => if key z < key best then z else best) a =
      if key a ≤ key (ys.foldl (fun best z => if key z < key best then z else best) y) then a
      else ys.foldl (fun best z => if key z < key best then z else best) y := by
  intro ys
  induction ys with
  | nil =>
    intro a y
    show (if key y < key a then y else a) = if key a ≤ key y then a else y
    by_cases h : key y < key a
    · rw [if_pos h, if_neg (by omega)]
    · rw [if_neg h, if_pos (by omega)]
  | cons z zs ih =>
    intro a y
    have e := ih y z
    rw [List.foldl_cons, ih (if key y < key a then y else a) z, e]
    generalize zs.foldl (fun best z => if key z < key best then z else best) z = w
    by_cases h1 : key y < key a
    · rw [if_pos h1]
      by_cases h2 : key y ≤ key w
      · rw [if_pos h2, if_neg (by omega)]
      · rw [if_neg h2, if_neg (by omega)]
    · rw [if_neg h1]
      by_cases h2 : key y ≤ key w
      · rw [if_pos h2, if_pos (by omega), if_pos (by omega)]
      · rw [if_neg h2]

theorem minByKey_cons {β : Type} (key : β → Nat) (x : β) (xs : List β) :
    Bpe.minByKey key (x :: xs) =
      match Bpe.minByKey key xs with
      | none => some x
      | some b => if key x ≤ key b then some x else some b := by
  cases xs with
  | nil => rfl
  | cons y ys =>
    simp only [Bpe.minByKey]
    rw [foldl_min_cons]
    split <;> rfl

theorem candidates_cons_cons (M : Bpe.MergeMap Nat) (a b : Nat) (rest : List Nat) :
    Bpe.candidates M (a :: b :: rest) =
      (match Bpe.lookup M (a, b) with
        | some r => [((a, b), r)]
        | none => []) ++ Bpe.candidates M (b :: rest) := by
  simp only [Bpe.candidates, Bpe.windows2, List.filterMap_cons]
  cases Bpe.lookup M (a, b) <;> simp

/-- The first-minimum scan: C27's recursion = C28's `windows2 / filterMap / minByKey`. -/
theorem minPair_eq (ms : List ((Nat × Nat) × Nat)) : ∀ (toks : List Nat),
    minPair ms toks = Bpe.findMinPair (toC28 ms) toks := by
  intro toks
  induction toks with
  | nil => rfl
  | cons a tl ih =>
    cases tl with
    | nil => rfl
    | cons b rest =>
      simp only [minPair, Bpe.findMinPair, candidates_cons_cons, lookup_toC28]
      simp only [Bpe.findMinPair] at ih
      rw [ih]
      cases mergeLookup ms 0 (a, b) with
      | none => simp
      | some rm =>
        simp only [List.singleton_append, minByKey_cons]
        cases Bpe.minByKey (fun c => c.2.1) (Bpe.candidates (toC28 ms) (b :: rest)) with
        | none => rfl
        | some best => rfl

/-- The replacement pass: C27's `mergePass` = C28's functional `replacePairs`
(= the in-place loop, `Bpe.replaceLoop_eq`). -/
theorem mergePass_eq (f s m : Nat) : ∀ (n : Nat) (toks : List Nat), toks.length ≤ n →
    mergePass f s m toks = Bpe.replacePairs f s m toks := by
  intro n
  induction n with
  | zero =>
    intro toks h
    have : toks = [] := List.eq_nil_of_length_eq_zero (by omega)
    subst this; rfl
  | succ n ih =>
    intro toks h
    match toks, h with
    | [], _ => rfl
    | [a], _ => rfl
    | a :: b :: rest, h =>
      rw [Bpe.replacePairs_cons_cons]
      simp only [mergePass]
      by_cases hc : a = f ∧ b = s
      · have : (a == f && b == s) = true := by simp [hc.1, hc.2]
        rw [if_pos this, if_pos hc, ih rest (by simp at h; omega)]
      · have : (a == f && b == s) = false := by
          simp only [Bool.and_eq_false_iff, beq_eq_false_iff_ne, ne_eq]
          by_cases ha : a = f
          · right; intro hb; exact hc ⟨ha, hb⟩
          · left; exact ha
        rw [this, if_neg hc, ih (b :: rest) (by simp at h ⊢; omega)]
        simp

/-- **The two `bpe_merge` models agree** (any fuel, any merge table, any token list). -/
theorem bpeMerge_eq_c28_fuel (ms : List ((Nat × Nat) × Nat)) : ∀ (fuel : Nat) (toks : List Nat),
    bpeMerge ms fuel toks = Bpe.bpeMergeFuel (toC28 ms) fuel toks := by
  intro fuel
  induction fuel with
  | zero => intro toks; rfl
  | succ fuel ih =>
    intro toks
    simp only [bpeMerge, Bpe.bpeMergeFuel, Bpe.mergeRound, minPair_eq]
    cases Bpe.findMinPair (toC28 ms) toks with
    | none => rfl
    | some c =>
      obtain ⟨⟨f, s⟩, ⟨r, m⟩⟩ := c
      simp only [Bpe.replaceLoop_eq, ← mergePass_eq f s m toks.length toks (Nat.le_refl _)]
      exact ih _

/-- `encode_piece`'s merge step in C27 is C28's `bpeMerge` on the same merge table. -/
theorem bpeMerge_eq_c28 (ms : List ((Nat × Nat) × Nat)) (toks : List Nat) :
    bpeMerge ms toks.length toks = Bpe.bpeMerge (toC28 ms) toks :=
  bpeMerge_eq_c28_fuel ms toks.length toks

end RtenVerif.ByteBpe
