import RtenVerif.Props.C35Bounded6a
import RtenVerif.Props.C35Bounded6b
import RtenVerif.Props.C35Bounded6c
import RtenVerif.Props.C35Bounded6d
import RtenVerif.Props.C35Bounded6e
import RtenVerif.Props.C35Bounded6f
import RtenVerif.Props.C35Bounded6g
import RtenVerif.Props.C35Bounded6h
import RtenVerif.Props.C35Bounded6i
import RtenVerif.Props.C35Bounded6j
import RtenVerif.Props.C35Bounded6k
import RtenVerif.Props.C35Bounded6l
import RtenVerif.Props.C35Bounded6m
import RtenVerif.Props.C35Bounded6n

/-!
# C35.S3 — containment and cyclic convexity of the hull for all 6-point multisets of the 4×4 grid

Assembles the 14 kernel-evaluated chunks into one statement over the complete scope
(54,264 multisets).  **Bounded statement**, not the general Graham-scan theorem.
-/
namespace RtenVerif.Poly

theorem mem_msets_succ (n k lo : Nat) (l : List Nat) :
    l ∈ msets n (k + 1) lo ↔ ∃ a r, l = a :: r ∧ lo ≤ a ∧ a < n ∧ r ∈ msets n k a := by
  simp only [msets, List.mem_flatMap, List.mem_filter, List.mem_range, List.mem_map,
    decide_eq_true_eq]
  constructor
  · rintro ⟨a, ⟨h1, h2⟩, r, hr, rfl⟩
    exact ⟨a, r, rfl, h2, h1, hr⟩
  · rintro ⟨a, r, rfl, h2, h1, hr⟩
    exact ⟨a, ⟨h1, h2⟩, r, hr, rfl⟩

theorem mem_rangeIn (lo hi a : Nat) : a ∈ rangeIn lo hi ↔ lo ≤ a ∧ a ≤ hi := by
  simp only [rangeIn, List.mem_filter, List.mem_range, decide_eq_true_eq]
  omega

theorem chunk_use {a0 a1 b0 b1 : Nat} (h : chunkOk a0 a1 b0 b1 = true) {a b : Nat}
    {r : List Nat} (h1 : a0 ≤ a) (h2 : a ≤ a1) (h3 : a ≤ b) (h4 : b0 ≤ b) (h5 : b ≤ b1)
    (hr : r ∈ msets 16 4 b) : hullContainsCheck ((a :: b :: r).map gp4) = true := by
  unfold chunkOk at h
  rw [List.all_eq_true] at h
  have ha := h a ((mem_rangeIn _ _ _).mpr ⟨h1, h2⟩)
  rw [List.all_eq_true] at ha
  have hb := ha b ((mem_rangeIn _ _ _).mpr ⟨by omega, h5⟩)
  rw [List.all_eq_true] at hb
  exact hb r hr

/-- **C35.S3 (bounded, 6 points on a 4×4 grid)** For every multiset of 6 points of the 4×4
integer grid (all 54,264 non-decreasing code lists; duplicates, collinear runs and scans with up
to several strict pops per point included) the hull computed by the model of `convex_hull` is
strictly convex around the whole cycle and contains every input point. -/
theorem c35_hull_contains_bounded6 :
    ∀ l ∈ msets 16 6 0, hullContainsCheck (l.map gp4) = true := by
  intro l hl
  obtain ⟨a, r1, rfl, _, ha, hr1⟩ := (mem_msets_succ 16 5 0 l).mp hl
  obtain ⟨b, r, rfl, hab, hb, hr⟩ := (mem_msets_succ 16 4 a r1).mp hr1
  have hcov : (a = 0 ∧ b = 0) ∨ (a = 0 ∧ b = 1) ∨ (a = 0 ∧ 2 ≤ b ∧ b ≤ 3) ∨ (a = 0 ∧ 4 ≤ b) ∨
      (a = 1 ∧ b = 1) ∨ (a = 1 ∧ 2 ≤ b ∧ b ≤ 3) ∨ (a = 1 ∧ 4 ≤ b) ∨
      (a = 2 ∧ b ≤ 3) ∨ (a = 2 ∧ 4 ≤ b) ∨ (a = 3 ∧ b = 3) ∨ (a = 3 ∧ 4 ≤ b) ∨
      (a = 4) ∨ (a = 5) ∨ (6 ≤ a) := by omega
  rcases hcov with h | h | h | h | h | h | h | h | h | h | h | h | h | h
  · exact chunk_use c35_chunk6_a (by omega) (by omega) hab (by omega) (by omega) hr
  · exact chunk_use c35_chunk6_b (by omega) (by omega) hab (by omega) (by omega) hr
  · exact chunk_use c35_chunk6_c (by omega) (by omega) hab (by omega) (by omega) hr
  · exact chunk_use c35_chunk6_d (by omega) (by omega) hab (by omega) (by omega) hr
  · exact chunk_use c35_chunk6_e (by omega) (by omega) hab (by omega) (by omega) hr
  · exact chunk_use c35_chunk6_f (by omega) (by omega) hab (by omega) (by omega) hr
  · exact chunk_use c35_chunk6_g (by omega) (by omega) hab (by omega) (by omega) hr
  · exact chunk_use c35_chunk6_h (by omega) (by omega) hab (by omega) (by omega) hr
  · exact chunk_use c35_chunk6_i (by omega) (by omega) hab (by omega) (by omega) hr
  · exact chunk_use c35_chunk6_j (by omega) (by omega) hab (by omega) (by omega) hr
  · exact chunk_use c35_chunk6_k (by omega) (by omega) hab (by omega) (by omega) hr
  · exact chunk_use c35_chunk6_l (by omega) (by omega) hab (by omega) (by omega) hr
  · exact chunk_use c35_chunk6_m (by omega) (by omega) hab (by omega) (by omega) hr
  · exact chunk_use c35_chunk6_n (by omega) (by omega) hab (by omega) (by omega) hr

/-- The scope is not vacuous: it has 54,264 elements (counted through the recursion on the
smallest element, which the kernel evaluates quickly). -/
example : (msets 16 2 0).length = 136 := by decide +kernel

end RtenVerif.Poly
