import RtenVerif.Lemmas.Generator

/-!
# C32 — The generator feeds the model a consistent token history

Property theorems over `RtenVerif.Model.Generator` (model of
`rten-generate/src/generator.rs`).  Every theorem quantifies over **all** histories
`ops : List Op` of `with_prompt / append_prompt / clear_prompt / process_prompt / next`
(plus `next` failing with "filtered logits are empty"), of any length, with arbitrary token
values, starting from a fresh generator; `hasKv` selects a model with or without KV-cache
inputs.  `run r hasKv ops = (final state, log of Model::run calls)`.

The specification side (`Spec`) never mentions `input_offset`, `recorded_input_len`, caches
or `prev_tokens`: it tracks pending tokens with a "not yet in the history" flag.

`Rule.tracked` is the code after the C32 fix (commit recorded in `findings/C32.json`);
`Rule.legacy` is the code as found, for which T3 is false (`c32_T3_legacy_false`).
-/
namespace RtenVerif.Generator

/-- **C32.T1a** With a KV cache, the position ids the model sees over the whole history are
`0, 1, 2, …` with no gap and no repeat (call boundaries included). -/
theorem c32_T1_positions_contiguous (ops : List Op) :
    positions (run .tracked true ops).2 = List.range (fed (run .tracked true ops).2).length := by
  have h := (inv_run true ops).kvOn rfl
  rw [positions_of_logOk _ 0 0 h.2.2, List.range_eq_range']

/-- **C32.T1b** Each model call receives exactly the tokens pending at that moment (with a
KV cache they then stop being pending — so every pending token is fed exactly once; without
one the whole sequence is resubmitted), and the generator's pending tokens are the
specification's. -/
theorem c32_T1_each_pending_token_fed_once (hasKv : Bool) (ops : List Op) :
    (run .tracked hasKv ops).2.map (·.toks) = (Spec.run hasKv ops).calls ∧
    (run .tracked hasKv ops).1.inputIds = (Spec.run hasKv ops).pend.map (·.1) := by
  have h := inv_run hasKv ops
  exact ⟨h.calls, by rw [h.pend, flagged_toks]⟩

/-- **C32.T1c** With a KV cache, call `k` starts at the position equal to the number of
tokens fed by calls `0..k-1`. -/
theorem c32_T1_call_start (ops : List Op) (k : Nat) (hk : k < (run .tracked true ops).2.length) :
    ((run .tracked true ops).2)[k].start = (fed ((run .tracked true ops).2.take k)).length := by
  have h := (inv_run true ops).kvOn rfl
  simpa using (logOk_get _ 0 0 h.2.2 k hk).1

/-- **C32.T2** The cache passed to call `k` is the one returned by call `k-1` (id `k`; id 0 is
the generator's initial empty cache) and it holds exactly the tokens fed so far; the cache
held after the history is the one returned by the last call. -/
theorem c32_T2_cache_handoff (ops : List Op) :
    (∀ k (hk : k < (run .tracked true ops).2.length),
      ((run .tracked true ops).2)[k].cacheIn =
        some (k, (fed ((run .tracked true ops).2.take k)).length)) ∧
    (run .tracked true ops).1.kv =
      some ((run .tracked true ops).2.length, (fed (run .tracked true ops).2).length) := by
  have h := (inv_run true ops).kvOn rfl
  refine ⟨fun k hk => ?_, h.1⟩
  simpa using (logOk_get _ 0 0 h.2.2 k hk).2

/-- Without KV-cache inputs every call starts at position 0 and carries no cache. -/
theorem c32_T1_no_kv_calls (ops : List Op) (k : Nat)
    (hk : k < (run .tracked false ops).2.length) :
    ((run .tracked false ops).2)[k].start = 0 ∧ ((run .tracked false ops).2)[k].cacheIn = none := by
  have h := (inv_run false ops).kvOff rfl
  exact logOkNoKv_get _ h.2.2 k hk

/-- **C32.T3** `prev_tokens` equals every token submitted to or produced by the model, in
order, each once — for the current code (`Rule.tracked`). -/
theorem c32_T3_prev_tokens_eq_history (hasKv : Bool) (ops : List Op) :
    (run .tracked hasKv ops).1.prev = (Spec.run hasKv ops).hist :=
  (inv_run hasKv ops).prev

/-- **C32.T3 is false for the code as found** (`Rule.legacy`: the prompt is copied into
`prev_tokens` only while `prev_tokens` is empty).  Witness (chat style):
`with_prompt [1]; next → 5; append_prompt [7]; next → 6` — the model is fed `1`, then `5 7`,
and produces `5`, `6`; the history is `1 5 7 6` but `prev_tokens = 1 5 6`. -/
theorem c32_T3_legacy_false :
    ¬ ∀ (hasKv : Bool) (ops : List Op),
        (run .legacy hasKv ops).1.prev = (Spec.run hasKv ops).hist := by
  intro h
  have := h true [.withPrompt [1], .next 5, .append [7], .next 6]
  revert this
  decide

/-- The witness evaluated: what the legacy rule records vs the history. -/
example :
    (run .legacy true [.withPrompt [1], .next 5, .append [7], .next 6]).1.prev = [1, 5, 6] ∧
    (Spec.run true [.withPrompt [1], .next 5, .append [7], .next 6]).hist = [1, 5, 7, 6] ∧
    (run .tracked true [.withPrompt [1], .next 5, .append [7], .next 6]).1.prev = [1, 5, 7, 6] := by
  decide

/-- The recording rule does not influence what the model is fed: T1/T2 held for the code as
found as well (same call log for every history). -/
theorem c32_legacy_same_calls (hasKv : Bool) (ops : List Op) :
    (run .legacy hasKv ops).2 = (run .tracked hasKv ops).2 := by
  -- states agree on every field except `prev`/`recorded`
  suffices H : ∀ (ops : List Op) (s s' : State),
      s.inputIds = s'.inputIds → s.offset = s'.offset → s.kv = s'.kv → s.calls = s'.calls →
      (runFrom .legacy s ops).2 = (runFrom .tracked s' ops).2 from
    H ops _ _ rfl rfl rfl rfl
  intro ops
  induction ops with
  | nil => intros; rfl
  | cons op ops ih =>
    intro s s' h1 h2 h3 h4
    simp only [runFrom]
    have key : (step .legacy s op).call = (step .tracked s' op).call ∧
        (step .legacy s op).st.inputIds = (step .tracked s' op).st.inputIds ∧
        (step .legacy s op).st.offset = (step .tracked s' op).st.offset ∧
        (step .legacy s op).st.kv = (step .tracked s' op).st.kv ∧
        (step .legacy s op).st.calls = (step .tracked s' op).st.calls := by
      cases op <;> cases hk : s'.kv <;>
        simp [step, generateImpl, h1, h2, h3, h4, hk] <;>
        (try split) <;> simp_all
    obtain ⟨kc, k1, k2, k3, k4⟩ := key
    rw [kc, ih _ _ k1 k2 k3 k4]

/-! ## Non-vacuity: a chat-style history exercising every operation -/

/-- A concrete history with a KV cache: prompt, generate, append (chat), clear, empty-filter
error, `with_prompt` mid-history.  Calls, positions, cache hand-off and `prev_tokens`. -/
example :
    run .tracked true
      [.withPrompt [1, 2], .next 3, .append [4, 5], .next 6, .clear, .append [7], .process,
       .append [8], .nextEmpty, .withPrompt [9], .next 10] =
    ({ inputIds := [10], offset := 8, prev := [1, 2, 3, 4, 5, 6, 7, 8, 9, 10], recorded := 1,
       kv := some (5, 8), calls := 5 },
     [⟨[1, 2], 0, some (0, 0), true⟩, ⟨[3, 4, 5], 2, some (1, 2), true⟩,
      ⟨[7], 5, some (2, 5), false⟩, ⟨[8], 6, some (3, 6), true⟩, ⟨[9], 7, some (4, 7), true⟩]) := by
  decide

/-- The same history without KV cache: everything is resubmitted from position 0. -/
example :
    (run .tracked false [.withPrompt [1, 2], .next 3, .append [4], .next 5]) =
    ({ inputIds := [1, 2, 3, 4, 5], offset := 0, prev := [1, 2, 3, 4, 5], recorded := 5,
       kv := none, calls := 2 },
     [⟨[1, 2], 0, none, true⟩, ⟨[1, 2, 3, 4], 0, none, true⟩]) := by
  decide

end RtenVerif.Generator
