import RtenVerif.Lemmas.Generator

/-!
# C32 — The generator feeds the model a consistent token history

Property theorems over `RtenVerif.Model.Generator` (model of
`rten-generate/src/generator.rs`).  Every theorem quantifies over **all** histories
`ops : List Op` of `with_prompt / append_prompt / clear_prompt / process_prompt / next`
(plus `next` failing with "filtered logits are empty"), of any length, with arbitrary token
values, starting from a fresh generator; `hasKv` selects a model with or without KV-cache
inputs.  `run r hasKv ops = (final state, log of Model::run calls)`.

The specification side (`Spec`) never mentions `input_offset`, `recorded_input_len`, caches
or `prev_tokens`: it tracks pending tokens with a "not yet in the history" flag.

`Rule.tracked` is the code after the C32 fix (commit recorded in `findings/C32.json`);
`Rule.legacy` is the code as found, for which T3 is false (`c32_T3_legacy_false`).
-/
namespace RtenVerif.Generator

/-- **C32.T1a** With a KV cache, the position ids seen by the successful model calls over the
whole history are `0, 1, 2, …` with no gap and no repeat (call boundaries included) — also
when some `Model::run` calls fail in between. -/
theorem c32_T1_positions_contiguous (ops : List Op) :
    positions (okCalls (run .tracked true ops).2) =
      List.range (fed (okCalls (run .tracked true ops).2)).length := by
  have h := (inv_run true ops).kvOn rfl
  rw [positions_okCalls _ LogSt.init h.2.2.2, List.range_eq_range']
  rfl

/-- **C32.T1b** Each model call receives exactly the tokens pending at that moment.  After a
successful call of a KV-cache model they stop being pending — so every pending token is fed
to exactly one successful call; after a failed call they all stay pending (and are fed again
by the next call); without a KV cache the whole sequence stays pending.  The generator's
pending tokens are the specification's. -/
theorem c32_T1_each_pending_token_fed_once (hasKv : Bool) (ops : List Op) :
    (run .tracked hasKv ops).2.map (fun c => (c.toks, c.ok)) = (Spec.run hasKv ops).calls ∧
    (run .tracked hasKv ops).1.inputIds = (Spec.run hasKv ops).pend.map (·.1) := by
  have h := inv_run hasKv ops
  exact ⟨h.calls, by rw [h.pend, flagged_toks]⟩

/-- **C32.T1b′ Exactly once, against a definition on the operations alone.**  With a KV
cache, the tokens fed by the successful calls, followed by the tokens still pending, are
exactly `submitted ops`: the in-order concatenation of the `with_prompt`/`append_prompt`
arguments and the sampled tokens, minus those discarded by `clear_prompt` / a later
`with_prompt` while still waiting.  So no submitted token is dropped, duplicated or
reordered, whatever the interleaving (failed runs included). -/
theorem c32_T1_submitted_tokens_fed_exactly_once (ops : List Op) :
    fed (okCalls (run .tracked true ops).2) ++ (run .tracked true ops).1.inputIds =
      submitted ops := by
  have h := sub_runFrom ops (State.init true) [] (by simp [State.init])
  simp only [State.init, List.append_nil, List.length_nil, List.nil_append] at h
  simp only [submitted, run, State.init]
  rw [h]

/-- **C32.T2/T4 (all histories, failures included)** Call `k` of a KV-cache model meets the
expectation `logRun` computes from calls `0..k-1`: it starts at the number of tokens fed by
the successful calls so far, `attention_mask` covers positions `0..start+len`,
`use_cache_branch` is `start ≠ 0`, the self-attention cache is the one returned by call `k-1`
(none at all if call `k-1` failed), and the encoder cache is the one returned by the last
successful call that started at position 0 (passed through unchanged otherwise). -/
theorem c32_T2_calls_meet_expectation (ops : List Op) (k : Nat)
    (hk : k < (run .tracked true ops).2.length) :
    let log := (run .tracked true ops).2
    let ex := logRun LogSt.init (log.take k)
    log[k].start = ex.pos ∧ log[k].cacheIn = some ex.held ∧
    log[k].attn = ex.pos + log[k].toks.length ∧ log[k].flag = (ex.pos != 0) ∧
    log[k].encIn = ex.enc := by
  have h := (inv_run true ops).kvOn rfl
  exact logRun_get _ LogSt.init h.2.2.2 k hk

/-- **C32.T1c** Error-free histories with a KV cache: call `k` starts at the position equal to
the number of tokens fed by calls `0..k-1`. -/
theorem c32_T1_call_start (ops : List Op) (hops : ∀ op ∈ ops, op.isFail = false) (k : Nat)
    (hk : k < (run .tracked true ops).2.length) :
    ((run .tracked true ops).2)[k].start = (fed ((run .tracked true ops).2.take k)).length := by
  have h := c32_T2_calls_meet_expectation ops k hk
  have hall := runFrom_all_ok .tracked ops (State.init true) hops
  have hex := logRun_all_ok ((run .tracked true ops).2.take k) LogSt.init
    (fun c hc => hall c (List.mem_of_mem_take hc)) 0 rfl
  simp only [] at h
  rw [h.1, hex.2]; simp [LogSt.init]

/-- **C32.T2** Error-free histories: the cache passed to call `k` is the one returned by call
`k-1` (id `k`; id 0 is the generator's initial empty cache) and it holds exactly the tokens
fed so far; the cache held after the history is the one returned by the last call. -/
theorem c32_T2_cache_handoff (ops : List Op) (hops : ∀ op ∈ ops, op.isFail = false) :
    (∀ k (hk : k < (run .tracked true ops).2.length),
      ((run .tracked true ops).2)[k].cacheIn =
        some (some (k, (fed ((run .tracked true ops).2.take k)).length))) ∧
    (run .tracked true ops).1.kv =
      some (some ((run .tracked true ops).2.length, (fed (run .tracked true ops).2).length)) := by
  have hall := runFrom_all_ok .tracked ops (State.init true) hops
  constructor
  · intro k hk
    have h := c32_T2_calls_meet_expectation ops k hk
    have hex := logRun_all_ok ((run .tracked true ops).2.take k) LogSt.init
      (fun c hc => hall c (List.mem_of_mem_take hc)) 0 rfl
    simp only [] at h
    rw [h.2.1, hex.1]
    simp [LogSt.init, List.length_take, Nat.min_eq_left (Nat.le_of_lt hk)]
  · have h := (inv_run true ops).kvOn rfl
    have hex := logRun_all_ok (run .tracked true ops).2 LogSt.init hall 0 rfl
    rw [h.1, hex.1]; simp [LogSt.init]

/-- What a failed `Model::run` does to the state (unfolding of the model, kept as a lemma):
pending tokens, offset, `prev_tokens` and the recorded marker are untouched, the
self-attention caches handed to the model are gone. -/
theorem failed_run_state (r : Rule) (s : State) :
    (step r s .processFail).st = { s with kv := s.kv.map (fun _ => none), calls := s.calls + 1 } ∧
    (step r s .nextFail).st = { s with kv := s.kv.map (fun _ => none), calls := s.calls + 1 } :=
  ⟨rfl, rfl⟩

/-- **C32.T5 Retry after a failed run (trace level)**: from *any* generator state, if a run
fails, prompts are appended and the model is run again, the second call is handed the failed
call's tokens followed by the appended tokens, at the same first position — nothing is lost,
nothing is fed from a later position. -/
theorem c32_T5_retry_after_failed_run (r : Rule) (s : State) (ps : List (List Nat)) (lg : Bool) :
    let failOp := if lg then Op.nextFail else Op.processFail
    let log := (runFrom r s (failOp :: (ps.map Op.append ++ [Op.process]))).2
    log.map (fun c => (c.toks, c.start, c.ok)) =
      [(s.inputIds, s.offset, false), (s.inputIds ++ ps.flatten, s.offset, true)] := by
  cases lg <;>
    simp [runFrom, runFrom_appends, step, generateFail, generateImpl_call, callOf, Option.toList]

/-- **C32.T5b** The call after a failed call is handed the same tokens' positions again
(same start) but **no** self-attention cache. -/
theorem c32_T5_call_after_failed_run (ops : List Op) (k : Nat)
    (hk : k + 1 < (run .tracked true ops).2.length)
    (hfail : ((run .tracked true ops).2)[k].ok = false) :
    ((run .tracked true ops).2)[k + 1].cacheIn = some none ∧
    ((run .tracked true ops).2)[k + 1].start = ((run .tracked true ops).2)[k].start := by
  have h1 := c32_T2_calls_meet_expectation ops (k + 1) hk
  have h0 := c32_T2_calls_meet_expectation ops k (by omega)
  simp only [] at h0 h1
  have ht : (run .tracked true ops).2.take (k + 1) =
      (run .tracked true ops).2.take k ++ [((run .tracked true ops).2)[k]] := by
    have hk' : k < (run .tracked true ops).2.length := by omega
    rw [List.take_add_one, List.getElem?_eq_getElem hk']; rfl
  rw [ht, logRun_append] at h1
  rw [h1.1, h1.2.1, h0.1]
  simp [logStep, hfail]

/-- **C32.T2 does not survive a failed run**: in `with_prompt [1]; process_prompt;
append_prompt [2]; process_prompt (run fails); process_prompt` the third call is handed no
cache although call 0 returned one, and the cache the model returns afterwards holds 1 token
although 2 were fed.  (The failing model is outside the property's quantifier; the tensors
were moved into the failed call, so the generator cannot restore them.) -/
theorem c32_T2_after_failed_run_false :
    ¬ ∀ (ops : List Op) (k : Nat) (hk : k < (run .tracked true ops).2.length),
        ((run .tracked true ops).2)[k].cacheIn =
          some (some (k, (fed (okCalls ((run .tracked true ops).2.take k))).length)) := by
  intro h
  have := h [.withPrompt [1], .process, .append [2], .processFail, .process] 2 (by decide)
  revert this; decide

example :
    run .tracked true [.withPrompt [1], .process, .append [2], .processFail, .process] =
    ({ inputIds := [], offset := 2, prev := [1, 2], recorded := 0, kv := some (some (3, 1)),
       enc := 1, calls := 3 },
     [⟨[1], 0, some (some (0, 0)), false, 1, false, 0, true⟩,
      ⟨[2], 1, some (some (1, 1)), false, 2, true, 1, false⟩,
      ⟨[2], 1, some none, false, 2, true, 1, true⟩]) := by decide

/-- Without KV-cache inputs every call starts at position 0 with a mask over exactly the
tokens fed, and carries no cache. -/
theorem c32_T1_no_kv_calls (ops : List Op) (k : Nat)
    (hk : k < (run .tracked false ops).2.length) :
    ((run .tracked false ops).2)[k].start = 0 ∧ ((run .tracked false ops).2)[k].cacheIn = none ∧
    ((run .tracked false ops).2)[k].attn = ((run .tracked false ops).2)[k].toks.length ∧
    ((run .tracked false ops).2)[k].flag = false := by
  have h := (inv_run false ops).kvOff rfl
  exact logOkNoKv_get _ h.2.2 k hk

/-- **C32.T7 Models without KV cache are fed the whole recorded history again.**  After
`with_prompt p` and any operations that do not discard pending tokens (`append_prompt`,
`process_prompt`, `next`, failing runs), the tokens handed to the next model call are exactly
`prev_tokens` as recorded by that call. -/
theorem c32_T7_no_kv_refeeds_history (p : List Nat) (ops : List Op)
    (hd : ∀ op ∈ ops, op.discards = false) (lg : Bool) :
    let s := (run .tracked false (.withPrompt p :: ops)).1
    (generateImpl .tracked s lg).2.toks = (generateImpl .tracked s lg).1.prev ∧
    (generateImpl .tracked s lg).2.start = 0 := by
  have h0 : Refeed (step .tracked (State.init false) (.withPrompt p)).st := by
    simp [Refeed, step, State.init]
  have h := refeed_runFrom ops _ h0 hd
  have hs : (run .tracked false (.withPrompt p :: ops)).1 =
      (runFrom .tracked (step .tracked (State.init false) (.withPrompt p)).st ops).1 := rfl
  simp only [hs]
  obtain ⟨hkv, hrec, hprev⟩ := h
  have hinv := (inv_runFrom false ops _ _ _ (inv_step false _ _ _ (.withPrompt p) (inv_init false))).kvOff rfl
  simp [generateImpl, hkv, callOf, hprev, hinv.2.1]

/-- … but `clear_prompt` (or a second `with_prompt`) makes such a model forget the
conversation: the next call sees only the new tokens, at position 0, while `prev_tokens`
still holds everything. -/
theorem c32_T7_no_kv_clear_forgets :
    let s := (run .tracked false [.withPrompt [1, 2], .next 3, .clear, .append [4]]).1
    (generateImpl .tracked s false).2.toks = [4] ∧ (generateImpl .tracked s false).2.start = 0 ∧
    (generateImpl .tracked s false).1.prev = [1, 2, 3, 4] := by decide

/-- **C32.T3** `prev_tokens` equals every token submitted to or produced by the model, in
order, each once — for the current code (`Rule.tracked`). -/
theorem c32_T3_prev_tokens_eq_history (hasKv : Bool) (ops : List Op) :
    (run .tracked hasKv ops).1.prev = (Spec.run hasKv ops).hist :=
  (inv_run hasKv ops).prev

/-- **C32.T3 is false for the code as found** (`Rule.legacy`: the prompt is copied into
`prev_tokens` only while `prev_tokens` is empty).  Witness (chat style):
`with_prompt [1]; next → 5; append_prompt [7]; next → 6` — the model is fed `1`, then `5 7`,
and produces `5`, `6`; the history is `1 5 7 6` but `prev_tokens = 1 5 6`. -/
theorem c32_T3_legacy_false :
    ¬ ∀ (hasKv : Bool) (ops : List Op),
        (run .legacy hasKv ops).1.prev = (Spec.run hasKv ops).hist := by
  intro h
  have := h true [.withPrompt [1], .next 5, .append [7], .next 6]
  revert this
  decide

/-- The witness evaluated: what the legacy rule records vs the history. -/
example :
    (run .legacy true [.withPrompt [1], .next 5, .append [7], .next 6]).1.prev = [1, 5, 6] ∧
    (Spec.run true [.withPrompt [1], .next 5, .append [7], .next 6]).hist = [1, 5, 7, 6] ∧
    (run .tracked true [.withPrompt [1], .next 5, .append [7], .next 6]).1.prev = [1, 5, 7, 6] := by
  decide

/-- The recording rule does not influence what the model is fed: T1/T2 held for the code as
found as well (same call log for every history). -/
theorem c32_legacy_same_calls (hasKv : Bool) (ops : List Op) :
    (run .legacy hasKv ops).2 = (run .tracked hasKv ops).2 := by
  -- states agree on every field except `prev`/`recorded`
  suffices H : ∀ (ops : List Op) (s s' : State),
      s.inputIds = s'.inputIds → s.offset = s'.offset → s.kv = s'.kv → s.enc = s'.enc →
      s.calls = s'.calls → (runFrom .legacy s ops).2 = (runFrom .tracked s' ops).2 from
    H ops _ _ rfl rfl rfl rfl rfl
  intro ops
  induction ops with
  | nil => intros; rfl
  | cons op ops ih =>
    intro s s' h1 h2 h3 h4 h5
    simp only [runFrom]
    have key : (step .legacy s op).call = (step .tracked s' op).call ∧
        (step .legacy s op).st.inputIds = (step .tracked s' op).st.inputIds ∧
        (step .legacy s op).st.offset = (step .tracked s' op).st.offset ∧
        (step .legacy s op).st.kv = (step .tracked s' op).st.kv ∧
        (step .legacy s op).st.enc = (step .tracked s' op).st.enc ∧
        (step .legacy s op).st.calls = (step .tracked s' op).st.calls := by
      cases op <;> cases hk : s'.kv <;>
        simp [step, generateImpl, generateFail, callOf, h1, h2, h3, h4, h5, hk] <;>
        (try split) <;> simp_all
    obtain ⟨kc, k1, k2, k3, k4, k5⟩ := key
    rw [kc, ih _ _ k1 k2 k3 k4 k5]

/-! ## Non-vacuity: a chat-style history exercising every operation -/

/-- A concrete history with a KV cache: prompt, generate, append (chat), clear, empty-filter
error, `with_prompt` mid-history, a failing run.  Calls (tokens, start, cache, logits, mask
length, cache flag, encoder cache, success), final state and `prev_tokens`. -/
example :
    run .tracked true
      [.withPrompt [1, 2], .next 3, .append [4, 5], .next 6, .clear, .append [7], .process,
       .append [8], .nextEmpty, .withPrompt [9], .nextFail, .next 10] =
    ({ inputIds := [10], offset := 8, prev := [1, 2, 3, 4, 5, 6, 7, 8, 9, 10], recorded := 1,
       kv := some (some (6, 1)), enc := 1, calls := 6 },
     [⟨[1, 2], 0, some (some (0, 0)), true, 2, false, 0, true⟩,
      ⟨[3, 4, 5], 2, some (some (1, 2)), true, 5, true, 1, true⟩,
      ⟨[7], 5, some (some (2, 5)), false, 6, true, 1, true⟩,
      ⟨[8], 6, some (some (3, 6)), true, 7, true, 1, true⟩,
      ⟨[9], 7, some (some (4, 7)), true, 8, true, 1, false⟩,
      ⟨[9], 7, some none, true, 8, true, 1, true⟩]) := by
  decide

/-- The same kind of history without KV cache: everything is resubmitted from position 0. -/
example :
    (run .tracked false [.withPrompt [1, 2], .next 3, .append [4], .next 5]).2 =
     [⟨[1, 2], 0, none, true, 2, false, 0, true⟩, ⟨[1, 2, 3, 4], 0, none, true, 4, false, 1, true⟩] ∧
    (run .tracked false [.withPrompt [1, 2], .next 3, .append [4], .next 5]).1.prev = [1, 2, 3, 4, 5] := by
  decide

/-- `submitted` on a history with every kind of discard: `clear_prompt` also discards the
sampled token that was waiting, a second `with_prompt` replaces the first, a failed run
changes nothing. -/
example : submitted [.withPrompt [1, 2], .next 3, .append [4, 5], .clear, .append [6], .process,
    .withPrompt [7], .withPrompt [8], .nextFail, .next 9] = [1, 2, 6, 8, 9] := by decide

/-- Non-vacuity of the error-free hypotheses and of `c32_T7`. -/
example : (∀ op ∈ [Op.withPrompt [1], .next 2, .append [3], .process], op.isFail = false) ∧
    (∀ op ∈ [Op.next 2, .append [3], .processFail, .process], op.discards = false) := by decide

end RtenVerif.Generator
