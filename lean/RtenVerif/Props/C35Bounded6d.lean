import RtenVerif.Props.C35Bounded6Defs

/-! C35.S3 bounded scope, chunk `d`: smallest code in `0..0`, second smallest in `4..15`
(kernel evaluation; bounded statement). -/
namespace RtenVerif.Poly

theorem c35_chunk6_d : chunkOk 0 0 4 15 = true := by decide +kernel

end RtenVerif.Poly
