import RtenVerif.Model.PolyRect
import Mathlib.Tactic.Linarith
import Mathlib.Tactic.LinearCombination
import Mathlib.Tactic.FieldSimp
import Mathlib.Tactic.Ring
import Mathlib.Algebra.Order.Field.Basic

/-!
# C35.T4 — `min_area_rect`: the rect built from a candidate edge contains every folded point

Exact arithmetic over an arbitrary ordered field `K` with the edge length as a parameter `n`
(`n·n = d·d`), so no square roots; model `RtenVerif.Model.PolyRect`.  `f32` rounding of the real
code is execution-only (harness oracle with tolerance + the `rect` request of the driver).
-/
namespace RtenVerif.PolyRect

variable {K : Type} [Field K] [LinearOrder K] [IsStrictOrderedRing K]

theorem kmin_le (a b : K) : kmin a b ≤ a ∧ kmin a b ≤ b := by
  unfold kmin; split
  · rename_i h; exact ⟨le_of_lt h, le_refl _⟩
  · rename_i h; exact ⟨le_refl _, not_lt.mp h⟩

theorem le_kmax (a b : K) : a ≤ kmax a b ∧ b ≤ kmax a b := by
  unfold kmax; split
  · rename_i h; exact ⟨le_of_lt h, le_refl _⟩
  · rename_i h; exact ⟨le_refl _, not_lt.mp h⟩

/-- `acc` bounds the projections of `p`. -/
def Cov (s e : K × K) (n : K) (acc : K × K × K) (p : K × K) : Prop :=
  acc.1 ≤ parProj s e n p ∧ parProj s e n p ≤ acc.2.1 ∧ perpProj s e n p ≤ acc.2.2

theorem edgeFold_cov (s e : K × K) (n : K) (ps : List (K × K)) (acc : K × K × K) (p : K × K)
    (h : p ∈ ps ∨ Cov s e n acc p) :
    Cov s e n (ps.foldl (fun acc p =>
      (kmin acc.1 (parProj s e n p), kmax acc.2.1 (parProj s e n p),
        kmax acc.2.2 (perpProj s e n p))) acc) p := by
  induction ps generalizing acc with
  | nil => rcases h with h | h; exact absurd h (by simp); exact h
  | cons q qs ih =>
    simp only [List.foldl_cons]
    apply ih
    rcases h with h | h
    · rcases List.mem_cons.mp h with rfl | h
      · right
        exact ⟨(kmin_le _ _).2, (le_kmax _ _).2, (le_kmax _ _).2⟩
      · exact Or.inl h
    · right
      obtain ⟨h1, h2, h3⟩ := h
      exact ⟨le_trans (kmin_le _ _).1 h1, le_trans h2 (le_kmax _ _).1, le_trans h3 (le_kmax _ _).1⟩

/-- **C35.T4 (formulas)** For every candidate edge `s → e` with length `n` (`n·n = d·d`, `n ≠ 0`),
the rect the code builds — axes `d/n` and its perpendicular, `width = max_par − min_par`,
`height = max_perp`, `center = s + par·((min_par + max_par)/2) + perp·(height/2)` — contains every
point whose projections were folded, provided no folded point lies on the outer side of the edge
(`0 ≤ perp_proj`, which is what "the edge is a hull edge" means; the code does not fold a
`min_perp`).  Exact arithmetic over any ordered field; `f32` rounding is not covered. -/
theorem c35_rect_contains_all (s e : K × K) (n : K) (p0 : K × K) (ps : List (K × K))
    (hn : n * n = (e.1 - s.1) * (e.1 - s.1) + (e.2 - s.2) * (e.2 - s.2)) (hn0 : n ≠ 0)
    (hleft : ∀ p ∈ p0 :: ps, 0 ≤ perpProj s e n p) :
    ∀ p ∈ p0 :: ps, Contains (edgeRect s e n p0 ps) p := by
  intro p hp
  have hcov : Cov s e n (edgeFold s e n p0 ps) p := by
    unfold edgeFold
    apply edgeFold_cov
    rcases List.mem_cons.mp hp with rfl | h
    · right; exact ⟨le_refl _, le_refl _, le_refl _⟩
    · exact Or.inl h
  obtain ⟨c1, c2, c3⟩ := hcov
  have hq := hleft p hp
  have hab : (e.1 - s.1) / n * ((e.1 - s.1) / n) + (e.2 - s.2) / n * ((e.2 - s.2) / n) = 1 := by
    field_simp
    linear_combination -hn
  unfold Contains edgeRect
  simp only
  unfold parProj at c1 c2
  unfold perpProj at c3 hq
  generalize (edgeFold s e n p0 ps).1 = mn at *
  generalize (edgeFold s e n p0 ps).2.1 = mx at *
  generalize (edgeFold s e n p0 ps).2.2 = hh at *
  generalize (e.1 - s.1) / n = a at *
  generalize (e.2 - s.2) / n = b at *
  have e1 : (p.1 - (s.1 + a * ((mn + mx) / 2) + -b * (hh / 2))) * -b +
      (p.2 - (s.2 + b * ((mn + mx) / 2) + a * (hh / 2))) * a =
      (-b * (p.1 - s.1) + a * (p.2 - s.2)) - hh / 2 := by
    linear_combination (-(hh / 2)) * hab
  have e2 : (p.1 - (s.1 + a * ((mn + mx) / 2) + -b * (hh / 2))) * a +
      (p.2 - (s.2 + b * ((mn + mx) / 2) + a * (hh / 2))) * -(-b) =
      (a * (p.1 - s.1) + b * (p.2 - s.2)) - (mn + mx) / 2 := by
    linear_combination (-((mn + mx) / 2)) * hab
  rw [e1, e2]
  refine ⟨by linarith, by linarith, by linarith, by linarith⟩


/-- The selected rect is the initial one or the rect of one of the candidate edges. -/
theorem selectRect_mem (p0 : K × K) (ps : List (K × K)) :
    ∀ (edges : List ((K × K) × (K × K) × K)) (cur : RRect K),
      selectRect p0 ps edges cur = cur ∨
      ∃ x ∈ edges, selectRect p0 ps edges cur = edgeRect x.1 x.2.1 x.2.2 p0 ps := by
  intro edges
  induction edges with
  | nil => intro cur; exact Or.inl rfl
  | cons x rest ih =>
    intro cur
    obtain ⟨s, e, n⟩ := x
    simp only [selectRect]
    split
    · rcases ih (edgeRect s e n p0 ps) with h | ⟨y, hy, h⟩
      · exact Or.inr ⟨(s, e, n), List.mem_cons_self, h⟩
      · exact Or.inr ⟨y, List.mem_cons_of_mem _ hy, h⟩
    · rcases ih cur with h | ⟨y, hy, h⟩
      · exact Or.inl h
      · exact Or.inr ⟨y, List.mem_cons_of_mem _ hy, h⟩

/-- **C35.T4 (selection)** Whatever edge the area comparison selects: if every candidate edge
carries its true length and has all hull points on its inner side, and the current (initial)
rect contains all hull points, then the rect `selectRect` returns contains all hull points. -/
theorem c35_selectRect_contains_all (p0 : K × K) (ps : List (K × K))
    (edges : List ((K × K) × (K × K) × K)) (cur : RRect K)
    (hcur : ∀ p ∈ p0 :: ps, Contains cur p)
    (hedges : ∀ x ∈ edges,
      x.2.2 * x.2.2 = (x.2.1.1 - x.1.1) * (x.2.1.1 - x.1.1) + (x.2.1.2 - x.1.2) * (x.2.1.2 - x.1.2) ∧
      x.2.2 ≠ 0 ∧ ∀ p ∈ p0 :: ps, 0 ≤ perpProj x.1 x.2.1 x.2.2 p) :
    ∀ p ∈ p0 :: ps, Contains (selectRect p0 ps edges cur) p := by
  rcases selectRect_mem p0 ps edges cur with h | ⟨x, hx, h⟩
  · rw [h]; exact hcur
  · rw [h]
    obtain ⟨h1, h2, h3⟩ := hedges x hx
    exact c35_rect_contains_all x.1 x.2.1 x.2.2 p0 ps h1 h2 h3

/-! ### The seeded centre formula -/

/-- The rect with the centre of seed C35_c: `par_axis * (width / 2)` instead of
`par_axis * ((min_par + max_par) / 2)`. -/
def edgeRectSeeded (s e : K × K) (n : K) (p0 : K × K) (ps : List (K × K)) : RRect K :=
  let r := edgeRect s e n p0 ps
  let parX := (e.1 - s.1) / n
  let parY := (e.2 - s.2) / n
  { r with cx := s.1 + parX * (r.w / 2) + (-parY) * (r.h / 2),
           cy := s.2 + parY * (r.w / 2) + parX * (r.h / 2) }

/-- Hull `(0,0) (3,4) (-7,-1)`, edge `(0,0) → (3,4)` of length 5 (obtuse angle at its start, so
`min_par = -5 < 0`).  The code's formulas contain all three points… -/
example : ∀ p ∈ [((0 : ℚ), (0 : ℚ)), (3, 4), (-7, -1)],
    Contains (edgeRect (0, 0) (3, 4) 5 ((0 : ℚ), (0 : ℚ)) [(3, 4), (-7, -1)]) p := by
  apply c35_rect_contains_all <;> norm_num [perpProj]

/-- **C35.T4 negation witness for seed C35_c** …but with the seeded centre `par·(width/2)` the
point `(-7,-1)` is outside the rect. -/
theorem c35_rect_seeded_centre_false :
    ¬ Contains (edgeRectSeeded (0, 0) (3, 4) 5 ((0 : ℚ), (0 : ℚ)) [(3, 4), (-7, -1)]) (-7, -1) := by
  norm_num [Contains, edgeRectSeeded, edgeRect, edgeFold, parProj, perpProj, kmin, kmax]

end RtenVerif.PolyRect
