import RtenVerif.Lemmas.LoaderConst
import RtenVerif.Props.C20

/-!
# C05 — Loading untrusted model bytes is safe, bounded and well-formed

Theorems over `RtenVerif/Model/LoaderConst.lean` (machine-integer model of the constant
construction of `src/model/onnx_loader.rs` and `src/model/rten_loader.rs`), composed with
C06 (`try_from_data` soundness, machine = ideal arithmetic), C20 (`.rten` header) and, outside
this file, C38 (protobuf reader) and C21 (external data ranges).

* **T1** the `.rten` header: every accepted header is in bounds (`c20_header_accept_bounds`),
  hence the model-segment slice `&file_data[offset..offset + len]` cannot panic, in release and
  in overflow-checking builds.
* **T2** constant well-formedness: every constant either loader ACCEPTS has
  `ideal product of dims = number of elements backing it ≤ isize::MAX`, the bytes of those
  elements lie inside the data source (`len * size ≤ |raw_data|`, resp.
  `tensor_data_offset + data_offset + len * size ≤ |file|` over `Nat`), and every in-bounds
  index maps below the data length.
* **T3** every rejection is an `Err`, never a panic — for the code after the three C05 `fix:`
  commits.  For the code before them T3 is FALSE (`c05_T3_old_*_false`, `decide`d witnesses that
  were replayed through `Model::load`), while T2 already held (`c05_T2_rten_old`) thanks to the
  C06 fix; with the tensor constructor from before the C06 fix T2 was false as well
  (`c05_T2_before_c06_fix_false`).
-/
namespace RtenVerif.LoaderConst
open RtenVerif.TensorBounds RtenVerif.Overlap

/-! ## T1: header and model segment -/

open RtenVerif.RtenHeader in
/-- **C05.T1** an accepted header describes a model segment inside the file, and the slice
expression `&file_data[offset..offset + len]` of `rten_loader::load` evaluates without overflow
or out-of-range panic in both build modes. -/
theorem c05_T1_model_slice_safe (buf : List Nat) (h : Header) (hb : ∀ b ∈ buf, b < 256)
    (hsz : buf.length < 2 ^ 63) (hok : fromBuf buf = .ok h) (ovf : Bool) :
    h.modelOffset + h.modelLen ≤ buf.length ∧ h.tensorDataOffset ≤ buf.length ∧
    modelSlice ovf (UInt64.ofNat h.modelOffset) (UInt64.ofNat h.modelLen)
      (UInt64.ofNat buf.length) = some (h.modelOffset, h.modelOffset + h.modelLen) := by
  obtain ⟨_, _, h3, _, h5, _⟩ := c20_header_accept_bounds buf h hb hsz hok
  refine ⟨h3, h5, ?_⟩
  have e1 : (UInt64.ofNat h.modelOffset).toNat = h.modelOffset :=
    UInt64.toNat_ofNat_of_lt' (by show _ < 2 ^ 64; omega)
  have e2 : (UInt64.ofNat h.modelLen).toNat = h.modelLen :=
    UInt64.toNat_ofNat_of_lt' (by show _ < 2 ^ 64; omega)
  have e3 : (UInt64.ofNat buf.length).toNat = buf.length :=
    UInt64.toNat_ofNat_of_lt' (by show _ < 2 ^ 64; omega)
  have hW : wordSize = 2 ^ 64 := by decide
  have e4 : (UInt64.ofNat h.modelOffset + UInt64.ofNat h.modelLen).toNat =
      h.modelOffset + h.modelLen := by
    rw [M.add_toNat, e1, e2, Nat.mod_eq_of_lt (by omega)]
  unfold modelSlice addMode
  rw [e1, e2]
  have hno : ¬ (ovf = true ∧ wordSize ≤ h.modelOffset + h.modelLen) := by omega
  simp only [hno, if_false]
  have c1 : UInt64.ofNat h.modelOffset ≤ UInt64.ofNat h.modelOffset + UInt64.ofNat h.modelLen := by
    rw [UInt64.le_iff_toNat_le, e4, e1]; omega
  have c2 : UInt64.ofNat h.modelOffset + UInt64.ofNat h.modelLen ≤ UInt64.ofNat buf.length := by
    rw [UInt64.le_iff_toNat_le, e4, e3]; exact h3
  simp only [c1, c2, and_self, if_true, e4]

/-- Non-vacuity: a 40-byte file with an 8-byte model segment. -/
example : RtenHeader.fromBuf (RtenHeader.toBuf ⟨2, 32, 8, 40⟩ ++ List.replicate 8 0) =
    .ok ⟨2, 32, 8, 40⟩ := by decide

/-! ## T2: accepted constants are well formed -/

/-- `len` elements of `size` bytes are present in the data source: for byte sources the
elements fit in the bytes present, for typed fields the count is the field's length. -/
def SrcBacked (src : Src) (size : Nat) (len : Nat) : Prop :=
  match src with
  | .raw b => len * size ≤ b.toNat
  | .ext b _ => len * size ≤ b.toNat
  | .typed n => len = n.toNat

/-- Bytes / elements that actually back an accepted ONNX initializer. -/
def Backed (c : OnnxInit) (len : Nat) : Prop :=
  SrcBacked (pickSrc c) (srcElemSize c.dtype) len

theorem castSliceLen_le {size b o n : U} (h : castSliceLen size b o = some n) :
    n.toNat * size.toNat ≤ b.toNat := by
  unfold castSliceLen at h
  split at h
  · cases h; simp
  · split at h
    · cases h; exact div_mul_le_toNat b size
    · cases h

theorem directLen_backed {size : U} {src : Src} {n : U} (h : directLen size src = some n) :
    SrcBacked src size.toNat n.toNat := by
  cases src with
  | raw b =>
    simp only [directLen] at h
    split at h
    · cases h; exact div_mul_le_toNat b size
    · cases h
  | ext b o => exact castSliceLen_le h
  | typed k => simp only [directLen] at h; cases h; exact rfl

theorem convLen_backed (size : U) (src : Src) :
    SrcBacked src size.toNat (convLen size src).toNat := by
  cases src with
  | raw b => exact div_mul_le_toNat b size
  | ext b o => exact div_mul_le_toNat b size
  | typed k => exact rfl

theorem f16Len_backed {src : Src} {n : U} (h : f16Len src = some n) :
    SrcBacked src 2 n.toNat := by
  cases src with
  | raw b => exact castSliceLen_le (size := 2) h
  | ext b o => exact castSliceLen_le (size := 2) h
  | typed k => simp only [f16Len] at h; cases h; exact rfl

/-- **C05.T2 (ONNX)** every initializer `load_constant` accepts: no dimension is negative, the
tensor's shape is the initializer's `dims`, the ideal product of the dims equals the number of
elements built from the data source, that number fits `isize`, those elements are present in
the data source, and (C06) every valid index is in bounds. -/
theorem c05_T2_onnx (c : OnnxInit) (hi : ∀ d ∈ c.dims, d < 2 ^ 63) {shape : List Nat} {len : Nat}
    (h : loadConstant c = .ok shape len) :
    (∀ d ∈ c.dims, 0 ≤ d) ∧ shape = c.dims.map Int.toNat ∧ WellFormed shape len ∧
    Backed c len ∧
    ∀ idx, ValidIdx (contigDims shape) idx → offset (contigDims shape) idx < len := by
  unfold loadConstant at h
  split at h
  · cases h
  · next s hs =>
    obtain ⟨hnn, hsm⟩ := onnxShape_some hs hi
    have key : ∀ n : U, tryFromData s n = .ok shape len →
        SrcBacked (pickSrc c) (srcElemSize c.dtype) n.toNat →
        (∀ d ∈ c.dims, 0 ≤ d) ∧ shape = c.dims.map Int.toNat ∧ WellFormed shape len ∧
        Backed c len ∧
        ∀ idx, ValidIdx (contigDims shape) idx → offset (contigDims shape) idx < len := by
      intro n hn hb
      obtain ⟨e1, e2, wf⟩ := tryFromData_ok hn
      refine ⟨hnn, by rw [e1, hsm], wf, ?_, fun idx hv => wf.in_bounds hv⟩
      unfold Backed
      rw [e2]
      exact hb
    split at h
    · cases h
    · cases h
    · cases h
    · simp only at h
      split at h
      -- float / int32
      · next hdt =>
        split at h
        · cases h
        · next n hn => exact key n h (by rw [hdt]; exact directLen_backed hn)
      · next hdt =>
        split at h
        · cases h
        · next n hn => exact key n h (by rw [hdt]; exact directLen_backed hn)
      -- uint8 / int8
      · next hdt =>
        split at h
        · cases h
        · next n hn => exact key n h (by rw [hdt]; exact directLen_backed hn)
      · next hdt =>
        split at h
        · cases h
        · next n hn => exact key n h (by rw [hdt]; exact directLen_backed hn)
      -- int64 / double
      · next hdt => exact key _ h (by rw [hdt]; exact convLen_backed 8 _)
      · next hdt => exact key _ h (by rw [hdt]; exact convLen_backed 8 _)
      -- bool
      · next hdt => exact key _ h (by rw [hdt]; exact convLen_backed 1 _)
      -- float16
      · next hdt =>
        split at h
        · cases h
        · next n hn => exact key n h (by rw [hdt]; exact f16Len_backed hn)
      · cases h
      · cases h

/-- Non-vacuity of T2 (ONNX): a 2×3 float initializer with 24 bytes of `raw_data`, and an
int64 initializer read from external data. -/
example : loadConstant ⟨[2, 3], .float, some 24, .none, ⟨0, 0, 0, 0⟩⟩ = .ok [2, 3] 6 := by decide
example : loadConstant ⟨[4], .int64, none, .ok 32 8, ⟨0, 0, 0, 0⟩⟩ = .ok [4] 4 := by decide

/-- Where the bytes of an accepted `.rten` constant live. -/
def RBacked (f : RtenFile) (c : RtenConst) (len : Nat) : Prop :=
  match c.data with
  | .inline n => len = n.toNat
  | .stored off => ∃ tdo, f.tensorDataOffset = some tdo ∧
      tdo.toNat + off.toNat + len * c.ty.size.toNat ≤ f.storageLen.toNat

/-- **C05.T2 (.rten)** every constant `add_graph_constant` accepts: the shape is the file's
dims, the ideal product of the dims equals the element count of the data, which fits `isize`;
inline data has exactly that many elements; stored data occupies
`[tensor_data_offset + data_offset, … + len * size)` INSIDE the file — over `Nat`, no wrap —
and (C06) every valid index is in bounds. -/
theorem c05_T2_rten (f : RtenFile) (c : RtenConst) {shape : List Nat} {len : Nat}
    (h : addGraphConstant f c = .ok shape len) :
    shape = M.toNs c.dims ∧ WellFormed shape len ∧ RBacked f c len ∧
    ∀ idx, ValidIdx (contigDims shape) idx → offset (contigDims shape) idx < len := by
  unfold addGraphConstant at h
  unfold RBacked
  split at h
  · next dataOffset hd =>
    rw [hd]
    split at h
    · cases h
    · next tdo htdo =>
      split at h
      · cases h
      · next off hoff =>
        split at h
        · cases h
        · unfold fromStorageOffset at h
          split at h
          · cases h
          · split at h
            · cases h
            · next byteLen hbl =>
              split at h
              · cases h
              · next stop hstop =>
                split at h
                · next hle =>
                  obtain ⟨e1, e2, wf⟩ := tryFromData_ok h
                  refine ⟨e1, wf, ⟨tdo, htdo, ?_⟩, fun idx hv => wf.in_bounds hv⟩
                  have a1 := checkedAdd_some hoff
                  have a2 := checkedAdd_some hstop
                  have a3 := div_mul_le_toNat byteLen c.ty.size
                  rw [UInt64.le_iff_toNat_le] at hle
                  rw [e2]
                  omega
                · cases h
  · next n hd =>
    rw [hd]
    split at h
    · cases h
    · obtain ⟨e1, e2, wf⟩ := tryFromData_ok h
      exact ⟨e1, wf, e2, fun idx hv => wf.in_bounds hv⟩

/-- For stored constants the checked product is the exact byte length: an accepted constant's
data is `product(dims) * size` bytes, not a truncation of it. -/
theorem c05_T2_rten_stored_exact {size : U} {shape : List U} {offset slen : U} {s : List Nat}
    {len : Nat} (hs : 0 < size.toNat) (h : fromStorageOffset size shape offset slen = .ok s len) :
    len = prod (M.toNs shape) ∧ offset.toNat + prod (M.toNs shape) * size.toNat ≤ slen.toNat := by
  unfold fromStorageOffset at h
  split at h
  · cases h
  · next n hn =>
    split at h
    · cases h
    · next byteLen hbl =>
      split at h
      · cases h
      · next stop hstop =>
        split at h
        · next hle =>
          obtain ⟨_, e2, wf⟩ := tryFromData_ok h
          have p := (checkedProd_one_eq hn).2
          have q := checkedMul_some hbl
          have a2 := checkedAdd_some hstop
          rw [UInt64.le_iff_toNat_le] at hle
          have hlen : len = prod (M.toNs shape) := by
            rw [e2, UInt64.toNat_div, q, p, Nat.mul_div_cancel _ hs]
          refine ⟨hlen, ?_⟩
          rw [← p, ← q]
          omega
        · cases h

/-- Non-vacuity of T2 (.rten): a stored 2×2 f32 constant at offset 36 of a 100-byte file, an
inline constant, and an empty stored constant with a zero dimension. -/
example : addGraphConstant ⟨some 32, 100⟩ ⟨[2, 2], .f32, .stored 4⟩ = .ok [2, 2] 4 := by decide
example : addGraphConstant ⟨none, 100⟩ ⟨[3], .i8, .inline 3⟩ = .ok [3] 3 := by decide
example : addGraphConstant ⟨some 32, 100⟩ ⟨[0, 7], .u8, .stored 68⟩ = .ok [0, 7] 0 := by decide

/-! ## T3: rejections are errors, not panics -/

/-- **C05.T3 (ONNX)** `load_constant` never panics, whatever the initializer says. -/
theorem c05_T3_onnx_no_panic (c : OnnxInit) : loadConstant c ≠ .panic := by
  unfold loadConstant
  have t := tryFromData_ne_panic
  split
  · simp
  · split <;> try simp
    split <;> (try simp) <;> (try exact t _ _) <;> (split <;> (try simp) <;> exact t _ _)

/-- **C05.T3 (.rten)** `add_graph_constant` (after the fixes) never panics, in either build
mode (the model has no mode parameter: all its arithmetic is checked). -/
theorem c05_T3_rten_no_panic (f : RtenFile) (c : RtenConst) : addGraphConstant f c ≠ .panic := by
  unfold addGraphConstant fromStorageOffset
  have t := tryFromData_ne_panic
  repeat' split
  all_goals first | exact t _ _ | simp

/-- **C05.T2+T3 for a whole graph**: building the constants of a graph in order either fails
with the `LoadError` of the first rejected constant — never with a panic — or yields constants
each of which was accepted by `build` (hence is well formed by T2). -/
theorem c05_loadAll {α : Type} (build : α → Outcome) (hnp : ∀ a, build a ≠ .panic) (cs : List α) :
    (∀ o, loadAll build cs = .error o → ∃ e, o = .err e) ∧
    (∀ rs, loadAll build cs = .ok rs → ∀ r ∈ rs, ∃ a ∈ cs, build a = .ok r.1 r.2) := by
  induction cs with
  | nil =>
    refine ⟨fun o h => by simp [loadAll] at h, fun rs h r hr => ?_⟩
    simp only [loadAll] at h
    cases h
    cases hr
  | cons c cs ih =>
    refine ⟨fun o h => ?_, fun rs h r hr => ?_⟩
    · simp only [loadAll] at h
      split at h
      · split at h
        · cases h
        · next e he => cases h; exact ih.1 _ he
      · next o' hne =>
        cases h
        cases hb : build c with
        | ok s n => exact absurd hb (hne s n)
        | err e => exact ⟨e, rfl⟩
        | panic => exact absurd hb (hnp c)
    · simp only [loadAll] at h
      split at h
      · next s n hb =>
        split at h
        · next rest hrest =>
          cases h
          rcases List.mem_cons.mp hr with rfl | hr
          · exact ⟨c, List.mem_cons_self .., hb⟩
          · obtain ⟨a, ha, hba⟩ := ih.2 rest hrest r hr
            exact ⟨a, List.mem_cons_of_mem _ ha, hba⟩
        · cases h
      · cases h

/-- Every constant of a successfully loaded `.rten` graph is well formed. -/
theorem c05_rten_graph (f : RtenFile) (cs : List RtenConst) {rs : List (List Nat × Nat)}
    (h : loadAll (addGraphConstant f) cs = .ok rs) : ∀ r ∈ rs, WellFormed r.1 r.2 := by
  intro r hr
  obtain ⟨a, _, ha⟩ := (c05_loadAll _ (c05_T3_rten_no_panic f) cs).2 rs h r hr
  exact (c05_T2_rten f a ha).2.1

/-- Every constant of a successfully loaded ONNX graph is well formed. -/
theorem c05_onnx_graph (cs : List OnnxInit) (hi : ∀ c ∈ cs, ∀ d ∈ c.dims, d < 2 ^ 63)
    {rs : List (List Nat × Nat)} (h : loadAll loadConstant cs = .ok rs) :
    ∀ r ∈ rs, WellFormed r.1 r.2 := by
  intro r hr
  obtain ⟨a, hm, ha⟩ := (c05_loadAll _ c05_T3_onnx_no_panic cs).2 rs h r hr
  exact (c05_T2_onnx a (hi a hm) ha).2.2.1

/-- **(c) negative ONNX dims** are always rejected with the "invalid shape" error, before any
data is looked at. -/
theorem c05_onnx_negative_dim_rejected (c : OnnxInit) (h : ∃ d ∈ c.dims, d < 0) :
    loadConstant c = .err .shape := by
  unfold loadConstant
  rw [onnxShape_none_iff_neg.mpr h]

/-- **(d) completeness of the range check**: a stored constant whose bytes would end past the
end of the file — in particular whenever `offset + size * product(dims)` does not fit in 64
bits — is rejected with "invalid tensor data offset"; nothing wraps into range. -/
theorem c05_rten_out_of_file_rejected (size : U) (shape : List U) (offset slen : U)
    (h : slen.toNat < offset.toNat + prod (M.toNs shape) * size.toNat) :
    fromStorageOffset size shape offset slen = .err .offset := by
  unfold fromStorageOffset
  split
  · rfl
  · next n hn =>
    have p := (checkedProd_one_eq hn).2
    split
    · rfl
    · next byteLen hbl =>
      have q := checkedMul_some hbl
      split
      · rfl
      · next stop hstop =>
        have a := checkedAdd_some hstop
        split
        · next hle =>
          rw [UInt64.le_iff_toNat_le] at hle
          rw [← p, ← q] at h
          omega
        · rfl

/-- Non-vacuity: `2^64` one-byte elements at offset 5 of a 408-byte file. -/
example : (408 : U).toNat < (5 : U).toNat +
    prod (M.toNs [65536, 65536, 65536, 65536]) * (1 : U).toNat := by decide

/-! ## The code before the C05 fixes -/

/-- **T3 was false (1)**: an inline f32 constant with shape `[3]` and two elements made
`ArcTensorView::from_data` panic inside `Model::load` (harness request
`rtenold rel inline f32 3 n=2`). -/
theorem c05_T3_old_inline_false :
    Old.addGraphConstant false ⟨none, 0⟩ ⟨[3], .f32, .inline 2⟩ = .panic ∧
    Old.addGraphConstant true ⟨none, 0⟩ ⟨[3], .f32, .inline 2⟩ = .panic := by decide

/-- **T3 was false (2)**: stored constants whose dims multiply past the address space.
`[65536, 65536, 65536, 65536]` (u8): the element count wraps to 0, the empty byte range is in
bounds, `from_data` rejects the shape → panic (release); with overflow checks
`iter().product()` panics.  `[2^31, 2^31]` (f32): the element count `2^62` is fine but
`* size_of::<f32>()` wraps to 0 → `from_data` panics on `0 ≠ 2^62`. -/
theorem c05_T3_old_stored_false :
    Old.addGraphConstant false ⟨some 400, 408⟩ ⟨[65536, 65536, 65536, 65536], .u8, .stored 5⟩ = .panic ∧
    Old.addGraphConstant true ⟨some 400, 408⟩ ⟨[65536, 65536, 65536, 65536], .u8, .stored 5⟩ = .panic ∧
    Old.addGraphConstant false ⟨some 392, 420⟩ ⟨[2147483648, 2147483648], .i32, .stored 0⟩ = .panic ∧
    Old.addGraphConstant false ⟨some 400, 401⟩
      ⟨[4294967295, 4294967295, 4294967295, 0], .i8, .stored 0⟩ = .panic := by decide

/-- **T3 was false (3)**: with overflow checks `offset + byte_len` itself panicked. -/
theorem c05_T3_old_offset_add_false :
    Old.fromStorageOffset true 1 [4294967295, 4294967295] 18446744073709551615 100 = .panic ∧
    Old.fromStorageOffset false 1 [4294967295, 4294967295] 18446744073709551615 100 = .err .offset := by
  decide

/-- The fixed code answers the same requests with a `LoadError`. -/
theorem c05_T3_fixed_rejects_witnesses :
    addGraphConstant ⟨none, 0⟩ ⟨[3], .f32, .inline 2⟩ = .err .mismatch ∧
    addGraphConstant ⟨some 400, 408⟩ ⟨[65536, 65536, 65536, 65536], .u8, .stored 5⟩ = .err .offset ∧
    addGraphConstant ⟨some 392, 420⟩ ⟨[2147483648, 2147483648], .i32, .stored 0⟩ = .err .offset ∧
    addGraphConstant ⟨some 400, 401⟩
      ⟨[4294967295, 4294967295, 4294967295, 0], .i8, .stored 0⟩ = .err .offset ∧
    addGraphConstant ⟨some 400, 401⟩
      ⟨[0, 4294967295, 4294967295, 4294967295], .i8, .stored 0⟩ = .err .mismatch ∧
    fromStorageOffset 1 [4294967295, 4294967295] 18446744073709551615 100 = .err .offset := by
  decide

/-- **T2 already held before the C05 fixes** (partial statement: T2 without T3): whatever the
old code accepted was well formed and inside the file, because `from_data` (after the C06 fix)
compares the ideal element count with the slice that `get(offset..end)` really returned. -/
theorem c05_T2_rten_old (ovf : Bool) (f : RtenFile) (c : RtenConst) {shape : List Nat} {len : Nat}
    (h : Old.addGraphConstant ovf f c = .ok shape len) :
    shape = M.toNs c.dims ∧ WellFormed shape len ∧ RBacked f c len := by
  unfold Old.addGraphConstant at h
  unfold RBacked
  split at h
  · next dataOffset hd =>
    rw [hd]
    split at h
    · cases h
    · next tdo htdo =>
      split at h
      · cases h
      · next off hoff =>
        split at h
        · cases h
        · unfold Old.fromStorageOffset at h
          split at h
          · cases h
          · split at h
            · cases h
            · next byteLen _ =>
              split at h
              · cases h
              · next stop _ =>
                split at h
                · next hle =>
                  obtain ⟨e1, e2, wf⟩ := fromData_ok h
                  refine ⟨e1, wf, ⟨tdo, htdo, ?_⟩⟩
                  have a1 := checkedAdd_some hoff
                  have a3 := div_mul_le_toNat (stop - off) c.ty.size
                  have a4 := UInt64.toNat_sub_of_le stop off hle.1
                  have h1 := hle.1
                  have h2 := hle.2
                  rw [UInt64.le_iff_toNat_le] at h1 h2
                  rw [e2]
                  omega
                · cases h
  · next n hd =>
    rw [hd]
    split at h
    · cases h
    · obtain ⟨e1, e2, wf⟩ := fromData_ok h
      exact ⟨e1, wf, e2⟩

/-- **The fix is conservative (stored constants)**: wherever the old release-build code did not
panic, the fixed code returns exactly the same outcome — the same constant or the same error. -/
theorem c05_fix_conservative_stored (size : U) (shape : List U) (offset slen : U)
    (hs : size = 1 ∨ size = 4)
    (h : Old.fromStorageOffset false size shape offset slen ≠ .panic) :
    fromStorageOffset size shape offset slen =
      Old.fromStorageOffset false size shape offset slen := by
  have hI : isizeMax = 9223372036854775807 := rfl
  have addN : ∀ a b : U, (a + b).toNat = (a.toNat + b.toNat) % 18446744073709551616 := M.add_toNat
  have mulN : ∀ a b : U, (a * b).toNat = a.toNat * b.toNat % 18446744073709551616 := M.mul_toNat
  have ltN : ∀ a : U, a.toNat < 18446744073709551616 := M.toNat_lt_W
  unfold Old.fromStorageOffset at h ⊢
  rw [prodMode_false] at h ⊢
  simp only [mulMode, addMode, Bool.false_eq_true, false_and, if_false, UInt64.one_mul] at h ⊢
  generalize hn : M.prod shape = n at h ⊢
  by_cases hr : offset ≤ offset + n * size ∧ offset + n * size ≤ slen
  · -- old is in range: `from_data` did not panic, so the shape is accepted
    simp only [hr, and_self, if_true] at h ⊢
    have hsub : offset + n * size - offset = n * size := by
      apply UInt64.toNat_inj.mp
      rw [UInt64.toNat_sub_of_le _ _ hr.1]
      have := addN offset (n * size)
      have h1 := hr.1
      rw [UInt64.le_iff_toNat_le] at h1
      have := ltN (n * size)
      have := ltN offset
      omega
    rw [hsub] at h ⊢
    unfold fromData at h ⊢
    cases hm : M.tryFromData shape (n * size / size) with
    | error e => rw [hm] at h; exact absurd rfl h
    | ok l =>
      have wf := M_tryFromData_ok hm
      have hfit : prodNZ (M.toNs shape) ≤ isizeMax := by
        have := wf.accepted.shape_fits
        rwa [shapeOf_contigDims] at this
      have hle := prod_le_prodNZ (M.toNs shape)
      have hP : prod (M.toNs shape) = (n * size / size).toNat := wf.len_eq
      obtain ⟨n', hn'⟩ := checkedProd_of_prodNZ shape 1 (by
        have one : (1 : U).toNat = 1 := rfl
        rw [one, Nat.one_mul]; show _ < 18446744073709551616; omega)
      obtain ⟨e1, e2⟩ := checkedProd_one_eq hn'
      rw [hn] at e1
      subst e1
      rw [UInt64.toNat_div, mulN] at hP
      have hsz : size.toNat = 1 ∨ size.toNat = 4 := by
        rcases hs with rfl | rfl
        · exact Or.inl rfl
        · exact Or.inr rfl
      have hmul : n'.toNat * size.toNat < wordSize := by
        show _ < 18446744073709551616
        rw [e2] at hP ⊢
        rcases hsz with h1 | h4
        · rw [h1] at hP ⊢; omega
        · rw [h4] at hP ⊢; omega
      have hadd : offset.toNat + (n' * size).toNat < wordSize := by
        show _ < 18446744073709551616
        have h1 := hr.1
        rw [UInt64.le_iff_toNat_le, addN] at h1
        have := ltN (n' * size)
        have := ltN offset
        omega
      unfold fromStorageOffset
      rw [hn']
      simp only [checkedMul, hmul, if_true, checkedAdd, hadd, hr.2]
      unfold tryFromData
      rw [hm]
  · -- old: "invalid tensor data offset"
    simp only [hr, if_false] at h ⊢
    unfold fromStorageOffset
    split
    · rfl
    · next n' hn' =>
      obtain ⟨e1, e2⟩ := checkedProd_one_eq hn'
      rw [hn] at e1
      subst e1
      split
      · rfl
      · next byteLen hb =>
        split
        · rfl
        · next stop hstop =>
          have b1 : byteLen = n' * size := by
            unfold checkedMul at hb; split at hb <;> cases hb; rfl
          have b2 : stop = offset + byteLen := by
            unfold checkedAdd at hstop; split at hstop <;> cases hstop; rfl
          have a := checkedAdd_some hstop
          subst b1
          subst b2
          split
          · next hle =>
            exfalso
            apply hr
            refine ⟨?_, hle⟩
            rw [UInt64.le_iff_toNat_le, a]
            omega
          · rfl

/-- **The fix is conservative (whole `add_graph_constant`)**: on every constant for which the
old release-build loader did not panic, the fixed loader answers identically. -/
theorem c05_fix_conservative (f : RtenFile) (c : RtenConst)
    (h : Old.addGraphConstant false f c ≠ .panic) :
    addGraphConstant f c = Old.addGraphConstant false f c := by
  obtain ⟨dims, ty, data⟩ := c
  unfold Old.addGraphConstant at h ⊢
  unfold addGraphConstant
  cases data with
  | stored off =>
    simp only at h ⊢
    cases ht : f.tensorDataOffset with
    | none => rfl
    | some tdo =>
      simp only [ht] at h ⊢
      cases ha : checkedAdd tdo off with
      | none => rfl
      | some o =>
        simp only [ha] at h ⊢
        by_cases hty : ty = .other
        · simp only [hty, if_true]
        · simp only [hty, if_false] at h ⊢
          refine c05_fix_conservative_stored _ _ _ _ ?_ h
          cases ty <;> simp_all [RType.size]
  | inline n =>
    simp only at h ⊢
    by_cases hty : ty = .other
    · simp only [hty, if_true]
    · simp only [hty, if_false] at h ⊢
      unfold fromData at h ⊢
      unfold tryFromData
      cases hm : M.tryFromData dims n with
      | ok l => rfl
      | error e => rw [hm] at h; exact absurd rfl h

/-- An empty stored f32 constant with shape `[2^31, 2^31, 0]` (non-zero dims multiply to
`2^62 ≤ isize::MAX`, times 4 would overflow) loads with the old and with the fixed code; a
fold that starts from the element size — the first version of the fix — would reject it. -/
theorem c05_fix_keeps_empty_constants :
    addGraphConstant ⟨some 400, 408⟩ ⟨[2147483648, 2147483648, 0], .f32, .stored 8⟩ =
      .ok [2147483648, 2147483648, 0] 0 ∧
    Old.addGraphConstant false ⟨some 400, 408⟩ ⟨[2147483648, 2147483648, 0], .f32, .stored 8⟩ =
      .ok [2147483648, 2147483648, 0] 0 ∧
    checkedProd [2147483648, 2147483648, 0] 4 = none := by decide

/-- The stored-constant path of the old loader composed with the tensor constructor from
BEFORE the C06 fix (`M.Old.tryFromData`, wrapping `min_data_len`). -/
def Old.fromStorageOffsetBeforeC06 (size : U) (shape : List U) (offset storageLen : U) : Outcome :=
  let n := M.prod shape
  let byteLen := n * size
  let stop := offset + byteLen
  if offset ≤ stop ∧ stop ≤ storageLen then
    match M.Old.tryFromData shape ((stop - offset) / size) with
    | .ok _ => .ok (M.toNs shape) ((stop - offset) / size).toNat
    | .error _ => .panic
  else .err .offset

/-- **T2 was false before the C06 fix** (design §6's suspected defect): dims
`[65536, 65536, 65536, 65536]` with no data were ACCEPTED — ideal element count `2^64`, zero
elements present — so index `[1, 0, 0, 0]` mapped `2^48` elements past the end of the data. -/
theorem c05_T2_before_c06_fix_false :
    Old.fromStorageOffsetBeforeC06 1 [65536, 65536, 65536, 65536] 400 400 =
      .ok [65536, 65536, 65536, 65536] 0 ∧
    prod [65536, 65536, 65536, 65536] = 18446744073709551616 ∧
    M.offsetOf (M.contigDims [65536, 65536, 65536, 65536]) [1, 0, 0, 0] = some 281474976710656 := by
  decide

end RtenVerif.LoaderConst
