import RtenVerif.Lemmas.LoaderConstGuards
import RtenVerif.Props.C20
import RtenVerif.Props.C21

/-!
# C05 — Loading untrusted model bytes is safe, bounded and well-formed

Theorems over `RtenVerif/Model/LoaderConst.lean` (machine-integer model of the constant
construction of `src/model/onnx_loader.rs` and `src/model/rten_loader.rs`), composed with
C06 (`try_from_data` soundness, machine = ideal arithmetic), C20 (`.rten` header) and, outside
this file, C38 (protobuf reader) and C21 (external data ranges).

* **T1** the `.rten` header: every accepted header is in bounds (`c20_header_accept_bounds`),
  hence the model-segment slice `&file_data[offset..offset + len]` cannot panic, in release and
  in overflow-checking builds.
* **T2** constant well-formedness: every constant either loader ACCEPTS has
  `ideal product of dims = number of elements backing it ≤ isize::MAX`, the bytes of those
  elements lie inside the data source (`len * size ≤ |raw_data|`, resp.
  `tensor_data_offset + data_offset + len * size ≤ |file|` over `Nat`), and every in-bounds
  index maps below the data length.
* **T3** every rejection is an `Err`, never a panic — for the code after the three C05 `fix:`
  commits.  For the code before them T3 is FALSE (`c05_T3_old_*_false`, `decide`d witnesses that
  were replayed through `Model::load`), while T2 already held (`c05_T2_rten_old`) thanks to the
  C06 fix; with the tensor constructor from before the C06 fix T2 was false as well
  (`c05_T2_before_c06_fix_false`).
-/
namespace RtenVerif.LoaderConst
open RtenVerif.TensorBounds RtenVerif.Overlap

/-! ## T1: header and model segment -/

open RtenVerif.RtenHeader in
/-- **C05.T1** an accepted header describes a model segment inside the file, and the slice
expression `&file_data[offset..offset + len]` of `rten_loader::load` evaluates without overflow
or out-of-range panic in both build modes. -/
theorem c05_T1_model_slice_safe (buf : List Nat) (h : Header) (hb : ∀ b ∈ buf, b < 256)
    (hsz : buf.length < 2 ^ 63) (hok : fromBuf buf = .ok h) (ovf : Bool) :
    h.modelOffset + h.modelLen ≤ buf.length ∧ h.tensorDataOffset ≤ buf.length ∧
    modelSlice ovf (UInt64.ofNat h.modelOffset) (UInt64.ofNat h.modelLen)
      (UInt64.ofNat buf.length) = some (h.modelOffset, h.modelOffset + h.modelLen) := by
  obtain ⟨_, _, h3, _, h5, _⟩ := c20_header_accept_bounds buf h hb hsz hok
  refine ⟨h3, h5, ?_⟩
  have e1 : (UInt64.ofNat h.modelOffset).toNat = h.modelOffset :=
    UInt64.toNat_ofNat_of_lt' (by show _ < 2 ^ 64; omega)
  have e2 : (UInt64.ofNat h.modelLen).toNat = h.modelLen :=
    UInt64.toNat_ofNat_of_lt' (by show _ < 2 ^ 64; omega)
  have e3 : (UInt64.ofNat buf.length).toNat = buf.length :=
    UInt64.toNat_ofNat_of_lt' (by show _ < 2 ^ 64; omega)
  have hW : wordSize = 2 ^ 64 := by decide
  have e4 : (UInt64.ofNat h.modelOffset + UInt64.ofNat h.modelLen).toNat =
      h.modelOffset + h.modelLen := by
    rw [M.add_toNat, e1, e2, Nat.mod_eq_of_lt (by omega)]
  unfold modelSlice addMode
  rw [e1, e2]
  have hno : ¬ (ovf = true ∧ wordSize ≤ h.modelOffset + h.modelLen) := by omega
  simp only [hno, if_false]
  have c1 : UInt64.ofNat h.modelOffset ≤ UInt64.ofNat h.modelOffset + UInt64.ofNat h.modelLen := by
    rw [UInt64.le_iff_toNat_le, e4, e1]; omega
  have c2 : UInt64.ofNat h.modelOffset + UInt64.ofNat h.modelLen ≤ UInt64.ofNat buf.length := by
    rw [UInt64.le_iff_toNat_le, e4, e3]; exact h3
  simp only [c1, c2, and_self, if_true, e4]

/-- Non-vacuity: a 40-byte file with an 8-byte model segment. -/
example : RtenHeader.fromBuf (RtenHeader.toBuf ⟨2, 32, 8, 40⟩ ++ List.replicate 8 0) =
    .ok ⟨2, 32, 8, 40⟩ := by decide

/-! ## T2: accepted constants are well formed -/

theorem finish_ok {ovf : Bool} {shape : List U} {cnt : Cnt} {s : List Nat} {n : Nat}
    (h : finish ovf shape cnt = .ok s n) :
    ∃ k, cnt = .n k ∧ s = M.toNs shape ∧ n = k.toNat ∧ WellFormed s n := by
  cases cnt with
  | n k =>
    simp only [finish, tryFromDataG_eq] at h
    exact ⟨k, rfl, tryFromData_ok h⟩
  | err e => cases h
  | panic => cases h

theorem finish_ne_panic {ovf : Bool} {shape : List U} {cnt : Cnt} (h : cnt ≠ .panic) :
    finish ovf shape cnt ≠ .panic := by
  cases cnt with
  | n k => simp only [finish, tryFromDataG_eq]; exact tryFromData_ne_panic _ _
  | err e => simp [finish]
  | panic => exact absurd rfl h

/-- The build mode is irrelevant once the count step is done (M2). -/
theorem finish_mode (ovf : Bool) (shape : List U) (cnt : Cnt) :
    finish ovf shape cnt = finish false shape cnt := by
  cases cnt <;> simp [finish, tryFromDataG_eq]

/-- The element-count step of `load_constant` never panics on slices the data loader returned,
and the elements it counts are present in the data source. -/
theorem onnxCount_spec (c : OnnxInit) (ext : Option ExtSlice) (hv : ∀ d, ext = some d → d.Valid) :
    onnxCount c ext ≠ .panic ∧
    ∀ k, onnxCount c ext = .n k →
      CntBacked (srcElemSize c.dtype) c.raw ext (typedLen c.typed c.dtype) k.toNat := by
  unfold onnxCount
  cases hdt : c.dtype <;> simp only [srcElemSize]
  · exact makeCount_spec (Or.inr rfl) _ _ _ hv
  · exact makeCount_spec (Or.inr rfl) _ _ _ hv
  · exact makeCount_spec (Or.inl rfl) _ _ _ hv
  · exact makeCount_spec (Or.inl rfl) _ _ _ hv
  · exact convCount_spec 8 _ _ _ hv
  · exact convCount_spec 1 _ _ _ hv
  · exact convCount_spec 8 _ _ _ hv
  · exact f16Count_spec _ _ _ hv
  · exact ⟨by simp, fun k hk => by cases hk⟩
  · exact ⟨by simp, fun k hk => by cases hk⟩

/-- Bytes / elements that actually back an accepted ONNX initializer: the data loader returned
`ext` (for external data: a valid slice of the registered buffer, C21), and `len` elements of the
source element size are present in `raw_data` / inside that slice / in the typed field. -/
def Backed (c : OnnxInit) (len : Nat) : Prop :=
  ∃ ext, loadExt c.ext = .ok ext ∧ (∀ d, ext = some d → d.Valid) ∧
    CntBacked (srcElemSize c.dtype) c.raw ext (typedLen c.typed c.dtype) len

/-- **C05.T2 (ONNX)** every initializer `load_constant` accepts (either build mode): no
dimension is negative, the tensor's shape is the initializer's `dims`, the ideal product of the
dims equals the number of elements built from the data source, that number fits `isize`, those
elements are present in the data source, and (C06) every valid index is in bounds. -/
theorem c05_T2_onnx (ovf : Bool) (c : OnnxInit) (hi : ∀ d ∈ c.dims, d < 2 ^ 63)
    (hx : ExtFits c.ext) {shape : List Nat} {len : Nat} (h : loadConstant ovf c = .ok shape len) :
    (∀ d ∈ c.dims, 0 ≤ d) ∧ shape = c.dims.map Int.toNat ∧ WellFormed shape len ∧
    Backed c len ∧
    ∀ idx, ValidIdx (contigDims shape) idx → offset (contigDims shape) idx < len := by
  unfold loadConstant at h
  split at h
  · cases h
  · next s hs =>
    obtain ⟨hnn, hsm⟩ := onnxShape_some hs hi
    split at h
    · cases h
    · next ext hext =>
      have hv : ∀ d, ext = some d → d.Valid := fun d hd => (loadExt_valid hx (hd ▸ hext)).1
      rw [extAddPanics_false hx hext] at h
      simp only [Bool.false_eq_true, if_false] at h
      obtain ⟨k, hk, e1, e2, wf⟩ := finish_ok h
      refine ⟨hnn, by rw [e1, hsm], wf, ⟨ext, hext, hv, ?_⟩, fun idx hv' => wf.in_bounds hv'⟩
      rw [e2]
      exact (onnxCount_spec c ext hv).2 k hk

/-- External data of an accepted initializer — whichever loader resolved it (`MemLoader`,
`MmapLoader`, `FileLoader`) — lies inside the external file / registered buffer at the offset
the model file names, and is no longer than the length it names (C21). -/
theorem c05_T2_onnx_external (c : OnnxInit) (hx : ExtFits c.ext) {len : Nat} (hb : Backed c len)
    {k : LoaderKind} {l o b : U} (hraw : c.raw = none) (he : c.ext = .ref k l o b) :
    o.toNat + len * srcElemSize c.dtype ≤ b.toNat ∧ len * srcElemSize c.dtype ≤ l.toNat := by
  obtain ⟨ext, hext, hv, hc⟩ := hb
  cases ext with
  | none =>
    rw [he] at hext
    cases k <;> simp only [loadExt] at hext <;> split at hext <;> cases hext
  | some d =>
    obtain ⟨hval, k', l', o', b', heq, hlen, hin, _⟩ := loadExt_valid hx hext
    rw [he] at heq
    cases heq
    unfold CntBacked at hc
    rw [hraw] at hc
    simp only at hc
    have := hval.le
    omega

/-- C21's own soundness theorem applies to the range the model uses. -/
example (off len flen s e : Nat) (hf : flen < ExtData.U64_MAX)
    (h : ExtData.memRange off len flen = .ok (s, e)) : s = off ∧ e = off + len ∧ off + len ≤ flen :=
  ExtData.c21_mem_range_sound off len flen s e hf h

/-- Non-vacuity of T2 (ONNX): a 2×3 float initializer with 24 bytes of `raw_data`, and an
int64 initializer read from external data (32 bytes at offset 8 of a 48-byte buffer). -/
example : loadConstant false ⟨[2, 3], .float, some 24, .none, ⟨0, 0, 0, 0⟩⟩ = .ok [2, 3] 6 := by
  decide
example : loadConstant true ⟨[4], .int64, none, .ref .mem 32 8 48, ⟨0, 0, 0, 0⟩⟩ = .ok [4] 4 ∧
    loadConstant true ⟨[4], .int64, none, .ref .mmap 32 8 48, ⟨0, 0, 0, 0⟩⟩ = .ok [4] 4 ∧
    loadConstant false ⟨[4], .int64, none, .ref .file 32 8 48, ⟨0, 0, 0, 0⟩⟩ = .ok [4] 4 := by decide

/-- Where the bytes of an accepted `.rten` constant live. -/
def RBacked (f : RtenFile) (c : RtenConst) (len : Nat) : Prop :=
  match c.data with
  | .inline n _ => len = n.toNat
  | .stored off => ∃ tdo, f.tensorDataOffset = some tdo ∧
      tdo.toNat + off.toNat + len * c.ty.size.toNat ≤ f.storageLen.toNat

theorem RType.size_cases {t : RType} : t.size = 1 ∨ t.size = 4 := by
  cases t <;> simp [RType.size]

/-- **C05.T2 (.rten)** every constant `add_graph_constant` accepts: the shape is the file's
dims, the ideal product of the dims equals the element count of the data, which fits `isize`;
inline data has exactly that many elements; stored data occupies
`[tensor_data_offset + data_offset, … + len * size)` INSIDE the file — over `Nat`, no wrap —
and (C06) every valid index is in bounds. -/
theorem c05_T2_rten (ovf : Bool) (f : RtenFile) (c : RtenConst) {shape : List Nat} {len : Nat}
    (h : addGraphConstant ovf f c = .ok shape len) :
    shape = M.toNs c.dims ∧ WellFormed shape len ∧ RBacked f c len ∧
    ∀ idx, ValidIdx (contigDims shape) idx → offset (contigDims shape) idx < len := by
  unfold addGraphConstant at h
  unfold RBacked
  split at h
  · next dataOffset hd =>
    rw [hd]
    split at h
    · cases h
    · next tdo htdo =>
      split at h
      · cases h
      · next off hoff =>
        split at h
        · cases h
        · unfold fromStorageOffset at h
          split at h
          · cases h
          · next n hn =>
            split at h
            · cases h
            · next byteLen hbl =>
              split at h
              · cases h
              · next stop hstop =>
                split at h
                · next hle =>
                  rw [rtenCount_spec RType.size_cases n off f.storageLen hbl hstop hle] at h
                  obtain ⟨k, hk, e1, e2, wf⟩ := finish_ok h
                  cases hk
                  refine ⟨e1, wf, ⟨tdo, htdo, ?_⟩, fun idx hv => wf.in_bounds hv⟩
                  have a1 := checkedAdd_some hoff
                  have a2 := checkedAdd_some hstop
                  have a3 := div_mul_le_toNat byteLen c.ty.size
                  rw [UInt64.le_iff_toNat_le] at hle
                  rw [e2]
                  omega
                · cases h
  · next n start hd =>
    rw [hd]
    split at h
    · cases h
    · obtain ⟨k, hk, e1, e2, wf⟩ := finish_ok h
      have hkn : k = n := by
        unfold inlineCount at hk
        by_cases h1 : castLeOk c.ty.size (n * c.ty.size) start = true
        · rw [if_pos h1] at hk
          by_cases h2 : arcSliceNewOk f.storageLen.toNat
              (if n * c.ty.size = 0 then none else some start.toNat) (n * c.ty.size).toNat = true
          · rw [if_pos h2] at hk; cases hk; rfl
          · rw [if_neg h2] at hk; cases hk
        · rw [if_neg h1] at hk; cases hk; rfl
      subst hkn
      exact ⟨e1, wf, e2, fun idx hv => wf.in_bounds hv⟩

/-- For stored constants the checked product is the exact byte length: an accepted constant's
data is `product(dims) * size` bytes, not a truncation of it. -/
theorem c05_T2_rten_stored_exact {ovf : Bool} {size : U} {shape : List U} {offset slen : U}
    {s : List Nat} {len : Nat} (hs : size = 1 ∨ size = 4)
    (h : fromStorageOffset ovf size shape offset slen = .ok s len) :
    len = prod (M.toNs shape) ∧ offset.toNat + prod (M.toNs shape) * size.toNat ≤ slen.toNat := by
  have hpos : 0 < size.toNat := by rcases hs with rfl | rfl <;> decide
  unfold fromStorageOffset at h
  split at h
  · cases h
  · next n hn =>
    split at h
    · cases h
    · next byteLen hbl =>
      split at h
      · cases h
      · next stop hstop =>
        split at h
        · next hle =>
          rw [rtenCount_spec hs n offset slen hbl hstop hle] at h
          obtain ⟨k, hk, _, e2, wf⟩ := finish_ok h
          cases hk
          have p := (checkedProd_one_eq hn).2
          have q := checkedMul_some hbl
          have a2 := checkedAdd_some hstop
          rw [UInt64.le_iff_toNat_le] at hle
          have hlen : len = prod (M.toNs shape) := by
            rw [e2, UInt64.toNat_div, q, p, Nat.mul_div_cancel _ hpos]
          refine ⟨hlen, ?_⟩
          rw [← p, ← q]
          omega
        · cases h

/-- Non-vacuity of T2 (.rten): a stored 2×2 f32 constant at offset 36 of a 100-byte file, an
inline constant, and an empty stored constant with a zero dimension. -/
example : addGraphConstant true ⟨some 32, 100⟩ ⟨[2, 2], .f32, .stored 4⟩ = .ok [2, 2] 4 := by decide
example : addGraphConstant false ⟨none, 100⟩ ⟨[3], .i8, .inline 3 40⟩ = .ok [3] 3 := by decide
example : addGraphConstant true ⟨some 32, 100⟩ ⟨[0, 7], .u8, .stored 68⟩ = .ok [0, 7] 0 := by decide

/-! ## T3: rejections are errors, not panics

The model contains an explicit `.panic` branch for every `unwrap` / `expect` / slice index /
infallible constructor / unchecked arithmetic on these paths; the theorems below show that no
input reaches one of them. -/

/-- **C05.T3 (ONNX)** `load_constant` never panics, whatever the initializer says and in either
build mode: `DataSlice::data()`, both `ArcSlice` unwraps, `spare_capacity[..n]` and the
arithmetic inside `try_from_data` are all unreachable-panic sites. -/
theorem c05_T3_onnx_no_panic (ovf : Bool) (c : OnnxInit) (hx : ExtFits c.ext) :
    loadConstant ovf c ≠ .panic := by
  unfold loadConstant
  split
  · simp
  · split
    · simp
    · next ext hext =>
      have hv : ∀ d, ext = some d → d.Valid := fun d hd => (loadExt_valid hx (hd ▸ hext)).1
      rw [extAddPanics_false hx hext]
      simp only [Bool.false_eq_true, if_false]
      exact finish_ne_panic (onnxCount_spec c _ hv).1

/-- The panic guards are live: a `DataSlice` whose range is not inside its storage makes
`DataSlice::data()` panic, and `MmapLoader` on a (physically impossible) file of `u64::MAX` bytes
— the case `ExtFits` excludes — wraps its range end and panics the same way; with overflow
checks the unchecked `offset + length` itself panics. -/
example : makeCount 4 none (some ⟨8, 4, 16⟩) 0 = .panic ∧
    loadConstant false ⟨[1], .uint8, none,
      .ref .mmap 18446744073709551615 1 18446744073709551615, ⟨0, 0, 0, 0⟩⟩ = .panic ∧
    loadConstant true ⟨[1], .uint8, none,
      .ref .mmap 18446744073709551615 1 18446744073709551615, ⟨0, 0, 0, 0⟩⟩ = .panic := by decide

/-- `load_constant` answers the same in release and overflow-checking builds. -/
theorem c05_onnx_mode_independent (ovf : Bool) (c : OnnxInit) (hx : ExtFits c.ext) :
    loadConstant ovf c = loadConstant false c := by
  unfold loadConstant
  split
  · rfl
  · split
    · rfl
    · next ext hext =>
      rw [extAddPanics_false hx hext, extAddPanics_false hx hext]
      exact finish_mode _ _ _

/-- The flatbuffers verifier's guarantee the inline path relies on: the vector's bytes lie inside
the file buffer.  (Stored constants need no assumption.) -/
def InFile (f : RtenFile) (c : RtenConst) : Prop :=
  match c.data with
  | .inline n start => start.toNat + (n * c.ty.size).toNat ≤ f.storageLen.toNat
  | .stored _ => True

/-- **C05.T3 (.rten)** `add_graph_constant` (after the fixes) never panics in either build mode:
both `.expect("storage does not contain data")`, `chunk.try_into().unwrap()` and the arithmetic
inside `try_from_data` are unreachable-panic sites. -/
theorem c05_T3_rten_no_panic (ovf : Bool) (f : RtenFile) (c : RtenConst) (hfb : InFile f c) :
    addGraphConstant ovf f c ≠ .panic := by
  unfold addGraphConstant
  unfold InFile at hfb
  split
  · split
    · simp
    · split
      · simp
      · next off _ =>
        split
        · simp
        · unfold fromStorageOffset
          split
          · simp
          · next n _ =>
            split
            · simp
            · next byteLen hbl =>
              split
              · simp
              · next stop hstop =>
                split
                · next hle =>
                  rw [rtenCount_spec RType.size_cases n off f.storageLen hbl hstop hle]
                  exact finish_ne_panic (by simp)
                · simp
  · next n start hd =>
    rw [hd] at hfb
    split
    · simp
    · rw [inlineCount_spec _ _ _ _ hfb]
      exact finish_ne_panic (by simp)

/-- Without the verifier's guarantee the `expect` IS reachable: a non-empty vector that is not
inside the storage. -/
example : addGraphConstant false ⟨none, 10⟩ ⟨[3], .i8, .inline 3 9⟩ = .panic := by decide

/-- `add_graph_constant` answers the same in release and overflow-checking builds. -/
theorem c05_rten_mode_independent (ovf : Bool) (f : RtenFile) (c : RtenConst) :
    addGraphConstant ovf f c = addGraphConstant false f c := by
  unfold addGraphConstant fromStorageOffset
  repeat' split
  all_goals first | rfl | exact finish_mode _ _ _

/-- **First failure aborts** (`load_graph`'s `?`): if building the constants of a graph in order
fails, the failure is the outcome of the FIRST constant that is not accepted, and every constant
before it was accepted. -/
theorem c05_loadAll_first_error {α : Type} (build : α → Outcome) (cs : List α) {o : Outcome}
    (h : loadAll build cs = .error o) :
    ∃ pre c post, cs = pre ++ c :: post ∧ (∀ a ∈ pre, ∃ s n, build a = .ok s n) ∧
      build c = o ∧ ∀ s n, o ≠ .ok s n := by
  induction cs with
  | nil => simp [loadAll] at h
  | cons c cs ih =>
    simp only [loadAll] at h
    split at h
    · next s n hb =>
      split at h
      · cases h
      · next e he =>
        cases h
        obtain ⟨pre, c', post, hcs, hpre, hc', hno⟩ := ih he
        refine ⟨c :: pre, c', post, by rw [hcs]; rfl, ?_, hc', hno⟩
        intro a ha
        rcases List.mem_cons.mp ha with rfl | ha
        · exact ⟨s, n, hb⟩
        · exact hpre a ha
    · next hne =>
      cases h
      exact ⟨[], c, cs, rfl, by simp, rfl, fun s n hsn => hne s n hsn⟩

/-- **T3 for a whole graph**: if no constant of the graph panics, a failing load fails with a
`LoadError` (that of the first rejected constant, by `c05_loadAll_first_error`). -/
theorem c05_loadAll_error_is_err {α : Type} (build : α → Outcome) (cs : List α)
    (hnp : ∀ a ∈ cs, build a ≠ .panic) {o : Outcome} (h : loadAll build cs = .error o) :
    ∃ e, o = .err e := by
  obtain ⟨pre, c, post, hcs, _, hc, hno⟩ := c05_loadAll_first_error build cs h
  have hmem : c ∈ cs := by rw [hcs]; simp
  cases ho : o with
  | ok s n => exact absurd ho (hno s n)
  | err e => exact ⟨e, rfl⟩
  | panic => exact absurd (hc.trans ho) (hnp c hmem)

/-- **T2 for a whole graph**: a successful load yields one constant per node, each of them
accepted by `build`. -/
theorem c05_loadAll_ok {α : Type} (build : α → Outcome) (cs : List α)
    {rs : List (List Nat × Nat)} (h : loadAll build cs = .ok rs) :
    rs.length = cs.length ∧ ∀ r ∈ rs, ∃ a ∈ cs, build a = .ok r.1 r.2 := by
  induction cs generalizing rs with
  | nil =>
    simp only [loadAll] at h
    cases h
    exact ⟨rfl, fun r hr => by cases hr⟩
  | cons c cs ih =>
    simp only [loadAll] at h
    split at h
    · next s n hb =>
      split at h
      · next rest hrest =>
        cases h
        obtain ⟨hl, hall⟩ := ih hrest
        refine ⟨by simp [hl], fun r hr => ?_⟩
        rcases List.mem_cons.mp hr with rfl | hr
        · exact ⟨c, List.mem_cons_self .., hb⟩
        · obtain ⟨a, ha, hba⟩ := hall r hr
          exact ⟨a, List.mem_cons_of_mem _ ha, hba⟩
      · cases h
    · cases h

/-- Every constant of a successfully loaded `.rten` graph is well formed. -/
theorem c05_rten_graph (ovf : Bool) (f : RtenFile) (cs : List RtenConst)
    {rs : List (List Nat × Nat)} (h : loadAll (addGraphConstant ovf f) cs = .ok rs) :
    ∀ r ∈ rs, WellFormed r.1 r.2 := by
  intro r hr
  obtain ⟨a, _, ha⟩ := (c05_loadAll_ok _ cs h).2 r hr
  exact (c05_T2_rten ovf f a ha).2.1

/-- A `.rten` graph whose inline vectors lie inside the file never panics while its constants
are built: the load fails with the first constant's `LoadError` or succeeds. -/
theorem c05_rten_graph_no_panic (ovf : Bool) (f : RtenFile) (cs : List RtenConst)
    (hfb : ∀ c ∈ cs, InFile f c) {o : Outcome}
    (h : loadAll (addGraphConstant ovf f) cs = .error o) : ∃ e, o = .err e :=
  c05_loadAll_error_is_err _ cs (fun a ha => c05_T3_rten_no_panic ovf f a (hfb a ha)) h

/-! ### Constants of a whole ONNX graph: initializers, `Constant` nodes, promoted attributes -/

/-- A constant-producing item of an ONNX graph. -/
inductive OnnxItem where
  | init (t : OnnxInit)                              -- `graph.initializer`
  | constNode (outputs : Nat) (attrs : List ConstAttr) -- a `Constant` operator node
  | attrInput (n : Option U)                         -- attribute promoted to an operator input
  deriving DecidableEq, Repr

def buildItem (ovf : Bool) : OnnxItem → Outcome
  | .init t => loadConstant ovf t
  | .constNode o attrs => constOp ovf o attrs
  | .attrInput n => attrConstant ovf n

/-- `Tensor::from_data(&[n], vec)` for a vector of `n` elements (`n ≤ isize::MAX`: every `Vec`). -/
theorem M_tryFromData_vec (n : U) (h : n.toNat ≤ isizeMax) :
    M.tryFromData [n] n = .ok (M.contigDims [n]) := by
  have hW := isizeMax_lt_wordSize
  have hI1 : 1 ≤ isizeMax := by decide
  have hfit : prodNZ (M.toNs [n]) ≤ isizeMax := by
    simp only [M.toNs, List.map, prodNZ]
    split <;> omega
  have hsome : (M.checkedShapeLen [n]).isNone = false := by
    have e := M.checkedShapeLen_eq [n]
    rw [TensorBounds.checkedShapeLen_eq, if_pos hfit] at e
    cases hc : M.checkedShapeLen [n] with
    | none => rw [hc] at e; cases e
    | some v => rfl
  have hmin : M.minDataLen (M.contigDims [n]) = n := by
    apply UInt64.toNat_inj.mp
    have hmo := maxOffset_contig_lt (M.toNs [n])
    rw [M.minDataLen_toNat (M.contigDims [n]) (by rw [M.contigDims_toN _ hfit]; omega),
      M.contigDims_toN _ hfit,
      minDataLen_contig]
    simp [M.toNs, prod]
  unfold M.tryFromData
  simp [hsome, hmin]

theorem M_tryFromData_scalar : M.tryFromData [] 1 = .ok [] := by decide

theorem wf_scalar : WellFormed [] 1 :=
  M_tryFromData_ok (shape := []) (len := 1) M_tryFromData_scalar

theorem wf_vec (k : U) (h : k.toNat ≤ isizeMax) : WellFormed [k.toNat] k.toNat :=
  M_tryFromData_ok (shape := [k]) (len := k) (M_tryFromData_vec k h)

theorem fromDataG_scalar (ovf : Bool) : fromDataG ovf [] 1 = .ok [] 1 := by
  rw [fromDataG_eq]; simp only [fromData, M_tryFromData_scalar]; rfl

theorem fromDataG_vec (ovf : Bool) (k : U) (h : k.toNat ≤ isizeMax) :
    fromDataG ovf [k] k = .ok [k.toNat] k.toNat := by
  rw [fromDataG_eq]; simp only [fromData, M_tryFromData_vec k h]; rfl

theorem loadConstant_ok_wf {ovf : Bool} {c : OnnxInit} {s : List Nat} {n : Nat}
    (h : loadConstant ovf c = .ok s n) : WellFormed s n := by
  unfold loadConstant at h
  split at h
  · cases h
  · split at h
    · cases h
    · split at h
      · cases h
      · obtain ⟨k, _, _, _, wf⟩ := finish_ok h
        exact wf

/-- The element counts of the `Constant` node's list attributes are lengths of `Vec`s. -/
def AttrLensFit : ConstAttr → Prop
  | .valueInts n | .valueFloats n => n.toNat ≤ isizeMax
  | .value t => ExtFits t.ext
  | _ => True

theorem constAttr_spec (ovf : Bool) (a : ConstAttr) (ha : AttrLensFit a) :
    constAttr ovf a ≠ .panic ∧ ∀ s n, constAttr ovf a = .ok s n → WellFormed s n := by
  cases a with
  | value t =>
    exact ⟨c05_T3_onnx_no_panic ovf t ha, fun s n h => loadConstant_ok_wf (by simpa [constAttr] using h)⟩
  | valueInt =>
    simp only [constAttr, fromDataG_scalar]
    exact ⟨by simp, fun s n h => by cases h; exact wf_scalar⟩
  | valueFloat =>
    simp only [constAttr, fromDataG_scalar]
    exact ⟨by simp, fun s n h => by cases h; exact wf_scalar⟩
  | valueInts k =>
    have hk : k.toNat ≤ isizeMax := ha
    simp only [constAttr, fromDataG_vec ovf k hk]
    exact ⟨by simp, fun s n h => by cases h; exact wf_vec k hk⟩
  | valueFloats k =>
    have hk : k.toNat ≤ isizeMax := ha
    simp only [constAttr, fromDataG_vec ovf k hk]
    exact ⟨by simp, fun s n h => by cases h; exact wf_vec k hk⟩
  | valueNoTensor => exact ⟨by simp [constAttr], fun s n h => by cases h⟩
  | unnamed => exact ⟨by simp [constAttr], fun s n h => by cases h⟩
  | other => exact ⟨by simp [constAttr], fun s n h => by cases h⟩

theorem constOpGo_spec (ovf : Bool) (attrs : List ConstAttr) (cur : Option (List Nat × Nat))
    (ha : ∀ a ∈ attrs, AttrLensFit a) (hcur : ∀ s n, cur = some (s, n) → WellFormed s n) :
    constOpGo ovf attrs cur ≠ .panic ∧
    ∀ s n, constOpGo ovf attrs cur = .ok s n → WellFormed s n := by
  induction attrs generalizing cur with
  | nil =>
    cases cur with
    | none => exact ⟨by simp [constOpGo], fun s n h => by cases h⟩
    | some p =>
      obtain ⟨s', n'⟩ := p
      exact ⟨by simp [constOpGo], fun s n h => by
        simp only [constOpGo] at h; cases h; exact hcur _ _ rfl⟩
  | cons a as ih =>
    have has : ∀ a ∈ as, AttrLensFit a := fun x hx => ha x (List.mem_cons_of_mem _ hx)
    by_cases hun : a = .unnamed
    · subst hun
      simp only [constOpGo]
      exact ih cur has hcur
    · have hstep : constOpGo ovf (a :: as) cur =
          match constAttr ovf a with
          | .ok s n => if cur.isSome then .err .opinvalid else constOpGo ovf as (some (s, n))
          | o => o := by
        cases a <;> first | exact absurd rfl hun | rfl
      rw [hstep]
      obtain ⟨hnp, hok⟩ := constAttr_spec ovf a (ha a (List.mem_cons_self ..))
      cases hc : constAttr ovf a with
      | ok s n =>
        simp only
        split
        · exact ⟨by simp, fun s' n' h => by cases h⟩
        · exact ih (some (s, n)) has (fun s' n' h => by cases h; exact hok s n hc)
      | err e => exact ⟨by simp, fun s n h => by cases h⟩
      | panic => exact absurd hc hnp

/-- **M3** a `Constant` node — `value` (→ `load_constant`), `value_int(s)` / `value_float(s)`
(infallible `Tensor::from_data`, shape taken from the data itself), several / no / unsupported
value attributes — never panics, and the constant it yields is well formed. -/
theorem c05_constop (ovf : Bool) (outputs : Nat) (attrs : List ConstAttr)
    (ha : ∀ a ∈ attrs, AttrLensFit a) :
    constOp ovf outputs attrs ≠ .panic ∧
    ∀ s n, constOp ovf outputs attrs = .ok s n → WellFormed s n := by
  unfold constOp
  split
  · exact ⟨by simp, fun s n h => by cases h⟩
  · exact constOpGo_spec ovf attrs none ha (fun s n h => by cases h)

/-- **M3** an attribute promoted to an operator input (`constant_from_attr_value`) builds a
scalar or a vector whose shape is its own length: it cannot panic, and is well formed. -/
theorem c05_attr_constant (ovf : Bool) (n : Option U) (hn : ∀ k, n = some k → k.toNat ≤ isizeMax) :
    attrConstant ovf n ≠ .panic ∧ ∀ s m, attrConstant ovf n = .ok s m →
      WellFormed s m ∧ s = (match n with | none => [] | some k => [k.toNat]) := by
  cases n with
  | none =>
    simp only [attrConstant, fromDataG_scalar]
    exact ⟨by simp, fun s m h => by cases h; exact ⟨wf_scalar, rfl⟩⟩
  | some k =>
    simp only [attrConstant, fromDataG_vec ovf k (hn k rfl)]
    exact ⟨by simp, fun s m h => by cases h; exact ⟨wf_vec k (hn k rfl), rfl⟩⟩

/-- The `Vec`-length hypothesis is what keeps `from_data(&[n], data)` from panicking: a
(physically impossible) vector of `2^63` elements would exceed the tensor size limit. -/
example : fromDataG false [9223372036854775808] 9223372036854775808 = .panic := by decide
example : constOp false 1 [.valueInts 3] = .ok [3] 3 ∧ constOp true 1 [.valueFloat] = .ok [] 1 ∧
    constOp false 1 [.valueInts 0, .valueFloat] = .err .opinvalid ∧
    constOp false 1 [] = .err .opinvalid ∧ constOp false 2 [.valueInt] = .err .opinvalid ∧
    constOp false 1 [.unnamed, .value ⟨[-1], .float, none, .none, ⟨0, 0, 0, 0⟩⟩] = .err .shape := by
  decide

def ItemFits : OnnxItem → Prop
  | .init t => (∀ d ∈ t.dims, d < 2 ^ 63) ∧ ExtFits t.ext
  | .constNode _ attrs => ∀ a ∈ attrs, AttrLensFit a
  | .attrInput n => ∀ k, n = some k → k.toNat ≤ isizeMax

theorem buildItem_spec (ovf : Bool) (it : OnnxItem) (hf : ItemFits it) :
    buildItem ovf it ≠ .panic ∧ ∀ s n, buildItem ovf it = .ok s n → WellFormed s n := by
  cases it with
  | init t =>
    exact ⟨c05_T3_onnx_no_panic ovf t hf.2, fun s n h => (c05_T2_onnx ovf t hf.1 hf.2 h).2.2.1⟩
  | constNode o attrs => exact c05_constop ovf o attrs hf
  | attrInput k =>
    obtain ⟨h1, h2⟩ := c05_attr_constant ovf k hf
    exact ⟨h1, fun s n h => (h2 s n h).1⟩

/-- **Every constant of an ONNX graph** — initializers, `Constant` nodes of every flavour and
attributes promoted to inputs: the load never panics (it fails with the first item's
`LoadError`), and on success every constant is well formed. -/
theorem c05_onnx_graph (ovf : Bool) (items : List OnnxItem) (hf : ∀ it ∈ items, ItemFits it) :
    (∀ o, loadAll (buildItem ovf) items = .error o → ∃ e, o = .err e) ∧
    (∀ rs, loadAll (buildItem ovf) items = .ok rs → ∀ r ∈ rs, WellFormed r.1 r.2) := by
  refine ⟨fun o h => c05_loadAll_error_is_err _ items
      (fun a ha => (buildItem_spec ovf a (hf a ha)).1) h, fun rs h r hr => ?_⟩
  obtain ⟨a, ha, hba⟩ := (c05_loadAll_ok _ items h).2 r hr
  exact (buildItem_spec ovf a (hf a ha)).2 _ _ hba

/-- **(c) negative ONNX dims** are always rejected with the "invalid shape" error, before any
data is looked at. -/
theorem c05_onnx_negative_dim_rejected (ovf : Bool) (c : OnnxInit) (h : ∃ d ∈ c.dims, d < 0) :
    loadConstant ovf c = .err .shape := by
  unfold loadConstant
  rw [onnxShape_none_iff_neg.mpr h]

/-- **(d) completeness of the range check**: a stored constant whose bytes would end past the
end of the file — in particular whenever `tensor_data_offset + data_offset + size *
product(dims)` does not fit in 64 bits — is rejected with "invalid tensor data offset" by
`add_graph_constant`; nothing wraps into range. -/
theorem c05_rten_out_of_file_rejected (ovf : Bool) (f : RtenFile) (dims : List U) (ty : RType)
    (dataOffset tdo : U) (hty : ty ≠ .other) (htdo : f.tensorDataOffset = some tdo)
    (h : f.storageLen.toNat <
      tdo.toNat + dataOffset.toNat + prod (M.toNs dims) * ty.size.toNat) :
    addGraphConstant ovf f ⟨dims, ty, .stored dataOffset⟩ = .err .offset := by
  unfold addGraphConstant
  simp only [htdo]
  split
  · rfl
  · next offset hoff =>
    have a0 := checkedAdd_some hoff
    simp only [hty, if_false]
    unfold fromStorageOffset
    split
    · rfl
    · next n hn =>
      have p := (checkedProd_one_eq hn).2
      split
      · rfl
      · next byteLen hbl =>
        have q := checkedMul_some hbl
        split
        · rfl
        · next stop hstop =>
          have a := checkedAdd_some hstop
          split
          · next hle =>
            rw [UInt64.le_iff_toNat_le] at hle
            rw [← p, ← q] at h
            omega
          · rfl

/-- Non-vacuity: `2^64` one-byte elements at offset 400 + 5 of a 408-byte file. -/
example : addGraphConstant false ⟨some 400, 408⟩ ⟨[65536, 65536, 65536, 65536], .u8, .stored 5⟩ =
    .err .offset := by decide

/-! ## The code before the C05 fixes -/

/-- **T3 was false (1)**: an inline f32 constant with shape `[3]` and two elements made
`ArcTensorView::from_data` panic inside `Model::load` (harness request
`rtenold rel inline f32 3 n=2`). -/
theorem c05_T3_old_inline_false :
    Old.addGraphConstant false ⟨none, 0⟩ ⟨[3], .f32, .inline 2 0⟩ = .panic ∧
    Old.addGraphConstant true ⟨none, 0⟩ ⟨[3], .f32, .inline 2 0⟩ = .panic := by decide

/-- **T3 was false (2)**: stored constants whose dims multiply past the address space.
`[65536, 65536, 65536, 65536]` (u8): the element count wraps to 0, the empty byte range is in
bounds, `from_data` rejects the shape → panic (release); with overflow checks
`iter().product()` panics.  `[2^31, 2^31]` (f32): the element count `2^62` is fine but
`* size_of::<f32>()` wraps to 0 → `from_data` panics on `0 ≠ 2^62`. -/
theorem c05_T3_old_stored_false :
    Old.addGraphConstant false ⟨some 400, 408⟩ ⟨[65536, 65536, 65536, 65536], .u8, .stored 5⟩ = .panic ∧
    Old.addGraphConstant true ⟨some 400, 408⟩ ⟨[65536, 65536, 65536, 65536], .u8, .stored 5⟩ = .panic ∧
    Old.addGraphConstant false ⟨some 392, 420⟩ ⟨[2147483648, 2147483648], .i32, .stored 0⟩ = .panic ∧
    Old.addGraphConstant false ⟨some 400, 401⟩
      ⟨[4294967295, 4294967295, 4294967295, 0], .i8, .stored 0⟩ = .panic := by decide

/-- **T3 was false (3)**: with overflow checks `offset + byte_len` itself panicked. -/
theorem c05_T3_old_offset_add_false :
    Old.fromStorageOffset true 1 [4294967295, 4294967295] 18446744073709551615 100 = .panic ∧
    Old.fromStorageOffset false 1 [4294967295, 4294967295] 18446744073709551615 100 = .err .offset := by
  decide

/-- The fixed code answers the same requests with a `LoadError`. -/
theorem c05_T3_fixed_rejects_witnesses :
    addGraphConstant true ⟨none, 100⟩ ⟨[3], .f32, .inline 2 0⟩ = .err .mismatch ∧
    addGraphConstant true ⟨some 400, 408⟩ ⟨[65536, 65536, 65536, 65536], .u8, .stored 5⟩ = .err .offset ∧
    addGraphConstant false ⟨some 392, 420⟩ ⟨[2147483648, 2147483648], .i32, .stored 0⟩ = .err .offset ∧
    addGraphConstant true ⟨some 400, 401⟩
      ⟨[4294967295, 4294967295, 4294967295, 0], .i8, .stored 0⟩ = .err .offset ∧
    addGraphConstant true ⟨some 400, 401⟩
      ⟨[0, 4294967295, 4294967295, 4294967295], .i8, .stored 0⟩ = .err .mismatch ∧
    fromStorageOffset true 1 [4294967295, 4294967295] 18446744073709551615 100 = .err .offset := by
  decide

/-- **T2 already held before the C05 fixes** (partial statement: T2 without T3): whatever the
old code accepted was well formed and inside the file, because `from_data` (after the C06 fix)
compares the ideal element count with the slice that `get(offset..end)` really returned. -/
theorem c05_T2_rten_old (ovf : Bool) (f : RtenFile) (c : RtenConst) {shape : List Nat} {len : Nat}
    (h : Old.addGraphConstant ovf f c = .ok shape len) :
    shape = M.toNs c.dims ∧ WellFormed shape len ∧ RBacked f c len := by
  unfold Old.addGraphConstant at h
  unfold RBacked
  split at h
  · next dataOffset hd =>
    rw [hd]
    split at h
    · cases h
    · next tdo htdo =>
      split at h
      · cases h
      · next off hoff =>
        split at h
        · cases h
        · unfold Old.fromStorageOffset at h
          split at h
          · cases h
          · split at h
            · cases h
            · next byteLen _ =>
              split at h
              · cases h
              · next stop _ =>
                split at h
                · next hle =>
                  obtain ⟨e1, e2, wf⟩ := fromData_ok h
                  refine ⟨e1, wf, ⟨tdo, htdo, ?_⟩⟩
                  have a1 := checkedAdd_some hoff
                  have a3 := div_mul_le_toNat (stop - off) c.ty.size
                  have a4 := UInt64.toNat_sub_of_le stop off hle.1
                  have h1 := hle.1
                  have h2 := hle.2
                  rw [UInt64.le_iff_toNat_le] at h1 h2
                  rw [e2]
                  omega
                · cases h
  · next n start hd =>
    rw [hd]
    split at h
    · cases h
    · obtain ⟨e1, e2, wf⟩ := fromData_ok h
      exact ⟨e1, wf, e2⟩

/-- **The fix is conservative (stored constants)**: wherever the old release-build code did not
panic, the fixed code returns exactly the same outcome — the same constant or the same error. -/
theorem c05_fix_conservative_stored (size : U) (shape : List U) (offset slen : U)
    (hs : size = 1 ∨ size = 4)
    (h : Old.fromStorageOffset false size shape offset slen ≠ .panic) (ovf : Bool) :
    fromStorageOffset ovf size shape offset slen =
      Old.fromStorageOffset false size shape offset slen := by
  have hI : isizeMax = 9223372036854775807 := rfl
  have addN : ∀ a b : U, (a + b).toNat = (a.toNat + b.toNat) % 18446744073709551616 := M.add_toNat
  have mulN : ∀ a b : U, (a * b).toNat = a.toNat * b.toNat % 18446744073709551616 := M.mul_toNat
  have ltN : ∀ a : U, a.toNat < 18446744073709551616 := M.toNat_lt_W
  unfold Old.fromStorageOffset at h ⊢
  rw [prodMode_false] at h ⊢
  simp only [mulMode, addMode, Bool.false_eq_true, false_and, if_false, UInt64.one_mul] at h ⊢
  generalize hn : M.prod shape = n at h ⊢
  by_cases hr : offset ≤ offset + n * size ∧ offset + n * size ≤ slen
  · -- old is in range: `from_data` did not panic, so the shape is accepted
    simp only [hr, and_self, if_true] at h ⊢
    have hsub : offset + n * size - offset = n * size := by
      apply UInt64.toNat_inj.mp
      rw [UInt64.toNat_sub_of_le _ _ hr.1]
      have := addN offset (n * size)
      have h1 := hr.1
      rw [UInt64.le_iff_toNat_le] at h1
      have := ltN (n * size)
      have := ltN offset
      omega
    rw [hsub] at h ⊢
    unfold fromData at h ⊢
    cases hm : M.tryFromData shape (n * size / size) with
    | error e => rw [hm] at h; exact absurd rfl h
    | ok l =>
      have wf := M_tryFromData_ok hm
      have hfit : prodNZ (M.toNs shape) ≤ isizeMax := by
        have := wf.accepted.shape_fits
        rwa [shapeOf_contigDims] at this
      have hle := prod_le_prodNZ (M.toNs shape)
      have hP : prod (M.toNs shape) = (n * size / size).toNat := wf.len_eq
      obtain ⟨n', hn'⟩ := checkedProd_of_prodNZ shape 1 (by
        have one : (1 : U).toNat = 1 := rfl
        rw [one, Nat.one_mul]; show _ < 18446744073709551616; omega)
      obtain ⟨e1, e2⟩ := checkedProd_one_eq hn'
      rw [hn] at e1
      subst e1
      rw [UInt64.toNat_div, mulN] at hP
      have hsz : size.toNat = 1 ∨ size.toNat = 4 := by
        rcases hs with rfl | rfl
        · exact Or.inl rfl
        · exact Or.inr rfl
      have hmul : n'.toNat * size.toNat < wordSize := by
        show _ < 18446744073709551616
        rw [e2] at hP ⊢
        rcases hsz with h1 | h4
        · rw [h1] at hP ⊢; omega
        · rw [h4] at hP ⊢; omega
      have hadd : offset.toNat + (n' * size).toNat < wordSize := by
        show _ < 18446744073709551616
        have h1 := hr.1
        rw [UInt64.le_iff_toNat_le, addN] at h1
        have := ltN (n' * size)
        have := ltN offset
        omega
      have hbl : checkedMul n' size = some (n' * size) := by simp only [checkedMul, hmul, if_true]
      have hst : checkedAdd offset (n' * size) = some (offset + n' * size) := by
        simp only [checkedAdd, hadd, if_true]
      unfold fromStorageOffset
      rw [hn']
      simp only [hbl, hst, hr.2, if_true]
      rw [rtenCount_spec hs n' offset slen hbl hst hr.2]
      simp only [finish, tryFromDataG_eq]
      unfold tryFromData
      rw [hm]
  · -- old: "invalid tensor data offset"
    simp only [hr, if_false] at h ⊢
    unfold fromStorageOffset
    split
    · rfl
    · next n' hn' =>
      obtain ⟨e1, e2⟩ := checkedProd_one_eq hn'
      rw [hn] at e1
      subst e1
      split
      · rfl
      · next byteLen hb =>
        split
        · rfl
        · next stop hstop =>
          have b1 : byteLen = n' * size := by
            unfold checkedMul at hb; split at hb <;> cases hb; rfl
          have b2 : stop = offset + byteLen := by
            unfold checkedAdd at hstop; split at hstop <;> cases hstop; rfl
          have a := checkedAdd_some hstop
          subst b1
          subst b2
          split
          · next hle =>
            exfalso
            apply hr
            refine ⟨?_, hle⟩
            rw [UInt64.le_iff_toNat_le, a]
            omega
          · rfl

/-- **The fix is conservative (whole `add_graph_constant`)**: on every constant for which the
old release-build loader did not panic, the fixed loader answers identically. -/
theorem c05_fix_conservative (ovf : Bool) (f : RtenFile) (c : RtenConst) (hfb : InFile f c)
    (h : Old.addGraphConstant false f c ≠ .panic) :
    addGraphConstant ovf f c = Old.addGraphConstant false f c := by
  obtain ⟨dims, ty, data⟩ := c
  unfold Old.addGraphConstant at h ⊢
  unfold addGraphConstant
  unfold InFile at hfb
  cases data with
  | stored off =>
    simp only at h ⊢
    cases ht : f.tensorDataOffset with
    | none => rfl
    | some tdo =>
      simp only [ht] at h ⊢
      cases ha : checkedAdd tdo off with
      | none => rfl
      | some o =>
        simp only [ha] at h ⊢
        by_cases hty : ty = .other
        · simp only [hty, if_true]
        · simp only [hty, if_false] at h ⊢
          exact c05_fix_conservative_stored _ _ _ _ RType.size_cases h ovf
  | inline n start =>
    simp only at h ⊢ hfb
    by_cases hty : ty = .other
    · simp only [hty, if_true]
    · simp only [hty, if_false] at h ⊢
      rw [inlineCount_spec _ _ _ _ hfb]
      simp only [finish, tryFromDataG_eq]
      unfold fromData at h ⊢
      unfold tryFromData
      cases hm : M.tryFromData dims n with
      | ok l => rfl
      | error e => rw [hm] at h; exact absurd rfl h

/-- An empty stored f32 constant with shape `[2^31, 2^31, 0]` (non-zero dims multiply to
`2^62 ≤ isize::MAX`, times 4 would overflow) loads with the old and with the fixed code; a
fold that starts from the element size — the first version of the fix — would reject it. -/
theorem c05_fix_keeps_empty_constants :
    addGraphConstant true ⟨some 400, 408⟩ ⟨[2147483648, 2147483648, 0], .f32, .stored 8⟩ =
      .ok [2147483648, 2147483648, 0] 0 ∧
    Old.addGraphConstant false ⟨some 400, 408⟩ ⟨[2147483648, 2147483648, 0], .f32, .stored 8⟩ =
      .ok [2147483648, 2147483648, 0] 0 ∧
    checkedProd [2147483648, 2147483648, 0] 4 = none := by decide

/-- The stored-constant path of the old loader composed with the tensor constructor from
BEFORE the C06 fix (`M.Old.tryFromData`, wrapping `min_data_len`). -/
def Old.fromStorageOffsetBeforeC06 (size : U) (shape : List U) (offset storageLen : U) : Outcome :=
  let n := M.prod shape
  let byteLen := n * size
  let stop := offset + byteLen
  if offset ≤ stop ∧ stop ≤ storageLen then
    match M.Old.tryFromData shape ((stop - offset) / size) with
    | .ok _ => .ok (M.toNs shape) ((stop - offset) / size).toNat
    | .error _ => .panic
  else .err .offset

/-- **T2 was false before the C06 fix** (design §6's suspected defect): dims
`[65536, 65536, 65536, 65536]` with no data were ACCEPTED — ideal element count `2^64`, zero
elements present — so index `[1, 0, 0, 0]` mapped `2^48` elements past the end of the data. -/
theorem c05_T2_before_c06_fix_false :
    Old.fromStorageOffsetBeforeC06 1 [65536, 65536, 65536, 65536] 400 400 =
      .ok [65536, 65536, 65536, 65536] 0 ∧
    prod [65536, 65536, 65536, 65536] = 18446744073709551616 ∧
    M.offsetOf (M.contigDims [65536, 65536, 65536, 65536]) [1, 0, 0, 0] = some 281474976710656 := by
  decide

end RtenVerif.LoaderConst
