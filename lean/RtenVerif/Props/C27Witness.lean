import RtenVerif.Props.C27

/-!
# C27 — non-vacuity examples and witnesses (kernel-evaluated on concrete tokenizers)
-/
namespace RtenVerif.ByteBpe

/-! ### Non-vacuity and witnesses for what is outside the round-trip claim -/

/-- A minimal valid vocabulary (one token per byte, id = byte) plus the token "hi" (id 256). -/
def demoVocab : List (Str × Nat) :=
  ((List.range 256).map fun b => ([byteToChar b], b)) ++ [([104, 105], 256)]

/-- The hypotheses of T2/T3 are met by a concrete tokenizer: `Bpe::new` accepts `demoVocab` with
the merge `h i`, ids are distinct, "hi!" encodes to `[hi, !]`, and `encode` over the lossless
pieces "hi" | "!" gives offsets `[0, 2, 3]` (piece starts + text length). -/
def demoCheck : Bool :=
  match Bpe.new demoVocab [([104], [105])] none false [] with
  | .ok t =>
    encodePiece t [104, 105, 33] true == [256, 33] &&
    encode t 3 [104, 105, 33] none [(0, 2), (2, 3)] == some ([256, 33], [0, 2, 3]) &&
    decodeIds t [256, 33] == .ok [104, 105, 33] &&
    tokenTexts [104, 105, 33] [0, 2, 3] == [some [104, 105], some [33]]
  | _ => false

example : demoCheck = true := by decide +kernel
example : (demoVocab.map (·.2)).Nodup := by decide +kernel
example : Tiles [(0, 2), (2, 3)] 0 3 := ⟨rfl, by omega, rfl, by omega, rfl⟩
example : MapMono (some [0, 0, 2]) := mapMono_some _ (by decide)
/-- `str::get` refuses a range that cuts "ö" = `C3 B6` in the middle (Rust returns `None`). -/
example : tokenTexts [0xC3, 0xB6] [0, 1, 2] = [none, none] ∧
    tokenTexts [0xC3, 0xB6, 0x78] [0, 2, 3] = [some [0xC3, 0xB6], some [0x78]] := by decide
/-- The hypothesis `hadd` of T2/T3 with a non-empty `added_tokens` map: id 50256 is not a
vocabulary id of `demoVocab`. -/
example : ∀ e ∈ demoVocab, ([(50256, [60, 124, 62])] : List (Nat × List Nat)).lookup e.2 = none := by
  decide +kernel

/-- **Witness (outside T2): an end-of-word suffix does not round-trip.**  A CLIP-style
tokenizer (`end_of_word_suffix = "</w>"`, byte token ids `b`, end-of-word byte tokens `256 + b`;
only the entries for "a" are listed): the piece "a" encodes to the token `a</w>` and `decode`
returns the bytes of "a</w>" — the suffix is not stripped. -/
def eowT : Bpe where
  vocab := [([97], 97), ([97, 60, 47, 119, 62], 353)]
  merges := []
  byteTok := fun b => b
  eow := some fun b => b + 256
  ignoreMerges := false
  added := []

theorem c27_eow_suffix_decoded_verbatim :
    encodePiece eowT [97] true = [353] ∧ decodeIds eowT [353] = .ok [97, 60, 47, 119, 62] := by
  decide +kernel

/-- **Witness (hypothesis `hadd` of T2 is needed): an added token that reuses a vocabulary id
shadows it in `decode`.**  Added token `33 ↦ "<e>"` where 33 is also the id of "!": "!" decodes
to "<e>". -/
def clashT : Bpe where
  vocab := [([33], 33)]
  merges := []
  byteTok := fun b => b
  eow := none
  ignoreMerges := false
  added := [(33, [60, 101, 62])]

theorem c27_added_token_clash_shadows :
    encodePiece clashT [33] true = [33] ∧ decodeIds clashT [33] = .ok [60, 101, 62] := by
  decide +kernel

end RtenVerif.ByteBpe
