import RtenVerif.Props.C10Layout

/-!
# C10 — the functions the code runs: `binaryInfer` (value path with fallback to the `BinaryOp`
shape rule), `Neg`, `Identity` (audit M4, M5)
-/
namespace RtenVerif.ShapeInfer

theorem mapO_length {α β : Type} (f : α → Option β) : ∀ (l : List α) (out : List β), mapO f l = some out → out.length = l.length := by
  intro l
  induction l with
  | nil => intro out h; simp only [mapO] at h; cases h; rfl
  | cons a l ih =>
    intro out h
    simp only [mapO] at h
    cases ha : f a with
    | none => simp [ha] at h
    | some b =>
      simp only [ha] at h
      cases hl : mapO f l with
      | none => simp [hl] at h
      | some bs => simp only [hl] at h; cases h; simp [ih bs hl]

/-- The valued reference produces a tensor whose shape is the NumPy broadcast of the operand shapes. -/
theorem execBinary_dims (f : Int → Int → Option Int) (ca cb' cr : CT) (va vb : List Int)
    (hva : ca.values = some va) (hvb : cb'.values = some vb) (he : execBinary f ca cb' = some cr) :
    cbroadcast ca.dims cb'.dims = some cr.dims := by
  cases ca with
  | shaped ds => simp [CT.values] at hva
  | scalar x =>
    cases cb' with
    | shaped ds => simp [CT.values] at hvb
    | scalar y =>
      simp only [execBinary] at he
      cases hf : f x y with
      | none => simp [hf] at he
      | some w => simp only [hf, Option.map_some] at he; cases he; rfl
    | vector ys =>
      simp only [execBinary, CT.values, czip] at he
      cases hm : mapO (fun y => f x y) ys with
      | none => simp [hm] at he
      | some w =>
        simp only [hm, Option.map_some] at he; cases he
        have := mapO_length _ ys w hm
        simp only [cbroadcast, CT.dims, padC, this]
        by_cases h1 : (ys.length : Int) = 1
        · simp [cbs, cb, h1]
        · have : (1 : Int) ≠ ys.length := fun h => h1 h.symm
          simp [cbs, cb, this]
  | vector xs =>
    cases cb' with
    | shaped ds => simp [CT.values] at hvb
    | scalar y =>
      have he' : (mapO (fun x => f x y) xs).map CT.vector = some cr ∨ (∃ x, xs = [x] ∧ (mapO (fun y' => f x y') [y]).map CT.vector = some cr) := by
        match xs, he with
        | [x], he => right; exact ⟨x, rfl, by simpa [execBinary, CT.values, czip] using he⟩
        | [], he => left; simpa [execBinary, CT.values, czip] using he
        | _ :: _ :: _, he => left; simpa [execBinary, CT.values, czip] using he
      rcases he' with he' | ⟨x, rfl, he'⟩
      · cases hm : mapO (fun x => f x y) xs with
        | none => simp [hm] at he'
        | some w =>
          simp only [hm, Option.map_some] at he'; cases he'
          have := mapO_length _ xs w hm
          simp only [cbroadcast, CT.dims, padC, this]
          by_cases h1 : (xs.length : Int) = 1
          · simp [cbs, cb, h1]
          · simp [cbs, cb, h1]
      · simp only [mapO] at he'
        cases hf : f x y with
        | none => simp [hf] at he'
        | some w => simp only [hf, Option.map_some] at he'; cases he'; simp [cbroadcast, CT.dims, padC, cbs, cb]
    | vector ys =>
      simp only [execBinary, CT.values] at he
      cases hz : czip f xs ys with
      | none => simp [hz] at he
      | some w =>
        simp only [hz, Option.map_some] at he; cases he
        simp only [cbroadcast, CT.dims, padC]
        match xs, ys, hz with
        | [x], ys, hz =>
          simp only [czip] at hz
          have := mapO_length _ ys w hz
          by_cases h1 : (ys.length : Int) = 1
          · simp [cbs, cb, h1, this]
          · have : (1 : Int) ≠ ys.length := fun h => h1 h.symm
            simp_all [cbs, cb]
        | [], [y], hz => simp only [czip, mapO] at hz; cases hz; simp [cbs, cb]
        | x1 :: x2 :: xs', [y], hz =>
          simp only [czip] at hz
          have := mapO_length _ _ w hz
          simp only [List.length_cons] at this
          have h1 : ¬ ((xs'.length : Int) + 1 + 1 = 1) := by omega
          simp [cbs, cb, this, h1]
        | [], [], hz => simp [czip, mapO] at hz; cases hz; simp [cbs, cb]
        | [], _ :: _ :: _, hz => simp [czip] at hz
        | _ :: _ :: _, [], hz => simp [czip] at hz
        | x1 :: x2 :: xs', y1 :: y2 :: ys', hz =>
          simp only [czip] at hz
          split at hz
          · rename_i hlen
            have := mapO_length _ _ w hz
            simp only [List.length_zip, List.length_cons] at this hlen
            simp [cbs, cb, this, hlen]
          · cases hz

/-- **C10.T1-binaryInfer** — the function the real operators run (`binary_op_infer_shapes`): the
value path when `symbolic_binary_op` decides every element, otherwise the `BinaryOp` shape rule.
For operands whose inspected elements satisfy `S` (nothing for Add/Sub/Mul/Div, `good` for Equal) , the inferred tensor agrees with the executed one, where the
execution is the valued reference if both operands carry values and the broadcast shape otherwise. -/
theorem c10_binaryInfer_sound (σ : Env) (S) (op) (f) (h : OpHomOn σ S op f) (a b r : STn) (ca cb' cr : CT)
    (ha : Agrees σ a ca) (hb : Agrees σ b cb') (hSa : ElemsOn S a) (hSb : ElemsOn S b)
    (hi : binaryInfer op a b = .ok r) (he : execBinaryFull f ca cb' = some cr) : Agrees σ r cr := by
  unfold binaryInfer at hi
  cases hs : symBinary op a b with
  | some r' =>
    simp only [hs, Except.ok.injEq] at hi; subst hi
    -- both operands carry values
    have hav : ∃ xs, a.values = some xs := by cases a <;> cases b <;> simp_all [symBinary, STn.values]
    have hbv : ∃ ys, b.values = some ys := by cases a <;> cases b <;> simp_all [symBinary, STn.values]
    obtain ⟨xs, hav⟩ := hav
    obtain ⟨ys, hbv⟩ := hbv
    obtain ⟨va, hva, _⟩ := agrees_valuesOn σ a ca xs ha hav
    obtain ⟨vb, hvb, _⟩ := agrees_valuesOn σ b cb' ys hb hbv
    simp only [execBinaryFull, hva, hvb] at he
    exact c10_symBinary_soundOn σ S op f h a b r' ca cb' cr ha hb hSa hSb hs he
  | none =>
    simp only [hs] at hi
    cases had : a.dims with
    | none => simp only [binaryShape, had] at hi; cases hi; simp [Agrees]
    | some ad =>
      cases hbd : b.dims with
      | none => simp only [binaryShape, had, hbd] at hi; cases hi; simp [Agrees]
      | some bd =>
        have hshape : ∃ out, r = .shape out := by
          simp only [binaryShape, had, hbd] at hi
          cases hm : bdims (padLeft (Nat.max ad.length bd.length) ad) (padLeft (Nat.max ad.length bd.length) bd) with
          | error e => simp [hm, Except.map] at hi
          | ok o => simp only [hm, Except.map, Except.ok.injEq] at hi; exact ⟨o, hi.symm⟩
        obtain ⟨out, rfl⟩ := hshape
        -- the executed tensor's shape is the broadcast shape in both execution modes
        have hz : cbroadcast ca.dims cb'.dims = some cr.dims := by
          unfold execBinaryFull at he
          cases hva : ca.values with
          | none => simp only [hva] at he; cases hz : cbroadcast ca.dims cb'.dims with
            | none => simp [hz] at he
            | some zs => simp only [hz, Option.map_some] at he; cases he; rfl
          | some va =>
            cases hvb : cb'.values with
            | none => simp only [hva, hvb] at he; cases hz : cbroadcast ca.dims cb'.dims with
              | none => simp [hz] at he
              | some zs => simp only [hz, Option.map_some] at he; cases he; rfl
            | some vb =>
              simp only [hva, hvb] at he
              exact execBinary_dims f ca cb' cr va vb hva hvb he
        exact c10_binaryShape_sound σ a b ca cb' ad bd out cr.dims ha hb had hbd hi hz

/-- **C10.T1-neg**. -/
theorem c10_neg_sound (σ : Env) (a : STn) (c : CT) (ha : Agrees σ a c) : Agrees σ (negInfer a) (cneg c) := by
  cases a with
  | scalar e =>
    obtain ⟨v, rfl, hv⟩ := ha
    exact ⟨-v, rfl, by simp [Sym.eval, hv]⟩
  | vector es =>
    obtain ⟨vs, rfl, hv⟩ := ha
    refine ⟨_, rfl, ?_⟩
    induction es generalizing vs with
    | nil => simp only [evalList, mapO] at hv; cases hv; rfl
    | cons e es ih =>
      obtain ⟨v, vs', he, hes, rfl⟩ := evalList_cons σ e es vs hv
      simpa using evalList_cons_intro σ (.neg e) (es.map Sym.neg) (-v) (vs'.map fun v => -v) (by simp [Sym.eval, he]) (ih vs' hes)
  | shape ds =>
    cases c <;> simpa [negInfer, cneg, Agrees, CT.dims] using ha
  | unknown => simp [negInfer, Agrees]

/-- **C10.T1-identity**. -/
theorem c10_identity_sound (σ : Env) (a : STn) (c : CT) (ha : Agrees σ a c) : Agrees σ (identityInfer a) c := ha

end RtenVerif.ShapeInfer
