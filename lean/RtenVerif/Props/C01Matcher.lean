import RtenVerif.Lemmas.OptimizePattern
import RtenVerif.Model.FusionPatterns

/-!
# C01 — T4 matcher soundness, and further exact-algebra fusion lemmas (T2)

T4: `c01_matcher_sound` (= `matchPat_sound`): a successful match of `Model/Pattern.lean`'s matcher
(the model tied line by line to `pattern_matcher.rs` by the structural correspondence) returns a
binding under which the pattern is *embedded* at the matched node — see `embeds` in
`Lemmas/OptimizePattern.lean` for the exact notion (operand permutation at commutative operators,
injective assignment of flattened operands for associative+commutative chains, one operator per
named operator pattern, constants only through `constMatches`). Corollaries: symbol consistency,
single-element constants within tolerance. The named-operator clause needs the 9f07d3a fix
(`strictKeys`); the pre-fix matcher's answer on the SafeSoftmax witness binds `softmax` to two
different operators.

T2 (exact algebra, values in any type `α` with the operations as parameters — in particular any
commutative ring / field): Silu, Swish (with the `alpha = 1` coincidence), ReduceMean
axes-input vs attribute form (with the `noop_with_empty_axes` witness for the pre-fix code),
Transpose fused into MatMul at the index level, Cast to the value's own type.
-/
namespace RtenVerif.Pattern

/-- **T4.** -/
theorem c01_matcher_sound (g : GView) (cfg : MatchCfg) (hk : cfg.strictKeys = true)
    (fuel : Nat) (p : Pat) (v : Nat) (s' : Syms) (h : matchPat g cfg fuel p v [] = some s') :
    embeds g cfg fuel p v s' :=
  (matchPat_sound g cfg hk fuel p v [] s' h).2

/-- Symbols are bound consistently: two occurrences of the same symbol embedded under one binding
sit on the same node. -/
theorem c01_symbol_consistent (g : GView) (cfg : MatchCfg) (f1 f2 : Nat) (name : String) (c1 c2 : Bool) (v1 v2 : Nat) (σ : Syms)
    (h1 : embeds g cfg (f1 + 1) (.sym name c1) v1 σ) (h2 : embeds g cfg (f2 + 1) (.sym name c2) v2 σ) : v1 = v2 := by
  simp only [embeds] at h1 h2
  have := h1.1.symm.trans h2.1
  exact Option.some.inj this

/-- Named operator patterns are bound to a single operator. -/
theorem c01_key_single_operator (g : GView) (cfg : MatchCfg) (f1 f2 : Nat) (n1 n2 key : String) (p1 p2 : List Pat) (v1 v2 : Nat) (σ : Syms)
    (h1 : embeds g cfg (f1 + 1) (.op n1 p1 (some key)) v1 σ) (h2 : embeds g cfg (f2 + 1) (.op n2 p2 (some key)) v2 σ) :
    ∃ o1 o2, (g.opById v1 = some o1 ∨ (g.values.contains v1 = true ∧ g.source v1 = some o1)) ∧
      (g.opById v2 = some o2 ∨ (g.values.contains v2 = true ∧ g.source v2 = some o2)) ∧ o1.oid = o2.oid := by
  simp only [embeds] at h1 h2
  obtain ⟨o1, w1, _, _, k1, _⟩ := h1
  obtain ⟨o2, w2, _, _, k2, _⟩ := h2
  exact ⟨o1, o2, w1, w2, Option.some.inj ((k1 key rfl).symm.trans (k2 key rfl))⟩

/-- **Rank clause (audit H1).** A matched operator pattern (fixed matcher, `rankGuard`) satisfies the
rank condition at the operator and at every inner operator of its associative chain; together with
`flattenGraph_consumer` (each chain operand is a direct input of a chain operator) and
`c01_scalar_const_keeps_shape` this is what keeps the output shape when the fusion drops the constant. -/
theorem c01_match_rank_clause (g : GView) (cfg : MatchCfg) (hk : cfg.strictKeys = true) (hr : cfg.rankGuard = true)
    (fuel : Nat) (name : String) (pins : List Pat) (key : Option String) (v : Nat) (s' : Syms)
    (h : matchPat g cfg (fuel + 1) (.op name pins key) v [] = some s') :
    ∃ o, (g.opById v = some o ∨ (g.values.contains v = true ∧ g.source v = some o)) ∧
      RankClause g cfg.rank name pins o := by
  have := (matchPat_sound g cfg hk (fuel + 1) _ v [] s' h).2
  simp only [embeds] at this
  obtain ⟨o, hw, _, _, _, hrk, _⟩ := this
  exact ⟨o, hw, hrk hr⟩

/-- Every constant pattern of every modelled fusion is a direct operand of an operator pattern, so
the rank clause of `embeds` (which speaks about an operator pattern's own — flattened — operand
list) covers every constant these fusions can match. -/
theorem allFusionPatterns_constsGuarded :
    Fusions.allFusionPatterns.all (constsGuarded 16 false) = true := by decide

/-- The side condition is needed: a constant directly under `anyOf` is invisible to the rank guard —
in this model and in `pattern_matcher.rs` alike (latent: no fusion in `fusions.rs` has this shape).
`x:[3] + c:[1,1]`, pattern `Add(x, anyOf [0.])`, rank guard on: the match succeeds. -/
def gHole : GView :=
  { ops := [⟨10, "Add", [some 0, some 9], [1]⟩], consts := [⟨9, "f", [1, 1], [0], []⟩], values := [0, 1] }
def holeCfg : MatchCfg := { strictKeys := true, rankGuard := true, rank := fun v => if v = 0 then some 1 else if v = 9 then some 2 else none }
theorem c01_anyOf_const_escapes_rank_guard :
    (matchPat gHole holeCfg 8 (.op "Add" [.sym "x" false, .anyOf [.const 0 true]] none) 10 []).isSome = true ∧
    matchPat gHole holeCfg 8 (.op "Add" [.sym "x" false, .const 0 true] none) 10 [] = none ∧
    constsGuarded 8 false (.op "Add" [.sym "x" false, .anyOf [.const 0 true]] none) = false := by decide

/-- positive-rank instance of the rank clause: `x:[2,3] + c:[1,1]` matches (rank 2 ≥ 2) … -/
example : (matchPat gHole { holeCfg with rank := fun v => if v = 0 then some 2 else if v = 9 then some 2 else none } 8
    (.op "Add" [.sym "x" false, .const 0 true] none) 10 []).isSome = true := by decide

/-- Constant patterns only match float constants with exactly one element whose (finite) value `x`
satisfies `|x − v| ≤ tol` as exact rationals, `tol` = 1e-4 (as f32) or 0 for exact patterns. -/
theorem c01_const_single_element (c : ConstInfo) (bits : Nat) (exact : Bool) (h : constMatches c bits exact = true) :
    c.dtype = "f" ∧ c.shape.foldl (· * ·) 1 = 1 ∧
      ∃ b x v t, c.bits = [b] ∧ f32Rat b = some x ∧ f32Rat bits = some v ∧
        f32Rat (if exact then 0 else tolBits) = some t ∧ absDiffLe x v t = true := by
  unfold constMatches at h
  simp only [Bool.and_eq_true, beq_iff_eq] at h
  obtain ⟨⟨h1, h2⟩, h3⟩ := h
  refine ⟨h1, h2, ?_⟩
  cases hb : c.bits with
  | nil => simp [hb] at h3
  | cons b rest =>
    cases rest with
    | nil =>
      simp only [hb] at h3
      cases hx : f32Rat b with
      | none => simp [hx] at h3
      | some x =>
        cases hv : f32Rat bits with
        | none => simp [hx, hv] at h3
        | some v =>
          cases ht : f32Rat (if exact then 0 else tolBits) with
          | none => simp [hx, hv, ht] at h3
          | some t =>
            simp only [hx, hv, ht] at h3
            exact ⟨b, x, v, t, rfl, hx, rfl, rfl, h3⟩
    | cons b2 r => simp [hb] at h3

/-- `absDiffLe` is the stated inequality on the rationals `m·2^e` (common exponent `e₀`). -/
theorem absDiffLe_spec (a b t : Int × Int) :
    absDiffLe a b t = true ↔
      (a.1 * (2 : Int) ^ (a.2 - min a.2 (min b.2 t.2)).toNat - b.1 * (2 : Int) ^ (b.2 - min a.2 (min b.2 t.2)).toNat).natAbs
        ≤ (t.1 * (2 : Int) ^ (t.2 - min a.2 (min b.2 t.2)).toNat).natAbs := by
  simp [absDiffLe]

/-- f32 bit patterns: 1.0, 1.00005, 1.001; tolerance 1e-4. -/
example : constMatches ⟨0, "f", [1, 1], [1065353216], []⟩ 1065353216 false = true := by decide
example : constMatches ⟨0, "f", [], [1065353635], []⟩ 1065353216 false = true := by decide
example : constMatches ⟨0, "f", [], [1065353635], []⟩ 1065353216 true = false := by decide
example : constMatches ⟨0, "f", [], [1065361605], []⟩ 1065353216 false = false := by decide
example : constMatches ⟨0, "f", [3], [1065353216, 1065353216, 1065353216], []⟩ 1065353216 false = false := by decide

/-- Non-vacuity: the Silu graph (operands swapped) is matched, hence embedded. -/
def gSiluM : GView :=
  { ops := [⟨10, "Sigmoid", [some 0], [2]⟩, ⟨11, "Mul", [some 2, some 0], [3]⟩],
    consts := [], values := [0, 2, 3] }
def siluPM : Pat := .op "Mul" [.sym "x" false, .op "Sigmoid" [.sym "x" false] none] none
def cfgM : MatchCfg := { strictKeys := true, rankGuard := true, rank := fun _ => none }
example : embeds gSiluM cfgM 16 siluPM 11 [("x", 0)] :=
  c01_matcher_sound gSiluM cfgM rfl 16 siluPM 11 _ (by decide)

/-- Pre-fix matcher (`strictKeys = false`): the SafeSoftmax pattern "matches" two different Softmax
operators and the binding holds both (lookup returns the first) — the hypothesis is needed. -/
def gSafeM : GView :=
  { ops := [⟨30, "Softmax", [some 0], [1]⟩, ⟨31, "Softmax", [some 0], [2]⟩, ⟨32, "IsNaN", [some 1], [3]⟩,
            ⟨33, "Where", [some 3, some 9, some 2], [4]⟩],
    consts := [⟨9, "f", [], [0], []⟩], values := [0, 1, 2, 3, 4] }
def safePM : Pat :=
  let y := Pat.op "Softmax" [.sym "x" false] (some "softmax")
  .op "Where" [.op "IsNaN" [y] none, .const 0 false, y] none
theorem c01_prefix_key_rebound :
    matchPat gSafeM { cfgM with strictKeys := false } 16 safePM 33 [] = some [("x", 0), ("softmax", 30), ("softmax", 31)] := by
  decide

end RtenVerif.Pattern

namespace RtenVerif.Optimize.Algebra

variable {α : Type}

/-! ## Reciprocal, Silu, Swish: definitional unfoldings (elementwise, after the shape lemma
`c01_scalar_const_keeps_shape` has reduced the broadcast of the scalar constant to `map`) -/

theorem zipWith_map_right (f : α → α → α) (h : α → α) : ∀ xs : List α,
    List.zipWith f xs (xs.map h) = xs.map (fun x => f x (h x)) := by
  intro xs
  induction xs with
  | nil => rfl
  | cons x xs ih => simp [List.zipWith, ih]

/-- `Mul(x, Sigmoid(x))` = `Silu(x)`. -/
theorem c01_silu (mul : α → α → α) (sig : α → α) (xs : List α) :
    List.zipWith mul xs (xs.map sig) = xs.map (fun x => mul x (sig x)) :=
  zipWith_map_right mul sig xs

/-- `Mul(x, Sigmoid(Mul(alpha, x)))` = `Swish_alpha(x)`. -/
theorem c01_swish (mul : α → α → α) (sig : α → α) (alpha : α) (xs : List α) :
    List.zipWith mul xs ((xs.map (mul alpha)).map sig) = xs.map (fun x => mul x (sig (mul alpha x))) := by
  rw [List.map_map]; exact zipWith_map_right mul (sig ∘ mul alpha) xs

/-- With `alpha = 1` Swish is Silu (why SiluFusion may come first in the fusion list). -/
theorem c01_swish_one (mul : α → α → α) (sig : α → α) (one : α) (hone : ∀ x, mul one x = x) (xs : List α) :
    xs.map (fun x => mul x (sig (mul one x))) = xs.map (fun x => mul x (sig x)) := by
  simp [hone]

/-! ## ReduceMean: `axes` input vs attribute -/

/-- `ReduceMean::run`: `get_axes` prefers the input over the attribute; empty / absent axes with
`noop_with_empty_axes` return the input unchanged; `sem` is the actual reduction. -/
def reduceMean (sem : List Int → Bool → α → α) (attr input : Option (List Int)) (keep noop : Bool) (x : α) : α :=
  let axes := input.orElse fun _ => attr
  if (axes.isNone || axes == some []) && noop then x else sem (axes.getD []) keep x

/-- ReduceMeanAxesFusion (fixed code): moving a constant `axes` input into the attribute and keeping
`keep_dims` and `noop_with_empty_axes` does not change the operator. -/
theorem c01_reduce_mean_axes (sem : List Int → Bool → α → α) (v : List Int) (keep noop : Bool) (x : α) :
    reduceMean sem none (some v) keep noop x = reduceMean sem (some v) none keep noop x := by
  simp [reduceMean]

/-- The pre-fix fusion set `noop_with_empty_axes := false`: wrong for empty axes with the flag set
(here the reduction of the model is "sum of a list", so the no-op result differs). -/
theorem c01_reduce_mean_axes_prefix_false :
    reduceMean (fun _ _ (x : List Int) => [x.foldl (· + ·) 0]) none (some []) true true [1, 2]
      ≠ reduceMean (fun _ _ (x : List Int) => [x.foldl (· + ·) 0]) (some []) none true false [1, 2] := by
  decide

/-! ## Transpose fused into MatMul (index level) -/

def sumTo (f : Nat → Int) : Nat → Int
  | 0 => 0
  | k + 1 => sumTo f k + f k

/-- `MatMul(A, B)[i,j]` with inner dimension `K` -/
def matmul (K : Nat) (A B : Nat → Nat → Int) (i j : Nat) : Int := sumTo (fun k => A i k * B k j) K
/-- `Transpose(A)` (perm = [1,0]) -/
def transpose (A : Nat → Nat → Int) (i j : Nat) : Int := A j i
/-- the fused operator reads operand 0 / operand 1 through a view with permuted strides -/
def matmulTA (K : Nat) (A B : Nat → Nat → Int) (i j : Nat) : Int := sumTo (fun k => A k i * B k j) K
def matmulTB (K : Nat) (A B : Nat → Nat → Int) (i j : Nat) : Int := sumTo (fun k => A i k * B j k) K

theorem c01_transpose_matmul (K : Nat) (A B : Nat → Nat → Int) (i j : Nat) :
    matmul K (transpose A) B i j = matmulTA K A B i j ∧ matmul K A (transpose B) i j = matmulTB K A B i j :=
  ⟨rfl, rfl⟩

/-! ## Cast to the value's own element type -/

inductive Val | f (x : List Int) | i (x : List Int)   -- payloads abstract; tags = element type
deriving DecidableEq

inductive DT | float | int32
deriving DecidableEq

def Val.dtype : Val → DT
  | .f _ => .float
  | .i _ => .int32

/-- `cast` of `ops/convert.rs` on two element types (`toF` / `toI` are the element conversions) -/
def cast (toF toI : List Int → List Int) (to : DT) : Val → Val
  | .f x => match to with | .float => .f x | .int32 => .i (toI x)
  | .i x => match to with | .float => .f (toF x) | .int32 => .i x

/-- CastElimination: a Cast to the value's own type is the identity. The fusion's guard compares
the *declared / inferred* type with `to`; that this is the run-time type is property C12. -/
theorem c01_cast_same_type (toF toI : List Int → List Int) (to : DT) (v : Val) (h : v.dtype = to) :
    cast toF toI to v = v := by
  cases v <;> cases to <;> simp_all [cast, Val.dtype]

end RtenVerif.Optimize.Algebra
