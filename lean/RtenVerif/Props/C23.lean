import RtenVerif.Lemmas.PoolInv

/-!
# C23 — The buffer pool hands out each buffer once with adequate capacity

Property theorems over `RtenVerif.Model.Pool` (model of `src/buffer_pool.rs`).

A *schedule* is any list of atomic steps (`Op`), each tagged with the thread that performs it:
the non-critical prefix of `alloc`/`add`, the critical section under the pool mutex, the
fallback allocation after the mutex was released, drops by holders, `PoolRef` drops, the drop of
the pool. `Reachable s` means: `s` is the state after some schedule from an empty pool with some
`min_size`. All theorems below quantify over every reachable state, i.e. over every interleaving
of every number of threads and every history (unbounded).
-/
namespace RtenVerif.Pool

/-- States reachable from `BufferPool::new().with_min_size(m)` by some interleaving. -/
def Reachable (s : State) : Prop := ∃ (m : Nat) (ops : List Op), run (init m) ops = some s

theorem Reachable.inv {s : State} (h : Reachable s) : Inv s := by
  obtain ⟨m, ops, h⟩ := h
  exact run_inv (init_inv m) h

theorem run_snoc (s0 : State) (l : List Op) (op : Op) :
    run s0 (l ++ [op]) = (run s0 l).bind (fun s => (step s op).map (·.1)) := by
  induction l generalizing s0 with
  | nil =>
    simp only [List.nil_append, run, Option.bind_some]
    cases step s0 op with
    | none => rfl
    | some p => rfl
  | cons o os ih =>
    simp only [List.cons_append, run]
    cases step s0 o with
    | none => rfl
    | some p => exact ih p.1

theorem Reachable.step {s s' : State} {op : Op} {ev : Ev} (h : Reachable s)
    (hs : step s op = some (s', ev)) : Reachable s' := by
  obtain ⟨m, ops, h⟩ := h
  exact ⟨m, ops ++ [op], by rw [run_snoc, h]; simp [hs]⟩

/-- Allocation ids in the pool / held by a holder / in transit inside `add` / freed. -/
def poolIds (s : State) : List Nat := s.pool.map (·.id)
def heldIds (s : State) : List Nat := s.held.map (·.v.id)
def transitIds (s : State) : List Nat := (transitBufs s.pend).map (·.id)
def freedIds (s : State) : List Nat := s.freed.map (·.1)

/-- Number of places allocation `i` is in. -/
def places (s : State) (i : Nat) : Nat :=
  (poolIds s).count i + (heldIds s).count i + (transitIds s).count i + (freedIds s).count i

/-! ## T1 — every buffer is in exactly one place -/

/-- **C23.T1** In every reachable state of every interleaving, each allocation ever made
(`i < allocs.length`) is in exactly one place — in the pool once, or with exactly one holder, or in
transit in exactly one thread's `add`, or freed once — and ids never allocated are nowhere. -/
theorem c23_unique_place {s : State} (h : Reachable s) (i : Nat) :
    places s i = if i < s.allocs.length then 1 else 0 :=
  h.inv.once i

/-- **C23.T1'** No buffer is handed to two holders at once: the holders' allocation ids are
pairwise distinct, and a held buffer is neither in the pool, nor in transit, nor freed. -/
theorem c23_no_two_holders {s : State} (h : Reachable s) :
    (heldIds s).Nodup ∧
      ∀ i ∈ heldIds s, i ∉ poolIds s ∧ i ∉ transitIds s ∧ i ∉ freedIds s := by
  refine ⟨List.nodup_iff_count.mpr fun i => ?_, fun i hi => ?_⟩
  · have := c23_unique_place h i
    unfold places at this
    split at this <;> omega
  · have := c23_unique_place h i
    have hpos : 0 < (heldIds s).count i := List.count_pos_iff.mpr hi
    unfold places at this
    refine ⟨fun hc => ?_, fun hc => ?_, fun hc => ?_⟩ <;>
    · have := List.count_pos_iff.mpr hc
      split at * <;> omega

/-- The pool never contains the same buffer twice (so it cannot be handed out twice later). -/
theorem c23_pool_nodup {s : State} (h : Reachable s) : (poolIds s).Nodup := by
  refine List.nodup_iff_count.mpr fun i => ?_
  have := c23_unique_place h i
  unfold places at this
  split at this <;> omega

/-! ## T2 — adequate capacity and a layout valid for the requested element type -/

/-- **C23.T2** Every vec a holder got from `alloc::<T>(cap)` (by bypass, pool hit or fallback, in
any interleaving) has capacity `≥ cap`, is typed `T`, and `Layout::array::<T>(capacity)` exists and
equals the layout the block was originally allocated with — the condition under which
`Vec::<T>::from_raw_parts(ptr, 0, capacity)` is valid for the allocator. -/
theorem c23_alloc_adequate {s : State} (h : Reachable s) (x : Held) (hx : x ∈ s.held) :
    x.reqCap ≤ x.v.cap ∧ x.v.ty = x.reqTy ∧
      ∃ l, layoutArray x.reqTy x.v.cap = some l ∧ s.allocs[x.v.id]? = some l := by
  obtain ⟨⟨l, h1, h2⟩, hc, hty⟩ := h.inv.heldOk x hx
  exact ⟨hc, hty, l, hty ▸ h1, h2⟩

/-- The ledger entry written by the first step of `alloc::<ty>(cap)` (bypass case) really records
the request, and the other two completing steps copy it from the pending entry. -/
theorem c23_alloc_records_request {s s' : State} {t slot cap : Nat} {ty : Ty} {ev : Ev}
    (h : step s (.allocStart t slot ty cap) = some (s', ev)) :
    (∃ id c bytes, ev = .bypass id c bytes ∧
        s'.held = s.held ++ [⟨t, slot, ty, cap, ⟨id, c, ty⟩⟩] ∧ s'.pend = s.pend) ∨
    (ev = .pend ∧ s'.held = s.held ∧ s'.pend = s.pend ++ [(t, .wantLock slot ty cap)]) ∨
    (ev = .panic ∧ s' = s ∧ layoutArray ty cap = none) := by
  simp only [step] at h
  split at h
  · cases h
  · split at h
    · cases h
    · split at h
      · split at h
        · next hw =>
          simp only [Option.some.injEq, Prod.mk.injEq] at h
          obtain ⟨rfl, rfl⟩ := h
          refine Or.inr (Or.inr ⟨rfl, rfl, ?_⟩)
          unfold withCapacity at hw
          cases hl : layoutArray ty cap with
          | none => rfl
          | some l => simp [hl] at hw
        · next c l hw =>
          simp only [Option.some.injEq, Prod.mk.injEq] at h
          obtain ⟨rfl, rfl⟩ := h
          exact Or.inl ⟨_, _, _, rfl, rfl, rfl⟩
      · simp only [Option.some.injEq, Prod.mk.injEq] at h
        obtain ⟨rfl, rfl⟩ := h
        exact Or.inr (Or.inl ⟨rfl, rfl, rfl⟩)

/-- `layout_match::<T>` (type-erased reuse) as the code decides it: equal alignment and equal
total byte size for the buffer's capacity; hence equal element size whenever the capacity is
non-zero. -/
theorem c23_layout_match_spec {b : Buf} {t : Ty}
    (hb : layoutArray b.dty b.cap = some (b.lsize, b.lalign)) (hm : layoutMatch b t = true) :
    t.align = b.dty.align ∧ b.cap * t.size = b.cap * b.dty.size ∧ (0 < b.cap → t.size = b.dty.size) := by
  have h1 := layoutArray_some (layoutMatch_iff.mp hm)
  have h2 := layoutArray_some hb
  simp only [Prod.mk.injEq] at h1 h2
  refine ⟨by omega, by omega, fun hpos => ?_⟩
  have : b.cap * t.size = b.cap * b.dty.size := by omega
  exact Nat.eq_of_mul_eq_mul_left hpos this

/-- Full-strength reading "the element size always matches" is false of the code: a capacity-0
buffer made from a `Vec<u32>` satisfies `layout_match::<(u32, u32)>` (both layouts are
`size 0, align 4`). Harmless — no memory is involved — but it is why T2 is stated through
`Layout::array` equality and the element-size clause carries `0 < cap`. -/
theorem c23_elem_size_always_equal_false :
    ¬ ∀ (b : Buf) (t : Ty), layoutArray b.dty b.cap = some (b.lsize, b.lalign) →
        layoutMatch b t = true → t.size = b.dty.size := by
  intro h
  have := h ⟨0, 0, 0, 4, ⟨4, 4⟩⟩ ⟨8, 4⟩ (by decide) (by decide)
  simp at this

/-! ## T3 — a returned buffer is reused or freed exactly once -/

/-- **C23.T3** (no double free, frees use the right layout) In every reachable state the free
ledger mentions every allocation at most once, each time with exactly the layout it was allocated
with, and a freed allocation is nowhere else (not in the pool, not held, not in transit). -/
theorem c23_freed_once {s : State} (h : Reachable s) :
    (freedIds s).Nodup ∧ (∀ e ∈ s.freed, s.allocs[e.1]? = some e.2) ∧
      ∀ i ∈ freedIds s, i ∉ poolIds s ∧ i ∉ heldIds s ∧ i ∉ transitIds s := by
  refine ⟨List.nodup_iff_count.mpr fun i => ?_, h.inv.freedOk, fun i hi => ?_⟩
  · have := c23_unique_place h i
    unfold places at this
    split at this <;> omega
  · have := c23_unique_place h i
    have hpos : 0 < (freedIds s).count i := List.count_pos_iff.mpr hi
    unfold places at this
    refine ⟨fun hc => ?_, fun hc => ?_, fun hc => ?_⟩ <;>
    · have := List.count_pos_iff.mpr hc
      split at * <;> omega

theorem startAdd_freed (s : State) (t : Nat) (v : VecH) (rest : List Held) :
    ∃ l, (startAdd s t v rest).1.freed = s.freed ++ l := by
  unfold startAdd
  split
  · exact ⟨_, rfl⟩
  · split
    · exact ⟨[], by simp⟩
    · exact ⟨_, rfl⟩

/-- Freed is final: no step removes an entry from the free ledger (with T1: a freed buffer never
reappears in the pool or with a holder). -/
theorem c23_freed_stable {s s' : State} {op : Op} {ev : Ev} (h : step s op = some (s', ev)) :
    ∃ l, s'.freed = s.freed ++ l := by
  cases op with
  | addStart t slot =>
    simp only [step] at h
    split at h
    · cases h
    · split at h
      · cases h
      · next hd rest _ =>
        simp only [Option.some.injEq] at h
        have := startAdd_freed s t hd.v rest
        rw [h] at this
        exact this
  | poolRefDrop t slot =>
    simp only [step] at h
    split at h
    · cases h
    · split at h
      · cases h
      · next hd rest _ =>
        split at h
        · simp only [Option.some.injEq] at h
          have := startAdd_freed s t hd.v rest
          rw [h] at this
          exact this
        · simp only [Option.some.injEq, Prod.mk.injEq] at h
          obtain ⟨rfl, _⟩ := h
          exact ⟨_, rfl⟩
  | allocStart t slot ty cap =>
    simp only [step] at h
    repeat' split at h
    all_goals first
      | (simp only [Option.some.injEq, Prod.mk.injEq] at h
         obtain ⟨rfl, _⟩ := h
         exact ⟨[], by simp [freshAlloc]⟩)
      | cases h
  | allocLock t =>
    simp only [step] at h
    repeat' split at h
    all_goals first
      | (simp only [Option.some.injEq, Prod.mk.injEq] at h
         obtain ⟨rfl, _⟩ := h
         first
           | exact ⟨_, rfl⟩
           | exact ⟨[], (List.append_nil _).symm⟩)
      | cases h
  | allocFallback t =>
    simp only [step] at h
    repeat' split at h
    all_goals first
      | (simp only [Option.some.injEq, Prod.mk.injEq] at h
         obtain ⟨rfl, _⟩ := h
         exact ⟨[], by simp [freshAlloc]⟩)
      | cases h
  | addPush t =>
    simp only [step] at h
    repeat' split at h
    all_goals first
      | (simp only [Option.some.injEq, Prod.mk.injEq] at h
         obtain ⟨rfl, _⟩ := h
         exact ⟨[], by simp⟩)
      | cases h
  | dropVec t slot =>
    simp only [step] at h
    repeat' split at h
    all_goals first
      | (simp only [Option.some.injEq, Prod.mk.injEq] at h
         obtain ⟨rfl, _⟩ := h
         exact ⟨_, rfl⟩)
      | cases h
  | dropPool =>
    simp only [step] at h
    repeat' split at h
    all_goals first
      | (simp only [Option.some.injEq, Prod.mk.injEq] at h
         obtain ⟨rfl, _⟩ := h
         exact ⟨_, rfl⟩)
      | cases h

/-- **C23.T3** (no leak) When no thread holds a vec and no call is in flight, every allocation
ever made is either in the pool (available for reuse) exactly once or freed exactly once — never
both, never lost. -/
theorem c23_no_leak_at_quiescence {s : State} (h : Reachable s) (hh : s.held = []) (hp : s.pend = [])
    (i : Nat) (hi : i < s.allocs.length) :
    ((poolIds s).count i = 1 ∧ (freedIds s).count i = 0) ∨
      ((poolIds s).count i = 0 ∧ (freedIds s).count i = 1) := by
  have := c23_unique_place h i
  simp only [places, heldIds, transitIds, hh, hp, transitBufs, List.filterMap_nil, List.map_nil,
    List.count_nil, hi, ↓reduceIte] at this
  omega

/-- After the pool itself is dropped at quiescence, every allocation has been freed exactly once. -/
theorem c23_all_freed_after_pool_drop {s s' : State} {ev : Ev} (h : Reachable s) (hh : s.held = [])
    (hs : step s .dropPool = some (s', ev)) (i : Nat) :
    (freedIds s').count i = if i < s'.allocs.length then 1 else 0 := by
  have h' := c23_unique_place (h.step hs) i
  simp only [step] at hs
  split at hs
  · next hp =>
    simp only [Option.some.injEq, Prod.mk.injEq] at hs
    obtain ⟨rfl, _⟩ := hs
    simpa [places, poolIds, heldIds, transitIds, hh, hp, transitBufs] using h'
  · cases hs

/-! ## T4 — best fit -/

/-- **C23.T4** The search in `alloc` returns `(i, c)` only if `pool[i]` can fit the request
(layout matches `T`, capacity ≥ requested), `c` is its capacity, no fitting buffer in the pool has
a smaller capacity, and every fitting buffer before position `i` is strictly larger (first
minimum); it returns `none` only if nothing in the pool fits. -/
theorem c23_best_fit_minimal (pool : List Buf) (t : Ty) (cap : Nat) :
    match bestFit pool t cap with
    | none => ∀ b ∈ pool, canFit b t cap = false
    | some (i, c) =>
      ∃ b, pool[i]? = some b ∧ canFit b t cap = true ∧ b.cap = c ∧
        (∀ (j : Nat) (b' : Buf), pool[j]? = some b' → canFit b' t cap = true → c ≤ b'.cap) ∧
        (∀ (j : Nat) (b' : Buf), j < i → pool[j]? = some b' → canFit b' t cap = true → c < b'.cap) := by
  have := bestFit_spec pool t cap
  cases h : bestFit pool t cap with
  | none => rw [h] at this; exact this
  | some ic => obtain ⟨i, c⟩ := ic; rw [h] at this; exact this

/-- The critical section of `alloc` hands out exactly the best-fit buffer and removes exactly it
from the pool; it never panics (`remove` index in range, `expect("alignment should match")`
cannot fail), in any state. -/
theorem c23_lock_takes_best_fit {s s' : State} {t : Nat} {ev : Ev}
    (h : step s (.allocLock t) = some (s', ev)) :
    ∃ slot ty cap rest, extractFirst (fun e => e.1 == t) s.pend = some ((t, .wantLock slot ty cap), rest) ∧
      ((bestFit s.pool ty cap = none ∧ ev = .miss ∧ s'.pool = s.pool ∧ s'.held = s.held) ∨
       (∃ i b pool' v, bestFit s.pool ty cap = some (i, b.cap) ∧ removeAt i s.pool = some (b, pool') ∧
          intoVec b ty = some v ∧ ev = .hit b.id v.cap (v.cap * ty.size) ∧ s'.pool = pool' ∧
          s'.held = s.held ++ [⟨t, slot, ty, cap, v⟩])) := by
  simp only [step] at h
  split at h
  · next t' slot ty cap rest hex =>
    have ht : t' = t := by
      have := (extractFirst_perm hex).2
      simpa using this
    subst ht
    refine ⟨slot, ty, cap, rest, hex, ?_⟩
    split at h
    · next hbf =>
      simp only [Option.some.injEq, Prod.mk.injEq] at h
      obtain ⟨rfl, rfl⟩ := h
      exact Or.inl ⟨hbf, rfl, rfl, rfl⟩
    · next i c hbf =>
      have hspec := bestFit_spec s.pool ty cap
      rw [hbf] at hspec
      obtain ⟨b0, hget0, hfit, hcap0, _, _⟩ := hspec
      have hlt : i < s.pool.length := by
        rcases Nat.lt_or_ge i s.pool.length with h1 | h1
        · exact h1
        · rw [List.getElem?_eq_none h1] at hget0; cases hget0
      split at h
      · next hrm =>
        have := removeAt_isSome hlt
        rw [hrm] at this; cases this
      · next b pool' hrm =>
        have hget := (removeAt_perm hrm).2
        rw [hget0] at hget
        cases hget
        have hm : layoutMatch b0 ty = true := by
          simp only [canFit, Bool.and_eq_true] at hfit
          exact hfit.1
        split at h
        · next hiv => simp [intoVec, hm] at hiv
        · next v hiv =>
          simp only [Option.some.injEq, Prod.mk.injEq] at h
          obtain ⟨rfl, rfl⟩ := h
          refine Or.inr ⟨i, b0, pool', v, by rw [hbf, hcap0], hrm, hiv, ?_, rfl, rfl⟩
          have : v.id = b0.id := by
            simp only [intoVec, hm, ↓reduceIte, Option.some.injEq] at hiv
            subst hiv; rfl
          rw [this]
  · cases h

/-- In reachable states `add` / `PoolRef::drop` never panic (`Layout::array::<T>(capacity).unwrap()`
in `Buffer::from_vec` always succeeds for a vec the pool handed out). -/
theorem c23_add_never_panics {s s' : State} {t slot : Nat} (h : Reachable s) :
    step s (.addStart t slot) ≠ some (s', .panic) ∧ step s (.poolRefDrop t slot) ≠ some (s', .panic) := by
  have key : ∀ (hd : Held) (rest : List Held), s.held.Perm (hd :: rest) →
      (startAdd s t hd.v rest).2 ≠ .panic := by
    intro hd rest hp
    have hh := h.inv.heldOk hd (hp.mem_iff.mpr List.mem_cons_self)
    obtain ⟨b, hfv, _⟩ := fromVec_ok hh.1
    unfold startAdd
    simp only [hfv]
    split <;> simp
  constructor
  · intro hs
    simp only [step] at hs
    split at hs
    · cases hs
    · split at hs
      · cases hs
      · next hd rest hex =>
        simp only [Option.some.injEq] at hs
        have := key hd rest (extractFirst_perm hex).1
        rw [hs] at this
        exact this rfl
  · intro hs
    simp only [step] at hs
    split at hs
    · cases hs
    · split at hs
      · cases hs
      · next hd rest hex =>
        split at hs
        · simp only [Option.some.injEq] at hs
          have := key hd rest (extractFirst_perm hex).1
          rw [hs] at this
          exact this rfl
        · simp at hs

/-! ## No thread gets stuck inside a call -/

theorem extractFirst_of_find {p : α → Bool} {l : List α} {e : α} (h : l.find? p = some e) :
    ∃ rest, extractFirst p l = some (e, rest) := by
  induction l with
  | nil => simp at h
  | cons x xs ih =>
    unfold extractFirst
    by_cases hp : p x = true
    · simp only [List.find?_cons, hp, Option.some.injEq] at h
      subst h
      exact ⟨xs, by simp [hp]⟩
    · simp only [List.find?_cons, hp] at h
      obtain ⟨rest, hr⟩ := ih h
      exact ⟨x :: rest, by simp [hp, hr]⟩

/-- A thread that is between two atomic steps of a call can always perform its next step, whatever
the other threads did in between (the model has no state in which a call cannot complete). -/
theorem c23_pending_step_enabled (s : State) (t : Nat) :
    (∀ slot ty cap, pendOf s t = some (.wantLock slot ty cap) → (step s (.allocLock t)).isSome) ∧
    (∀ slot ty cap, pendOf s t = some (.fallback slot ty cap) → (step s (.allocFallback t)).isSome) ∧
    (∀ b, pendOf s t = some (.wantPush b) → (step s (.addPush t)).isSome) := by
  have key : ∀ pd, pendOf s t = some pd →
      ∃ t' rest, extractFirst (fun e => e.1 == t) s.pend = some ((t', pd), rest) := by
    intro pd h
    unfold pendOf at h
    cases hf : s.pend.find? (fun e => e.1 == t) with
    | none => simp [hf] at h
    | some e =>
      simp only [hf, Option.map_some, Option.some.injEq] at h
      obtain ⟨rest, hr⟩ := extractFirst_of_find hf
      exact ⟨e.1, rest, by rw [hr, ← h]⟩
  refine ⟨fun slot ty cap h => ?_, fun slot ty cap h => ?_, fun b h => ?_⟩
  · obtain ⟨t', rest, hex⟩ := key _ h
    simp only [step, hex]
    repeat' split
    all_goals rfl
  · obtain ⟨t', rest, hex⟩ := key _ h
    simp only [step, hex]
    repeat' split
    all_goals rfl
  · obtain ⟨t', rest, hex⟩ := key _ h
    simp only [step, hex]
    rfl

/-! ## Non-vacuity: a concrete three-thread schedule -/

def tF32 : Ty := ⟨4, 4⟩
def tI32 : Ty := ⟨4, 4⟩
def tU8 : Ty := ⟨1, 1⟩
def tU64 : Ty := ⟨8, 8⟩

/-- Threads 0, 1, 2 on a pool with `min_size = 16`; critical sections of different threads are
interleaved with the non-critical steps of the others. -/
def demoOps : List Op :=
  [ .allocStart 0 1 tF32 8,   -- t0: alloc::<f32>(8), 32 bytes ≥ 16: counted, wants the mutex
    .allocStart 1 2 tI32 6,   -- t1: alloc::<i32>(6)
    .allocLock 0,             -- t0: pool empty → miss
    .allocLock 1,             -- t1: miss
    .allocFallback 1,         -- t1: fresh allocation #0, capacity 6
    .allocFallback 0,         -- t0: fresh allocation #1, capacity 8
    .allocStart 2 3 tU8 3,    -- t2: alloc::<u8>(3), 3 bytes < 16 → bypass, allocation #2
    .addStart 0 1,            -- t0: add(vec f32 cap 8): Buffer built, 32 ≥ 16
    .addStart 1 2,            -- t1: add(vec i32 cap 6)
    .addPush 0,               -- t0 pushes: pool = [#1 cap 8]
    .allocStart 2 4 tI32 5,   -- t2: alloc::<i32>(5), 20 bytes ≥ 16
    .addPush 1,               -- t1 pushes: pool = [#1 cap 8, #0 cap 6]
    .allocLock 2,             -- t2: best fit is #0 (capacity 6, index 1), reused as Vec<i32>
    .addStart 2 3,            -- t2: add(vec u8 cap 3): 3 < 16 → rejected, #2 freed
    .allocStart 0 5 tU64 4,   -- t0: alloc::<u64>(4), 32 bytes
    .allocLock 0,             -- t0: #1 has 32 bytes too but align 4 ≠ 8 → miss
    .allocFallback 0,         -- t0: fresh allocation #3
    .dropVec 0 5,             -- t0 drops it: #3 freed
    .poolRefDrop 2 4,         -- t2: PoolRef<Vec<i32>> dropped → extract_buffer, add
    .addPush 2 ]              -- t2 pushes: pool = [#1, #0]

example : (runEv (init 16) demoOps).map (·.2) =
    some [.pend, .pend, .miss, .miss, .fresh 0 6 24, .fresh 1 8 32, .bypass 2 3 3, .pend, .pend,
      .pushed, .pend, .pushed, .hit 0 6 24, .rejected 2 3, .pend, .miss, .fresh 3 4 32,
      .freed 3 32, .pend, .pushed] := by decide

/-- The final state of the schedule is reachable and quiescent (hypotheses of
`c23_no_leak_at_quiescence`), with two buffers pooled and two freed. -/
example : (run (init 16) demoOps).map
      (fun s => (s.held.length, s.pend.length, poolIds s, freedIds s, s.allocs.length)) =
    some (0, 0, [1, 0], [2, 3], 4) := by decide

/-- A reachable state with two simultaneous holders and one buffer in transit (hypotheses of
T1/T2 are met non-trivially): after the first nine steps. -/
example : (run (init 16) (demoOps.take 9)).map
      (fun s => (heldIds s, transitIds s, poolIds s, s.pend.length)) =
    some ([2], [1, 0], [], 2) := by decide

/-- Best fit is not first fit: the later, smaller buffer wins. -/
example : bestFit [⟨1, 8, 32, 4, tF32⟩, ⟨0, 6, 24, 4, tI32⟩] tI32 5 = some (1, 6) := by decide

/-- Ties go to the earliest buffer. -/
example : bestFit [⟨1, 8, 32, 4, tF32⟩, ⟨0, 6, 24, 4, tI32⟩, ⟨2, 6, 24, 4, tF32⟩] tI32 5 = some (1, 6) := by
  decide

/-- Same byte size, different element size or alignment: no match. -/
example : layoutMatch ⟨0, 8, 32, 4, tF32⟩ tU64 = false ∧ layoutMatch ⟨0, 8, 32, 4, tF32⟩ ⟨8, 4⟩ = false ∧
    layoutMatch ⟨0, 12, 12, 1, tU8⟩ ⟨3, 1⟩ = false := by decide

/-- The wrapping bypass test: `alloc::<u64>(2^61 + 2)` has `capacity * 8 ≡ 16 (mod 2^64)`, which
is below `min_size = 128`, so the request goes straight to `Vec::with_capacity`, which panics. -/
example : (step (init 128) (.allocStart 0 1 tU64 (2 ^ 61 + 2))).map (·.2) = some .panic := by decide

end RtenVerif.Pool
