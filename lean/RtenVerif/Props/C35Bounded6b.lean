import RtenVerif.Props.C35Bounded6Defs

/-! C35.S3 bounded scope, chunk `b`: smallest code in `0..0`, second smallest in `1..1`
(kernel evaluation; bounded statement). -/
namespace RtenVerif.Poly

theorem c35_chunk6_b : chunkOk 0 0 1 1 = true := by decide +kernel

end RtenVerif.Poly
