import RtenVerif.Props.C08
import RtenVerif.Model.Layout

/-!
# C08 — `Derived` is closed under the modelled view operations

`Derived` (`Props/C08.lean`) describes view operations by their effect on `(size, stride)`
pairs.  Here it is tied to C09's executable model of the real layout code
(`Model/Layout.lean`, imported read-only; C09's check diffs that model against `rten-tensor`,
and C08's own harness replays the same chains through it, request `dv`): every modelled view
operation that succeeds on a view with a `Derived` layout returns a view with a `Derived`
layout.  With `c08_derived_accepted` / `c08_derived_injective` this gives: views obtained
from a contiguous tensor by any sequence of the modelled operations are accepted by the
overlap check and alias-free.
-/
namespace RtenVerif.Overlap
open RtenVerif.Layout

/-! ### List plumbing -/

theorem list_split (d : List (Nat × Nat)) (i : Nat) (h : i < d.length) :
    d = d.take i ++ d[i] :: d.drop (i + 1) := by
  rw [List.getElem_cons_drop, List.take_append_drop]

theorem insertIdx_eq {α : Type} (x : α) : ∀ (d : List α) (i : Nat), i ≤ d.length →
    d.insertIdx i x = d.take i ++ x :: d.drop i
  | d, 0, _ => by simp
  | [], i + 1, h => by simp at h
  | a :: d, i + 1, h => by
    rw [List.insertIdx_succ_cons, insertIdx_eq x d i (by simpa using h)]; simp

theorem getD_eq (d : List (Nat × Nat)) (i : Nat) (h : i < d.length) (x : Nat × Nat) :
    d.getD i x = d[i] := by
  simp [List.getD_eq_getElem?_getD, h]

theorem map_getD_range (d : List (Nat × Nat)) (x : Nat × Nat) :
    (List.range d.length).map (fun i => d.getD i x) = d := by
  apply List.ext_getElem
  · simp
  · intro i h1 h2
    simp only [List.getElem_map, List.getElem_range]
    exact getD_eq d i h2 x

theorem perm_range_of_count : ∀ (n : Nat) (p : List Nat), p.length = n →
    (∀ d, d < n → p.count d = 1) → p.Perm (List.range n) := by
  intro n
  induction n with
  | zero =>
    intro p hl _
    have : p = [] := List.eq_nil_of_length_eq_zero hl
    subst this; exact List.Perm.refl _
  | succ n ih =>
    intro p hl hc
    have hmem : n ∈ p := List.count_pos_iff.mp (by rw [hc n (by omega)]; omega)
    have h1 := List.perm_cons_erase hmem
    have ih' := ih (p.erase n) (by rw [List.length_erase_of_mem hmem]; omega)
      (fun d hd => by rw [List.count_erase_of_ne (by omega)]; exact hc d (by omega))
    rw [List.range_succ]
    exact h1.trans ((ih'.cons n).trans (List.perm_append_comm (l₁ := [n])))

theorem valid_perm {n : Nat} {p : List Nat} (h : isValidPermutation n p = true) :
    p.Perm (List.range n) := by
  simp only [isValidPermutation, Bool.and_eq_true, beq_iff_eq, List.all_eq_true,
    List.mem_range] at h
  refine perm_range_of_count n p h.1 (fun d hd => ?_)
  rw [List.count_eq_length_filter]
  exact h.2 d hd

theorem permuteIter_perm {d : Dims} {p : List Nat} (h : p.Perm (List.range d.length)) :
    (permuteIter d p).Perm d := by
  have := h.map (fun i => d.getD i (0, 0))
  rw [map_getD_range] at this
  exact this

/-! ### Classes of layouts closed under the five abstract view steps

`ViewClosed Q` is exactly the closure under the non-base constructors of `Derived`.  Both
`Derived` itself and the verdict `mayOverlap · = false` are instances, so every theorem below
holds for "stays in the advertised class" and for "stays accepted". -/

structure ViewClosed (Q : List (Nat × Nat) → Prop) : Prop where
  perm {dims dims' : List (Nat × Nat)} : Q dims → dims.Perm dims' → Q dims'
  slice {pre post : List (Nat × Nat)} {size stride size' step : Nat} :
      Q (pre ++ (size, stride) :: post) →
      (size' = 0 ∨ (1 ≤ step ∧ (size' - 1) * step < size)) →
      Q (pre ++ (size', stride * step) :: post)
  index {pre post : List (Nat × Nat)} {size stride : Nat} :
      Q (pre ++ (size, stride) :: post) → 1 ≤ size → Q (pre ++ post)
  insertUnit {pre post : List (Nat × Nat)} {s : Nat} :
      Q (pre ++ post) → Q (pre ++ (1, s) :: post)
  merge {pre post : List (Nat × Nat)} {t m n : Nat} :
      Q (pre ++ (n, t * m) :: (m, t) :: post) → Q (pre ++ (m * n, t) :: post)

theorem derived_viewClosed : ViewClosed Derived :=
  ⟨.perm, .slice, .index, .insertUnit, .merge⟩

/-- The overlap verdict itself is closed under the five steps (`c08_accept_perm`,
`c08_slice_accepted`, `c08_index_axis_accepted`, `c08_unit_axis`, `c08_merge_accepted`). -/
theorem accepted_viewClosed : ViewClosed (fun d => mayOverlap d = false) where
  perm h hp := by rw [← accept_perm hp]; exact h
  slice h hfit := by
    rcases hfit with h0 | ⟨hstep, hfit⟩
    · subst h0; simp [mayOverlap]
    · exact c08_slice_accepted _ _ _ _ _ _ hstep (Or.inr hfit) h
  index h hs := c08_index_axis_accepted _ _ _ _ hs h
  insertUnit h := by rw [c08_unit_axis]; exact h
  merge h := c08_merge_accepted _ _ _ _ _ h

section Generic
variable {Q : List (Nat × Nat) → Prop}


theorem ViewClosed.eraseIdx' (hQ : ViewClosed Q) {d : List (Nat × Nat)} (h : Q d) {i : Nat} (hi : i < d.length)
    (hs : 1 ≤ d[i].1) : Q (d.eraseIdx i) := by
  rw [List.eraseIdx_eq_take_drop_succ]
  have h' : Q (d.take i ++ (d[i].1, d[i].2) :: d.drop (i + 1)) := by
    rw [← list_split d i hi]; exact h
  exact hQ.index h' hs

theorem ViewClosed.setSize (hQ : ViewClosed Q) {d : List (Nat × Nat)} (h : Q d) {i : Nat} (hi : i < d.length)
    {n : Nat} (hn : n ≤ d[i].1) : Q (d.set i (n, d[i].2)) := by
  rw [List.set_eq_take_append_cons_drop, if_pos hi]
  have h' : Q (d.take i ++ (d[i].1, d[i].2) :: d.drop (i + 1)) := by
    rw [← list_split d i hi]; exact h
  have := hQ.slice (size' := n) (step := 1) h' (by omega)
  simpa using this

theorem ViewClosed.insertIdx' (hQ : ViewClosed Q) {d : List (Nat × Nat)} (h : Q d) {i : Nat} (hi : i ≤ d.length)
    (s : Nat) : Q (d.insertIdx i (1, s)) := by
  rw [insertIdx_eq _ d i hi]
  rw [← List.take_append_drop i d] at h
  exact hQ.insertUnit h

theorem ViewClosed.resizeDim (hQ : ViewClosed Q) {d : List (Nat × Nat)} (h : Q d) {i : Nat} (hi : i < d.length)
    {n : Nat} (hn : n ≤ (d.getD i (0, 0)).1) : Q (resizeDim d i n) := by
  unfold Layout.resizeDim
  rw [getD_eq d i hi] at hn
  rw [List.getElem?_eq_getElem hi]
  exact hQ.setSize h hi hn

theorem ViewClosed.filterUnits (hQ : ViewClosed Q) : ∀ (d pre : List (Nat × Nat)), Q (pre ++ d) →
    Q (pre ++ d.filter (fun p => p.1 != 1)) := by
  intro d
  induction d with
  | nil => intro pre h; simpa using h
  | cons a d ih =>
    intro pre h
    by_cases h1 : a.1 = 1
    · have hf : (a :: d).filter (fun p => p.1 != 1) = d.filter (fun p => p.1 != 1) := by
        simp [h1]
      rw [hf]
      exact ih pre (hQ.index (size := a.1) (stride := a.2) h (by omega))
    · have hf : (a :: d).filter (fun p => p.1 != 1) = a :: d.filter (fun p => p.1 != 1) := by
        simp [h1]
      rw [hf]
      have := ih (pre ++ [a]) (by simpa using h)
      simpa using this

/-! ### permuted / transposed / move_axis -/

/-- `permuted` (also `permute`) keeps a view in the class. -/
theorem viewClosed_permuted (hQ : ViewClosed Q) (v v' : View) (p : List Nat) (h : Q v.dims)
    (hop : permuted v p = .ok v') : Q v'.dims := by
  unfold permuted at hop
  split at hop
  · rename_i hv
    cases hop
    exact hQ.perm h (permuteIter_perm (valid_perm hv)).symm
  · cases hop

/-- `transposed`. -/
theorem viewClosed_transposed (hQ : ViewClosed Q) (v : View) (h : Q v.dims) : Q (transposed v).dims := by
  unfold transposed
  exact hQ.perm h (permuteIter_perm (List.reverse_perm _)).symm

/-- `move_axis`. -/
theorem viewClosed_moveAxis (hQ : ViewClosed Q) (v v' : View) (src dst : Nat) (h : Q v.dims)
    (hop : moveAxis v src dst = .ok v') : Q v'.dims := by
  unfold moveAxis at hop
  split at hop
  · rename_i hv
    cases hop
    refine hQ.perm h (List.Perm.symm ?_)
    have hlen : dst ≤ (v.dims.eraseIdx src).length := by
      rw [List.length_eraseIdx_of_lt hv.1]; omega
    refine (List.perm_insertIdx _ _ hlen).trans ?_
    rw [getD_eq _ _ hv.1, List.eraseIdx_eq_take_drop_succ]
    have := list_split v.dims src hv.1
    exact List.perm_middle.symm.trans (by rw [← this])
  · cases hop

/-! ### slicing -/

theorem ceil_steps (len step : Nat) (hstep : 1 ≤ step) :
    (len + step - 1) / step = 0 ∨ ((len + step - 1) / step - 1) * step < len := by
  by_cases h0 : len = 0
  · left; subst h0; exact Nat.div_eq_of_lt (by omega)
  · right
    have := Nat.div_mul_le_self (len + step - 1) step
    rw [Nat.sub_mul, Nat.one_mul]
    omega

theorem resolve_bounds {r : SliceRange} {n s e : Nat} (h : r.resolve n = some (s, e)) :
    s ≤ e ∧ e ≤ n := by
  unfold SliceRange.resolve at h
  split at h <;> simp only at h <;> split at h <;>
    first
    | (simp only [Option.some.injEq, Prod.mk.injEq] at h; omega)
    | cases h

theorem indexRange_steps {r : SliceRange} {n : Nat} {ir : IndexRange} (hstep : 0 ≤ r.step)
    (h : r.indexRange n = .ok ir) :
    ir.steps = 0 ∨ (1 ≤ r.step.toNat ∧ (ir.steps - 1) * r.step.toNat < n) := by
  unfold SliceRange.indexRange at h
  split at h
  · cases h
  · rename_i s e hres
    have hb := resolve_bounds (r := r.clamp n) hres
    by_cases hpos : r.step > 0
    · simp only [hpos, if_true, Except.ok.injEq] at h
      subst h
      have hst : 1 ≤ r.step.toNat := by omega
      simp only [IndexRange.steps, hpos, if_true]
      have hna : r.step.natAbs = r.step.toNat := by omega
      rw [hna]
      rcases ceil_steps (max (max (e : Int) (-1) - (s : Int)) 0).natAbs r.step.toNat hst with h0 | h1
      · left; exact h0
      · right
        refine ⟨hst, Nat.lt_of_lt_of_le h1 ?_⟩
        omega
    · -- step = 0: `steps` divides by zero, the result is empty
      have h0 : r.step = 0 := by omega
      left
      have hz : ∀ x : Nat, (x + (0 : Int).natAbs - 1) / (0 : Int).natAbs = 0 := by
        intro x; simp
      simp only [hpos, if_false] at h
      split at h
      · cases h; simp [IndexRange.steps, h0]
      · split at h
        · cases h
        · cases h; simp [IndexRange.steps, h0]

/-- What one iteration of the `slice_layout` loop does to a dimension. -/
theorem sliceDim_spec {size stride adj : Nat} {it : SliceItem} {keep : Option (Nat × Nat)}
    (h : sliceDim size stride it = .ok (adj, keep)) :
    (keep = none → 1 ≤ size) ∧
    (∀ q, keep = some q → ∃ step, q.2 = stride * step ∧
        (q.1 = 0 ∨ (1 ≤ step ∧ (q.1 - 1) * step < size))) := by
  cases it with
  | index idx =>
    simp only [sliceDim] at h
    generalize (if idx ≥ 0 then idx else idx + (size : Int)) = pos at h
    split at h
    · cases h
    · rename_i hpos
      cases h
      exact ⟨fun _ => by omega, fun q hq => by cases hq⟩
  | range r =>
    simp only [sliceDim] at h
    split at h
    · cases h
    · rename_i s e hres
      have hb := resolve_bounds hres
      split at h
      · cases h
      · rename_i hneg
        split at h
        · rename_i h1
          cases h
          refine ⟨fun hq => (by cases hq), fun q hq => ?_⟩
          cases hq
          refine ⟨r.step.toNat, rfl, ?_⟩
          show e - s = 0 ∨ _
          rw [h1]
          omega
        · split at h
          · cases h
          · rename_i ir hir
            cases h
            refine ⟨fun hq => (by cases hq), fun q hq => ?_⟩
            cases hq
            exact ⟨r.step.toNat, rfl, indexRange_steps (by omega) hir⟩

theorem sliceLoop_closed (hQ : ViewClosed Q) : ∀ (d : Dims) (items : List SliceItem) (pre : List (Nat × Nat))
    (off : Nat) (out : Dims), Q (pre ++ d) → sliceLoop d items = .ok (off, out) →
    Q (pre ++ out) := by
  intro d
  induction d with
  | nil =>
    intro items pre off out h hop
    simp only [sliceLoop] at hop
    cases hop
    exact h
  | cons a d ih =>
    intro items pre off out h hop
    obtain ⟨size, stride⟩ := a
    cases items with
    | nil =>
      simp only [sliceLoop, bind, Except.bind] at hop
      split at hop
      · cases hop
      · rename_i res hres
        obtain ⟨off', out'⟩ := res
        simp only [pure, Except.pure, Except.ok.injEq, Prod.mk.injEq] at hop
        obtain ⟨_, rfl⟩ := hop
        have := ih [] (pre ++ [(size, stride)]) off' out' (by simpa using h) hres
        simpa using this
    | cons it its =>
      simp only [sliceLoop, bind, Except.bind] at hop
      split at hop
      · cases hop
      · rename_i res hres
        obtain ⟨adj, keep⟩ := res
        split at hop
        · cases hop
        · rename_i res2 hres2
          obtain ⟨off', out'⟩ := res2
          simp only [pure, Except.pure, Except.ok.injEq, Prod.mk.injEq] at hop
          obtain ⟨_, rfl⟩ := hop
          have hspec := sliceDim_spec hres
          cases keep with
          | none =>
            exact ih its pre off' out' (hQ.index h (hspec.1 rfl)) hres2
          | some q =>
            obtain ⟨size', stride'⟩ := q
            obtain ⟨step, hst, hfit⟩ := hspec.2 _ rfl
            simp only at hst hfit
            subst hst
            have h1 : Q (pre ++ (size', stride * step) :: d) := hQ.slice h hfit
            have := ih its (pre ++ [(size', stride * step)]) off' out' (by simpa using h1) hres2
            simpa using this

theorem window_dims {v v' : View} {a b : Nat} {d : Dims} (h : v.window a b d = .ok v') :
    v'.dims = d := by
  unfold View.window at h
  split at h
  · cases h; rfl
  · cases h

/-- `try_slice` / `slice` with any list of `SliceItem`s (ranges with any step the code
accepts, indices, fewer items than axes). -/
theorem viewClosed_trySlice (hQ : ViewClosed Q) (v v' : View) (items : List SliceItem) (h : Q v.dims)
    (hop : trySlice v items = .ok v') : Q v'.dims := by
  unfold trySlice at hop
  split at hop
  · cases hop
  · split at hop
    · cases hop
    · rename_i off out hsl
      rw [window_dims hop]
      unfold sliceLayout at hsl
      simp only [bind, Except.bind] at hsl
      split at hsl
      · cases hsl
      · rename_i res hres
        obtain ⟨off', out'⟩ := res
        simp only [pure, Except.pure, Except.ok.injEq, Prod.mk.injEq] at hsl
        obtain ⟨_, rfl⟩ := hsl
        exact sliceLoop_closed hQ v.dims items [] off' out' (by simpa using h) hres

/-- `slice_axis`. -/
theorem viewClosed_sliceAxis (hQ : ViewClosed Q) (v v' : View) (axis start stop : Nat) (h : Q v.dims)
    (hop : sliceAxis v axis start stop = .ok v') : Q v'.dims := by
  unfold sliceAxis at hop
  split at hop
  · cases hop
  · rename_i hax
    split at hop
    · cases hop
    · rename_i hrng
      have hd : Q (resizeDim v.dims axis (stop - start)) :=
        hQ.resizeDim h (by omega) (by omega)
      simp only at hop
      split at hop <;> (rw [window_dims hop]; exact hd)

/-- `index_axis`. -/
theorem viewClosed_indexAxis (hQ : ViewClosed Q) (v v' : View) (axis index : Nat) (h : Q v.dims)
    (hop : indexAxis v axis index = .ok v') : Q v'.dims := by
  unfold indexAxis at hop
  split at hop
  · rename_i hv
    have hd : Q (v.dims.eraseIdx axis) := by
      refine hQ.eraseIdx' h hv.1 ?_
      have := hv.2
      rw [getD_eq _ _ hv.1] at this
      omega
    simp only at hop
    split at hop <;> (rw [window_dims hop]; exact hd)
  · cases hop

/-- `split_at` (either half). -/
theorem viewClosed_splitAt (hQ : ViewClosed Q) (v v' : View) (axis mid : Nat) (right : Bool) (h : Q v.dims)
    (hop : splitAt v axis mid right = .ok v') : Q v'.dims := by
  unfold splitAt at hop
  split at hop
  · rename_i hv
    have hl : Q (resizeDim v.dims axis mid) := hQ.resizeDim h hv.1 hv.2
    have hr : Q (resizeDim v.dims axis ((v.dims.getD axis (0, 0)).1 - mid)) :=
      hQ.resizeDim h hv.1 (by omega)
    simp only at hop
    repeat' split at hop
    all_goals first | (cases hop; done) | (cases hop; first | exact hr | exact hl)
  · cases hop

/-! ### insert_axis / remove_axis / squeezed / merge_axes -/

/-- `insert_axis` (whatever stride it picks for the new unit axis). -/
theorem viewClosed_insertAxis (hQ : ViewClosed Q) (v v' : View) (index : Nat) (h : Q v.dims)
    (hop : insertAxis v index = .ok v') : Q v'.dims := by
  unfold insertAxis at hop
  split at hop
  · rename_i hv
    cases hop
    exact hQ.insertIdx' h hv _
  · cases hop

/-- `remove_axis`. -/
theorem viewClosed_removeAxis (hQ : ViewClosed Q) (v v' : View) (index : Nat) (h : Q v.dims)
    (hop : removeAxis v index = .ok v') : Q v'.dims := by
  unfold removeAxis at hop
  split at hop
  · rename_i hv
    cases hop
    refine hQ.eraseIdx' h hv.1 ?_
    have := hv.2
    rw [getD_eq _ _ hv.1] at this
    omega
  · cases hop

/-- `squeezed`. -/
theorem viewClosed_squeezed (hQ : ViewClosed Q) (v : View) (h : Q v.dims) : Q (squeezed v).dims := by
  have := hQ.filterUnits v.dims [] (by simpa using h)
  simpa [squeezed] using this

theorem mergeStep_closed (hQ : ViewClosed Q) (rest acc : Dims) (o : Nat × Nat)
    (h : Q (rest ++ o :: acc)) : Q (rest ++ mergeStep acc o) := by
  unfold mergeStep
  split
  · exact h
  · rename_i isz ist r
    split
    · rename_i hc
      rcases hc with h1 | h2
      · -- the outer dim has size 1: it is dropped
        have : Q (rest ++ (isz, ist) :: r) :=
          hQ.index (size := o.1) (stride := o.2) h (by omega)
        rw [h1, Nat.mul_one]; exact this
      · have h' : Q (rest ++ (o.1, ist * isz) :: (isz, ist) :: r) := by
          rw [← h2]; exact h
        exact hQ.merge h'
    · exact h

theorem mergeFold_closed (hQ : ViewClosed Q) : ∀ (xs acc : Dims), Q (xs.reverse ++ acc) →
    Q (xs.foldl mergeStep acc) := by
  intro xs
  induction xs with
  | nil => intro acc h; simpa using h
  | cons o xs ih =>
    intro acc h
    simp only [List.foldl_cons]
    apply ih
    apply mergeStep_closed hQ
    simpa using h

/-- `merge_axes`. -/
theorem viewClosed_mergeAxes (hQ : ViewClosed Q) (v : View) (h : Q v.dims) : Q (mergedAxes v).dims := by
  unfold mergedAxes mergeAxes
  exact mergeFold_closed hQ v.dims.reverse [] (by simpa using h)

end Generic

/-! ### The two instances, per operation

`…_derived`: the result stays in the advertised class `Derived`.
`…_accepted`: **`mayOverlap v.dims = false → op v = .ok v' → mayOverlap v'.dims = false`** — the
verdict (hence, by T1, injectivity on valid indices) is preserved by every modelled view
operation, whatever the origin of the accepted layout (`_mut` views and in-place layout
mutators of mutable tensors use the same layout functions). -/

theorem c08_permuted_derived (v v' : View) (p : List Nat) (h : Derived v.dims)
    (hop : permuted v p = .ok v') : Derived v'.dims :=
  viewClosed_permuted derived_viewClosed v v' p h hop

theorem c08_permuted_accepted (v v' : View) (p : List Nat) (h : mayOverlap v.dims = false)
    (hop : permuted v p = .ok v') : mayOverlap v'.dims = false :=
  viewClosed_permuted accepted_viewClosed v v' p h hop

theorem c08_moveAxis_derived (v v' : View) (src dst : Nat) (h : Derived v.dims)
    (hop : moveAxis v src dst = .ok v') : Derived v'.dims :=
  viewClosed_moveAxis derived_viewClosed v v' src dst h hop

theorem c08_moveAxis_accepted (v v' : View) (src dst : Nat) (h : mayOverlap v.dims = false)
    (hop : moveAxis v src dst = .ok v') : mayOverlap v'.dims = false :=
  viewClosed_moveAxis accepted_viewClosed v v' src dst h hop

theorem c08_trySlice_derived (v v' : View) (items : List SliceItem) (h : Derived v.dims)
    (hop : trySlice v items = .ok v') : Derived v'.dims :=
  viewClosed_trySlice derived_viewClosed v v' items h hop

theorem c08_trySlice_accepted (v v' : View) (items : List SliceItem) (h : mayOverlap v.dims = false)
    (hop : trySlice v items = .ok v') : mayOverlap v'.dims = false :=
  viewClosed_trySlice accepted_viewClosed v v' items h hop

theorem c08_sliceAxis_derived (v v' : View) (axis start stop : Nat) (h : Derived v.dims)
    (hop : sliceAxis v axis start stop = .ok v') : Derived v'.dims :=
  viewClosed_sliceAxis derived_viewClosed v v' axis start stop h hop

theorem c08_sliceAxis_accepted (v v' : View) (axis start stop : Nat) (h : mayOverlap v.dims = false)
    (hop : sliceAxis v axis start stop = .ok v') : mayOverlap v'.dims = false :=
  viewClosed_sliceAxis accepted_viewClosed v v' axis start stop h hop

theorem c08_indexAxis_derived (v v' : View) (axis index : Nat) (h : Derived v.dims)
    (hop : indexAxis v axis index = .ok v') : Derived v'.dims :=
  viewClosed_indexAxis derived_viewClosed v v' axis index h hop

theorem c08_indexAxis_accepted (v v' : View) (axis index : Nat) (h : mayOverlap v.dims = false)
    (hop : indexAxis v axis index = .ok v') : mayOverlap v'.dims = false :=
  viewClosed_indexAxis accepted_viewClosed v v' axis index h hop

theorem c08_splitAt_derived (v v' : View) (axis mid : Nat) (right : Bool) (h : Derived v.dims)
    (hop : splitAt v axis mid right = .ok v') : Derived v'.dims :=
  viewClosed_splitAt derived_viewClosed v v' axis mid right h hop

theorem c08_splitAt_accepted (v v' : View) (axis mid : Nat) (right : Bool) (h : mayOverlap v.dims = false)
    (hop : splitAt v axis mid right = .ok v') : mayOverlap v'.dims = false :=
  viewClosed_splitAt accepted_viewClosed v v' axis mid right h hop

theorem c08_insertAxis_derived (v v' : View) (index : Nat) (h : Derived v.dims)
    (hop : insertAxis v index = .ok v') : Derived v'.dims :=
  viewClosed_insertAxis derived_viewClosed v v' index h hop

theorem c08_insertAxis_accepted (v v' : View) (index : Nat) (h : mayOverlap v.dims = false)
    (hop : insertAxis v index = .ok v') : mayOverlap v'.dims = false :=
  viewClosed_insertAxis accepted_viewClosed v v' index h hop

theorem c08_removeAxis_derived (v v' : View) (index : Nat) (h : Derived v.dims)
    (hop : removeAxis v index = .ok v') : Derived v'.dims :=
  viewClosed_removeAxis derived_viewClosed v v' index h hop

theorem c08_removeAxis_accepted (v v' : View) (index : Nat) (h : mayOverlap v.dims = false)
    (hop : removeAxis v index = .ok v') : mayOverlap v'.dims = false :=
  viewClosed_removeAxis accepted_viewClosed v v' index h hop

theorem c08_transposed_derived (v : View) (h : Derived v.dims) : Derived (transposed v).dims :=
  viewClosed_transposed derived_viewClosed v h

theorem c08_transposed_accepted (v : View) (h : mayOverlap v.dims = false) :
    mayOverlap (transposed v).dims = false :=
  viewClosed_transposed accepted_viewClosed v h

theorem c08_squeezed_derived (v : View) (h : Derived v.dims) : Derived (squeezed v).dims :=
  viewClosed_squeezed derived_viewClosed v h

theorem c08_squeezed_accepted (v : View) (h : mayOverlap v.dims = false) :
    mayOverlap (squeezed v).dims = false :=
  viewClosed_squeezed accepted_viewClosed v h

theorem c08_mergeAxes_derived (v : View) (h : Derived v.dims) : Derived (mergedAxes v).dims :=
  viewClosed_mergeAxes derived_viewClosed v h

theorem c08_mergeAxes_accepted (v : View) (h : mayOverlap v.dims = false) :
    mayOverlap (mergedAxes v).dims = false :=
  viewClosed_mergeAxes accepted_viewClosed v h

/-! ### reshaping -/

theorem contigR_contigDims (shape : List Nat) :
    contigR (contigDims shape) = some (Arr.numel shape) := by
  induction shape with
  | nil => rfl
  | cons n ns ih =>
    simp only [contigDims, contigR, ih, contigStep]
    have hn : Arr.numel (n :: ns) = n * Arr.numel ns := by simp [Arr.numel]
    by_cases h1 : n = 1
    · subst h1; simp [Arr.numel]
    · simp [h1, hn, Nat.mul_comm]

/-- The layout `from_shape` / `reshaped` install is contiguous, for every shape. -/
theorem c08_contigDims_contiguous (shape : List Nat) :
    isContiguous (contigDims shape) = true := by
  rw [isContiguous_eq, contigR_contigDims]; rfl

/-- **"Reshaping a contiguous layout is contiguous"**: whenever the modelled `reshaped`
succeeds (equal element count), the result has a contiguous — hence `Derived`, accepted and
alias-free — layout; and when the source is contiguous it is a view of the same storage
(no copy), i.e. genuinely a reshaped layout over the same data. -/
theorem c08_reshaped_contiguous (t t' : TState) (shape : List Nat)
    (hop : reshaped t shape = .ok t') :
    isContiguous t'.view.dims = true ∧ Derived t'.view.dims ∧
    (isContiguous t.view.dims = true → t'.store = t.store ∧ t'.view.base = t.view.base) := by
  unfold reshaped at hop
  split at hop
  · cases hop
  · split at hop
    · cases hop
      exact ⟨c08_contigDims_contiguous shape, .contig (c08_contigDims_contiguous shape),
        fun _ => ⟨rfl, rfl⟩⟩
    · rename_i hnc
      cases hop
      exact ⟨c08_contigDims_contiguous shape, .contig (c08_contigDims_contiguous shape),
        fun hc => absurd hc hnc⟩

/-- Non-vacuity for the closure theorems: a chain of modelled operations on the contiguous
4×5×6 view (slice `[:, ::2, 1:6:3]`, transpose, insert an axis) succeeds, so the hypotheses
`… = .ok v'` are satisfiable with a non-contiguous result. -/
example :
    ((trySlice ⟨0, 120, contigDims [4, 5, 6]⟩
        [.range ⟨0, none, 1⟩, .range ⟨0, none, 2⟩, .range ⟨1, some 6, 3⟩]).bind
      (fun v1 => insertAxis (transposed v1) 1)).toOption.map (·.dims)
      = some [(2, 3), (1, 120), (3, 12), (4, 30)] ∧
    isContiguous [(2, 3), (1, 120), (3, 12), (4, 30)] = false := by
  decide

end RtenVerif.Overlap
