import RtenVerif.Props.C36Bounded

/-!
# C36.T1/S5 — all 3×3 masks, part 3 of 4 (kernel evaluation; bounded statement)

3×3 is the smallest size with a pixel (the centre) whose 8 neighbours are all inside the image,
i.e. the smallest size where "adjacent to the background or the image edge" can fail.
-/
namespace RtenVerif.Contours

/-- For the 3×3 masks with code `256..383` (bit `i` = pixel `i` in row-major order), both
retrieval modes: `find_contours` returns within the fuel bound and every contour point is a
foreground pixel inside the image with a background pixel or the image edge in its
8-neighbourhood. -/
theorem c36_contours_bounded_3x3_c :
    ∀ hi : Fin 8, ∀ lo : Fin 16, ∀ mode : Bool,
      contoursOk 3 3 (bitsOf 9 ((2 * 8 + hi.1) * 16 + lo.1)) mode = true := by
  decide +kernel

end RtenVerif.Contours
