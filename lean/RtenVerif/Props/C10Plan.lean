import RtenVerif.Props.C10List
import RtenVerif.Props.C10On

/-!
# C10.T2 — graph-level theorem over operator kinds

`Kind` enumerates the rules with a proved T1 (plus `other` for everything else); `Kind.proved`
is the decidable predicate naming them.  `c10_plan_sound_kinds`: in a plan whose nodes all have a
proved kind, every executed value agrees with its inferred tensor.
-/
namespace RtenVerif.ShapeInfer

inductive Kind
  | add | sub | mul | div | equal
  | whereK
  | shape (start stop : Option Int)
  | size
  | concat
  | gatherS (i : Int)
  | gatherV (idxs : List Int)
  | unsqueeze0
  | squeeze0
  | bshape
  /-- Any other rule: inference and execution are arbitrary functions; nothing is proved. -/
  | other (inf : List STn → Option STn) (ex : List CT → Option CT)

/-- The rules with a kernel-checked T1. -/
def Kind.proved : Kind → Bool
  | .other _ _ => false
  | _ => true

def whereT : STn → STn → STn → Option STn
  | c, x, y =>
    match c.values, x.values, y.values with
    | some cv, some xv, some yv =>
      (whereVals (fun v => v != 0) cv xv yv).bind fun _ => (whereInfer (fun v => v != 0) true c x y).toOption
    | _, _, _ => none

/-- What the rule infers; `none` = the rule makes no claim (error / not applicable). -/
def Kind.infer : Kind → List STn → Option STn
  | .add, [a, b] => symBinary addOp a b
  | .sub, [a, b] => symBinary subOp a b
  | .mul, [a, b] => symBinary mulOp a b
  | .div, [a, b] => symBinary divOp a b
  | .equal, [a, b] => symBinary eqOp a b
  | .whereK, [c, x, y] => whereT c x y
  | .shape s e, [a] => some (shapeInfer s e a)
  | .size, [a] => (a.dims).map fun _ => sizeInfer a
  | .concat, ts => concatValues ts
  | .gatherS i, [.vector es] => (gatherValues es true [i]).toOption
  | .gatherV idxs, [.vector es] => (gatherValues es false idxs).toOption
  | .unsqueeze0, [a] => unsqueezeScalar a
  | .squeeze0, [a] => squeezeVector a
  | .bshape, [a, b] =>
    match a.dims, b.dims, binaryShape a b with
    | some _, some _, .ok (.shape out) => some (.shape out)
    | _, _, _ => none
  | .other inf _, ts => inf ts
  | _, _ => none

/-- Reference execution (`none` = fails, or outside the reference's domain). -/
def Kind.exec : Kind → List CT → Option CT
  | .add, [a, b] => execBinary (fun x y => some (x + y)) a b
  | .sub, [a, b] => execBinary (fun x y => some (x - y)) a b
  | .mul, [a, b] => execBinary (fun x y => some (x * y)) a b
  | .div, [a, b] => execBinary (fun x y => if y = 0 then none else some (tdiv x y)) a b
  | .equal, [a, b] => execBinary (fun x y => some (if x = y then 1 else 0)) a b
  | .whereK, [c, x, y] => cwhereT c x y
  | .shape s e, [a] => some (execShape s e a)
  | .size, [a] => some (.scalar (a.dims.foldl (fun p d => p * d) 1))
  | .concat, cs => cconcat cs
  | .gatherS i, [.vector vs] => (resolveIndex vs.length i).bind fun k => (vs[k]?).map CT.scalar
  | .gatherV idxs, [.vector vs] => (cgather vs idxs).map CT.vector
  | .unsqueeze0, [.scalar v] => some (.vector [v])
  | .squeeze0, [.vector [v]] => some (.scalar v)
  | .bshape, [a, b] => (cbroadcast a.dims b.dims).map CT.shaped
  | .other _ ex, cs => ex cs
  | _, _ => none

theorem agrees_isScalar (σ : Env) (t : STn) (c : CT) (es : List Sym) (h : Agrees σ t c) (hv : t.values = some es) :
    t.isScalar = c.isScalar := by
  cases t with
  | scalar e => obtain ⟨v, rfl, _⟩ := h; rfl
  | vector es' => obtain ⟨vs, rfl, _⟩ := h; rfl
  | shape ds => simp [STn.values] at hv
  | unknown => simp [STn.values] at hv

theorem agrees_values (σ : Env) (t : STn) (c : CT) (es : List Sym) (h : Agrees σ t c) (hv : t.values = some es) :
    ∃ vs, c.values = some vs ∧ evalList σ es = some vs := by
  cases t with
  | scalar e =>
    obtain ⟨v, rfl, hev⟩ := h
    simp only [STn.values] at hv; cases hv
    exact ⟨[v], rfl, by simp [evalList, mapO, hev]⟩
  | vector es' =>
    obtain ⟨vs, rfl, hev⟩ := h
    simp only [STn.values] at hv; cases hv
    exact ⟨vs, rfl, hev⟩
  | shape ds => simp [STn.values] at hv
  | unknown => simp [STn.values] at hv

/-- Every element of every value-carrying input is `good` (stays inside `i32` under `σ`). -/
def goodInputs (σ : Env) (ts : List STn) : Bool :=
  ts.all fun t => match t.values with
    | some es => es.all (good σ)
    | none => true

/-- What a kind needs from its symbolic operands: only `equal` inspects `range()`. -/
def Kind.needs (σ : Env) (k : Kind) (ts : List STn) : Bool :=
  match k with
  | .equal => goodInputs σ ts
  | _ => true

theorem elemsOn_of_good (σ : Env) (ts : List STn) (h : goodInputs σ ts = true) :
    ∀ t ∈ ts, ElemsOn (fun e => good σ e = true) t := by
  intro t ht es hes e he
  have := (List.all_eq_true.mp h) t ht
  simp only [hes, List.all_eq_true] at this
  exact this e he

/-- **T1 for every proved kind**, in one statement. The only side condition is local: the
operands an `equal` node inspects stay inside `i32` (`Kind.needs`), which makes `range()` sound for
them (`rangeSound_of_good`). -/
theorem c10_kind_sound (σ : Env) (k : Kind) (hk : k.proved = true)
    (ts : List STn) (cs : List CT) (r : STn) (cr : CT) (hn : k.needs σ ts = true)
    (hag : AgreesL σ ts cs) (hi : k.infer ts = some r) (he : k.exec cs = some cr) : Agrees σ r cr := by
  cases k with
  | add =>
    cases hag with
    | nil => simp [Kind.infer] at hi
    | cons ha h1 =>
      cases h1 with
      | nil => simp [Kind.infer] at hi
      | cons hb h2 =>
        cases h2 with
        | cons _ _ => simp [Kind.infer] at hi
        | nil =>
          simp only [Kind.infer] at hi
          simp only [Kind.exec] at he
          exact c10_symBinary_sound σ addOp _ (c10_add_hom σ) _ _ r _ _ cr ha hb hi he
  | sub =>
    cases hag with
    | nil => simp [Kind.infer] at hi
    | cons ha h1 =>
      cases h1 with
      | nil => simp [Kind.infer] at hi
      | cons hb h2 =>
        cases h2 with
        | cons _ _ => simp [Kind.infer] at hi
        | nil =>
          simp only [Kind.infer] at hi
          simp only [Kind.exec] at he
          exact c10_symBinary_sound σ subOp _ (c10_sub_hom σ) _ _ r _ _ cr ha hb hi he
  | mul =>
    cases hag with
    | nil => simp [Kind.infer] at hi
    | cons ha h1 =>
      cases h1 with
      | nil => simp [Kind.infer] at hi
      | cons hb h2 =>
        cases h2 with
        | cons _ _ => simp [Kind.infer] at hi
        | nil =>
          simp only [Kind.infer] at hi
          simp only [Kind.exec] at he
          exact c10_symBinary_sound σ mulOp _ (c10_mul_hom σ) _ _ r _ _ cr ha hb hi he
  | div =>
    cases hag with
    | nil => simp [Kind.infer] at hi
    | cons ha h1 =>
      cases h1 with
      | nil => simp [Kind.infer] at hi
      | cons hb h2 =>
        cases h2 with
        | cons _ _ => simp [Kind.infer] at hi
        | nil =>
          simp only [Kind.infer] at hi
          simp only [Kind.exec] at he
          exact c10_symBinary_sound σ divOp _ (c10_div_hom σ) _ _ r _ _ cr ha hb hi he
  | equal =>
    have hel := elemsOn_of_good σ ts (by simpa [Kind.needs] using hn)
    cases hag with
    | nil => simp [Kind.infer] at hi
    | cons ha h1 =>
      cases h1 with
      | nil => simp [Kind.infer] at hi
      | cons hb h2 =>
        cases h2 with
        | cons _ _ => simp [Kind.infer] at hi
        | nil =>
          simp only [Kind.infer] at hi
          simp only [Kind.exec] at he
          exact c10_symBinary_soundOn σ _ eqOp _ (c10_equal_hom_good σ) _ _ r _ _ cr ha hb
            (hel _ (by simp)) (hel _ (by simp)) hi he
  | whereK =>
    cases hag with
    | nil => simp [Kind.infer] at hi
    | cons hc h1 =>
      cases h1 with
      | nil => simp [Kind.infer] at hi
      | cons hx h2 =>
        cases h2 with
        | nil => simp [Kind.infer] at hi
        | cons hy h3 =>
          cases h3 with
          | cons _ _ => simp [Kind.infer] at hi
          | nil =>
            rename_i c cc x cx y cy
            simp only [Kind.infer, whereT] at hi
            simp only [Kind.exec, cwhereT] at he
            cases hcv : c.values with
            | none => simp [hcv] at hi
            | some cv =>
              cases hxv : x.values with
              | none => simp [hcv, hxv] at hi
              | some xv =>
                cases hyv : y.values with
                | none => simp [hcv, hxv, hyv] at hi
                | some yv =>
                  simp only [hcv, hxv, hyv] at hi
                  cases hw : whereVals (fun v => v != 0) cv xv yv with
                  | none => simp [hw] at hi
                  | some out =>
                    simp only [hw, Option.bind_some] at hi
                    obtain ⟨vc, hvc, ec⟩ := agrees_values σ c cc cv hc hcv
                    obtain ⟨vx, hvx, ex⟩ := agrees_values σ x cx xv hx hxv
                    obtain ⟨vy, hvy, ey⟩ := agrees_values σ y cy yv hy hyv
                    simp only [hvc, hvx, hvy] at he
                    have hs := c10_whereVals_sound σ cv xv yv vc vx vy out ec ex ey hw
                    have s1 := agrees_isScalar σ c cc cv hc hcv
                    have s2 := agrees_isScalar σ x cx xv hx hxv
                    have s3 := agrees_isScalar σ y cy yv hy hyv
                    unfold whereInfer at hi
                    simp only [hcv, hxv, hyv, hw, Bool.true_and, s1, s2, s3] at hi
                    have hlen := evalList_length σ out _ hs
                    by_cases hb : (cc.isScalar && cx.isScalar && cy.isScalar) = true
                    · simp only [hb, if_true] at hi he
                      match out, hs, hlen, hi with
                      | [v], hs, _, hi =>
                        obtain ⟨w, ws, hv, hws, hcons⟩ := evalList_cons σ v [] _ hs
                        simp only [evalList, mapO] at hws; cases hws
                        simp only [Except.toOption] at hi; cases hi
                        rw [hcons] at he; simp only at he; cases he
                        exact ⟨w, rfl, hv⟩
                      | [], hs, hlen, hi =>
                        simp only [Except.toOption] at hi; cases hi
                        have : cwhere vc vx vy = [] := by
                          cases hcw : cwhere vc vx vy with
                          | nil => rfl
                          | cons _ _ => rw [hcw] at hlen; simp at hlen
                        rw [this] at he hs; simp only at he; cases he
                        exact ⟨[], rfl, hs⟩
                      | o1 :: o2 :: os, hs, hlen, hi =>
                        simp only [Except.toOption] at hi; cases hi
                        match hcw : cwhere vc vx vy, hlen with
                        | [], hlen => simp at hlen
                        | [_], hlen => simp at hlen
                        | w1 :: w2 :: ws, _ =>
                          rw [hcw] at he hs; simp only at he; cases he
                          exact ⟨_, rfl, hs⟩
                    · simp only [hb, Bool.false_eq_true, if_false] at hi he
                      simp only [Except.toOption] at hi; cases hi; cases he
                      exact ⟨_, rfl, hs⟩
  | shape s e =>
    cases hag with
    | nil => simp [Kind.infer] at hi
    | cons ha h1 =>
      cases h1 with
      | cons _ _ => simp [Kind.infer] at hi
      | nil =>
        simp only [Kind.infer, Option.some.injEq] at hi
        simp only [Kind.exec, Option.some.injEq] at he
        subst hi; subst he
        exact c10_shape_sound σ s e _ _ ha
  | size =>
    cases hag with
    | nil => simp [Kind.infer] at hi
    | cons ha h1 =>
      cases h1 with
      | cons _ _ => simp [Kind.infer] at hi
      | nil =>
        rename_i a ca
        simp only [Kind.infer] at hi
        simp only [Kind.exec, Option.some.injEq] at he
        cases hd : a.dims with
        | none => simp [hd] at hi
        | some ds =>
          simp only [hd, Option.map_some, Option.some.injEq] at hi
          subst hi; subst he
          exact c10_size_sound σ a ca ds ha hd
  | concat => exact c10_concat_sound σ ts cs r cr hag (by simpa [Kind.infer] using hi) (by simpa [Kind.exec] using he)
  | gatherS i =>
    cases hag with
    | nil => simp [Kind.infer] at hi
    | cons ha h1 =>
      cases h1 with
      | cons _ _ => cases ‹STn› <;> simp [Kind.infer] at hi
      | nil =>
        rename_i a ca
        cases a with
        | vector es =>
          obtain ⟨vs, rfl, hev⟩ := ha
          simp only [Kind.infer] at hi
          simp only [Kind.exec] at he
          cases hg : gatherValues es true [i] with
          | error e => simp [hg, Except.toOption] at hi
          | ok r' =>
            simp only [hg, Except.toOption] at hi; cases hi
            obtain ⟨k, v, hk, hv, hagr⟩ := c10_gather_scalar_sound σ es vs i r hev hg
            simp only [hk, Option.bind_some, hv, Option.map_some] at he; cases he
            exact hagr
        | scalar e => simp [Kind.infer] at hi
        | shape ds => simp [Kind.infer] at hi
        | unknown => simp [Kind.infer] at hi
  | gatherV idxs =>
    cases hag with
    | nil => simp [Kind.infer] at hi
    | cons ha h1 =>
      cases h1 with
      | cons _ _ => cases ‹STn› <;> simp [Kind.infer] at hi
      | nil =>
        rename_i a ca
        cases a with
        | vector es =>
          obtain ⟨vs, rfl, hev⟩ := ha
          simp only [Kind.infer] at hi
          simp only [Kind.exec] at he
          cases hg : gatherValues es false idxs with
          | error e => simp [hg, Except.toOption] at hi
          | ok r' =>
            simp only [hg, Except.toOption] at hi; cases hi
            cases hc : cgather vs idxs with
            | none => simp [hc] at he
            | some w =>
              simp only [hc, Option.map_some] at he; cases he
              exact c10_gather_vector_sound σ es vs idxs r w hev hg hc
        | scalar e => simp [Kind.infer] at hi
        | shape ds => simp [Kind.infer] at hi
        | unknown => simp [Kind.infer] at hi
  | unsqueeze0 =>
    cases hag with
    | nil => simp [Kind.infer] at hi
    | cons ha h1 =>
      cases h1 with
      | cons _ _ => simp [Kind.infer] at hi
      | nil =>
        rename_i a ca
        simp only [Kind.infer] at hi
        cases ca with
        | scalar v => simp only [Kind.exec] at he; cases he; exact c10_unsqueeze_sound σ a r v ha hi
        | vector vs => simp [Kind.exec] at he
        | shaped ds => simp [Kind.exec] at he
  | squeeze0 =>
    cases hag with
    | nil => simp [Kind.infer] at hi
    | cons ha h1 =>
      cases h1 with
      | cons _ _ => simp [Kind.infer] at hi
      | nil =>
        rename_i a ca
        simp only [Kind.infer] at hi
        cases ca with
        | vector vs =>
          match vs, he with
          | [v], he => simp only [Kind.exec] at he; cases he; exact c10_squeeze_sound σ a r v ha hi
          | [], he => simp [Kind.exec] at he
          | _ :: _ :: _, he => simp [Kind.exec] at he
        | scalar v => simp [Kind.exec] at he
        | shaped ds => simp [Kind.exec] at he
  | bshape =>
    cases hag with
    | nil => simp [Kind.infer] at hi
    | cons ha h1 =>
      cases h1 with
      | nil => simp [Kind.infer] at hi
      | cons hb h2 =>
        cases h2 with
        | cons _ _ => simp [Kind.infer] at hi
        | nil =>
          rename_i a ca b cb'
          simp only [Kind.infer] at hi
          simp only [Kind.exec] at he
          cases had : a.dims with
          | none => simp [had] at hi
          | some ad =>
            cases hbd : b.dims with
            | none => simp [had, hbd] at hi
            | some bd =>
              simp only [had, hbd] at hi
              cases hbs : binaryShape a b with
              | error e => simp [hbs] at hi
              | ok t =>
                cases t with
                | shape out =>
                  simp only [hbs, Option.some.injEq] at hi; subst hi
                  cases hz : cbroadcast ca.dims cb'.dims with
                  | none => simp [hz] at he
                  | some zs =>
                    simp only [hz, Option.map_some] at he; cases he
                    exact c10_binaryShape_sound σ a b ca cb' ad bd out zs ha hb had hbd hbs hz
                | scalar e => simp [hbs] at hi
                | vector es => simp [hbs] at hi
                | unknown => simp [hbs] at hi
  | other inf ex => simp [Kind.proved] at hk

/-- A node of a plan given by its kind and input value ids. -/
structure KNode where
  out : Nat
  kind : Kind
  ins : List Nat

def KNode.toPNode (n : KNode) : PNode :=
  { out := n.out,
    infer := fun s => (n.kind.infer (n.ins.map s)).getD .unknown,
    exec := fun c => (mapO c n.ins).bind n.kind.exec }

theorem agreesL_of_all (σ : Env) (s : Nat → STn) (c : Nat → Option CT) (h : AllAgree σ s c) :
    ∀ (ins : List Nat) (cs : List CT), mapO c ins = some cs → AgreesL σ (ins.map s) cs := by
  intro ins
  induction ins with
  | nil => intro cs h1; simp only [mapO] at h1; cases h1; exact .nil
  | cons i is ih =>
    intro cs h1
    simp only [mapO] at h1
    cases hi : c i with
    | none => simp [hi] at h1
    | some ct =>
      simp only [hi] at h1
      cases hr : mapO c is with
      | none => simp [hr] at h1
      | some cts =>
        simp only [hr] at h1; cases h1
        exact .cons (h i ct hi) (ih cts hr)

/-- One step of a plan of kinds: inference and execution side by side. -/
def KNode.stepS (n : KNode) (s : Nat → STn) : Nat → STn := upd s n.out ((n.kind.infer (n.ins.map s)).getD .unknown)
def KNode.stepC (n : KNode) (c : Nat → Option CT) : Nat → Option CT := upd c n.out ((mapO c n.ins).bind n.kind.exec)

def runK : List KNode → (Nat → STn) → (Nat → Option CT) → (Nat → STn) × (Nat → Option CT)
  | [], s, c => (s, c)
  | n :: ns, s, c => runK ns (n.stepS s) (n.stepC c)

/-- The local side condition along the inference run: whenever an `equal` node is reached, the
operand elements it inspects are `good` (decidable; nothing is required of any other kind). -/
def needsAlong (σ : Env) : List KNode → (Nat → STn) → Bool
  | [], _ => true
  | n :: ns, s => n.kind.needs σ (n.ins.map s) && needsAlong σ ns (n.stepS s)

/-- **C10.T2 (one node)**. -/
theorem c10_knode_sound (σ : Env) (n : KNode) (hk : n.kind.proved = true) (s : Nat → STn) (c : Nat → Option CT)
    (hn : n.kind.needs σ (n.ins.map s) = true) (hall : AllAgree σ s c) : AllAgree σ (n.stepS s) (n.stepC c) := by
  intro id ct hc
  unfold KNode.stepS KNode.stepC upd at *
  by_cases hid : id = n.out
  · simp only [hid, if_true] at hc ⊢
    cases hm : mapO c n.ins with
    | none => simp [hm] at hc
    | some cs =>
      simp only [hm, Option.bind_some] at hc
      cases hinf : n.kind.infer (n.ins.map s) with
      | none => simp [Agrees]
      | some r =>
        simp only [Option.getD_some]
        exact c10_kind_sound σ n.kind hk _ cs r ct hn (agreesL_of_all σ s c hall n.ins cs hm) hinf hc
  · simp only [hid, if_false] at hc ⊢
    exact hall id ct hc

/-- **C10.T2 (kinds)**: over any plan whose nodes all have a proved kind (`Kind.proved`, decidable;
everything else is `Kind.other`), and along which the operands of `equal` nodes stay inside `i32`
(`needsAlong`, decidable), every executed value agrees with its inferred tensor. No global
hypothesis about `range()` is needed (audit H1). -/
theorem c10_plan_sound_kinds (σ : Env) : ∀ (plan : List KNode) (s : Nat → STn) (c : Nat → Option CT),
    (∀ n ∈ plan, n.kind.proved = true) → needsAlong σ plan s = true → AllAgree σ s c →
    AllAgree σ (runK plan s c).1 (runK plan s c).2 := by
  intro plan
  induction plan with
  | nil => intro s c _ _ h; exact h
  | cons n ns ih =>
    intro s c hp hn h
    simp only [needsAlong, Bool.and_eq_true] at hn
    simp only [runK]
    exact ih _ _ (fun m hm => hp m (by simp [hm])) hn.2
      (c10_knode_sound σ n (hp n (by simp)) s c hn.1 h)

/-- Non-vacuity (closed instance of every hypothesis of `c10_plan_sound_kinds`): `x : [n, 4]`
executed as `[3, 4]`; `Shape(x)`, `Gather(·, 0)`, `Mul(·, ·)`, `Unsqueeze`, `Concat`, an `Equal` of the gathered
dimension with itself (fold to 1) and `Equal(n + 10, 3)`, whose fold to 0 really uses `range()`.  Every kind is proved,
the operands of `Equal` are `good`, inference yields `[n * n, n, 4]` and `[1]`-style values and
execution the numbers. -/
def demoKPlan : List KNode :=
  [ ⟨1, .shape none none, [0]⟩, ⟨2, .gatherS 0, [1]⟩, ⟨3, .mul, [2, 2]⟩, ⟨4, .unsqueeze0, [3]⟩,
    ⟨5, .concat, [4, 1]⟩, ⟨6, .equal, [2, 2]⟩, ⟨8, .add, [2, 9]⟩, ⟨10, .equal, [8, 11]⟩ ]

def demoσ : Env := fun x => if x = "n" then some 3 else none
def demoS : Nat → STn := fun i =>
  if i = 0 then .shape [.var "n" true, .val 4] else if i = 9 then .scalar (.val 10)
  else if i = 11 then .scalar (.val 3) else .unknown
def demoC : Nat → Option CT := fun i =>
  if i = 0 then some (.shaped [3, 4]) else if i = 9 then some (.scalar 10)
  else if i = 11 then some (.scalar 3) else none

theorem demo_hyps : (∀ n ∈ demoKPlan, n.kind.proved = true) ∧ needsAlong demoσ demoKPlan demoS = true := by
  constructor
  · decide
  · decide

theorem demo_inputs_agree : AllAgree demoσ demoS demoC := by
  intro id ct h
  unfold demoC at h
  by_cases h0 : id = 0
  · subst h0; simp at h; subst h; simp [demoS, Agrees, evalList, mapO, Sym.eval, demoσ, CT.dims]
  · by_cases h9 : id = 9
    · subst h9; simp at h; subst h; exact ⟨10, rfl, rfl⟩
    · by_cases h11 : id = 11
      · subst h11; simp at h; subst h; exact ⟨3, rfl, rfl⟩
      · simp [h0, h9, h11] at h

example : (runK demoKPlan demoS demoC).1 5 = .vector [.mul (.var "n" true) (.var "n" true), .var "n" true, .val 4] ∧
    (runK demoKPlan demoS demoC).2 5 = some (.vector [9, 3, 4]) ∧
    (runK demoKPlan demoS demoC).1 6 = .scalar (.val 1) ∧ (runK demoKPlan demoS demoC).2 6 = some (.scalar 1) ∧
    -- node 10 really goes through `range()`: `n + 10` has range (10, i32::MAX), disjoint from (3, 3)
    (runK demoKPlan demoS demoC).1 8 = .scalar (.add (.var "n" true) (.val 10)) ∧
    (runK demoKPlan demoS demoC).1 10 = .scalar (.val 0) ∧ (runK demoKPlan demoS demoC).2 10 = some (.scalar 0) := by
  decide

/-- The instance of the theorem itself. -/
example : AllAgree demoσ (runK demoKPlan demoS demoC).1 (runK demoKPlan demoS demoC).2 :=
  c10_plan_sound_kinds demoσ demoKPlan demoS demoC demo_hyps.1 demo_hyps.2 demo_inputs_agree

/-- Closed instance of `c10_kind_sound` for `equal` where the fold to 0 really uses `range()`:
`Equal(min(n, 5) + 10, 3)` with `n = 3`: ranges `(10, 15)` and `(3, 3)` are disjoint, executed 0. -/
example : Kind.equal.needs demoσ [.scalar (.add (.min (.var "n" true) (.val 5)) (.val 10)), .scalar (.val 3)] = true ∧
    Kind.equal.infer [.scalar (.add (.min (.var "n" true) (.val 5)) (.val 10)), .scalar (.val 3)] = some (.scalar (.val 0)) ∧
    Kind.equal.exec [.scalar 13, .scalar 3] = some (.scalar 0) := by decide

end RtenVerif.ShapeInfer
