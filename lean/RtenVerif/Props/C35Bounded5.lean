import RtenVerif.Props.C35

/-!
# C35.S3 — containment and cyclic convexity of the hull for all 5-point multisets of a 3×3 grid
(kernel evaluation of a complete finite scope; bounded statement)
-/
namespace RtenVerif.Poly

def gpt (k : Nat) : Pt := (Int.ofNat (k % 3), Int.ofNat (k / 3))

/-- **C35.S3 (bounded, 5 points)** For every multiset of 5 points of the 3×3 grid (all 1287
non-decreasing 5-tuples; the hull does not depend on the order of the input, which only affects
which of several equal points is kept) the hull is strictly convex around the whole cycle and
contains every input point.  Five points are the least number for which the scan pops more
than once per point.  Bounded statement. -/
theorem c35_hull_contains_bounded5 :
    ∀ a b c d e : Fin 9, a ≤ b → b ≤ c → c ≤ d → d ≤ e →
      hullContainsCheck [gpt a.1, gpt b.1, gpt c.1, gpt d.1, gpt e.1] = true := by
  decide +kernel

end RtenVerif.Poly
