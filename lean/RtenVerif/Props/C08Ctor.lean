import RtenVerif.Props.C08Views
import RtenVerif.Model.OverlapCtor

/-!
# C08 — every path to a mutable tensor passes the overlap check or a fresh copy

Over `Model/OverlapCtor.lean` (explicit constructors with their overlap policy keyed by the
storage's `MUTABLE`, and the storage-converting methods, as coded).
-/
namespace RtenVerif.OverlapCtor
open RtenVerif.Overlap RtenVerif.Layout

/-- One view operation / in-place layout mutation on a layout, through the functions of
C09's layout model (`Model/Layout.lean`; the `_mut` views `slice_mut`, `permuted_mut`,
`index_axis_mut`, `split_at_mut`, `slice_axis_mut`, … and the in-place mutators `permute`,
`transpose`, `move_axis`, `insert_axis`, `remove_axis`, `merge_axes` run the same layout
functions as the immutable views) and C06's `TensorBounds.clipDim` for `clip_dim`.  `same` is
`view_mut`, `nd_view_mut`, `as_dyn_mut`, `into_dyn`, `into_rank`, `assume_init` (layout
kept).  The view `v` carries an arbitrary storage window. -/
inductive ViewOp : List (Nat × Nat) → List (Nat × Nat) → Prop
  | same (d : List (Nat × Nat)) : ViewOp d d
  | permuted {v v' : View} {p : List Nat} : permuted v p = .ok v' → ViewOp v.dims v'.dims
  | transposed (v : View) : ViewOp v.dims (transposed v).dims
  | moveAxis {v v' : View} {src dst : Nat} : moveAxis v src dst = .ok v' → ViewOp v.dims v'.dims
  | trySlice {v v' : View} {items : List SliceItem} :
      trySlice v items = .ok v' → ViewOp v.dims v'.dims
  | sliceAxis {v v' : View} {axis start stop : Nat} :
      sliceAxis v axis start stop = .ok v' → ViewOp v.dims v'.dims
  | indexAxis {v v' : View} {axis index : Nat} :
      indexAxis v axis index = .ok v' → ViewOp v.dims v'.dims
  | splitAt {v v' : View} {axis mid : Nat} {right : Bool} :
      splitAt v axis mid right = .ok v' → ViewOp v.dims v'.dims
  | insertAxis {v v' : View} {index : Nat} : insertAxis v index = .ok v' → ViewOp v.dims v'.dims
  | removeAxis {v v' : View} {index : Nat} : removeAxis v index = .ok v' → ViewOp v.dims v'.dims
  | squeezed (v : View) : ViewOp v.dims (squeezed v).dims
  | mergeAxes (v : View) : ViewOp v.dims (mergedAxes v).dims
  | clipDim {t t' : TensorBounds.Owned} {dim start stop : Nat} :
      TensorBounds.clipDim t dim start stop = some t' → ViewOp t.dims t'.dims

/-- Tensors reachable by `(construct | fresh contiguous constructor | convert | viewop | grow)*`.
* `fresh` – `from_data`, `zeros`, `from_fn`, …, and the in-place `reshape` / `make_contiguous`
  when they copy (every storage kind, `from_shape` layout);
* `viewop` – any view operation or in-place layout mutation; the result may sit on any storage
  kind that is not "more mutable" than the source (`slice_mut` of a `Vec` tensor is a
  `ViewMutData` view, `slice` of anything is a `ViewData` view, `permute` keeps the kind);
* `grow` – `append` on an owned tensor (C06's `TensorBounds.append`, any storage length and
  capacity). -/
inductive Reach (P : Table) (fixed : Bool) : T → Prop
  | construct {c : Ctor} {k : Kind} {dims : List (Nat × Nat)} {len : Nat} {t : T} :
      construct P c k dims len = some t → Reach P fixed t
  | fresh (k : Kind) (shape : List Nat) : Reach P fixed ⟨k, contigDims shape⟩
  | convert {t t' : T} {cv : Conv} :
      Reach P fixed t → convert fixed cv t = some t' → Reach P fixed t'
  | viewop {t : T} {d' : List (Nat × Nat)} {k' : Kind} :
      Reach P fixed t → ViewOp t.dims d' → (k'.mutable = true → t.kind.mutable = true) →
      Reach P fixed ⟨k', d'⟩
  | grow {d : List (Nat × Nat)} {len cap axis : Nat} {other : List (Nat × Nat)}
      {t' : TensorBounds.Owned} :
      Reach P fixed ⟨.vec, d⟩ → TensorBounds.append ⟨d, len, cap⟩ axis other = .ok t' →
      Reach P fixed ⟨.vec, t'.dims⟩

/-- The table runs the overlap check whenever the storage is mutable (the two constructors
that exist for mutable storage; `from_slice_with_strides` is `ViewData` only). -/
def MutChecked (P : Table) : Prop := P .fdws true = .disallow ∧ P .fsl true = .disallow

theorem codeTable_mutChecked : MutChecked codeTable := ⟨rfl, rfl⟩
theorem seededTable_mutChecked : MutChecked seededTable := ⟨rfl, rfl⟩

theorem fresh_accepted (d : List (Nat × Nat)) : mayOverlap (fresh d) = false :=
  c08_contig_accepted _ (c08_contigDims_contiguous _)

theorem setSize_split : ∀ (dims : List (Nat × Nat)) (axis n : Nat), axis < dims.length →
    ∃ pre post size stride, dims = pre ++ (size, stride) :: post ∧
      TensorBounds.setSize dims axis n = pre ++ (n, stride) :: post ∧
      TensorBounds.sizeAt dims axis = size := by
  intro dims
  induction dims with
  | nil => intro axis n h; simp at h
  | cons x xs ih =>
    intro axis n h
    obtain ⟨size, stride⟩ := x
    cases axis with
    | zero => exact ⟨[], xs, size, stride, rfl, rfl, rfl⟩
    | succ a =>
      obtain ⟨pre, post, sz, st, h1, h2, h3⟩ := ih a n (by simpa using h)
      refine ⟨(size, stride) :: pre, post, sz, st, by rw [h1]; rfl, ?_, ?_⟩
      · simp only [TensorBounds.setSize, h2]; rfl
      · simpa [TensorBounds.sizeAt] using h3

/-- `clip_dim` (C06's model) keeps an accepted layout accepted. -/
theorem clipDim_accepted {t t' : TensorBounds.Owned} {dim start stop : Nat}
    (h : TensorBounds.clipDim t dim start stop = some t') (ha : mayOverlap t.dims = false) :
    mayOverlap t'.dims = false := by
  unfold TensorBounds.clipDim at h
  split at h
  · rename_i hv
    have hd : t'.dims = TensorBounds.setSize t.dims dim (stop - start) := by
      simp only at h
      repeat' split at h
      all_goals first | (cases h; done) | (cases h; rfl)
    obtain ⟨pre, post, size, stride, h1, h2, h3⟩ :=
      setSize_split t.dims dim (stop - start) hv.1
    rw [hd, h2]
    rw [h1] at ha
    have := c08_slice_accepted pre post size stride (stop - start) 1 (Nat.le_refl _)
      (by omega) ha
    simpa using this
  · cases h

/-- **C08.T5** Every modelled view operation / in-place layout mutation preserves the overlap
verdict: `mayOverlap d = false → ViewOp d d' → mayOverlap d' = false`. -/
theorem c08_viewOp_accepted {d d' : List (Nat × Nat)} (h : ViewOp d d')
    (ha : mayOverlap d = false) : mayOverlap d' = false := by
  cases h with
  | same => exact ha
  | permuted hop => exact c08_permuted_accepted _ _ _ ha hop
  | transposed v => exact c08_transposed_accepted v ha
  | moveAxis hop => exact c08_moveAxis_accepted _ _ _ _ ha hop
  | trySlice hop => exact c08_trySlice_accepted _ _ _ ha hop
  | sliceAxis hop => exact c08_sliceAxis_accepted _ _ _ _ _ ha hop
  | indexAxis hop => exact c08_indexAxis_accepted _ _ _ _ ha hop
  | splitAt hop => exact c08_splitAt_accepted _ _ _ _ _ ha hop
  | insertAxis hop => exact c08_insertAxis_accepted _ _ _ ha hop
  | removeAxis hop => exact c08_removeAxis_accepted _ _ _ ha hop
  | squeezed v => exact c08_squeezed_accepted v ha
  | mergeAxes v => exact c08_mergeAxes_accepted v ha
  | clipDim hop => exact clipDim_accepted hop ha

theorem construct_spec {P : Table} {c : Ctor} {k : Kind} {dims : List (Nat × Nat)} {len : Nat}
    {t : T} (h : construct P c k dims len = some t) :
    t = ⟨k, dims⟩ ∧ (P c k.mutable = .disallow → mayOverlap dims = false) ∧
    minDataLen dims ≤ len ∧ c.applies k = true := by
  unfold construct at h
  split at h
  · cases h
  · rename_i happ
    split at h
    · cases h
    · rename_i hpol
      split at h
      · cases h
      · rename_i hlen
        cases h
        refine ⟨rfl, fun hd => ?_, by omega, by simpa using happ⟩
        cases hov : mayOverlap dims with
        | false => rfl
        | true => simp [hd, hov] at hpol

/-- **C08.T5** (invariant over `(construct | convert | viewop | grow)*`, conversions as coded
after fix `f62aa2c`) For every policy table that checks mutable storage — the code's table,
and also the seeded one — every reachable tensor with MUTABLE storage has a layout that
passes `may_have_internal_overlap`: each path into a mutable kind goes through a
`DisallowOverlap` constructor, the check in `into_owned` or `expanded_layout`, a
verdict-preserving view operation / layout mutation from a mutable kind, or a copy into a
fresh contiguous layout. -/
theorem c08_mutable_reachable_accepted (P : Table) (hP : MutChecked P) (t : T)
    (h : Reach P true t) (hm : t.kind.mutable = true) : mayOverlap t.dims = false := by
  induction h with
  | @construct c k dims len t hc =>
    obtain ⟨rfl, hpol, _, happ⟩ := construct_spec hc
    simp only at hm
    cases c with
    | fdws => exact hpol (by rw [hm]; exact hP.1)
    | fsl => exact hpol (by rw [hm]; exact hP.2)
    | fsws =>
      -- `from_slice_with_strides` only builds immutable views
      cases k <;> simp [Ctor.applies] at happ
      simp [Kind.mutable] at hm
  | fresh k shape => exact c08_contig_accepted _ (c08_contigDims_contiguous _)
  | @convert t t' cv _ hc ih =>
    obtain ⟨k, d⟩ := t
    cases cv <;> cases k <;> simp only [OverlapCtor.convert] at hc <;>
      first
      | (cases hc; done)
      | (cases hc; first
          | exact fresh_accepted _
          | exact ih rfl
          | (simp [Kind.mutable] at hm; done)
          | (show mayOverlap (List.reverse _) = false
             rw [accept_perm (List.reverse_perm _)]; exact ih rfl))
      | (split at hc <;> cases hc <;> first
          | exact fresh_accepted _
          | exact ih rfl
          | (simp [Kind.mutable] at hm; done)
          | simp_all)
  | @viewop t d' k' _ hop hk ih =>
    exact c08_viewOp_accepted hop (ih (hk hm))
  | @grow d len cap axis other t' _ happ _ =>
    exact (c08_append_grown_injective _ _ _ _ happ).2.1

/-- **C08.T5** … hence no two distinct valid indices of a reachable mutable tensor share a
storage offset. -/
theorem c08_mutable_reachable_injective (P : Table) (hP : MutChecked P) (t : T)
    (h : Reach P true t) (hm : t.kind.mutable = true) (i j : List Nat)
    (hi : ValidIdx t.dims i) (hj : ValidIdx t.dims j) (hoff : offset t.dims i = offset t.dims j) :
    i = j :=
  c08_no_overlap_injective t.dims i j (c08_mutable_reachable_accepted P hP t h hm) hi hj hoff

/-- Non-vacuity: a stepped, permuted layout constructed on a `Vec`, sent through
`into_cow → into_owned → into_arc`, is reachable, mutable and not contiguous. -/
example : Reach codeTable true ⟨.arc, [(3, 2), (4, 8)]⟩ ∧ Kind.mutable .arc = true ∧
    isContiguous [(3, 2), (4, 8)] = false := by
  refine ⟨?_, rfl, by decide⟩
  have h0 : Reach codeTable true ⟨.vec, [(3, 2), (4, 8)]⟩ :=
    .construct (c := .fdws) (k := .vec) (dims := [(3, 2), (4, 8)]) (len := 29) (by decide)
  have h1 : Reach codeTable true ⟨.cowO, [(3, 2), (4, 8)]⟩ := .convert (cv := .intoCow) h0 (by decide)
  have h2 : Reach codeTable true ⟨.vec, [(3, 2), (4, 8)]⟩ := .convert (cv := .intoOwned) h1 (by decide)
  exact .convert (cv := .intoArc) h2 (by decide)

/-- Non-vacuity for the `viewop` and `grow` steps: an owned 4×5×6 tensor, transposed in place
(`Vec` storage kept), then `slice_mut(1..;2)` of axis 0 (a `ViewMutData` view with the
non-contiguous layout `[(3,2),(5,6),(4,30)]`); and a `with_capacity([2,4], 0)` tensor grown
by `append`. -/
example : Reach codeTable true ⟨.viewMut, [(3, 2), (5, 6), (4, 30)]⟩ ∧
    Reach codeTable true ⟨.vec, [(2, 4), (4, 1)]⟩ := by
  constructor
  · have h0 : Reach codeTable true ⟨.vec, contigDims [4, 5, 6]⟩ := .fresh .vec [4, 5, 6]
    have h1 : Reach codeTable true ⟨.vec, (transposed ⟨0, 120, contigDims [4, 5, 6]⟩).dims⟩ :=
      .viewop h0 (.transposed ⟨0, 120, contigDims [4, 5, 6]⟩) (fun _ => rfl)
    have hop : trySlice (transposed ⟨0, 120, contigDims [4, 5, 6]⟩) [.range ⟨1, none, 2⟩] =
        .ok ⟨1, 119, [(3, 2), (5, 6), (4, 30)]⟩ := by decide
    exact .viewop (k' := .viewMut) h1 (.trySlice hop) (fun _ => rfl)
  · have h0 : Reach codeTable true ⟨.vec, [(0, 4), (4, 1)]⟩ := .fresh .vec [0, 4]
    have happ : TensorBounds.append ⟨[(0, 4), (4, 1)], 0, 12⟩ 0 [(2, 0), (4, 0)] =
        .ok ⟨[(2, 4), (4, 1)], 8, 12⟩ := by decide
    exact .grow h0 happ

/-- **Finding (fixed, `f62aa2c`)**: with `into_owned` as it was (owned arm moves the layout
unconditionally) the invariant is FALSE for the code's own table:
`from_storage_and_layout(CowData::Owned(vec![a, b]), [2,2]/[0,1])` is allowed (immutable
storage), `into_owned` makes it a mutable `Tensor` in which `[0,0]` and `[1,0]` alias. -/
theorem c08_mutable_reachable_old_false :
    ∃ t, Reach codeTable false t ∧ t.kind.mutable = true ∧ mayOverlap t.dims = true ∧
      offset t.dims [0, 0] = offset t.dims [1, 0] := by
  refine ⟨⟨.vec, [(2, 0), (2, 1)]⟩, ?_, rfl, by decide, by decide⟩
  have h0 : Reach codeTable false ⟨.cowO, [(2, 0), (2, 1)]⟩ :=
    .construct (c := .fsl) (k := .cowO) (dims := [(2, 0), (2, 1)]) (len := 2) (by decide)
  exact .convert (cv := .intoOwned) h0 (by decide)

/-- **C08.T5** (explicit construction) As coded, `from_data_with_strides` accepts a
shape/strides pair only if it passes the overlap check — for EVERY storage kind, mutable or
not — so a pair it accepts never aliases. -/
theorem c08_fdws_accepts_only_nonoverlapping (k : Kind) (dims : List (Nat × Nat)) (len : Nat)
    (t : T) (h : construct codeTable .fdws k dims len = some t) :
    t.dims = dims ∧ mayOverlap dims = false ∧
    ∀ i j, ValidIdx dims i → ValidIdx dims j → offset dims i = offset dims j → i = j := by
  obtain ⟨rfl, hpol, _, _⟩ := construct_spec h
  have hov := hpol rfl
  exact ⟨rfl, hov, fun i j hi hj ho => c08_no_overlap_injective dims i j hov hi hj ho⟩

example : construct codeTable .fdws .cowO [(3, 2), (4, 8)] 29 = some ⟨.cowO, [(3, 2), (4, 8)]⟩ := by
  decide

/-- The seeded table (C08_c: policy of `from_data_with_strides` taken from `S::MUTABLE`)
breaks the explicit-construction clause: an aliasing pair is accepted on owned copy-on-write
storage … -/
theorem c08_seeded_fdws_accepts_overlap :
    construct seededTable .fdws .cowO [(2, 0), (2, 1)] 2 = some ⟨.cowO, [(2, 0), (2, 1)]⟩ ∧
    construct codeTable .fdws .cowO [(2, 0), (2, 1)] 2 = none ∧
    mayOverlap [(2, 0), (2, 1)] = true ∧
    offset [(2, 0), (2, 1)] [0, 0] = offset [(2, 0), (2, 1)] [1, 0] := by decide

/-- … and, with `into_owned` as it was when the change was seeded, the mutable-reachability
invariant fails for the seeded table although it checks all mutable storage
(`CowTensor::from_data_with_strides(Cow::Owned(v), [2,2], [0,1]).into_owned()`). -/
theorem c08_seeded_mutable_reachable_false :
    MutChecked seededTable ∧
    ∃ t, Reach seededTable false t ∧ t.kind.mutable = true ∧ mayOverlap t.dims = true := by
  refine ⟨seededTable_mutChecked, ⟨.vec, [(2, 0), (2, 1)]⟩, ?_, rfl, by decide⟩
  have h0 : Reach seededTable false ⟨.cowO, [(2, 0), (2, 1)]⟩ :=
    .construct (c := .fdws) (k := .cowO) (dims := [(2, 0), (2, 1)]) (len := 2) (by decide)
  exact .convert (cv := .intoOwned) h0 (by decide)

end RtenVerif.OverlapCtor
