import RtenVerif.Props.C08Views
import RtenVerif.Model.OverlapCtor

/-!
# C08 — every path to a mutable tensor passes the overlap check or a fresh copy

Over `Model/OverlapCtor.lean` (explicit constructors with their overlap policy keyed by the
storage's `MUTABLE`, and the storage-converting methods, as coded).
-/
namespace RtenVerif.OverlapCtor
open RtenVerif.Overlap RtenVerif.Layout

/-- Tensors reachable by `(construct | fresh contiguous constructor | convert)*`.
`fresh` stands for `from_data`, `zeros`, `from_fn`, … (every storage kind, `from_shape`
layout). -/
inductive Reach (P : Table) (fixed : Bool) : T → Prop
  | construct {c : Ctor} {k : Kind} {dims : List (Nat × Nat)} {len : Nat} {t : T} :
      construct P c k dims len = some t → Reach P fixed t
  | fresh (k : Kind) (shape : List Nat) : Reach P fixed ⟨k, contigDims shape⟩
  | convert {t t' : T} {cv : Conv} :
      Reach P fixed t → convert fixed cv t = some t' → Reach P fixed t'

/-- The table runs the overlap check whenever the storage is mutable (the two constructors
that exist for mutable storage; `from_slice_with_strides` is `ViewData` only). -/
def MutChecked (P : Table) : Prop := P .fdws true = .disallow ∧ P .fsl true = .disallow

theorem codeTable_mutChecked : MutChecked codeTable := ⟨rfl, rfl⟩
theorem seededTable_mutChecked : MutChecked seededTable := ⟨rfl, rfl⟩

theorem fresh_accepted (d : List (Nat × Nat)) : mayOverlap (fresh d) = false :=
  c08_contig_accepted _ (c08_contigDims_contiguous _)

theorem construct_spec {P : Table} {c : Ctor} {k : Kind} {dims : List (Nat × Nat)} {len : Nat}
    {t : T} (h : construct P c k dims len = some t) :
    t = ⟨k, dims⟩ ∧ (P c k.mutable = .disallow → mayOverlap dims = false) ∧
    minDataLen dims ≤ len ∧ c.applies k = true := by
  unfold construct at h
  split at h
  · cases h
  · rename_i happ
    split at h
    · cases h
    · rename_i hpol
      split at h
      · cases h
      · rename_i hlen
        cases h
        refine ⟨rfl, fun hd => ?_, by omega, by simpa using happ⟩
        cases hov : mayOverlap dims with
        | false => rfl
        | true => simp [hd, hov] at hpol

/-- **C08.T5** (invariant over `(construct | convert)*`, conversions as coded after fix
`f62aa2c`) For every policy table that checks mutable storage — the code's table, and also
the seeded one — every reachable tensor with MUTABLE storage has a layout that passes
`may_have_internal_overlap`: each path into a mutable kind goes through a `DisallowOverlap`
constructor, the check in `into_owned`, a layout-preserving step from a mutable kind, or a
copy into a fresh contiguous layout. -/
theorem c08_mutable_reachable_accepted (P : Table) (hP : MutChecked P) (t : T)
    (h : Reach P true t) (hm : t.kind.mutable = true) : mayOverlap t.dims = false := by
  induction h with
  | @construct c k dims len t hc =>
    obtain ⟨rfl, hpol, _, happ⟩ := construct_spec hc
    simp only at hm
    cases c with
    | fdws => exact hpol (by rw [hm]; exact hP.1)
    | fsl => exact hpol (by rw [hm]; exact hP.2)
    | fsws =>
      -- `from_slice_with_strides` only builds immutable views
      cases k <;> simp [Ctor.applies] at happ
      simp [Kind.mutable] at hm
  | fresh k shape => exact c08_contig_accepted _ (c08_contigDims_contiguous _)
  | @convert t t' cv _ hc ih =>
    obtain ⟨k, d⟩ := t
    cases cv <;> cases k <;> simp only [OverlapCtor.convert] at hc <;>
      first
      | (cases hc; done)
      | (cases hc; first
          | exact fresh_accepted _
          | exact ih rfl
          | (simp [Kind.mutable] at hm; done))
      | (split at hc <;> cases hc <;> first
          | exact fresh_accepted _
          | exact ih rfl
          | (simp [Kind.mutable] at hm; done)
          | simp_all)

/-- **C08.T5** … hence no two distinct valid indices of a reachable mutable tensor share a
storage offset. -/
theorem c08_mutable_reachable_injective (P : Table) (hP : MutChecked P) (t : T)
    (h : Reach P true t) (hm : t.kind.mutable = true) (i j : List Nat)
    (hi : ValidIdx t.dims i) (hj : ValidIdx t.dims j) (hoff : offset t.dims i = offset t.dims j) :
    i = j :=
  c08_no_overlap_injective t.dims i j (c08_mutable_reachable_accepted P hP t h hm) hi hj hoff

/-- Non-vacuity: a stepped, permuted layout constructed on a `Vec`, sent through
`into_cow → into_owned → into_arc`, is reachable, mutable and not contiguous. -/
example : Reach codeTable true ⟨.arc, [(3, 2), (4, 8)]⟩ ∧ Kind.mutable .arc = true ∧
    isContiguous [(3, 2), (4, 8)] = false := by
  refine ⟨?_, rfl, by decide⟩
  have h0 : Reach codeTable true ⟨.vec, [(3, 2), (4, 8)]⟩ :=
    .construct (c := .fdws) (k := .vec) (dims := [(3, 2), (4, 8)]) (len := 29) (by decide)
  have h1 : Reach codeTable true ⟨.cowO, [(3, 2), (4, 8)]⟩ := .convert (cv := .intoCow) h0 (by decide)
  have h2 : Reach codeTable true ⟨.vec, [(3, 2), (4, 8)]⟩ := .convert (cv := .intoOwned) h1 (by decide)
  exact .convert (cv := .intoArc) h2 (by decide)

/-- **Finding (fixed, `f62aa2c`)**: with `into_owned` as it was (owned arm moves the layout
unconditionally) the invariant is FALSE for the code's own table:
`from_storage_and_layout(CowData::Owned(vec![a, b]), [2,2]/[0,1])` is allowed (immutable
storage), `into_owned` makes it a mutable `Tensor` in which `[0,0]` and `[1,0]` alias. -/
theorem c08_mutable_reachable_old_false :
    ∃ t, Reach codeTable false t ∧ t.kind.mutable = true ∧ mayOverlap t.dims = true ∧
      offset t.dims [0, 0] = offset t.dims [1, 0] := by
  refine ⟨⟨.vec, [(2, 0), (2, 1)]⟩, ?_, rfl, by decide, by decide⟩
  have h0 : Reach codeTable false ⟨.cowO, [(2, 0), (2, 1)]⟩ :=
    .construct (c := .fsl) (k := .cowO) (dims := [(2, 0), (2, 1)]) (len := 2) (by decide)
  exact .convert (cv := .intoOwned) h0 (by decide)

/-- **C08.T5** (explicit construction) As coded, `from_data_with_strides` accepts a
shape/strides pair only if it passes the overlap check — for EVERY storage kind, mutable or
not — so a pair it accepts never aliases. -/
theorem c08_fdws_accepts_only_nonoverlapping (k : Kind) (dims : List (Nat × Nat)) (len : Nat)
    (t : T) (h : construct codeTable .fdws k dims len = some t) :
    t.dims = dims ∧ mayOverlap dims = false ∧
    ∀ i j, ValidIdx dims i → ValidIdx dims j → offset dims i = offset dims j → i = j := by
  obtain ⟨rfl, hpol, _, _⟩ := construct_spec h
  have hov := hpol rfl
  exact ⟨rfl, hov, fun i j hi hj ho => c08_no_overlap_injective dims i j hov hi hj ho⟩

example : construct codeTable .fdws .cowO [(3, 2), (4, 8)] 29 = some ⟨.cowO, [(3, 2), (4, 8)]⟩ := by
  decide

/-- The seeded table (C08_c: policy of `from_data_with_strides` taken from `S::MUTABLE`)
breaks the explicit-construction clause: an aliasing pair is accepted on owned copy-on-write
storage … -/
theorem c08_seeded_fdws_accepts_overlap :
    construct seededTable .fdws .cowO [(2, 0), (2, 1)] 2 = some ⟨.cowO, [(2, 0), (2, 1)]⟩ ∧
    construct codeTable .fdws .cowO [(2, 0), (2, 1)] 2 = none ∧
    mayOverlap [(2, 0), (2, 1)] = true ∧
    offset [(2, 0), (2, 1)] [0, 0] = offset [(2, 0), (2, 1)] [1, 0] := by decide

/-- … and, with `into_owned` as it was when the change was seeded, the mutable-reachability
invariant fails for the seeded table although it checks all mutable storage
(`CowTensor::from_data_with_strides(Cow::Owned(v), [2,2], [0,1]).into_owned()`). -/
theorem c08_seeded_mutable_reachable_false :
    MutChecked seededTable ∧
    ∃ t, Reach seededTable false t ∧ t.kind.mutable = true ∧ mayOverlap t.dims = true := by
  refine ⟨seededTable_mutChecked, ⟨.vec, [(2, 0), (2, 1)]⟩, ?_, rfl, by decide⟩
  have h0 : Reach seededTable false ⟨.cowO, [(2, 0), (2, 1)]⟩ :=
    .construct (c := .fdws) (k := .cowO) (dims := [(2, 0), (2, 1)]) (len := 2) (by decide)
  exact .convert (cv := .intoOwned) h0 (by decide)

end RtenVerif.OverlapCtor
