import RtenVerif.Lemmas.ByteBpe
import RtenVerif.Lemmas.Utf8
import RtenVerif.Generated.BpeByteTable

/-!
# C27 — Byte-level BPE tokenization round-trips and reports consistent offsets

Property theorems over `RtenVerif.Model.ByteBpe` (model of `rten-text/src/models/bpe.rs` and the
encode/decode/offset code of `rten-text/src/tokenizer.rs`).  Texts are lists of UTF-8 bytes; the
pre-tokenizer (regex engine) is a parameter: the byte ranges of the pieces it returns.

* T1 `byte_to_char` is injective with 256 distinct printable images (complete finite check).
* T2 for every vocabulary with distinct ids, every merge list `Bpe::new` accepts and every byte
  string `p`: `decode (encode_piece p) = p`.
* T3 for a lossless pre-tokenizer (the pieces tile the text) and no normalizer:
  `decode (encode t) = t`; the token offsets are piece starts, non-decreasing; the slices
  `text_for_token_range(i..i+1)` all exist and concatenate to `t[off₀..]`.
  With a normalizer the offset of a token is `map[piece start]` (after the fix of `encode_str`),
  non-decreasing for a non-decreasing map (C30 T2) and a source char boundary by C30 T3.
* Outside the round-trip claim (witnesses below): an end-of-word suffix is decoded verbatim
  (`"a"` ↦ `"a</w>"`), and an added token whose id collides with a vocabulary id shadows it.
-/
namespace RtenVerif.ByteBpe

/-! ### T1 -/

/-- **C27.T1** `byte_to_char` restricted to bytes is a bijection onto its image, inverted by
`char_to_byte`; the 256 images are distinct and none is a control / white-space char or U+00AD
(checked by evaluating the definition on all 256 bytes; the definition itself is compared with
the table of the real crate on every run, request line `B`). -/
theorem c27_byte_to_char_bijective :
    (∀ b, b < 256 → charToByte (byteToChar b) = some b) ∧
    (∀ a b, a < 256 → b < 256 → byteToChar a = byteToChar b → a = b) ∧
    ((List.range 256).map byteToChar).Nodup ∧
    (∀ b, b < 256 → (isPrintable (byteToChar b) = true ∨ 256 ≤ byteToChar b) ∧ byteToChar b < 324) :=
  ⟨charToByte_byteToChar, byteToChar_injective, by decide +kernel, by decide +kernel⟩

/-! ### T2 -/

theorem new_ok_spec (vocab : List (Str × Nat)) (merges : List (Str × Str)) (sfx : Option Str)
    (ign : Bool) (added : List (Nat × List Nat)) (t : Bpe)
    (h : Bpe.new vocab merges sfx ign added = .ok t) :
    t.vocab = vocab ∧ (sfx = none → t.eow = none) ∧ t.ignoreMerges = ign ∧ t.added = added ∧
    buildMergeMap vocab merges = some t.merges ∧
    ∀ b, b < 256 → vocabGet vocab [byteToChar b] = some (t.byteTok b) := by
  unfold Bpe.new at h
  split at h
  · simp at h
  · rename_i mm hmm
    simp only at h
    split at h
    · rename_i hall
      simp only [NewResult.ok.injEq] at h
      subst h
      refine ⟨rfl, by intro hs; subst hs; rfl, rfl, rfl, hmm, ?_⟩
      intro b hb
      simp only [List.all_eq_true, List.mem_map, List.mem_range] at hall
      have hs := hall _ ⟨b, hb, rfl⟩
      obtain ⟨x, hx⟩ := Option.isSome_iff_exists.mp hs
      simp [List.getD_eq_getElem?_getD, hb, hx]
    · simp at h

theorem cat_map_byteTok (t : Bpe)
    (hbt : ∀ b, b < 256 → strOf t.vocab (t.byteTok b) = some [byteToChar b]) :
    ∀ (piece : List Nat), (∀ b ∈ piece, b < 256) →
      cat t.vocab (piece.map t.byteTok) = some (piece.map byteToChar) := by
  intro piece
  induction piece with
  | nil => intro _; rfl
  | cons b bs ih =>
    intro h
    rw [List.map_cons, cat_cons_of t.vocab _ _ _ _ (hbt b (h b (by simp)))
      (ih (fun x hx => h x (List.mem_cons_of_mem _ hx)))]
    rfl

/-- The token strings of `encode_piece p` concatenate to the byte-mapped piece. -/
theorem encodePiece_cat (vocab : List (Str × Nat)) (merges : List (Str × Str)) (ign : Bool)
    (added : List (Nat × List Nat)) (t : Bpe) (hnew : Bpe.new vocab merges none ign added = .ok t)
    (hnd : (vocab.map (·.2)).Nodup) (piece : List Nat) (hb : ∀ b ∈ piece, b < 256) (ew : Bool) :
    cat t.vocab (encodePiece t piece ew) = some (piece.map byteToChar) := by
  obtain ⟨hv, he, _, _, hmm, hbt⟩ := new_ok_spec _ _ _ _ _ _ hnew
  have hcons : Consistent t.vocab t.merges := by
    rw [hv]; exact buildMergeMap_consistent vocab hnd merges t.merges hmm
  have hnormal : cat t.vocab (bpeMerge t.merges (piece.map t.byteTok).length (piece.map t.byteTok)) =
      some (piece.map byteToChar) := by
    refine bpeMerge_cat _ _ hcons _ _ _ (cat_map_byteTok t ?_ piece hb)
    intro b hb'
    rw [hv]; exact vocabGet_strOf vocab hnd _ _ (hbt b hb')
  unfold encodePiece
  simp only [he rfl]
  split
  · split
    · rename_i id hid
      rw [hv] at hid
      have := vocabGet_strOf vocab hnd _ _ hid
      rw [hv, cat_cons_of vocab id [] _ [] this rfl, List.append_nil]
    · exact hnormal
  · exact hnormal

/-- **C27.T2** For every vocabulary with distinct ids, every merge list accepted by `Bpe::new`
(no end-of-word suffix), with or without `ignore_merges`, and added tokens that do not reuse a
vocabulary id: decoding the tokens of any byte string gives the byte string back. -/
theorem c27_piece_roundtrip (vocab : List (Str × Nat)) (merges : List (Str × Str)) (ign : Bool)
    (added : List (Nat × List Nat)) (t : Bpe) (hnew : Bpe.new vocab merges none ign added = .ok t)
    (hnd : (vocab.map (·.2)).Nodup)
    (hadd : ∀ id s, strOf vocab id = some s → added.lookup id = none)
    (piece : List Nat) (hb : ∀ b ∈ piece, b < 256) (ew : Bool) :
    decodeIds t (encodePiece t piece ew) = .ok piece := by
  obtain ⟨hv, _, _, ha, _, _⟩ := new_ok_spec _ _ _ _ _ _ hnew
  refine decodeIds_of_cat t ?_ _ _ _ (encodePiece_cat vocab merges ign added t hnew hnd piece hb ew)
    (decodeStr_map_byteToChar piece hb)
  rw [hv, ha]; exact hadd

/-! ### T3 -/

/-- The pre-tokenizer is lossless: its pieces tile `text[a..len]` in order. -/
def Tiles : List (Nat × Nat) → Nat → Nat → Prop
  | [], a, len => a = len
  | (s, e) :: rest, a, len => s = a ∧ s ≤ e ∧ Tiles rest e len

theorem slice_append_drop (text : List Nat) (s e : Nat) (h : s ≤ e) :
    slice text s e ++ text.drop e = text.drop s := by
  unfold slice
  have : text.drop e = (text.drop s).drop (e - s) := by
    rw [List.drop_drop]; congr 1; omega
  rw [this, List.take_append_drop]

theorem mem_slice (text : List Nat) (s e b : Nat) (h : b ∈ slice text s e) : b ∈ text :=
  List.mem_of_mem_drop (List.mem_of_mem_take h)

theorem encodeStr_decode (vocab : List (Str × Nat)) (merges : List (Str × Str)) (ign : Bool)
    (added : List (Nat × List Nat)) (t : Bpe) (hnew : Bpe.new vocab merges none ign added = .ok t)
    (hnd : (vocab.map (·.2)).Nodup)
    (hadd : ∀ id s, strOf vocab id = some s → added.lookup id = none)
    (text : List Nat) (hb : ∀ b ∈ text, b < 256) :
    ∀ (pieces : List (Nat × Nat)) (a : Nat) (toks offs : List Nat), Tiles pieces a text.length →
      encodeStr t text none 0 pieces = some (toks, offs) → decodeIds t toks = .ok (text.drop a) := by
  intro pieces
  induction pieces with
  | nil =>
    intro a toks offs ht h
    simp only [Tiles] at ht
    simp only [encodeStr, Option.some.injEq, Prod.mk.injEq] at h
    rw [← h.1, ht, List.drop_length]; rfl
  | cons p rest ih =>
    intro a toks offs ht h
    obtain ⟨s, e⟩ := p
    simp only [Tiles] at ht
    obtain ⟨rfl, hse, hrest⟩ := ht
    simp only [encodeStr] at h
    split at h
    · rename_i o ts os _ hr
      simp only [Option.some.injEq, Prod.mk.injEq] at h
      rw [← h.1, ← slice_append_drop text s e hse]
      refine decodeIds_append t _ _ _ _ ?_ (ih e ts os hrest hr)
      split
      · exact c27_piece_roundtrip vocab merges ign added t hnew hnd hadd _
          (fun b hb' => hb b (mem_slice text s e b hb')) true
      · have : s = e := by omega
        subst this
        simp [slice, decodeIds]
    · simp at h

/-- **C27.T3a** Lossless pre-tokenizer, no normalizer: `decode (encode t) = t`. -/
theorem c27_text_roundtrip (vocab : List (Str × Nat)) (merges : List (Str × Str)) (ign : Bool)
    (added : List (Nat × List Nat)) (t : Bpe) (hnew : Bpe.new vocab merges none ign added = .ok t)
    (hnd : (vocab.map (·.2)).Nodup)
    (hadd : ∀ id s, strOf vocab id = some s → added.lookup id = none)
    (text : List Nat) (hb : ∀ b ∈ text, b < 256) (pieces : List (Nat × Nat))
    (hl : Tiles pieces 0 text.length) (ids offs : List Nat)
    (h : encode t text.length text none pieces = some (ids, offs)) :
    decodeIds t ids = .ok text := by
  unfold encode at h
  split at h
  · simp at h
  · rename_i toks os hs
    have hd := encodeStr_decode vocab merges ign added t hnew hnd hadd text hb pieces 0 toks os hl hs
    split at h
    · rename_i hem
      simp only [Option.some.injEq, Prod.mk.injEq] at h
      have : toks = [] := by simpa using hem
      subst this
      rw [← h.1]; simpa using hd
    · simp only [Option.some.injEq, Prod.mk.injEq] at h
      rw [← h.1]; simpa using hd

/-- The normalizer's offset map (or the identity without one) is monotone. -/
def MapMono (map : Option (List Nat)) : Prop :=
  ∀ i j a b, i ≤ j → mapOffset map i = some a → mapOffset map j = some b → a ≤ b

theorem mapMono_none : MapMono none := by
  intro i j a b hij ha hb
  simp only [mapOffset, Option.some.injEq] at ha hb; omega

theorem mapMono_some (m : List Nat) (h : m.Pairwise (· ≤ ·)) : MapMono (some m) := by
  intro i j a b hij ha hb
  simp only [mapOffset] at ha hb
  obtain ⟨hi, rfl⟩ := List.getElem?_eq_some_iff.mp ha
  obtain ⟨hj, rfl⟩ := List.getElem?_eq_some_iff.mp hb
  rcases Nat.lt_or_eq_of_le hij with hlt | rfl
  · exact List.pairwise_iff_getElem.mp h i j hi hj hlt
  · exact Nat.le_refl _

theorem pairwise_map_const (l : List Nat) (c : Nat) : (l.map fun _ => c).Pairwise (· ≤ ·) := by
  induction l with
  | nil => simp
  | cons x xs ih =>
    rw [List.map_cons, List.pairwise_cons]
    refine ⟨?_, ih⟩
    intro y hy
    simp only [List.mem_map] at hy
    obtain ⟨_, _, rfl⟩ := hy
    exact Nat.le_refl _

/-- **C27.T3b (offsets)** One offset per token; every offset is `map_offset(start)` of a
non-empty piece (without a normalizer: the piece start itself; pieces are `&str` sub-slices,
so starts are char boundaries of the text by typing); non-decreasing when the pieces come in
order and the map is monotone. -/
theorem c27_offsets (t : Bpe) (text : List Nat) (map : Option (List Nat)) :
    ∀ (pieces : List (Nat × Nat)) (toks offs : List Nat),
      encodeStr t text map 0 pieces = some (toks, offs) →
      offs.length = toks.length ∧
      (∀ o ∈ offs, ∃ p ∈ pieces, p.1 < p.2 ∧ mapOffset map p.1 = some o) ∧
      ((pieces.map (·.1)).Pairwise (· ≤ ·) → MapMono map → offs.Pairwise (· ≤ ·)) := by
  intro pieces
  induction pieces with
  | nil =>
    intro toks offs h
    simp only [encodeStr, Option.some.injEq, Prod.mk.injEq] at h
    obtain ⟨rfl, rfl⟩ := h
    simp
  | cons p rest ih =>
    intro toks offs h
    obtain ⟨s, e⟩ := p
    simp only [encodeStr] at h
    split at h
    · rename_i o ts os ho hr
      simp only [Option.some.injEq, Prod.mk.injEq] at h
      obtain ⟨rfl, rfl⟩ := h
      obtain ⟨ih1, ih2, ih3⟩ := ih ts os hr
      have hhere : ∀ x ∈ (if s < e then encodePiece t (slice text s e) true else []).map
          (fun _ => 0 + o), s < e ∧ mapOffset map s = some x := by
        intro x hx
        simp only [List.mem_map] at hx
        obtain ⟨y, hy, rfl⟩ := hx
        by_cases hse : s < e
        · refine ⟨hse, ?_⟩
          have hne : (if s < e then encodePiece t (slice text s e) true else []).isEmpty = false := by
            cases hc : (if s < e then encodePiece t (slice text s e) true else []) with
            | nil => rw [hc] at hy; simp at hy
            | cons _ _ => rfl
          rw [hne] at ho
          simpa using ho
        · rw [if_neg hse] at hy; simp at hy
      refine ⟨by simp [ih1], ?_, ?_⟩
      · intro x hx
        rcases List.mem_append.mp hx with hx | hx
        · obtain ⟨h1, h2⟩ := hhere x hx
          exact ⟨(s, e), by simp, h1, h2⟩
        · obtain ⟨p, hp, h1, h2⟩ := ih2 x hx
          exact ⟨p, List.mem_cons_of_mem _ hp, h1, h2⟩
      · intro hpw hmono
        rw [List.map_cons, List.pairwise_cons] at hpw
        rw [List.pairwise_append]
        refine ⟨pairwise_map_const _ _, ih3 hpw.2 hmono, ?_⟩
        intro a ha b hb
        obtain ⟨_, h2⟩ := hhere a ha
        obtain ⟨p, hp, _, h4⟩ := ih2 b hb
        exact hmono s p.1 a b (hpw.1 p.1 (List.mem_map_of_mem hp)) h2 h4
    · simp at h

theorem slice_append (src : List Nat) (a b c : Nat) (hab : a ≤ b) (hbc : b ≤ c) :
    slice src a b ++ slice src b c = slice src a c := by
  unfold slice
  have h1 : src.drop b = (src.drop a).drop (b - a) := by rw [List.drop_drop]; congr 1; omega
  have h2 : c - a = (b - a) + (c - b) := by omega
  rw [h1, h2, List.take_add]

theorem isBoundary_length (src : List Nat) : Utf8.isBoundary src src.length = true := by
  simp [Utf8.isBoundary]

/-- **C27.T3c (slices)** For non-decreasing offsets within the text that lie on char boundaries,
every `text_for_token_range(i..i+1)` (`str::get`, which checks bounds *and* char boundaries)
exists and their concatenation is the text between the first and the last offset. -/
theorem tokenTexts_concat (src : List Nat) : ∀ (l : List Nat) (a z : Nat),
    (a :: (l ++ [z])).Pairwise (· ≤ ·) → (∀ x ∈ a :: (l ++ [z]), x ≤ src.length) →
    (∀ x ∈ a :: (l ++ [z]), Utf8.isBoundary src x = true) →
    ∃ segs : List (List Nat), tokenTexts src (a :: (l ++ [z])) = segs.map some ∧
      segs.flatten = slice src a z := by
  intro l
  induction l with
  | nil =>
    intro a z hpw hle hbd
    have haz : a ≤ z := by simpa using hpw
    have hz : z ≤ src.length := hle z (by simp)
    have ba := hbd a (by simp)
    have bz := hbd z (by simp)
    exact ⟨[slice src a z], by simp [tokenTexts, strGet, haz, hz, ba, bz], by simp⟩
  | cons b l ih =>
    intro a z hpw hle hbd
    rw [List.cons_append, List.pairwise_cons] at hpw
    obtain ⟨segs, h1, h2⟩ := ih b z hpw.2 (fun x hx => hle x (List.mem_cons_of_mem _ hx))
      (fun x hx => hbd x (List.mem_cons_of_mem _ hx))
    have hab : a ≤ b := hpw.1 b (by simp)
    have hb : b ≤ src.length := hle b (by simp)
    have hbz : b ≤ z := (List.pairwise_cons.mp hpw.2).1 z (by simp)
    have ba := hbd a (by simp)
    have bb := hbd b (by simp)
    refine ⟨slice src a b :: segs, ?_, ?_⟩
    · simp only [List.cons_append, tokenTexts, strGet, h1, hab, hb, ba, bb, and_self, if_true,
        List.map_cons]
    · rw [List.flatten_cons, h2, slice_append src a b z hab hbz]

/-- **C27.T3c for `encode`**: with non-decreasing token offsets inside the text (T3b) that are
char boundaries, the reported `token_offsets = offs ++ [len]` delimit slices that all exist and
concatenate to `t[off₀..]` — the whole text when the first piece starts at 0. -/
theorem c27_slices (src : List Nat) (o0 : Nat) (offs : List Nat)
    (hpw : (o0 :: offs).Pairwise (· ≤ ·)) (hle : ∀ x ∈ o0 :: offs, x ≤ src.length)
    (hbd : ∀ x ∈ o0 :: offs, Utf8.isBoundary src x = true) :
    ∃ segs : List (List Nat), tokenTexts src (o0 :: offs ++ [src.length]) = segs.map some ∧
      segs.flatten = src.drop o0 := by
  have hpw' : (o0 :: (offs ++ [src.length])).Pairwise (· ≤ ·) := by
    rw [← List.cons_append, List.pairwise_append]
    refine ⟨hpw, by simp, ?_⟩
    intro a ha b hb
    simp only [List.mem_singleton] at hb
    rw [hb]; exact hle a ha
  have hle' : ∀ x ∈ o0 :: (offs ++ [src.length]), x ≤ src.length := by
    intro x hx
    rw [← List.cons_append] at hx
    rcases List.mem_append.mp hx with h | h
    · exact hle x h
    · simp only [List.mem_singleton] at h; omega
  have hbd' : ∀ x ∈ o0 :: (offs ++ [src.length]), Utf8.isBoundary src x = true := by
    intro x hx
    rw [← List.cons_append] at hx
    rcases List.mem_append.mp hx with h | h
    · exact hbd x h
    · simp only [List.mem_singleton] at h; rw [h]; exact isBoundary_length src
  obtain ⟨segs, h1, h2⟩ := tokenTexts_concat src offs o0 src.length hpw' hle' hbd'
  refine ⟨segs, by simpa using h1, ?_⟩
  rw [h2]
  unfold slice
  rw [List.take_of_length_le (by simp)]

/-! ### The table extracted from the source -/

/-- **C27.T1 (tie to the source).**  The model's `byteToChar` agrees, on all 256 bytes, with the
table the translator `translate/bpe_byte_table.py` extracts from `rten-text/src/models/bpe.rs`
(`is_printable` evaluated on `char::from(0..=255)`, then the two loops of `byte_to_char`). -/
theorem c27_table_matches_source :
    (List.range 256).map (fun b => (b, byteToChar b)) = Generated.BpeByteTable.byteToChar := by
  decide +kernel

/-- The extracted table is a bijection between the 256 bytes and 256 distinct code points
(complete finite check on the generated table itself). -/
theorem c27_source_table_bijective :
    Generated.BpeByteTable.byteToChar.map (·.1) = List.range 256 ∧
    (Generated.BpeByteTable.byteToChar.map (·.2)).Nodup := by
  decide +kernel

/-! ### `String::from_utf8`: the round trip on texts -/

/-- **C27 (round trip, with UTF-8 validation).**  For every text given by its Unicode scalar
values `cps` (so: every valid UTF-8 string, control characters, combining marks, astral
characters, special-token text included), every vocabulary with distinct ids, every merge list
`Bpe::new` accepts, no end-of-word suffix, added tokens not reusing vocabulary ids, and every
lossless pre-tokenizer output on the text's bytes: `decode(encode(text))` — the token loop
followed by `String::from_utf8` — returns exactly the text's bytes. -/
theorem c27_roundtrip_utf8 (vocab : List (Str × Nat)) (merges : List (Str × Str)) (ign : Bool)
    (added : List (Nat × List Nat)) (t : Bpe) (hnew : Bpe.new vocab merges none ign added = .ok t)
    (hnd : (vocab.map (·.2)).Nodup)
    (hadd : ∀ id s, strOf vocab id = some s → added.lookup id = none)
    (cps : List Nat) (hs : ∀ c ∈ cps, Utf8.isScalar c = true) (pieces : List (Nat × Nat))
    (hl : Tiles pieces 0 (Utf8.encode cps).length) (ids offs : List Nat)
    (h : encode t (Utf8.encode cps).length (Utf8.encode cps) none pieces = some (ids, offs)) :
    decode t ids = .ok (Utf8.encode cps) := by
  have hd := c27_text_roundtrip vocab merges ign added t hnew hnd hadd (Utf8.encode cps)
    (Utf8.encode_lt cps hs) pieces hl ids offs h
  simp [decode, hd, Utf8.valid_encode cps hs]

/-- Decoding a *prefix* of the tokens (streaming) either yields bytes or reports invalid UTF-8;
it never fails with an unknown id or a panic: every id `encode` produces has a token string
that maps back to bytes. -/
theorem c27_decode_prefix_total (vocab : List (Str × Nat)) (merges : List (Str × Str)) (ign : Bool)
    (added : List (Nat × List Nat)) (t : Bpe) (hnew : Bpe.new vocab merges none ign added = .ok t)
    (hnd : (vocab.map (·.2)).Nodup)
    (hadd : ∀ id s, strOf vocab id = some s → added.lookup id = none)
    (piece : List Nat) (hb : ∀ b ∈ piece, b < 256) (k : Nat) :
    ∃ bs, decodeIds t ((encodePiece t piece true).take k) = .ok bs := by
  obtain ⟨hv, _, _, ha, _, _⟩ := new_ok_spec _ _ _ _ _ _ hnew
  have hcat := encodePiece_cat vocab merges ign added t hnew hnd piece hb true
  have hdec := decodeStr_map_byteToChar piece hb
  -- split the token list and its concatenated string at `k`
  have key : ∀ (toks : List Nat) (enc : Str) (bs : List Nat) (k : Nat),
      cat t.vocab toks = some enc → decodeStr enc = some bs →
      ∃ bs', decodeIds t (toks.take k) = .ok bs' := by
    intro toks
    induction toks with
    | nil => intro enc bs k _ _; exact ⟨[], by simp [decodeIds]⟩
    | cons id rest ih =>
      intro enc bs k hc hd
      cases k with
      | zero => exact ⟨[], by simp [decodeIds]⟩
      | succ k =>
        obtain ⟨s, r, hs, hr, rfl⟩ := cat_cons_some _ id rest enc hc
        obtain ⟨x, y, hx, hy, rfl⟩ := decodeStr_append_inv s r bs hd
        obtain ⟨bs', hbs'⟩ := ih r y k hr hy
        refine ⟨x ++ bs', ?_⟩
        have hl : t.added.lookup id = none := by rw [ha]; exact hadd id s (by rw [← hv]; exact hs)
        simp only [List.take_succ_cons, decodeIds, decodeOne, hl, hs, hx, hbs']
  exact key _ _ _ k hcat hdec

/-! ### The offsets partition the input -/

theorem tiles_bounds : ∀ (pieces : List (Nat × Nat)) (a len : Nat), Tiles pieces a len →
    a ≤ len ∧ (pieces.map (·.1)).Pairwise (· ≤ ·) ∧ ∀ p ∈ pieces, a ≤ p.1 ∧ p.1 ≤ p.2 ∧ p.2 ≤ len := by
  intro pieces
  induction pieces with
  | nil => intro a len h; simp only [Tiles] at h; subst h; simp
  | cons p rest ih =>
    intro a len h
    obtain ⟨s, e⟩ := p
    simp only [Tiles] at h
    obtain ⟨rfl, hse, hr⟩ := h
    obtain ⟨h1, h2, h3⟩ := ih e len hr
    refine ⟨by omega, ?_, ?_⟩
    · rw [List.map_cons, List.pairwise_cons]
      refine ⟨?_, h2⟩
      intro x hx
      rw [List.mem_map] at hx
      obtain ⟨p, hp, rfl⟩ := hx
      have := h3 p hp; omega
    · intro p hp
      rcases List.mem_cons.mp hp with rfl | hp
      · exact ⟨Nat.le_refl _, hse, h1⟩
      · have := h3 p hp; omega

theorem encodePiece_ne_nil (vocab : List (Str × Nat)) (merges : List (Str × Str)) (ign : Bool)
    (added : List (Nat × List Nat)) (t : Bpe) (hnew : Bpe.new vocab merges none ign added = .ok t)
    (hnd : (vocab.map (·.2)).Nodup) (piece : List Nat) (hb : ∀ b ∈ piece, b < 256)
    (hne : piece ≠ []) : encodePiece t piece true ≠ [] := by
  intro h
  have hcat := encodePiece_cat vocab merges ign added t hnew hnd piece hb true
  rw [h] at hcat
  simp only [cat, Option.some.injEq] at hcat
  cases piece with
  | nil => exact hne rfl
  | cons b bs => simp at hcat

/-- The first reported offset is where the tiling starts. -/
theorem encodeStr_head (vocab : List (Str × Nat)) (merges : List (Str × Str)) (ign : Bool)
    (added : List (Nat × List Nat)) (t : Bpe) (hnew : Bpe.new vocab merges none ign added = .ok t)
    (hnd : (vocab.map (·.2)).Nodup) (text : List Nat) (hb : ∀ b ∈ text, b < 256) :
    ∀ (pieces : List (Nat × Nat)) (a : Nat) (toks offs : List Nat), Tiles pieces a text.length →
      encodeStr t text none 0 pieces = some (toks, offs) → toks ≠ [] → offs.head? = some a := by
  intro pieces
  induction pieces with
  | nil =>
    intro a toks offs _ h hne
    simp only [encodeStr, Option.some.injEq, Prod.mk.injEq] at h
    exact absurd h.1.symm hne
  | cons p rest ih =>
    intro a toks offs ht h hne
    obtain ⟨s, e⟩ := p
    have hbnd := tiles_bounds _ _ _ ht
    simp only [Tiles] at ht
    obtain ⟨rfl, hse, hrest⟩ := ht
    simp only [encodeStr] at h
    split at h
    · rename_i o ts os ho hr
      simp only [Option.some.injEq, Prod.mk.injEq] at h
      obtain ⟨rfl, rfl⟩ := h
      by_cases hlt : s < e
      · have hele : e ≤ text.length := (hbnd.2.2 (s, e) (by simp)).2.2
        have hsl : slice text s e ≠ [] := by
          intro hnil
          have : (slice text s e).length = 0 := by rw [hnil]; rfl
          simp [slice] at this; omega
        have hpne := encodePiece_ne_nil vocab merges ign added t hnew hnd (slice text s e)
          (fun b hb' => hb b (mem_slice text s e b hb')) hsl
        simp only [hlt, if_true] at ho ⊢
        cases hp : encodePiece t (slice text s e) true with
        | nil => exact absurd hp hpne
        | cons x xs =>
          rw [hp] at ho
          simp only [List.isEmpty_cons, Bool.false_eq_true, if_false, mapOffset,
            Option.some.injEq] at ho
          simp [← ho]
      · have hes : s = e := by omega
        subst hes
        simp only [hlt, if_false, List.nil_append, List.map_nil] at hne ⊢
        exact ih s ts os hrest hr hne
    · simp at h

/-- **C27.T3 (partition).**  Lossless pre-tokenizer whose chunks start on char boundaries (they
are `&str` sub-slices; the harness re-checks it), no normalizer, at least one token: the
reported `token_offsets` start at 0, are non-decreasing chunk starts within the text, end with
`text.len()` and **all lie on char boundaries of the input**; every
`text_for_token_range(i..i+1)` (`str::get`) exists and the slices, in order, concatenate to the
whole input — the offsets partition the input.  (For the empty text, or when every chunk is
empty, `encode` returns no tokens and no offsets: `c27_encode_no_tokens`.) -/
theorem c27_offsets_partition (vocab : List (Str × Nat)) (merges : List (Str × Str)) (ign : Bool)
    (added : List (Nat × List Nat)) (t : Bpe) (hnew : Bpe.new vocab merges none ign added = .ok t)
    (hnd : (vocab.map (·.2)).Nodup) (text : List Nat) (hb : ∀ b ∈ text, b < 256)
    (pieces : List (Nat × Nat)) (hl : Tiles pieces 0 text.length)
    (hpbd : ∀ p ∈ pieces, Utf8.isBoundary text p.1 = true) (ids offs : List Nat)
    (h : encode t text.length text none pieces = some (ids, offs)) (hne : ids ≠ []) :
    offs.head? = some 0 ∧ offs.getLast? = some text.length ∧ offs.Pairwise (· ≤ ·) ∧
    offs.length = ids.length + 1 ∧ (∀ o ∈ offs, Utf8.isBoundary text o = true) ∧
    ∃ segs : List (List Nat), tokenTexts text offs = segs.map some ∧ segs.flatten = text := by
  unfold encode at h
  split at h
  · simp at h
  · rename_i toks os hs
    split at h
    · rename_i hem
      simp only [Option.some.injEq, Prod.mk.injEq] at h
      exact absurd h.1.symm hne
    · simp only [Option.some.injEq, Prod.mk.injEq] at h
      obtain ⟨rfl, rfl⟩ := h
      obtain ⟨hlen, hmem, hmono⟩ := c27_offsets t text none pieces toks os hs
      obtain ⟨_, hstarts, hpb⟩ := tiles_bounds pieces 0 text.length hl
      have hpw := hmono hstarts mapMono_none
      have hhead := encodeStr_head vocab merges ign added t hnew hnd text hb pieces 0 toks os hl hs hne
      have hle : ∀ x ∈ os, x ≤ text.length := by
        intro x hx
        obtain ⟨p, hp, _, hmo⟩ := hmem x hx
        simp only [mapOffset, Option.some.injEq] at hmo
        have := hpb p hp; omega
      cases os with
      | nil => simp at hhead
      | cons o0 rest =>
        simp only [List.head?_cons, Option.some.injEq] at hhead
        subst hhead
        have hbd : ∀ x ∈ 0 :: rest, Utf8.isBoundary text x = true := by
          intro x hx
          obtain ⟨p, hp, _, hmo⟩ := hmem x hx
          simp only [mapOffset, Option.some.injEq] at hmo
          rw [← hmo]; exact hpbd p hp
        obtain ⟨segs, h1, h2⟩ := c27_slices text 0 rest hpw hle hbd
        refine ⟨by simp, List.getLast?_concat, ?_, by simp [← hlen], ?_, segs, h1,
          by simpa using h2⟩
        · rw [List.pairwise_append]
          refine ⟨hpw, by simp, ?_⟩
          intro a ha b hb'
          simp only [List.mem_singleton] at hb'
          rw [hb']; exact hle a ha
        · intro o ho
          rcases List.mem_append.mp ho with ho | ho
          · exact hbd o ho
          · simp only [List.mem_singleton] at ho; rw [ho]; exact isBoundary_length text

/-- The complementary case of `c27_offsets_partition`: no tokens ⇒ no offsets (in particular for
the empty text, whose only tilings consist of empty chunks). -/
theorem c27_encode_no_tokens (t : Bpe) (srcLen : Nat) (text : List Nat) (map : Option (List Nat))
    (pieces : List (Nat × Nat)) (offs : List Nat)
    (h : encode t srcLen text map pieces = some ([], offs)) : offs = [] := by
  unfold encode at h
  split at h
  · simp at h
  · split at h
    · simp only [Option.some.injEq, Prod.mk.injEq] at h; exact h.2.symm
    · rename_i toks os _ hem
      simp only [Option.some.injEq, Prod.mk.injEq] at h
      rw [h.1] at hem; simp at hem

end RtenVerif.ByteBpe
