import RtenVerif.Props.C10Bcast

/-! # C10 — `Gather` with a vector index, `Concat` of any number of valued inputs, `Expand` -/
namespace RtenVerif.ShapeInfer

/-- **C10.T1-gather (vector index)**: a valued vector gathered with a constant index vector. -/
theorem c10_gather_vector_sound (σ : Env) (es : List Sym) (vs : List Int) :
    ∀ (idxs : List Int) (r : STn) (w : List Int),
    evalList σ es = some vs → gatherValues es false idxs = .ok r → cgather vs idxs = some w →
    Agrees σ r (.vector w) := by
  intro idxs r w hev hi he
  have hlen := evalList_length σ es vs hev
  simp only [gatherValues, Bool.false_eq_true, if_false] at hi
  have key : ∀ (idxs : List Int) (out : List Sym) (w : List Int),
      mapO (gatherGet es) idxs = some out → cgather vs idxs = some w → evalList σ out = some w := by
    intro idxs
    induction idxs with
    | nil => intro out w h1 h2; simp only [mapO] at h1; cases h1; simp only [cgather, mapO] at h2; cases h2; rfl
    | cons i is ih =>
      intro out w h1 h2
      simp only [mapO] at h1
      simp only [cgather, mapO] at h2
      cases hg : gatherGet es i with
      | none => simp [hg] at h1
      | some e =>
        simp only [hg] at h1
        cases hrest : mapO (gatherGet es) is with
        | none => simp [hrest] at h1
        | some os =>
          simp only [hrest] at h1; cases h1
          -- the symbolic element and the executed element sit at the same resolved index
          unfold gatherGet at hg
          cases hk : resolveIndex es.length i with
          | none => simp [hk] at hg
          | some k =>
            simp only [hk, Option.bind_some] at hg
            obtain ⟨v, hv, hee⟩ := evalList_getElem σ es vs k e hev hg
            rw [← hlen] at h2
            simp only [hk, Option.bind_some, hv] at h2
            cases hw : mapO (fun i => (resolveIndex es.length i).bind fun k => vs[k]?) is with
            | none => simp [hw] at h2
            | some ws =>
              simp only [hw] at h2; cases h2
              exact evalList_cons_intro σ e os v ws hee
                (ih os ws hrest (by simp only [cgather]; rw [← hlen]; exact hw))
  cases hm : mapO (gatherGet es) idxs with
  | none => simp [hm] at hi
  | some out =>
    simp only [hm] at hi; cases hi
    exact ⟨w, rfl, key idxs out w hm he⟩

/-! ## `Concat` of n valued inputs -/

/-- Pointwise agreement of a list of inferred tensors with a list of executed tensors. -/
inductive AgreesL (σ : Env) : List STn → List CT → Prop
  | nil : AgreesL σ [] []
  | cons {t c ts cs} : Agrees σ t c → AgreesL σ ts cs → AgreesL σ (t :: ts) (c :: cs)

theorem values_agree (σ : Env) (t : STn) (c : CT) (es : List Sym) (vs : List Int)
    (hag : Agrees σ t c) (hes : t.values = some es) (hv : c.values = some vs) : evalList σ es = some vs := by
  cases t with
  | scalar e =>
    obtain ⟨v, rfl, hev⟩ := hag
    simp only [STn.values] at hes; cases hes
    simp only [CT.values] at hv; cases hv
    simp [evalList, mapO, hev]
  | vector es' =>
    obtain ⟨vs', rfl, hev⟩ := hag
    simp only [STn.values] at hes; cases hes
    simp only [CT.values] at hv; cases hv
    exact hev
  | shape ds => simp [STn.values] at hes
  | unknown => simp [STn.values] at hes

/-- **C10.T1-concat (n inputs)**: by induction over the input list. -/
theorem c10_concat_sound (σ : Env) : ∀ (ts : List STn) (cs : List CT) (r : STn) (cr : CT),
    AgreesL σ ts cs → concatValues ts = some r → cconcat cs = some cr → Agrees σ r cr := by
  have key : ∀ (ts : List STn) (cs : List CT) (ess : List (List Sym)) (vss : List (List Int)),
      AgreesL σ ts cs → mapO STn.values ts = some ess → mapO CT.values cs = some vss →
      evalList σ ess.flatten = some vss.flatten := by
    intro ts cs ess vss hag
    induction hag generalizing ess vss with
    | nil => intro h1 h2; simp only [mapO] at h1 h2; cases h1; cases h2; rfl
    | @cons t c ts cs ht _ ih =>
      intro h1 h2
      simp only [mapO] at h1 h2
      cases htv : t.values with
      | none => simp [htv] at h1
      | some es =>
        simp only [htv] at h1
        cases hts : mapO STn.values ts with
        | none => simp [hts] at h1
        | some ess' =>
          simp only [hts] at h1; cases h1
          cases hcv : c.values with
          | none => simp [hcv] at h2
          | some vs =>
            simp only [hcv] at h2
            cases hcs : mapO CT.values cs with
            | none => simp [hcs] at h2
            | some vss' =>
              simp only [hcs] at h2; cases h2
              simpa using evalList_append σ es ess'.flatten vs vss'.flatten
                (values_agree σ t c es vs ht htv hcv) (ih ess' vss' hts hcs)
  intro ts cs r cr hag hi he
  simp only [concatValues] at hi
  simp only [cconcat] at he
  cases h1 : mapO STn.values ts with
  | none => simp [h1] at hi
  | some ess =>
    simp only [h1, Option.map_some] at hi; cases hi
    cases h2 : mapO CT.values cs with
    | none => simp [h2] at he
    | some vss =>
      simp only [h2, Option.map_some] at he; cases he
      exact ⟨_, rfl, key ts cs ess vss hag h1 h2⟩

/-! ## `Expand` with a valued target shape = `BinaryOp` against that shape -/

/-- **C10.T1-expand**: the inferred dimensions evaluate to the NumPy
broadcast of the executed data shape with the instantiated target (which is what `Expand` produces). -/
theorem c10_expand_sound (σ : Env) (data : STn) (cd : CT) (ad sizes out : List Sym) (vsz zs : List Int)
    (hd : Agrees σ data cd) (had : data.dims = some ad) (hs : evalList σ sizes = some vsz)
    (hi : expandInfer data sizes = .ok (.shape out)) (he : cbroadcast cd.dims vsz = some zs) :
    Agrees σ (.shape out) (.shaped zs) :=
  c10_binaryShape_sound σ data (.shape sizes) cd (.shaped vsz) ad sizes out zs hd hs had rfl hi he

/-- Satisfiability of the hypotheses of `c10_gather_vector_sound`, `c10_concat_sound`, `c10_bdim_sound`
and `c10_binaryShape_sound` on concrete instances. -/
example : (gatherValues [.var "n" true, .val 4, .val 7] false [-1, 0]).toOption = some (.vector [.val 7, .var "n" true]) ∧
    cgather [3, 4, 7] [-1, 0] = some [7, 3] := by decide

example : concatValues [.vector [.var "n" true], .scalar (.val 2), .vector []] = some (.vector [.var "n" true, .val 2]) ∧
    cconcat [.vector [3], .scalar 2, .vector []] = some (.vector [3, 2]) := by decide

example : (bdim (.var "a" true) (.val 5)).toOption = some (.val 5) ∧ cb 1 5 = some 5 ∧ cb 5 5 = some 5 ∧
    (binaryShape (.shape [.var "a" true, .val 1]) (.shape [.val 3])).toOption = some (.shape [.var "a" true, .val 3]) ∧
    cbroadcast [2, 1] [3] = some [2, 3] := by decide

end RtenVerif.ShapeInfer
