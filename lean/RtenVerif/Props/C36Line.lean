import RtenVerif.Lemmas.Bresenham
import RtenVerif.Props.C36
import RtenVerif.Model.FillIter

/-!
# C36.T2 — Bresenham stays in the bounding box of its endpoints (general), `draw_line` of
width 1 never panics on a non-empty image and only writes inside the box of the clamped
endpoints
-/
namespace RtenVerif.Contours

theorem bresenham_pos (s e : Pt) :
    ∀ p ∈ bresenham s e,
      Pos s (sgn (e.2 - s.2)) (sgn (e.1 - s.1)) (iabs (e.2 - s.2)) (iabs (e.1 - s.1)) p := by
  intro p hp
  unfold bresenham at hp
  have hax : 0 ≤ iabs (e.2 - s.2) := by unfold iabs; split <;> omega
  have hay : 0 ≤ iabs (e.1 - s.1) := by unfold iabs; split <;> omega
  have hsx : sgn (e.2 - s.2) = 0 ↔ iabs (e.2 - s.2) = 0 := by
    unfold sgn iabs; constructor <;> intro h <;> (repeat' split at h) <;> (repeat' split) <;> omega
  have hsy : sgn (e.1 - s.1) = 0 ↔ iabs (e.1 - s.1) = 0 := by
    unfold sgn iabs; constructor <;> intro h <;> (repeat' split at h) <;> (repeat' split) <;> omega
  have hrem : ((Bres.new s e).remaining : Int) =
      if iabs (e.2 - s.2) ≥ iabs (e.1 - s.1) then iabs (e.2 - s.2) else iabs (e.1 - s.1) := by
    simp only [Bres.new]
    split <;> omega
  by_cases hx0 : sgn (e.2 - s.2) = 0
  · -- vertical
    have hdx0 := hsx.mp hx0
    rw [hx0, hdx0]
    refine run_vertical s _ 0 _ (le_refl _) _ (Bres.new s e) 0 (by simpa [Bres.new] using hx0) rfl
      (by simp [Bres.new]) (le_refl _) ?_ p hp
    rw [hrem, hdx0]; split <;> omega
  · by_cases hy0 : sgn (e.1 - s.1) = 0
    · have hdy0 := hsy.mp hy0
      rw [hy0, hdy0]
      refine run_horizontal s _ _ 0 hx0 (le_refl _) _ (Bres.new s e) 0 rfl
        (by simpa [Bres.new] using hy0) (by simp [Bres.new]) (le_refl _) ?_ p hp
      rw [hrem, hdy0]; split <;> omega
    · have hdxpos : 0 < iabs (e.2 - s.2) := by
        have := mt hsx.mpr hx0; omega
      by_cases hmaj : iabs (e.2 - s.2) ≥ iabs (e.1 - s.1)
      · refine run_xmajor s _ _ _ _ hx0 hy0 hmaj hdxpos hay _ (Bres.new s e) 0 0 rfl rfl
          (by simp [Bres.new]; ring) (by simp [Bres.new]; ring) (by simp [Bres.new]) ?_
          (le_refl _) ?_ (le_refl _) hay p hp
        · simp only [Bres.new, if_pos hmaj]; ring
        · rw [hrem, if_pos hmaj]; omega
      · refine run_ymajor s _ _ _ _ hx0 hy0 hmaj hax _ (Bres.new s e) 0 0 rfl rfl
          (by simp [Bres.new]; ring) (by simp [Bres.new]; ring) (by simp [Bres.new]) ?_
          (le_refl _) ?_ (le_refl _) hax p hp
        · simp only [Bres.new, if_neg hmaj]; ring
        · rw [hrem, if_neg hmaj]; omega

theorem axis_bound (a b k : Int) (h0 : 0 ≤ k) (h1 : k ≤ iabs (b - a)) :
    min a b ≤ a + k * sgn (b - a) ∧ a + k * sgn (b - a) ≤ max a b := by
  rcases lt_trichotomy (b - a) 0 with h | h | h
  · have e1 : sgn (b - a) = -1 := by unfold sgn; rw [if_neg (by omega), if_pos h]
    have e2 : iabs (b - a) = -(b - a) := by unfold iabs; rw [if_pos h]
    rw [e1]; rw [e2] at h1
    simp only [Int.min_def, Int.max_def]
    constructor <;> split <;> omega
  · have e1 : sgn (b - a) = 0 := by unfold sgn; rw [if_neg (by omega), if_neg (by omega)]
    rw [e1]
    simp only [Int.min_def, Int.max_def]
    constructor <;> split <;> omega
  · have e1 : sgn (b - a) = 1 := by unfold sgn; rw [if_pos h]
    have e2 : iabs (b - a) = b - a := by unfold iabs; rw [if_neg (by omega)]
    rw [e1]; rw [e2] at h1
    simp only [Int.min_def, Int.max_def]
    constructor <;> split <;> omega

/-- **C36.T2b (general)** Every point `BreshamPoints` yields lies in the bounding box of the two
endpoints — for all endpoints (replaces the bounded check over `[0,4]²`). -/
theorem c36_bresenham_bbox (s e : Pt) :
    ∀ p ∈ bresenham s e, min s.1 e.1 ≤ p.1 ∧ p.1 ≤ max s.1 e.1 ∧
      min s.2 e.2 ≤ p.2 ∧ p.2 ≤ max s.2 e.2 := by
  intro p hp
  obtain ⟨kx, ky, rfl, h1, h2, h3, h4⟩ := bresenham_pos s e p hp
  obtain ⟨a1, a2⟩ := axis_bound s.1 e.1 ky h3 h4
  obtain ⟨b1, b2⟩ := axis_bound s.2 e.2 kx h1 h2
  exact ⟨a1, a2, b1, b2⟩

/-- **C36.T2d** `draw_line` with width 1 on a non-empty image never panics and only writes
pixels of the bounding box of the *clamped* endpoints (which lies inside the image) — for any
endpoints, inside or outside the image.  This uses the clamp (`c36_clamp_in_image`) and the
Bresenham invariant; it is not a consequence of the checked-write guard. -/
theorem c36_drawLine1_no_panic (h w : Int) (s e : Pt) (hh : 0 < h) (hw : 0 < w) :
    (drawLine1 h w s e).2 = false ∧
    (drawLine1 h w s e).1 = bresenham (clampToBounds s h w) (clampToBounds e h w) ∧
    ∀ p ∈ (drawLine1 h w s e).1,
      min (clampToBounds s h w).1 (clampToBounds e h w).1 ≤ p.1 ∧
      p.1 ≤ max (clampToBounds s h w).1 (clampToBounds e h w).1 ∧
      min (clampToBounds s h w).2 (clampToBounds e h w).2 ≤ p.2 ∧
      p.2 ≤ max (clampToBounds s h w).2 (clampToBounds e h w).2 := by
  have hs := c36_clamp_in_image h w s hh hw
  have he := c36_clamp_in_image h w e hh hw
  simp only [inImage, decide_eq_true_eq] at hs he
  have hall : ∀ p ∈ bresenham (clampToBounds s h w) (clampToBounds e h w), inImage h w p = true := by
    intro p hp
    have := c36_bresenham_bbox _ _ p hp
    simp only [inImage, decide_eq_true_eq]
    simp only [Int.min_def, Int.max_def] at this
    obtain ⟨c1, c2, c3, c4⟩ := this
    refine ⟨?_, ?_, ?_, ?_⟩ <;> (repeat' split at *) <;> omega
  obtain ⟨_, w2, w3⟩ := writeAll_spec h w (bresenham (clampToBounds s h w) (clampToBounds e h w))
  have hnp : (drawLine1 h w s e).2 = false := w2.mpr hall
  refine ⟨hnp, w3 hnp, ?_⟩
  intro p hp
  have hp' : p ∈ bresenham (clampToBounds s h w) (clampToBounds e h w) := by
    have := w3 hnp
    unfold drawLine1 at hp
    rw [this] at hp; exact hp
  exact c36_bresenham_bbox _ _ p hp'

/-- **C36.T4f** `draw_polygon` with width 1 on a non-empty image never panics, for any vertices. -/
theorem c36_drawPolygon1_no_panic (h w : Int) (es : List (Pt × Pt)) (hh : 0 < h) (hw : 0 < w) :
    (drawPolygon1 h w es).2 = false := by
  induction es with
  | nil => rfl
  | cons e es ih =>
    simp only [drawPolygon1]
    rw [(c36_drawLine1_no_panic h w e.1 e.2 hh hw).1]
    simpa using ih

/-- External mode on a mask with more than one pixel per component: `visit` at the raster-first
pixel of the L-shaped component goes through `follow` (hypotheses of
`c36_visit_starts_contour_external`: value 1, background to the left, `last_nonzero = 0`). -/
example : findContours 2 3 [false, true, true, false, true, false] true =
    .ok [[(0, 1), (1, 1), (0, 2)]] := by decide +kernel

/-- Non-vacuity: a line from far outside the image on both sides. -/
example : drawLine1 4 6 (-7, -3) (9, 20) = ([(0, 0), (1, 1), (1, 2), (2, 3), (2, 4)], false) := by
  decide

end RtenVerif.Contours
