import RtenVerif.Props.C27
import RtenVerif.Model.PreSplit

/-!
# C27 — when is `Split` lossless?

The round-trip theorems of `Props/C27.lean` assume that the pre-tokenizer's chunks partition the
input (`Tiles chunks 0 len`: every byte covered, in order, no gaps, no overlap).  Here `Split` is
modelled over the regex match list and that hypothesis is characterised:
* `Isolate` always yields a partition;
* `invert = true`, `Remove` (what `Split::gpt2()` / `ByteLevel` use) yields a partition **iff**
  the matches cover the text without gaps (`noGaps`) — so the GPT-2 regex must match every
  character; the harness checks this on the real pre-tokenizers for chars of every category.
-/
namespace RtenVerif.PreSplit
open RtenVerif.ByteBpe (Tiles)

theorem ordered_le : ∀ (ms : List (Nat × Nat)) (last len : Nat), Ordered ms last len → last ≤ len := by
  intro ms
  induction ms with
  | nil => intro last len h; exact h
  | cons m ms ih =>
    intro last len h
    obtain ⟨s, e⟩ := m
    simp only [Ordered] at h
    have := ih e len h.2.2; omega

/-- Every chunk starts at or after `last`. -/
theorem splitInvert_ge (iso : Bool) (len : Nat) : ∀ (ms : List (Nat × Nat)) (last : Nat),
    Ordered ms last len → ∀ c ∈ splitInvert iso len ms last, last ≤ c.1 := by
  intro ms
  induction ms with
  | nil =>
    intro last _ c hc
    simp only [splitInvert] at hc
    split at hc
    · simp at hc; subst hc; exact Nat.le_refl _
    · simp at hc
  | cons m ms ih =>
    intro last h c hc
    obtain ⟨s, e⟩ := m
    simp only [Ordered] at h
    simp only [splitInvert, List.mem_append] at hc
    rcases hc with (hc | hc) | hc
    · split at hc
      · simp at hc; subst hc; exact Nat.le_refl _
      · simp at hc
    · split at hc
      · simp at hc; subst hc; exact h.1
      · simp at hc
    · have := ih e h.2.2 c hc; omega

/-- **`Isolate` is always lossless**: for every ordered match list the chunks partition the text. -/
theorem split_isolate_tiles (len : Nat) : ∀ (ms : List (Nat × Nat)) (last : Nat),
    Ordered ms last len → Tiles (splitInvert true len ms last) last len := by
  intro ms
  induction ms with
  | nil =>
    intro last h
    simp only [Ordered] at h
    simp only [splitInvert, Bool.true_and, decide_eq_true_eq]
    split
    · exact ⟨rfl, by omega, rfl⟩
    · simp only [Tiles]; omega
  | cons m ms ih =>
    intro last h
    obtain ⟨s, e⟩ := m
    simp only [Ordered] at h
    obtain ⟨h1, h2, h3⟩ := h
    have hr := ih e h3
    simp only [splitInvert, Bool.true_and, decide_eq_true_eq]
    by_cases ha : last < s <;> by_cases hb : s < e
    · simp only [ha, hb, if_true, List.cons_append, List.nil_append, Tiles]
      exact ⟨trivial, by omega, trivial, by omega, hr⟩
    · have : s = e := by omega
      subst this
      simp only [ha, hb, if_true, if_false, List.cons_append, List.nil_append, Tiles]
      exact ⟨trivial, by omega, hr⟩
    · have : last = s := by omega
      subst this
      simp only [ha, hb, if_true, if_false, List.cons_append, List.nil_append, Tiles]
      exact ⟨trivial, by omega, hr⟩
    · have : last = s := by omega
      subst this
      have : last = e := by omega
      subst this
      simpa only [ha, hb, if_false, List.nil_append] using hr

/-- **`invert = true`, `Remove` (GPT-2 / ByteLevel) is lossless iff the matches cover the text.** -/
theorem split_remove_tiles_iff (len : Nat) : ∀ (ms : List (Nat × Nat)) (last : Nat),
    Ordered ms last len → (Tiles (splitInvert false len ms last) last len ↔ noGaps ms last len = true) := by
  intro ms
  induction ms with
  | nil =>
    intro last _
    simp [splitInvert, Tiles, noGaps]
  | cons m ms ih =>
    intro last h
    obtain ⟨s, e⟩ := m
    simp only [Ordered] at h
    obtain ⟨h1, h2, h3⟩ := h
    have hih := ih e h3
    simp only [splitInvert, Bool.false_and, Bool.false_eq_true, if_false, List.nil_append, noGaps,
      Bool.and_eq_true, beq_iff_eq]
    by_cases hb : s < e
    · simp only [hb, if_true, List.cons_append, List.nil_append, Tiles]
      constructor
      · rintro ⟨rfl, _, ht⟩; exact ⟨rfl, hih.mp ht⟩
      · rintro ⟨rfl, hn⟩; exact ⟨rfl, h2, hih.mpr hn⟩
    · have hse : s = e := by omega
      subst hse
      simp only [hb, if_false, List.nil_append]
      by_cases hl : s = last
      · subst hl
        constructor
        · intro ht; exact ⟨rfl, hih.mp ht⟩
        · rintro ⟨_, hn⟩; exact hih.mpr hn
      · constructor
        · intro ht
          exfalso
          have hlen := ordered_le ms s len h3
          cases hc : splitInvert false len ms s with
          | nil => rw [hc] at ht; simp only [Tiles] at ht; omega
          | cons c cs =>
            rw [hc] at ht
            obtain ⟨c1, c2⟩ := c
            simp only [Tiles] at ht
            have := splitInvert_ge false len ms s h3 (c1, c2) (by rw [hc]; simp)
            simp at this; omega
        · rintro ⟨hs, _⟩; exact absurd hs hl

/-- `regex.split` pieces (`invert = false`): the gaps between ordered matches are ordered too. -/
theorem gaps_ordered (len : Nat) : ∀ (ms : List (Nat × Nat)) (g last : Nat),
    Ordered ms g len → last ≤ g → Ordered (gaps len ms g) last len := by
  intro ms
  induction ms with
  | nil =>
    intro g last h hl
    simp only [Ordered] at h
    simp only [gaps, Ordered]
    exact ⟨hl, h, Nat.le_refl _⟩
  | cons m ms ih =>
    intro g last h hl
    obtain ⟨s, e⟩ := m
    simp only [Ordered] at h
    simp only [gaps, Ordered]
    exact ⟨hl, h.1, ih e s h.2.2 h.2.1⟩

/-- **`Split` with `Isolate` is lossless for both values of `invert`.** -/
theorem split_isolate_lossless (invert : Bool) (len : Nat) (ms : List (Nat × Nat))
    (h : Ordered ms 0 len) : Tiles (split invert true len ms) 0 len := by
  unfold split
  split
  · exact split_isolate_tiles len ms 0 h
  · exact split_isolate_tiles len _ 0 (gaps_ordered len ms 0 0 h (Nat.le_refl _))

/-- **`Split` with `Remove`**: lossless iff the chunk candidates (the matches for
`invert = true`, the text between the matches for `invert = false`) cover the text. -/
theorem split_remove_lossless_iff (invert : Bool) (len : Nat) (ms : List (Nat × Nat))
    (h : Ordered ms 0 len) :
    Tiles (split invert false len ms) 0 len ↔
      noGaps (if invert then ms else gaps len ms 0) 0 len = true := by
  unfold split
  cases invert with
  | true => simpa using split_remove_tiles_iff len ms 0 h
  | false =>
    simpa using split_remove_tiles_iff len _ 0 (gaps_ordered len ms 0 0 h (Nat.le_refl _))

/-- Every chunk starts at a match start, a match end, or 0 — so on a char boundary whenever the
regex matches do (chunks are `&str` slices in the code). -/
theorem splitInvert_starts (iso : Bool) (len : Nat) : ∀ (ms : List (Nat × Nat)) (last : Nat),
    ∀ c ∈ splitInvert iso len ms last, c.1 = last ∨ ∃ m ∈ ms, c.1 = m.1 ∨ c.1 = m.2 := by
  intro ms
  induction ms with
  | nil =>
    intro last c hc
    simp only [splitInvert] at hc
    split at hc
    · simp at hc; left; rw [hc]
    · simp at hc
  | cons m ms ih =>
    intro last c hc
    obtain ⟨s, e⟩ := m
    simp only [splitInvert, List.mem_append] at hc
    rcases hc with (hc | hc) | hc
    · split at hc
      · simp at hc; left; rw [hc]
      · simp at hc
    · split at hc
      · simp at hc; right; exact ⟨(s, e), by simp, Or.inl (by rw [hc])⟩
      · simp at hc
    · rcases ih e c hc with h | ⟨m, hm, h⟩
      · right; exact ⟨(s, e), by simp, Or.inr h⟩
      · right; exact ⟨m, List.mem_cons_of_mem _ hm, h⟩

/-- End to end for `Split { invert: true, Remove }` (`Split::gpt2()`): if the regex matches cover
the text, `decode(encode(text))` is the text (with `String::from_utf8` validation) for every
vocabulary / merge list as in T2. -/
theorem c27_split_remove_roundtrip (vocab : List (ByteBpe.Str × Nat))
    (merges : List (ByteBpe.Str × ByteBpe.Str)) (ign : Bool)
    (added : List (Nat × List Nat)) (t : ByteBpe.Bpe)
    (hnew : ByteBpe.Bpe.new vocab merges none ign added = .ok t)
    (hnd : (vocab.map (·.2)).Nodup)
    (hadd : ∀ id s, ByteBpe.strOf vocab id = some s → added.lookup id = none)
    (cps : List Nat) (hs : ∀ c ∈ cps, Utf8.isScalar c = true) (ms : List (Nat × Nat))
    (hord : Ordered ms 0 (Utf8.encode cps).length)
    (hcov : noGaps ms 0 (Utf8.encode cps).length = true) (ids offs : List Nat)
    (h : ByteBpe.encode t (Utf8.encode cps).length (Utf8.encode cps) none
      (split true false (Utf8.encode cps).length ms) = some (ids, offs)) :
    ByteBpe.decode t ids = .ok (Utf8.encode cps) := by
  refine ByteBpe.c27_roundtrip_utf8 vocab merges ign added t hnew hnd hadd cps hs _ ?_ ids offs h
  simp only [split, if_true]
  exact (split_remove_tiles_iff _ ms 0 hord).mpr hcov

/-- Non-vacuity and the failure mode of the seeded change: on "x²" (bytes `78 C2 B2`) a regex
that matches both chars covers the text and `Remove` partitions it; a regex that skips "²"
leaves a gap and the chunks no longer partition the input, while `Isolate` still does. -/
example : noGaps [(0, 1), (1, 3)] 0 3 = true ∧ split true false 3 [(0, 1), (1, 3)] = [(0, 1), (1, 3)] ∧
    noGaps [(0, 1)] 0 3 = false ∧ split true false 3 [(0, 1)] = [(0, 1)] ∧
    split true true 3 [(0, 1)] = [(0, 1), (1, 3)] ∧ split false false 3 [(1, 1)] = [(0, 1), (1, 3)] := by
  decide
example : Ordered [(0, 1), (1, 3)] 0 3 := by simp [Ordered]

end RtenVerif.PreSplit
