import RtenVerif.Lemmas.Overlap

/-!
# C08 — The overlap check never admits aliasing layouts

Property theorems over `RtenVerif.Model.Overlap` (model of
`rten-tensor/src/overlap.rs`).  `dims` is the list of `(size, stride)` pairs.
-/
namespace RtenVerif.Overlap

/-- **C08.T1** Soundness: whenever `may_have_internal_overlap` answers `false`, the map
from valid indices to storage offsets is injective — for every rank, every size and
every stride (unbounded `Nat`). -/
theorem c08_no_overlap_injective (dims : List (Nat × Nat)) (i j : List Nat)
    (hcheck : mayOverlap dims = false)
    (hi : ValidIdx dims i) (hj : ValidIdx dims j)
    (hoff : offset dims i = offset dims j) : i = j := by
  unfold mayOverlap at hcheck
  by_cases hz : dims.any (fun d => d.1 == 0) = true
  · -- an empty tensor has no valid index at all
    exfalso
    clear hcheck hoff hj
    induction hi with
    | nil => simp at hz
    | @cons size stride i0 ds is hlt _ ih =>
      simp only [List.any_cons, Bool.or_eq_true, beq_iff_eq] at hz
      rcases hz with h | h
      · omega
      · exact ih h
  · simp only [hz] at hcheck
    by_cases hc : isContiguous dims = true
    · rw [isContiguous_eq] at hc
      obtain ⟨p, hp⟩ := Option.isSome_iff_exists.mp hc
      exact (contig_inj dims p i hp hi).2 j hj hoff
    · simp only [hc] at hcheck
      obtain ⟨hmap, hA, hB, hv, hfin⟩ := mkQuads_spec dims i j hi hj
      apply hfin
      -- filter out size-1 dimensions and sort by the same key as the code
      let Q := mkQuads dims i j
      let F := Q.filter (fun q => q.size != 1)
      let le : Quad → Quad → Bool := fun x y => pairLe x.key y.key
      let S := isort le F
      have hperm : S.Perm F := isort_perm le F
      have hkeys : S.map Quad.key = sortedStrideShape dims := by
        have h1 : S.map Quad.key = isort pairLe (F.map Quad.key) :=
          map_isort Quad.key pairLe F
        rw [h1]
        unfold sortedStrideShape
        congr 1
        rw [← hmap]
        simp only [F, Q, List.filter_map, List.map_map]
        rfl
      have hsome : (stepsOver 0 (S.map Quad.key)).isSome := by
        rw [hkeys]
        cases hso : stepsOver 0 (sortedStrideShape dims) with
        | none => simp [hso] at hcheck
        | some _ => rfl
      have hvS : ∀ q ∈ S, q.a < q.size ∧ q.b < q.size := fun q hq =>
        hv q (List.mem_filter.mp (hperm.mem_iff.mp hq)).1
      obtain ⟨hFA, hFB⟩ := sum_filter_size Q hv
      have hsum : 0 + sumA S = 0 + sumB S := by
        rw [sumA_perm hperm, sumB_perm hperm, hFA, hFB, hA, hB, hoff]
      have hall := (stepsOver_inj S 0 0 0 hsome (Nat.le_refl _) (Nat.le_refl _) hvS hsum).2
      intro q hq
      by_cases h1 : q.size = 1
      · have := hv q hq
        omega
      · exact hall q (hperm.mem_iff.mpr (List.mem_filter.mpr ⟨hq, by simp [h1]⟩))

/-- Non-vacuity: a transposed, stepped 3×4 layout (strides 2 and 8) is accepted, it is not
contiguous, and it has non-trivial valid indices. -/
example : mayOverlap [(3, 2), (4, 8)] = false ∧ isContiguous [(3, 2), (4, 8)] = false ∧
    ValidIdx [(3, 2), (4, 8)] [2, 3] := by
  refine ⟨by decide, by decide, ?_⟩
  exact .cons (by omega) (.cons (by omega) .nil)

/-- The check is conservative, not complete (documented in the code): `[4,4]` with strides
`[3,4]` is injective but reported as possibly overlapping. -/
example : mayOverlap [(4, 3), (4, 4)] = true ∧ bruteInjective [(4, 3), (4, 4)] = true := by
  decide

/-- A genuinely overlapping (broadcast) layout is rejected. -/
example : mayOverlap [(5, 1), (5, 0)] = true := by decide

end RtenVerif.Overlap
