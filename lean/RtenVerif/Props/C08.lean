import RtenVerif.Lemmas.Overlap
import RtenVerif.Lemmas.OverlapCompleteOps
import RtenVerif.Lemmas.OverlapCompleteMerge
import RtenVerif.Model.TensorBounds

/-!
# C08 — The overlap check never admits aliasing layouts

Property theorems over `RtenVerif.Model.Overlap` (model of
`rten-tensor/src/overlap.rs`).  `dims` is the list of `(size, stride)` pairs.
-/
namespace RtenVerif.Overlap

/-- **C08.T1** Soundness: whenever `may_have_internal_overlap` answers `false`, the map
from valid indices to storage offsets is injective — for every rank, every size and
every stride (unbounded `Nat`). -/
theorem c08_no_overlap_injective (dims : List (Nat × Nat)) (i j : List Nat)
    (hcheck : mayOverlap dims = false)
    (hi : ValidIdx dims i) (hj : ValidIdx dims j)
    (hoff : offset dims i = offset dims j) : i = j := by
  unfold mayOverlap at hcheck
  by_cases hz : dims.any (fun d => d.1 == 0) = true
  · -- an empty tensor has no valid index at all
    exfalso
    clear hcheck hoff hj
    induction hi with
    | nil => simp at hz
    | @cons size stride i0 ds is hlt _ ih =>
      simp only [List.any_cons, Bool.or_eq_true, beq_iff_eq] at hz
      rcases hz with h | h
      · omega
      · exact ih h
  · simp only [hz] at hcheck
    by_cases hc : isContiguous dims = true
    · rw [isContiguous_eq] at hc
      obtain ⟨p, hp⟩ := Option.isSome_iff_exists.mp hc
      exact (contig_inj dims p i hp hi).2 j hj hoff
    · simp only [hc] at hcheck
      obtain ⟨hmap, hA, hB, hv, hfin⟩ := mkQuads_spec dims i j hi hj
      apply hfin
      -- filter out size-1 dimensions and sort by the same key as the code
      let Q := mkQuads dims i j
      let F := Q.filter (fun q => q.size != 1)
      let le : Quad → Quad → Bool := fun x y => pairLe x.key y.key
      let S := isort le F
      have hperm : S.Perm F := isort_perm le F
      have hkeys : S.map Quad.key = sortedStrideShape dims := by
        have h1 : S.map Quad.key = isort pairLe (F.map Quad.key) :=
          map_isort Quad.key pairLe F
        rw [h1]
        unfold sortedStrideShape
        congr 1
        rw [← hmap]
        simp only [F, Q, List.filter_map, List.map_map]
        rfl
      have hsome : (stepsOver 0 (S.map Quad.key)).isSome := by
        rw [hkeys]
        cases hso : stepsOver 0 (sortedStrideShape dims) with
        | none => simp [hso] at hcheck
        | some _ => rfl
      have hvS : ∀ q ∈ S, q.a < q.size ∧ q.b < q.size := fun q hq =>
        hv q (List.mem_filter.mp (hperm.mem_iff.mp hq)).1
      obtain ⟨hFA, hFB⟩ := sum_filter_size Q hv
      have hsum : 0 + sumA S = 0 + sumB S := by
        rw [sumA_perm hperm, sumB_perm hperm, hFA, hFB, hA, hB, hoff]
      have hall := (stepsOver_inj S 0 0 0 hsome (Nat.le_refl _) (Nat.le_refl _) hvS hsum).2
      intro q hq
      by_cases h1 : q.size = 1
      · have := hv q hq
        omega
      · exact hall q (hperm.mem_iff.mpr (List.mem_filter.mpr ⟨hq, by simp [h1]⟩))

/-- Non-vacuity: a transposed, stepped 3×4 layout (strides 2 and 8) is accepted, it is not
contiguous, and it has non-trivial valid indices. -/
example : mayOverlap [(3, 2), (4, 8)] = false ∧ isContiguous [(3, 2), (4, 8)] = false ∧
    ValidIdx [(3, 2), (4, 8)] [2, 3] := by
  refine ⟨by decide, by decide, ?_⟩
  exact .cons (by omega) (.cons (by omega) .nil)

/-- The check is conservative, not complete (documented in the code): `[4,4]` with strides
`[3,4]` is injective but reported as possibly overlapping. -/
example : mayOverlap [(4, 3), (4, 4)] = true ∧ bruteInjective [(4, 3), (4, 4)] = true := by
  decide

/-- A genuinely overlapping (broadcast) layout is rejected. -/
example : mayOverlap [(5, 1), (5, 0)] = true := by decide

/-! ## C08.T2 — completeness on the advertised class

"Layouts obtained by slicing, permuting or reshaping a contiguous layout are always
accepted."  Vocabulary (`Lemmas/OverlapComplete*.lean`): `keys dims` are the `(stride, size)`
pairs of the non-unit dims in their original order, `span (stride, size) = (size-1)*stride`,
`Passes m L` = the `stepsOver` loop started at `m` does not report overlap,
`NoZero dims` = no empty dim, `StepsOverSorted dims` = the code's sorted check passes,
`DomChain dims` = *some* ordering of `keys dims` passes. -/

/-- **C08.T2a** (code paths) For a layout with no empty dim, acceptance is exactly: contiguous
fast path or the sorted check passes. -/
theorem c08_accept_iff (dims : List (Nat × Nat)) (hz : NoZero dims) :
    mayOverlap dims = false ↔ isContiguous dims = true ∨ StepsOverSorted dims :=
  mayOverlap_false_iff hz

/-- **C08.T2a** (semantic lemma, exchange argument) The code's *sorted* check passes iff the
non-unit `(stride, size)` pairs can be put in SOME order in which every stride exceeds the
total span `Σ (size_j - 1) * stride_j` of the pairs before it.  (In a passing order the
strides are strictly increasing, so it is the sorted order.) -/
theorem c08_sorted_iff_dominance_chain (dims : List (Nat × Nat)) (hz : NoZero dims) :
    StepsOverSorted dims ↔
      ∃ L, L.Perm (keys dims) ∧ ∀ L1 x L2, L = L1 ++ x :: L2 → spanSum L1 < x.1 := by
  rw [stepsOverSorted_iff_domChain hz]
  unfold DomChain
  constructor
  · rintro ⟨L, hp, h⟩
    refine ⟨L, hp, fun L1 x L2 hL => ?_⟩
    simpa using (passes_iff_dominates L 0).mp h L1 x L2 hL
  · rintro ⟨L, hp, h⟩
    refine ⟨L, hp, (passes_iff_dominates L 0).mpr (fun L1 x L2 hL => ?_)⟩
    simpa using h L1 x L2 hL

/-- **C08.T2a** Acceptance, independent of the sort, the fast path and the dimension order:
a layout is accepted iff it is empty or its non-unit dims form a dominance chain in some
order.  No hypothesis. -/
theorem c08_accept_iff_domChain (dims : List (Nat × Nat)) :
    mayOverlap dims = false ↔ ¬ NoZero dims ∨ DomChain dims :=
  accepted_iff dims

/-- **C08.T2a** The verdict is invariant under any permutation of the dimensions
(`permuted`, `transposed`, `move_axis`).  No hypothesis; note that the contiguous fast path
alone is *not* permutation invariant. -/
theorem c08_accept_perm (dims dims' : List (Nat × Nat)) (h : dims.Perm dims') :
    mayOverlap dims = mayOverlap dims' :=
  accept_perm h

/-- Non-vacuity: the row-major 4×5×6 layout and its axis reversal get the same verdict although
only the first takes the fast path; the sorted check on the second really runs. -/
example : [(6, 1), (5, 6), (4, 30)].Perm [(4, 30), (5, 6), (6, 1)] ∧
    isContiguous [(4, 30), (5, 6), (6, 1)] = true ∧
    isContiguous [(6, 1), (5, 6), (4, 30)] = false ∧
    mayOverlap [(6, 1), (5, 6), (4, 30)] = false ∧
    NoZero [(6, 1), (5, 6), (4, 30)] ∧
    StepsOverSorted [(6, 1), (5, 6), (4, 30)] := by
  refine ⟨?_, by decide, by decide, by decide, by decide, ?_⟩
  · exact List.reverse_perm [(4, 30), (5, 6), (6, 1)]
  · show (stepsOver 0 (sortedStrideShape [(6, 1), (5, 6), (4, 30)])).isSome = true
    decide

/-- Non-vacuity of the permutation theorem on the rejecting side (a broadcast layout stays
rejected in any order). -/
example : mayOverlap [(5, 0), (5, 1)] = true ∧ mayOverlap [(5, 1), (5, 0)] = true := by decide

/-- **C08.T2b** Contiguous layouts are accepted (fast path; empty ones by the first test). -/
theorem c08_contig_accepted (dims : List (Nat × Nat)) (hc : isContiguous dims = true) :
    mayOverlap dims = false := by
  simp [mayOverlap, hc]

/-- **C08.T2b** … and they satisfy the dominance chain, innermost dimension first: every
non-unit stride is one more than the total span of the dimensions inside it, so the
operation theorems below apply to contiguous layouts too. -/
theorem c08_contig_dominance (pre post : List (Nat × Nat)) (size stride : Nat)
    (hz : NoZero (pre ++ (size, stride) :: post))
    (hc : isContiguous (pre ++ (size, stride) :: post) = true) (h1 : size ≠ 1) :
    stride = 1 + spanSum (keys post) ∧ DomChain (pre ++ (size, stride) :: post) :=
  ⟨contig_stride_eq hz hc h1, contig_domChain hz hc⟩

example : NoZero ([(4, 30)] ++ (5, 6) :: [(6, 1)]) ∧
    isContiguous ([(4, 30)] ++ (5, 6) :: [(6, 1)]) = true ∧ (5 : Nat) ≠ 1 ∧
    1 + spanSum (keys [(6, 1)]) = 6 := by decide

/-- **C08.T2c** Slicing one dimension with a positive step (`slice`, `slice_axis`; what
`slice_layout` computes: new stride `stride * step`, new size `size'` with the last selected
element `(size' - 1) * step` still inside the old dimension, or an empty result) keeps the
layout accepted.  Hypotheses are exactly `step ≥ 1` and the fit of the new size. -/
theorem c08_slice_accepted (pre post : List (Nat × Nat)) (size stride size' step : Nat)
    (hstep : 1 ≤ step) (hfit : size' = 0 ∨ (size' - 1) * step < size)
    (h : mayOverlap (pre ++ (size, stride) :: post) = false) :
    mayOverlap (pre ++ (size', stride * step) :: post) = false := by
  rw [accept_perm List.perm_middle] at h ⊢
  exact accept_slice_head hstep hfit h

/-- **C08.T2c** `index_axis` / `SliceItem::Index` (drop a dimension that has a valid index,
i.e. is not empty) keeps the layout accepted. -/
theorem c08_index_axis_accepted (pre post : List (Nat × Nat)) (size stride : Nat)
    (hsz : 1 ≤ size) (h : mayOverlap (pre ++ (size, stride) :: post) = false) :
    mayOverlap (pre ++ post) = false := by
  rw [accept_perm List.perm_middle] at h
  exact accept_drop_head hsz h

/-- **C08.T2c** Both halves of `split_at(axis, mid)` (`mid ≤ size`) are accepted. -/
theorem c08_split_at_accepted (pre post : List (Nat × Nat)) (size stride mid : Nat)
    (hmid : mid ≤ size) (h : mayOverlap (pre ++ (size, stride) :: post) = false) :
    mayOverlap (pre ++ (mid, stride) :: post) = false ∧
    mayOverlap (pre ++ (size - mid, stride) :: post) = false := by
  have h1 := c08_slice_accepted pre post size stride mid 1 (Nat.le_refl _)
    (by omega) h
  have h2 := c08_slice_accepted pre post size stride (size - mid) 1 (Nat.le_refl _)
    (by omega) h
  simpa using And.intro h1 h2

/-- **C08.T2c** Inserting or removing a size-1 axis with any stride (`insert_axis`,
`squeezed`, `remove_axis`) does not change the verdict. -/
theorem c08_unit_axis (pre post : List (Nat × Nat)) (s : Nat) :
    mayOverlap (pre ++ (1, s) :: post) = mayOverlap (pre ++ post) := by
  rw [accept_perm List.perm_middle]
  exact accept_unit_head s _

/-- Non-vacuity for the operation theorems: the accepted, non-contiguous layout
`[(4,30),(5,6),(6,1)]ᵀ`-like `[(6,1),(4,30),(5,6)]`, sliced `1..5 step 2` on the last axis. -/
example : (1 : Nat) ≤ 2 ∧ ((2 : Nat) = 0 ∨ (2 - 1) * 2 < 5) ∧
    mayOverlap ([(6, 1), (4, 30)] ++ (5, 6) :: []) = false ∧
    isContiguous ([(6, 1), (4, 30)] ++ (5, 6) :: []) = false ∧
    mayOverlap ([(6, 1), (4, 30)] ++ (2, 6 * 2) :: []) = false := by decide

/-- **C08.T2c** One `merge_axes` step: an outer dimension `(n, t*m)` directly outside `(m, t)`
(its stride is the inner stride times the inner size) fused into `(m*n, t)` keeps the layout
accepted.  No side condition (any of the sizes may be 0 or 1). -/
theorem c08_merge_accepted (pre post : List (Nat × Nat)) (t m n : Nat)
    (h : mayOverlap (pre ++ (n, t * m) :: (m, t) :: post) = false) :
    mayOverlap (pre ++ (m * n, t) :: post) = false :=
  accept_merge h

/-- Non-vacuity: a non-contiguous accepted layout whose two inner dims can be merged. -/
example : mayOverlap ([(2, 1)] ++ (3, 4 * 5) :: (5, 4) :: []) = false ∧
    isContiguous ([(2, 1)] ++ (3, 4 * 5) :: (5, 4) :: []) = false ∧
    mayOverlap ([(2, 1)] ++ (5 * 3, 4) :: []) = false := by decide

/-- Layouts reachable from a contiguous layout by view operations.  `dims` are
`(size, stride)` pairs, outermost first.
* `contig`  – any layout `is_contiguous` accepts (this includes every `reshaped` result of a
  contiguous tensor, and `from_shape` layouts);
* `perm`    – `permuted` / `transposed` / `move_axis` (any reordering of the dims);
* `slice`   – `slice` / `slice_axis` / `split_at` of one axis with step `≥ 1`
  (`SliceItem::Range`; negative steps are rejected by `slice_layout` with `InvalidStep`);
* `index`   – `index_axis` / `SliceItem::Index` / removing a size-1 axis;
* `insertUnit` – `insert_axis` with whatever stride the implementation chooses;
* `merge`   – one step of `merge_axes`: an outer dim whose stride is `inner stride * inner size`
  is fused with the dim directly inside it.
`Props/C08Views.lean` proves that the operations of C09's layout model
(`Model/Layout.lean`: `permuted`, `transposed`, `moveAxis`, `trySlice`, `sliceAxis`,
`indexAxis`, `splitAt`, `insertAxis`, `removeAxis`, `squeezed`, `mergedAxes`, `reshaped`) map
`Derived` layouts to `Derived` layouts, so the abstraction is tied to the modelled code. -/
inductive Derived : List (Nat × Nat) → Prop
  | contig {dims : List (Nat × Nat)} : isContiguous dims = true → Derived dims
  | perm {dims dims' : List (Nat × Nat)} : Derived dims → dims.Perm dims' → Derived dims'
  | slice {pre post : List (Nat × Nat)} {size stride size' step : Nat} :
      Derived (pre ++ (size, stride) :: post) →
      (size' = 0 ∨ (1 ≤ step ∧ (size' - 1) * step < size)) →
      Derived (pre ++ (size', stride * step) :: post)
  | index {pre post : List (Nat × Nat)} {size stride : Nat} :
      Derived (pre ++ (size, stride) :: post) → 1 ≤ size → Derived (pre ++ post)
  | insertUnit {pre post : List (Nat × Nat)} {s : Nat} :
      Derived (pre ++ post) → Derived (pre ++ (1, s) :: post)
  | merge {pre post : List (Nat × Nat)} {t m n : Nat} :
      Derived (pre ++ (n, t * m) :: (m, t) :: post) → Derived (pre ++ (m * n, t) :: post)

/-- **C08.T2** Completeness on the advertised class: every layout derived from a contiguous
one by any finite sequence of permute / slice-with-positive-step / index / unit-axis
operations is accepted by `may_have_internal_overlap`, for every rank. -/
theorem c08_derived_accepted (dims : List (Nat × Nat)) (h : Derived dims) :
    mayOverlap dims = false := by
  induction h with
  | contig hc => exact c08_contig_accepted _ hc
  | perm _ hp ih => rw [← accept_perm hp]; exact ih
  | slice _ hfit ih =>
    rcases hfit with h0 | ⟨hstep, hfit⟩
    · subst h0; simp [mayOverlap]
    · exact c08_slice_accepted _ _ _ _ _ _ hstep (Or.inr hfit) ih
  | index _ hsz ih => exact c08_index_axis_accepted _ _ _ _ hsz ih
  | insertUnit _ ih => rw [c08_unit_axis]; exact ih
  | merge _ ih => exact c08_merge_accepted _ _ _ _ _ ih

/-- Non-vacuity: a transposed, stepped 3-D layout.  Start from the contiguous 4×5×6 layout,
slice axis 1 with `::2` (5 → 3, stride 6 → 12), slice axis 2 with `1..6:3` (6 → 2, stride
1 → 3), insert a unit axis with stride 99 and move the innermost axis to the front.  The
result is derived, not contiguous, and has 24 distinct valid indices. -/
example : Derived [(2, 3), (4, 30), (1, 99), (3, 12)] ∧
    isContiguous [(2, 3), (4, 30), (1, 99), (3, 12)] = false ∧
    mayOverlap [(2, 3), (4, 30), (1, 99), (3, 12)] = false := by
  refine ⟨?_, by decide, by decide⟩
  have h0 : Derived ([(4, 30)] ++ (5, 6) :: [(6, 1)]) := .contig (by decide)
  have h1 : Derived ([(4, 30)] ++ (3, 6 * 2) :: [(6, 1)]) := .slice h0 (by omega)
  have h2 : Derived ([(4, 30), (3, 12)] ++ (2, 1 * 3) :: []) :=
    .slice (pre := [(4, 30), (3, 12)]) (post := []) (size := 6) (stride := 1) h1 (by omega)
  have h3 : Derived ([(4, 30)] ++ (1, 99) :: [(3, 12), (2, 3)]) :=
    .insertUnit (pre := [(4, 30)]) (post := [(3, 12), (2, 3)]) h2
  refine .perm h3 ?_
  exact (List.perm_append_comm (l₁ := [(4, 30), (1, 99), (3, 12)]) (l₂ := [(2, 3)]))

/-- Corollary (T2 ∘ T1): derived layouts never alias. -/
theorem c08_derived_injective (dims : List (Nat × Nat)) (i j : List Nat) (h : Derived dims)
    (hi : ValidIdx dims i) (hj : ValidIdx dims j) (hoff : offset dims i = offset dims j) :
    i = j :=
  c08_no_overlap_injective dims i j (c08_derived_accepted dims h) hi hj hoff

/-- The characterisation is exact on the rejecting side too: the documented false positive
`[4,4]/[3,4]` (injective, see T1's examples) is not a dominance chain in any order, and a
broadcast layout is not derived. -/
example : ¬ DomChain [(4, 3), (4, 4)] := fun h => by
  have := (c08_accept_iff_domChain _).mpr (Or.inr h)
  revert this; decide

example : ¬ Derived [(5, 1), (5, 0)] := fun h => by
  have := c08_derived_accepted _ h
  revert this; decide

/-! ## C08.T4 — capacity expansion runs the overlap check on the GROWN layout

`TensorBase::<Vec<T>, L>::expanded_layout(axis, new_size)` (the decision behind `has_capacity`
and `append`) is modelled by `TensorBounds.expandedLayout` in `Model/TensorBounds.lean`
(C06's model: `resize_dim` = `setSize`, `checked_min_data_len`, capacity comparison,
`may_have_internal_overlap(new_layout.shape(), new_layout.strides())`).  The machine-arithmetic
side (the decision on `usize` equals this ideal one for every requested size) is
`TensorBounds.c06_T3_expandedLayout`, and the storage-bounds side of `append` is
`TensorBounds.c06_T2_append`, both in `Props/C06.lean`; they are cited, not redone. -/

/-- **C08.T4** Whenever `expanded_layout` accepts (`has_capacity` = true / `append` succeeds),
the layout it returns is the *grown* layout (`axis` resized to `new_size`, strides unchanged),
that grown layout passes `may_have_internal_overlap`, and hence (T1) no two distinct valid
indices of the grown tensor share a storage offset.  No hypothesis on the old layout: in
particular the growth axis may have size 0 or 1 and a stride that does not step over the
other dimensions. -/
theorem c08_expansion_checks_grown_layout (dims nl : List (Nat × Nat))
    (capacity axis newSize : Nat)
    (h : TensorBounds.expandedLayout dims capacity axis newSize = some nl) :
    nl = TensorBounds.setSize dims axis newSize ∧ mayOverlap nl = false ∧
    ∀ i j, ValidIdx nl i → ValidIdx nl j → offset nl i = offset nl j → i = j := by
  unfold TensorBounds.expandedLayout at h
  split at h
  · cases h
  · split at h
    · rename_i hok
      cases h
      exact ⟨rfl, hok.2, fun i j hi hj ho => c08_no_overlap_injective _ i j hok.2 hi hj ho⟩
    · cases h

/-- Non-vacuity: a `[1,4]` tensor with strides `[4,1]` and capacity 16 can grow to `[3,4]`. -/
example : TensorBounds.expandedLayout [(1, 4), (4, 1)] 16 0 3 = some [(3, 4), (4, 1)] := by
  decide

/-- Why it must be the grown layout: the transposed `[4,1]` tensor has shape `[1,4]`, strides
`[1,1]`.  Its current layout is accepted (the unit axis hides the stride), the grown layout
`[2,4]`/`[1,1]` aliases (`[0,1]` and `[1,0]`), the overlap check rejects it, and the modelled
`expanded_layout` refuses although the capacity (16 ≥ 5) would suffice.  A decision that
looked at the old shape would accept it. -/
example : mayOverlap [(1, 1), (4, 1)] = false ∧
    mayOverlap (TensorBounds.setSize [(1, 1), (4, 1)] 0 2) = true ∧
    offset [(2, 1), (4, 1)] [0, 1] = offset [(2, 1), (4, 1)] [1, 0] ∧
    TensorBounds.checkedMinDataLen (TensorBounds.setSize [(1, 1), (4, 1)] 0 2) = some 5 ∧
    TensorBounds.expandedLayout [(1, 1), (4, 1)] 16 0 2 = none := by
  decide

/-- **C08.T4** Exact content of the modelled decision (C06's `TensorBounds.expandedLayout`):
it returns a layout iff that layout is the grown one, its checked minimum storage length
exists and fits the capacity, and the overlap check on the GROWN layout passes. -/
theorem c08_expansion_iff (dims nl : List (Nat × Nat)) (capacity axis newSize : Nat) :
    TensorBounds.expandedLayout dims capacity axis newSize = some nl ↔
      nl = TensorBounds.setSize dims axis newSize ∧
      ∃ m, TensorBounds.checkedMinDataLen nl = some m ∧ m ≤ capacity ∧ mayOverlap nl = false := by
  unfold TensorBounds.expandedLayout
  constructor
  · intro h
    split at h
    · cases h
    · rename_i m hm
      split at h
      · rename_i hok
        cases h
        exact ⟨rfl, m, hm, hok.1, hok.2⟩
      · cases h
  · rintro ⟨rfl, m, hm, hcap, hov⟩
    simp [hm, hcap, hov]

/-- **C08.T4** `has_capacity(axis, n) = true` ⇒ the grown tensor is alias-free. -/
theorem c08_hasCapacity_grown_injective (dims : List (Nat × Nat)) (capacity axis newSize : Nat)
    (h : TensorBounds.hasCapacity dims capacity axis newSize = true) (i j : List Nat)
    (hi : ValidIdx (TensorBounds.setSize dims axis newSize) i)
    (hj : ValidIdx (TensorBounds.setSize dims axis newSize) j)
    (hoff : offset (TensorBounds.setSize dims axis newSize) i =
      offset (TensorBounds.setSize dims axis newSize) j) : i = j := by
  unfold TensorBounds.hasCapacity at h
  obtain ⟨nl, hnl⟩ := Option.isSome_iff_exists.mp h
  obtain ⟨rfl, _, hinj⟩ := c08_expansion_checks_grown_layout _ _ _ _ _ hnl
  exact hinj i j hi hj hoff

/-- **C08.T4** `append(axis, other)` succeeding (C06's `TensorBounds.append`) ⇒ the tensor it
leaves behind has the grown layout, that layout passes the overlap check, and no two of its
valid indices share an offset.  (`c06_T2_append` adds: and they all lie inside the storage,
which still fits the capacity.) -/
theorem c08_append_grown_injective (t t' : TensorBounds.Owned) (axis : Nat)
    (other : List (Nat × Nat)) (h : TensorBounds.append t axis other = .ok t') :
    t'.dims = TensorBounds.setSize t.dims axis
      (TensorBounds.sizeAt t.dims axis + TensorBounds.sizeAt other axis) ∧
    mayOverlap t'.dims = false ∧
    ∀ i j, ValidIdx t'.dims i → ValidIdx t'.dims j → offset t'.dims i = offset t'.dims j →
      i = j := by
  unfold TensorBounds.append at h
  split at h
  · cases h
  · split at h
    · cases h
    · split at h
      · cases h
      · rename_i nl hnl
        cases h
        exact c08_expansion_checks_grown_layout _ _ _ _ _ hnl

/-- **C08.T4** (completeness of expansion) The overlap half of the decision never refuses a
grown layout of the advertised class: if the grown layout is `Derived` (e.g. contiguous, as
for a `with_capacity` tensor grown along its expansion axis, or any permuted / sliced view of
one) then `has_capacity` is decided by the storage length alone. -/
theorem c08_expansion_of_derived (dims : List (Nat × Nat)) (capacity axis newSize m : Nat)
    (hd : Derived (TensorBounds.setSize dims axis newSize))
    (hm : TensorBounds.checkedMinDataLen (TensorBounds.setSize dims axis newSize) = some m) :
    TensorBounds.hasCapacity dims capacity axis newSize = decide (m ≤ capacity) := by
  have hov := c08_derived_accepted _ hd
  unfold TensorBounds.hasCapacity TensorBounds.expandedLayout
  simp only [hm, hov, and_true]
  by_cases hc : m ≤ capacity <;> simp [hc]

/-- Non-vacuity: `with_capacity([3,4], 0)` = shape `[0,4]` strides `[4,1]`, capacity 12; growing
axis 0 to 3 gives the contiguous (hence `Derived`) `[3,4]`, min length 12, accepted; to 4 it
is refused for capacity only. -/
example : Derived (TensorBounds.setSize [(0, 4), (4, 1)] 0 3) ∧
    TensorBounds.checkedMinDataLen (TensorBounds.setSize [(0, 4), (4, 1)] 0 3) = some 12 ∧
    TensorBounds.hasCapacity [(0, 4), (4, 1)] 12 0 3 = true ∧
    TensorBounds.hasCapacity [(0, 4), (4, 1)] 12 0 4 = false ∧
    TensorBounds.append ⟨[(0, 4), (4, 1)], 0, 12⟩ 0 [(2, 0), (4, 0)] =
      .ok ⟨[(2, 4), (4, 1)], 8, 12⟩ := by
  refine ⟨.contig (by decide), by decide, by decide, by decide, by decide⟩

end RtenVerif.Overlap
