import RtenVerif.Props.C35Bounded6Defs

/-! C35.S3 bounded scope, chunk `j`: smallest code in `3..3`, second smallest in `3..3`
(kernel evaluation; bounded statement). -/
namespace RtenVerif.Poly

theorem c35_chunk6_j : chunkOk 3 3 3 3 = true := by decide +kernel

end RtenVerif.Poly
