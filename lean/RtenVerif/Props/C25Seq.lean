import RtenVerif.Props.C25
/-!
# C25.T2 — a run cannot affect later runs

`runReq` is `Graph::run` on the state earlier runs left behind: the constants (as memory that
an operator *would* overwrite if it were ever handed a constant mutably — `memAfter`) and the
plan cache.  `runSeq` is any sequence of requests on one model.

* `c25_T2_consts_unchanged`, `c25_T2_lent_unchanged` — unconditional consequences of T1: after
  any run (successful or not, any plan) the constants are what they were and the caller's lent
  buffers hold what they held.
* `c25_T2_sequence` — every run of any sequence observes what the same request observes alone
  on a freshly loaded model: the lent buffers hold the same, and the run returns the same
  outputs or both fail (`ObsEquiv`).  The plan cache is the only other surviving state; the
  hypothesis `CacheTransparent` is exactly what C02 proves about two plans for one request
  (`RtenVerif.Executor.c02_plan_independent_iff` in `Props/C02.lean`: any two `PlanOK` plans give
  `.ok vals` together, with the same `vals`) plus "planning fails for one order of the ids iff
  for the other" (C03's argument checks and `PlanOK` are permutation invariant, C26
  `PlanOK_congr` / `c26_error_class`).  *Which* error a failing run reports may depend on the
  plan order (`c02_error_depends_on_order`), hence "both fail" and not "same error".
* `c25_T2_sequence_eq` — the stronger conclusion (equal observations incl. the error class)
  under the stronger hypothesis `CacheTransparentEq`; `cacheTransparentEq_of_orderInsensitive`
  discharges it for every planner whose result depends only on the id sets, and
  `c25_T2_sequence_orderInsensitive` is the resulting hypothesis-free statement.
* `c25_T2_mutant_false` — for the mutant that lets views be taken, the second of two identical
  runs observes something else (so the statement is not vacuous).

Kernel determinism (the abstract `Ops.run` being a function) is the assumption that is tested,
not proved.
-/
namespace RtenVerif.RunPurity

variable {V : Type}

/-- **C25.T2 (constants).** The constants after a run — with any plan, failing or not — are the
constants before it. -/
theorem c25_T2_consts_unchanged (ops : Ops V) (g : G) (consts : Nat → V) (q : Req V) (plan : List Nat) :
    (runWith .code ops g consts q plan).2 = consts := by
  unfold runWith
  simp only
  rw [c25_T1_memory]

/-- **C25.T2 (lent buffers).** What the caller finds in the buffers it lent is what it put there. -/
theorem c25_T2_lent_unchanged (ops : Ops V) (g : G) (consts : Nat → V) (q : Req V) (plan : List Nat) :
    (runWith .code ops g consts q plan).1.lent =
      q.ins.filterMap (fun e => if e.2.1 then none else some (q.borrowedFn e.1)) := by
  unfold runWith observe
  simp only
  rw [c25_T1_memory]

/-- The state of the plan cache always describes a plan the planner produced for some ordering
of the cached id sets. -/
def CacheInv (planner : List Nat → List Nat → Option (List Nat)) (cache : Option Cached) : Prop :=
  ∀ c, cache = some c → ∃ ins outs, c.ins = sortIds ins ∧ c.outs = sortIds outs ∧ planner ins outs = some c.plan

/-- Strong form (not what C02 proves for failing runs, see `CacheTransparent` below): plans for the
same id sets give *equal* observations, including the error class. -/
structure CacheTransparentEq (ops : Ops V) (g : G) (planner : List Nat → List Nat → Option (List Nat))
    (consts : Nat → V) : Prop where
  fail_iff : ∀ ins outs ins' outs', sortIds ins = sortIds ins' → sortIds outs = sortIds outs' →
    planner ins' outs' ≠ none → planner ins outs ≠ none
  same_run : ∀ (q : Req V) ins' outs' p p', sortIds q.ids = sortIds ins' → sortIds q.outs = sortIds outs' →
    planner ins' outs' = some p' → planner q.ids q.outs = some p →
    (runWith .code ops g consts q p').1 = (runWith .code ops g consts q p).1

theorem getPlan_inv {planner : List Nat → List Nat → Option (List Nat)} {cache : Option Cached}
    (hc : CacheInv planner cache) {ins outs : List Nat} {plan : List Nat} {cache' : Option Cached}
    (h : getPlan planner cache ins outs = some (plan, cache')) : CacheInv planner cache' := by
  have fresh : ∀ p, planner ins outs = some p →
      CacheInv planner (some { ins := sortIds ins, outs := sortIds outs, plan := p }) := by
    intro p hp c hcc
    cases hcc
    exact ⟨ins, outs, rfl, rfl, hp⟩
  unfold getPlan at h
  split at h
  · split at h
    · cases h; exact hc
    · split at h
      · rename_i p hp; cases h; exact fresh _ hp
      · cases h
  · split at h
    · rename_i p hp; cases h; exact fresh _ hp
    · cases h

/-- One run in a sequence: same observation as alone on a fresh model, constants unchanged,
cache invariant preserved. -/
theorem runReq_independent (ops : Ops V) (g : G) (planner : List Nat → List Nat → Option (List Nat))
    (m : ModelSt V) (q : Req V) (ht : CacheTransparentEq ops g planner m.consts)
    (hc : CacheInv planner m.cache) :
    (runReq .code ops g planner m q).1 =
        (runReq .code ops g planner { consts := m.consts, cache := none } q).1 ∧
    (runReq .code ops g planner m q).2.consts = m.consts ∧
    CacheInv planner (runReq .code ops g planner m q).2.cache := by
  have hfresh : ∀ p, planner q.ids q.outs = some p →
      (runReq .code ops g planner { consts := m.consts, cache := none } q).1 =
        (runWith .code ops g m.consts q p).1 := by
    intro p hp
    simp only [runReq, getPlan, hp]
  have hfreshNone : planner q.ids q.outs = none →
      (runReq .code ops g planner { consts := m.consts, cache := none } q).1 =
        { outcome := .error .planErr,
          lent := q.ins.filterMap (fun e => if e.2.1 then none else some (q.borrowedFn e.1)) } := by
    intro hp
    simp only [runReq, getPlan, hp]
  generalize (runReq .code ops g planner { consts := m.consts, cache := none } q).1 = F
    at hfresh hfreshNone ⊢
  cases hg : getPlan planner m.cache q.ids q.outs with
  | none =>
    -- planning failed: the planner was called on this very request
    have hp : planner q.ids q.outs = none := by
      unfold getPlan at hg
      split at hg
      · split at hg
        · cases hg
        · split at hg
          · cases hg
          · assumption
      · split at hg
        · cases hg
        · assumption
    refine ⟨?_, ?_, ?_⟩
    · rw [hfreshNone hp]; simp only [runReq, hg]
    · simp only [runReq, hg]
    · simp only [runReq, hg]; exact hc
  | some pc =>
    obtain ⟨plan, cache'⟩ := pc
    have hinv := getPlan_inv hc hg
    refine ⟨?_, ?_, ?_⟩
    · simp only [runReq, hg]
      unfold getPlan at hg
      split at hg
      · rename_i c hceq
        split at hg
        · -- cache hit
          rename_i hm
          cases hg
          obtain ⟨ins0, outs0, hi, ho, hpl⟩ := hc c hceq
          unfold Cached.matches at hm
          simp only [Bool.and_eq_true, beq_iff_eq] at hm
          have h1 : sortIds q.ids = sortIds ins0 := hm.1.trans hi
          have h2 : sortIds q.outs = sortIds outs0 := hm.2.trans ho
          cases hp : planner q.ids q.outs with
          | none =>
            exact absurd hp (ht.fail_iff q.ids q.outs ins0 outs0 h1 h2 (by rw [hpl]; simp))
          | some p =>
            rw [hfresh p hp]
            exact ht.same_run q ins0 outs0 p c.plan h1 h2 hpl hp
        · split at hg
          · rename_i p hp; cases hg; rw [hfresh _ hp]
          · cases hg
      · split at hg
        · rename_i p hp; cases hg; rw [hfresh _ hp]
        · cases hg
    · simp only [runReq, hg]
      exact c25_T2_consts_unchanged ops g m.consts q plan
    · simp only [runReq, hg]
      exact hinv

/-- **C25.T2, strong form.** Under `CacheTransparentEq` (more than C02 proves for failing runs;
holds e.g. for order-insensitive planners) every run of a sequence returns *exactly* what it
returns alone on a freshly loaded model: outputs, error class and contents of the lent buffers.
See `c25_T2_sequence` for the statement under the hypothesis C02 provides. -/
theorem c25_T2_sequence_eq (ops : Ops V) (g : G) (planner : List Nat → List Nat → Option (List Nat)) :
    ∀ (qs : List (Req V)) (m : ModelSt V), CacheTransparentEq ops g planner m.consts →
      CacheInv planner m.cache →
      runSeq .code ops g planner m qs =
        qs.map (fun q => (runReq .code ops g planner { consts := m.consts, cache := none } q).1) := by
  intro qs
  induction qs with
  | nil => intro m _ _; rfl
  | cons q qs ih =>
    intro m ht hc
    obtain ⟨h1, h2, h3⟩ := runReq_independent ops g planner m q ht hc
    simp only [runSeq, List.map_cons]
    rw [h1]
    congr 1
    rw [ih (runReq .code ops g planner m q).2 (by rw [h2]; exact ht) h3, h2]

/-- The start state of a freshly loaded model satisfies the cache invariant. -/
theorem cacheInv_none (planner : List Nat → List Nat → Option (List Nat)) : CacheInv planner none :=
  fun _ h => by cases h

/-! ### The hypothesis C02 actually provides -/

/-- Two observations agree: the lent buffers hold the same, and the runs return the same outputs
or both fail (possibly with different errors). -/
def ObsEquiv (a b : Observed V) : Prop :=
  a.lent = b.lent ∧ ∀ vals, a.outcome = .ok vals ↔ b.outcome = .ok vals

theorem ObsEquiv.refl (a : Observed V) : ObsEquiv a a := ⟨rfl, fun _ => Iff.rfl⟩

theorem ObsEquiv.of_eq {a b : Observed V} (h : a = b) : ObsEquiv a b := h ▸ ObsEquiv.refl a

/-- Pointwise `ObsEquiv` of two lists of observations of the same length. -/
def SeqEquiv : List (Observed V) → List (Observed V) → Prop
  | [], [] => True
  | a :: as, b :: bs => ObsEquiv a b ∧ SeqEquiv as bs
  | _, _ => False

/-- **What `c02_plan_independent_iff` (Props/C02.lean) provides**, restated for this model's
`runWith`: for two plans the planner returns for the same id sets (both satisfy C03's `PlanOK`
for the request, `c03_plan_ok`), the run returns `.ok vals` with one iff it does with the other.
Nothing is assumed about *which* error failing runs report (`c02_error_depends_on_order` shows
it can differ).  `fail_iff`: planning succeeds for one order of the ids iff for the other
(C03 argument checks / `PlanOK` are permutation invariant: C26 `PlanOK_congr`; completeness
`c03_complete`).

`same_ok` is an *interface*: with adversarial `Ops.run` (which sees whether an operand arrives in
`taken` or in `ins`) it can only hold if the operators satisfy the contract "in place ≡ out of
place" and are deterministic, and if every value has one producer.  Those assumptions are stated
separately, by name, where the hypothesis is discharged for the code's planner:
`C25Exec.Assumptions` (`noCaptures`, `unique`, `opContract`, `wf`) and
`C25Exec.cacheTransparent_exec` / `c25_T2_sequence_exec` (Props/C25Exec.lean). -/
structure CacheTransparent (ops : Ops V) (g : G) (planner : List Nat → List Nat → Option (List Nat))
    (consts : Nat → V) : Prop where
  fail_iff : ∀ ins outs ins' outs', sortIds ins = sortIds ins' → sortIds outs = sortIds outs' →
    planner ins' outs' ≠ none → planner ins outs ≠ none
  same_ok : ∀ (q : Req V) ins' outs' p p' vals, sortIds q.ids = sortIds ins' →
    sortIds q.outs = sortIds outs' → planner ins' outs' = some p' → planner q.ids q.outs = some p →
    ((runWith .code ops g consts q p').1.outcome = .ok vals ↔
      (runWith .code ops g consts q p).1.outcome = .ok vals)

/-- The strong hypothesis implies the one C02 provides. -/
theorem CacheTransparentEq.weaken {ops : Ops V} {g : G} {planner : List Nat → List Nat → Option (List Nat)}
    {consts : Nat → V} (h : CacheTransparentEq ops g planner consts) :
    CacheTransparent ops g planner consts where
  fail_iff := h.fail_iff
  same_ok := by
    intro q ins' outs' p p' vals h1 h2 hp' hp
    rw [h.same_run q ins' outs' p p' h1 h2 hp' hp]

/-- One run in a sequence under the C02 hypothesis: agrees (`ObsEquiv`) with the run alone on a
fresh model, constants unchanged, cache invariant preserved. -/
theorem runReq_equiv (ops : Ops V) (g : G) (planner : List Nat → List Nat → Option (List Nat))
    (m : ModelSt V) (q : Req V) (ht : CacheTransparent ops g planner m.consts)
    (hc : CacheInv planner m.cache) :
    ObsEquiv (runReq .code ops g planner m q).1
        (runReq .code ops g planner { consts := m.consts, cache := none } q).1 ∧
    (runReq .code ops g planner m q).2.consts = m.consts ∧
    CacheInv planner (runReq .code ops g planner m q).2.cache := by
  have hfresh : ∀ p, planner q.ids q.outs = some p →
      (runReq .code ops g planner { consts := m.consts, cache := none } q).1 =
        (runWith .code ops g m.consts q p).1 := by
    intro p hp
    simp only [runReq, getPlan, hp]
  have hfreshNone : planner q.ids q.outs = none →
      (runReq .code ops g planner { consts := m.consts, cache := none } q).1 =
        { outcome := .error .planErr,
          lent := q.ins.filterMap (fun e => if e.2.1 then none else some (q.borrowedFn e.1)) } := by
    intro hp
    simp only [runReq, getPlan, hp]
  generalize (runReq .code ops g planner { consts := m.consts, cache := none } q).1 = F
    at hfresh hfreshNone ⊢
  cases hg : getPlan planner m.cache q.ids q.outs with
  | none =>
    have hp : planner q.ids q.outs = none := by
      unfold getPlan at hg
      split at hg
      · split at hg
        · cases hg
        · split at hg
          · cases hg
          · assumption
      · split at hg
        · cases hg
        · assumption
    refine ⟨?_, ?_, ?_⟩
    · rw [hfreshNone hp]; simp only [runReq, hg]; exact ObsEquiv.refl _
    · simp only [runReq, hg]
    · simp only [runReq, hg]; exact hc
  | some pc =>
    obtain ⟨plan, cache'⟩ := pc
    have hinv := getPlan_inv hc hg
    refine ⟨?_, ?_, ?_⟩
    · simp only [runReq, hg]
      unfold getPlan at hg
      split at hg
      · rename_i c hceq
        split at hg
        · -- cache hit: the cached plan was created for the same id sets, maybe in another order
          rename_i hm
          cases hg
          obtain ⟨ins0, outs0, hi, ho, hpl⟩ := hc c hceq
          unfold Cached.matches at hm
          simp only [Bool.and_eq_true, beq_iff_eq] at hm
          have h1 : sortIds q.ids = sortIds ins0 := hm.1.trans hi
          have h2 : sortIds q.outs = sortIds outs0 := hm.2.trans ho
          cases hp : planner q.ids q.outs with
          | none =>
            exact absurd hp (ht.fail_iff q.ids q.outs ins0 outs0 h1 h2 (by rw [hpl]; simp))
          | some p =>
            rw [hfresh p hp]
            refine ⟨?_, fun vals => ht.same_ok q ins0 outs0 p c.plan vals h1 h2 hpl hp⟩
            rw [c25_T2_lent_unchanged, c25_T2_lent_unchanged]
        · split at hg
          · rename_i p hp; cases hg; rw [hfresh _ hp]; exact ObsEquiv.refl _
          · cases hg
      · split at hg
        · rename_i p hp; cases hg; rw [hfresh _ hp]; exact ObsEquiv.refl _
        · cases hg
    · simp only [runReq, hg]
      exact c25_T2_consts_unchanged ops g m.consts q plan
    · simp only [runReq, hg]
      exact hinv

/-- **C25.T2.** Any sequence of runs on one model observes, run by run, what that request
observes when executed alone on a freshly loaded model (same constants, empty plan cache): the
lent buffers hold the same and the run returns the same outputs, or both fail.  Induction over
the sequence, from T1 (constants unchanged) and `CacheTransparent`, which is exactly what
`c02_plan_independent_iff` (Props/C02.lean) proves for two `PlanOK` plans of one request; the
error class of a failing run is deliberately not compared (`c02_error_depends_on_order`). -/
theorem c25_T2_sequence (ops : Ops V) (g : G) (planner : List Nat → List Nat → Option (List Nat)) :
    ∀ (qs : List (Req V)) (m : ModelSt V), CacheTransparent ops g planner m.consts →
      CacheInv planner m.cache →
      SeqEquiv (runSeq .code ops g planner m qs)
        (qs.map (fun q => (runReq .code ops g planner { consts := m.consts, cache := none } q).1)) := by
  intro qs
  induction qs with
  | nil => intro m _ _; exact True.intro
  | cons q qs ih =>
    intro m ht hc
    obtain ⟨h1, h2, h3⟩ := runReq_equiv ops g planner m q ht hc
    simp only [runSeq, List.map_cons, SeqEquiv]
    refine ⟨h1, ?_⟩
    have := ih (runReq .code ops g planner m q).2 (by rw [h2]; exact ht) h3
    rw [h2] at this
    exact this

/-- A planner whose answer depends only on the *sets* of ids. -/
def OrderInsensitive (planner : List Nat → List Nat → Option (List Nat)) : Prop :=
  ∀ ins outs ins' outs', sortIds ins = sortIds ins' → sortIds outs = sortIds outs' →
    planner ins outs = planner ins' outs'

theorem cacheTransparentEq_of_orderInsensitive (ops : Ops V) (g : G)
    (planner : List Nat → List Nat → Option (List Nat)) (consts : Nat → V)
    (h : OrderInsensitive planner) : CacheTransparentEq ops g planner consts where
  fail_iff := by
    intro ins outs ins' outs' h1 h2 hne
    rw [h ins outs ins' outs' h1 h2]
    exact hne
  same_run := by
    intro q ins' outs' p p' h1 h2 hp' hp
    rw [h q.ids q.outs ins' outs' h1 h2, hp'] at hp
    cases hp
    rfl

/-- **C25.T2 without hypotheses on the cache** for order-insensitive planners, starting from a
freshly loaded model. -/
theorem c25_T2_sequence_orderInsensitive (ops : Ops V) (g : G)
    (planner : List Nat → List Nat → Option (List Nat)) (h : OrderInsensitive planner)
    (consts : Nat → V) (qs : List (Req V)) :
    runSeq .code ops g planner { consts := consts, cache := none } qs =
      qs.map (fun q => (runReq .code ops g planner { consts := consts, cache := none } q).1) :=
  c25_T2_sequence_eq ops g planner qs { consts := consts, cache := none }
    (cacheTransparentEq_of_orderInsensitive ops g planner consts h) (cacheInv_none planner)

/-! ## Non-vacuity and negation witnesses -/

section Examples

/-- `y = Relu(c)` where `c` (node 0) is a constant, `y` node 1, the operator node 2; a second
operator (node 4) computes `z = Neg(x)` for a graph input `x` (node 3), `z` node 5. -/
def exG : G :=
  { nodes := [.constant, .value,
              .op { inputs := [some 0], outputs := [some 1], inPlace := [0], commutative := false,
                    capDeps := [], subgraph := false },
              .value,
              .op { inputs := [some 3], outputs := [some 5], inPlace := [0], commutative := false,
                    capDeps := [], subgraph := false },
              .value],
    captures := [] }

/-- Values are numbers; every operator adds one to its (single) operand, wherever it gets it. -/
def exOps : Ops Nat :=
  { len := fun _ => 1,
    run := fun _ _ taken ins _ _ =>
      match taken, ins with
      | (_, v) :: _, _ => some [v + 1]
      | [], some v :: _ => some [v + 1]
      | _, _ => none,
    dirty := fun _ _ v => v + 1 }

def exPlanner : List Nat → List Nat → Option (List Nat) := fun _ outs =>
  some ((if outs.contains 1 then [2] else []) ++ (if outs.contains 5 then [4] else []))

def exM : ModelSt Nat := { consts := fun _ => 10, cache := none }

/-- requests: `y`, `z` and the constant itself, with `x = 7` borrowed / owned (a constant's
reference count is 0 unless it is requested as an output, so only then could it be taken) -/
def exQ (owned : Bool) : Req Nat := { ins := [(3, owned, 7)], outs := [1, 5, 0] }

def exRun (owned : Bool) : Run Nat :=
  { g := exG, consts := exM.consts, borrowed := (exQ owned).borrowedFn, owned := (exQ owned).ownedIns,
    envView := fun _ => none, envTake := fun _ => none }

/-- The code: the constant feeds an in-place capable operator and is *not* taken (run as a
view); the owned input is taken in place, the borrowed one is not. -/
example :
    ((runPlan .code exOps (exRun true) [2, 4] [1, 5, 0]).recs.map
      (fun s => (s.op, s.inPlace, s.takes.map (fun t => (t.id, t.loc))))) =
      [(2, false, []), (4, true, [(3, Loc.temp 3)])] := by decide

example :
    ((runPlan .code exOps (exRun false) [2, 4] [1, 5, 0]).recs.map
      (fun s => (s.op, s.inPlace, s.takes.length))) = [(2, false, 0), (4, false, 0)] := by decide

/-- Two identical runs of the code observe the same: outputs `[11, 8, 10]`, lent buffer still 7. -/
example :
    (runSeq .code exOps exG exPlanner exM [exQ false, exQ false]).map (fun o => (o.outcome.toOption, o.lent)) =
      [(some [11, 8, 10], [some 7]), (some [11, 8, 10], [some 7])] := by decide

/-- **Negation witness (mutant, not the code).** If views could be taken — the
`temp_values.get(id).is_some()` conjunct dropped — the first run would overwrite the constant and
the caller's buffer, and the second identical run would return something else. -/
theorem c25_T2_mutant_false :
    (runSeq .viewsTakeable exOps exG exPlanner exM [exQ false, exQ false]).map
        (fun o => (o.outcome.toOption, o.lent)) =
      [(some [11, 8, 10], [some 8]), (some [12, 8, 11], [some 8])] := by decide

/-- … and T1 fails for the mutant: a constant and a borrowed input are handed out mutably. -/
theorem c25_T1_mutant_false :
    (allTakes (runPlan .viewsTakeable exOps (exRun false) [2, 4] [1, 5, 0]).recs).map (·.loc) =
      [Loc.const 0, Loc.borrowed 3] := by
  decide

/-- A planner that sorts its arguments first is order-insensitive. -/
theorem exPlannerSorted_orderInsensitive :
    OrderInsensitive (fun ins outs => exPlanner (sortIds ins) (sortIds outs)) := by
  intro ins outs ins' outs' h1 h2
  simp only [h1, h2]

example : CacheInv exPlanner exM.cache := cacheInv_none _

/-- **Closed**: `CacheTransparent` (the hypothesis of `c25_T2_sequence`) holds for this model's
`runWith`, `exOps`, `exG` and the sorting planner — no hypotheses.  (For an order-*sensitive*
planner — the code's — see `Props/C25Exec.lean`: `cacheTransparent_exec`,
`exec_example_assumptions`, `exec_example_T2`.) -/
theorem ex_cacheTransparent :
    CacheTransparent exOps exG (fun i o => exPlanner (sortIds i) (sortIds o)) exM.consts :=
  (cacheTransparentEq_of_orderInsensitive exOps exG _ exM.consts exPlannerSorted_orderInsensitive).weaken

/-- `c25_T2_sequence` applied to a closed instance. -/
example :
    SeqEquiv (runSeq .code exOps exG (fun i o => exPlanner (sortIds i) (sortIds o)) exM [exQ false, exQ true])
      ([exQ false, exQ true].map (fun q =>
        (runReq .code exOps exG (fun i o => exPlanner (sortIds i) (sortIds o)) exM q).1)) :=
  c25_T2_sequence exOps exG _ [exQ false, exQ true] exM ex_cacheTransparent (cacheInv_none _)

end Examples

end RtenVerif.RunPurity

