import RtenVerif.Lemmas.QuantGemm

/-!
# C17 — Quantized integer kernels are exact

Property theorems over `RtenVerif.Model.QuantGemm` (model of the `u8 × i8 → i32` GEMM in
`rten-gemm`: `packing/int8.rs`, `kernels/simd_generic.rs::simd_int8_gemm(+_epilogue)`,
`kernels/x86_64.rs::dot_product`, `kernels/generic.rs`, depth blocking of `lib.rs::gemm_impl`).

Level: proof of the algebra / *partial*: the semantics of the SIMD instructions (`vpmaddubsw`,
`vpmaddwd`, `vpdpbusd`, lane-wise wrapping i32 arithmetic) is *assumed* as modelled by
`pairSum`/`dot4`/`wrap32`; it is tied to the hardware of this host only by the exact differential
run (`harness/gemm/src/bin/c17.rs`).
-/
namespace RtenVerif.QuantGemm

/-- **C17.T1a** The zero-point identity the kernels rely on, for vectors of any length and any
zero points: `Σ_k (a_k − za)(b_k − zb) = Σ a·b − za·colsum − zb·rowsum + K·za·zb`. -/
theorem c17_zero_point_identity (za zb : Int) (a b : List Int) (h : a.length = b.length) :
    dotZ za zb a b = dot a b - za * sum b - zb * sum a + (a.length : Int) * za * zb :=
  dotZ_eq_factored za zb a b h

/-- **C17.T1b** Kernels that cannot saturate (`sat = false`: VNNI / exact dot product): the value
computed from packed 4-wide tiles with zero padding, row/column sums and the epilogue corrections,
accumulated over depth blocks of any size `kc > 0`, is exactly `Σ_k (a_k − za)(b_k − zb)` —
for all K, all values and all zero points. -/
theorem c17_simd_entry_exact (kc : Nat) (hkc : 0 < kc) (za zb : Int) (a b : List Int)
    (h : a.length = b.length) :
    entrySimd false kc za zb a b = dotZ za zb a b :=
  entryBlocks_false_eq_dotZ kc hkc za zb a.length a b h (Nat.le_refl _)

example : entrySimd false 4 200 (-100) [255, 0, 17, 3, 99, 250, 1] [-128, 127, 5, -7, 0, 64, -65] =
    dotZ 200 (-100) [255, 0, 17, 3, 99, 250, 1] [-128, 127, 5, -7, 0, 64, -65] := by decide

/-- **C17.T3a** Saturating kernels (`vpmaddubsw` path, `may_saturate() = true`) are exact whenever
the RHS lies in the documented reduced range `[−64, 63]` (`ReducedRangeRng`), for every `u8` LHS,
every K, every zero point. -/
theorem c17_saturating_exact_reduced_b (kc : Nat) (hkc : 0 < kc) (za zb : Int) (a b : List Int)
    (h : a.length = b.length) (ha : AllIn 0 255 a) (hb : AllIn (-64) 63 b) :
    entrySimd true kc za zb a b = dotZ za zb a b := by
  unfold entrySimd
  rw [entryBlocks_sat_eq 255 (-64) 63 (by omega) (by omega) (by omega) (by omega) (by omega)
    kc za zb a.length a b ha hb]
  exact c17_simd_entry_exact kc hkc za zb a b h

/-- **C17.T3b** … and whenever the LHS lies in the documented reduced range `[0, 127]`, for every
`i8` RHS. -/
theorem c17_saturating_exact_reduced_a (kc : Nat) (hkc : 0 < kc) (za zb : Int) (a b : List Int)
    (h : a.length = b.length) (ha : AllIn 0 127 a) (hb : AllIn (-128) 127 b) :
    entrySimd true kc za zb a b = dotZ za zb a b := by
  unfold entrySimd
  rw [entryBlocks_sat_eq 127 (-128) 127 (by omega) (by omega) (by omega) (by omega) (by omega)
    kc za zb a.length a b ha hb]
  exact c17_simd_entry_exact kc hkc za zb a b h

/-- Non-vacuity of the range hypotheses (extreme values of both ranges, K not a multiple of 4). -/
example : AllIn 0 255 [255, 255, 0, 255, 255] ∧ AllIn (-64) 63 [-64, -64, 63, 63, -64] := by
  constructor <;> intro x hx <;> simp at hx <;> omega

example : entrySimd true 4 7 (-3) [255, 255, 0, 255, 255] [-64, -64, 63, 63, -64] =
    dotZ 7 (-3) [255, 255, 0, 255, 255] [-64, -64, 63, 63, -64] := by decide

/-- **C17.T3c** The guard is needed: outside the reduced range the saturating path is wrong.
`255·127 + 255·127 = 64770` saturates to `32767`; `255·(−128)·2 = −65280` to `−32768`. -/
theorem c17_saturation_witness :
    pairSum true 255 127 255 127 = 32767 ∧ pairSum false 255 127 255 127 = 64770 ∧
    pairSum true 255 (-128) 255 (-128) = -32768 ∧
    entrySimd true 1024 0 0 [255, 255] [127, 127] ≠ dotZ 0 0 [255, 255] [127, 127] := by decide

/-- **C17.T3d** Exact characterisation of the safe RHS range for a full-range `u8` LHS: a constant
RHS value `b` never saturates iff `−64 ≤ b ≤ 64` (the documented `[−64, 63]` is inside it; `65` and
`−65` already saturate). -/
theorem c17_safe_rhs_range (b : Int) :
    (∀ a a' : Int, 0 ≤ a ∧ a ≤ 255 → 0 ≤ a' ∧ a' ≤ 255 →
        pairSum true a b a' b = pairSum false a b a' b) ↔ (-64 ≤ b ∧ b ≤ 64) := by
  constructor
  · intro h
    have h255 := h 255 255 (by omega) (by omega)
    simp only [pairSum, if_true, Bool.false_eq_true, if_false, sat16] at h255
    split at h255
    · omega
    · split at h255 <;> omega
  · intro hb a a' ha ha'
    exact pairSum_sat_eq 255 (-64) 64 (by omega) (by omega) (by omega) (by omega) a b a' b ha ha'
      hb hb

/-- **C17.T2** No i32 overflow: for `u8` values/zero points on the left and `i8` on the right the
exact result is bounded by `65025·K`, hence representable in `i32` whenever `K ≤ 33025`; wrapping
32-bit evaluation (in any order, see `wrap32_add/sub/mul`) then returns exactly that value. -/
theorem c17_no_i32_overflow (za zb : Int) (hza : 0 ≤ za ∧ za ≤ 255) (hzb : -128 ≤ zb ∧ zb ≤ 127)
    (a b : List Int) (ha : AllIn 0 255 a) (hb : AllIn (-128) 127 b) (hk : a.length ≤ 33025) :
    wrap32 (dotZ za zb a b) = dotZ za zb a b := by
  have hbd := dotZ_bound za zb hza hzb a b ha hb
  apply wrap32_id <;> omega

/-- `wrap32` is a ring homomorphism onto 32-bit two's complement: every i32 expression the kernels
evaluate with wrapping `+ − ·` equals `wrap32` of its ideal value, whatever the order. -/
theorem c17_wrap32_hom (x y : Int) :
    wrap32 (wrap32 x + wrap32 y) = wrap32 (x + y) ∧ wrap32 (wrap32 x - wrap32 y) = wrap32 (x - y) ∧
    wrap32 (wrap32 x * wrap32 y) = wrap32 (x * y) :=
  ⟨wrap32_add x y, wrap32_sub x y, wrap32_mul x y⟩

theorem dotZ_replicate (za zb x y : Int) : ∀ n : Nat,
    dotZ za zb (List.replicate n x) (List.replicate n y) = (n : Int) * ((x - za) * (y - zb))
  | 0 => by simp [dotZ]
  | n + 1 => by
    simp only [List.replicate_succ, dotZ, dotZ_replicate za zb x y n]
    grind

/-- The bound of T2 is tight: with K = 33026, `a = 255`, `za = 0`, `b = −128`, `zb = 127` the exact
value `−2147515650` does not fit in `i32`. -/
theorem c17_k_bound_tight :
    dotZ 0 127 (List.replicate 33026 255) (List.replicate 33026 (-128)) < -2147483648 ∧
    -2147483648 ≤ dotZ 0 127 (List.replicate 33025 255) (List.replicate 33025 (-128)) := by
  rw [dotZ_replicate, dotZ_replicate]
  decide

/-- **C17.G1** Vector-matrix (`gemv`) path, kernels that cannot saturate: for every K-tile size that
is routed through the dot-product instruction (`tile`: 4, one SIMD vector, or 0 = scalar), every
chunk size `kc > 0`, all values and zero points, the accumulated chunk results equal
`Σ_k (a_k − za)(b_k − zb)`. -/
theorem c17_gemv_entry_exact (tile kc : Nat) (hkc : 0 < kc) (za zb : Int) (a b : List Int)
    (h : a.length = b.length) : entryGemv false tile kc za zb a b = dotZ za zb a b :=
  entryGemvBlocks_false_eq_dotZ tile kc hkc za zb a.length a b h (Nat.le_refl _)

/-- **C17.G2** gemv on the saturating (`vpmaddubsw`) kernels is exact in the documented reduced
ranges (RHS in `[−64,63]`, or LHS in `[0,127]`), whatever mix of SIMD and scalar steps is used. -/
theorem c17_gemv_saturating_exact_reduced (tile kc : Nat) (hkc : 0 < kc) (za zb : Int)
    (a b : List Int) (h : a.length = b.length)
    (hr : (AllIn 0 255 a ∧ AllIn (-64) 63 b) ∨ (AllIn 0 127 a ∧ AllIn (-128) 127 b)) :
    entryGemv true tile kc za zb a b = dotZ za zb a b := by
  unfold entryGemv
  rcases hr with ⟨ha, hb⟩ | ⟨ha, hb⟩
  · rw [entryGemvBlocks_sat_eq 255 (-64) 63 (by omega) (by omega) (by omega) (by omega) (by omega)
      tile kc za zb a.length a b ha hb]
    exact c17_gemv_entry_exact tile kc hkc za zb a b h
  · rw [entryGemvBlocks_sat_eq 127 (-128) 127 (by omega) (by omega) (by omega) (by omega) (by omega)
      tile kc za zb a.length a b ha hb]
    exact c17_gemv_entry_exact tile kc hkc za zb a b h

/-- **C17.G3** Outside the reduced range the gemv path of a saturating kernel is *not* exact, and
which elements saturate depends on the path: with K = 6 and all products `255·127`, the column-wise
SIMD path (`tile = 4`) saturates the first four elements only (the K tail is scalar), the scalar
columns (`tile = 0`) are exact.  (The harness compares exactly these values on AVX2 and on
AVX-512 without VNNI.) -/
theorem c17_gemv_saturation_witness :
    entryGemv true 4 8 0 0 [255, 255, 255, 255, 255, 255] [127, 127, 127, 127, 127, 127] =
      32767 + 32767 + 2 * (255 * 127) ∧
    entryGemv true 0 8 0 0 [255, 255, 255, 255, 255, 255] [127, 127, 127, 127, 127, 127] =
      6 * (255 * 127) ∧
    gemvTile .unitColStride 32 128 40 31 = 4 ∧ gemvTile .unitColStride 32 128 40 32 = 0 ∧
    gemvTile .unitRowStride 64 128 40 39 = 64 ∧ gemvTile .general 32 128 40 0 = 0 := by decide

/-! ### Whole-matrix statement -/

theorem colOf_length (n : Nat) : ∀ (k : Nat) (b : List Int) (j : Nat), (colOf n k b j).length = k
  | 0, _, _ => rfl
  | k + 1, b, j => by simp [colOf, colOf_length n k]

theorem rowOf_length (k : Nat) (a : List Int) (i : Nat) (h : (i + 1) * k ≤ a.length) :
    (rowOf k a i).length = k := by
  unfold rowOf
  simp only [List.length_take, List.length_drop]
  have : (i + 1) * k = i * k + k := by rw [Nat.add_mul, Nat.one_mul]
  omega

theorem effZero_eq (z : Option (List Int)) (i : Nat) :
    effZero z i = (z.map (·.getD i 0)).getD 0 := by
  unfold effZero; cases z <;> simp

theorem getD_allIn (lo hi : Int) (h0 : lo ≤ 0 ∧ 0 ≤ hi) (b : List Int) (hb : AllIn lo hi b)
    (j : Nat) : lo ≤ b.getD j 0 ∧ b.getD j 0 ≤ hi := by
  rw [List.getD_eq_getElem?_getD]
  cases h : b[j]? with
  | none => simpa using h0
  | some v => simpa using hb v (List.mem_of_getElem? h)

/-- **C17.T1c** Every output element the model computes for a SIMD kernel that cannot saturate,
on a well-formed request (`Request.WF`: every tensor has the announced size, so no `getD` default is
ever taken; `i < m`, `j < n`; packed GEMM path or gemv path), equals `wrap32 (Σ_k (a_ik − za_i)(b_kj − zb_j) + c0_ij)` — whether or
not A and/or B are prepacked (`r.preA`, `r.preB` are unconstrained).  Before the fix of
`findings/C17.json` (`C17-prepacked-*-zero-points-ignored`) this needed the extra hypothesis
"nothing is prepacked": see `c17_prepacked_zero_points_were_ignored`. -/
theorem c17_gemm_entry_exact (r : Request) (i j : Nat) (hwf : r.WF) (hi : i < r.m) (_hj : j < r.n)
    (hk : r.kern = .simd) (hsat : r.sat = false) (hkc : 0 < r.kc) :
    entry r i j =
      wrap32 (dotZ ((r.za.map (·.getD i 0)).getD 0) ((r.zb.map (·.getD j 0)).getD 0)
        (rowOf r.k r.a i) (colOf r.n r.k r.b j) +
        (r.c0.map (·.getD (i * r.n + j) 0)).getD 0) := by
  have hi : (i + 1) * r.k ≤ r.a.length := by
    rw [hwf.a_len]; exact Nat.mul_le_mul_right _ hi
  have hlen : (rowOf r.k r.a i).length = (colOf r.n r.k r.b j).length := by
    rw [rowOf_length r.k r.a i hi, colOf_length]
  unfold entry
  simp only [hk, hsat, effZero_eq]
  cases r.gemv
  · simp only [Bool.false_eq_true, if_false]
    rw [c17_simd_entry_exact r.kc hkc _ _ _ _ hlen]
    cases r.c0 <;> simp
  · simp only [if_true]
    rw [c17_gemv_entry_exact _ r.kc hkc _ _ _ _ hlen]
    cases r.c0 <;> simp

/-- Same statement for the saturating kernels under the documented reduced RHS range. -/
theorem c17_gemm_entry_exact_saturating (r : Request) (i j : Nat) (hwf : r.WF) (hi : i < r.m)
    (_hj : j < r.n) (hk : r.kern = .simd) (hkc : 0 < r.kc)
    (ha : AllIn 0 255 r.a) (hb : AllIn (-64) 63 r.b) :
    entry r i j =
      wrap32 (dotZ ((r.za.map (·.getD i 0)).getD 0) ((r.zb.map (·.getD j 0)).getD 0)
        (rowOf r.k r.a i) (colOf r.n r.k r.b j) +
        (r.c0.map (·.getD (i * r.n + j) 0)).getD 0) := by
  have hi : (i + 1) * r.k ≤ r.a.length := by
    rw [hwf.a_len]; exact Nat.mul_le_mul_right _ hi
  have hlen : (rowOf r.k r.a i).length = (colOf r.n r.k r.b j).length := by
    rw [rowOf_length r.k r.a i hi, colOf_length]
  have hrow : AllIn 0 255 (rowOf r.k r.a i) := (ha.drop _).take _
  have hcol : ∀ (k : Nat) (b : List Int), AllIn (-64) 63 b → AllIn (-64) 63 (colOf r.n k b j) := by
    intro k
    induction k with
    | zero => intro b _ x hx; simp [colOf] at hx
    | succ k ih =>
      intro b hb x hx
      simp only [colOf, List.mem_cons] at hx
      rcases hx with rfl | hx
      · exact getD_allIn (-64) 63 (by omega) b hb j
      · exact ih (b.drop r.n) (hb.drop _) x hx
  unfold entry
  simp only [hk, effZero_eq]
  cases hs : r.sat <;> cases r.gemv <;> simp only [Bool.false_eq_true, if_false, if_true]
  · rw [c17_simd_entry_exact r.kc hkc _ _ _ _ hlen]
    cases r.c0 <;> simp
  · rw [c17_gemv_entry_exact _ r.kc hkc _ _ _ _ hlen]
    cases r.c0 <;> simp
  · rw [c17_saturating_exact_reduced_b r.kc hkc _ _ _ _ hlen hrow (hcol r.k r.b hb)]
    cases r.c0 <;> simp
  · rw [c17_gemv_saturating_exact_reduced _ r.kc hkc _ _ _ _ hlen
      (Or.inl ⟨hrow, hcol r.k r.b hb⟩)]
    cases r.c0 <;> simp

/-- A 2×2, K=5 request with per-row/per-column zero points (non-vacuity witness). -/
def exampleRequest : Request :=
  { kern := .simd, sat := false, kc := 1024, gemv := false, bKind := .unitColStride, lanes := 32,
    cb := 128, preA := false, preB := false, m := 2, n := 2, k := 5,
    za := some [3, 250], zb := some [-128, 127], c0 := none,
    a := [255, 0, 1, 254, 128, 0, 255, 127, 2, 200],
    b := [-128, 127, 0, -1, 1, 64, -65, 63, -64, 5] }

/-- Non-vacuity: `exampleRequest` meets the hypotheses of `c17_gemm_entry_exact`. -/
example : exampleRequest.kern = .simd ∧ exampleRequest.sat = false ∧ 0 < exampleRequest.kc ∧
    (1 + 1) * exampleRequest.k ≤ exampleRequest.a.length ∧
    gemm exampleRequest = [23171, -30804, -34051, 29081] := by decide

theorem colOf_allIn (lo hi : Int) (h0 : lo ≤ 0 ∧ 0 ≤ hi) (n j : Nat) :
    ∀ (k : Nat) (b : List Int), AllIn lo hi b → AllIn lo hi (colOf n k b j) := by
  intro k
  induction k with
  | zero => intro b _ x hx; simp [colOf] at hx
  | succ k ih =>
    intro b hb x hx
    simp only [colOf, List.mem_cons] at hx
    rcases hx with rfl | hx
    · exact getD_allIn lo hi h0 b hb j
    · exact ih (b.drop n) (hb.drop _) x hx

/-- **C17.T2 composed with T1c** (no `wrap32`, no defaulting): for a *well-formed* request
(`Request.WF`: every tensor has the announced size, so no `getD` default is ever taken), indices in
range, `u8`/`i8` values and zero points, `K ≤ 33025`, `beta = 0` and a kernel that cannot saturate,
the value the model computes is exactly `Σ_k (a_ik − za_i)(b_kj − zb_j)` — packed GEMM path or gemv
path, prepacked or not. -/
theorem c17_gemm_entry_no_overflow (r : Request) (i j : Nat) (hwf : r.WF) (hi : i < r.m)
    (_hj : j < r.n) (hk : r.kern = .simd) (hsat : r.sat = false) (hkc : 0 < r.kc)
    (ha : AllIn 0 255 r.a) (hb : AllIn (-128) 127 r.b)
    (hza : ∀ l, r.za = some l → AllIn 0 255 l) (hzb : ∀ l, r.zb = some l → AllIn (-128) 127 l)
    (hK : r.k ≤ 33025) (hc0 : r.c0 = none) :
    entry r i j = dotZ ((r.za.map (·.getD i 0)).getD 0) ((r.zb.map (·.getD j 0)).getD 0)
      (rowOf r.k r.a i) (colOf r.n r.k r.b j) := by
  have hik : (i + 1) * r.k ≤ r.a.length := by
    rw [hwf.a_len]; exact Nat.mul_le_mul_right _ hi
  rw [c17_gemm_entry_exact r i j hwf hi _hj hk hsat hkc, hc0]
  simp only [Option.map_none, Option.getD_none, Int.add_zero]
  have hrow : AllIn 0 255 (rowOf r.k r.a i) := (ha.drop _).take _
  have hcol := colOf_allIn (-128) 127 (by omega) r.n j r.k r.b hb
  have hzai : 0 ≤ (r.za.map (·.getD i 0)).getD 0 ∧ (r.za.map (·.getD i 0)).getD 0 ≤ 255 := by
    cases hz : r.za with
    | none => simp
    | some l => simpa using getD_allIn 0 255 (by omega) l (hza l hz) i
  have hzbj : -128 ≤ (r.zb.map (·.getD j 0)).getD 0 ∧ (r.zb.map (·.getD j 0)).getD 0 ≤ 127 := by
    cases hz : r.zb with
    | none => simp
    | some l => simpa using getD_allIn (-128) 127 (by omega) l (hzb l hz) j
  exact c17_no_i32_overflow _ _ hzai hzbj _ _ hrow hcol (by rw [rowOf_length r.k r.a i hik]; exact hK)

/-- `gemmChecked` never defaults: an `.ok` answer implies the request is well formed, the output
buffer has `m·n` elements, and the answer is `gemm r`. -/
theorem gemmChecked_ok (r : Request) (o : Nat) (l : List Int) (h : gemmChecked r o = .ok l) :
    r.WF ∧ o = r.m * r.n ∧ l = gemm r := by
  unfold gemmChecked at h
  by_cases hab : (r.a.length != r.m * r.k || r.b.length != r.k * r.n) = true
  · rw [if_pos hab] at h; cases h
  · rw [if_neg hab] at h
    simp only [Bool.or_eq_true, bne_iff_ne, ne_eq, not_or, Decidable.not_not] at hab
    cases hargs : checkGemmArgs r.m r.k r.k r.n (r.za.map (·.length)) (r.zb.map (·.length)) o with
    | error e => rw [hargs] at h; cases h
    | ok u =>
      rw [hargs] at h
      simp only [] at h
      by_cases hc : ((r.c0.map (·.length)).any (· != r.m * r.n)) = true
      · rw [if_pos hc] at h; cases h
      · rw [if_neg hc] at h
        unfold checkGemmArgs at hargs
        simp only [bne_self_eq_false, Bool.false_eq_true, if_false] at hargs
        by_cases hza : ((r.za.map (·.length)).any (· != r.m)) = true
        · rw [if_pos hza] at hargs; cases hargs
        · rw [if_neg hza] at hargs
          by_cases hzb : ((r.zb.map (·.length)).any (· != r.n)) = true
          · rw [if_pos hzb] at hargs; cases hargs
          · rw [if_neg hzb] at hargs
            by_cases ho : (o != r.m * r.n) = true
            · rw [if_pos ho] at hargs; cases hargs
            · simp only [Except.ok.injEq] at h
              refine ⟨⟨hab.1, hab.2, ?_, ?_, ?_⟩, ?_, h.symm⟩
              · intro z hz; simp [hz] at hza; exact hza
              · intro z hz; simp [hz] at hzb; exact hzb
              · intro z hz; simp [hz] at hc; exact hc
              · simpa using ho

def errOf {α : Type} : Except GemmErr α → Option GemmErr
  | .error e => some e
  | .ok _ => none

/-- Non-vacuity: `exampleRequest` is well formed and meets every hypothesis. -/
example : exampleRequest.a.length = exampleRequest.m * exampleRequest.k ∧
    exampleRequest.b.length = exampleRequest.k * exampleRequest.n ∧
    (gemmChecked exampleRequest 4).toOption = some [23171, -30804, -34051, 29081] ∧
    errOf (gemmChecked exampleRequest 5) = some .outputSizeMismatch ∧
    errOf (checkGemmArgs 2 5 4 2 none none 4) = some .kSizeMismatch ∧
    errOf (checkGemmArgs 2 5 5 2 (some 3) none 4) = some .wrongQuantParamSize := by decide

/-- Request with B prepacked and a non-zero B zero point. -/
def prepackedRequest : Request :=
  { kern := .simd, sat := false, kc := 1024, gemv := false, bKind := .unitColStride, lanes := 32,
    cb := 128, preA := false, preB := true, m := 1, n := 1, k := 1,
    za := some [0], zb := some [47], c0 := none, a := [127], b := [0] }

/-- **Finding (fixed, `findings/C17.json`: `C17-prepacked-*-zero-points-ignored`)** Before the
fix the SIMD kernels read zero points only from the panel metadata (`effZeroOld`), and
`prepack_a`/`prepack_b` pack with `quant = None`, so zero points passed to `gemm` together with a
prepacked operand were silently ignored.  Witness reproduced on the real AVX2/AVX-512 kernels of
the unchanged tree: `a = [127]`, `b = [0]`, `zb = [47]`, B prepacked → `0`, exact value `−5969`.
With the fixed code (`effZero`) the same request is exact. -/
theorem c17_prepacked_zero_points_were_ignored :
    dotZ 0 (effZeroOld .simd prepackedRequest.preB prepackedRequest.zb 0) [127] [0] = 0 ∧
    dotZ 0 47 [127] [0] = -5969 ∧ entry prepackedRequest 0 0 = -5969 := by decide

/-- **Finding (fixed, `findings/C17.json`)** before the fix every *full* panel stored the zero
points of panel 0 (`zp[r]`), e.g. row 6 of an `MR = 6` kernel got the zero point of row 0. -/
example : panelZeroPointIdxOld 6 1 0 = 0 ∧ panelZeroPointIdx 6 1 0 = 6 := by decide

end RtenVerif.QuantGemm
