import RtenVerif.Lemmas.GemmImpl
import RtenVerif.Lemmas.GemmPack
import RtenVerif.Lemmas.GemmPrepack
import RtenVerif.Generated.GemmConsts

/-!
# C16 — Matrix multiplication is correct for every kernel and shape

Property text: *for any operand shapes (including zero-sized and sizes around block and tile
boundaries), any strides, alpha, beta, bias vector, prepacked or im2col form, and every kernel
usable on the machine, GEMM computes `alpha*A*B + beta*C + bias` within floating-point tolerance,
and initializes every output element.  When beta is zero, prior output contents never influence
the result.*

What is proved here (over the model `RtenVerif/Model/Gemm.lean` of `gemm_impl`, for **every**
`M N K`, every tile size `mr nr > 0`, every block size with `mr ∣ mc`, `nr ∣ nc`, `kc > 0`, every
commutative semiring of scalars):

* T1 `c16_partition`, `c16_depth_partition`, `c16_calls_valid`: the kernel calls touching an output
  element are exactly its tile `(r / mr, c / nr)`, once per depth block, in depth order; calls
  touch nothing outside `M × N`; the tile indices are in range (the `assert!` of
  `OutputTiles::tile` cannot fire); depth blocks tile `[0, K)` exactly once.
* T2 `c16_schedule_result`: running the schedule from any output state gives, element-wise, one
  un-blocked application `alpha·Σ_{k<K} A[r,k]·B[k,c] + beta·C[r,c]` followed by the bias;
  `c16_beta_zero_initializes`: with `beta = 0` every element is written, whatever the prior
  contents (even uninitialised); `c16_beta_nonzero`: the closed form for initialised outputs.
* `c16_block_sizes_ok`: the block sizes the code computes (`col_block_size`, `row_block_size`,
  `depth_block_size` with the constants regenerated from the source) satisfy the hypotheses.
* zero-depth branch `c16_zero_depth`.
* T4 `c16_gemv_result`: the gemv fast path (column blocks × k blocks with effective beta, bias per
  column block) gives the same element-wise result, for every `N`, `K > 0`, thread count.
* `c16_gemmImpl_result`: the modelled `gemm_impl` end to end — branch selection (`gemmPath`),
  block sizes plugged into `schedule`, empty / zero-depth / gemv / general path — every `Ok`
  answer is `alpha·A·B + beta·C + bias` element-wise with nothing else touched;
  `c16_gemmImpl_accepts_iff_valid`: `Ok` only for consistent sizes, and always for well-formed
  requests (unpacked, or prepacked by the same kernel).
* T3 `c16_packA_slots/_length/_offset/_slot_unique`, `c16_packB_…`: the slot order written by
  `pack_a_block` / `pack_b_block` is, for every block size, tile size and edge panel, a bijection
  between the block's elements and the non-padding slots of the panels (`panel_stride = MR·cols`
  resp. `rows·NR`, row-major inside), every other slot being zero.  `c16_packed_tile_dot`: a
  kernel reading those panels as `simd_gemm` indexes them accumulates exactly the
  `dot A B r c dStart (dEnd - dStart)` that T2 charges each call with (T3 feeds T2);
  `c16_panels_match_tiles`: as many panels as tiles, so `gemm_block`'s panel slices are in bounds.
  The model functions of T3 are driven against the real `pack_a_block`/`pack_b_block` (`pack`
  requests of the harness).
* Strides: `c16_packA_src`, `c16_packB_src`, `c16_packed_tile_dot_strided` — arbitrary row/column
  strides of A and B (`packsrc` requests); seed C16_b refuted (`c16_packB_src_seedB_refuted`).
* Prepacked operands: `c16_prepacked_block_in_bounds`, `c16_prepacked_block_is_packed_block`,
  `c16_prepackedB_block_is_packed_block` — `PackedMatrixBase::block` incl. the short tail depth
  block (`pblock` requests); seed C16_c refuted (`c16_prepacked_block_seedC_refuted`).

**Partial**: the micro-kernels (SIMD code, their use of the packed panels), floating-point
rounding, the thread schedule (the model is the sequential order; per-tile order is what the
proof uses) and ISAs not present on the test host are outside the model; they are covered by the
differential harness only.
-/
namespace RtenVerif.Gemm

/-- The source text of the blocking functions / loop nests still has the shape the model encodes
(flags regenerated from /repo by `translate/gemm_consts.py` on every run). -/
theorem c16_source_shapes_ok : Generated.allShapesOk = true := by decide

/-- Every f32 kernel in the source has positive tile sizes, and the regenerated constants are
positive (so every block size is positive). -/
theorem c16_consts_ok :
    (Generated.f32Kernels.all fun k => decide (0 < k.2.1) && decide (0 < k.2.2)) = true ∧
    0 < Generated.consts.depthBytes / Generated.f32Size ∧ 0 < Generated.consts.colLower ∧
    0 < Generated.consts.colUpper ∧ 0 < Generated.consts.rowMax := by decide

/-! ## T1: partition -/

/-- **T1 (tiles).** For block sizes that are multiples of the tile sizes, the calls of the
schedule that write element `(r, c)` of the output are exactly the tile `(r / mr, c / nr)`, once
per depth block, in depth order. -/
theorem c16_partition {M N K mr nr mc nc kc : Nat} (hmr : 0 < mr) (hnr : 0 < nr)
    (hmc : 0 < mc) (hnc : 0 < nc) (hdm : mr ∣ mc) (hdn : nr ∣ nc)
    {r c : Nat} (hr : r < M) (hc : c < N) :
    (schedule M N K mr nr mc nc kc).filter (fun cl => cl.covers mr nr r c) =
      (depthBlocks K kc).map (fun d => mkCall M N mr nr d (r / mr) (c / nr)) := by
  obtain ⟨qm, hqm⟩ := hdm
  obtain ⟨qn, hqn⟩ := hdn
  have hqm' : mc = qm * mr := by rw [hqm, Nat.mul_comm]
  have hqn' : nc = qn * nr := by rw [hqn, Nat.mul_comm]
  have : 0 < qm := by
    rcases Nat.eq_zero_or_pos qm with h | h
    · subst h; omega
    · exact h
  have : 0 < qn := by
    rcases Nat.eq_zero_or_pos qn with h | h
    · subst h; omega
    · exact h
  exact schedule_filter hmr hnr ‹0 < qm› ‹0 < qn› hqm' hqn' hr hc

example : (schedule 7 20 5 6 16 6 32 5).filter (fun cl => cl.covers 6 16 6 17) =
    [mkCall 7 20 6 16 (0, 5) 1 1] := by decide

/-- The divisibility hypothesis is needed: with `nc = 3` not a multiple of `nr = 2` the tile of
column 2 is visited by two column blocks. -/
theorem c16_partition_needs_dvd :
    ((schedule 1 4 1 1 2 1 3 1).filter (fun cl => cl.covers 1 2 0 2)).length = 2 := by decide

/-- **T1 (exactly once per depth block).** -/
theorem c16_partition_count {M N K mr nr mc nc kc : Nat} (hmr : 0 < mr) (hnr : 0 < nr)
    (hmc : 0 < mc) (hnc : 0 < nc) (hdm : mr ∣ mc) (hdn : nr ∣ nc)
    {r c : Nat} (hr : r < M) (hc : c < N) :
    ((schedule M N K mr nr mc nc kc).filter (fun cl => cl.covers mr nr r c)).length =
      (depthBlocks K kc).length := by
  rw [c16_partition hmr hnr hmc hnc hdm hdn hr hc, List.length_map]

/-- **T1 (depth).** The depth blocks tile `[0, K)`: every `k < K` lies in exactly one block and
no block contains anything else. -/
theorem c16_depth_partition {K kc : Nat} (hkc : 0 < kc) (k : Nat) :
    (depthBlocks K kc).countP (fun d => decide (d.1 ≤ k) && decide (k < d.2)) =
      if k < K then 1 else 0 := by
  unfold depthBlocks
  rw [rangeChunks_countP kc hkc k K 0 K (by omega)]
  simp

/-- `kc = 0` would make `range_chunks` loop forever (the model runs out of fuel instead): the
guard `kc > 0` is needed, and `depth_block_size` guarantees it (`c16_block_sizes_ok`). -/
example : (depthBlocks 3 0).countP (fun d => decide (d.1 ≤ 1) && decide (1 < d.2)) = 0 := by decide

/-- **T1 (validity).** Every call is a tile of the output grid (so `OutputTiles::tile`'s assertion
holds), covers only elements inside `M × N`, and its depth range is a non-empty block inside
`[0, K)` of length at most `kc`. -/
theorem c16_calls_valid {M N K mr nr mc nc kc : Nat} (hmr : 0 < mr) (hnr : 0 < nr) (hkc : 0 < kc)
    {cl : Call} (h : cl ∈ schedule M N K mr nr mc nc kc) :
    cl.rowTile < divCeil M mr ∧ cl.colTile < divCeil N nr ∧
    cl.dStart < cl.dEnd ∧ cl.dEnd ≤ K ∧ cl.dEnd ≤ cl.dStart + kc ∧
    (cl.betaUser = true ↔ cl.dStart = 0) ∧ (cl.bias = true ↔ cl.dStart = 0) ∧
    ∀ r c, cl.covers mr nr r c = true → r < M ∧ c < N := by
  obtain ⟨d, hd, rt, ct, rfl, hrt, hct⟩ := schedule_mem hmr hnr h
  have hm := rangeChunks_mem kc hkc _ _ _ d hd
  refine ⟨hrt, hct, hm.2.1, hm.2.2.1, hm.2.2.2, ?_, ?_, ?_⟩
  · simp [mkCall]
  · simp [mkCall]
  · intro r c hcv; exact covers_mkCall_in_range d rt ct hcv

/-! ## T2: result -/

section
variable {α : Type} [CommSemiring α] [DecidableEq α]

/-- **T2.** Running the blocked schedule on any output state equals, for every element of the
output, a single un-blocked kernel application over the whole depth `K` with the caller's
`beta`, followed by the bias; elements outside `M × N` are untouched. -/
theorem c16_schedule_result (h1 : (1 : α) ≠ 0) {M N K mr nr mc nc kc : Nat}
    (hmr : 0 < mr) (hnr : 0 < nr) (hmc : 0 < mc) (hnc : 0 < nc) (hkc : 0 < kc) (hK : 0 < K)
    (hdm : mr ∣ mc) (hdn : nr ∣ nc)
    (alpha beta : α) (bias : Bias α) (A B : Nat → Nat → α) (C : OutMat α) (r c : Nat) :
    runCalls mr nr alpha beta bias A B C (schedule M N K mr nr mc nc kc) r c =
      if r < M ∧ c < N then
        addBias bias r c (kernelElem alpha (dot A B r c 0 K) beta (C r c))
      else C r c := by
  rw [runCalls_elem]
  split
  · rename_i h
    rw [c16_partition hmr hnr hmc hnc hdm hdn h.1 h.2, depth_fold h1 _ _ _ _ _ _ _ _ _ _ _ _ _ _ _ hK hkc]
    rfl
  · rename_i h
    have : (schedule M N K mr nr mc nc kc).filter (fun cl => cl.covers mr nr r c) = [] := by
      rw [List.filter_eq_nil_iff]
      intro cl hcl hcv
      exact h ((c16_calls_valid hmr hnr hkc hcl).2.2.2.2.2.2.2 r c hcv)
    rw [this]; rfl

/-- The value added by the bias vector (zero when there is none). -/
def biasVal (bias : Bias α) (r c : Nat) : α :=
  match bias with
  | .none => 0
  | .row b => b c
  | .col b => b r

/-- **T2, beta = 0: every element is initialised and prior contents never matter.** Whatever
the output held before (including uninitialised memory, `none`), each element of the `M × N`
output ends up `some (alpha·Σ A·B + bias)`. -/
theorem c16_beta_zero_initializes (h1 : (1 : α) ≠ 0) {M N K mr nr mc nc kc : Nat}
    (hmr : 0 < mr) (hnr : 0 < nr) (hmc : 0 < mc) (hnc : 0 < nc) (hkc : 0 < kc) (hK : 0 < K)
    (hdm : mr ∣ mc) (hdn : nr ∣ nc)
    (alpha : α) (bias : Bias α) (A B : Nat → Nat → α) (C : OutMat α) {r c : Nat}
    (hr : r < M) (hc : c < N) :
    runCalls mr nr alpha 0 bias A B C (schedule M N K mr nr mc nc kc) r c =
      some (alpha * dot A B r c 0 K + biasVal bias r c) := by
  rw [c16_schedule_result h1 hmr hnr hmc hnc hkc hK hdm hdn]
  simp only [hr, hc, and_self, if_true, kernelElem]
  cases bias <;> simp [addBias, biasVal]

/-- **T2, general beta** on an initialised output element. -/
theorem c16_beta_nonzero (h1 : (1 : α) ≠ 0) {M N K mr nr mc nc kc : Nat}
    (hmr : 0 < mr) (hnr : 0 < nr) (hmc : 0 < mc) (hnc : 0 < nc) (hkc : 0 < kc) (hK : 0 < K)
    (hdm : mr ∣ mc) (hdn : nr ∣ nc)
    (alpha beta : α) (bias : Bias α) (A B : Nat → Nat → α) (C : OutMat α) {r c : Nat}
    (hr : r < M) (hc : c < N) (x : α) (hx : C r c = some x) :
    runCalls mr nr alpha beta bias A B C (schedule M N K mr nr mc nc kc) r c =
      some (alpha * dot A B r c 0 K + beta * x + biasVal bias r c) := by
  rw [c16_schedule_result h1 hmr hnr hmc hnc hkc hK hdm hdn]
  simp only [hr, hc, and_self, if_true, kernelElem, hx]
  by_cases hb : beta = 0
  · subst hb; cases bias <;> simp [addBias, biasVal]
  · cases bias <;> simp [addBias, biasVal, hb]

/-- **Zero-depth branch** (`a.cols() == 0`): `beta·C + bias`, and with `beta = 0` every element
is written whatever the prior contents. -/
theorem c16_zero_depth (M N : Nat) (beta : α) (bias : Bias α) (C : OutMat α) {r c : Nat}
    (hr : r < M) (hc : c < N) :
    zeroDepth M N beta bias C r c =
      if beta = 0 then some (biasVal bias r c)
      else (C r c).map (fun x => beta * x + biasVal bias r c) := by
  simp only [zeroDepth, hr, hc, and_self, if_true]
  by_cases hb : beta = 0
  · simp only [hb, if_true]; cases bias <;> simp [addBias, biasVal]
  · simp only [hb, if_false]
    cases hC : C r c with
    | none => cases bias <;> simp [addBias]
    | some x => cases bias <;> simp [addBias, biasVal, mul_comm]

end

/-! ## Block sizes computed by the code -/

/-- The block sizes `gemm_impl` computes satisfy the hypotheses of T1/T2, for every shape, every
kernel tile size and every thread count, provided the constants are positive
(`c16_consts_ok` checks that for the regenerated ones). -/
theorem c16_block_sizes_ok (k : BlockConsts) (elemSize : Nat)
    (hd : 0 < k.depthBytes / elemSize) (hcl : 0 < k.colLower) (hcu : 0 < k.colUpper)
    (hrm : 0 < k.rowMax) {M N K mr nr threads : Nat} (hmr : 0 < mr) (hnr : 0 < nr)
    (hM : 0 < M) (hN : 0 < N) (hK : 0 < K) (minSize : Option Nat) :
    0 < rowBlockSize k M mr ∧ mr ∣ rowBlockSize k M mr ∧
    0 < colBlockSize k N nr threads ∧ nr ∣ colBlockSize k N nr threads ∧
    0 < depthBlockSize k elemSize K minSize := by
  refine ⟨?_, nextMultipleOf_dvd hmr, ?_, nextMultipleOf_dvd hnr, ?_⟩
  · have := nextMultipleOf_ge (min k.rowMax M) mr
    unfold rowBlockSize; omega
  · have := nextMultipleOf_ge (min (max (N / threads) (min k.colLower N)) k.colUpper) nr
    unfold colBlockSize; omega
  · unfold depthBlockSize; omega

example : rowBlockSize Generated.consts 70 6 = 66 ∧ colBlockSize Generated.consts 300 16 4 = 128 ∧
    depthBlockSize Generated.consts 4 300 none = 256 := by decide

/-! ## T4: the gemv fast path and `gemm_impl` end to end -/

section
variable {α : Type} [CommSemiring α] [DecidableEq α]

/-- **T4.** The vector-matrix fast path (column blocks × k blocks, effective beta = caller's beta
on the first k block and one afterwards, bias at the end of each column block) gives the same
element-wise result as the general path (`c16_schedule_result` with `M = 1`): one un-blocked
kernel application over `[0, K)` followed by the bias, for every `N`, `K > 0`, thread count and
stride class of B; nothing outside row 0 / columns `< N` is touched. -/
theorem c16_gemv_result (h1 : (1 : α) ≠ 0) (k : BlockConsts) (hcm : 0 < k.gemvColMin)
    (hku : 0 < k.gemvKUnitRow) (hko : 0 < k.gemvKOther) {N K threads : Nat} (hK : 0 < K)
    (rs1 : Bool) (alpha beta : α) (bias : Bias α) (A B : Nat → Nat → α) (C : OutMat α)
    (r c : Nat) :
    runGemv alpha beta bias A B C (gemvSchedule k N K threads rs1) r c =
      if r = 0 ∧ c < N then
        addBias bias 0 c (kernelElem alpha (dot A B 0 c 0 K) beta (C 0 c))
      else C r c := by
  by_cases hr : r = 0
  · subst hr
    rw [runGemv_elem]
    by_cases hc : c < N
    · have hkbs : 0 < (if rs1 = true then k.gemvKUnitRow else k.gemvKOther) := by
        split <;> assumption
      rw [gemvSchedule_filter k N K threads rs1 hcm hc, gemvBlock_fold h1 _ _ _ _ _ _ _ _ _ hK hkbs]
      simp [hc]
    · rw [gemvSchedule_filter_out k N K threads rs1 hc]
      simp [hc]
  · rw [runGemv_other_rows _ _ _ _ _ hr]
    simp [hr]

example : (gemvSchedule Generated.consts 300 600 4 true).length = 3 * (2 + 1) := by decide

/-- **`gemm_impl`, top level, no unproved step.** Whenever the modelled `gemm_impl` returns `Ok`
— through the empty-output branch, the zero-depth branch, the gemv fast path or the blocked
general path with the block sizes computed by `col_block_size` / `row_block_size` /
`depth_block_size` — every element of the `M × N` output is one kernel application over the
whole depth with the caller's beta followed by the bias, and everything else is untouched. -/
theorem c16_gemmImpl_result (h1 : (1 : α) ≠ 0) {k : BlockConsts} {kern : KernelCfg} {p : Problem}
    (hd : 0 < k.depthBytes / kern.elemSize) (hcl : 0 < k.colLower) (hcu : 0 < k.colUpper)
    (hrm : 0 < k.rowMax) (hcm : 0 < k.gemvColMin) (hku : 0 < k.gemvKUnitRow)
    (hko : 0 < k.gemvKOther) (hmr : 0 < kern.mr) (hnr : 0 < kern.nr)
    (alpha beta : α) (bias : Bias α) (A B : Nat → Nat → α) (C : OutMat α) {out : OutMat α}
    (h : gemmImpl k kern p alpha beta bias A B C = .ok out) (r c : Nat) :
    out r c =
      if r < p.M ∧ c < p.N then
        addBias bias r c (kernelElem alpha (dot A B r c 0 p.Ka) beta (C r c))
      else C r c := by
  unfold gemmImpl at h
  cases hp : gemmPath k kern p with
  | error e => rw [hp] at h; cases h
  | ok path =>
    rw [hp] at h
    obtain ⟨_, hcases⟩ := gemmPath_ok hp
    rcases hcases with ⟨rfl, hz⟩ | ⟨rfl, hM, hN, hKa⟩ | ⟨rfl, hM, hN, hKa⟩
    · dsimp only at h
      split at h
      · rename_i hmn
        cases h
        rw [if_neg (by omega)]
      · rename_i hmn
        cases h
        have hKa : p.Ka = 0 := by omega
        by_cases hrc : r < p.M ∧ c < p.N
        · rw [if_pos hrc, hKa]
          simp only [zeroDepth, hrc, and_self, if_true, kernelElem, dot, sumFrom]
          congr 1
          by_cases hb : beta = 0
          · simp [hb]
          · simp only [hb, if_false]
            cases C r c with
            | none => rfl
            | some x => simp [mul_comm]
        · rw [if_neg hrc]; simp [zeroDepth, hrc]
    · dsimp only at h
      cases h
      rw [c16_gemv_result h1 k hcm hku hko (by omega)]
      by_cases hr : r = 0
      · subst hr; simp [hM]
      · have : ¬ r < p.M := by omega
        simp [hr, this]
    · dsimp only at h
      cases h
      obtain ⟨b1, b2, b3, b4, b5⟩ := c16_block_sizes_ok k kern.elemSize hd hcl hcu hrm
        (M := p.M) (N := p.N) (K := p.Ka) (threads := p.threads) hmr hnr
        (by omega) (by omega) (by omega) none
      exact c16_schedule_result h1 hmr hnr b1 b3 b5 (by omega) b2 b4 alpha beta bias A B C r c

/-- `gemm_impl` only answers `Ok` for consistent sizes (otherwise it is one of the size errors),
and a well-formed request — consistent sizes, operands unpacked or prepacked by the same kernel —
is never rejected. -/
theorem c16_gemmImpl_accepts_iff_valid {k : BlockConsts} {kern : KernelCfg} {p : Problem}
    (alpha beta : α) (bias : Bias α) (A B : Nat → Nat → α) (C : OutMat α) :
    ((∃ out, gemmImpl k kern p alpha beta bias A B C = .ok out) →
      p.Ka = p.Kb ∧ biasLenBad p.rowBiasLen p.N = false ∧ biasLenBad p.colBiasLen p.M = false ∧
        biasLenBad p.aQuantLen p.M = false ∧ biasLenBad p.bQuantLen p.N = false ∧
        p.outLen = p.M * p.N) ∧
    (p.Ka = p.Kb → biasLenBad p.rowBiasLen p.N = false → biasLenBad p.colBiasLen p.M = false →
      biasLenBad p.aQuantLen p.M = false → biasLenBad p.bQuantLen p.N = false →
      p.outLen = p.M * p.N →
      (p.aPacked = none ∨ p.aPacked = some (prepackMeta k kern true p.Ka)) →
      (p.bPacked = none ∨ p.bPacked = some (prepackMeta k kern false p.Kb)) →
      ∃ out, gemmImpl k kern p alpha beta bias A B C = .ok out) := by
  constructor
  · rintro ⟨out, h⟩
    unfold gemmImpl at h
    cases hp : gemmPath k kern p with
    | error e => rw [hp] at h; cases h
    | ok path => exact (gemmPath_ok hp).1
  · intro hK hb1 hb2 hq1 hq2 hol ha hb
    obtain ⟨path, hp⟩ := gemmPath_valid hK hb1 hb2 hq1 hq2 hol ha hb
    unfold gemmImpl
    rw [hp]
    cases path with
    | none => dsimp only; split <;> exact ⟨_, rfl⟩
    | gemv evs => exact ⟨_, rfl⟩
    | gemm mc nc kc calls => exact ⟨_, rfl⟩

end

/-! ## T3: packed panel layouts

`packASlots mr rows cols` / `packBSlots nr rows cols` list, in write order, what
`pack_a_block::<_, MR>` / `pack_b_block::<_, NR>` store for a `rows × cols` block: `some (row, col)`
= that element of the block, `none` = zero padding.  The kernel reads panel `t` of the block at
`t · panel_stride` with `panel_stride = MR·cols` (A) / `rows·NR` (B) elements
(`packed_a_layout` / `packed_b_layout`), row-major `MR × cols` (A) / `rows × NR` (B) inside. -/

/-- **T3 (A), slot formula**, for every block size, tile size and edge panel: slot
`p·(MR·cols) + j·cols + col` of panel `p` holds element `(p·MR + j, col)`, or zero if that row is
beyond the block (edge panel). -/
theorem c16_packA_slots (mr rows cols : Nat) (hmr : 0 < mr) {p j col : Nat} (hp : p * mr < rows)
    (hj : j < mr) (hc : col < cols) :
    (packASlots mr rows cols)[p * (mr * cols) + (j * cols + col)]? =
      some (if p * mr + j < rows then some (p * mr + j, col) else none) :=
  packASlots_get mr rows cols hmr hp hj hc

/-- The packed A block has exactly `ceil(rows/MR)` panels of `MR·cols` slots
(`packed_a_layout`: `rows.next_multiple_of(MR) * cols`). -/
theorem c16_packA_length (mr rows cols : Nat) (hmr : 0 < mr) :
    (packASlots mr rows cols).length = divCeil rows mr * (mr * cols) :=
  packASlots_length mr rows cols hmr

/-- **T3 (A), every element is stored** at `packAOffset`. -/
theorem c16_packA_offset (mr rows cols : Nat) (hmr : 0 < mr) {row col : Nat} (hr : row < rows)
    (hc : col < cols) :
    (packASlots mr rows cols)[packAOffset mr cols row col]? = some (some (row, col)) := by
  unfold packAOffset
  have h1 := Nat.div_add_mod' row mr
  have h2 := Nat.mod_lt row hmr
  have h3 := Nat.div_mul_le_self row mr
  rw [Nat.add_assoc, packASlots_get mr rows cols hmr (by omega) h2 hc, h1]
  simp [hr]

/-- **T3 (A), bijection**: a slot that holds an element holds an element of the block, and it is
the slot `packAOffset` of that element; so elements ↔ non-padding slots is one-to-one, and every
other slot is zero (`none`). -/
theorem c16_packA_slot_unique (mr rows cols : Nat) (hmr : 0 < mr) {i r c : Nat}
    (h : (packASlots mr rows cols)[i]? = some (some (r, c))) :
    r < rows ∧ c < cols ∧ i = packAOffset mr cols r c := by
  have hi : i < (packASlots mr rows cols).length := by
    apply Nat.lt_of_not_le
    intro hn
    rw [List.getElem?_eq_none hn] at h
    cases h
  rw [packASlots_length mr rows cols hmr] at hi
  obtain ⟨hp, hj, hcol, hdec⟩ := decomp3 hi
  have hpm : i / (mr * cols) * mr < rows := by
    have : ¬ divCeil rows mr ≤ i / (mr * cols) := by omega
    rw [divCeil_le_iff hmr] at this
    omega
  have hs := packASlots_get mr rows cols hmr hpm hj hcol
  rw [← hdec, h] at hs
  by_cases hlt : i / (mr * cols) * mr + i % (mr * cols) / cols < rows
  · simp only [hlt, if_true, Option.some.injEq, Prod.mk.injEq] at hs
    obtain ⟨hr, hc⟩ := hs
    subst hr hc
    refine ⟨hlt, hcol, ?_⟩
    unfold packAOffset
    have e1 : (i / (mr * cols) * mr + i % (mr * cols) / cols) / mr = i / (mr * cols) := by
      rw [Nat.mul_comm _ mr, Nat.mul_add_div hmr, Nat.div_eq_of_lt hj, Nat.add_zero]
    have e2 : (i / (mr * cols) * mr + i % (mr * cols) / cols) % mr = i % (mr * cols) / cols := by
      rw [Nat.mul_comm _ mr, Nat.mul_add_mod, Nat.mod_eq_of_lt hj]
    rw [e1, e2, Nat.add_assoc]
    exact hdec
  · rw [if_neg hlt] at hs; cases hs

/-- **T3 (B), slot formula**: slot `panel·(rows·NR) + row·NR + j` holds element
`(row, panel·NR + j)`, or zero if that column is beyond the block (edge panel). -/
theorem c16_packB_slots (nr rows cols : Nat) {panel row j : Nat} (hp : panel < divCeil cols nr)
    (hr : row < rows) (hj : j < nr) :
    (packBSlots nr rows cols)[panel * (rows * nr) + (row * nr + j)]? =
      some (if panel * nr + j < cols then some (row, panel * nr + j) else none) :=
  packBSlots_get nr rows cols hp hr hj

/-- The packed B block has exactly `ceil(cols/NR)` panels of `rows·NR` slots
(`packed_b_layout`: `cols.next_multiple_of(NR) * rows`). -/
theorem c16_packB_length (nr rows cols : Nat) :
    (packBSlots nr rows cols).length = divCeil cols nr * (rows * nr) :=
  packBSlots_length nr rows cols

/-- **T3 (B), every element is stored** at `packBOffset`. -/
theorem c16_packB_offset (nr rows cols : Nat) (hnr : 0 < nr) {row col : Nat} (hr : row < rows)
    (hc : col < cols) :
    (packBSlots nr rows cols)[packBOffset nr rows row col]? = some (some (row, col)) := by
  unfold packBOffset
  have h1 := Nat.div_add_mod' col nr
  have h2 := Nat.mod_lt col hnr
  rw [Nat.add_assoc, packBSlots_get nr rows cols (div_lt_divCeil hnr hc) hr h2, h1]
  simp [hc]

/-- **T3 (B), bijection.** -/
theorem c16_packB_slot_unique (nr rows cols : Nat) (hnr : 0 < nr) {i r c : Nat}
    (h : (packBSlots nr rows cols)[i]? = some (some (r, c))) :
    r < rows ∧ c < cols ∧ i = packBOffset nr rows r c := by
  have hi : i < (packBSlots nr rows cols).length := by
    apply Nat.lt_of_not_le
    intro hn
    rw [List.getElem?_eq_none hn] at h
    cases h
  rw [packBSlots_length] at hi
  obtain ⟨hp, hrow, hj, hdec⟩ := decomp3 hi
  have hs := packBSlots_get nr rows cols hp hrow hj
  rw [← hdec, h] at hs
  by_cases hlt : i / (rows * nr) * nr + i % (rows * nr) % nr < cols
  · simp only [hlt, if_true, Option.some.injEq, Prod.mk.injEq] at hs
    obtain ⟨hr, hc⟩ := hs
    subst hr hc
    refine ⟨hrow, hlt, ?_⟩
    unfold packBOffset
    have e1 : (i / (rows * nr) * nr + i % (rows * nr) % nr) / nr = i / (rows * nr) := by
      rw [Nat.mul_comm _ nr, Nat.mul_add_div hnr, Nat.div_eq_of_lt hj, Nat.add_zero]
    have e2 : (i / (rows * nr) * nr + i % (rows * nr) % nr) % nr = i % (rows * nr) % nr := by
      rw [Nat.mul_comm _ nr, Nat.mul_add_mod, Nat.mod_eq_of_lt hj]
    rw [e1, e2, Nat.add_assoc]
    exact hdec
  · rw [if_neg hlt] at hs; cases hs

example : packASlots 2 3 2 =
    [some (0, 0), some (0, 1), some (1, 0), some (1, 1), some (2, 0), some (2, 1), none, none] := by
  decide
example : packBSlots 2 2 3 =
    [some (0, 0), some (0, 1), some (1, 0), some (1, 1), some (0, 2), none, some (1, 2), none] := by
  decide

/-! ## T3 ∘ kernel: a panel-reading micro-kernel computes the block dot product

Connects T3 to T2: `runCalls` charges each kernel call with `dot A B r c dStart (dEnd - dStart)`.
`panelDot` is what a kernel that reads the packed panels the way `simd_gemm` does (A panel element
`(x, k)` at `x·depth + k`, B panel element `(k, y)` at `k·NR + y`, panel `i` at `i·panel_stride`)
accumulates.  On the panels produced by `pack_a_block` / `pack_b_block` it is exactly that dot
product, for every tile of the block including edge tiles. -/

theorem sumFrom_shift {α : Type} [Add α] [Zero α] (f g : Nat → α) (a b : Nat) :
    ∀ n, (∀ k, k < n → f (a + k) = g (b + k)) → sumFrom f a n = sumFrom g b n := by
  intro n
  induction n with
  | zero => intro _; rfl
  | succ n ih =>
    intro h
    simp only [sumFrom]
    rw [ih (fun k hk => h k (by omega)), h n (by omega)]

/-- **T3 ∘ kernel.** For the block `rows [rs, re) × depth [ds, de) × cols [cs, ce)`, the tile
`(i, jt)` of the block and an element `(x, y)` of that tile that exists (`i·MR + x < re - rs`,
`jt·NR + y < ce - cs`): the panel-reading kernel's accumulation over the packed panels equals
`Σ_{k ∈ [ds, de)} A[rs + i·MR + x, k] · B[k, cs + jt·NR + y]`. -/
theorem c16_packed_tile_dot {α : Type} [Add α] [Mul α] [Zero α] (A B : Nat → Nat → α)
    {mr nr rs re ds de cs ce i jt x y : Nat} (hmr : 0 < mr)
    (hx : x < mr) (hy : y < nr) (hrow : i * mr + x < re - rs) (hcol : jt * nr + y < ce - cs) :
    panelDot (packAVals A mr rs re ds de) (packBVals B nr ds de cs ce) mr nr (de - ds) i jt x y =
      dot A B (rs + (i * mr + x)) (cs + (jt * nr + y)) ds (de - ds) := by
  unfold panelDot dot
  apply sumFrom_shift
  intro k hk
  have hnr : 0 < nr := by omega
  have hA : (packAVals A mr rs re ds de).getD (i * (mr * (de - ds)) + (x * (de - ds) + (0 + k))) 0 =
      A (rs + (i * mr + x)) (ds + k) := by
    unfold packAVals
    rw [List.getD_eq_getElem?_getD, List.getElem?_map, Nat.zero_add,
      packASlots_get mr (re - rs) (de - ds) hmr (by omega) hx hk]
    simp [hrow]
  have hB : (packBVals B nr ds de cs ce).getD (jt * ((de - ds) * nr) + ((0 + k) * nr + y)) 0 =
      B (ds + k) (cs + (jt * nr + y)) := by
    unfold packBVals
    have hp : jt < divCeil (ce - cs) nr := by
      have : ¬ divCeil (ce - cs) nr ≤ jt := by
        rw [divCeil_le_iff hnr]; omega
      omega
    rw [List.getD_eq_getElem?_getD, List.getElem?_map, Nat.zero_add,
      packBSlots_get nr (de - ds) (ce - cs) hp hk hy]
    simp [hcol]
  rw [hA, hB]

example : panelDot (packAVals (fun r k => (10 * r + k : Int)) 2 0 3 0 2)
    (packBVals (fun k c => (k + 3 * c : Int)) 2 0 2 0 3) 2 2 2 1 1 0 0 =
    dot (fun r k => (10 * r + k : Int)) (fun k c => (k + 3 * c : Int)) 2 2 0 2 := by decide

/-! ## Arbitrary row / column strides

The operands reach `pack_a_block` / `pack_b_block` as views with arbitrary `(row_stride,
col_stride)`; element `(r, c)` lives at storage offset `r·row_stride + c·col_stride`. -/

/-- **Strides (B).** `pack_b_block` — both its full-panel branch (with the unit-column-stride
special case) and its padded-tail branch, offsets computed as in the source — reads for slot
`(k, c)` of the block exactly storage offset `(r0 + k)·row_stride + (c0 + c)·col_stride`, for
every stride pair and block position.  (Seed C16_b drops `col_stride` from `c0` in the tail
branch: `c16_packB_src_seedB_refuted`.) -/
theorem c16_packB_src (nr rstr cstr r0 r1 c0 c1 : Nat) :
    packBSrc nr rstr cstr r0 r1 c0 c1 =
      (packBSlots nr (r1 - r0) (c1 - c0)).map
        (Option.map fun kc => (r0 + kc.1) * rstr + (c0 + kc.2) * cstr) :=
  packBSrc_eq nr rstr cstr r0 r1 c0 c1

/-- The seeded tail-branch offset `(r0+row)·rs + c0 + (start+col)·cs` differs from the right one as
soon as `col_stride ≠ 1` and `c0 ≠ 0` (here strides (1, 5), block columns 2..3, NR = 2). -/
theorem c16_packB_src_seedB_refuted :
    packBSrc 2 1 5 0 1 2 3 = [some 10, none] ∧ (0 + 0) * 1 + 2 + (0 + 0) * 5 ≠ 10 := by decide

/-- **Strides (A).** Slot `(p·MR + j, col)` of the packed A block is read from storage offset
`(r0 + p·MR + j)·row_stride + (c0 + col)·col_stride`, zero padding beyond the block. -/
theorem c16_packA_src (mr rstr cstr r0 r1 c0 c1 : Nat) (hmr : 0 < mr) {p j col : Nat}
    (hp : r0 + p * mr < r1) (hj : j < mr) (hc : col < c1 - c0) :
    (packASrc mr rstr cstr r0 r1 c0 c1)[p * (mr * (c1 - c0)) + (j * (c1 - c0) + col)]? =
      some (if r0 + p * mr + j < r1 then some ((r0 + p * mr + j) * rstr + (c0 + col) * cstr)
        else none) :=
  packASrc_get mr rstr cstr r0 r1 c0 c1 hmr hp hj hc

/-- **T3 ∘ kernel with arbitrary strides.** Packing straight from the strided storage of A and B
and letting the panel-reading kernel run gives the block dot product of the *logical* matrices
`A[r,k] = dataA[r·ars + k·acs]`, `B[k,c] = dataB[k·brs + c·bcs]`. -/
theorem c16_packed_tile_dot_strided {α : Type} [Add α] [Mul α] [Zero α] (dataA dataB : Nat → α)
    {mr nr ars acs brs bcs rs re ds de cs ce i jt x y : Nat} (hmr : 0 < mr)
    (hx : x < mr) (hy : y < nr) (hrow : i * mr + x < re - rs) (hcol : jt * nr + y < ce - cs) :
    panelDot (srcVals dataA (packASrc mr ars acs rs re ds de))
        (srcVals dataB (packBSrc nr brs bcs ds de cs ce)) mr nr (de - ds) i jt x y =
      dot (fun r k => dataA (r * ars + k * acs)) (fun k c => dataB (k * brs + c * bcs))
        (rs + (i * mr + x)) (cs + (jt * nr + y)) ds (de - ds) := by
  unfold panelDot dot
  apply sumFrom_shift
  intro k hk
  have hnr : 0 < nr := by omega
  have hA : (srcVals dataA (packASrc mr ars acs rs re ds de)).getD
      (i * (mr * (de - ds)) + (x * (de - ds) + (0 + k))) 0 =
      dataA ((rs + (i * mr + x)) * ars + (ds + k) * acs) := by
    unfold srcVals
    rw [List.getD_eq_getElem?_getD, List.getElem?_map, Nat.zero_add,
      packASrc_get mr ars acs rs re ds de hmr (by omega) hx hk]
    have : rs + (i * mr + x) < re := by omega
    simp [this, Nat.add_assoc]
  have hB : (srcVals dataB (packBSrc nr brs bcs ds de cs ce)).getD
      (jt * ((de - ds) * nr) + ((0 + k) * nr + y)) 0 =
      dataB ((ds + k) * brs + (cs + (jt * nr + y)) * bcs) := by
    unfold srcVals
    have hp : jt < divCeil (ce - cs) nr := by
      have : ¬ divCeil (ce - cs) nr ≤ jt := by rw [divCeil_le_iff hnr]; omega
      omega
    rw [packBSrc_eq, List.getD_eq_getElem?_getD, List.getElem?_map, List.getElem?_map,
      Nat.zero_add, packBSlots_get nr (de - ds) (ce - cs) hp hk hy]
    simp [hcol]
  rw [hA, hB]

/-! ## Panel slices taken by `gemm_block` are in bounds -/

theorem divCeil_mul_add {a x t : Nat} (ht : 0 < t) : divCeil (a * t + x) t = a + divCeil x t := by
  unfold divCeil
  rw [Nat.add_comm (a * t) x, Nat.add_mul_mod_self_right, Nat.add_mul_div_right x a ht]
  split <;> omega

/-- `gemm_block` enumerates `block_col_tile` over the column tiles of a column block and slices
`b.data[block_col_tile·panel_stride .. +panel_stride]` (likewise row tiles / A panels).  The number
of tiles `start/t .. ceil(end/t)` of block `i` equals the number `ceil((end-start)/t)` of panels
that `pack_b_block` / `pack_a_block` write for that block (`c16_packB_length`,
`c16_packA_length`), so with a freshly packed block every such slice is in bounds. -/
theorem c16_panels_match_tiles {t bs n i q : Nat} (ht : 0 < t) (hbs : bs = q * t)
    (hi : i * bs ≤ n) :
    (tileRange (blockRange n bs i).1 (blockRange n bs i).2 t).length =
      divCeil ((blockRange n bs i).2 - (blockRange n bs i).1) t := by
  unfold tileRange
  rw [List.length_range']
  simp only [blockRange]
  have hstart : i * bs / t = i * q := by
    rw [hbs, ← Nat.mul_assoc, Nat.mul_div_cancel _ ht]
  have hle : i * bs ≤ min (i * bs + bs) n := by omega
  have hsplit : min (i * bs + bs) n = (i * q) * t + (min (i * bs + bs) n - i * bs) := by
    have : i * q * t = i * bs := by rw [hbs, Nat.mul_assoc]
    omega
  rw [hstart]
  conv => lhs; rw [hsplit, divCeil_mul_add ht]
  omega

example : (tileRange (blockRange 40 16 2).1 (blockRange 40 16 2).2 4).length = 2 ∧
    (packBSlots 4 3 (40 - 32)).length = 2 * (3 * 4) := by decide

/-! ## Prepacked operands: `PackedMatrixBase::block`

`prepack_a` / `prepack_b` write one packed block per depth block (`prepackABuf` / `prepackBBuf`);
`gemm_impl` fetches `pm.block(row_range | col_range, depth_block_idx)`.  `t` is the panel size
(`MR` resp. `NR`), `nm` the number of rows of A resp. columns of B, `s..e` a row/column block as
`gemm_impl` forms them (start a multiple of `t`; end a multiple of `t` or the matrix end). -/

/-- **The slice is inside the packed buffer**, for every block, every depth block (including the
short tail block with its smaller panel stride), and has `ceil(e/t) − s/t` panels of the returned
stride — as many as `gemm_block` has tiles for the block. -/
theorem c16_prepacked_block_in_bounds {t nm K kc idx s e : Nat} (ht : 0 < t) (hkc : 0 < kc)
    (hidx : idx * kc < K) (hse : s ≤ e) (he : e ≤ nm) :
    ((prepackBase t nm K kc).block s e idx).1 ≤ ((prepackBase t nm K kc).block s e idx).2.1 ∧
    ((prepackBase t nm K kc).block s e idx).2.1 ≤ (prepackBase t nm K kc).totalLen ∧
    ((prepackBase t nm K kc).block s e idx).2.1 - ((prepackBase t nm K kc).block s e idx).1 =
      (divCeil e t - s / t) * ((prepackBase t nm K kc).block s e idx).2.2 :=
  prepacked_block_in_bounds ht hkc hidx hse he

/-- **The slice is the packed block** (A): element `(x, k)` of panel `p` of the slice returned by
`block(s..e, idx)` is element `(x, k)` of panel `p` of what `pack_a_block(rows s..e, depth block
idx)` writes — the very panels `c16_packed_tile_dot` is about. -/
theorem c16_prepacked_block_is_packed_block {α : Type} [Add α] [Mul α] [Zero α]
    (A : Nat → Nat → α) {t nm K kc idx s e p x k : Nat} (ht : 0 < t) (hkc : 0 < kc)
    (hidx : idx * kc < K) (hs : t ∣ s) (he : e ≤ nm) (hend : e = nm ∨ t ∣ e)
    (hp : s / t + p < divCeil e t) (hx : x < t) (hk : k < blockDepth K kc idx) :
    (prepackABuf A t nm K kc)[((prepackBase t nm K kc).block s e idx).1 +
        (p * (t * blockDepth K kc idx) + (x * blockDepth K kc idx + k))]? =
      (packAVals A t s e (idx * kc) (min (idx * kc + kc) K))[
        p * (t * blockDepth K kc idx) + (x * blockDepth K kc idx + k)]? :=
  prepackedA_block_is_packed_block A ht hkc hidx hs he hend hp hx hk

/-- Same for B: the slice is what `pack_b_block(depth block idx, cols s..e)` writes. -/
theorem c16_prepackedB_block_is_packed_block {α : Type} [Add α] [Mul α] [Zero α]
    (B : Nat → Nat → α) {t nm K kc idx s e p k y : Nat} (ht : 0 < t) (hkc : 0 < kc)
    (hidx : idx * kc < K) (hs : t ∣ s) (he : e ≤ nm) (hend : e = nm ∨ t ∣ e)
    (hp : s / t + p < divCeil e t) (hy : y < t) (hk : k < blockDepth K kc idx) :
    (prepackBBuf B t nm K kc)[((prepackBase t nm K kc).block s e idx).1 +
        (p * (t * blockDepth K kc idx) + (k * t + y))]? =
      (packBVals B t (idx * kc) (min (idx * kc + kc) K) s e)[
        p * (blockDepth K kc idx * t) + (k * t + y)]? :=
  prepackedB_block_is_packed_block B ht hkc hidx hs he hend hp hy hk

example : (prepackBase 6 8 5 4).block 6 8 1 = (54, 60, 6) ∧ (prepackBase 6 8 5 4).totalLen = 60 := by
  decide

/-- The seeded variant C16_c (full `panel_stride` used for the start offset in the short tail
depth block) is refuted: for an 8×5 operand, `MR = 6`, depth block 4, the second row panel of the
tail block would be read at 72..78 in a buffer of 60 elements, instead of 54..60. -/
theorem c16_prepacked_block_seedC_refuted :
    ((prepackBase 6 8 5 4).blockSeedC 6 8 1).2.1 > (prepackBase 6 8 5 4).totalLen ∧
    (prepackBase 6 8 5 4).blockSeedC 6 8 1 ≠ (prepackBase 6 8 5 4).block 6 8 1 := by decide

/-- Summary of a `gemmPath` answer for the examples below: `(mc, nc, kc, #calls)` or the error. -/
def pathSummary : Except GemmErr Path → Option (Nat × Nat × Nat × Nat) × Option GemmErr
  | .error e => (none, some e)
  | .ok .none => (some (0, 0, 0, 0), none)
  | .ok (.gemv evs) => (some (0, 0, 0, evs.length), none)
  | .ok (.gemm mc nc kc calls) => (some (mc, nc, kc, calls.length), none)

def exKern : KernelCfg := { id := 4, mr := 6, nr := 16, elemSize := 4 }
def exOther : KernelCfg := { id := 2, mr := 8, nr := 4, elemSize := 4 }
/-- 70×300 · 300×40, A and B prepacked by kernel `by_`, 4 threads, row bias. -/
def exProblem (by_ : KernelCfg) : Problem :=
  { M := 70, Ka := 300, Kb := 300, N := 40, outLen := 2800, rowBiasLen := some 40,
    colBiasLen := none, aQuantLen := none, bQuantLen := none,
    aPacked := some (prepackMeta Generated.consts by_ true 300),
    bPacked := some (prepackMeta Generated.consts by_ false 300),
    bOther := false, bRowStride1 := false, threads := 4 }

/-- A prepacked, accepted problem (LOW item of the audit): operands prepacked with the FMA
kernel's tile sizes, same kernel at run time: accepted, two depth blocks, 2·3·12 kernel calls. -/
example :
    (∃ out, gemmImpl Generated.consts exKern (exProblem exKern) (2 : Int) 0 (.row fun c => c)
        (fun r k => r + k) (fun k c => k - c) (fun _ _ => none) = .ok out) ∧
    pathSummary (gemmPath Generated.consts exKern (exProblem exKern)) =
      (some (66, 48, 256, 2 * 12 * 3), none) := by
  refine ⟨?_, by decide⟩
  exact (c16_gemmImpl_accepts_iff_valid _ _ _ _ _ _).2 rfl rfl rfl rfl rfl rfl (Or.inr rfl)
    (Or.inr rfl)

/-- ... and the same operands prepacked by a different kernel are rejected. -/
example : pathSummary (gemmPath Generated.consts exKern (exProblem exOther)) =
    (none, some .packedDataKernelMismatch) := by decide

end RtenVerif.Gemm
