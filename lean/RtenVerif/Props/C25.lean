import RtenVerif.Lemmas.RunPurity
/-!
# C25 — Model runs are deterministic and leave model and inputs unchanged

Theorems over `RtenVerif.Model.RunPurity` (model of `Graph::run_plan`, `CaptureEnv`,
`get_cached_plan`).  Operators are abstract and adversarial: `Ops.run` may return anything,
`Ops.dirty` may leave anything in a buffer it was given mutably.

* **T1** (immutability) — `c25_T1_prefix`, `c25_T1_no_const_no_borrowed`, `c25_T1_memory`,
  `c25_T1_outputs`: for every graph, plan (valid or not), request, owned/borrowed split,
  capture environment and every execution prefix, every value handed out mutably was removed
  from `temp_values` (or from the by-value map of the capture environment), `temp_values`
  only ever holds owned inputs and operator outputs, hence the storage of constants and the
  buffers lent by the caller are exactly as before the run — also when the run fails half way;
  outputs that name a constant, a borrowed input or a capture are clones.
* **T3** (by-value captures) — `c25_T3_by_value_from_temps`, `c25_T3_nested`: what is moved
  into a subgraph's environment was removed from `temp_values` of the running graph or
  from the by-value map of its own environment, and by induction over the nesting every by-value
  capture at any depth was removed from the `temp_values` of an enclosing run.
* **T2** (independence of runs) — in `Props/C25Seq.lean`.
* Negation witnesses for the mutant `Variant.viewsTakeable` (not the code) show the statements
  discriminate.
-/
namespace RtenVerif.RunPurity

variable {V : Type}

/-! ## T1 -/

/-- **C25.T1 (invariant over every execution prefix).** After executing any prefix `pre` of
any plan — whether or not a step failed — every operand handed out mutably so far was
taken from `temp_values` or is the value the capture environment held by value, and every entry
of `temp_values` is an owned input of this run or the output of an operator of the graph. -/
theorem c25_T1_prefix (ops : Ops V) (r : Run V) (plan outs : List Nat) (st0 : St V)
    (h0 : initSt r plan outs = some st0) (pre suf : List Nat) (_hp : plan = pre ++ suf) :
    (∀ s, s ∈ (steps .code ops r st0 0 pre).1.recs → ∀ t, t ∈ s.takes → TakeOK r t) ∧
    (∀ e, e ∈ (steps .code ops r st0 0 pre).1.temps → EntryOK r e) :=
  let h := steps_inv ops pre st0 0 (initSt_inv h0)
  ⟨h.takes, h.temps⟩

/-- Executing the whole plan is executing a prefix and then the rest (so the states of
`c25_T1_prefix` are the states the full run goes through). -/
theorem c25_T1_prefix_reached (ops : Ops V) (r : Run V) (st0 : St V) (pre suf : List Nat)
    (hok : (steps .code ops r st0 0 pre).2 = none) :
    steps .code ops r st0 0 (pre ++ suf) =
      steps .code ops r (steps .code ops r st0 0 pre).1 (0 + pre.length) suf :=
  steps_append .code ops r pre suf st0 0 hok

/-- **C25.T1.** No constant and no borrowed input is ever handed out mutably — neither as an
in-place operand nor moved into a subgraph — for every graph, plan, request and split. -/
theorem c25_T1_no_const_no_borrowed (ops : Ops V) (r : Run V) (plan outs : List Nat) :
    ∀ t, t ∈ allTakes (runPlan .code ops r plan outs).recs →
      (∀ id, t.loc ≠ .const id) ∧ (∀ id, t.loc ≠ .borrowed id) := by
  intro t ht
  unfold allTakes at ht
  obtain ⟨s, hs, hts⟩ := List.mem_flatMap.mp ht
  have ho := (runPlan_takesOwned ops r plan outs s hs t hts).owned
  constructor <;> intro id hid <;> rw [hid] at ho <;> cases ho

/-- **C25.T1 (memory).** Whatever the operators write into the buffers they are given
mutably, the constants and the lent buffers are the same after the run as before —
successful or not. -/
theorem c25_T1_memory (ops : Ops V) (r : Run V) (plan outs : List Nat) (m : Mem V) :
    memAfter ops m (runPlan .code ops r plan outs).recs = m :=
  memAfter_owned ops _ m (fun s hs t ht => (runPlan_takesOwned ops r plan outs s hs t ht).owned)

theorem collectOutputs_spec (r : Run V) :
    ∀ (outs : List Nat) (st : St V) (os : List (Nat × OutSrc × V)),
      collectOutputs r st outs = some os →
      ∀ e, e ∈ os →
        (∃ l, e.2.1 = .cloned l) ∨
        (∃ org, e.2.1 = .moved org ∧ r.g.node e.1 ≠ .constant ∧ r.borrowed e.1 = none) := by
  intro outs
  induction outs with
  | nil =>
    intro st os h e he
    simp only [collectOutputs, Option.some.injEq] at h
    subst h
    cases he
  | cons o rest ih =>
    intro st os h e he
    simp only [collectOutputs] at h
    split at h
    · cases h
    · rename_i v loc hlook
      cases hrest : collectOutputs r st rest with
      | none => rw [hrest] at h; cases h
      | some os' =>
        rw [hrest] at h
        simp only [Option.map_some, Option.some.injEq] at h
        subst h
        rcases List.mem_cons.mp he with he | he
        · subst he; exact Or.inl ⟨_, rfl⟩
        · exact ih st os' hrest e he
    · rename_i hlook
      split at h
      · rename_i v hv
        cases hrest : collectOutputs r st rest with
        | none => rw [hrest] at h; cases h
        | some os' =>
          rw [hrest] at h
          simp only [Option.map_some, Option.some.injEq] at h
          subst h
          rcases List.mem_cons.mp he with he | he
          · subst he; exact Or.inl ⟨_, rfl⟩
          · exact ih st os' hrest e he
      · split at h
        · cases h
        · rename_i org v hget
          cases hrest : collectOutputs r { st with temps := tRemove st.temps o } rest with
          | none => rw [hrest] at h; cases h
          | some os' =>
            rw [hrest] at h
            simp only [Option.map_some, Option.some.injEq] at h
            subst h
            rcases List.mem_cons.mp he with he | he
            · subst he
              refine Or.inr ⟨org, rfl, ?_, ?_⟩
              · intro hc
                unfold constOrInput at hlook
                rw [hc] at hlook
                cases hlook
              · unfold constOrInput at hlook
                split at hlook
                · cases hlook
                · split at hlook
                  · cases hlook
                  · assumption
                · cases hlook
            · exact ih _ os' hrest e he

/-- **C25.T1 (outputs).** A requested output that names a constant or a borrowed input is a
clone (`to_owned`); only values that are neither are moved out of `temp_values`. -/
theorem c25_T1_outputs (ops : Ops V) (r : Run V) (plan outs : List Nat)
    (os : List (Nat × OutSrc × V)) (h : (runPlan .code ops r plan outs).outcome = .ok os) :
    ∀ e, e ∈ os →
      (∃ l, e.2.1 = .cloned l) ∨
      (∃ org, e.2.1 = .moved org ∧ r.g.node e.1 ≠ .constant ∧ r.borrowed e.1 = none) := by
  unfold runPlan at h
  split at h
  · cases h
  · split at h
    · cases h
    · split at h
      · cases h
      · rename_i os' hco
        simp only [Except.ok.injEq] at h
        subst h
        exact collectOutputs_spec r outs _ os' hco

/-! ## T3 -/

/-- **C25.T3.** Every value moved into the environment of a subgraph (`pos = none`) — and every
in-place operand — was removed from `temp_values` of the running graph, or is the value the
graph's own capture environment held *by value* under that id (`CaptureEnv::take_input` only
looks at the by-value map). Never a constant, a borrowed input or a by-reference capture. -/
theorem c25_T3_by_value_from_temps (ops : Ops V) (r : Run V) (plan outs : List Nat) :
    ∀ s, s ∈ (runPlan .code ops r plan outs).recs → ∀ t, t ∈ s.takes →
      (∃ id, t.loc = .temp id) ∨ (∃ id, t.loc = .capVal id ∧ r.envTake id = some t.val) :=
  runPlan_takesOwned ops r plan outs

/-- `CaptureEnv::new(parent env, graph, inputs_by_id, temp_values, by_value)` as seen from a
subgraph: capture `c` of the subgraph is takeable iff its name resolves (`res`) to a node of
the parent graph that is in the by-value map. -/
def childTake (byValue : List (Take V)) (res : Nat → Option Nat) (c : Nat) : Option V :=
  match res c with
  | none => none
  | some p => (byValue.find? (fun t => t.id == p)).map (·.val)

/-- Runs reachable by nesting: a top-level run has no capture environment; a run started by a
subgraph operator at a recorded step of a nested run sees that step's by-value moves. -/
inductive Nested (ops : Ops V) : Run V → Prop where
  | top (r : Run V) (h : ∀ c, r.envTake c = none) : Nested ops r
  | sub (r r' : Run V) (plan outs : List Nat) (s : StepRec V) (res : Nat → Option Nat)
      (hr : Nested ops r) (hs : s ∈ (runPlan .code ops r plan outs).recs)
      (henv : r'.envTake = childTake (s.takes.filter (fun t => t.pos.isNone)) res) : Nested ops r'

/-- **C25.T3 (nesting).** At any nesting depth, a value that can be taken from the capture
environment (and hence mutated in the subgraph) was removed from the `temp_values` of an
enclosing run — it is never a constant or a borrowed input of any enclosing graph. -/
theorem c25_T3_nested (ops : Ops V) (r : Run V) (hn : Nested ops r) :
    ∀ c v, r.envTake c = some v →
      ∃ (r0 : Run V) (plan outs : List Nat) (s : StepRec V) (t : Take V) (id : Nat),
        Nested ops r0 ∧ s ∈ (runPlan .code ops r0 plan outs).recs ∧ t ∈ s.takes ∧
        t.loc = .temp id ∧ t.val = v := by
  induction hn with
  | top r h => intro c v hv; rw [h c] at hv; cases hv
  | sub r r' plan outs s res hr hs henv ih =>
    intro c v hv
    rw [henv] at hv
    unfold childTake at hv
    split at hv
    · cases hv
    · rename_i p _
      cases hf : List.find? (fun t => t.id == p) (s.takes.filter (fun t => t.pos.isNone)) with
      | none => rw [hf] at hv; cases hv
      | some t =>
        rw [hf] at hv
        simp only [Option.map_some, Option.some.injEq] at hv
        have hmem : t ∈ s.takes := (List.mem_filter.mp (List.mem_of_find?_eq_some hf)).1
        rcases runPlan_takesOwned ops r plan outs s hs t hmem with ⟨id, hl⟩ | ⟨id, _, hl⟩
        · exact ⟨r, plan, outs, s, t, id, hr, hs, hmem, hl, hv⟩
        · rw [hv] at hl
          exact ih id v hl

/-! ## Non-vacuity: a subgraph operator capturing an owned / a borrowed input -/

section Examples

/-- node 0: graph input `x`; node 1: a subgraph operator (`If`-like) whose branches capture `x`;
node 2: its output. -/
def exSubG : G :=
  { nodes := [.value,
              .op { inputs := [], outputs := [some 2], inPlace := [], commutative := false,
                    capDeps := [0], subgraph := true },
              .value],
    captures := [] }

def exSubOps : Ops Nat := { len := fun _ => 1, run := fun _ _ _ _ _ _ => some [5], dirty := fun _ _ v => v }

def exSubRun (owned : Bool) : Run Nat :=
  { g := exSubG, consts := fun _ => 0,
    borrowed := fun id => if !owned && id = 0 then some 3 else none,
    owned := if owned then [(0, 3)] else [],
    envView := fun _ => none, envTake := fun _ => none }

/-- An owned input whose only user is the subgraph operator is moved into the subgraph's
environment — out of `temp_values`. -/
example :
    (runPlan .code exSubOps (exSubRun true) [1] [2]).recs =
      [{ step := 0, op := 1, inPlace := false, takes := [{ pos := none, id := 0, loc := .temp 0, val := 3 }] }] := by
  decide

/-- The same input passed as a view is captured by reference: nothing is handed out. -/
example : (runPlan .code exSubOps (exSubRun false) [1] [2]).recs.map (·.takes.length) = [0] := by decide

/-- `Nested` is inhabited beyond `top`: the run of the branch sees `x` (its capture node 7
resolves to the parent's node 0) as a takeable capture, and `c25_T3_nested` applies to it. -/
example : ∃ r' : Run Nat, Nested exSubOps r' ∧ r'.envTake 7 = some 3 := by
  let s : StepRec Nat :=
    { step := 0, op := 1, inPlace := false, takes := [{ pos := none, id := 0, loc := .temp 0, val := 3 }] }
  refine ⟨{ g := exSubG, consts := fun _ => 0, borrowed := fun _ => none, owned := [],
            envView := fun _ => none,
            envTake := childTake (s.takes.filter (fun t => t.pos.isNone))
              (fun c => if c = 7 then some 0 else none) }, ?_, by decide⟩
  refine Nested.sub (exSubRun true) _ [1] [2] s _ (Nested.top _ (fun _ => rfl)) ?_ rfl
  have h : (runPlan .code exSubOps (exSubRun true) [1] [2]).recs = [s] := by decide
  rw [h]
  exact List.mem_cons_self

end Examples

end RtenVerif.RunPurity
