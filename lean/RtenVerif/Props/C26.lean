import RtenVerif.Lemmas.PlanCache
import RtenVerif.Lemmas.PlanCacheExec
import RtenVerif.Lemmas.PlannerComplete
/-!
# C26 — Invalid run requests are reported as errors

> Calling run or partial_run with unknown, duplicated or non-value node IDs, missing required
> inputs, or inputs whose type, rank or fixed dimensions contradict the model's declared metadata
> returns an error and never panics.

Model: `Model/PlanCache.lean` (`validate_inputs` → `get_cached_plan` → `run_plan`'s panic sites)
on top of C03's planner model.  The theorems quantify over **every** graph IR (cyclic, ill-formed
operator edges, …), every request, and every plan-cache content reachable by an arbitrary history
of earlier `run` calls (valid or not).

* `c26_invalid_is_error` (T1, `run`, code as it stands): every request of one of the named
  classes yields `Err` — so `run_plan`, and with it every modelled panic site, is not even reached.
* `c26_error_class`: which error (validation first, then `create_plan`'s argument checks in order).
* `c26_partial_invalid_is_error` (T1, `partial_run`; a missing input is not an error there).
* `c26_accepted_plan_ok`: a request that *is* accepted runs with a plan that is valid for it.
* `c26_run_never_panics` / `c26_partial_never_panics` (outcome level): on graphs whose operator
  inputs (and, for `partial_run`, outputs) are value or constant nodes, **every** request —
  valid or not, cold or warm cache, succeeding or failing kernels — returns `Ok` or `Err`; none
  of the four modelled panic sites of `run_plan` is reachable (refcount invariant,
  `Lemmas/PlanCacheExec.lean`).  `c26_wfg_needed`: on an ill-formed graph (an operator whose
  input is an operator id, which no loader builds) the "not a value or constant" site is reached.
* `c26_orig_false_input` / `c26_orig_false_output`: with `CachedPlan::matches` as it was before
  the fix, T1 is false: a duplicated id that keeps the list length hits the cache and `run_plan`
  panics (`decide`d on the model, replayed on the real code by the harness).
-/
namespace RtenVerif.PlanCache
open RtenVerif.Graph RtenVerif.Planner

/-! ## The request classes named by the property -/

/-- Supplied value contradicts the declared metadata `vm` (dtype; or, for a tensor, rank or a
fixed dimension). -/
def Mismatch (vm : VMeta) (v : InVal) : Prop :=
  (∃ d, vm.dtype = some d ∧ d ≠ v.dtype) ∨
  (v.seq = false ∧ ∃ es, vm.shape = some es ∧
    (es.length ≠ v.shape.length ∨
      ∃ (k : Nat) (e s : Nat), es[k]? = some (some e) ∧ v.shape[k]? = some s ∧ e ≠ s))

/-- An invalid `run` request. -/
inductive Invalid (m : Mdl) (inputs : List (Nat × InVal)) (outs : List Nat) : Prop
  /-- some supplied input for a value node contradicts that node's declared dtype/rank/fixed dim -/
  | badValue (id : Nat) (v : InVal) : (id, v) ∈ inputs → getNode m.g id = some .value →
      Mismatch (m.vmeta.getD id {}) v → Invalid m inputs outs
  /-- a duplicated output id -/
  | dupOutput : ¬outs.Nodup → Invalid m inputs outs
  /-- an output id that is unknown or is an operator node -/
  | badOutput (o : Nat) : o ∈ outs → isValueOrConstant m.g o = false → Invalid m inputs outs
  /-- a duplicated input id -/
  | dupInput : ¬(inputs.map (·.1)).Nodup → Invalid m inputs outs
  /-- an input id that is unknown or is an operator node -/
  | badInput (i : Nat) : i ∈ inputs.map (·.1) → isValueOrConstant m.g i = false → Invalid m inputs outs
  /-- a required input is missing: no plan whatsoever produces the outputs from what is supplied -/
  | missing : (¬∃ plan, PlanOK m.g false (resolvedNew m.g (inputs.map (·.1)) false) outs plan) →
      Invalid m inputs outs

/-- Plan-cache contents reachable from a freshly loaded model by any sequence of `run` calls
(any requests, any operator behaviour). -/
inductive Reachable (m : Mdl) : Option CachedPlan → Prop
  | cold : Reachable m none
  | step {c : Option CachedPlan} (opsOk : Bool) (inputs : List (Nat × InVal)) (outs : List Nat) :
      Reachable m c → Reachable m (run .fixed m opsOk c inputs outs).2

/-! ## `validate_inputs` rejects exactly the contradicted declarations -/

theorem dimsOk_false_iff : ∀ (es : List (Option Nat)) (ss : List Nat),
    dimsOk es ss = false ↔ ∃ (k : Nat) (e s : Nat), es[k]? = some (some e) ∧ ss[k]? = some s ∧ e ≠ s := by
  intro es
  induction es with
  | nil => intro ss; simp [dimsOk]
  | cons e es ih =>
    intro ss
    cases ss with
    | nil => cases e <;> simp [dimsOk]
    | cons s ss =>
      cases e with
      | none =>
        simp only [dimsOk, ih]
        constructor
        · rintro ⟨k, e, s', h1, h2, h3⟩; exact ⟨k + 1, e, s', by simpa using h1, by simpa using h2, h3⟩
        · rintro ⟨k, e, s', h1, h2, h3⟩
          cases k with
          | zero => simp at h1
          | succ k => exact ⟨k, e, s', by simpa using h1, by simpa using h2, h3⟩
      | some e =>
        simp only [dimsOk, Bool.and_eq_false_iff, ih]
        constructor
        · rintro (h | ⟨k, e', s', h1, h2, h3⟩)
          · exact ⟨0, e, s, rfl, rfl, by simpa using h⟩
          · exact ⟨k + 1, e', s', by simpa using h1, by simpa using h2, h3⟩
        · rintro ⟨k, e', s', h1, h2, h3⟩
          cases k with
          | zero =>
            simp only [List.getElem?_cons_zero, Option.some.injEq] at h1 h2
            subst h1; subst h2; left; simpa using h3
          | succ k => right; exact ⟨k, e', s', by simpa using h1, by simpa using h2, h3⟩

theorem validateOne_false_iff (m : Mdl) (id : Nat) (v : InVal) :
    validateOne m id v = false ↔ getNode m.g id = some .value ∧ Mismatch (m.vmeta.getD id {}) v := by
  unfold validateOne Mismatch
  cases hn : getNode m.g id with
  | none => simp
  | some n =>
    cases n with
    | constant => simp
    | operator op => simp
    | value =>
      simp only [true_and, Bool.and_eq_false_iff, Bool.or_eq_false_iff]
      generalize m.vmeta.getD id {} = vm
      constructor
      · rintro (h | ⟨hs, h⟩)
        · left
          cases hd : vm.dtype with
          | none => simp [hd] at h
          | some d => exact ⟨d, rfl, by simpa [hd] using h⟩
        · right
          refine ⟨hs, ?_⟩
          cases hsh : vm.shape with
          | none => simp [hsh] at h
          | some es =>
            refine ⟨es, rfl, ?_⟩
            simp only [hsh, Bool.and_eq_false_iff, beq_eq_false_iff_ne, ne_eq] at h
            rcases h with h | h
            · exact Or.inl h
            · exact Or.inr ((dimsOk_false_iff es v.shape).mp h)
      · rintro (⟨d, hd, hne⟩ | ⟨hs, es, hsh, h⟩)
        · left; simp [hd, hne]
        · right
          refine ⟨hs, ?_⟩
          simp only [hsh, Bool.and_eq_false_iff, beq_eq_false_iff_ne, ne_eq]
          rcases h with h | h
          · exact Or.inl h
          · exact Or.inr ((dimsOk_false_iff es v.shape).mpr h)

theorem validateInputs_false_iff (m : Mdl) (inputs : List (Nat × InVal)) :
    validateInputs m inputs = false ↔
      ∃ id v, (id, v) ∈ inputs ∧ getNode m.g id = some .value ∧ Mismatch (m.vmeta.getD id {}) v := by
  unfold validateInputs
  rw [List.all_eq_false]
  constructor
  · rintro ⟨⟨id, v⟩, hm, h⟩
    exact ⟨id, v, hm, (validateOne_false_iff m id v).mp (by simpa using h)⟩
  · rintro ⟨id, v, hm, h⟩
    exact ⟨(id, v), hm, by simpa using (validateOne_false_iff m id v).mpr h⟩

/-! ## Reachable caches satisfy the cache invariant -/

theorem run_fst (v : Ver) (m : Mdl) (opsOk : Bool) (c : Option CachedPlan)
    (inputs : List (Nat × InVal)) (outs : List Nat) :
    (run v m opsOk c inputs outs).1 =
      if validateInputs m inputs = false then .errInvalidInput
      else
        match (getCachedPlan v m.g false c (inputs.map (·.1)) outs).1 with
        | .error e => .errPlan e
        | .ok plan => runPlan m.g opsOk inputs plan outs := by
  unfold run
  cases hv : validateInputs m inputs with
  | false => simp
  | true =>
    simp only [Bool.not_true, Bool.false_eq_true, if_false]
    generalize getCachedPlan v m.g false c (inputs.map (·.1)) outs = p
    rcases p with ⟨r, c'⟩
    cases r <;> rfl

theorem run_snd (v : Ver) (m : Mdl) (opsOk : Bool) (c : Option CachedPlan)
    (inputs : List (Nat × InVal)) (outs : List Nat) :
    (run v m opsOk c inputs outs).2 =
      if validateInputs m inputs = false then c
      else (getCachedPlan v m.g false c (inputs.map (·.1)) outs).2 := by
  unfold run
  cases hv : validateInputs m inputs with
  | false => simp
  | true =>
    simp only [Bool.not_true, Bool.false_eq_true, if_false]
    generalize getCachedPlan v m.g false c (inputs.map (·.1)) outs = p
    rcases p with ⟨r, c'⟩
    cases r <;> rfl

theorem reachable_inv {m : Mdl} {c : Option CachedPlan} (h : Reachable m c) : CacheInv m.g false c := by
  induction h with
  | cold => trivial
  | step opsOk inputs outs _ ih =>
    rw [run_snd]
    split
    · exact ih
    · exact getCachedPlan_inv _ _ ih

/-! ## T1 -/

/-- Ill-formed id lists are rejected by `create_plan` with one of its four argument errors. -/
theorem createPlan_err_of_not_argsOK {g : Graph} {ins outs : List Nat} (opts : PlanOptions)
    (h : ¬ArgsOK g ins outs) :
    ∃ e, createPlan g ins outs opts = .error e ∧
      (e = .dupOutput ∨ e = .badOutput ∨ e = .dupInput ∨ e = .badInput) := by
  obtain ⟨h1, h2, h3, h4⟩ := c03_argument_check g ins outs opts
  by_cases ho : outs.Nodup
  · by_cases hov : ∀ o ∈ outs, isValueOrConstant g o = true
    · by_cases hi : ins.Nodup
      · by_cases hiv : ∀ i ∈ ins, isValueOrConstant g i = true
        · exact absurd ⟨ho, hov, hi, hiv⟩ h
        · exact ⟨_, h4 ho hov hi hiv, by simp⟩
      · exact ⟨_, h3 ho hov hi, by simp⟩
    · exact ⟨_, h2 ho hov, by simp⟩
  · exact ⟨_, h1 ho, by simp⟩

/-- Which error: a contradicted declaration is reported first (`InvalidInput`); otherwise
ill-formed id lists get `create_plan`'s argument error — the same as on a cold cache — and the
cache is left as it was. -/
theorem c26_error_class {m : Mdl} {c : Option CachedPlan} (hc : Reachable m c) (opsOk : Bool)
    (inputs : List (Nat × InVal)) (outs : List Nat) :
    (validateInputs m inputs = false →
      run .fixed m opsOk c inputs outs = (.errInvalidInput, c)) ∧
    (validateInputs m inputs = true → ¬ArgsOK m.g (inputs.map (·.1)) outs →
      ∃ e, createPlan m.g (inputs.map (·.1)) outs (cacheOpts false) = .error e ∧
        (e = .dupOutput ∨ e = .badOutput ∨ e = .dupInput ∨ e = .badInput) ∧
        run .fixed m opsOk c inputs outs = (.errPlan e, c)) := by
  constructor
  · intro hv; simp [run, hv]
  · intro hv hbad
    obtain ⟨e, he, hcls⟩ := createPlan_err_of_not_argsOK (cacheOpts false) hbad
    refine ⟨e, he, hcls, ?_⟩
    simp only [run, hv, Bool.not_true, Bool.false_eq_true, if_false]
    rw [getCachedPlan_of_not_argsOK (reachable_inv hc) hbad, he]

/-- **C26.T1 (`run`, `run_n`, `run_one`)** For every model, every plan-cache content reachable by
any history of earlier calls, and every operator behaviour: a request that is invalid in one of
the ways the property names returns an error.  In particular `run_plan` is not entered, so none
of its panic sites is reachable by such a request. -/
theorem c26_invalid_is_error {m : Mdl} {c : Option CachedPlan} (hc : Reachable m c) (opsOk : Bool)
    {inputs : List (Nat × InVal)} {outs : List Nat} (hinv : Invalid m inputs outs) :
    (run .fixed m opsOk c inputs outs).1.isErr = true := by
  obtain ⟨hA, hB⟩ := c26_error_class hc opsOk inputs outs
  cases hv : validateInputs m inputs with
  | false => rw [hA hv]; rfl
  | true =>
    have bad : ¬ArgsOK m.g (inputs.map (·.1)) outs → (run .fixed m opsOk c inputs outs).1.isErr = true := by
      intro hbad
      obtain ⟨e, _, _, hr⟩ := hB hv hbad
      rw [hr]; rfl
    cases hinv with
    | badValue id v hm hn hmis =>
      have := (validateInputs_false_iff m inputs).mpr ⟨id, v, hm, hn, hmis⟩
      rw [hv] at this; cases this
    | dupOutput h => exact bad (fun ha => h ha.1)
    | badOutput o ho h => exact bad (fun ha => by have := ha.2.1 o ho; rw [h] at this; cases this)
    | dupInput h => exact bad (fun ha => h ha.2.2.1)
    | badInput i hi h => exact bad (fun ha => by have := ha.2.2.2 i hi; rw [h] at this; cases this)
    | missing h =>
      rw [run_fst]
      simp only [hv, Bool.true_eq_false, if_false]
      cases hg : (getCachedPlan .fixed m.g false c (inputs.map (·.1)) outs).1 with
      | error e => rfl
      | ok plan => exact absurd ⟨plan, (getCachedPlan_ok (reachable_inv hc) hg).2⟩ h

/-- An error is not a panic (spelled out for the reader of T1). -/
theorem isErr_not_panic {o : Outcome} (h : o.isErr = true) : o.isPanic = false := by
  cases o <;> simp_all [Outcome.isErr, Outcome.isPanic]

/-- **C26.T1 (`partial_run`)** The same for `partial_run`, which plans afresh on every call;
a missing input is by design not an error there, every other class is. -/
theorem c26_partial_invalid_is_error (m : Mdl) (opsOk : Bool) {inputs : List (Nat × InVal)}
    {outs : List Nat}
    (hinv : validateInputs m inputs = false ∨ ¬ArgsOK m.g (inputs.map (·.1)) outs) :
    (partialRun m opsOk inputs outs).isErr = true := by
  unfold partialRun
  cases hv : validateInputs m inputs with
  | false => rfl
  | true =>
    rcases hinv with h | h
    · rw [hv] at h; cases h
    · obtain ⟨e, he, _⟩ := createPlan_err_of_not_argsOK
        { allowMissing := true, capturesAvailable := false } h
      simp only [Bool.not_true, Bool.false_eq_true, if_false, he]
      rfl

/-- Every class of `Invalid` other than `missing` gives `partial_run`'s hypothesis. -/
theorem invalid_cases {m : Mdl} {inputs : List (Nat × InVal)} {outs : List Nat}
    (h : Invalid m inputs outs) :
    validateInputs m inputs = false ∨ ¬ArgsOK m.g (inputs.map (·.1)) outs ∨
      ¬∃ plan, PlanOK m.g false (resolvedNew m.g (inputs.map (·.1)) false) outs plan := by
  cases h with
  | badValue id v hm hn hmis => exact Or.inl ((validateInputs_false_iff m inputs).mpr ⟨id, v, hm, hn, hmis⟩)
  | dupOutput h => exact Or.inr (Or.inl (fun ha => h ha.1))
  | badOutput o ho h => exact Or.inr (Or.inl (fun ha => by have := ha.2.1 o ho; rw [h] at this; cases this))
  | dupInput h => exact Or.inr (Or.inl (fun ha => h ha.2.2.1))
  | badInput i hi h => exact Or.inr (Or.inl (fun ha => by have := ha.2.2.2 i hi; rw [h] at this; cases this))
  | missing h => exact Or.inr (Or.inr h)

/-- A request that `get_cached_plan` accepts — on a hit as well as on a miss — has well-formed
ids and is run with a plan that is valid, complete and minimal *for this request* (C03's
`PlanOK`).  (This is also C22.T1.) -/
theorem c26_accepted_plan_ok {m : Mdl} {c : Option CachedPlan} (hc : Reachable m c)
    {ins outs plan : List Nat} (h : (getCachedPlan .fixed m.g false c ins outs).1 = .ok plan) :
    ArgsOK m.g ins outs ∧ PlanOK m.g false (resolvedNew m.g ins false) outs plan :=
  getCachedPlan_ok (reachable_inv hc) h


/-! ## "Missing required input", syntactically

`Invalid.missing` is semantic (no valid plan exists).  On graphs with unique producers the two
concrete shapes of a missing input fall under it: a requested output, or an input (or capture) of
an operator on the path to a requested output, that is neither supplied nor a constant nor
produced by any operator. -/

/-- An operator needed for the requested outputs reads `d`, which is not supplied, not a constant
and has no producer: the request is `Invalid` (class "missing required input"). -/
theorem invalid_of_unproduced_dependency {m : Mdl} {inputs : List (Nat × InVal)} {outs : List Nat}
    (hu : UniqueProducer m.g) {x d : Nat} {xop : OpNode}
    (hx : Needed m.g (resolvedNew m.g (inputs.map (·.1)) false) outs x)
    (hop : getOp m.g x = some xop) (hd : d ∈ opDeps m.g xop)
    (hr : rContains m.g (resolvedNew m.g (inputs.map (·.1)) false) d = false)
    (hs : getSource m.g d = none) : Invalid m inputs outs := by
  apply Invalid.missing
  rintro ⟨Q, hQ⟩
  exact no_errCause_of_planOK (opts := cacheOpts false) hu hQ
    (ErrCause.missing rfl hx hop hd hr hs)

/-- A requested output that is not supplied, not a constant and has no producer. -/
theorem invalid_of_unproduced_output {m : Mdl} {inputs : List (Nat × InVal)} {outs : List Nat}
    (hu : UniqueProducer m.g) {o : Nat} (ho : o ∈ outs)
    (hr : rContains m.g (resolvedNew m.g (inputs.map (·.1)) false) o = false)
    (hs : getSource m.g o = none) : Invalid m inputs outs := by
  apply Invalid.missing
  rintro ⟨Q, hQ⟩
  exact no_errCause_of_planOK (opts := cacheOpts false) hu hQ (ErrCause.noSource rfl ho hr hs)

/-! ## Outcome level: every request returns `Ok` or `Err` -/

/-- **C26, outcome level (`run`, `run_n`, `run_one`).** On a graph whose operator inputs are value
or constant nodes, for every reachable plan-cache content, every request (valid or invalid) and
every kernel behaviour, `run` returns `Ok` or an error: invalid requests are rejected before
`run_plan` (`c26_invalid_is_error`), and an accepted request runs with a plan that is valid for
it (`c26_accepted_plan_ok`), for which the refcount invariant (`runPlan_accepted`) shows that
none of the panic sites "not a value or constant", "Invalid plan did not produce input value",
"missing output value" and `NodeRefCount` indexing is reachable. -/
theorem c26_run_never_panics {m : Mdl} (hwf : WFG m.g) {c : Option CachedPlan} (hc : Reachable m c)
    (opsOk : Bool) (inputs : List (Nat × InVal)) (outs : List Nat) :
    (run .fixed m opsOk c inputs outs).1 = .ok ∨ (run .fixed m opsOk c inputs outs).1.isErr = true := by
  rw [run_fst]
  by_cases hv : validateInputs m inputs = false
  · rw [if_pos hv]; exact Or.inr rfl
  · rw [if_neg hv]
    cases hg : (getCachedPlan .fixed m.g false c (inputs.map (·.1)) outs).1 with
    | error e => exact Or.inr rfl
    | ok plan =>
      obtain ⟨hargs, hok⟩ := c26_accepted_plan_ok hc hg
      rcases runPlan_accepted hwf opsOk hargs hok with ⟨_, h⟩ | h
      · right; show (runPlan m.g opsOk inputs plan outs).isErr = true; rw [h]; rfl
      · left; exact h

theorem c26_run_isPanic_false {m : Mdl} (hwf : WFG m.g) {c : Option CachedPlan} (hc : Reachable m c)
    (opsOk : Bool) (inputs : List (Nat × InVal)) (outs : List Nat) :
    (run .fixed m opsOk c inputs outs).1.isPanic = false := by
  rcases c26_run_never_panics hwf hc opsOk inputs outs with h | h
  · rw [h]; rfl
  · exact isErr_not_panic h

/-- **C26, outcome level (`partial_run`).** `prune_plan` keeps the plan valid and the returned
leaf ids distinct, available and value/constant nodes, so `partial_run` never panics either
(operator outputs must be value or constant nodes as well). -/
theorem c26_partial_never_panics {m : Mdl} (hwf : WFG m.g) (hwo : WFGo m.g) (opsOk : Bool)
    (inputs : List (Nat × InVal)) (outs : List Nat) :
    (partialRun m opsOk inputs outs).isPanic = false :=
  partialRun_no_panic hwf hwo opsOk inputs outs

/-- The graph hypothesis is needed: operator 2 lists its own (operator) id as its output and
operator 1 reads it (no loader builds such a graph); the planner accepts `[] → [0]` with the plan
`[2, 1]` and `run_plan` reaches `panic!("node … is not a value or constant")`. -/
theorem c26_wfg_needed :
    (run .fixed { g := { nodes := [.value, .operator { inputs := [some 2], outputs := [some 0] },
        .operator { inputs := [], outputs := [some 2] }] } }
      true none [] [0]).1 = .panic .notValueOrConstant := by decide

/-! ## Witnesses -/

/-- `y = op3(a, b)`, `z = op5(y)`; ids: a=0 b=1 y=2 op=3 z=4 op=5. -/
def wGraph : Graph :=
  { nodes := [.value, .value, .value,
      .operator { inputs := [some 0, some 1], outputs := [some 2] },
      .value,
      .operator { inputs := [some 2], outputs := [some 4] }] }

def wMdl : Mdl := { g := wGraph, vmeta := [{ dtype := some 1, shape := some [none, some 4] }] }

def wv : InVal := { dtype := 1, shape := [2, 4] }

/-- Non-vacuity: the witness graph is well-formed. -/
theorem wGraph_wfg : WFG wGraph ∧ WFGo wGraph := by
  have key : ∀ i op, getOp wGraph i = some op →
      op = { inputs := [some 0, some 1], outputs := [some 2] } ∨
      op = { inputs := [some 2], outputs := [some 4] } := by
    intro i op hop
    have hi : i < 6 := getOp_lt hop
    have : i = 0 ∨ i = 1 ∨ i = 2 ∨ i = 3 ∨ i = 4 ∨ i = 5 := by omega
    rcases this with rfl | rfl | rfl | rfl | rfl | rfl <;>
      simp [getOp, getNode, wGraph] at hop <;> simp [← hop]
  constructor
  · intro i op hop d hd
    rcases key i op hop with rfl | rfl <;> simp [opInputs] at hd
    · rcases hd with rfl | rfl <;> decide
    · subst hd; decide
  · intro i op hop o ho
    rcases key i op hop with rfl | rfl <;> simp [opOutputs] at ho <;> subst ho <;> decide

example (c : Option CachedPlan) (hc : Reachable wMdl c) (inputs : List (Nat × InVal)) (outs : List Nat) :
    (run .fixed wMdl true c inputs outs).1.isPanic = false :=
  c26_run_isPanic_false wGraph_wfg.1 hc true inputs outs


/-- Non-vacuity of T1: a warm cache (after the valid request `[a,b] → [y]`) and requests of each
class. -/
example : Reachable wMdl (run .fixed wMdl true none [(0, wv), (1, wv)] [2]).2 :=
  Reachable.step true _ _ Reachable.cold
example : (run .fixed wMdl true none [(0, wv), (1, wv)] [2]) =
    (.ok, some { inputs := [0, 1], outputs := [2], plan := [3] }) := by decide
example : Invalid wMdl [(0, wv), (0, wv)] [2] := Invalid.dupInput (by decide)
def wv5 : InVal := { dtype := 1, shape := [2, 5] }
example : Invalid wMdl [(0, wv5), (1, wv)] [2] :=
  Invalid.badValue 0 wv5 (by decide) (by decide)
    (Or.inr ⟨rfl, [none, some 4], rfl, Or.inr ⟨1, 4, 5, by decide, by decide, by decide⟩⟩)
example : Invalid wMdl [(0, wv), (1, wv)] [3] := Invalid.badOutput 3 (by decide) (by decide)
example : Invalid wMdl [(0, wv), (1, wv)] [77] := Invalid.badOutput 77 (by decide) (by decide)

/-- `[a] → [y]` lacks `b`: operator 3 is needed, reads `b`, nobody produces `b`. -/
example : Invalid wMdl [(0, wv)] [2] :=
  invalid_of_unproduced_dependency (x := 3) (d := 1)
    (xop := { inputs := [some 0, some 1], outputs := [some 2] })
    (uniqueProducerB_sound (by decide))
    (Needed.root (o := 2) (pop := { inputs := [some 0, some 1], outputs := [some 2] })
      (by decide) (by decide) (by decide)) (by decide) (by decide) (by decide) (by decide)

/-- `[a] → [b]`: `b` is requested, not supplied, not a constant, and nobody produces it. -/
example : Invalid wMdl [(0, wv)] [1] :=
  invalid_of_unproduced_output (o := 1) (uniqueProducerB_sound (by decide)) (by decide) (by decide) (by decide)

/-- The code as it stands, warm cache: errors. -/
example : (run .fixed wMdl true (cacheAfter .fixed wMdl true [⟨[(0, wv), (1, wv)], [2]⟩] none)
    [(0, wv), (0, wv)] [2]).1 = .errPlan .dupInput := by decide
example : (run .fixed wMdl true (cacheAfter .fixed wMdl true [⟨[(0, wv), (1, wv)], [2, 4]⟩] none)
    [(0, wv), (1, wv)] [2, 2]).1 = .errPlan .dupOutput := by decide
/-- …and a permuted valid request still hits the cache and succeeds. -/
example : (run .fixed wMdl true (cacheAfter .fixed wMdl true [⟨[(0, wv), (1, wv)], [2, 4]⟩] none)
    [(1, wv), (0, wv)] [4, 2]) = (.ok, some { inputs := [0, 1], outputs := [2, 4], plan := [3, 5] }) := by
  decide

/-- **T1 is false for `CachedPlan::matches` as it was** (length + membership): after the valid
request `[a,b] → [y]`, the request `[a,a] → [y]` (a duplicated input id *and* a missing required
input) hits the cache and `run_plan` panics with "Invalid plan did not produce input value".
On a cold cache the same request is an error. -/
theorem c26_orig_false_input :
    Invalid wMdl [(0, wv), (0, wv)] [2] ∧
    (run .orig wMdl true none [(0, wv), (0, wv)] [2]).1 = .errPlan .dupInput ∧
    (run .orig wMdl true (cacheAfter .orig wMdl true [⟨[(0, wv), (1, wv)], [2]⟩] none)
      [(0, wv), (0, wv)] [2]).1 = .panic .missingInput :=
  ⟨Invalid.dupInput (by decide), by decide, by decide⟩

/-- The same through the outputs: after `[a,b] → [y,z]`, the request `[a,b] → [y,y]` hits the
cache and the second `temp_values.remove(y)` fails: `expect("missing output value")` panics. -/
theorem c26_orig_false_output :
    Invalid wMdl [(0, wv), (1, wv)] [2, 2] ∧
    (run .orig wMdl true none [(0, wv), (1, wv)] [2, 2]).1 = .errPlan .dupOutput ∧
    (run .orig wMdl true (cacheAfter .orig wMdl true [⟨[(0, wv), (1, wv)], [2, 4]⟩] none)
      [(0, wv), (1, wv)] [2, 2]).1 = .panic .missingOutput :=
  ⟨Invalid.dupOutput (by decide), by decide, by decide⟩

end RtenVerif.PlanCache
