import RtenVerif.Lemmas.PartialRunTotal
import RtenVerif.Lemmas.PartialRunOwned
import RtenVerif.Lemmas.PartialRunDeep
import RtenVerif.Generated.NondetOps

/-!
# C04 — Partial evaluation composes with full evaluation

*For any model, any subset of its inputs, and any requested outputs, feeding the values
returned by `partial_run` (given that subset) together with the remaining inputs to `run`
yields the same outputs as a single run with all inputs.  Operators whose results vary
between runs (random generators) are never evaluated by partial evaluation or folded into
constants.*

Theorems over `RtenVerif.Model.PartialRun` (model of `Graph::partial_run`,
`Planner::prune_plan`, `Graph::run`/`run_plan`), the planner model of C03 and the graph IR.

* `c04_leaf_values`, `c04_leaf_values_run` (T1) every returned `(id, value)` is the value of
  `id` in the naive full evaluation / in any successful `run` with any completion of the inputs.
* `c04_compose`, `c04_compose_total` (T2) `partial_run` returns, the composed run succeeds and
  returns what the single run returns.
* `c04_no_nondeterministic_evaluated` (T3) every operator `partial_run` executes is a
  deterministic operator of the plan.
* `c04_leaves_computable` (T4a) every returned id is computable from the supplied ids and
  constants by deterministic operators only.
* `c04_folded_constants_deterministic` (T3, `propagate_constants`) the same for the leaves of
  `partial_run([], graph.output_ids())`, which are what constant propagation folds.
* `c04_pruned_inputs_returned` (T4b) a resolved, non-constant dependency of a pruned operator
  is returned.
-/
namespace RtenVerif.PartialRun
open RtenVerif.Graph RtenVerif.Planner

/-! ## T3 — non-deterministic operators are never evaluated -/

/-- **C04.T3** Whatever the graph and the request, the operator list `partial_run` hands to
the executor (`pruned_plan`) contains only operators of the plan whose `is_deterministic()`
flag is set: no non-deterministic operator is evaluated by partial evaluation. -/
theorem c04_no_nondeterministic_evaluated {g : Graph} {ins outs kept leaves : List Nat}
    (h : partialPlan g ins outs = .ok (kept, leaves)) :
    ∀ k ∈ kept, ∃ op, getOp g k = some op ∧ op.deterministic = true := by
  unfold partialPlan at h
  cases hc : createPlan g ins outs partialOpts with
  | error e => simp [hc] at h
  | ok plan =>
    simp only [hc, prunePlan] at h
    injection h with h
    injection h with h1 h2
    subst h1
    intro k hk
    exact (kept_spec g plan ins k hk).2

/-- **C04.T3 at every nesting depth** `If`/`Loop` own subgraphs; the IR's `deterministic` flag
of an operator is the *deep* flag `DTree.deep` of its tree of own flags (hypothesis `DeepFlags`,
which is what the code's recursive `is_deterministic` computes after commit "fix: If and Loop are
deterministic only if every operator in their subgraphs is", and what the harness ties: the
driver computes the flag from the own flags with `DTree.deep`).  Then for every operator
`partial_run` executes, neither it nor any operator at any nesting depth inside its subgraphs
(`(tree k).nodes`) is flagged non-deterministic.  Before that commit the statement was false
of the code: `If(true){RandomUniform}` was evaluated and folded (finding C04-if-random). -/
theorem c04_no_nondeterministic_evaluated_deep {g : Graph} {tree : Nat → DTree}
    (hf : DeepFlags g tree) {ins outs kept leaves : List Nat}
    (h : partialPlan g ins outs = .ok (kept, leaves)) :
    ∀ k ∈ kept, ∀ t' ∈ (tree k).nodes, t'.own = true := by
  obtain ⟨plan, _, rfl, _⟩ := partialPlan_ok h
  exact kept_deep hf plan ins

/-- Graph-level non-vacuity of the deep theorem with a *non-flat* tree.  Operator 2 is
`If(0){then: [Loop{[Identity, inner]}], else: [Identity]}` producing value 1; the IR flag of
operator 2 is `DTree.deep` of that tree.  With `inner = RandomUniform` (own flag false, two
levels down) the flag is false, the operator is pruned and `partial_run([], [1])` returns
nothing; with `inner = Neg` it is kept, value 1 is returned, and the deep theorem says every
own flag in the tree — at depth 0, 1 and 2 — is set. -/
def nestedTree (inner : Bool) : DTree :=
  .node true [[.node true [[.node true [], .node inner []]]], [.node true []]]

def nestedGraph (inner : Bool) : Graph :=
  { nodes := [.constant, .value,
      .operator { inputs := [some 0], outputs := [some 1],
                  deterministic := (nestedTree inner).deep }] }

def nestedTrees (inner : Bool) : Nat → DTree := fun p =>
  if p = 2 then nestedTree inner else .node true []

example : DeepFlags (nestedGraph false) (nestedTrees false) := deepFlags_of_check (by decide)
example : DeepFlags (nestedGraph true) (nestedTrees true) := deepFlags_of_check (by decide)
example : partialPlan (nestedGraph false) [] [1] = .ok ([], []) := by decide
example : partialPlan (nestedGraph true) [] [1] = .ok ([2], [1]) := by decide
example : ∀ t' ∈ (nestedTrees true 2).nodes, t'.own = true :=
  c04_no_nondeterministic_evaluated_deep (deepFlags_of_check (by decide))
    (show partialPlan (nestedGraph true) [] [1] = .ok ([2], [1]) by decide) 2 (by decide)
example : (nestedTrees true 2).nodes.length = 5 := by decide

/-- The deep flag is exactly "no operator at any depth is flagged non-deterministic". -/
theorem c04_deep_flag_iff (t : DTree) : t.deep = true ↔ ∀ t' ∈ t.nodes, t'.own = true :=
  deep_iff t

/-- Non-vacuity: `RandomUniform`-like operator 3 (no inputs, non-deterministic) feeds the
deterministic operator 4 together with the supplied value 0; both are pruned, nothing is kept
and the only leaf is the supplied value. -/
def randGraph : Graph :=
  { nodes := [.value, .value, .value,
      .operator { inputs := [], outputs := [some 1], deterministic := false },
      .operator { inputs := [some 0, some 1], outputs := [some 2] }] }

example : partialPlan randGraph [0] [2] = .ok ([], [0]) := by decide
example : partialPlan randGraph [0] [1, 2] = .ok ([], [0]) := by decide

/-! ## T4 — the returned ids depend on nothing that is missing -/

/-- **C04.T4a** Every id returned by `partial_run` is `Computable` from the supplied ids:
a supplied id, a constant, or an output of a deterministic operator all of whose
dependencies are computable.  Hence no returned value transitively depends on a missing
input or on a non-deterministic operator. -/
theorem c04_leaves_computable {g : Graph} {ins outs kept leaves : List Nat}
    (h : partialPlan g ins outs = .ok (kept, leaves)) :
    ∀ v ∈ leaves, Computable g ins v := by
  unfold partialPlan at h
  cases hc : createPlan g ins outs partialOpts with
  | error e => simp [hc] at h
  | ok plan =>
    simp only [hc, prunePlan] at h
    injection h with h
    injection h with h1 h2
    subst h2
    intro v hv
    have hv' := (pruneFold_resolved_iff_cand g plan ins v).mpr (mem_newOutputs.mp hv).1
    exact resolved_computable g plan ins v hv'

/-- **C04.T3 (constant propagation)** `GraphOptimizer::propagate_constants` replaces exactly
the leaves of `partial_run(vec![], graph.output_ids())` by constants; each of them is computable
from constants alone through deterministic operators, so no output of a non-deterministic
operator (nor anything depending on one) is ever folded. -/
theorem c04_folded_constants_deterministic {g : Graph} {kept leaves : List Nat}
    (h : partialPlan g [] g.outputIds = .ok (kept, leaves)) :
    ∀ v ∈ leaves, Computable g [] v :=
  c04_leaves_computable h

/-- A computable value that is neither supplied nor a constant is an output of a
deterministic operator with computable dependencies; with unique producers that operator is
the registered source of the value. -/
theorem computable_source_det {g : Graph} {S : List Nat} {v : Nat} (hu : UniqueProducer g)
    (h : Computable g S v) (hs : v ∉ S) (hc : isConstant g v = false) :
    ∃ p op, getSource g v = some (p, op) ∧ op.deterministic = true ∧
      ∀ d ∈ opDeps g op, Computable g S d := by
  cases h with
  | supplied h => exact absurd h hs
  | const h => rw [h] at hc; cases hc
  | @op _ p op hop hdet _ hdeps hv =>
    refine ⟨p, op, ?_, hdet, hdeps⟩
    have := hu p op v hop hv
    simp [getSource, this, hop]

/-- **C04.T4b** (stated at the position of the pruned operator in the plan) if operator `b`
of the plan is pruned when the loop of `prune_plan` reaches it, each of its dependencies that
is resolved at that moment and is not a constant is among the returned ids. -/
theorem c04_pruned_inputs_returned {g : Graph} {pre post ins outs : List Nat} {b d : Nat}
    {op : OpNode} (hop : getOp g b = some op)
    (hp : prunedAt g (pruneFold g pre ins).resolved op = true)
    (hd : d ∈ opDeps g op) (hr : rContains g (pruneFold g pre ins).resolved d = true)
    (hc : isConstant g d = false) :
    d ∈ (prunePlan g (pre ++ b :: post) ins outs).2 :=
  pruned_input_returned hop hp hd hr hc

/-- **C04.T4b** Every dependency of a pruned operator of the plan that is computable from the
supplied values (and is not a constant) is among the returned ids — so the caller holds
everything the pruned part of the plan needs from the evaluated part. -/
theorem c04_pruned_inputs_returned_computable {g : Graph} {ins outs plan kept leaves : List Nat}
    {b d : Nat} {op : OpNode} (hu : UniqueProducer g)
    (hc : createPlan g ins outs partialOpts = .ok plan)
    (h : partialPlan g ins outs = .ok (kept, leaves))
    (hb : b ∈ plan) (hnk : b ∉ kept) (hop : getOp g b = some op) (hd : d ∈ opDeps g op)
    (hcomp : Computable g ins d) (hconst : isConstant g d = false) : d ∈ leaves := by
  obtain ⟨plan', hc', hk, hl⟩ := partialPlan_ok h
  rw [hc] at hc'
  injection hc' with hc'
  subst hc'
  subst hk; subst hl
  have hok : PlanOK g true ins outs plan := by
    have := c03_plan_ok (argsOK_of_createPlan_ok hc) hc
    simpa [partialOpts, resolvedNew] using this
  obtain ⟨pre, post, hsplit⟩ := List.append_of_mem hb
  have hp : prunedAt g (pruneFold g pre ins).resolved op = true := by
    cases hp : prunedAt g (pruneFold g pre ins).resolved op with
    | true => rfl
    | false => exact absurd (hsplit ▸ (kept_at_step (post := post) hop hp).1) hnk
  rw [hsplit]
  exact pruned_input_returned hop hp hd (computable_resolved_at hu hok hsplit hop hd hcomp) hconst

/-- Non-vacuity of T4: value 3 = op5(0) is computable from the supplied 0; operator 6 needs
3 and the missing input 1, so it is pruned and 3 is returned (and nothing depending on 1). -/
def chainGraph : Graph :=
  { nodes := [.value, .value, .constant, .value, .value,
      .operator { inputs := [some 0, some 2], outputs := [some 3] },
      .operator { inputs := [some 3, some 1], outputs := [some 4] }] }

example : partialPlan chainGraph [0] [4] = .ok ([5], [3]) := by decide
example : Computable chainGraph [0] 3 := by
  have hop : getOp chainGraph 5 = some { inputs := [some 0, some 2], outputs := [some 3] } := by
    decide
  refine .op hop rfl (by decide) ?_ (by decide)
  intro d hd
  have h : opDeps chainGraph { inputs := [some 0, some 2], outputs := [some 3] } = [0, 2] := by
    decide
  rw [h] at hd
  have : d = 0 ∨ d = 2 := by simpa using hd
  rcases this with rfl | rfl
  · exact .supplied (by decide)
  · exact .const (by decide)

/-! ## T1 — the returned values are the full evaluation's values -/

section
variable {Ω V : Type}

/-- **C04.T1** Every `(id, value)` returned by `partial_run` on the supplied values `S` is the
value `id` has in the naive full evaluation of the graph (`evalAt`/`evalFull`) on *any*
completion `S ++ rest` of the inputs by true graph inputs, and for *any* oracle `ω'` (state of
the random generators): it depends only on `S` and the constants.
Hypotheses: every value has one producer; operators flagged deterministic are functions of
their arguments (`DetSem`); the remaining inputs are not produced by any operator. -/
theorem c04_leaf_values {g : Graph} {sem : Sem Ω V} {cv : Nat → V} {S rest : List (Nat × V)}
    (hs : Setup g S rest) (hdet : DetSem g sem) {ω : Ω} {outs : List Nat}
    {leaves : List (Nat × V)} (h : partialRun g sem ω cv S [] outs = .ok leaves) (ω' : Ω) :
    ∀ pr ∈ leaves, Den g sem ω' cv (S ++ rest) pr.1 pr.2 :=
  leaf_values hs hdet h ω'

/-- **C04.T1 (against `run`)** … hence equal to what any successful `run` with all inputs
returns for that id, whatever outputs that run requests and whatever its oracle. -/
theorem c04_leaf_values_run {g : Graph} {sem : Sem Ω V} {cv : Nat → V} {S rest : List (Nat × V)}
    (hs : Setup g S rest) (hdet : DetSem g sem) {ω ω' : Ω} {outs outs' : List Nat}
    {leaves : List (Nat × V)} {vals' : List V}
    (h : partialRun g sem ω cv S [] outs = .ok leaves)
    (hrun : run g sem ω' cv (S ++ rest) [] outs' = .ok vals') :
    ∀ pr ∈ leaves, ∀ pr' ∈ outs'.zip vals', pr'.1 = pr.1 → pr'.2 = pr.2 := by
  intro pr hpr pr' hpr' heq
  have h1 := leaf_values hs hdet h ω' pr hpr
  have h2 := (run_sound hs.up hrun).2 pr' hpr'
  rw [heq] at h2
  exact h2.unique g sem ω' cv _ h1

/-! ## T2 — composition -/

/-- **C04.T2** `run (partial_run S outs ++ rest) outs = run (S ++ rest) outs` whenever the
latter succeeds: the composed run *succeeds* (its request is well-formed — in particular the
returned ids are distinct and disjoint from the remaining inputs —, planning finds no cycle and
no missing value, the executor finds every dependency, no operator fails) and returns the same
list of outputs.  For every graph with unique producers whose operator outputs are value nodes,
every supplied subset `S` (including empty and all inputs), every request `outs` (outputs that
are inputs, constants, intermediate values), every oracle `ω` — the *same* state of the random
generators in both runs: a non-deterministic operator is executed by the single run and by the
composed run, never by `partial_run` (T3); a deterministic one by `partial_run` or the composed
run.  Before the `prune_plan` fix this was false (`c04_orig_compose_false`). -/
theorem c04_compose {g : Graph} {sem : Sem Ω V} {cv : Nat → V} {S rest : List (Nat × V)}
    (hs : Setup g S rest) (hov : OutputsAreValues g) (hdet : DetSem g sem)
    {ω : Ω} {outs : List Nat} {leaves : List (Nat × V)} {valsF : List V}
    (hp : partialRun g sem ω cv S [] outs = .ok leaves)
    (hfull : run g sem ω cv (S ++ rest) [] outs = .ok valsF) :
    run g sem ω cv (leaves ++ rest) [] outs = .ok valsF :=
  compose_full hs hov hdet hp hfull

/-- **C04.T2 at full strength** (no assumption that `partial_run` returned): whenever the single
`run` with all inputs succeeds, `partial_run` on the subset `S` returns some leaves — its
planning finds no cycle, every kept operator finds its dependencies and succeeds, the leaves can
be collected — and `run` on those leaves plus the remaining inputs succeeds with the same
outputs. -/
theorem c04_compose_total {g : Graph} {sem : Sem Ω V} {cv : Nat → V} {S rest : List (Nat × V)}
    (hs : Setup g S rest) (hov : OutputsAreValues g) (hdet : DetSem g sem)
    {ω : Ω} {outs : List Nat} {valsF : List V}
    (hfull : run g sem ω cv (S ++ rest) [] outs = .ok valsF) :
    ∃ leaves, partialRun g sem ω cv S [] outs = .ok leaves ∧
      run g sem ω cv (leaves ++ rest) [] outs = .ok valsF :=
  compose_total hs hov hdet hfull

/-- **C04.T2 (values only)** without the assumption that operator outputs are value nodes: if
both runs finish they agree. -/
theorem c04_compose_values {g : Graph} {sem : Sem Ω V} {cv : Nat → V} {S rest : List (Nat × V)}
    (hs : Setup g S rest) (hdet : DetSem g sem) {ω : Ω} {outs : List Nat}
    {leaves : List (Nat × V)} {valsF valsP : List V}
    (hp : partialRun g sem ω cv S [] outs = .ok leaves)
    (hfull : run g sem ω cv (S ++ rest) [] outs = .ok valsF)
    (hfin : run g sem ω cv (leaves ++ rest) [] outs = .ok valsP) : valsF = valsP :=
  compose_values hs hdet hp hfull hfin

/-- **Owned inputs** `run_plan` moves inputs passed as owned `Value`s into `temp_values` and
reads borrowed ones through `inputs_by_id`.  `Graph::run` with any owned/borrowed split of its
inputs returns exactly what the all-borrowed call returns (same outcome class, same values) —
unconditionally.  Hence T1/T2, stated above for borrowed inputs, hold for every split. -/
theorem c04_run_owned_eq {g : Graph} {sem : Sem Ω V} {cv : Nat → V} {ω : Ω}
    (views owned : List (Nat × V)) (outs : List Nat) :
    run g sem ω cv views owned outs = run g sem ω cv (views ++ owned) [] outs :=
  run_owned_eq outs

/-- The same for `Graph::partial_run`. -/
theorem c04_partial_run_owned_eq {g : Graph} {sem : Sem Ω V} {cv : Nat → V} {ω : Ω}
    (views owned : List (Nat × V)) (outs : List Nat) :
    partialRun g sem ω cv views owned outs = partialRun g sem ω cv (views ++ owned) [] outs :=
  partialRun_owned_eq outs

/-- **Completeness of `run`** (used for T2, of independent interest): on a well-formed request
for which the naive evaluation assigns a value to every requested output, `run` succeeds — no
planning error, no panic, no operator error. -/
theorem c04_run_complete {g : Graph} {sem : Sem Ω V} {cv : Nat → V} {ω : Ω} {W : List (Nat × V)}
    (hu : UniqueProducer g) (hov : OutputsAreValues g) {outs : List Nat}
    (hargs : ArgsOK g (W.map (fun p => p.1)) outs)
    (hden : ∀ o ∈ outs, ∃ v, Den g sem ω cv W o v) :
    ∃ vals, run g sem ω cv W [] outs = .ok vals :=
  run_complete hu hov hargs hden

end

/-- Non-vacuity of T1/T2 on `chainGraph` with numbers as values: operator `p` returns
`sum(args) + p`, the constant 2 is 100, `S = {0 ↦ 5}`, `rest = {1 ↦ 7}`. -/
def numSem : Sem Unit Nat := fun _ p args => some [args.sum + p]

example : Setup chainGraph [(0, 5)] [(1, 7)] := setup_of_check (by decide) (by decide)
example : OutputsAreValues chainGraph := outputsAreValues_of_check (by decide)
example : DetSem chainGraph numSem := fun _ _ _ _ _ _ _ => rfl
example : (partialRun chainGraph numSem () (fun _ => 100) [(0, 5)] [] [4]).toOption =
    some [(3, 110)] := by decide
example : (run chainGraph numSem () (fun _ => 100) ([(0, 5)] ++ [(1, 7)]) [] [4]).toOption =
    some [123] := by decide
example : (run chainGraph numSem () (fun _ => 100) ([(3, 110)] ++ [(1, 7)]) [] [4]).toOption =
    some [123] := by decide
example : evalFull chainGraph numSem () (fun _ => 100) ([(0, 5)] ++ [(1, 7)]) 4 = some 123 := by
  decide

/-- Non-vacuity of the "any oracle" clause: operator 3 is a random generator (returns the
oracle), operator 4 is deterministic, operator 6 needs both.  `partial_run` with oracle 5
returns value 2 = 10 + 4; the full evaluation with a *different* oracle 9 assigns the same value
to id 2, while the random value 1 and the output 5 do depend on the oracle. -/
def oracleGraph : Graph :=
  { nodes := [.value, .value, .value,
      .operator { inputs := [], outputs := [some 1], deterministic := false },
      .operator { inputs := [some 0], outputs := [some 2] },
      .value,
      .operator { inputs := [some 1, some 2], outputs := [some 5] }] }

def oracleSem : Sem Nat Nat := fun ω p args => if p = 3 then some [ω] else some [args.sum + p]

example : DetSem oracleGraph oracleSem := by
  intro p op hop hdet ω ω' args
  by_cases h : p = 3
  · subst h
    have : getOp oracleGraph 3 =
        some { inputs := [], outputs := [some 1], deterministic := false } := by decide
    rw [this] at hop
    injection hop with hop
    subst hop
    cases hdet
  · simp [oracleSem, h]
example : (partialRun oracleGraph oracleSem 5 (fun _ => 0) [(0, 10)] [] [5]).toOption =
    some [(2, 14)] := by decide
example : evalFull oracleGraph oracleSem 9 (fun _ => 0) [(0, 10)] 2 = some 14 := by decide
example : evalFull oracleGraph oracleSem 9 (fun _ => 0) [(0, 10)] 5 = some 29 := by decide
example : evalFull oracleGraph oracleSem 5 (fun _ => 0) [(0, 10)] 5 = some 25 := by decide

/-! ## The returned ids are distinct (after the fix); before it they could repeat

`candidate_outputs` starts with the supplied ids and is extended with the outputs of every kept
operator.  Before commit "fix: prune_plan lists a value that is both supplied and produced only
once", a supplied id that is *also* an output of a kept operator (a two-output operator whose
other output is needed) and is requested (or feeds a pruned operator) was returned twice:
`run` rejects the returned list ("Inputs are not unique"), and with an owned input `run_plan`
panics ("missing output value") when it collects the second copy. -/

/-- **C04 (ids)** The ids returned by `partial_run` are pairwise distinct, so the returned list
can be passed to `run` (which rejects duplicate inputs) as it is. -/
theorem c04_leaves_nodup {g : Graph} {ins outs kept leaves : List Nat}
    (h : partialPlan g ins outs = .ok (kept, leaves)) : leaves.Nodup := by
  obtain ⟨plan, hc, _, rfl⟩ := partialPlan_ok h
  exact (pruneFold_cand_nodup g plan ins (argsOK_of_createPlan_ok hc).2.2.1).sublist List.filter_sublist

/-- Value 0 feeds the two-output operator 3; value 1 (its first output) is also supplied. -/
def dupGraph : Graph :=
  { nodes := [.value, .value, .value,
      .operator { inputs := [some 0], outputs := [some 1, some 2] }] }

/-- Before the fix `partial_run([0, 1], [1, 2])` returned the id 1 twice (reproduced on the
pre-fix tree through `Model::partial_run`: duplicate leaf with a borrowed input, panic with an
owned one) … -/
theorem c04_orig_leaves_dup : partialPlanOrig dupGraph [0, 1] [1, 2] = .ok ([3], [1, 1, 2]) := by
  decide

/-- … and `run` rejects that list although `run([0, 1], [1, 2])` succeeds. -/
theorem c04_orig_compose_false :
    createPlan dupGraph [1, 1, 2] [1, 2] runOpts = .error .dupInput ∧
    createPlan dupGraph [0, 1] [1, 2] runOpts = .ok [3] := by
  decide

/-- The same request with the code as it stands. -/
theorem c04_fixed_dupGraph : partialPlan dupGraph [0, 1] [1, 2] = .ok ([3], [1, 2]) := by
  decide

/-! ## The operator determinism table read from the source

`Generated/NondetOps.lean` is re-extracted from `/repo/src` by
`translate/nondeterministic_ops.py` on every check. -/

open RtenVerif.Generated.NondetOps in
/-- The trait default of `is_deterministic` is literally `true`; every registered operator whose
name starts with `Random`, and `Multinomial`, overrides it with the literal body `false`; every
operator implemented in a source file that mentions a random number generator overrides it
(whatever its name); every operator that owns subgraphs (`If`, `Loop`) overrides it (with the
recursion into its subgraphs that `DTree.deep` models and the harness ties). -/
theorem c04_random_ops_nondeterministic :
    traitDefault = true ∧ randomRegistered.length = 5 ∧
    (∀ n ∈ randomRegistered, (overrides.any (fun o => o.1 == n && o.2.2.2.1)) = true) ∧
    (∀ n ∈ rngFileOps, (overrides.any (fun o => o.1 == n)) = true) ∧
    subgraphOps.length = 2 ∧
    (∀ n ∈ subgraphOps, (overrides.any (fun o => o.1 == n)) = true) := by
  decide

end RtenVerif.PartialRun
