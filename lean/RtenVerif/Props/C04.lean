import RtenVerif.Lemmas.PartialRunPrune
import RtenVerif.Props.C03
import RtenVerif.Generated.NondetOps

/-!
# C04 — Partial evaluation composes with full evaluation

*For any model, any subset of its inputs, and any requested outputs, feeding the values
returned by `partial_run` (given that subset) together with the remaining inputs to `run`
yields the same outputs as a single run with all inputs.  Operators whose results vary
between runs (random generators) are never evaluated by partial evaluation or folded into
constants.*

Theorems over `RtenVerif.Model.PartialRun` (model of `Graph::partial_run`,
`Planner::prune_plan`, `Graph::run`/`run_plan`), the planner model of C03 and the graph IR.

* `c04_no_nondeterministic_evaluated` (T3) every operator `partial_run` executes is a
  deterministic operator of the plan.
* `c04_leaves_computable` (T4a) every returned id is computable from the supplied ids and
  constants by deterministic operators only.
* `c04_folded_constants_deterministic` (T3, `propagate_constants`) the same for the leaves of
  `partial_run([], graph.output_ids())`, which are what constant propagation folds.
* `c04_pruned_inputs_returned` (T4b) a resolved, non-constant dependency of a pruned operator
  is returned.
-/
namespace RtenVerif.PartialRun
open RtenVerif.Graph RtenVerif.Planner

/-! ## T3 — non-deterministic operators are never evaluated -/

/-- **C04.T3** Whatever the graph and the request, the operator list `partial_run` hands to
the executor (`pruned_plan`) contains only operators of the plan whose `is_deterministic()`
flag is set: no non-deterministic operator is evaluated by partial evaluation. -/
theorem c04_no_nondeterministic_evaluated {g : Graph} {ins outs kept leaves : List Nat}
    (h : partialPlan g ins outs = .ok (kept, leaves)) :
    ∀ k ∈ kept, ∃ op, getOp g k = some op ∧ op.deterministic = true := by
  unfold partialPlan at h
  cases hc : createPlan g ins outs partialOpts with
  | error e => simp [hc] at h
  | ok plan =>
    simp only [hc, prunePlan] at h
    injection h with h
    injection h with h1 h2
    subst h1
    intro k hk
    exact (kept_spec g plan ins k hk).2

/-- Non-vacuity: `RandomUniform`-like operator 3 (no inputs, non-deterministic) feeds the
deterministic operator 4 together with the supplied value 0; both are pruned, nothing is kept
and the only leaf is the supplied value. -/
def randGraph : Graph :=
  { nodes := [.value, .value, .value,
      .operator { inputs := [], outputs := [some 1], deterministic := false },
      .operator { inputs := [some 0, some 1], outputs := [some 2] }] }

example : partialPlan randGraph [0] [2] = .ok ([], [0]) := by decide
example : partialPlan randGraph [0] [1, 2] = .ok ([], [0]) := by decide

/-! ## T4 — the returned ids depend on nothing that is missing -/

/-- **C04.T4a** Every id returned by `partial_run` is `Computable` from the supplied ids:
a supplied id, a constant, or an output of a deterministic operator all of whose
dependencies are computable.  Hence no returned value transitively depends on a missing
input or on a non-deterministic operator. -/
theorem c04_leaves_computable {g : Graph} {ins outs kept leaves : List Nat}
    (h : partialPlan g ins outs = .ok (kept, leaves)) :
    ∀ v ∈ leaves, Computable g ins v := by
  unfold partialPlan at h
  cases hc : createPlan g ins outs partialOpts with
  | error e => simp [hc] at h
  | ok plan =>
    simp only [hc, prunePlan] at h
    injection h with h
    injection h with h1 h2
    subst h2
    intro v hv
    have hv' := (pruneFold_resolved_iff_cand g plan ins v).mpr (mem_newOutputs.mp hv).1
    exact resolved_computable g plan ins v hv'

/-- **C04.T3 (constant propagation)** `GraphOptimizer::propagate_constants` replaces exactly
the leaves of `partial_run(vec![], graph.output_ids())` by constants; each of them is computable
from constants alone through deterministic operators, so no output of a non-deterministic
operator (nor anything depending on one) is ever folded. -/
theorem c04_folded_constants_deterministic {g : Graph} {kept leaves : List Nat}
    (h : partialPlan g [] g.outputIds = .ok (kept, leaves)) :
    ∀ v ∈ leaves, Computable g [] v :=
  c04_leaves_computable h

/-- A computable value that is neither supplied nor a constant is an output of a
deterministic operator with computable dependencies; with unique producers that operator is
the registered source of the value. -/
theorem computable_source_det {g : Graph} {S : List Nat} {v : Nat} (hu : UniqueProducer g)
    (h : Computable g S v) (hs : v ∉ S) (hc : isConstant g v = false) :
    ∃ p op, getSource g v = some (p, op) ∧ op.deterministic = true ∧
      ∀ d ∈ opDeps g op, Computable g S d := by
  cases h with
  | supplied h => exact absurd h hs
  | const h => rw [h] at hc; cases hc
  | op hop hdet hdeps hv =>
    rename_i p op
    refine ⟨p, op, ?_, hdet, hdeps⟩
    have := hu p op v hop hv
    simp [getSource, this, hop]

/-- **C04.T4b** (stated at the position of the pruned operator in the plan) if operator `b`
of the plan is pruned when the loop of `prune_plan` reaches it, each of its dependencies that
is resolved at that moment and is not a constant is among the returned ids. -/
theorem c04_pruned_inputs_returned {g : Graph} {pre post ins outs : List Nat} {b d : Nat}
    {op : OpNode} (hop : getOp g b = some op)
    (hp : prunedAt g (pruneFold g pre ins).resolved op = true)
    (hd : d ∈ opDeps g op) (hr : rContains g (pruneFold g pre ins).resolved d = true)
    (hc : isConstant g d = false) :
    d ∈ (prunePlan g (pre ++ b :: post) ins outs).2 :=
  pruned_input_returned hop hp hd hr hc

/-- Non-vacuity of T4: value 3 = op5(0) is computable from the supplied 0; operator 6 needs
3 and the missing input 1, so it is pruned and 3 is returned (and nothing depending on 1). -/
def chainGraph : Graph :=
  { nodes := [.value, .value, .constant, .value, .value,
      .operator { inputs := [some 0, some 2], outputs := [some 3] },
      .operator { inputs := [some 3, some 1], outputs := [some 4] }] }

example : partialPlan chainGraph [0] [4] = .ok ([5], [3]) := by decide
example : Computable chainGraph [0] 3 := by
  have hop : getOp chainGraph 5 = some { inputs := [some 0, some 2], outputs := [some 3] } := by
    decide
  refine .op hop rfl ?_ (by decide)
  intro d hd
  have h : opDeps chainGraph { inputs := [some 0, some 2], outputs := [some 3] } = [0, 2] := by
    decide
  rw [h] at hd
  have : d = 0 ∨ d = 2 := by simpa using hd
  rcases this with rfl | rfl
  · exact .supplied (by decide)
  · exact .const (by decide)

/-! ## The returned ids are distinct (after the fix); before it they could repeat

`candidate_outputs` starts with the supplied ids and is extended with the outputs of every kept
operator.  Before commit "fix: prune_plan lists a value that is both supplied and produced only
once", a supplied id that is *also* an output of a kept operator (a two-output operator whose
other output is needed) and is requested (or feeds a pruned operator) was returned twice:
`run` rejects the returned list ("Inputs are not unique"), and with an owned input `run_plan`
panics ("missing output value") when it collects the second copy. -/

/-- A request `create_plan` accepts is well-formed. -/
theorem argsOK_of_createPlan_ok {g : Graph} {ins outs plan : List Nat} {opts : PlanOptions}
    (h : createPlan g ins outs opts = .ok plan) : ArgsOK g ins outs := by
  obtain ⟨h1, h2, h3, h4⟩ := c03_argument_check g ins outs opts
  have a : outs.Nodup := by
    by_cases a : outs.Nodup
    · exact a
    · rw [h1 a] at h; cases h
  have b : ∀ o ∈ outs, isValueOrConstant g o = true := by
    by_cases b : ∀ o ∈ outs, isValueOrConstant g o = true
    · exact b
    · rw [h2 a b] at h; cases h
  have c : ins.Nodup := by
    by_cases c : ins.Nodup
    · exact c
    · rw [h3 a b c] at h; cases h
  have d : ∀ i ∈ ins, isValueOrConstant g i = true := by
    by_cases d : ∀ i ∈ ins, isValueOrConstant g i = true
    · exact d
    · rw [h4 a b c d] at h; cases h
  exact ⟨a, b, c, d⟩

/-- What `partialPlan` returns, unfolded. -/
theorem partialPlan_ok {g : Graph} {ins outs kept leaves : List Nat}
    (h : partialPlan g ins outs = .ok (kept, leaves)) :
    ∃ plan, createPlan g ins outs partialOpts = .ok plan ∧
      kept = (pruneFold g plan ins).kept ∧ leaves = newOutputs (pruneFold g plan ins) outs := by
  unfold partialPlan at h
  cases hc : createPlan g ins outs partialOpts with
  | error e => simp [hc] at h
  | ok plan =>
    simp only [hc, prunePlan] at h
    injection h with h
    injection h with h1 h2
    exact ⟨plan, rfl, h1.symm, h2.symm⟩

/-- **C04 (ids)** The ids returned by `partial_run` are pairwise distinct, so the returned list
can be passed to `run` (which rejects duplicate inputs) as it is. -/
theorem c04_leaves_nodup {g : Graph} {ins outs kept leaves : List Nat}
    (h : partialPlan g ins outs = .ok (kept, leaves)) : leaves.Nodup := by
  obtain ⟨plan, hc, _, rfl⟩ := partialPlan_ok h
  exact (pruneFold_cand_nodup g plan ins (argsOK_of_createPlan_ok hc).2.2.1).sublist List.filter_sublist

/-- Value 0 feeds the two-output operator 3; value 1 (its first output) is also supplied. -/
def dupGraph : Graph :=
  { nodes := [.value, .value, .value,
      .operator { inputs := [some 0], outputs := [some 1, some 2] }] }

/-- Before the fix `partial_run([0, 1], [1, 2])` returned the id 1 twice (reproduced on the
pre-fix tree through `Model::partial_run`: duplicate leaf with a borrowed input, panic with an
owned one) … -/
theorem c04_orig_leaves_dup : partialPlanOrig dupGraph [0, 1] [1, 2] = .ok ([3], [1, 1, 2]) := by
  decide

/-- … and `run` rejects that list although `run([0, 1], [1, 2])` succeeds. -/
theorem c04_orig_compose_false :
    createPlan dupGraph [1, 1, 2] [1, 2] runOpts = .error .dupInput ∧
    createPlan dupGraph [0, 1] [1, 2] runOpts = .ok [3] := by
  decide

/-- The same request with the code as it stands. -/
theorem c04_fixed_dupGraph : partialPlan dupGraph [0, 1] [1, 2] = .ok ([3], [1, 2]) := by
  decide

/-! ## The operator determinism table read from the source

`Generated/NondetOps.lean` is re-extracted from `/repo/src` by
`translate/nondeterministic_ops.py` on every check. -/

open RtenVerif.Generated.NondetOps in
/-- Every registered operator whose name starts with `Random`, and `Multinomial`, overrides
`is_deterministic` with the literal body `false`; the trait default is literally `true`
(so every operator that does not override it is treated as deterministic). -/
theorem c04_random_ops_nondeterministic :
    traitDefault = true ∧ randomRegistered.length = 5 ∧
    (∀ n ∈ randomRegistered, (overrides.any (fun o => o.1 == n && o.2.2.2.1)) = true) := by
  decide

end RtenVerif.PartialRun
