import RtenVerif.Lemmas.FillIter
import RtenVerif.Props.C36

/-!
# C36 — polygon filling, wide lines, polygon outlines

`Polygon::fill_iter` (`FillIter`), `draw_line` with width > 1 and `draw_polygon` with width 1.

"Shape's bounds" as the code defines them:
* `fill_iter`: `Polygon::bounding_rect()` = `[min y, max y) × [min x, max x)` of the vertices
  (the iterator never yields the bottom row / right column: top/left fill rule);
* wide `draw_line`: the polygon filled is the rotated rect of width `width` around the segment,
  with corners truncated to integers; its bounds are the bounding rect of those four corners
  (the corners are computed in `f32` by the code and are an input of the model; the harness
  checks that they lie within `width/2 + 2` of the segment's bounding box);
* `draw_polygon` (width 1): each edge is a `draw_line` of width 1, i.e. clamped to the image.
-/
namespace RtenVerif.Contours

/-- **C36.T3a** Every pixel `fill_iter` yields lies inside the polygon's bounding rect
`[top, bottom) × [left, right)` — for every vertex list (any coordinates, degenerate, self-
intersecting, empty). -/
theorem c36_fillIter_in_bounds (pts : List Pt) :
    ∀ p ∈ (fillIter pts).1, (polyBounds pts).1 ≤ p.1 ∧ p.1 < (polyBounds pts).2.2.1 ∧
      (polyBounds pts).2.1 ≤ p.2 ∧ p.2 < (polyBounds pts).2.2.2 :=
  (fillIter_spec pts).1

/-- **C36.T3b** Termination with the true bound: the `while` loop of `FillIter::next` runs at
most `area of the bounding rect + 1` times in total (one cursor position per iteration). -/
theorem c36_fillIter_terminates (pts : List Pt) : (fillIter pts).2 = true :=
  (fillIter_spec pts).2

theorem runFill_length (b : Int × Int × Int × Int) (n : Nat) (st : FillSt) :
    (runFill b n st).1.length ≤ n := by
  induction n generalizing st with
  | zero => simp [runFill]
  | succ n ih =>
    simp only [runFill]
    split
    · simp
    · have := ih (fillNext b st)
      split <;> simp only [List.length_cons] <;> omega

/-- **C36.T3c** At most `area + 1` pixels are yielded. -/
theorem c36_fillIter_count (pts : List Pt) :
    (fillIter pts).1.length ≤
      (((polyBounds pts).2.2.1 - (polyBounds pts).1) *
        ((polyBounds pts).2.2.2 - (polyBounds pts).2.1)).toNat + 1 := by
  unfold fillIter
  exact runFill_length _ _ _

/-- The code before the fix kept the edges of a polygon with empty bounds; then T3a/T3b fail.
`fillIterUnfixed` is that variant of `FillIter::new` + iteration with explicit fuel. -/
def fillIterUnfixed (pts : List Pt) (fuel : Nat) : List Pt × Bool :=
  let b := polyBounds pts
  let edges := isortE (fun a c => decide (a.startY ≤ c.startY))
    (((polyEdges pts).filter fun e => e.1.1 != e.2.1).map mkEdge)
  let cursor : Pt := if boundsEmpty b then (b.2.2.1, b.2.2.2) else (b.1, b.2.1)
  let u := updateActive cursor.1 [] edges
  runFill b fuel { pending := u.2, active := u.1, cursor := cursor }

/-- **Negation witness** (unfixed code): the zero-width polygon `(0,0) (1,0) (2,0)` yields
`(2,0), (2,1), (2,2), …` — pixels outside its bounding rect, without terminating (any fuel). -/
theorem c36_fillIter_unfixed_false :
    fillIterUnfixed [(0, 0), (1, 0), (2, 0)] 5 =
      ([(2, 0), (2, 1), (2, 2), (2, 3), (2, 4)], false) := by decide

/-- Non-vacuity: a 4×4 square, a diamond with negative coordinates, a zero-width polygon. -/
example : (fillIter [(0, 0), (0, 2), (2, 2), (2, 0)]) = ([(0, 0), (0, 1), (1, 0), (1, 1)], true) := by
  decide
example : (fillIter [(0, 1), (2, 3), (4, 1), (2, -1)]).1 =
    [(1, 0), (1, 1), (2, -1), (2, 0), (2, 1), (2, 2), (3, 0), (3, 1)] := by decide
example : fillIter [(0, 0), (1, 0), (2, 0)] = ([], true) := by decide

/-! ## wide `draw_line`, `draw_polygon` -/

theorem writeClipped_spec (h w : Int) (ps : List Pt) :
    ∀ p ∈ (writeClipped h w ps).1, inImage h w p = true ∧ p ∈ ps := by
  induction ps with
  | nil => intro p hp; simp [writeClipped] at hp
  | cons q qs ih =>
    intro p hp
    simp only [writeClipped] at hp
    split at hp
    · simp at hp
    · split at hp
      · rename_i hq
        rcases List.mem_cons.mp hp with rfl | hp
        · exact ⟨hq, List.mem_cons_self⟩
        · exact ⟨(ih p hp).1, List.mem_cons_of_mem _ (ih p hp).2⟩
      · exact ⟨(ih p hp).1, List.mem_cons_of_mem _ (ih p hp).2⟩

/-- **C36.T4d** `draw_line` with width > 1: every modified pixel is inside the image and inside
the bounding rect of the rotated rect's integer corners — for any corners (any line, any width,
coordinates inside or outside the image).  A negative pixel coordinate makes `Point::coord`
panic (outcome flag), pixels beyond the right/bottom border are skipped by `get_mut`. -/
theorem c36_drawWideLine_spec (h w : Int) (corners : List Pt) :
    ∀ p ∈ (drawWideLine h w corners).1, inImage h w p = true ∧
      (polyBounds corners).1 ≤ p.1 ∧ p.1 < (polyBounds corners).2.2.1 ∧
      (polyBounds corners).2.1 ≤ p.2 ∧ p.2 < (polyBounds corners).2.2.2 := by
  intro p hp
  obtain ⟨h1, h2⟩ := writeClipped_spec h w _ p hp
  exact ⟨h1, c36_fillIter_in_bounds corners p h2⟩

/-- **C36.T4e** `draw_polygon` with width 1: every modified pixel is inside the image, for any
vertices. -/
theorem c36_drawPolygon1_in_image (h w : Int) (es : List (Pt × Pt)) :
    ∀ p ∈ (drawPolygon1 h w es).1, inImage h w p = true := by
  induction es with
  | nil => intro p hp; simp [drawPolygon1] at hp
  | cons e es ih =>
    intro p hp
    simp only [drawPolygon1] at hp
    split at hp
    · exact c36_drawLine1_in_image h w e.1 e.2 p hp
    · rcases List.mem_append.mp hp with hp | hp
      · exact c36_drawLine1_in_image h w e.1 e.2 p hp
      · exact ih p hp

example : (drawWideLine 4 4 [(0, 1), (0, 3), (6, 3), (6, 1)]) =
    ([(0, 1), (0, 2), (1, 1), (1, 2), (2, 1), (2, 2), (3, 1), (3, 2)], false) := by decide
example : (drawWideLine 4 4 [(-1, 1), (-1, 3), (2, 3), (2, 1)]).2 = true := by decide

end RtenVerif.Contours
