/-
C13 — In-place and commuted operator execution match normal execution.

Proved here for the *modelled decision / index logic* (Model/InPlace.lean):
  T1  `can_run_binary_op_in_place a b` ⇒ `broadcast_shapes a b = a.shape` (the result fits the
      owned buffer); the in-place loop — which overwrites `a[i]` while it runs — equals the
      out-of-place positional map (each output element depends only on the same index of `a`);
      hence `run_typed_op_in_place!` (in-place branch or fallback) = `binary_op`, for every `f`.
  T2  `binop f a b = binop (flip f) b a`; for a commutative `f` the executor's "take operand 1 as the
      in-place value" run equals the normal run; every operator flagged `is_commutative` in the source
      (generated list) that has a value model is commutative over `i32` (wrapping) / truth values.
  T3  in-place layout operators (`reshape_in` for Reshape/Flatten, `insert_axis` for Unsqueeze,
      `remove_axis` for Squeeze) keep the row-major element sequence, contiguous or not.
Kernel equality of the real operators (floats, SIMD, every other in-place operator) is checked by
differential execution in harness/rten/src/bin/c13.rs — level "proof + partial".
-/
import RtenVerif.Lemmas.InPlace
import RtenVerif.Model.InPlaceExec
import RtenVerif.Lemmas.LayoutSeq
import RtenVerif.Generated.InPlaceOps

namespace RtenVerif.InPlace
open RtenVerif.FastBroadcast

/-- Well-formed tensor value: as many elements as the shape says. -/
def Tens.WF {α : Type} (t : Tens α) : Prop := t.data.length = numel t.shape

instance {α : Type} (t : Tens α) : Decidable t.WF := by unfold Tens.WF; infer_instance

/-! ## T1 -/

/-- **T1a.** The in-place decision implies the output shape is the owned operand's shape. -/
theorem c13_can_run_in_place_shape (a b : List Nat) (h : canRunInPlace a b = true) :
    broadcastShapes a b = some a :=
  broadcastShapes_of_canRunInPlace a b h

example : canRunInPlace [2, 1, 3] [1, 3] = true ∧ broadcastShapes [2, 1, 3] [1, 3] = some [2, 1, 3] := by decide
/-- The hypothesis matters: without it the output can be larger than the owned buffer. -/
example : canRunInPlace [1, 3] [2, 1] = false ∧ broadcastShapes [1, 3] [2, 1] = some [2, 3] := by decide

/-- **T1b.** The in-place loop (read `buf[i]`, write `buf[i]`, for `i = 0, 1, …`) computes the
positional map: no element is read after it was overwritten. -/
theorem c13_in_place_loop {α β : Type} (f : α → β → α) (a : List α) (bs : List β)
    (h : a.length ≤ bs.length) :
    inPlaceLoop f (fun i => bs[i]?) 0 a.length a = some (List.zipWith f a bs) :=
  inPlaceLoop_eq_zipWith f bs a h

example : inPlaceLoop (fun x y => x * 10 + y) (fun i => [7, 8, 9][i]?) 0 3 [1, 2, 3] = some [17, 28, 39] := by decide
/-- A too short `b` is the panic case (excluded by the hypothesis of T1b). -/
example : inPlaceLoop (fun x y => x * 10 + y) (fun i => [7, 8][i]?) 0 3 [1, 2, 3] = none := by decide

/-- **T1.** Running a binary operator in place on the owned operand `a` — in-place branch or
out-of-place fallback — gives exactly the normal `binary_op` result, for every element function. -/
theorem c13_run_in_place_eq_run {α β : Type} (f : α → β → α) (a : Tens α) (b : Tens β)
    (ha : a.WF) (hb : b.WF) : runInPlace f a b = binop f a b := by
  unfold runInPlace
  split
  · rename_i hcan
    have hshape := broadcastShapes_of_canRunInPlace a.shape b.shape hcan
    obtain ⟨hle, hc⟩ := compat_of_canBroadcastTo b.shape a.shape hcan
    have hlenB : (bcastTo b.data b.shape a.shape).length = numel a.shape := by
      rw [bcastTo, length_bcast _ _ hc, map_snd_pairsTo _ _ hle]
      rw [map_fst_pairsTo _ _ hle, numel_padFrom, hb]
      exact Nat.le_refl _
    unfold binop binopInPlace
    rw [hshape, Option.map_some, bcastTo_self a.data a.shape ha,
      inPlaceLoop_eq_zipWith f _ a.data (by rw [hlenB, ha]; exact Nat.le_refl _), Option.map_some]
  · rfl

example : runInPlace (· + ·) (⟨[2, 2], [1, 2, 3, 4]⟩ : Tens Nat) ⟨[2], [10, 20]⟩ =
    some ⟨[2, 2], [11, 22, 13, 24]⟩ := by decide
example : (⟨[2, 2], [1, 2, 3, 4]⟩ : Tens Nat).WF ∧ (⟨[2], [10, 20]⟩ : Tens Nat).WF := by decide
/-- Fallback branch (`a` is the smaller operand). -/
example : runInPlace (· + ·) (⟨[2], [10, 20]⟩ : Tens Nat) ⟨[2, 2], [1, 2, 3, 4]⟩ =
    some ⟨[2, 2], [11, 22, 13, 24]⟩ := by decide

/-! ## T2 -/

/-- **T2a.** Swapping the operands and flipping the element function does not change the result. -/
theorem c13_binop_swap {α β γ : Type} (f : α → β → γ) (a : Tens α) (b : Tens β) :
    binop f a b = binop (fun y x => f x y) b a := by
  unfold binop
  rw [broadcastShapes_comm a.shape b.shape]
  congr 1
  funext s
  rw [List.zipWith_comm]

/-- **T2b.** For a commutative element function, the run the executor performs after choosing
either operand as the owned in-place value equals the normal run. -/
theorem c13_exec_in_place_commutative {α : Type} (f : α → α → α) (hf : ∀ x y, f x y = f y x)
    (pos : Nat) (a b : Tens α) (ha : a.WF) (hb : b.WF) :
    execInPlace f pos a b = binop f a b := by
  unfold execInPlace
  split
  · exact c13_run_in_place_eq_run f a b ha hb
  · rw [c13_run_in_place_eq_run f b a hb ha, c13_binop_swap f b a]
    have : (fun y x => f x y) = f := by funext y x; exact hf x y
    rw [this]

/-- Without commutativity the swap is wrong — the reason the executor only re-orders operands of
operators flagged `is_commutative` (`Sub`: `in_place_inputs = {0}` only). -/
theorem c13_swap_needs_commutativity :
    ∃ (a b : Tens Int), a.WF ∧ b.WF ∧
      execInPlace (fun x y => x - y) 1 a b ≠ binop (fun x y => x - y) a b :=
  ⟨⟨[1], [5]⟩, ⟨[1], [3]⟩, by decide, by decide, by decide⟩

theorem wrap32_comm_add (x y : Int) : wrap32 (x + y) = wrap32 (y + x) := by rw [Int.add_comm]
theorem wrap32_comm_mul (x y : Int) : wrap32 (x * y) = wrap32 (y * x) := by rw [Int.mul_comm]

/-- **T2c.** Every operator the source flags `is_commutative` (list generated from src/ops by
translate/in_place_ops.py) and for which there is a value model (`Add`, `Mul` on wrapping `i32`;
`And`, `Or`, `Xor` on truth values; `Equal`) has a commutative element function.  (`AddSoftmax`
is flagged too; it is a float kernel — differential execution only.) -/
theorem c13_flagged_commutative_ops_commute :
    ∀ op ∈ RtenVerif.Generated.InPlaceOps.commutativeOps, ∀ f, binFn op = some f →
      ∀ x y : Int, f x y = f y x := by
  intro op hop f hf x y
  simp only [RtenVerif.Generated.InPlaceOps.commutativeOps, List.mem_cons, List.mem_nil_iff,
    or_false] at hop
  rcases hop with rfl | rfl | rfl | rfl | rfl | rfl | rfl
  · simp only [binFn, Option.some.injEq] at hf; subst hf; exact wrap32_comm_add x y
  · simp [binFn] at hf
  · simp only [binFn, Option.some.injEq] at hf; subst hf
    simp only [Bool.and_comm]
  · simp only [binFn, Option.some.injEq] at hf; subst hf
    by_cases h : x = y
    · subst h; rfl
    · have h' : ¬ y = x := fun e => h e.symm
      simp [b2i, h, h']
  · simp only [binFn, Option.some.injEq] at hf; subst hf; exact wrap32_comm_mul x y
  · simp only [binFn, Option.some.injEq] at hf; subst hf
    simp only [Bool.or_comm]
  · simp only [binFn, Option.some.injEq] at hf; subst hf
    show b2i ((x != 0) != (y != 0)) = b2i ((y != 0) != (x != 0))
    cases (x != 0) <;> cases (y != 0) <;> rfl

/-- The flagged list is not empty and the value models exist (non-vacuity of T2c). -/
example : "Add" ∈ RtenVerif.Generated.InPlaceOps.commutativeOps ∧ (binFn "Add").isSome ∧
    "Mul" ∈ RtenVerif.Generated.InPlaceOps.commutativeOps ∧ (binFn "Xor").isSome := by decide
/-- `Sub` is modelled, not commutative, and not flagged. -/
example : "Sub" ∉ RtenVerif.Generated.InPlaceOps.commutativeOps ∧
    (binFn "Sub").map (fun f => decide (f 1 2 = f 2 1)) = some false := by decide

/-- Executor choice for commutative operators: the largest present input; ties go to the later one
(`max_by_key`). -/
example : inPlaceCandidates [0] true [some 4, some 12] = [1] ∧
    inPlaceCandidates [0] true [some 12, some 4] = [0] ∧
    inPlaceCandidates [0] true [some 6, some 6] = [1] ∧
    inPlaceCandidates [0] false [some 4, some 12] = [0] ∧
    inPlaceCandidates [] true [some 4, some 12] = [] := by decide

/-! ## Executor level (src/graph.rs) -/

/-- **E1.** Operands of an operator that is *not* flagged commutative are never re-ordered: the
in-place candidates are among the operator's own `in_place_inputs`. -/
theorem c13_noncommutative_never_swapped (ips : List Nat) (lens : List (Option Nat)) :
    ∀ i ∈ inPlaceCandidates ips false lens, i ∈ ips := by
  intro i hi
  unfold inPlaceCandidates at hi
  split at hi
  · cases hi
  · simp only [Bool.false_eq_true, if_false] at hi
    exact (List.mem_filter.mp hi).1

theorem execChoice_mem {ips : List Nat} {comm : Bool} {lens : List (Option Nat)}
    {inTemp takeable : List Bool} {p : Nat} (h : execChoice ips comm lens inTemp takeable = some p) :
    p ∈ inPlaceCandidates ips comm
      ((List.zip lens inTemp).map (fun q => q.1.map (fun n => if q.2 then n else 0))) := by
  unfold execChoice at h
  simp only at h
  split at h
  · exact List.mem_of_head? h
  · cases h

/-- **E2.** Whatever the executor decides for a binary operator node — run in place on operand 0,
swap and run in place on operand 1 (only possible for operators flagged commutative), or run
normally — the node's result is the out-of-place result.  Hypotheses: the operator's in-place
input is operand 0 (true of every binary operator in src/ops), and *if* it is flagged
commutative its element function is commutative (T2c). -/
theorem c13_graph_exec_eq_run {α : Type} (f : α → α → α) (ips : List Nat) (comm : Bool)
    (hips : ∀ i ∈ ips, i = 0) (hcomm : comm = true → ∀ x y, f x y = f y x)
    (a b : Tens α) (ownA ownB shared : Bool) (ha : a.WF) (hb : b.WF) :
    graphExec f ips comm a b ownA ownB shared = binop f a b := by
  unfold graphExec
  split
  · exact c13_run_in_place_eq_run f a b ha hb
  · rename_i p hne hp
    have hmem := execChoice_mem hp
    have hc : comm = true := by
      cases comm with
      | true => rfl
      | false =>
        exfalso
        have := hips p (c13_noncommutative_never_swapped ips _ p hmem)
        exact hne this
    rw [c13_run_in_place_eq_run f b a hb ha, c13_binop_swap f b a]
    have : (fun y x => f x y) = f := by funext y x; exact hcomm hc x y
    rw [this]
  · rfl

/-- The literal `in_place_inputs` index set of an operator (generated from the source). -/
def inPlaceIdxOf (op : String) : List Nat :=
  ((RtenVerif.Generated.InPlaceOps.inPlaceIdx.find? (fun p => p.1 == op)).map (·.2)).getD []

/-- **E0 (machine-checked side condition of E2).** Every operator flagged commutative, and every
binary element-wise operator with an in-place path, declares exactly operand 0 as its in-place
input, or none at all (decided on the table extracted from src/ops by the translator). -/
theorem c13_binary_ops_in_place_operand_zero :
    ∀ op ∈ RtenVerif.Generated.InPlaceOps.commutativeOps ++ ["Sub", "Div", "Pow"],
      inPlaceIdxOf op = [0] ∨ inPlaceIdxOf op = [] := by decide

theorem mem_idx_zero {op : String} (h : inPlaceIdxOf op = [0] ∨ inPlaceIdxOf op = []) :
    ∀ i ∈ inPlaceIdxOf op, i = 0 := by
  intro i hi
  rcases h with h | h <;> rw [h] at hi
  · simpa using hi
  · cases hi

/-- Non-vacuity: the table has the entries (and E0 would fail for an operator like `Attention`). -/
example : inPlaceIdxOf "Add" = [0] ∧ inPlaceIdxOf "Sub" = [0] ∧ inPlaceIdxOf "And" = [] ∧
    inPlaceIdxOf "Attention" = [4, 5] := by decide

/-- **E2 for the operators of the source.** For every operator flagged commutative that has a value
model, with its in-place set as declared in the source, whatever the executor decides, the node's
result is the out-of-place result. -/
theorem c13_graph_exec_flagged_ops :
    ∀ op ∈ RtenVerif.Generated.InPlaceOps.commutativeOps, ∀ f, binFn op = some f →
      ∀ (a b : Tens Int) (ownA ownB shared : Bool), a.WF → b.WF →
        graphExec f (inPlaceIdxOf op) true a b ownA ownB shared = binop f a b := by
  intro op hop f hf a b ownA ownB shared ha hb
  exact c13_graph_exec_eq_run f _ true
    (mem_idx_zero (c13_binary_ops_in_place_operand_zero op (List.mem_append_left _ hop)))
    (fun _ => c13_flagged_commutative_ops_commute op hop f hf) a b ownA ownB shared ha hb

/-- The swap really happens (non-vacuity of the second branch): `Add`-like node, larger owned
second operand → in place on operand 1; a borrowed larger operand counts as length 0. -/
example : execChoice [0] true [some 2, some 6] [true, true] [true, true] = some 1 ∧
    execChoice [0] true [some 6, some 6] [true, false] [true, false] = some 0 ∧
    execChoice [0] true [some 6, some 6] [true, true] [false, false] = none ∧
    execChoice [0] false [some 2, some 6] [true, true] [true, true] = some 0 ∧
    graphExec (· + ·) [0] true (⟨[2], [1, 2]⟩ : Tens Nat) ⟨[3, 2], [10, 20, 30, 40, 50, 60]⟩ true true false
      = some ⟨[3, 2], [11, 22, 31, 42, 51, 62]⟩ := by decide

end RtenVerif.InPlace

/-! ## T3: in-place layout operators keep the row-major element sequence -/
namespace RtenVerif.Layout
open RtenVerif.Arr RtenVerif.Overlap RtenVerif.Layout.Seq

/-- **T3a.** `reshape_in` (Reshape / Flatten in place): for a contiguous owned tensor the layout
is swapped over the same buffer, otherwise the elements are first copied out in row-major order;
either way the result has the requested shape and the *same row-major element sequence*. -/
theorem c13_reshape_in_place_seq (t t' : TState) (shape : List Nat)
    (h : reshaped t shape = .ok t') :
    t'.arr.shape = shape ∧ t'.arr.data = t.arr.data := by
  unfold reshaped at h
  split at h
  · cases h
  · rename_i hn
    have hn' : numel shape = numel (sizes t.view.dims) := by
      simpa [numelD] using hn
    split at h
    · rename_i hc
      injection h with h; subst h
      refine ⟨by simp [TState.arr, denote_shape, sizes_contigDims], ?_⟩
      simp only [TState.arr, denote_data, rowMajor_contigDims, rowMajor_of_isContiguous _ hc, hn']
    · injection h with h; subst h
      refine ⟨by simp [TState.arr, denote_shape, sizes_contigDims], ?_⟩
      have hl : t.arr.data.length = numel shape := by rw [arr_wf, hn']; rfl
      simp only [TState.arr, denote_data, rowMajor_contigDims, Nat.zero_add]
      have := map_getD_range (denote t.view fun i => t.store.getD i 0).data
      rw [show (denote t.view fun i => t.store.getD i 0).data.length = numel shape from hl] at this
      simpa [denote_data] using this

/-- non-contiguous (transposed 2×3) owned input reshaped to `[6]`: elements come out in logical
row-major order. -/
example : (reshaped ⟨[0, 1, 2, 3, 4, 5], ⟨0, 6, [(2, 1), (3, 2)]⟩⟩ [6]).toOption.map (·.arr) =
    some ⟨[6], [0, 2, 4, 1, 3, 5]⟩ := by decide

/-- **T3b.** `insert_axis` (Unsqueeze in place) keeps the element sequence. -/
theorem c13_insert_axis_seq {α : Type} (v v' : View) (k : Nat) (s : Nat → α)
    (h : insertAxis v k = .ok v') : (denote v' s).data = (denote v s).data := by
  unfold insertAxis at h
  split at h
  · rename_i hk
    injection h with h; subst h
    simp only [denote_data]
    rw [rowMajor_insertIdx _ _ _ hk]
  · cases h

/-- **T3c.** `remove_axis` (Squeeze in place, one size-1 axis at a time) keeps the element sequence. -/
theorem c13_remove_axis_seq {α : Type} (v v' : View) (k : Nat) (s : Nat → α)
    (h : removeAxis v k = .ok v') : (denote v' s).data = (denote v s).data := by
  unfold removeAxis at h
  split at h
  · rename_i hk
    injection h with h; subst h
    simp only [denote_data]
    rw [rowMajor_eraseIdx _ _ hk.1 hk.2]
  · cases h

example : (insertAxis ⟨0, 6, [(3, 1), (2, 3)]⟩ 1).toOption.map (fun v => (denote v (fun i => i)).data) =
    some [0, 3, 1, 4, 2, 5] := by decide
example : (removeAxis ⟨0, 6, [(3, 1), (1, 7), (2, 3)]⟩ 1).toOption.map (fun v => (denote v (fun i => i)).data) =
    some [0, 3, 1, 4, 2, 5] := by decide

end RtenVerif.Layout
