import RtenVerif.Props.C35Bounded6Defs

/-! C35.S3 bounded scope, chunk `e`: smallest code in `1..1`, second smallest in `1..1`
(kernel evaluation; bounded statement). -/
namespace RtenVerif.Poly

theorem c35_chunk6_e : chunkOk 1 1 1 1 = true := by decide +kernel

end RtenVerif.Poly
