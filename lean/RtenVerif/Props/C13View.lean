/-
C13 T1 for view-based owned operands: `binary_op_in_place` on a non-contiguous (permuted /
strided / spare-capacity) owned tensor — fast path or general path — leaves in the owned
tensor's storage exactly the out-of-place result, as seen through the tensor's own layout.
Uses the C14 results `c14_fast_broadcast_sound` (cycles/repeats = reference broadcast) and
`rowMajor_broadcast` (broadcast strides read the reference broadcast).
-/
import RtenVerif.Props.C13
import RtenVerif.Props.C14
import RtenVerif.Model.InPlaceView
import RtenVerif.Lemmas.IterDistinct

namespace RtenVerif.Layout
open RtenVerif.Overlap RtenVerif.FastBroadcast RtenVerif.InPlace RtenVerif.Layout.Seq
open RtenVerif.Iter (rowMajor rowMajor_length)

theorem writeLoop_not_mem {α β : Type} (f : α → β → α) : ∀ (ws : List (Nat × β)) (s : Nat → α) (o : Nat),
    o ∉ ws.map (·.1) → writeLoop f ws s o = s o
  | [], _, _, _ => rfl
  | (o', y) :: rest, s, o, h => by
    simp only [List.map_cons, List.mem_cons, not_or] at h
    rw [writeLoop, writeLoop_not_mem f rest _ o h.2]
    simp [h.1]

/-- Reading back the written slots: with pairwise distinct offsets every slot holds
`f (old value) y`, computed from the *original* content of that slot. -/
theorem writeLoop_read {α β : Type} (f : α → β → α) : ∀ (os : List Nat) (ys : List β) (s : Nat → α),
    os.Nodup → os.length = ys.length →
    os.map (writeLoop f (List.zip os ys) s) = List.zipWith f (os.map s) ys
  | [], [], _, _, _ => rfl
  | [], _ :: _, _, _, h => by cases h
  | _ :: _, [], _, _, h => by cases h
  | o :: os, y :: ys, s, hnd, hlen => by
    have hno : o ∉ os := (List.nodup_cons.mp hnd).1
    have hnd' : os.Nodup := (List.nodup_cons.mp hnd).2
    have hlen' : os.length = ys.length := by simpa using hlen
    simp only [List.zip_cons_cons, writeLoop, List.map_cons, List.zipWith_cons_cons]
    have hfst : (List.zip os ys).map (·.1) = os := List.map_fst_zip (by omega)
    congr 1
    · rw [writeLoop_not_mem f _ _ o (by rw [hfst]; exact hno)]; simp
    · rw [writeLoop_read f os ys _ hnd' hlen']
      congr 1
      apply List.map_congr_left
      intro i hi
      have : i ≠ o := fun e => hno (e ▸ hi)
      simp [this]

/-- **C13 T1 (views).** Let the owned operand be any view of its storage whose offsets are pairwise
distinct (true of every owned tensor: `from_data_with_strides` refuses overlap; C08), and let
`can_run_binary_op_in_place` hold.  After `binary_op_in_place` — `apply_fast` on the two slices
or the strided element-by-element path — the owned tensor, read through its own (unchanged)
layout, holds `f` applied to its old elements and the reference broadcast of `b`'s logical
elements: the out-of-place result. -/
theorem c13_view_in_place_eq_run {α β : Type} (f : α → β → α) (a : View) (sa : Nat → α)
    (b : View) (sb : Nat → β)
    (hcan : canRunInPlace (sizes a.dims) (sizes b.dims) = true)
    (hnd : ((rowMajor a.dims).map (a.base + ·)).Nodup) :
    some (tensOf a (binaryOpInPlaceView f a sa b sb)) = binop f (tensOf a sa) (tensOf b sb) := by
  obtain ⟨hle, hc⟩ := compat_of_canBroadcastTo (sizes b.dims) (sizes a.dims) hcan
  have hshape := broadcastShapes_of_canRunInPlace _ _ hcan
  have hB : (bcastTo (tensOf b sb).data (sizes b.dims) (sizes a.dims)).length =
      (rowMajor a.dims).length := by
    rw [bcastTo, length_bcast _ _ hc, map_snd_pairsTo _ _ hle, rowMajor_length, total_eq_numel]
    · rfl
    · rw [map_fst_pairsTo _ _ hle, numel_padFrom]
      exact Nat.le_of_eq (tensOf_data_length b sb).symm
  -- whichever path: the written values are the reference broadcast of b, at a's offsets
  have key : tensOf a (binaryOpInPlaceView f a sa b sb) =
      ⟨sizes a.dims, List.zipWith f (tensOf a sa).data
        (bcastTo (tensOf b sb).data (sizes b.dims) (sizes a.dims))⟩ := by
    have hread : ∀ (ys : List β), ys = bcastTo (tensOf b sb).data (sizes b.dims) (sizes a.dims) →
        (rowMajor a.dims).map (fun o => writeLoop f
          (List.zip ((rowMajor a.dims).map (a.base + ·)) ys) sa (a.base + o)) =
        List.zipWith f (tensOf a sa).data ys := by
      intro ys hys
      have := writeLoop_read f ((rowMajor a.dims).map (a.base + ·)) ys sa hnd
        (by rw [List.length_map, hys, hB])
      rw [List.map_map, List.map_map] at this
      exact this
    have hgen : tensOf a (writeLoop f (List.zip ((rowMajor a.dims).map (a.base + ·))
        (bcastViewElems b (sizes a.dims) sb)) sa) =
        ⟨sizes a.dims, List.zipWith f (tensOf a sa).data
          (bcastTo (tensOf b sb).data (sizes b.dims) (sizes a.dims))⟩ := by
      have hg := bcastViewElems_eq b (sizes a.dims) sb hle hc
      have := hread _ hg
      unfold tensOf
      congr 1
      exact this.trans (congrArg (List.zipWith f (tensOf a sa).data) hg)
    cases hvd : viewData b sb with
    | none => simp only [binaryOpInPlaceView, hvd]; exact hgen
    | some bd =>
      cases hfb : fastBroadcast (sizes b.dims) (sizes a.dims) with
      | panic => simp only [binaryOpInPlaceView, hvd, hfb]; exact hgen
      | none => simp only [binaryOpInPlaceView, hvd, hfb]; exact hgen
      | some c r =>
        by_cases hca : isContiguous a.dims = true
        · simp only [binaryOpInPlaceView, hvd, hfb, hca, if_true]
          have hrm := rowMajor_of_isContiguous _ hca
          have hcr : cycleRepeat c r bd = bcastTo (tensOf b sb).data (sizes b.dims) (sizes a.dims) := by
            rw [viewData_eq b sb bd hvd]
            exact (c14_fast_broadcast_sound _ _ c r _ hfb hle (tensOf_data_length b sb)).symm
          have := hread (cycleRepeat c r bd) hcr
          unfold tensOf
          congr 1
          rw [← hrm]
          exact this.trans (congrArg (List.zipWith f (tensOf a sa).data) hcr)
        · simp only [binaryOpInPlaceView, hvd, hfb, hca]; exact hgen
  rw [key]
  unfold binop
  have hsa : (tensOf a sa).shape = sizes a.dims := rfl
  have hsb : (tensOf b sb).shape = sizes b.dims := rfl
  rw [hsa, hsb, hshape, Option.map_some, bcastTo_self (tensOf a sa).data (sizes a.dims) (tensOf_data_length a sa)]

/-- **C13 T1 (views), with the owned-tensor invariant instead of the raw hypothesis.** Owned tensors
are built through `from_data_with_strides` / `from_shape_and_strides(DisallowOverlap)`, i.e. their
layout passes `may_have_internal_overlap = false`; by C08 (`c08_no_overlap_injective`, via C07's
`rowMajor_nodup`) their offsets are pairwise distinct, which is the `hnd` hypothesis above. -/
theorem c13_view_in_place_eq_run_no_overlap {α β : Type} (f : α → β → α) (a : View) (sa : Nat → α)
    (b : View) (sb : Nat → β)
    (hcan : canRunInPlace (sizes a.dims) (sizes b.dims) = true)
    (hno : mayOverlap a.dims = false) :
    some (tensOf a (binaryOpInPlaceView f a sa b sb)) = binop f (tensOf a sa) (tensOf b sb) := by
  apply c13_view_in_place_eq_run f a sa b sb hcan
  have h := RtenVerif.Iter.rowMajor_nodup a.dims hno
  unfold List.Nodup at h ⊢
  rw [List.pairwise_map]
  exact h.imp (fun hne heq => hne (Nat.add_left_cancel heq))

/-- A transposed 2×3 owned operand (offsets 0,2,4,1,3,5: distinct) plus a row vector; general
path; the storage is updated in place and reads back as the out-of-place result. -/
example :
    let a : View := ⟨0, 6, [(2, 1), (3, 2)]⟩
    let b : View := ⟨0, 3, [(3, 1)]⟩
    canRunInPlace (sizes a.dims) (sizes b.dims) = true ∧
    ((rowMajor a.dims).map (a.base + ·)).Nodup ∧
    (tensOf a (binaryOpInPlaceView (· + ·) a (fun i => i) b (fun i => 10 * (i + 1)))).data =
      [10, 22, 34, 11, 23, 35] := by decide

end RtenVerif.Layout
