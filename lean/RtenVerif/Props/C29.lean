import RtenVerif.Lemmas.Chunks

/-!
# C29 — Chunked encoding respects limits and partitions the token stream

Property text: *for any input (single text or pair) and any chunk limit and overlap, every chunk
has at most the requested number of tokens including special tokens, each chunk's content tokens
are a contiguous window of the full encoding, consecutive windows overlap by exactly the requested
amount, and together the windows cover every content token in order.*

Model: `RtenVerif.Model.Chunks` (`chunks_with_overlap` of `rten-text/src/split.rs`,
`Tokenizer::encode_chunks` of `rten-text/src/tokenizer.rs`). A window is `(start, length)`;
`chunkRanges n size overlap = none` models the `assert!(overlap < chunk_size)` panic.

What is proved: T1 (limit) and T2 (contiguous in-bounds windows, in order, covering everything) in
full, for every input on which the code returns chunks. T3 (exact overlap) is decided completely:
`c29_T3_exact_iff` — it holds iff there is no remainder window, or no overlap was requested, or
there is a single window; otherwise it is **false** exactly at the final remainder window
(`c29_T3_false`, `c29_T3_consecutive_partial`), which overlaps its predecessor by 0 tokens. Where the window is not larger than the overlap the code panics
(`c29_overlap_ge_window_panics`), where the limit leaves no room it returns no chunk
(`c29_no_room_unsatisfiable` shows nothing else could respect the limit).
-/
namespace RtenVerif.Chunks

theorem chunkRanges_some_lt {n size overlap : Nat} {rs : List (Nat × Nat)}
    (h : chunkRanges n size overlap = some rs) : overlap < size := by
  by_cases hlt : overlap < size
  · exact hlt
  · rw [chunkRanges_none (Nat.le_of_not_lt hlt)] at h; cases h

/-! ## T2 — windows are contiguous slices, in order, and cover everything -/

/-- **C29.T2a** Every window is a non-empty contiguous slice `start .. start+len` of the token
list with at most `size` tokens. -/
theorem c29_T2_windows_in_bounds (n size overlap : Nat) (rs : List (Nat × Nat))
    (h : chunkRanges n size overlap = some rs) :
    ∀ r ∈ rs, 0 < r.2 ∧ r.2 ≤ size ∧ r.1 + r.2 ≤ n :=
  fun _ hr => ranges_bounds (chunkRanges_some_lt h) h hr

/-- **C29.T2b** Together the windows cover every token position. -/
theorem c29_T2_cover (n size overlap : Nat) (rs : List (Nat × Nat))
    (h : chunkRanges n size overlap = some rs) :
    ∀ p, p < n → ∃ r ∈ rs, r.1 ≤ p ∧ p < r.1 + r.2 :=
  fun _ hp => ranges_cover (chunkRanges_some_lt h) h hp

/-- **C29.T2c / T3 (partial)** Consecutive windows `i`, `i+1`: if both are full windows the next one
starts exactly `overlap` tokens before the end of the previous one; otherwise the next one is the
final remainder and starts exactly at the end of the previous one (overlap 0). In both cases the
windows come in order and leave no gap. -/
theorem c29_T3_consecutive_partial (n size overlap : Nat) (rs : List (Nat × Nat))
    (h : chunkRanges n size overlap = some rs) (i : Nat) (r r' : Nat × Nat)
    (hr : rs[i]? = some r) (hr' : rs[i + 1]? = some r') :
    (i + 1 < fullCount n size (size - overlap) ∧ r'.1 + overlap = r.1 + r.2 ∧ r'.2 = size) ∨
    (i + 1 = fullCount n size (size - overlap) ∧ r'.1 = r.1 + r.2 ∧ r'.1 + r'.2 = n) := by
  have hlt := chunkRanges_some_lt h
  have hs : 0 < size - overlap := by omega
  have hlen := ranges_length hlt h
  have hi1 : i + 1 < rs.length := by
    rcases Nat.lt_or_ge (i + 1) rs.length with h1 | h1
    · exact h1
    · rw [List.getElem?_eq_none h1] at hr'; cases hr'
  generalize hfc : fullCount n size (size - overlap) = fc at *
  by_cases hfull : i + 1 < fc
  · left
    have e1 := ranges_full_get hlt h (i := i) (by omega)
    have e2 := ranges_full_get hlt h (i := i + 1) (by omega)
    rw [hr] at e1; rw [hr'] at e2
    cases e1; cases e2
    have : (i + 1) * (size - overlap) = i * (size - overlap) + (size - overlap) := Nat.succ_mul _ _
    refine ⟨hfull, ?_, rfl⟩
    simp only; omega
  · right
    by_cases hp : 0 < remSize n size (size - overlap)
    · simp only [hp, if_true] at hlen
      have hie : i + 1 = fc := by omega
      have e1 := ranges_full_get hlt h (i := i) (by omega)
      have e2 := ranges_rem_get hlt h hp
      rw [hfc, ← hie, hr'] at e2
      rw [hr] at e1
      cases e1; cases e2
      have hi : i < fullCount n size (size - overlap) := by omega
      have hb := full_mem_bound hs hi
      have hst := rem_start (n := n) (size := size) hs hb.1
      have hrl := remSize_le (n := n) (size := size) hs (Nat.sub_le _ _)
      have hfc' : fullCount n size (size - overlap) = (n - size) / (size - overlap) + 1 := by
        simp [fullCount, Nat.not_lt.mpr hb.1]
      have hik : i = (n - size) / (size - overlap) := by omega
      refine ⟨hie, ?_, ?_⟩
      · simp only; rw [hst, ← hik]
      · simp only; omega
    · simp only [hp, if_false] at hlen; omega

/-- In particular the windows are in order without gaps: the next window starts after the
previous start and not after the previous end, and ends later. -/
theorem c29_T2_in_order (n size overlap : Nat) (rs : List (Nat × Nat))
    (h : chunkRanges n size overlap = some rs) (i : Nat) (r r' : Nat × Nat)
    (hr : rs[i]? = some r) (hr' : rs[i + 1]? = some r') :
    r.1 < r'.1 ∧ r'.1 ≤ r.1 + r.2 ∧ r.1 + r.2 < r'.1 + r'.2 := by
  have hlt := chunkRanges_some_lt h
  have hb := c29_T2_windows_in_bounds n size overlap rs h
  have hm : r ∈ rs := List.mem_of_getElem? hr
  have hm' : r' ∈ rs := List.mem_of_getElem? hr'
  have b := hb r hm
  have b' := hb r' hm'
  rcases c29_T3_consecutive_partial n size overlap rs h i r r' hr hr' with ⟨hi, h1, h2⟩ | ⟨_, h1, _⟩
  · have e1 := ranges_full_get hlt h (i := i) (by omega)
    rw [hr] at e1; cases e1
    simp only at h1 b b' ⊢; omega
  · omega

/-- **C29.T2d** The `i`-th window starts at `i · (size − overlap)` — for the full windows. -/
theorem c29_T2_start_partial (n size overlap : Nat) (rs : List (Nat × Nat))
    (h : chunkRanges n size overlap = some rs) (i : Nat)
    (hi : i < fullCount n size (size - overlap)) :
    rs[i]? = some (i * (size - overlap), size) :=
  ranges_full_get (chunkRanges_some_lt h) h hi

/-- Non-vacuity: 10 tokens, windows of 4, overlap 1: three full windows and no remainder. -/
example : chunkRanges 10 4 1 = some [(0, 4), (3, 4), (6, 4)] := by decide

/-! ## T3 — exact overlap: false for the final remainder -/

/-- The full statement of T3 (and of "window `i` starts at `i·(size−overlap)`"): every pair of
consecutive windows overlaps by exactly `overlap`. -/
def ExactOverlap (n size overlap : Nat) : Prop :=
  ∀ rs, chunkRanges n size overlap = some rs →
    ∀ i r r', rs[i]? = some r → rs[i + 1]? = some r' → r'.1 + overlap = r.1 + r.2

/-- **C29.T3 is false of the model (and of the code):** 6 tokens, windows of 3, overlap 1 gives
`[0,3) [2,5) [5,6)` — the final remainder window overlaps its predecessor by 0, not 1 (it also does
not start at `2·(3−1) = 4`). Pinned by the unit test `test_chunks_overlap` ("Overlap, remainder"). -/
theorem c29_T3_false : ¬ ExactOverlap 6 3 1 := by
  intro h
  have := h [(0, 3), (2, 3), (5, 1)] (by decide) 1 (2, 3) (5, 1) (by decide) (by decide)
  simp at this

/-- T3 holds in full whenever there is no remainder window or no overlap is requested. -/
theorem c29_T3_exact_when_no_remainder (n size overlap : Nat)
    (hrem : remSize n size (size - overlap) = 0 ∨ overlap = 0) : ExactOverlap n size overlap := by
  intro rs h i r r' hr hr'
  have hlt := chunkRanges_some_lt h
  rcases c29_T3_consecutive_partial n size overlap rs h i r r' hr hr' with ⟨_, h1, _⟩ | ⟨hi, h1, _⟩
  · exact h1
  · rcases hrem with h0 | h0
    · have hlen := ranges_length hlt h
      simp only [h0, Nat.lt_irrefl, if_false] at hlen
      have : i + 1 < rs.length := by
        rcases Nat.lt_or_ge (i + 1) rs.length with h1 | h1
        · exact h1
        · rw [List.getElem?_eq_none h1] at hr'; cases hr'
      omega
    · omega

/-- **C29.T3 decided.** For a legal request (`overlap < size`) the exact-overlap clause holds
**iff** there is no remainder window, or no overlap was requested, or everything fits in a single
window. In all other cases it fails, and it fails only at the final remainder window
(`c29_T3_consecutive_partial`). -/
theorem c29_T3_exact_iff (n size overlap : Nat) (hlt : overlap < size) :
    ExactOverlap n size overlap ↔
      (remSize n size (size - overlap) = 0 ∨ overlap = 0 ∨ n < size) := by
  constructor
  · intro hex
    by_cases h0 : remSize n size (size - overlap) = 0
    · exact Or.inl h0
    · by_cases ho : overlap = 0
      · exact Or.inr (Or.inl ho)
      · by_cases hn : n < size
        · exact Or.inr (Or.inr hn)
        · exfalso
          have hp : 0 < remSize n size (size - overlap) := Nat.pos_of_ne_zero h0
          obtain ⟨rs, hrs⟩ : ∃ rs, chunkRanges n size overlap = some rs := ⟨_, chunkRanges_eq hlt⟩
          have hfc : fullCount n size (size - overlap) = (n - size) / (size - overlap) + 1 := by
            simp [fullCount, hn]
          have e1 := ranges_full_get hlt hrs (i := (n - size) / (size - overlap)) (by omega)
          have e2 := ranges_rem_get hlt hrs hp
          rw [hfc] at e2
          have hx := hex rs hrs _ _ _ e1 e2
          rcases c29_T3_consecutive_partial n size overlap rs hrs _ _ _ e1 e2 with ⟨hc, _, _⟩ | ⟨_, hc, _⟩
          · omega
          · omega
  · rintro (h | h | h)
    · exact c29_T3_exact_when_no_remainder n size overlap (Or.inl h)
    · exact c29_T3_exact_when_no_remainder n size overlap (Or.inr h)
    · intro rs hrs i r r' _ hr'
      have hlen := ranges_length hlt hrs
      have hfc : fullCount n size (size - overlap) = 0 := by simp [fullCount, h]
      have : i + 1 < rs.length := by
        rcases Nat.lt_or_ge (i + 1) rs.length with h1 | h1
        · exact h1
        · rw [List.getElem?_eq_none h1] at hr'; cases hr'
      rw [hfc] at hlen
      split at hlen <;> omega

/-- Non-vacuity of the three escape cases and of the failing case. -/
example : ExactOverlap 7 3 1 ∧ ExactOverlap 7 3 0 ∧ ExactOverlap 2 3 1 ∧ ¬ ExactOverlap 8 3 1 := by
  refine ⟨(c29_T3_exact_iff 7 3 1 (by omega)).mpr (Or.inl (by decide)),
    (c29_T3_exact_iff 7 3 0 (by omega)).mpr (Or.inr (Or.inl rfl)),
    (c29_T3_exact_iff 2 3 1 (by omega)).mpr (Or.inr (Or.inr (by omega))), ?_⟩
  intro h
  have := (c29_T3_exact_iff 8 3 1 (by omega)).mp h
  revert this; decide

/-- **Precondition.** `overlap ≥ window` is an `assert!` in `chunks_with_overlap`: a panic, for
every length (pinned by `test_chunks_overlap_panic`). -/
theorem c29_overlap_ge_window_panics (n size overlap : Nat) (h : size ≤ overlap) :
    chunkRanges n size overlap = none :=
  chunkRanges_none h

/-! ## `encode_chunks` -/

theorem slice_length_le {α : Type} (xs : List α) (r : Nat × Nat) : (slice xs r).length ≤ r.2 := by
  simp only [slice, List.length_take]; omega

theorem optLen_toList (o : Option Nat) : o.toList.length = optLen o := by
  cases o <;> rfl

/-- **C29.T1 (single text)** Every chunk has at most `limit` tokens, special tokens included —
for every text, limit, overlap and CLS/SEP configuration for which chunks are returned. -/
theorem c29_T1_limit_single (cls sep : Option Nat) (L overlap : Nat) (toks offs : List Nat)
    (textLen : Nat) (cs : List Chunk)
    (h : encodeSingle cls sep (some L) overlap toks offs textLen = some cs) :
    ∀ c ∈ cs, c.ids.length ≤ L := by
  intro c hc
  unfold encodeSingle at h
  simp only at h
  generalize hm : maxTokens (some L) toks.length (optLen cls + optLen sep) = maxTok at h
  by_cases h0 : maxTok = 0
  · simp only [h0, if_true, Option.some.injEq] at h; subst h; simp at hc
  · simp only [h0, if_false, Option.map_eq_some_iff] at h
    obtain ⟨rs, hrs, rfl⟩ := h
    obtain ⟨r, hr, rfl⟩ := List.mem_map.mp hc
    have hb := c29_T2_windows_in_bounds _ _ _ rs hrs r hr
    have hsl := slice_length_le toks r
    simp only [maxTokens, Option.getD_some] at hm
    simp only [mkSingle, List.length_append, optLen_toList]
    omega

/-- **C29.T1 (pair)** -/
theorem c29_T1_limit_pair (cls sep : Option Nat) (L overlap : Nat)
    (toks1 offs1 toks2 offs2 : List Nat) (len1 len2 : Nat) (cs : List Chunk)
    (h : encodePair cls sep (some L) overlap toks1 offs1 toks2 offs2 len1 len2 = some cs) :
    ∀ c ∈ cs, c.ids.length ≤ L := by
  intro c hc
  unfold encodePair at h
  simp only at h
  generalize hm : maxTokens (some L) (toks1.length + toks2.length) (optLen cls + 2 * optLen sep)
    = maxTok at h
  by_cases h0 : maxTok = 0
  · simp only [h0, if_true, Option.some.injEq] at h; subst h; simp at hc
  · simp only [h0, if_false] at h
    by_cases h1 : min toks2.length (maxTok - min toks1.length maxTok) = 0
    · simp only [h1, if_true, Option.some.injEq] at h; subst h; simp at hc
    · simp only [h1, if_false, Option.map_eq_some_iff] at h
      obtain ⟨rs, hrs, rfl⟩ := h
      obtain ⟨r, hr, rfl⟩ := List.mem_map.mp hc
      have hb := c29_T2_windows_in_bounds _ _ _ rs hrs r hr
      have hsl := slice_length_le toks2 r
      simp only [maxTokens, Option.getD_some] at hm
      simp only [mkPair, List.length_append, optLen_toList, List.length_take]
      omega

/-- **C29.T2 (single text)** When chunks are returned and there is room for content, the chunks
are exactly `[CLS]? ++ window ++ [SEP]?` for the windows of `chunkRanges` over the full encoding,
in order — so T2a–T2d and T3-partial above apply to them with `size = limit − overhead`. -/
theorem c29_T2_content_single (cls sep : Option Nat) (limit : Option Nat) (overlap : Nat)
    (toks offs : List Nat) (textLen : Nat) (cs : List Chunk)
    (h : encodeSingle cls sep limit overlap toks offs textLen = some cs)
    (hroom : maxTokens limit toks.length (optLen cls + optLen sep) ≠ 0) :
    ∃ rs, chunkRanges toks.length (maxTokens limit toks.length (optLen cls + optLen sep))
        (effOverlap toks.length (maxTokens limit toks.length (optLen cls + optLen sep)) overlap)
        = some rs ∧
      cs.map (·.ids) = rs.map (fun r => cls.toList ++ slice toks r ++ sep.toList) := by
  unfold encodeSingle at h
  simp only [hroom, if_false, Option.map_eq_some_iff] at h
  obtain ⟨rs, hrs, rfl⟩ := h
  refine ⟨rs, hrs, ?_⟩
  rw [List.map_map]
  rfl

/-- **C29.T2 (pair)** Every chunk is `[CLS]? ++ prefix of the first sequence ++ [SEP]? ++ window of
the second sequence ++ [SEP]?`, the windows being those of `chunkRanges` over the second
encoding. -/
theorem c29_T2_content_pair (cls sep : Option Nat) (limit : Option Nat) (overlap : Nat)
    (toks1 offs1 toks2 offs2 : List Nat) (len1 len2 : Nat) (cs : List Chunk)
    (h : encodePair cls sep limit overlap toks1 offs1 toks2 offs2 len1 len2 = some cs)
    (hne : cs ≠ []) :
    ∃ maxTok firstLen secondLen rs,
      maxTok = maxTokens limit (toks1.length + toks2.length) (optLen cls + 2 * optLen sep) ∧
      firstLen = min toks1.length maxTok ∧ secondLen = min toks2.length (maxTok - firstLen) ∧
      chunkRanges toks2.length secondLen (effOverlap toks2.length secondLen overlap) = some rs ∧
      cs.map (·.ids) = rs.map (fun r =>
        cls.toList ++ toks1.take firstLen ++ sep.toList ++ slice toks2 r ++ sep.toList) := by
  unfold encodePair at h
  simp only at h
  generalize hm : maxTokens limit (toks1.length + toks2.length) (optLen cls + 2 * optLen sep)
    = maxTok at h
  by_cases h0 : maxTok = 0
  · simp only [h0, if_true, Option.some.injEq] at h; exact absurd h.symm hne
  · simp only [h0, if_false] at h
    by_cases h1 : min toks2.length (maxTok - min toks1.length maxTok) = 0
    · simp only [h1, if_true, Option.some.injEq] at h; exact absurd h.symm hne
    · simp only [h1, if_false, Option.map_eq_some_iff] at h
      obtain ⟨rs, hrs, rfl⟩ := h
      refine ⟨maxTok, _, _, rs, rfl, rfl, rfl, hrs, ?_⟩
      rw [List.map_map]
      rfl

/-- After the `fix:` commit a single text that fits into one chunk never panics, whatever the
overlap (before it, `overlap ≥ len` hit the assert, e.g. one token with `overlap = 1`). -/
theorem c29_fits_no_panic_single (cls sep : Option Nat) (limit : Option Nat) (overlap : Nat)
    (toks offs : List Nat) (textLen : Nat)
    (hfit : toks.length ≤ maxTokens limit toks.length (optLen cls + optLen sep)) :
    (encodeSingle cls sep limit overlap toks offs textLen).isSome = true := by
  unfold encodeSingle
  simp only
  by_cases h0 : maxTokens limit toks.length (optLen cls + optLen sep) = 0
  · simp [h0]
  · simp only [h0, if_false, effOverlap, hfit, if_true, Option.isSome_map]
    rw [chunkRanges_eq (by omega)]; rfl

/-- Non-vacuity / witness of the fixed defect: one token, no limit, `overlap = 1`. -/
example : encodeSingle (some 0) (some 1) none 1 [3] [0] 2 =
    some [{ ids := [0, 3, 1], offsets := [0, 0, 2], firstSeq := 3 }] := by decide

/-- The remaining panic: the text does not fit and the requested overlap is not smaller than the
window (`limit − overhead`). 5 tokens, limit 4 with CLS+SEP (window 2), overlap 2. -/
theorem c29_encode_overlap_ge_window_panics :
    encodeSingle (some 0) (some 1) (some 4) 2 [3, 4, 5, 6, 7] [0, 3, 6, 9, 12] 14 = none := by
  decide

/-- In a pair the window is what the first sequence leaves: limit 8, CLS+SEP+SEP, a 3-token query
leaves a window of 2 for a 5-token context, so `overlap = 2` panics although `2 < 8`. -/
theorem c29_encode_pair_small_room_panics :
    encodePair (some 0) (some 1) (some 8) 2 [3, 4, 5] [0, 3, 6] [103, 104, 105, 106, 107]
      [8, 11, 14, 17, 20] 8 14 = none := by
  decide

/-- **No room.** If the limit does not exceed the special-token overhead, *no* chunk with at least
one content token can respect the limit — so "≤ limit" and "cover every content token" cannot
both hold for a non-empty text; the code returns no chunk (`Ok(vec![])`, pinned by the unit test
with `max_chunk_len: Some(0)`). -/
theorem c29_no_room_unsatisfiable (cls sep : Option Nat) (L : Nat) (content : List Nat)
    (hL : L ≤ optLen cls + optLen sep) (hc : content ≠ []) :
    ¬ ((cls.toList ++ content ++ sep.toList).length ≤ L) := by
  have : 0 < content.length := List.length_pos_iff.mpr hc
  simp only [List.length_append, optLen_toList]; omega

theorem c29_no_room_empty (cls sep : Option Nat) (L overlap : Nat) (toks offs : List Nat)
    (textLen : Nat) (hL : L ≤ optLen cls + optLen sep) :
    encodeSingle cls sep (some L) overlap toks offs textLen = some [] := by
  unfold encodeSingle
  have : maxTokens (some L) toks.length (optLen cls + optLen sep) = 0 := by
    simp only [maxTokens, Option.getD_some]; omega
  simp [this]

/-! ## S4 — token offsets of a chunk (secondary: not in the property text) -/

/-- **C29.S4** The last offset of a single-text chunk built from window `r` is the offset of the
first token after the window, or the text length for the last window — also with overlap
(before the `fix:` commit 7ff89d8 it was looked up at `chunk_idx * max_tokens + len`). -/
theorem c29_S4_final_offset_single (cls sep : Option Nat) (toks offs : List Nat) (textLen : Nat)
    (r : Nat × Nat) (hlen : offs.length = toks.length) (hb : r.1 + r.2 ≤ toks.length) :
    (mkSingle cls sep toks offs textLen r).offsets.getLast? = some (offs.getD (r.1 + r.2) textLen) := by
  have : (slice offs r).length = r.2 := by
    simp only [slice, List.length_take, List.length_drop]; omega
  simp [mkSingle, this]

/-- The content offsets of a chunk are the window's slice of the offsets. -/
theorem c29_S4_content_offsets_single (sep : Option Nat) (toks offs : List Nat) (textLen : Nat)
    (r : Nat × Nat) :
    (mkSingle none sep toks offs textLen r).offsets = slice offs r ++ [offs.getD (r.1 + (slice offs r).length) textLen] := by
  simp [mkSingle]

/-- Witness of the fixed offset defect: 5 tokens at offsets 0,3,6,9,12 (text length 14), limit 5
with CLS+SEP (window 3), overlap 2: the second chunk holds tokens 1..4 and its final offset is 12,
the offset of token 4 (the old `1*3 + 3 = 6 ≥ 5` lookup fell back to the text length 14). -/
example : (encodeSingle (some 0) (some 1) (some 5) 2 [3, 4, 5, 6, 7] [0, 3, 6, 9, 12] 14).map
    (fun cs => cs.map (·.offsets)) = some [[0, 0, 3, 6, 9], [3, 3, 6, 9, 12], [6, 6, 9, 12, 14]] := by
  decide

/-! ## The public entry points -/

/-- An unknown `[CLS]`/`[SEP]` string is an error of `encode_chunks` and `encode` (never a panic,
never silently dropped), whatever the input and options; `[CLS]` is reported first. -/
theorem c29_unknown_special_is_error (cls sep : Special) (limit : Option Nat) (overlap : Nat)
    (inp : Input) (h : cls = .unknown ∨ sep = .unknown) :
    encodeChunks cls sep limit overlap inp = .error .tokenIdNotFound ∧
    encode cls sep limit overlap inp = .error .tokenIdNotFound := by
  rcases h with rfl | rfl
  · exact ⟨rfl, rfl⟩
  · cases cls <;> exact ⟨rfl, rfl⟩

/-- With resolvable special tokens `encode_chunks` is `encode_single` / `encode_pair`. -/
theorem c29_encodeChunks_ok (cls sep : Special) (c s : Option Nat) (limit : Option Nat)
    (overlap : Nat) (inp : Input) (hc : cls.resolve = .ok c) (hs : sep.resolve = .ok s) :
    encodeChunks cls sep limit overlap inp = .ok (match inp with
      | .item toks offs len => encodeSingle c s limit overlap toks offs len
      | .pair t1 o1 t2 o2 l1 l2 => encodePair c s limit overlap t1 o1 t2 o2 l1 l2) := by
  unfold encodeChunks
  rw [hc, hs]
  cases inp <;> rfl

/-- **`Tokenizer::encode` truncates to the first chunk**: its result is the head of
`encode_chunks`, hence respects the limit whenever a chunk exists (single text shown). -/
theorem c29_encode_limit_single (cls sep : Special) (c s : Option Nat) (L overlap : Nat)
    (toks offs : List Nat) (len : Nat) (ch : Chunk) (rest : List Chunk)
    (hc : cls.resolve = .ok c) (hs : sep.resolve = .ok s)
    (h : encodeSingle c s (some L) overlap toks offs len = some (ch :: rest)) :
    encode cls sep (some L) overlap (.item toks offs len) = .ok (some ch) ∧ ch.ids.length ≤ L := by
  refine ⟨?_, c29_T1_limit_single c s L overlap toks offs len _ h ch (by simp)⟩
  unfold encode
  rw [c29_encodeChunks_ok cls sep c s _ _ _ hc hs, hc, hs]
  simp only [h]
  rfl

/-- The fabricated chunk of `encode` (no chunk from `encode_chunks`) consists of the special tokens
only; it is longer than a limit below the overhead (limit 1, CLS+SEP: 2 tokens) — `encode` always
returns one `Encoded`, so "≤ limit" is not obtainable there. -/
theorem c29_encode_fallback_exceeds_small_limit :
    encode (.tok 0) (.tok 1) (some 1) 0 (.item [3, 4] [0, 3] 5) =
      .ok (some { ids := [0, 1], offsets := [0, 0], firstSeq := 2 }) := by rfl

/-- Windows over a non-empty sequence are never an empty list. -/
theorem chunkRanges_ne_nil {n size overlap : Nat} {rs : List (Nat × Nat)}
    (h : chunkRanges n size overlap = some rs) (hn : 0 < n) : rs ≠ [] := by
  obtain ⟨r, hr, _⟩ := c29_T2_cover n size overlap rs h 0 hn
  intro he; rw [he] at hr; cases hr

/-- **C29 — when does a pair produce no chunk at all?** `encode_chunks` on a pair returns
`Ok(vec![])` **iff** the limit leaves no room for any content token, or the second sequence is
empty, or the first sequence alone fills the room (`max_tokens ≤ |first|`). In the last two cases
content tokens exist and there is room for some, yet nothing is covered (open findings
`C29-pair-empty-second`, `C29-pair-first-fills-room`). -/
theorem c29_pair_no_chunk_iff (cls sep : Option Nat) (limit : Option Nat) (overlap : Nat)
    (toks1 offs1 toks2 offs2 : List Nat) (len1 len2 : Nat) :
    encodePair cls sep limit overlap toks1 offs1 toks2 offs2 len1 len2 = some [] ↔
      (maxTokens limit (toks1.length + toks2.length) (optLen cls + 2 * optLen sep) = 0 ∨
       toks2 = [] ∨
       maxTokens limit (toks1.length + toks2.length) (optLen cls + 2 * optLen sep) ≤ toks1.length) := by
  unfold encodePair
  simp only
  generalize maxTokens limit (toks1.length + toks2.length) (optLen cls + 2 * optLen sep) = maxTok
  by_cases h0 : maxTok = 0
  · simp [h0]
  · simp only [h0, if_false, false_or]
    by_cases h1 : min toks2.length (maxTok - min toks1.length maxTok) = 0
    · simp only [h1, if_true, true_iff]
      rcases Nat.lt_or_ge toks1.length maxTok with hlt | hge
      · left
        have : min toks1.length maxTok = toks1.length := Nat.min_eq_left (Nat.le_of_lt hlt)
        rw [this] at h1
        have : toks2.length = 0 := by
          rcases Nat.le_total toks2.length (maxTok - toks1.length) with hle | hle
          · rw [Nat.min_eq_left hle] at h1; exact h1
          · rw [Nat.min_eq_right hle] at h1; omega
        exact List.length_eq_zero_iff.mp this
      · exact Or.inr hge
    · simp only [h1, if_false]
      constructor
      · intro h
        exfalso
        simp only [Option.map_eq_some_iff, List.map_eq_nil_iff] at h
        obtain ⟨rs, hrs, rfl⟩ := h
        have hpos : 0 < toks2.length := by
          rcases Nat.eq_zero_or_pos toks2.length with hz | hp
          · rw [hz] at h1; simp at h1
          · exact hp
        exact chunkRanges_ne_nil hrs hpos rfl
      · rintro (h | h)
        · subst h; simp at h1
        · exfalso
          have : min toks1.length maxTok = maxTok := Nat.min_eq_right h
          rw [this] at h1; simp at h1

/-- Witness (the reviewer's): limit 6 with CLS+SEP+SEP leaves room 3, the 3-token query takes it
all, the 2 context tokens appear in no chunk. Pinned by the unit test "Chunk size too small for
any tokens from the second sequence". -/
theorem c29_pair_first_fills_room :
    encodePair (some 0) (some 1) (some 6) 0 [3, 4, 5] [0, 3, 6] [103, 104] [8, 11] 8 5 = some [] := by
  decide

/-- **The first sequence of a pair is never truncated in an emitted chunk**: whenever at least one
chunk is returned, `first_len = |first|` (the `[..first_len]` slice is the whole first sequence) —
a longer first sequence leaves no room and falls under `c29_pair_no_chunk_iff`. -/
theorem c29_pair_first_whole (cls sep : Option Nat) (limit : Option Nat) (overlap : Nat)
    (toks1 offs1 toks2 offs2 : List Nat) (len1 len2 : Nat) (cs : List Chunk)
    (h : encodePair cls sep limit overlap toks1 offs1 toks2 offs2 len1 len2 = some cs)
    (hne : cs ≠ []) :
    toks1.take (min toks1.length
      (maxTokens limit (toks1.length + toks2.length) (optLen cls + 2 * optLen sep))) = toks1 := by
  have hno : ¬ (encodePair cls sep limit overlap toks1 offs1 toks2 offs2 len1 len2 = some []) := by
    rw [h]; intro he; exact hne (Option.some.inj he)
  rw [c29_pair_no_chunk_iff] at hno
  have : toks1.length < maxTokens limit (toks1.length + toks2.length) (optLen cls + 2 * optLen sep) := by
    omega
  rw [Nat.min_eq_left (Nat.le_of_lt this)]
  exact List.take_length

/-- A window of `chunkRanges` over `toks` selects a non-empty slice of an offsets list of the same
length, so `offsets_chunk.first().unwrap()` (the `[CLS]` offset, modelled with `headD`) never
fails. -/
theorem c29_cls_offset_defined (n size overlap : Nat) (rs : List (Nat × Nat))
    (h : chunkRanges n size overlap = some rs) (offs : List Nat) (hlen : offs.length = n)
    (r : Nat × Nat) (hr : r ∈ rs) : slice offs r ≠ [] := by
  have hb := c29_T2_windows_in_bounds n size overlap rs h r hr
  intro he
  have : (slice offs r).length = 0 := by rw [he]; rfl
  simp only [slice, List.length_take, List.length_drop] at this
  omega

/-- **Pair with an empty second text**: no chunk is produced although there is room — the
first sequence's tokens appear in no chunk (open finding `C29-pair-empty-second`). -/
theorem c29_pair_empty_second_drops_first :
    encodePair (some 0) (some 1) none 0 [3, 4] [0, 3] [] [] 5 0 = some [] := by decide

end RtenVerif.Chunks
