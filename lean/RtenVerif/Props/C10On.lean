import RtenVerif.Props.C10Eq

/-!
# C10 — `symbolic_binary_op` for element rules that are homomorphisms only on a subset of
expressions (audit H1)

`Equal`'s element rule is sound only for operands whose `range()` is sound.  `RangeSound σ e` is
false for some `e` under every `σ` (`rangeSound_not_universal`), so it cannot be a global
hypothesis; here it is carried as a predicate `S` on exactly the operand elements the rule
inspects.  `rangeSound_of_good` discharges it for every expression that stays inside `i32`.
-/
namespace RtenVerif.ShapeInfer

theorem OpHom.on {σ : Env} {op} {f} (h : OpHom σ op f) (S : Sym → Prop) : OpHomOn σ S op f :=
  fun x y r vx vy w _ _ => h x y r vx vy w

theorem mapO_leftOn (σ : Env) (S) (op) (f) (h : OpHomOn σ S op f) (x : Sym) (vx : Int) (hx : x.eval σ = some vx)
    (hSx : S x) : ∀ (rs : List Sym) (vrs : List Int) (out : List Sym) (w : List Int),
      (∀ y ∈ rs, S y) → evalList σ rs = some vrs → mapO (fun y => op x y) rs = some out →
      mapO (fun y => f vx y) vrs = some w → evalList σ out = some w := by
  intro rs
  induction rs with
  | nil =>
    intro vrs out w _ h1 h2 h3
    simp only [evalList, mapO] at h1 h2
    cases h1; cases h2
    simp only [mapO] at h3; cases h3
    rfl
  | cons r rs ih =>
    intro vrs out w hS h1 h2 h3
    obtain ⟨vr, vrs', hr, hrs, rfl⟩ := evalList_cons σ r rs vrs h1
    simp only [mapO] at h2 h3
    cases ho : op x r with
    | none => simp [ho] at h2
    | some o =>
      simp only [ho] at h2
      cases hos : mapO (fun y => op x y) rs with
      | none => simp [hos] at h2
      | some os =>
        simp only [hos] at h2; cases h2
        cases hf : f vx vr with
        | none => simp [hf] at h3
        | some fv =>
          simp only [hf] at h3
          cases hfs : mapO (fun y => f vx y) vrs' with
          | none => simp [hfs] at h3
          | some ws =>
            simp only [hfs] at h3; cases h3
            exact evalList_cons_intro σ o os fv ws (h x r o vx vr fv hSx (hS r (by simp)) ho hx hr hf)
              (ih vrs' os ws (fun y hy => hS y (by simp [hy])) hrs hos hfs)

theorem mapO_rightOn (σ : Env) (S) (op) (f) (h : OpHomOn σ S op f) (y : Sym) (vy : Int) (hy : y.eval σ = some vy)
    (hSy : S y) : ∀ (ls : List Sym) (vls : List Int) (out : List Sym) (w : List Int),
      (∀ x ∈ ls, S x) → evalList σ ls = some vls → mapO (fun x => op x y) ls = some out →
      mapO (fun x => f x vy) vls = some w → evalList σ out = some w := by
  intro ls
  induction ls with
  | nil =>
    intro vls out w _ h1 h2 h3
    simp only [evalList, mapO] at h1 h2
    cases h1; cases h2
    simp only [mapO] at h3; cases h3
    rfl
  | cons l ls ih =>
    intro vls out w hS h1 h2 h3
    obtain ⟨vl, vls', hl, hls, rfl⟩ := evalList_cons σ l ls vls h1
    simp only [mapO] at h2 h3
    cases ho : op l y with
    | none => simp [ho] at h2
    | some o =>
      simp only [ho] at h2
      cases hos : mapO (fun x => op x y) ls with
      | none => simp [hos] at h2
      | some os =>
        simp only [hos] at h2; cases h2
        cases hf : f vl vy with
        | none => simp [hf] at h3
        | some fv =>
          simp only [hf] at h3
          cases hfs : mapO (fun x => f x vy) vls' with
          | none => simp [hfs] at h3
          | some ws =>
            simp only [hfs] at h3; cases h3
            exact evalList_cons_intro σ o os fv ws (h l y o vl vy fv (hS l (by simp)) hSy ho hl hy hf)
              (ih vls' os ws (fun x hx => hS x (by simp [hx])) hls hos hfs)

theorem mapO_zipOn (σ : Env) (S) (op) (f) (h : OpHomOn σ S op f) :
    ∀ (ls rs : List Sym) (vls vrs : List Int) (out : List Sym) (w : List Int),
      (∀ x ∈ ls, S x) → (∀ y ∈ rs, S y) →
      evalList σ ls = some vls → evalList σ rs = some vrs →
      mapO (fun (p : Sym × Sym) => op p.1 p.2) (List.zip ls rs) = some out →
      mapO (fun (p : Int × Int) => f p.1 p.2) (List.zip vls vrs) = some w → evalList σ out = some w := by
  intro ls
  induction ls with
  | nil =>
    intro rs vls vrs out w _ _ h1 _ h3 h4
    simp only [evalList, mapO] at h1; cases h1
    simp only [List.zip_nil_left, mapO] at h3 h4
    cases h3; cases h4; rfl
  | cons l ls ih =>
    intro rs vls vrs out w hSl hSr h1 h2 h3 h4
    obtain ⟨vl, vls', hl, hls, rfl⟩ := evalList_cons σ l ls vls h1
    cases rs with
    | nil =>
      simp only [evalList, mapO] at h2; cases h2
      simp only [List.zip_nil_right, mapO] at h3 h4
      cases h3; cases h4; rfl
    | cons r rs =>
      obtain ⟨vr, vrs', hr, hrs, rfl⟩ := evalList_cons σ r rs vrs h2
      simp only [List.zip_cons_cons, mapO] at h3 h4
      cases ho : op l r with
      | none => simp [ho] at h3
      | some o =>
        simp only [ho] at h3
        cases hos : mapO (fun (p : Sym × Sym) => op p.1 p.2) (List.zip ls rs) with
        | none => simp [hos] at h3
        | some os =>
          simp only [hos] at h3; cases h3
          cases hf : f vl vr with
          | none => simp [hf] at h4
          | some fv =>
            simp only [hf] at h4
            cases hfs : mapO (fun (p : Int × Int) => f p.1 p.2) (List.zip vls' vrs') with
            | none => simp [hfs] at h4
            | some ws =>
              simp only [hfs] at h4; cases h4
              exact evalList_cons_intro σ o os fv ws
                (h l r o vl vr fv (hSl l (by simp)) (hSr r (by simp)) ho hl hr hf)
                (ih rs vls' vrs' os ws (fun x hx => hSl x (by simp [hx])) (fun y hy => hSr y (by simp [hy]))
                  hls hrs hos hfs)

theorem zipCycle_soundOn (σ : Env) (S) (op) (f) (h : OpHomOn σ S op f) (l r : List Sym) (vl vr : List Int)
    (out : List Sym) (w : List Int) (hSl : ∀ x ∈ l, S x) (hSr : ∀ y ∈ r, S y)
    (hl : evalList σ l = some vl) (hr : evalList σ r = some vr)
    (hi : zipCycle op l r = some out) (he : czip f vl vr = some w) : evalList σ out = some w := by
  have hll := evalList_length σ l vl hl
  have hrl := evalList_length σ r vr hr
  match l, vl, hl, hll, hSl with
  | [x], [vx], hl, _, hSl =>
    obtain ⟨v, vs', hx, _, hcons⟩ := evalList_cons σ x [] [vx] hl
    cases hcons
    simp only [zipCycle] at hi
    simp only [czip] at he
    exact mapO_leftOn σ S op f h x vx hx (hSl x (by simp)) r vr out w hSr hr hi he
  | [], [], _, _, _ =>
    match r, vr, hr, hrl with
    | [y], [vy], _, _ =>
      simp only [zipCycle, mapO] at hi; simp only [czip, mapO] at he
      cases hi; cases he; rfl
    | [], [], _, _ =>
      simp only [zipCycle, List.zip_nil_left, mapO] at hi; cases hi
      simp [czip, mapO] at he; cases he; rfl
    | _ :: _ :: _, _ :: _ :: _, _, _ =>
      simp only [zipCycle, List.zip_nil_left, mapO] at hi; cases hi
      simp [czip] at he
  | x1 :: x2 :: l', v1 :: v2 :: vl', hl, _, hSl =>
    match r, vr, hr, hrl, hSr with
    | [y], [vy], hr, _, hSr =>
      obtain ⟨v, vs', hy, _, hcons⟩ := evalList_cons σ y [] [vy] hr
      cases hcons
      simp only [zipCycle] at hi
      simp only [czip] at he
      exact mapO_rightOn σ S op f h y vy hy (hSr y (by simp)) _ _ out w hSl hl hi he
    | [], [], _, _, _ =>
      simp only [zipCycle, List.zip_nil_right, mapO] at hi; cases hi
      simp [czip] at he
    | y1 :: y2 :: r', w1 :: w2 :: vr', hr, _, hSr =>
      simp only [zipCycle] at hi
      simp only [czip] at he
      split at he
      · exact mapO_zipOn σ S op f h _ _ _ _ out w hSl hSr hl hr hi he
      · cases he

theorem agrees_valuesOn (σ : Env) (t : STn) (c : CT) (es : List Sym) (h : Agrees σ t c) (hv : t.values = some es) :
    ∃ vs, c.values = some vs ∧ evalList σ es = some vs := by
  cases t with
  | scalar e =>
    obtain ⟨v, rfl, hev⟩ := h
    simp only [STn.values] at hv; cases hv
    exact ⟨[v], rfl, by simp [evalList, mapO, hev]⟩
  | vector es' =>
    obtain ⟨vs, rfl, hev⟩ := h
    simp only [STn.values] at hv; cases hv
    exact ⟨vs, rfl, hev⟩
  | shape ds => simp [STn.values] at hv
  | unknown => simp [STn.values] at hv

/-- Every element of a value-carrying tensor satisfies `S`. -/
def ElemsOn (S : Sym → Prop) (t : STn) : Prop := ∀ es, t.values = some es → ∀ e ∈ es, S e

/-- **C10.T1-binary on a subset**: `c10_symBinary_sound` for element rules that are homomorphisms
only on operands satisfying `S`; `S` is required of exactly the elements of the two operands. -/
theorem c10_symBinary_soundOn (σ : Env) (S) (op) (f) (h : OpHomOn σ S op f) (a b r : STn) (ca cb cr : CT)
    (ha : Agrees σ a ca) (hb : Agrees σ b cb) (hSa : ElemsOn S a) (hSb : ElemsOn S b)
    (hi : symBinary op a b = some r) (he : execBinary f ca cb = some cr) : Agrees σ r cr := by
  cases hav : a.values with
  | none => cases a <;> cases b <;> simp_all [symBinary, STn.values]
  | some xs =>
    cases hbv : b.values with
    | none => cases a <;> cases b <;> simp_all [symBinary, STn.values]
    | some ys =>
      obtain ⟨vxs, hca, hxs⟩ := agrees_valuesOn σ a ca xs ha hav
      obtain ⟨vys, hcb, hys⟩ := agrees_valuesOn σ b cb ys hb hbv
      have hz := fun out w => zipCycle_soundOn σ S op f h xs ys vxs vys out w (hSa xs hav) (hSb ys hbv) hxs hys
      cases a with
      | scalar x =>
        cases b with
        | scalar y =>
          -- scalar ∘ scalar
          obtain ⟨vx, rfl, hx⟩ := ha
          obtain ⟨vy, rfl, hy⟩ := hb
          simp only [STn.values, Option.some.injEq] at hav hbv; subst hav; subst hbv
          simp only [symBinary] at hi
          simp only [execBinary] at he
          cases ho : op x y with
          | none => simp [ho] at hi
          | some o =>
            simp only [ho, Option.map_some] at hi; cases hi
            cases hf : f vx vy with
            | none => simp [hf] at he
            | some w =>
              simp only [hf, Option.map_some] at he; cases he
              exact ⟨w, rfl, h x y o vx vy w (hSa [x] rfl x (by simp)) (hSb [y] rfl y (by simp)) ho hx hy hf⟩
        | vector ys' =>
          obtain ⟨vx, rfl, _⟩ := ha
          obtain ⟨vys', rfl, _⟩ := hb
          simp only [CT.values, Option.some.injEq] at hca hcb; subst hca; subst hcb
          simp only [symBinary, hav, hbv] at hi
          simp only [execBinary, CT.values] at he
          cases hzc : zipCycle op xs ys with
          | none => simp [hzc] at hi
          | some out =>
            simp only [hzc, Option.map_some] at hi; cases hi
            cases hc : czip f [vx] vys' with
            | none => simp [hc] at he
            | some w =>
              simp only [hc, Option.map_some] at he; cases he
              exact ⟨w, rfl, hz out w hzc hc⟩
        | shape ds => simp [STn.values] at hbv
        | unknown => simp [STn.values] at hbv
      | vector xs' =>
        obtain ⟨vxs', rfl, _⟩ := ha
        simp only [CT.values, Option.some.injEq] at hca; subst hca
        have hi' : (zipCycle op xs ys).map STn.vector = some r := by
          cases b <;> simp_all [symBinary, STn.values]
        have he' : (czip f vxs' vys).map CT.vector = some cr := by
          cases cb <;> simp_all [execBinary, CT.values]
        cases hzc : zipCycle op xs ys with
        | none => simp [hzc] at hi'
        | some out =>
          simp only [hzc, Option.map_some] at hi'; cases hi'
          cases hc : czip f vxs' vys with
          | none => simp [hc] at he'
          | some w =>
            simp only [hc, Option.map_some] at he'; cases he'
            exact ⟨w, rfl, hz out w hzc hc⟩
      | shape ds => simp [STn.values] at hav
      | unknown => simp [STn.values] at hav

end RtenVerif.ShapeInfer
