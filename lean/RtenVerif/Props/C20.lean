import RtenVerif.Lemmas.RtenHeader
import RtenVerif.Lemmas.F16Exact
import RtenVerif.Generated.ConverterHeader
import RtenVerif.Lemmas.F64ToF32
import RtenVerif.Generated.ConverterConsts

/-!
# C20 — A model converted to .rten behaves like the ONNX original  (PARTIAL)

The end-to-end claim (convert with `rten-convert`, load both files, compare outputs) is exercised
by the harness, which runs the real converter (its two missing third-party dependencies replaced
by shims) on thousands of generated models.  What is *proved* here is the part of the claim that
is logic shared by the two paths:

* the `.rten` V2 container written by the converter's `write_header` is exactly what
  `Header::from_buf` reads (layout equality re-checked against the converter source on every
  run, plus the round-trip theorem);
* integer constants narrowed to i32 saturate identically in both paths;
* every f16 bit pattern is converted to an f32 of exactly the same value (hence "nearest f32");
* the f64 → f32 conversion model is round-to-nearest, ties-to-even, with the IEEE overflow rule
  (second part of this file, namespace `RtenVerif.ConstNarrow`);
* bool constants become 0/1 identically, and the dtype → rule tables of the two loaders
  (regenerated from converter.py and onnx_loader.rs on every run) agree.
-/
namespace RtenVerif.RtenHeader
open RtenVerif.Generated

/-- A header whose fields fit their machine types and satisfy the bounds `from_buf` checks,
for a file of `n` bytes. -/
structure Header.WellFormed (h : Header) (n : Nat) : Prop where
  version : h.version = 2
  off_lo : headerLen ≤ h.modelOffset
  off_hi : h.modelOffset ≤ n
  len_ok : h.modelOffset + h.modelLen ≤ n
  td_lo : headerLen ≤ h.tensorDataOffset
  td_hi : h.tensorDataOffset ≤ n
  n_u64 : n < 2 ^ 64

/-- **C20.T1a** `from_buf (to_buf h ++ rest) = Ok h` for every well-formed header and every
file body. -/
theorem c20_header_round_trip (h : Header) (rest : List Nat)
    (wf : h.WellFormed (headerLen + rest.length)) :
    fromBuf (toBuf h ++ rest) = .ok h := by
  obtain ⟨hv, h1, h2, h3, h4, h5, h6⟩ := wf
  have e4 : (256 : Nat) ^ 4 = 4294967296 := by decide
  have e8 : (256 : Nat) ^ 8 = 18446744073709551616 := by decide
  have e64 : (2 : Nat) ^ 64 = 18446744073709551616 := by decide
  have hlen : (toBuf h ++ rest).length = headerLen + rest.length := by
    simp [toBuf, magic, length_leBytes, headerLen]
    omega
  -- the five reads
  have r0 : readN (toBuf h ++ rest) 0 4 = some magic := by
    have := readN_mid [] magic (leBytes 4 h.version ++ leBytes 8 h.modelOffset ++
      leBytes 8 h.modelLen ++ leBytes 8 h.tensorDataOffset ++ rest)
    simpa [toBuf, magic, List.append_assoc] using this
  have r1 : readN (toBuf h ++ rest) 4 4 = some (leBytes 4 h.version) := by
    have := readN_mid magic (leBytes 4 h.version) (leBytes 8 h.modelOffset ++
      leBytes 8 h.modelLen ++ leBytes 8 h.tensorDataOffset ++ rest)
    simpa [toBuf, magic, List.append_assoc, length_leBytes] using this
  have r2 : readN (toBuf h ++ rest) 8 8 = some (leBytes 8 h.modelOffset) := by
    have := readN_mid (magic ++ leBytes 4 h.version) (leBytes 8 h.modelOffset)
      (leBytes 8 h.modelLen ++ leBytes 8 h.tensorDataOffset ++ rest)
    simpa [toBuf, magic, List.append_assoc, length_leBytes] using this
  have r3 : readN (toBuf h ++ rest) 16 8 = some (leBytes 8 h.modelLen) := by
    have := readN_mid (magic ++ leBytes 4 h.version ++ leBytes 8 h.modelOffset)
      (leBytes 8 h.modelLen) (leBytes 8 h.tensorDataOffset ++ rest)
    simpa [toBuf, magic, List.append_assoc, length_leBytes] using this
  have r4 : readN (toBuf h ++ rest) 24 8 = some (leBytes 8 h.tensorDataOffset) := by
    have := readN_mid (magic ++ leBytes 4 h.version ++ leBytes 8 h.modelOffset ++
      leBytes 8 h.modelLen) (leBytes 8 h.tensorDataOffset) rest
    simpa [toBuf, magic, List.append_assoc, length_leBytes] using this
  have v1 : leValue (leBytes 4 h.version) = h.version := leValue_leBytes 4 _ (by omega)
  have v2 : leValue (leBytes 8 h.modelOffset) = h.modelOffset := leValue_leBytes 8 _ (by omega)
  have v3 : leValue (leBytes 8 h.modelLen) = h.modelLen := leValue_leBytes 8 _ (by omega)
  have v4 : leValue (leBytes 8 h.tensorDataOffset) = h.tensorDataOffset :=
    leValue_leBytes 8 _ (by omega)
  have hsat : ¬ satAdd64 h.modelOffset h.modelLen > headerLen + rest.length := by
    unfold satAdd64 u64Max; split <;> omega
  unfold fromBuf
  simp only [r0, r1, r2, r3, r4, v1, v2, v3, v4, hlen, hv]
  simp only [ne_eq, not_true_eq_false, if_false]
  have c1 : ¬ (h.modelOffset < headerLen ∨ h.modelOffset > headerLen + rest.length) := by omega
  have c2 : ¬ (h.tensorDataOffset < headerLen ∨ h.tensorDataOffset > headerLen + rest.length) := by
    omega
  simp only [c1, c2, hsat, if_false]
  cases h; simp_all

/-- **C20.T1b** (also C05.T1) Everything `from_buf` accepts is in bounds over `Nat` — no
wrap-around: the model segment and the tensor-data offset lie inside the file. -/
theorem c20_header_accept_bounds (buf : List Nat) (h : Header) (hb : ∀ b ∈ buf, b < 256)
    (hsz : buf.length < 2 ^ 63)  -- a Rust slice never exceeds isize::MAX bytes
    (hok : fromBuf buf = .ok h) :
    h.version = 2 ∧ headerLen ≤ h.modelOffset ∧ h.modelOffset + h.modelLen ≤ buf.length ∧
    headerLen ≤ h.tensorDataOffset ∧ h.tensorDataOffset ≤ buf.length ∧
    buf.take headerLen = toBuf h := by
  unfold fromBuf at hok
  cases hm : readN buf 0 4 with
  | none => simp [hm] at hok
  | some m =>
  simp only [hm] at hok
  by_cases hmagic : m = magic
  case neg => simp [hmagic] at hok
  simp only [hmagic, ne_eq, not_true_eq_false, if_false] at hok
  cases hvb : readN buf 4 4 with
  | none => simp [hvb] at hok
  | some vb =>
  simp only [hvb] at hok
  by_cases hver : leValue vb = 2
  case neg => simp [hver] at hok
  simp only [hver, not_true_eq_false, if_false] at hok
  cases hob : readN buf 8 8 with
  | none => simp [hob] at hok
  | some ob =>
  simp only [hob] at hok
  by_cases hoff : leValue ob < headerLen ∨ leValue ob > buf.length
  case pos => simp [hoff] at hok
  simp only [hoff, if_false] at hok
  cases hlb : readN buf 16 8 with
  | none => simp [hlb] at hok
  | some lb =>
  simp only [hlb] at hok
  by_cases hlen : satAdd64 (leValue ob) (leValue lb) > buf.length
  case pos => simp [hlen] at hok
  simp only [hlen, if_false] at hok
  cases htb : readN buf 24 8 with
  | none => simp [htb] at hok
  | some tb =>
  simp only [htb] at hok
  by_cases htd : leValue tb < headerLen ∨ leValue tb > buf.length
  case pos => simp [htd] at hok
  simp only [htd, if_false] at hok
  injection hok with hok
  subst hok
  simp only
  obtain ⟨_, em, lm⟩ := readN_some hm
  obtain ⟨_, ev, lv⟩ := readN_some hvb
  obtain ⟨_, eo, lo⟩ := readN_some hob
  obtain ⟨_, el, ll⟩ := readN_some hlb
  obtain ⟨ht, et, lt⟩ := readN_some htb
  have mem_sub : ∀ {r : List Nat} {p n : Nat}, r = (buf.drop p).take n → ∀ b ∈ r, b < 256 := by
    intro r p n hr b hbr
    subst hr
    exact hb b (List.mem_of_mem_drop (List.mem_of_mem_take hbr))
  have bo := leValue_lt ob (mem_sub eo); rw [lo] at bo
  have bl := leValue_lt lb (mem_sub el); rw [ll] at bl
  have e8 : (256 : Nat) ^ 8 = 18446744073709551616 := by decide
  have e63 : (2 : Nat) ^ 63 = 9223372036854775808 := by decide
  have h32 : headerLen = 32 := rfl
  have hsum : leValue ob + leValue lb ≤ buf.length := by
    unfold satAdd64 u64Max at hlen
    split at hlen <;> omega
  refine ⟨?g1, ?g2, hsum, ?g3, ?g4, ?_⟩
  case g1 => trivial
  case g2 => omega
  case g3 => omega
  case g4 => omega
  -- the first 32 bytes are exactly the serialisation of the parsed header
  have hv' := leBytes_leValue vb (mem_sub ev); rw [lv] at hv'
  have ho' := leBytes_leValue ob (mem_sub eo); rw [lo] at ho'
  have hl' := leBytes_leValue lb (mem_sub el); rw [ll] at hl'
  have ht' := leBytes_leValue tb (mem_sub et); rw [lt] at ht'
  have hm' : m = magic := hmagic
  unfold toBuf
  simp only [ho', hl', ht']
  have hv'' : leBytes 4 2 = vb := by rw [← hver]; exact hv'
  rw [hv'', ← hm', em, ev, eo, el, et]
  exact take32 buf

/-- **C20.T2** The byte layout the converter's `write_header` emits (regenerated from
`converter.py` on every run) is the layout `from_buf` parses, and the version it writes is the
only one `from_buf` accepts. -/
theorem c20_converter_layout_matches : converterLayout = expectedLayout ∧ converterVersion = 2 := by
  decide

/-- The narrowing expression used by the converter for int64 constants is the one modelled
by `converterNarrow` (re-extracted on every run). -/
theorem c20_converter_narrow_expr :
    converterInt64Narrow = "data.clip(i32.min, i32.max).astype(np.int32)" := by decide

/-- **C20.T3** For every i64 value, the converter's `clip(...).astype(int32)` and the ONNX
loader's `saturating_cast_i64_to_i32` agree, and the result is the saturated value. -/
theorem c20_int64_narrowing_agrees (x : Int) (_h1 : -(2 ^ 63) ≤ x) (_h2 : x < 2 ^ 63) :
    converterNarrow x = satCastI64ToI32 x ∧ i32Min ≤ satCastI64ToI32 x ∧ satCastI64ToI32 x ≤ i32Max ∧
    (i32Min ≤ x → x ≤ i32Max → satCastI64ToI32 x = x) := by
  unfold converterNarrow satCastI64ToI32 npClip wrapI32 i32Min i32Max
  have e31 : (2 : Int) ^ 31 = 2147483648 := by decide
  have e32 : (2 : Int) ^ 32 = 4294967296 := by decide
  simp only [e31, e32]
  omega

/-- **C20.T4** `f16_to_f32` is exact: for every f16 bit pattern the produced f32 bit pattern
denotes the same extended real (same sign of zero, same infinity, NaN ↦ NaN).  An exact
conversion is in particular the nearest-f32 conversion that numpy's `astype(float32)` performs
in the converter path.  Complete enumeration of the finite domain (65536 patterns), evaluated
by the kernel in `Lemmas/F16Exact.lean`. -/
theorem c20_f16_to_f32_exact (i : Nat) (h : i < 65536) :
    codeF32 (f16ToF32Bits i) = codeF16 i := by
  have := allBelow_spec _ _ f16_to_f32_exact_all i h
  simpa using this

/-- Non-vacuity: a concrete well-formed header and body. -/
example : ({ version := 2, modelOffset := 32, modelLen := 8, tensorDataOffset := 40 } : Header).WellFormed
    (headerLen + (List.replicate 8 0).length) := by
  constructor <;> simp [headerLen]

/-- The value code is not degenerate: 0x3C00 is 1.0 (code 2^200), 0x0001 is the smallest
subnormal 2^-24, 0x7C00 is +inf, 0xFC00 is -inf, 0xFE00 is NaN, 0x8000 is -0 ≠ +0. -/
example : codeF16 0x3C00 = 2 ^ 200 ∧ codeF16 0x0001 = 2 ^ 176 ∧ codeF32 0x3F800000 = 2 ^ 200 ∧
    codeF16 0x7C00 = 2 ^ 512 ∧ codeF16 0xFC00 = 2 ^ 512 + 2 ^ 511 ∧ codeF16 0xFE00 = 2 * 2 ^ 512 ∧
    codeF16 0x8000 ≠ codeF16 0 := by decide +kernel

/-- Saturation really happens outside the i32 range (the guard `i32Min ≤ x ≤ i32Max` of the
identity clause is needed). -/
example : satCastI64ToI32 (2 ^ 40) = i32Max ∧ satCastI64ToI32 (-(2 ^ 63)) = i32Min := by decide

end RtenVerif.RtenHeader

/-! ## f64 → f32, bool, and the rule tables -/
namespace RtenVerif.ConstNarrow
open RtenVerif.Generated

theorem f32OfScaled_le_inf (M E : Nat) : f32OfScaled M E ≤ f32Inf := by
  by_cases hM : M = 0
  · subst hM
    have h0 : f32OfScaled 0 E = 0 := by unfold f32OfScaled; simp
    rw [h0]; exact Nat.zero_le _
  · obtain ⟨q, k, _, _, _, hdef, _⟩ := f32OfScaled_parts M E hM
    rw [hdef]
    split <;> omega

/-- **C20.T5 (f64 → f32 is round-to-nearest-even).** For every finite f64 magnitude bit pattern
`b` (exponent field ≠ 2047) with result `r = f64ToF32Mag b`, values scaled by `2^1074`:
* if `r` is finite then no finite f32 `y` is closer to the exact value than `r`
  (`|x − r| ≤ |x − y|`), and whenever a *different* f32 value is exactly as close, `r`'s last
  mantissa bit is 0 (ties to even);
* `r` is infinity exactly when `x ≥ 2^128 − 2^103` (the midpoint between `f32::MAX` and
  `2^128`; IEEE 754 overflow rule for round-to-nearest);
* `r` never exceeds the bit pattern of infinity (finite inputs never produce NaN). -/
theorem c20_f64_to_f32_nearest (b y : Nat) (hb : b / 2 ^ 52 ≠ 2047) (_hy : y < f32Inf) :
    (f64ToF32Mag b < f32Inf →
      absDiff (f64MagValue b) (f32MagValue (f64ToF32Mag b)) ≤ absDiff (f64MagValue b) (f32MagValue y) ∧
      (f32MagValue (f64ToF32Mag b) ≠ f32MagValue y →
        absDiff (f64MagValue b) (f32MagValue (f64ToF32Mag b)) = absDiff (f64MagValue b) (f32MagValue y) →
        f64ToF32Mag b % 2 = 0)) ∧
    (f64ToF32Mag b = f32Inf ↔ (2 ^ 25 - 1) * 2 ^ 1177 ≤ f64MagValue b) ∧
    f64ToF32Mag b ≤ f32Inf := by
  have hdef : f64ToF32Mag b = f32OfScaled (f64Sig b) (f64Exp b) := by
    unfold f64ToF32Mag; simp [hb]
  rw [hdef, f64MagValue_eq]
  refine ⟨?_, f32OfScaled_overflow _ _, f32OfScaled_le_inf _ _⟩
  intro hfin
  obtain ⟨n, c, hv, hn, hc⟩ := f32_finite_form y
  rw [hv]
  exact f32OfScaled_nearest _ _ n c hc hn hfin

/-- **C20.T5b (specials).** Infinity maps to infinity, every NaN to a NaN, the sign bit is
copied, for every bit pattern `b` (`b < 2^64` for an actual f64). -/
theorem c20_f64_to_f32_special (b : Nat) :
    f64ToF32Bits b / 2 ^ 31 = b / 2 ^ 63 ∧
    ((b % 2 ^ 63) / 2 ^ 52 = 2047 → (b % 2 ^ 63) % 2 ^ 52 = 0 → f64ToF32Bits b % 2 ^ 31 = f32Inf) ∧
    (isNaN64 b = true → isNaN32 (f64ToF32Bits b) = true) := by
  have e31 : (2 : Nat) ^ 31 = 2147483648 := by decide
  have e23 : (2 : Nat) ^ 23 = 8388608 := by decide
  have e22 : (2 : Nat) ^ 22 = 4194304 := by decide
  have hmag : f64ToF32Mag (b % 2 ^ 63) < 2 ^ 31 := by
    unfold f64ToF32Mag
    split
    · split
      · unfold f32Inf; omega
      · have := Nat.mod_lt (b % 2 ^ 63 % 2 ^ 52 / 2 ^ 29) (Nat.two_pow_pos 22)
        omega
    · have := f32OfScaled_le_inf (f64Sig (b % 2 ^ 63)) (f64Exp (b % 2 ^ 63))
      unfold f32Inf at this; omega
  refine ⟨?_, ?_, ?_⟩
  · unfold f64ToF32Bits
    rw [e31] at hmag ⊢
    omega
  · intro h1 h2
    unfold f64ToF32Bits
    have : f64ToF32Mag (b % 2 ^ 63) = f32Inf := by unfold f64ToF32Mag; simp [h1, h2]
    rw [this]; unfold f32Inf; rw [e31]; omega
  · intro hn
    unfold isNaN64 at hn
    simp only [decide_eq_true_eq] at hn
    obtain ⟨h1, h2⟩ := hn
    have h3 : b % 2 ^ 63 % 2 ^ 52 = b % 2 ^ 52 := Nat.mod_mod_of_dvd b (Nat.pow_dvd_pow 2 (by omega))
    have hm : f64ToF32Mag (b % 2 ^ 63) = 0x7fc00000 + (b % 2 ^ 52 / 2 ^ 29) % 2 ^ 22 := by
      unfold f64ToF32Mag; rw [h3]; simp [h1, h2]
    have hlt := Nat.mod_lt (b % 2 ^ 52 / 2 ^ 29) (Nat.two_pow_pos 22)
    unfold isNaN32 f64ToF32Bits
    simp only [decide_eq_true_eq]
    rw [hm, e31, e23]
    rw [e22] at hlt ⊢
    omega

/-- The scaled value used for f64 → f32 (`f32MagValue`, unit `2^-1074`) and the value code used
for f16 → f32 (`codeF32`, unit `2^-200`) denote the same number for every finite non-negative
f32 bit pattern: one notion of "value of an f32" across C20's theorems. -/
theorem c20_f32_value_scales_agree (y : Nat) (hy : y < f32Inf) : f32MagValue y = RtenVerif.RtenHeader.codeF32 y * 2 ^ 874 := by
  unfold f32Inf at hy
  unfold f32MagValue RtenVerif.RtenHeader.codeF32 RtenVerif.RtenHeader.valueCode
  simp only [Nat.shiftRight_eq_div_pow]
  have e23 : (2 : Nat) ^ 23 = 8388608 := by decide
  have e31 : (2 : Nat) ^ (8 + 23) = 2147483648 := by decide
  have e8 : (2 : Nat) ^ 8 = 256 := by decide
  have eb : (2 : Nat) ^ (8 - 1) - 1 = 127 := by decide
  rw [e31, e23, e8, eb]
  have hs : y / 2147483648 % 2 = 0 := by omega
  have he : y / 8388608 % 256 = y / 8388608 := by omega
  rw [hs, he]
  have hne : ¬ (y / 8388608 = 256 - 1) := by omega
  simp only [hne, if_false, Nat.zero_mul, Nat.zero_add]
  by_cases h0 : y / 8388608 = 0
  · simp only [h0, if_true]
    have e1 : (200 + 1 - 127 - 23 : Nat) = 51 := by omega
    have hp := pow_split (a := 874) (b := 925) (by omega)
    have h51 : 925 - 874 = 51 := by omega
    rw [h51] at hp
    rw [e1, Nat.mul_assoc, ← hp]
  · simp only [h0, if_false]
    have hp := pow_split (a := 874) (b := y / 8388608 - 1 + 925) (by omega)
    have hx : y / 8388608 - 1 + 925 - 874 = 200 + y / 8388608 - 127 - 23 := by omega
    rw [hx] at hp
    rw [Nat.mul_assoc, ← hp]

/-- **C20.T6 (bool).** A bool constant byte / `int32_data` element becomes 0 or 1, identically in
the loader (`!= 0`) and in the converter (numpy bool view + `astype(int32)`). -/
theorem c20_bool_narrowing_agrees (x : Int) :
    numpyBoolAsInt32 x = loaderBool x ∧ (loaderBool x = 0 ∨ loaderBool x = 1) ∧ (loaderBool x = 0 ↔ x = 0) := by
  unfold numpyBoolAsInt32 loaderBool
  by_cases h : x = 0 <;> simp [h]

/-- **C20.T7 (rule tables).** The dtype → conversion-rule table extracted from the ONNX loader's
`load_constant` has exactly the eight expected arms, each with the expected rule (the translator
compares every arm, and every helper function the arms call, with its exact text; an arm it
cannot cut out or classify makes it fail before this theorem is even checked); the converter's
`constant_node_from_onnx_initializer` applies the same rule to every dtype the loader supports,
its table is pinned entry by entry as well (int16 is the only extra dtype), its frame
(`to_array`, the match, `ConstantNode(..)`, a single final wildcard `raise`) is the expected one;
nothing wraps or is unrecognised; and the loader's saturating cast is the clamp the model
`satCastI64ToI32` describes. -/
theorem c20_const_rules_agree :
    loaderConstRules = [("FLOAT", .keepF32), ("INT32", .keepI32), ("UINT8", .keepU8), ("INT8", .keepI8),
      ("INT64", .satI64), ("BOOL", .boolToI32), ("DOUBLE", .f64ToF32), ("FLOAT16", .f16ToF32)] ∧
    loaderConstRules.map (·.1) = ["FLOAT", "INT32", "UINT8", "INT8", "INT64", "BOOL", "DOUBLE", "FLOAT16"] ∧
    (∀ p ∈ loaderConstRules, p.2 ≠ .unrecognised ∧ p.2 ≠ .wrapI64 ∧ ruleOf converterConstRules p.1 = p.2) ∧
    (∀ p ∈ converterConstRules, p.2 ≠ .unrecognised ∧ p.2 ≠ .wrapI64 ∧
      (ruleOf loaderConstRules p.1 = p.2 ∨ p = ("INT16", .widenI16))) ∧
    (converterConstRules.map (·.1)).length = 9 ∧ (converterConstRules.map (·.1)).eraseDups.length = 9 ∧
    converterFrameRecognised = true ∧
    loaderHelpersRecognised = [("saturating_cast_i64_to_i32", true), ("make_constant", true),
      ("convert_constant", true), ("convert_f16_constant", true), ("elements_from_le_bytes", true)] ∧
    loaderSatCastBody = "x.clamp(i32::MIN as i64, i32::MAX as i64) as i32" := by
  decide

/-- The converter accepts one dtype more than the loader (int16, widened to i32): for such a
constant there is no reference behaviour to compare with. -/
example : ruleOf converterConstRules "INT16" = .widenI16 ∧ ruleOf loaderConstRules "INT16" = .unsupported := by
  decide

/-- Non-vacuity / sanity of the conversion model on concrete patterns: 1.0; the smallest f64
above 1.0 (rounds down); the halfway point between 1.0 and its f32 successor (tie → even = 1.0);
halfway between the next two (tie → even = upper); just below `2^128 − 2^103` → `f32::MAX`,
exactly there → infinity; `2^-150` (tie between 0 and the smallest subnormal → 0); just above →
smallest subnormal; a quiet NaN. -/
example : f64ToF32Mag 0x3FF0000000000000 = 0x3F800000 ∧ f64ToF32Mag 0x3FF0000000000001 = 0x3F800000 ∧
    f64ToF32Mag 0x3FF0000010000000 = 0x3F800000 ∧ f64ToF32Mag 0x3FF0000030000000 = 0x3F800002 ∧
    f64ToF32Mag 0x47EFFFFFEFFFFFFF = 0x7F7FFFFF ∧ f64ToF32Mag 0x47EFFFFFF0000000 = 0x7F800000 ∧
    f64ToF32Mag 0x3690000000000000 = 0 ∧ f64ToF32Mag 0x3690000000000001 = 1 ∧
    f64ToF32Mag 0x7FF8000000000000 = 0x7FC00000 := by decide +kernel

/-- The hypotheses of `c20_f64_to_f32_nearest` are met by ordinary values, and its tie clause is
not vacuous: for `x` halfway between 1.0 and the next f32, `y = 0x3F800001` is a different value
at exactly the same distance, and the result `0x3F800000` is even. -/
example : (0x3FF0000010000000 : Nat) / 2 ^ 52 ≠ 2047 ∧ (0x3F800001 : Nat) < f32Inf ∧
    absDiff (f64MagValue 0x3FF0000010000000) (f32MagValue 0x3F800000) =
      absDiff (f64MagValue 0x3FF0000010000000) (f32MagValue 0x3F800001) ∧
    f32MagValue 0x3F800000 ≠ f32MagValue 0x3F800001 := by decide +kernel

end RtenVerif.ConstNarrow
