import RtenVerif.Lemmas.SimdLoop
import RtenVerif.Lemmas.SimdFold
import RtenVerif.Lemmas.SimdEmu

/-!
# C18 — SIMD instruction sets agree and stay within slice bounds

Property theorems over `RtenVerif.Model.SimdLoop`.

* **T1 (loops, proved for every length `n`, vector width `v > 0`, unroll factor `u > 0`)**:
  `simd_map`, `simd_apply<u>`, `Iter`+`tail`/`fold_unroll<u>` visit the chunks
  `[0,v), [v,2v), …` followed by at most one masked tail whose mask bit `i` is set iff
  `i < n mod v`; every index `< n` is accessed exactly once and no index `≥ n` is accessed.
  `SliceWriter` initialises exactly the prefix `[0, n_init)`, once each, `n_init ≤ len`.
* **T2 (lane semantics)**: the scalar reference used by the correspondence harness obeys the
  expected laws (wrapping = `BitVec` arithmetic, saturation bounds, widening tricks used by
  the AVX2/AVX-512 8-bit paths, unsigned compare via sign flip).

What is *not* proved here (and cannot be with a Lean model of the loops): that each ISA's
intrinsics implement the lane semantics — that part of C18 is decided by running the real
code under generic / AVX2 / AVX-512 (exhaustive for 8-bit operand pairs, sampled beyond),
see `harness/gemm/src/bin/c18.rs`.
-/
namespace RtenVerif.SimdLoop

/-! ## T1 — loop schedules -/

/-- **C18.T1a** Chunk structure of `simd_map`: `n / v` full vectors at offsets `0, v, 2v, …`
then the masked tail for the remaining `n % v` elements (absent when `n % v = 0`). -/
theorem c18_map_chunks (v n : Nat) (hv : 0 < v) :
    simdMap v n = fullRun v 0 (n / v) ++ tailChunk v ((n / v) * v) (n % v) := by
  have := mapLoop_canon v hv n 0 n (Nat.le_refl _)
  simpa [simdMap] using this

/-- **C18.T1b** `simd_map` touches exactly the indices `0 … n-1`, in order, each once — for
loads from the source and stores to the destination alike. -/
theorem c18_map_touched (v n : Nat) (hv : 0 < v) : touched (simdMap v n) = List.range n := by
  rw [c18_map_chunks v n hv, touched_append, touched_fullRun,
    touched_tailChunk _ _ _ (Nat.le_of_lt (Nat.mod_lt n hv))]
  have h1 := range'_append' 0 (n / v * v) (n % v)
  simp only [Nat.zero_add] at h1
  rw [h1, List.range_eq_range']
  congr 1
  have := Nat.div_add_mod n v
  rw [Nat.mul_comm] at this
  omega

/-- **C18.T1c** Every in-range index is accessed exactly once … -/
theorem c18_map_each_once (v n i : Nat) (hv : 0 < v) (hi : i < n) :
    (touched (simdMap v n)).count i = 1 := by
  rw [c18_map_touched v n hv, List.count_range, if_pos hi]

/-- … and nothing at or beyond the slice length is accessed. -/
theorem c18_map_in_bounds (v n i : Nat) (hv : 0 < v) (hi : i ∈ touched (simdMap v n)) : i < n := by
  rw [c18_map_touched v n hv] at hi
  exact List.mem_range.mp hi

/-- **C18.T1d** Mask bit `i` of the tail is set iff `i < remaining` — lane-array form
(generic, AVX2) and bit-loop form (AVX-512). -/
theorem c18_mask_bits (v n i : Nat) (hi : i < v) :
    (firstNMask v n)[i]'(by simp [hi]) = decide (i < n) ∧
    (bitLoopMask n).testBit i = decide (i < n) :=
  ⟨firstNMask_get v n i hi, bitLoopMask_testBit n i⟩

/-- AVX2 has no 16-bit masked load/store: the code tests bit `2i+1` of `movemask_epi8`.
Byte `j` of a 16-bit lane mask belongs to lane `j / 2`, so that bit is lane `i`'s. -/
theorem c18_avx2_m16_bit (i : Nat) : (2 * i + 1) / 2 = i := by omega

/-- **C18.T1e** The unrolled loop `simd_apply<u>` (and `Iter::fold_unroll<u>`, which has the
same three phases) performs exactly the same sequence of accesses as `simd_map`. -/
theorem c18_apply_eq_map (v u n : Nat) (hv : 0 < v) (hu : 0 < u) :
    simdApply v u n = some (simdMap v n) := by
  have hbig : 0 < v * u := Nat.mul_pos hv hu
  have hne : ¬ (v * u = 0) := by omega
  unfold simdApply
  rw [if_neg hne]
  simp only [Option.some.injEq]
  rw [c18_map_chunks v n hv, flatMap_fullRun]
  -- arithmetic: n / v = (n / (v*u)) * u + (n % (v*u)) / v,  n % v = (n % (v*u)) % v
  have hmod : n % (v * u) % v = n % v := Nat.mod_mul_right_mod n v u
  have hdiv : n / v = n / (v * u) * u + n % (v * u) / v := by
    have h1 : n = v * (u * (n / (v * u))) + n % (v * u) := by
      have := (Nat.div_add_mod n (v * u)).symm
      rw [Nat.mul_assoc] at this
      exact this
    calc n / v = (v * (u * (n / (v * u))) + n % (v * u)) / v := by rw [← h1]
      _ = u * (n / (v * u)) + n % (v * u) / v := Nat.mul_add_div hv _ _
      _ = n / (v * u) * u + n % (v * u) / v := by rw [Nat.mul_comm u]
  have e1 : 0 + n / (v * u) * u * v = n / (v * u) * (v * u) := by
    rw [Nat.zero_add, Nat.mul_assoc, Nat.mul_comm u v]
  have e2 : (n / (v * u) * u + n % (v * u) / v) * v
      = n / (v * u) * (v * u) + n % (v * u) / v * v := by
    rw [Nat.add_mul, Nat.mul_assoc, Nat.mul_comm u v]
  rw [hmod, hdiv, fullRun_append, e1, e2]

/-- `chunks_exact_mut(0)` panics: the model reports it instead of looping. -/
theorem c18_apply_zero_panics (v n : Nat) : simdApply v 0 n = none := by simp [simdApply]

/-- Consequently the unrolled loops also touch exactly `0 … n-1`, once each. -/
theorem c18_apply_touched (v u n : Nat) (hv : 0 < v) (hu : 0 < u) :
    (simdApply v u n).map touched = some (List.range n) := by
  rw [c18_apply_eq_map v u n hv hu, Option.map_some, c18_map_touched v n hv]

/-- **C18.T1f** `Iter::next`* followed by `tail()` is the same schedule as `simd_map`. -/
theorem c18_iter_eq_map (v n : Nat) (hv : 0 < v) : simdIter v n = simdMap v n :=
  iterLoop_eq_mapLoop v hv n 0 n (Nat.le_refl _)

/-- `Iter::tail()` is public and may be called in *any* iterator state (also before the full
chunks were consumed): it never touches anything outside the remaining `rem` elements. -/
theorem c18_iter_tail_safe (v off rem i : Nat) (hi : i ∈ touched (iterTail v off rem)) :
    off ≤ i ∧ i < off + rem := by
  unfold iterTail at hi
  by_cases h : rem > 0
  · simp only [h, if_true, touched_cons, masked_indices, touched_nil, List.append_nil,
      List.mem_range'_1] at hi
    omega
  · simp [h] at hi

/-- **C18.T1g** `SliceWriter`: after any sequence of `write_vec` / `write_vecs` /
`write_scalar` calls that did not panic, the stored indices are exactly `0 … n_init-1`
(each once, in order) and `n_init ≤ len` — so `into_mut_slice` returns only initialised
elements and nothing beyond the buffer was written. -/
theorem c18_writer_exact (len : Nat) (ops : List WOp) (s : WState)
    (h : wRun ⟨len, 0, []⟩ ops = some s) :
    s.writes = List.range s.nInit ∧ s.nInit ≤ s.len ∧ s.len = len := by
  suffices H : ∀ (ops : List WOp) (s0 s : WState),
      s0.writes = List.range s0.nInit → s0.nInit ≤ s0.len → wRun s0 ops = some s →
      s.writes = List.range s.nInit ∧ s.nInit ≤ s.len ∧ s.len = s0.len by
    exact H ops ⟨len, 0, []⟩ s (by simp) (by simp) h
  intro ops
  induction ops with
  | nil =>
    intro s0 s hw hl h
    simp only [wRun, Option.some.injEq] at h
    subst h
    exact ⟨hw, hl, rfl⟩
  | cons op ops ih =>
    intro s0 s hw hl h
    simp only [wRun] at h
    cases hs : wStep s0 op with
    | none => simp [hs] at h
    | some s1 =>
      rw [hs] at h
      have key : s1.writes = List.range s1.nInit ∧ s1.nInit ≤ s1.len ∧ s1.len = s0.len := by
        cases op with
        | vec v =>
          simp only [wStep] at hs
          split at hs
          · simp only [Option.some.injEq] at hs
            subst hs
            refine ⟨?_, by simp only; omega, rfl⟩
            simp only [hw, full_indices, List.range_eq_range']
            have := range'_append' 0 s0.nInit v
            simp only [Nat.zero_add] at this
            exact this
          · simp at hs
        | vecs v k =>
          simp only [wStep] at hs
          split at hs
          · simp only [Option.some.injEq] at hs
            subst hs
            refine ⟨?_, by simp only; omega, rfl⟩
            simp only [hw, touched_fullRun, List.range_eq_range']
            have := range'_append' 0 s0.nInit (k * v)
            simp only [Nat.zero_add] at this
            rw [Nat.mul_comm v k]
            exact this
          · simp at hs
        | scalar =>
          simp only [wStep] at hs
          split at hs
          · simp only [Option.some.injEq] at hs
            subst hs
            refine ⟨?_, by simp only; omega, rfl⟩
            simp [hw, List.range_succ]
          · simp at hs
      obtain ⟨k1, k2, k3⟩ := key
      obtain ⟨r1, r2, r3⟩ := ih s1 s k1 k2 h
      exact ⟨r1, r2, by omega⟩

/-- A write that does not fit panics (it is not silently truncated). -/
theorem c18_writer_overflow_panics (len nInit v : Nat) (ws : List Nat) (h : len - nInit < v) :
    wStep ⟨len, nInit, ws⟩ (.vec v) = none := by
  simp only [wStep]
  rw [if_neg (by omega)]

/-! Non-vacuity / concrete instances (kernel evaluation of the executable model). -/

example : (simdMap 4 11).map Chunk.count = [4, 4, 3] ∧ touched (simdMap 4 11) = List.range 11 := by
  decide
example : simdApply 4 2 23 = some (simdMap 4 23) ∧
    ((simdMap 4 23).map Chunk.count = [4, 4, 4, 4, 4, 3]) := by decide
example : (simdMap 8 0) = [] ∧ (simdMap 8 8).map Chunk.count = [8] := by decide
example : wRun ⟨10, 0, []⟩ [.vec 4, .scalar, .vecs 2 2] = some ⟨10, 9, List.range 9⟩ := by decide
example : wRun ⟨10, 0, []⟩ [.vec 4, .vec 4, .vec 4] = none := by decide
/-- The hypothesis `0 < v` of T1 is needed: with `v = 0` the real loop `while n >= 0` never
terminates; the fuel-bounded model stops, but not with the full coverage. -/
example : touched (simdMap 0 3) ≠ List.range 3 := by decide



/-! ## T1k — emulated masked load/store (AVX2 8/16-bit lanes, generic ISA) -/

/-- **C18.T1k** `_mm256_movemask_epi8` modelled bit by bit: bit `i` of the movemask of a byte
mask is byte `i`; for a 16-bit-lane mask the bit `2i+1` that avx2.rs tests is lane `i`. -/
theorem c18_movemask_bit (m : List Bool) (i : Nat) :
    (movemask8 m).testBit i = m.getD i false ∧
    (movemask8 (bytesOf16 m)).testBit (i * 2 + 1) = m.getD i false :=
  ⟨movemask8_testBit m i, by rw [movemask8_testBit, (bytesOf16_getD m i).1]⟩

/-- **C18.T1l** the scalar fallback loop (any of the three encodings) dereferences exactly the
addresses `off + i` with `m[i]` set — the same index set a hardware masked access of the chunk
`⟨off, m⟩` touches — for every mask, not only `first_n_mask`. -/
theorem c18_emulated_access_exact (k : EmuKind) (m : List Bool) (off : Nat) :
    emuAccess m.length (emuBit k m) off = (Chunk.mk off m).indices := by
  have : emuBit k m = fun i => m.getD i false := funext (emuBit_eq k m)
  rw [this]
  exact emuAccess_getD m off

/-- With the tail mask `first_n_mask(t)` the emulated access stays inside `[off, off + t)`. -/
theorem c18_emulated_tail_in_bounds (k : EmuKind) (v off t : Nat) :
    emuAccess v (emuBit k (firstNMask v t)) off = List.range' off (min t v) := by
  have h := c18_emulated_access_exact k (firstNMask v t) off
  rw [firstNMask_length] at h
  rw [h]
  exact maskIdx_firstN v off t

/-- **C18.T1m** emulated masked store: memory cell `a` afterwards holds lane `a - off` of the
vector iff that lane's mask is set and `a` lies in the vector's window; every other cell —
in particular everything outside `[off, off + lanes)` — is unchanged. -/
theorem c18_emulated_store_exact {α : Type} (zero : α) (k : EmuKind) (m : List Bool) (off : Nat)
    (xs : List α) (mem : Nat → α) (a : Nat) :
    emuStore zero mem m.length (emuBit k m) off xs a =
      if off ≤ a ∧ a < off + m.length ∧ m.getD (a - off) false = true
      then xs.getD (a - off) zero else mem a := by
  rw [emuStore_spec, emuBit_eq]

/-- Emulated masked load: lane `i` is the memory cell iff the mask is set, else zero. -/
theorem c18_emulated_load_lanes {α : Type} (zero : α) (k : EmuKind) (m : List Bool) (off : Nat)
    (mem : Nat → α) (i : Nat) (hi : i < m.length) :
    (emuLoad zero mem m.length (emuBit k m) off)[i]'(by simp [emuLoad, hi]) =
      if m.getD i false = true then mem (off + i) else zero := by
  simp [emuLoad, emuBit_eq]

example : movemask8 (bytesOf16 [true, false, true]) = 0b110011 ∧
    emuAccess 3 (emuBit .avx2x16 [true, false, true]) 10 = [10, 12] := by decide

/-! ## T1h — fold skeletons: padding lanes never reach an accumulator -/

section FoldThms
variable {α β : Type}

/-- **C18.T1h** `Iter::fold` and `Iter::fold_n` (per-lane state `β` = one value resp. an
`N`-tuple): for every slice `xs`, width `v > 0`, per-lane accumulate function `f`, initial
accumulator and padding value, every lane `j < v` of the result is the scalar left fold of
exactly the elements `xs[j], xs[j+v], …` (element `i` goes to lane `i mod v`, once, in order).
The zero padding of the tail vector is never folded in: the tail step keeps the old
accumulator where the mask is off. -/
theorem c18_fold_exact (f : β → α → β) (pad : α) (v : Nat) (hv : 0 < v) (xs : List α)
    (acc : Nat → β) (j : Nat) (hj : j < v) :
    iterFold true f pad v xs acc j = sFold v f 0 xs acc j := by
  obtain ⟨c, e1, e2, e3, e4⟩ := mainLoop_spec f pad v hv xs.length xs acc (Nat.le_refl _)
  have hs : sFold v f 0 xs acc j = sFold v f 0 (c ++ (mainLoop f pad v xs.length xs acc).1) acc j := by
    rw [← e1]
  unfold iterFold
  generalize mainLoop f pad v xs.length xs acc = r at *
  rw [hs, sFold_append, e3,
    sFold_congr v f r.1 0 (sFold v f 0 c acc) r.2 hv (fun i hi => (e4 i hi).symm) j hj,
    sFold_run v f pad r.1 0 r.2 hv (by omega) j]
  unfold foldTail
  by_cases hpos : r.1.length > 0
  · simp only [hpos, if_true, vselect, vfold, loadVec]
    by_cases hl : j < r.1.length
    · have h1 : j < min r.1.length v := by omega
      have h2 : 0 ≤ j ∧ j < 0 + r.1.length := by omega
      simp [h1, h2]
      intro h; exact absurd h (by omega)
    · have h1 : ¬ j < min r.1.length v := by omega
      have h2 : ¬ (0 ≤ j ∧ j < 0 + r.1.length) := by omega
      simp [h1, h2]
      intro h; exact absurd h (by omega)
  · have h2 : ¬ (0 ≤ j ∧ j < 0 + r.1.length) := by omega
    simp [hpos]
    intro h; exact absurd h (by omega)

/-- **C18.T1i** `fold_unroll<u>` / `fold_n_unroll<_, u>`, main phase: the `u` accumulators
(= `v·u` virtual lanes) receive whole `v·u`-blocks only — no padding is involved — and hold the
exact lane folds of the consumed prefix; fewer than `v·u` elements are left. -/
theorem c18_fold_unroll_main (f : β → α → β) (pad : α) (v u : Nat) (hv : 0 < v) (hu : 0 < u)
    (xs : List α) (acc : Nat → β) :
    ∃ consumed, xs = consumed ++ (mainLoop f pad (v * u) xs.length xs acc).1 ∧
      (mainLoop f pad (v * u) xs.length xs acc).1.length < v * u ∧
      ∀ l, l < v * u →
        (mainLoop f pad (v * u) xs.length xs acc).2 l = sFold (v * u) f 0 consumed acc l := by
  obtain ⟨c, e1, e2, _, e4⟩ :=
    mainLoop_spec f pad (v * u) (Nat.mul_pos hv hu) xs.length xs acc (Nat.le_refl _)
  exact ⟨c, e1, e2, e4⟩

/-- **C18.T1j** `fold_unroll`, final phase: after the caller's `fold_acc` merged the `u`
accumulators, the remaining elements go through `fold` (T1h): the result is the exact lane
fold of the remaining elements starting from the merged accumulator — again no padding lane
reaches it.  (That merging `u` partial folds equals one sequential fold is the *caller's*
obligation on `fold`/`fold_acc` — associative-commutative operation, neutral initial value —
not a property of the loop.) -/
theorem c18_fold_unroll_tail (f : β → α → β) (facc : β → β → β) (pad : α) (v u : Nat)
    (hv : 0 < v) (xs : List α) (init : Nat → β) (j : Nat) (hj : j < v) :
    foldUnroll f facc pad v u xs init j =
      sFold v f 0 (mainLoop f pad (v * u) xs.length xs (fun l => init (l % v))).1
        (fun j => (List.range (u - 1)).foldl
          (fun a i => facc a ((mainLoop f pad (v * u) xs.length xs (fun l => init (l % v))).2
            ((i + 1) * v + j)))
          ((mainLoop f pad (v * u) xs.length xs (fun l => init (l % v))).2 j)) j := by
  unfold foldUnroll
  exact c18_fold_exact f pad v hv _ _ j hj

end FoldThms

/-- The full statement is FALSE of the loop without the tail `select` (the defect class
"padding leaks into the accumulator"): minimum of `[15, 85, 25]` with 4 lanes and zero padding —
lane 3 receives `min(1000, 0) = 0`, so the horizontal minimum becomes `0` although no element is
smaller than 15. -/
theorem c18_fold_without_select_false :
    ¬ (∀ j, j < 4 → iterFold false (fun a x => min a x) 0 4 [15, 85, 25] (fun _ => 1000) j
        = sFold 4 (fun a x => min a x) 0 [15, 85, 25] (fun _ => (1000 : Nat)) j) := by
  intro h
  exact absurd (h 3 (by decide)) (by decide)

/-- Non-vacuity: with the select the lanes are `[15, 85, 25, 1000]`; two-accumulator
(min, max) fold over a full chunk plus a tail; unrolled sum. -/
example : (List.range 4).map (iterFold true (fun a x => min a x) 0 4 [15, 85, 25] (fun _ => 1000))
    = [15, 85, 25, 1000] := by decide
example : (List.range 2).map
    (iterFold true (fun (a : Nat × Nat) x => (min a.1 x, max a.2 x)) 0 2 [5, 9, 7] (fun _ => (100, 0)))
    = [(5, 7), (9, 9)] := by decide
example : (List.range 2).map
    (foldUnroll (fun a x => a + x) (fun a b => a + b) 0 2 2 [1, 2, 3, 4, 5, 6, 7] (fun _ => 0))
    = [1 + 3 + 5 + 7, 2 + 4 + 6] := by decide


/-! ## T2 — scalar lane semantics -/

/-- Signed wrap stays inside the lane's range. -/
theorem c18_wrap_in_range (k : Nat) (x : Int) :
    (⟨true, k + 1⟩ : LaneTy).inRange ((⟨true, k + 1⟩ : LaneTy).wrap x) := by
  have := wrapS_bounds k x
  simp only [LaneTy.inRange, LaneTy.wrap, LaneTy.lo, LaneTy.hi, if_true, Nat.add_sub_cancel]
  omega

/-- Wrapping is the identity on in-range values (so `add/sub/mul` are exact when they do not
overflow). -/
theorem c18_wrap_id (k : Nat) (x : Int) (h : (⟨true, k + 1⟩ : LaneTy).inRange x) :
    (⟨true, k + 1⟩ : LaneTy).wrap x = x := by
  simp only [LaneTy.inRange, LaneTy.lo, LaneTy.hi, if_true, Nat.add_sub_cancel] at h
  simp only [LaneTy.wrap, if_true]
  exact wrapS_of_inRange k x h.1 (by omega)

/-- The signed wrap is two's-complement `BitVec` truncation; hence lane `add`/`mul` are
`BitVec` addition / multiplication. -/
theorem c18_wrapS_eq_bitvec (k : Nat) (x : Int) :
    wrapS (k + 1) x = (BitVec.ofInt (k + 1) x).toInt := by
  rw [BitVec.toInt_ofInt]
  unfold wrapS Int.bmod
  have hp := two_pow_pos_int k
  have hm := two_pow_succ_int k
  have hc : ((2 ^ (k + 1) : Nat) : Int) = 2 * 2 ^ k := by
    rw [← hm]; norm_cast
  simp only [hc, hm]
  have h1 : (2 * 2 ^ k : Int) / 2 = 2 ^ k := by omega
  have h2 : (2 * 2 ^ k + 1 : Int) / 2 = 2 ^ k := by omega
  rw [h1, h2]

theorem c18_add_eq_bitvec (k : Nat) (a b : Int) :
    laneAdd ⟨true, k + 1⟩ a b = (BitVec.ofInt (k + 1) a + BitVec.ofInt (k + 1) b).toInt := by
  simp only [laneAdd, LaneTy.wrap, if_true]
  rw [c18_wrapS_eq_bitvec, BitVec.ofInt_add]

theorem c18_mul_eq_bitvec (k : Nat) (a b : Int) :
    laneMul ⟨true, k + 1⟩ a b = (BitVec.ofInt (k + 1) a * BitVec.ofInt (k + 1) b).toInt := by
  simp only [laneMul, LaneTy.wrap, if_true]
  rw [c18_wrapS_eq_bitvec, BitVec.ofInt_mul]

/-- **Saturating narrowing** (`i32→i16`, `i16→u8`): the result is in the destination range,
is the identity on values already in range, and is monotone. -/
theorem c18_narrow_sat_bounds (d : LaneTy) (x : Int) (hd : d.lo ≤ d.hi) :
    d.lo ≤ narrowSat d x ∧ narrowSat d x ≤ d.hi := by
  unfold narrowSat laneMin laneMax
  repeat' split
  all_goals omega

theorem c18_narrow_sat_id (d : LaneTy) (x : Int) (h : d.inRange x) : narrowSat d x = x := by
  unfold LaneTy.inRange at h
  unfold narrowSat laneMin laneMax
  repeat' split
  all_goals omega

theorem c18_narrow_sat_mono (d : LaneTy) (x y : Int) (hd : d.lo ≤ d.hi) (h : x ≤ y) :
    narrowSat d x ≤ narrowSat d y := by
  unfold narrowSat laneMin laneMax
  repeat' split
  all_goals omega

/-- Concrete ranges used by rten-gemm / quantisation (C17): `i16` is `[-32768, 32767]`,
`u8` is `[0, 255]`. -/
example : i16.lo = -32768 ∧ i16.hi = 32767 ∧ u8.lo = 0 ∧ u8.hi = 255 := by decide
example : narrowSat i16 40000 = 32767 ∧ narrowSat i16 (-40000) = -32768 ∧ narrowSat u8 (-3) = 0 ∧
    narrowSat u8 300 = 255 ∧ narrowSat u8 77 = 77 := by decide

/-- `extend_low`/`extend_high` followed by `narrow_saturate` is the identity on vectors whose
lanes are in the narrow range. -/
theorem c18_extend_narrow_roundtrip (d : LaneTy) (xs : List Int) (h : ∀ x ∈ xs, d.inRange x) :
    narrowSatVec d (extendLow xs) (extendHigh xs) = xs := by
  unfold narrowSatVec extendLow extendHigh lowHalf highHalf
  rw [List.take_append_drop]
  calc xs.map (narrowSat d) = xs.map id :=
        List.map_congr_left (fun x hx => c18_narrow_sat_id d x (h x hx))
    _ = xs := List.map_id xs

/-- The AVX2/AVX-512 8-bit `mul`/`shift_left` go through 16-bit lanes and truncate: same
result as the direct 8-bit wrapping operation (signed and unsigned). -/
theorem c18_mul_via_widening (a b : Int) :
    narrowTrunc i8 (laneMul i16 a b) = laneMul i8 a b ∧
    narrowTrunc u8 (laneMul u16 a b) = laneMul u8 a b := by
  constructor
  · simp only [narrowTrunc, laneMul, LaneTy.wrap, i8, i16, if_true]
    exact wrapS_wrapS_of_le 8 16 (by decide) _
  · simp only [narrowTrunc, laneMul, LaneTy.wrap, u8, u16]
    exact wrapU_wrapU_of_le 8 16 (by decide) _

theorem c18_shl_via_widening (k : Nat) (a : Int) :
    narrowTrunc i8 (laneShl i16 k a) = laneShl i8 k a ∧
    narrowTrunc u8 (laneShl u16 k a) = laneShl u8 k a := by
  constructor
  · simp only [narrowTrunc, laneShl, LaneTy.wrap, i8, i16, if_true]
    exact wrapS_wrapS_of_le 8 16 (by decide) _
  · simp only [narrowTrunc, laneShl, LaneTy.wrap, u8, u16]
    exact wrapU_wrapU_of_le 8 16 (by decide) _

/-- AVX2 unsigned `gt` (no native instruction): flipping the sign bit of both operands and
comparing as signed decides the unsigned order. -/
theorem c18_unsigned_gt_via_sign_flip (k : Nat) (x y : Int)
    (hx : 0 ≤ x ∧ x < 2 ^ (k + 1)) (hy : 0 ≤ y ∧ y < 2 ^ (k + 1)) :
    (xorSignAsSigned (k + 1) x > xorSignAsSigned (k + 1) y) ↔ x > y := by
  have hm := two_pow_succ_int k
  have hp := two_pow_pos_int k
  have key : ∀ z : Int, 0 ≤ z → z < 2 ^ (k + 1) → xorSignAsSigned (k + 1) z = z - 2 ^ k := by
    intro z h0 h1
    unfold xorSignAsSigned
    simp only [Nat.add_sub_cancel]
    by_cases hz : z < 2 ^ k
    · rw [if_pos hz]
      have e : wrapS (k + 1) (z + 2 ^ k) = wrapS (k + 1) (z - 2 ^ k) := by
        apply wrapS_congr
        have : z + 2 ^ k = (z - 2 ^ k) + 2 ^ (k + 1) := by omega
        rw [this, Int.add_emod_right]
      rw [e]
      exact wrapS_of_inRange k _ (by omega) (by omega)
    · rw [if_neg hz]
      exact wrapS_of_inRange k _ (by omega) (by omega)
  rw [key x hx.1 hx.2, key y hy.1 hy.2]
  omega

/-- `min`/`max`/`select`/`abs`. -/
theorem c18_min_max_laws (a b : Int) :
    laneMin a b ≤ a ∧ laneMin a b ≤ b ∧ (laneMin a b = a ∨ laneMin a b = b) ∧
    a ≤ laneMax a b ∧ b ≤ laneMax a b ∧ (laneMax a b = a ∨ laneMax a b = b) := by
  unfold laneMin laneMax
  split <;> split <;> omega

/-- Arithmetic shift right is floor division by `2^k` (signed and unsigned lanes). -/
theorem c18_shr_floor (k : Nat) (a : Int) :
    2 ^ k * laneShr k a ≤ a ∧ a < 2 ^ k * (laneShr k a + 1) := by
  have hp := two_pow_pos_int k
  unfold laneShr
  constructor
  · exact Int.mul_ediv_self_le (by omega)
  · have := Int.lt_mul_ediv_self_add (x := a) hp
    rw [Int.mul_add, Int.mul_one]
    exact this

/-- `abs` wraps at the minimum (`abs(MIN) = MIN`), as the SIMD instructions do. -/
example : laneAbs i8 (-128) = -128 ∧ laneAbs i8 (-127) = 127 ∧ laneNeg i32 (-2147483648) = -2147483648 := by
  decide
example : laneAdd i8 127 1 = -128 ∧ laneMul u8 16 16 = 0 ∧ laneShl i16 15 1 = -32768 ∧
    laneShr 1 (-3) = -2 ∧ laneSub u16 0 1 = 65535 := by decide
example : interleaveLow [1, 2, 3, 4] [5, 6, 7, 8] = [1, 5, 2, 6] ∧
    interleaveHigh [1, 2, 3, 4] [5, 6, 7, 8] = [3, 7, 4, 8] ∧
    concatLow [1, 2, 3, 4] [5, 6, 7, 8] = [1, 2, 5, 6] ∧
    narrowSatVec i16 [70000, -1] [5, -70000] = [32767, -1, 5, -32768] := by decide

end RtenVerif.SimdLoop
