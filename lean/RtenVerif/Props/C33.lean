import RtenVerif.Lemmas.Sampler

/-!
# C33 — Samplers choose only valid candidates

Property theorems over `RtenVerif.Model.Sampler` (model of `rten-generate/src/sampler.rs`).
Candidates are `(token id, score)` / `(token id, probability)` pairs in the order of
`Logits::enumerate()`; ids are arbitrary (sparse or dense logits alike).

`Rule.fixed` is the `multinomial` loop after the C33 fix (see `findings/C33.json`),
`Rule.legacy` the loop as found, for which the property is false in two regions
(`c33_T2_legacy_target_zero_false`, `c33_T2_legacy_fallback_false`).
-/
namespace RtenVerif.Sampler

/-! ## T1 ArgMax -/

/-- `ArgMax::sample` panics exactly on empty logits. -/
theorem c33_T1_argmax_total (l : List (Nat × Option Int)) : argMax l = none ↔ l = [] := by
  cases l <;> simp [argMax]

/-- **C33.T1** NaN-free scores: the returned pair is one of the candidates and its score is
`≥` every candidate's score — for all non-empty candidate lists (ties, −∞, singletons,
arbitrary ids included). -/
theorem c33_T1_argmax_maximal (l : List (Nat × Option Int)) (hne : l ≠ [])
    (hnan : ∀ c ∈ l, c.2 ≠ none) :
    ∃ k m, argMax l = some (k, some m) ∧ (k, some m) ∈ l ∧
      ∀ c ∈ l, ∀ w, c.2 = some w → w ≤ m := by
  cases l with
  | nil => exact absurd rfl hne
  | cons x xs =>
    cases hx : x.2 with
    | none => exact absurd hx (hnan x List.mem_cons_self)
    | some a =>
      obtain ⟨m, h1, h2, h3, h4⟩ := foldl_spec xs x a hx
      refine ⟨(xs.foldl reduceStep x).1, m, ?_, ?_, ?_⟩
      · simp only [argMax]; rw [← h1]
      · rw [← h1]
        rcases h3 with h3 | h3
        · rw [h3]; exact List.mem_cons_self
        · exact List.mem_cons_of_mem _ h3
      · intro c hc w hw
        rcases List.mem_cons.mp hc with rfl | hc
        · rw [hx] at hw; cases hw; exact h2
        · exact h4 c hc w hw

/-- **C33.T1 with NaN, exactly.**  If the *first* score is NaN the first candidate is
returned whatever the others are; otherwise NaNs are ignored: the result is a candidate with
a non-NaN score that is `≥` every non-NaN score. -/
theorem c33_T1_argmax_nan_characterised (x : Nat × Option Int) (xs : List (Nat × Option Int)) :
    (x.2 = none → argMax (x :: xs) = some x) ∧
    (∀ a, x.2 = some a → ∃ r m, argMax (x :: xs) = some r ∧ r ∈ x :: xs ∧ r.2 = some m ∧
        ∀ c ∈ x :: xs, ∀ w, c.2 = some w → w ≤ m) := by
  constructor
  · intro h; simp [argMax, foldl_nan_acc xs x h]
  · intro a hx
    obtain ⟨m, h1, h2, h3, h4⟩ := foldl_spec xs x a hx
    refine ⟨_, m, rfl, ?_, h1, ?_⟩
    · rcases h3 with h3 | h3
      · rw [h3]; exact List.mem_cons_self
      · exact List.mem_cons_of_mem _ h3
    · intro c hc w hw
      rcases List.mem_cons.mp hc with rfl | hc
      · rw [hx] at hw; cases hw; exact h2
      · exact h4 c hc w hw

/-- With a leading NaN the maximality statement is false: `[NaN, 3]` returns id 0. -/
theorem c33_T1_argmax_nan_false :
    ¬ ∀ (l : List (Nat × Option Int)) (r : Nat × Option Int), argMax l = some r →
        ∀ c ∈ l, ∀ w, c.2 = some w → ∃ m, r.2 = some m ∧ w ≤ m := by
  intro h
  have := h [(0, none), (1, some 3)] (0, none) (by decide) (1, some 3) (by decide) 3 rfl
  obtain ⟨m, hm, _⟩ := this
  cases hm

/-- Non-vacuity / ties: first maximum wins; −∞ (a very small score) never wins over a number;
sparse ids are passed through. -/
example : argMax [(7, some 1), (3, some 5), (9, some 5), (2, some (-1000))] = some (3, some 5) ∧
    argMax [(4, some (-1000)), (8, some (-1000))] = some (4, some (-1000)) ∧
    argMax [(5, some 2)] = some (5, some 2) ∧
    argMax [(0, some 1), (1, none), (2, some 4)] = some (2, some 4) := by decide

/-! ## T2 Multinomial -/

/-- **C33.T2 (current code)** For every draw `target ≥ 0`, every list of non-negative
probabilities with at least one positive entry, and every addition used for the running sum
that satisfies `add c 0 = c` (exact addition, IEEE round-to-nearest addition, …):
`Multinomial::sample` returns one of the candidates and its probability is `> 0`. -/
theorem c33_T2_sample_positive (add : Int → Int → Int) (hadd : ∀ c, add c 0 = c)
    (target : Int) (cands : List (Nat × Int)) (ht : 0 ≤ target)
    (hnn : ∀ c ∈ cands, 0 ≤ c.2) (hpos : ∃ c ∈ cands, 0 < c.2) :
    ∃ r, sample .fixed add target cands = some r ∧ r ∈ cands ∧ 0 < r.2 := by
  cases cands with
  | nil => obtain ⟨c, hc, _⟩ := hpos; simp at hc
  | cons c0 cs =>
    have hs := mnLoop_fixed_isSome add target (c0 :: cs) 0 none (Or.inr hpos)
    obtain ⟨r, hr⟩ := Option.isSome_iff_exists.mp hs
    have := mnLoop_fixed_pos add hadd target (c0 :: cs) (c0 :: cs) 0 none (fun _ h => h) hnn
      (by intro c hc; cases hc) ht r hr
    exact ⟨r, by simp [sample, multinomial, hr], this⟩

/-- **C33.T2 for the code as found (partial)**: exact arithmetic and `0 < target ≤ Σ probs`
— the two excluded regions are the negation witnesses below. -/
theorem c33_T2_legacy_partial (target : Int) (cands : List (Nat × Int))
    (ht : 0 < target) (hsum : target ≤ sumProbs cands) (hnn : ∀ c ∈ cands, 0 ≤ c.2) :
    ∃ r, sample .legacy (· + ·) target cands = some r ∧ r ∈ cands ∧ 0 < r.2 := by
  cases cands with
  | nil => simp [sumProbs] at hsum; omega
  | cons c0 cs =>
    have hs := mnLoop_legacy_isSome target (c0 :: cs) 0 none (by simpa using hsum) ht
    obtain ⟨r, hr⟩ := Option.isSome_iff_exists.mp hs
    have h := mnLoop_legacy_ne_zero (· + ·) (by simp) target (c0 :: cs) (c0 :: cs) 0 none
      (fun _ h => h) ht r hr
    have h0 := hnn r h.1
    exact ⟨r, by simp [sample, multinomial, hr], h.1, by have := h.2; omega⟩

/-- Code as found, any rounding addition with `add c 0 = c`: a candidate *returned by the
loop* for a draw `> 0` never has probability zero (the fallback is what goes wrong). -/
theorem c33_T2_legacy_loop_partial (add : Int → Int → Int) (hadd : ∀ c, add c 0 = c)
    (target : Int) (cands : List (Nat × Int)) (ht : 0 < target) (r : Nat × Int)
    (hr : multinomial .legacy add target cands = some r) : r ∈ cands ∧ r.2 ≠ 0 :=
  mnLoop_legacy_ne_zero add hadd target cands cands 0 none (fun _ h => h) ht r hr

/-- **Excluded region 1 (code as found)**: `target = 0` (`rng.f32()` returns `0.0` with
probability 2⁻²³) and a leading zero-probability candidate (e.g. logits `[-inf, 0]`):
the zero-probability candidate is returned. -/
theorem c33_T2_legacy_target_zero_false :
    ¬ ∀ (target : Int) (cands : List (Nat × Int)), 0 ≤ target → target ≤ sumProbs cands →
        (∀ c ∈ cands, 0 ≤ c.2) → ∀ r, sample .legacy (· + ·) target cands = some r → 0 < r.2 := by
  intro h
  have := h 0 [(0, 0), (1, 1)] (by decide) (by decide) (by decide) (0, 0) (by decide)
  revert this; decide

/-- **Excluded region 2 (code as found)**: the running sum ends below the draw — with exact
addition when `target > Σ probs`, with a rounding addition even when `target ≤ Σ probs`
(`add` below absorbs small terms once the sum has reached 2) — and `unwrap_or(0)` returns
the first candidate although its probability is zero. -/
theorem c33_T2_legacy_fallback_false :
    sample .legacy (· + ·) 2 [(0, 0), (1, 1)] = some (0, 0) ∧
    (let add : Int → Int → Int := fun c p => if 2 ≤ c then c else c + p
     (∀ c, add c 0 = c) ∧ (3 : Int) ≤ sumProbs [(0, 0), (1, 2), (2, 1)] ∧
     sample .legacy add 3 [(0, 0), (1, 2), (2, 1)] = some (0, 0)) := by
  refine ⟨by decide, ?_, by decide, by decide⟩
  intro c; by_cases h : 2 ≤ c <;> simp [h]

/-- The same inputs on the current code. -/
example :
    sample .fixed (· + ·) 0 [(0, 0), (1, 1)] = some (1, 1) ∧
    sample .fixed (· + ·) 2 [(0, 0), (1, 1)] = some (1, 1) ∧
    sample .fixed (fun c p => if 2 ≤ c then c else c + p) 3 [(0, 0), (1, 2), (2, 1)]
      = some (2, 1) := by decide

/-- Non-vacuity of `c33_T2_sample_positive` / `c33_T2_legacy_partial`: a sparse candidate
set with zero-probability entries (probabilities on the scale 1/8). -/
example : (0 : Int) ≤ 5 ∧ (5 : Int) ≤ sumProbs [(10, 0), (42, 3), (7, 0), (99, 5)] ∧
    (∀ c ∈ [((10 : Nat), (0 : Int)), (42, 3), (7, 0), (99, 5)], 0 ≤ c.2) ∧
    sample .fixed (· + ·) 5 [(10, 0), (42, 3), (7, 0), (99, 5)] = some (99, 5) ∧
    sample .legacy (· + ·) 3 [(10, 0), (42, 3), (7, 0), (99, 5)] = some (42, 3) := by decide

/-! ## T5 The cumulative-sum walk -/

/-- **C33.T5a** The walk of the current code, for every draw, probability list and addition:
it returns the first candidate whose cumulative sum exceeds the draw `r`, and — the
off-the-end case, when no cumulative sum exceeds `r` because rounding left the total `≤ r` —
the last candidate with probability `> 0` (`none`, i.e. index 0 after `unwrap_or`, only if
there is no such candidate). -/
theorem c33_T5_walk_characterised (add : Int → Int → Int) (r : Int) (cands : List (Nat × Int)) :
    multinomial .fixed add r cands =
      match firstExceed add r 0 cands with
      | some c => some c
      | none => lastPos cands := by
  simp only [multinomial, lastPos]
  exact mnLoop_fixed_eq add r cands 0 none

/-- **C33.T5b** "First index whose cumulative sum exceeds `r`": the candidate found splits the
list so that the running sum through it exceeds `r` and no shorter non-empty prefix's does;
nothing is found iff no prefix's running sum exceeds `r`. -/
theorem c33_T5_first_exceeding (add : Int → Int → Int) (r : Int) (cands : List (Nat × Int)) :
    (∀ c, firstExceed add r 0 cands = some c →
      ∃ pre post, cands = pre ++ c :: post ∧ r < runSum add 0 (pre ++ [c]) ∧
        ∀ n, 0 < n → n ≤ pre.length → ¬ r < runSum add 0 (pre.take n)) ∧
    (firstExceed add r 0 cands = none →
      ∀ n, 0 < n → n ≤ cands.length → ¬ r < runSum add 0 (cands.take n)) :=
  ⟨fun c h => firstExceed_some add r cands 0 c h, firstExceed_none add r cands 0⟩

/-- **C33.T5c** Off the end: the fallback is the *last* candidate with probability `> 0`
(everything after it has probability `≤ 0`), or nothing when no candidate is positive. -/
theorem c33_T5_off_the_end (cands : List (Nat × Int)) :
    (∃ pre c post, cands = pre ++ c :: post ∧ 0 < c.2 ∧ (∀ d ∈ post, ¬ 0 < d.2) ∧
        lastPos cands = some c) ∨
    ((∀ d ∈ cands, ¬ 0 < d.2) ∧ lastPos cands = none) :=
  lastPosFrom_spec cands none

/-- **C33.T5d** If the running total exceeds the draw (e.g. `r < 1 ≤` total) the walk never
falls off the end. -/
theorem c33_T5_no_fall_through (add : Int → Int → Int) (r : Int) (hr : 0 ≤ r)
    (cands : List (Nat × Int)) (h : r < runSum add 0 cands) :
    (firstExceed add r 0 cands).isSome = true := by
  cases hf : firstExceed add r 0 cands with
  | some c => rfl
  | none =>
    exfalso
    cases cands with
    | nil => simp [runSum] at h; omega
    | cons c cs =>
      have := firstExceed_none add r (c :: cs) 0 hf (c :: cs).length (by simp) (Nat.le_refl _)
      simp only [List.take_length] at this
      exact this h

/-- The two regions on concrete data (probabilities in 1/8): an interior draw stops at the
first exceeding index; with the absorbing addition of `c33_T2_legacy_fallback_false` the total
stays at 2 < 3 ≤ exact sum and the walk ends on the last positive candidate, skipping the
zero-probability tail. -/
example :
    multinomial .fixed (· + ·) 4 [(10, 0), (42, 3), (7, 0), (99, 5)] = some (99, 5) ∧
    firstExceed (· + ·) 2 0 [(10, 0), (42, 3), (7, 0), (99, 5)] = some (42, 3) ∧
    (let add : Int → Int → Int := fun c p => if 2 ≤ c then c else c + p
     firstExceed add 3 0 [(0, 0), (1, 2), (2, 1), (3, 0)] = none ∧
     lastPos [(0, 0), (1, 2), (2, 1), (3, 0)] = some (2, 1) ∧
     multinomial .fixed add 3 [(0, 0), (1, 2), (2, 1), (3, 0)] = some (2, 1)) := by decide

/-! ## T4 What is needed from softmax (order facts only) -/

/-- **C33.T4a** For ANY probability vector satisfying the checked softmax facts that are
needed here — non-negative, probability 0 for excluded (−∞) logits — and with some positive
entry, `Multinomial::sample` (current code, any draw `≥ 0`, any addition with `add c 0 = c`)
returns the id of a candidate whose logit is not excluded. -/
theorem c33_T4_sample_not_excluded (add : Int → Int → Int) (hadd : ∀ c, add c 0 = c)
    (r : Int) (hr : 0 ≤ r) (cs : List (Nat × Option Int × Int)) (one tol : Int)
    (hf : SoftmaxFacts cs one tol) (hpos : ∃ c ∈ cs, 0 < c.2.2) :
    ∃ c ∈ cs, sample .fixed add r (cs.map (fun c => (c.1, c.2.2))) = some (c.1, c.2.2) ∧
      0 < c.2.2 ∧ c.2.1 ≠ none := by
  have hnn : ∀ d ∈ cs.map (fun c => (c.1, c.2.2)), 0 ≤ d.2 := by
    intro d hd
    obtain ⟨c, hc, rfl⟩ := List.mem_map.mp hd
    exact hf.nonneg c hc
  have hp : ∃ d ∈ cs.map (fun c => (c.1, c.2.2)), 0 < d.2 := by
    obtain ⟨c, hc, h0⟩ := hpos
    exact ⟨(c.1, c.2.2), List.mem_map.mpr ⟨c, hc, rfl⟩, h0⟩
  obtain ⟨res, hres, hmem, h0⟩ := c33_T2_sample_positive add hadd r _ hr hnn hp
  obtain ⟨c, hc, rfl⟩ := List.mem_map.mp hmem
  refine ⟨c, hc, hres, h0, ?_⟩
  intro hnone
  have := hf.excluded c hc hnone
  simp only at h0
  omega

/-- **C33.T4b** Monotonicity is what links the two samplers: under the softmax facts, if
anything has positive probability then every candidate with a maximal (non-excluded) logit
has — so ArgMax's choice is always in Multinomial's support. -/
theorem c33_T4_max_logit_positive (cs : List (Nat × Option Int × Int)) (one tol : Int)
    (hf : SoftmaxFacts cs one tol) (hpos : ∃ c ∈ cs, 0 < c.2.2)
    (m : Nat × Option Int × Int) (hm : m ∈ cs) (b : Int) (hb : m.2.1 = some b)
    (hmax : ∀ c ∈ cs, ∀ a, c.2.1 = some a → a ≤ b) : 0 < m.2.2 := by
  obtain ⟨c, hc, h0⟩ := hpos
  cases ha : c.2.1 with
  | none => have := hf.excluded c hc ha; omega
  | some a =>
    have := hf.mono c hc m hm a b ha hb (hmax c hc a ha)
    omega

/-- Non-vacuity: a concrete vector (scale 8 = probability 1, tolerance 1) meeting the facts. -/
example : SoftmaxFacts [(10, none, 0), (42, some 3, 3), (7, some (-5), 0), (99, some 4, 5)] 8 1 := by
  constructor
  · decide
  · decide
  · decide
  · intro c hc d hd a b ha hb hab
    simp only [List.mem_cons, List.not_mem_nil, or_false] at hc hd
    rcases hc with rfl | rfl | rfl | rfl <;> rcases hd with rfl | rfl | rfl | rfl <;>
      simp_all <;> omega

/-! ## T3 Same seed, same sequence -/

/-- **C33.T3** Under the hypothesis that softmax overwrites its destination without reading
it (`hdst`; the harness checks it on the real routine with a poisoned buffer, and poisons the
sampler's own scratch buffer), a sampler is a function of its RNG state only: the sequence of
sampled candidates for a sequence of inputs does not depend on what an earlier use left in
the scratch buffer.  Two samplers created with the same seed (whatever their buffers hold)
therefore produce the same sequence on the same inputs. -/
theorem c33_T3_same_seed_same_sequence {σ L : Type} (r : Rule) (add : Int → Int → Int)
    (next : σ → Int × σ) (probsOf : List Int → L → List (Nat × Int))
    (hdst : ∀ sc l, probsOf sc l = probsOf [] l) (seed : σ) (sc₁ sc₂ : List Int)
    (inputs : List L) :
    sampleSeq r add next probsOf ⟨seed, sc₁⟩ inputs = sampleSeq r add next probsOf ⟨seed, sc₂⟩ inputs := by
  induction inputs generalizing sc₁ sc₂ seed with
  | nil => rfl
  | cons l ls ih =>
    simp only [sampleSeq, sampleStep]
    rw [hdst sc₁ l, hdst sc₂ l]
    cases h : probsOf [] l with
    | nil => simp only [List.cons.injEq, true_and]; exact ih seed sc₁ sc₂
    | cons c cs => rfl

/-- **The hypothesis is needed**: a "softmax" that lets stale destination contents leak
through (here: it reuses the previous probabilities when the buffer is non-empty) makes two
samplers with the same seed disagree. -/
theorem c33_T3_stale_destination_false :
    ¬ ∀ (probsOf : List Int → List (Nat × Int) → List (Nat × Int)) (sc₁ sc₂ : List Int)
        (inputs : List (List (Nat × Int))),
        sampleSeq .fixed (· + ·) (fun (s : Nat) => ((s : Int), s + 1)) probsOf ⟨1, sc₁⟩ inputs =
        sampleSeq .fixed (· + ·) (fun (s : Nat) => ((s : Int), s + 1)) probsOf ⟨1, sc₂⟩ inputs := by
  intro h
  have := h (fun sc l => if sc.isEmpty then l else (l.zip sc).map (fun x => (x.1.1, x.2)))
    [] [4, 0] [[(5, 1), (6, 3)]]
  revert this; decide

/-- The RNG advances once per non-empty input and not at all when the assertion fires. -/
example : sampleSeq .fixed (· + ·) (fun (s : Nat) => ((s : Int) % 4, s + 1))
    (fun _ (l : List (Nat × Int)) => l) ⟨0, []⟩
    [[(5, 1), (6, 3)], [], [(5, 1), (6, 3)], [(5, 1), (6, 3)]] =
    [some (5, 1), none, some (6, 3), some (6, 3)] := by decide

/-! ## Falling off the end happens only in the rounding gap -/

/-- **C33.T5e** With exact addition the walk falls off the end only if the draw is at least
the sum of the probabilities; under the softmax facts that is a draw within `tol` of 1.  (With
f32 addition the gap is the one between the rounded running total and 1.) -/
theorem c33_T5_off_the_end_only_in_gap (r : Int) (cs : List (Nat × Option Int × Int))
    (one tol : Int) (hf : SoftmaxFacts cs one tol) (hne : cs ≠ [])
    (hend : firstExceed (· + ·) r 0 (cs.map (fun c => (c.1, c.2.2))) = none) :
    one - tol ≤ r := by
  have hlen : 0 < (cs.map (fun c => (c.1, c.2.2))).length := by
    cases cs with
    | nil => exact absurd rfl hne
    | cons c cs => simp
  have := firstExceed_none (· + ·) r _ 0 hend _ hlen (Nat.le_refl _)
  rw [List.take_length, runSum_exact] at this
  have h1 := hf.sum.1
  omega

end RtenVerif.Sampler
