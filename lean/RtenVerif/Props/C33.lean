import RtenVerif.Lemmas.Sampler

/-!
# C33 — Samplers choose only valid candidates

Property theorems over `RtenVerif.Model.Sampler` (model of `rten-generate/src/sampler.rs`).
Candidates are `(token id, score)` / `(token id, probability)` pairs in the order of
`Logits::enumerate()`; ids are arbitrary (sparse or dense logits alike).

`Rule.fixed` is the `multinomial` loop after the C33 fix (see `findings/C33.json`),
`Rule.legacy` the loop as found, for which the property is false in two regions
(`c33_T2_legacy_target_zero_false`, `c33_T2_legacy_fallback_false`).
-/
namespace RtenVerif.Sampler

/-! ## T1 ArgMax -/

/-- `ArgMax::sample` panics exactly on empty logits. -/
theorem c33_T1_argmax_total (l : List (Nat × Option Int)) : argMax l = none ↔ l = [] := by
  cases l <;> simp [argMax]

/-- **C33.T1** NaN-free scores: the returned pair is one of the candidates and its score is
`≥` every candidate's score — for all non-empty candidate lists (ties, −∞, singletons,
arbitrary ids included). -/
theorem c33_T1_argmax_maximal (l : List (Nat × Option Int)) (hne : l ≠ [])
    (hnan : ∀ c ∈ l, c.2 ≠ none) :
    ∃ k m, argMax l = some (k, some m) ∧ (k, some m) ∈ l ∧
      ∀ c ∈ l, ∀ w, c.2 = some w → w ≤ m := by
  cases l with
  | nil => exact absurd rfl hne
  | cons x xs =>
    cases hx : x.2 with
    | none => exact absurd hx (hnan x List.mem_cons_self)
    | some a =>
      obtain ⟨m, h1, h2, h3, h4⟩ := foldl_spec xs x a hx
      refine ⟨(xs.foldl reduceStep x).1, m, ?_, ?_, ?_⟩
      · simp only [argMax]; rw [← h1]
      · rw [← h1]
        rcases h3 with h3 | h3
        · rw [h3]; exact List.mem_cons_self
        · exact List.mem_cons_of_mem _ h3
      · intro c hc w hw
        rcases List.mem_cons.mp hc with rfl | hc
        · rw [hx] at hw; cases hw; exact h2
        · exact h4 c hc w hw

/-- **C33.T1 with NaN, exactly.**  If the *first* score is NaN the first candidate is
returned whatever the others are; otherwise NaNs are ignored: the result is a candidate with
a non-NaN score that is `≥` every non-NaN score. -/
theorem c33_T1_argmax_nan_characterised (x : Nat × Option Int) (xs : List (Nat × Option Int)) :
    (x.2 = none → argMax (x :: xs) = some x) ∧
    (∀ a, x.2 = some a → ∃ r m, argMax (x :: xs) = some r ∧ r ∈ x :: xs ∧ r.2 = some m ∧
        ∀ c ∈ x :: xs, ∀ w, c.2 = some w → w ≤ m) := by
  constructor
  · intro h; simp [argMax, foldl_nan_acc xs x h]
  · intro a hx
    obtain ⟨m, h1, h2, h3, h4⟩ := foldl_spec xs x a hx
    refine ⟨_, m, rfl, ?_, h1, ?_⟩
    · rcases h3 with h3 | h3
      · rw [h3]; exact List.mem_cons_self
      · exact List.mem_cons_of_mem _ h3
    · intro c hc w hw
      rcases List.mem_cons.mp hc with rfl | hc
      · rw [hx] at hw; cases hw; exact h2
      · exact h4 c hc w hw

/-- With a leading NaN the maximality statement is false: `[NaN, 3]` returns id 0. -/
theorem c33_T1_argmax_nan_false :
    ¬ ∀ (l : List (Nat × Option Int)) (r : Nat × Option Int), argMax l = some r →
        ∀ c ∈ l, ∀ w, c.2 = some w → ∃ m, r.2 = some m ∧ w ≤ m := by
  intro h
  have := h [(0, none), (1, some 3)] (0, none) (by decide) (1, some 3) (by decide) 3 rfl
  obtain ⟨m, hm, _⟩ := this
  cases hm

/-- Non-vacuity / ties: first maximum wins; −∞ (a very small score) never wins over a number;
sparse ids are passed through. -/
example : argMax [(7, some 1), (3, some 5), (9, some 5), (2, some (-1000))] = some (3, some 5) ∧
    argMax [(4, some (-1000)), (8, some (-1000))] = some (4, some (-1000)) ∧
    argMax [(5, some 2)] = some (5, some 2) ∧
    argMax [(0, some 1), (1, none), (2, some 4)] = some (2, some 4) := by decide

/-! ## T2 Multinomial -/

/-- **C33.T2 (current code)** For every draw `target ≥ 0`, every list of non-negative
probabilities with at least one positive entry, and every addition used for the running sum
that satisfies `add c 0 = c` (exact addition, IEEE round-to-nearest addition, …):
`Multinomial::sample` returns one of the candidates and its probability is `> 0`. -/
theorem c33_T2_sample_positive (add : Int → Int → Int) (hadd : ∀ c, add c 0 = c)
    (target : Int) (cands : List (Nat × Int)) (ht : 0 ≤ target)
    (hnn : ∀ c ∈ cands, 0 ≤ c.2) (hpos : ∃ c ∈ cands, 0 < c.2) :
    ∃ r, sample .fixed add target cands = some r ∧ r ∈ cands ∧ 0 < r.2 := by
  cases cands with
  | nil => obtain ⟨c, hc, _⟩ := hpos; simp at hc
  | cons c0 cs =>
    have hs := mnLoop_fixed_isSome add target (c0 :: cs) 0 none (Or.inr hpos)
    obtain ⟨r, hr⟩ := Option.isSome_iff_exists.mp hs
    have := mnLoop_fixed_pos add hadd target (c0 :: cs) (c0 :: cs) 0 none (fun _ h => h) hnn
      (by intro c hc; cases hc) ht r hr
    exact ⟨r, by simp [sample, multinomial, hr], this⟩

/-- **C33.T2 for the code as found (partial)**: exact arithmetic and `0 < target ≤ Σ probs`
— the two excluded regions are the negation witnesses below. -/
theorem c33_T2_legacy_partial (target : Int) (cands : List (Nat × Int))
    (ht : 0 < target) (hsum : target ≤ sumProbs cands) (hnn : ∀ c ∈ cands, 0 ≤ c.2) :
    ∃ r, sample .legacy (· + ·) target cands = some r ∧ r ∈ cands ∧ 0 < r.2 := by
  cases cands with
  | nil => simp [sumProbs] at hsum; omega
  | cons c0 cs =>
    have hs := mnLoop_legacy_isSome target (c0 :: cs) 0 none (by simpa using hsum) ht
    obtain ⟨r, hr⟩ := Option.isSome_iff_exists.mp hs
    have h := mnLoop_legacy_ne_zero (· + ·) (by simp) target (c0 :: cs) (c0 :: cs) 0 none
      (fun _ h => h) ht r hr
    have h0 := hnn r h.1
    exact ⟨r, by simp [sample, multinomial, hr], h.1, by have := h.2; omega⟩

/-- Code as found, any rounding addition with `add c 0 = c`: a candidate *returned by the
loop* for a draw `> 0` never has probability zero (the fallback is what goes wrong). -/
theorem c33_T2_legacy_loop_partial (add : Int → Int → Int) (hadd : ∀ c, add c 0 = c)
    (target : Int) (cands : List (Nat × Int)) (ht : 0 < target) (r : Nat × Int)
    (hr : multinomial .legacy add target cands = some r) : r ∈ cands ∧ r.2 ≠ 0 :=
  mnLoop_legacy_ne_zero add hadd target cands cands 0 none (fun _ h => h) ht r hr

/-- **Excluded region 1 (code as found)**: `target = 0` (`rng.f32()` returns `0.0` with
probability 2⁻²³) and a leading zero-probability candidate (e.g. logits `[-inf, 0]`):
the zero-probability candidate is returned. -/
theorem c33_T2_legacy_target_zero_false :
    ¬ ∀ (target : Int) (cands : List (Nat × Int)), 0 ≤ target → target ≤ sumProbs cands →
        (∀ c ∈ cands, 0 ≤ c.2) → ∀ r, sample .legacy (· + ·) target cands = some r → 0 < r.2 := by
  intro h
  have := h 0 [(0, 0), (1, 1)] (by decide) (by decide) (by decide) (0, 0) (by decide)
  revert this; decide

/-- **Excluded region 2 (code as found)**: the running sum ends below the draw — with exact
addition when `target > Σ probs`, with a rounding addition even when `target ≤ Σ probs`
(`add` below absorbs small terms once the sum has reached 2) — and `unwrap_or(0)` returns
the first candidate although its probability is zero. -/
theorem c33_T2_legacy_fallback_false :
    sample .legacy (· + ·) 2 [(0, 0), (1, 1)] = some (0, 0) ∧
    (let add : Int → Int → Int := fun c p => if 2 ≤ c then c else c + p
     (∀ c, add c 0 = c) ∧ (3 : Int) ≤ sumProbs [(0, 0), (1, 2), (2, 1)] ∧
     sample .legacy add 3 [(0, 0), (1, 2), (2, 1)] = some (0, 0)) := by
  refine ⟨by decide, ?_, by decide, by decide⟩
  intro c; by_cases h : 2 ≤ c <;> simp [h]

/-- The same inputs on the current code. -/
example :
    sample .fixed (· + ·) 0 [(0, 0), (1, 1)] = some (1, 1) ∧
    sample .fixed (· + ·) 2 [(0, 0), (1, 1)] = some (1, 1) ∧
    sample .fixed (fun c p => if 2 ≤ c then c else c + p) 3 [(0, 0), (1, 2), (2, 1)]
      = some (2, 1) := by decide

/-- Non-vacuity of `c33_T2_sample_positive` / `c33_T2_legacy_partial`: a sparse candidate
set with zero-probability entries (probabilities on the scale 1/8). -/
example : (0 : Int) ≤ 5 ∧ (5 : Int) ≤ sumProbs [(10, 0), (42, 3), (7, 0), (99, 5)] ∧
    (∀ c ∈ [((10 : Nat), (0 : Int)), (42, 3), (7, 0), (99, 5)], 0 ≤ c.2) ∧
    sample .fixed (· + ·) 5 [(10, 0), (42, 3), (7, 0), (99, 5)] = some (99, 5) ∧
    sample .legacy (· + ·) 3 [(10, 0), (42, 3), (7, 0), (99, 5)] = some (42, 3) := by decide

/-! ## T3 Same seed, same sequence -/

/-- **C33.T3** A sampler is a state-passing function of its RNG state only: the sequence of
sampled candidates for a sequence of inputs does not depend on what an earlier use left in
the scratch buffer.  (Equal seeds and equal inputs giving equal sequences is then just
function application: `sampleSeq` has no other argument.) -/
theorem c33_T3_same_seed_same_sequence {σ L : Type} (r : Rule) (add : Int → Int → Int)
    (next : σ → Int × σ) (probsOf : L → List (Nat × Int)) (seed : σ) (sc₁ sc₂ : List Int)
    (inputs : List L) :
    sampleSeq r add next probsOf ⟨seed, sc₁⟩ inputs = sampleSeq r add next probsOf ⟨seed, sc₂⟩ inputs := by
  induction inputs generalizing sc₁ sc₂ with
  | nil => rfl
  | cons l ls ih =>
    simp only [sampleSeq, sampleStep]
    cases h : probsOf l with
    | nil => simp only [List.cons.injEq, true_and]; exact ih sc₁ sc₂
    | cons c cs => rfl

/-- The RNG advances once per non-empty input and not at all when the assertion fires. -/
example : sampleSeq .fixed (· + ·) (fun (s : Nat) => ((s : Int) % 4, s + 1))
    (fun (l : List (Nat × Int)) => l) ⟨0, []⟩
    [[(5, 1), (6, 3)], [], [(5, 1), (6, 3)], [(5, 1), (6, 3)]] =
    [some (5, 1), none, some (6, 3), some (6, 3)] := by decide

end RtenVerif.Sampler
