import RtenVerif.Props.C35Bounded6Defs

/-! C35.S3 bounded scope, chunk `i`: smallest code in `2..2`, second smallest in `4..15`
(kernel evaluation; bounded statement). -/
namespace RtenVerif.Poly

theorem c35_chunk6_i : chunkOk 2 2 4 15 = true := by decide +kernel

end RtenVerif.Poly
