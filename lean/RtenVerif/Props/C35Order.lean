import RtenVerif.Props.C35
import RtenVerif.Lemmas.PolyOrder

/-!
# C35 — consequences of the angular order: the hull has no repeated point
-/
namespace RtenVerif.Poly

/-- **C35.T2i** `convex_hull` never returns a point twice — for every input (duplicates,
collinear points, any coordinates).  The sorted list is sorted by a total transitive
antisymmetric order on the input points (`exactLe_trans`, `exactLe_antisymm`), `dedup` removes
all repetitions from it, and the scan returns a subsequence. -/
theorem c35_hullExact_nodup (pts : List Pt) : (hullExact pts).Nodup := by
  unfold hullExact
  cases hm : minPoint pts with
  | none => exact List.nodup_nil
  | some m =>
    simp only
    obtain ⟨_, hmin⟩ := c35_minPoint_spec pts m hm
    have hS : ∀ y ∈ isort (exactLe m) pts, InS m y := fun y hy =>
      inS_of_minLt (hmin y ((mem_isort _ y pts).mp hy))
    have hsorted := isort_sorted (exactLe m) (InS m) (exactLe_total m)
      (fun a b c ha hb hc => exactLe_trans ha hb hc) pts
      (fun y hy => inS_of_minLt (hmin y hy))
    have hnd := dedupKey_nodup (exactLe m) (InS m)
      (fun a b ha hb => exactLe_antisymm ha hb) _ hS hsorted
    have hsub := c35_hull_sublist_sorted id (exactLe m) pts
    rw [List.map_id] at hsub
    exact hnd.sublist hsub

/-- The sorted point list of `convex_hull` is sorted by angle around the pivot (ties by
distance): the precondition of the Graham scan, proved for every input. -/
theorem c35_sorted_by_angle (pts : List Pt) (m : Pt) (hm : minPoint pts = some m) :
    (isort (exactLe m) pts).Pairwise (fun a b => exactLe m a b = true) := by
  obtain ⟨_, hmin⟩ := c35_minPoint_spec pts m hm
  exact isort_sorted (exactLe m) (InS m) (exactLe_total m)
    (fun a b c ha hb hc => exactLe_trans ha hb hc) pts (fun y hy => inS_of_minLt (hmin y hy))

example : (hullExact [(0, 0), (2, 0), (2, 0), (1, 0), (0, 0), (1, 1), (1, 1)]).Nodup ∧
    hullExact [(0, 0), (2, 0), (2, 0), (1, 0), (0, 0), (1, 1), (1, 1)] = [(1, 1), (0, 0), (2, 0)] := by
  decide

end RtenVerif.Poly
