import RtenVerif.Props.C35
import RtenVerif.Lemmas.PolyOrder

/-!
# C35 — consequences of the angular order: the hull has no repeated point
-/
namespace RtenVerif.Poly

/-- **C35.T2i** `convex_hull` never returns a point twice — for every input (duplicates,
collinear points, any coordinates).  The sorted list is sorted by a total transitive
antisymmetric order on the input points (`exactLe_trans`, `exactLe_antisymm`), `dedup` removes
all repetitions from it, and the scan returns a subsequence. -/
theorem c35_hullExact_nodup (pts : List Pt) : (hullExact pts).Nodup := by
  unfold hullExact
  cases hm : minPoint pts with
  | none => exact List.nodup_nil
  | some m =>
    simp only
    obtain ⟨_, hmin⟩ := c35_minPoint_spec pts m hm
    have hS : ∀ y ∈ isort (exactLe m) pts, InS m y := fun y hy =>
      inS_of_minLt (hmin y ((mem_isort _ y pts).mp hy))
    have hsorted := isort_sorted (exactLe m) (InS m) (exactLe_total m)
      (fun a b c ha hb hc => exactLe_trans ha hb hc) pts
      (fun y hy => inS_of_minLt (hmin y hy))
    have hnd := dedupKey_nodup (exactLe m) (InS m)
      (fun a b ha hb => exactLe_antisymm ha hb) _ hS hsorted
    have hsub := c35_hull_sublist_sorted id (exactLe m) pts
    rw [List.map_id] at hsub
    exact hnd.sublist hsub

/-- The sorted point list of `convex_hull` is sorted by angle around the pivot (ties by
distance): the precondition of the Graham scan, proved for every input. -/
theorem c35_sorted_by_angle (pts : List Pt) (m : Pt) (hm : minPoint pts = some m) :
    (isort (exactLe m) pts).Pairwise (fun a b => exactLe m a b = true) := by
  obtain ⟨_, hmin⟩ := c35_minPoint_spec pts m hm
  exact isort_sorted (exactLe m) (InS m) (exactLe_total m)
    (fun a b c ha hb hc => exactLe_trans ha hb hc) pts (fun y hy => inS_of_minLt (hmin y hy))

example : (hullExact [(0, 0), (2, 0), (2, 0), (1, 0), (0, 0), (1, 1), (1, 1)]).Nodup ∧
    hullExact [(0, 0), (2, 0), (2, 0), (1, 0), (0, 0), (1, 1), (1, 1)] = [(1, 1), (0, 0), (2, 0)] := by
  decide

/-! ## The code's key order (`sort_key`, fix 3c15d64) -/

/-- **C35.T2j** The hull computed with the code's key order — slope key `dx / (0 − dy)` compared
exactly, `dy = 0 ↦ +∞`, ties by squared distance, pivot first — is the hull computed with the
orientation form of that order, for every input.  (The two comparators agree on every pair of
input points because all input points other than the pivot lie in the half-plane below it;
`keyLe_eq_exactLe`.)  Everything proved or kernel-checked for `hullExact` therefore holds for
the model `hullKey` that the driver runs against the code.  The `f64` side (assumption A-f64 in
`Model/Poly.lean`) is not proved. -/
theorem hullKey_eq_hullExact (pts : List Pt) : hullKey pts = hullExact pts := by
  unfold hullKey hullExact
  cases hm : minPoint pts with
  | none => rfl
  | some m =>
    simp only [hullWith]
    obtain ⟨_, hmin⟩ := c35_minPoint_spec pts m hm
    rw [isort_congr (keyLe m) (exactLe m) pts
      (fun x hx y hy => keyLe_eq_exactLe (inS_of_minLt (hmin x hx)) (inS_of_minLt (hmin y hy)))]

/-- **C35.T2k** The results for the code's order: the hull of `hullKey` never repeats a point,
starts at the `min_by` point, uses only input points, and consecutive triples turn strictly
left. -/
theorem c35_hullKey_spec (pts : List Pt) :
    (hullKey pts).Nodup ∧
    (∀ m, minPoint pts = some m → (hullKey pts).head? = some m) ∧
    (∀ q ∈ hullKey pts, q ∈ pts) ∧
    (∀ pre post a b c, hullKey pts = pre ++ a :: b :: c :: post → cross a b c > 0) := by
  rw [hullKey_eq_hullExact]
  exact ⟨c35_hullExact_nodup pts, fun m hm => c35_hullExact_starts_min pts m hm,
    (c35_hullExact_subset_turns pts).1, (c35_hullExact_subset_turns pts).2⟩

/-- The sorted list of the code's key order is sorted by angle (ties by distance). -/
theorem c35_sorted_by_key (pts : List Pt) (m : Pt) (hm : minPoint pts = some m) :
    (isort (keyLe m) pts).Pairwise (fun a b => keyLe m a b = true) := by
  obtain ⟨_, hmin⟩ := c35_minPoint_spec pts m hm
  have hS : ∀ y ∈ pts, InS m y := fun y hy => inS_of_minLt (hmin y hy)
  rw [isort_congr (keyLe m) (exactLe m) pts (fun x hx y hy => keyLe_eq_exactLe (hS x hx) (hS y hy))]
  refine (c35_sorted_by_angle pts m hm).imp_of_mem ?_
  intro a b ha hb hab
  rw [keyLe_eq_exactLe (hS a ((mem_isort _ a pts).mp ha)) (hS b ((mem_isort _ b pts).mp hb))]
  exact hab

/-- The key order differs from the orientation form outside the half-plane (so the restriction
to input points in `keyLe_eq_exactLe` is needed), and agrees on a concrete input. -/
example : keyLe (0, 0) (-1, 0) (0, -1) ≠ exactLe (0, 0) (-1, 0) (0, -1) := by decide
example : hullKey [(0, 0), (2, 0), (4, 0), (4, 4), (0, 4), (2, 2), (4, 4), (2, 4)] =
    [(0, 4), (0, 0), (4, 0), (4, 4)] := by decide

end RtenVerif.Poly
