import RtenVerif.Props.C35

/-!
# C35.S3 — containment and convexity of the hull, bounded scope

The general theorem "every input point lies inside the hull, which is convex" (Graham-scan
correctness) is not proved.  This file states it as the decidable check `hullContainsCheck`
(all input points on or left of every hull edge including the closing edge) and evaluates it
in the kernel on a complete finite scope.  **Bounded statement.**
-/
namespace RtenVerif.Poly

/-- **C35.S3 (bounded)** For every list of at most 3 points of the 3×3 integer grid (all
1 + 9 + 81 + 729 lists; duplicates and collinear triples included) the hull computed by the
model of `convex_hull` contains all input points and is convex. -/
theorem c35_hull_contains_bounded :
    ∀ len : Fin 4, ∀ hi : Fin 9, ∀ lo : Fin 81,
      hullContainsCheck (gridPts len.1 (hi.1 * 81 + lo.1)) = true := by
  decide +kernel

end RtenVerif.Poly
