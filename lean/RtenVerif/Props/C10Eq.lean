import RtenVerif.Props.C10Zip

/-! # C10 — `Equal` folding to 1 and vector-level `Where` -/
namespace RtenVerif.ShapeInfer

/-- `PartialEq for SymExpr` (names for variables, commutative operators modulo swapping) implies
equal evaluation under every assignment. -/
theorem eval_beq (σ : Env) : ∀ (a b : Sym), a.beq b = true → a.eval σ = b.eval σ := by
  intro a
  induction a with
  | val n => intro b h; cases b <;> simp_all [Sym.beq, Sym.eval]
  | var x p => intro b h; cases b <;> simp_all [Sym.beq, Sym.eval]
  | neg a ih => intro b h; cases b <;> simp_all [Sym.beq, Sym.eval]; rw [ih _ h]
  | add a1 a2 ih1 ih2 =>
    intro b h
    cases b <;> simp [Sym.beq] at h
    rename_i c d
    rcases h with ⟨h1, h2⟩ | ⟨h1, h2⟩
    · simp [Sym.eval, ih1 _ h1, ih2 _ h2]
    · simp only [Sym.eval, ih1 _ h1, ih2 _ h2]
      cases c.eval σ <;> cases d.eval σ <;> simp [Int.add_comm]
  | mul a1 a2 ih1 ih2 =>
    intro b h
    cases b <;> simp [Sym.beq] at h
    rename_i c d
    rcases h with ⟨h1, h2⟩ | ⟨h1, h2⟩
    · simp [Sym.eval, ih1 _ h1, ih2 _ h2]
    · simp only [Sym.eval, ih1 _ h1, ih2 _ h2]
      cases c.eval σ <;> cases d.eval σ <;> simp [Int.mul_comm]
  | max a1 a2 ih1 ih2 =>
    intro b h
    cases b <;> simp [Sym.beq] at h
    rename_i c d
    rcases h with ⟨h1, h2⟩ | ⟨h1, h2⟩
    · simp [Sym.eval, ih1 _ h1, ih2 _ h2]
    · simp only [Sym.eval, ih1 _ h1, ih2 _ h2]
      cases c.eval σ <;> cases d.eval σ <;> simp [Int.max_comm]
  | min a1 a2 ih1 ih2 =>
    intro b h
    cases b <;> simp [Sym.beq] at h
    rename_i c d
    rcases h with ⟨h1, h2⟩ | ⟨h1, h2⟩
    · simp [Sym.eval, ih1 _ h1, ih2 _ h2]
    · simp only [Sym.eval, ih1 _ h1, ih2 _ h2]
      cases c.eval σ <;> cases d.eval σ <;> simp [Int.min_comm]
  | bcast a1 a2 ih1 ih2 =>
    intro b h
    cases b <;> simp [Sym.beq] at h
    rename_i c d
    rcases h with ⟨h1, h2⟩ | ⟨h1, h2⟩
    · simp [Sym.eval, ih1 _ h1, ih2 _ h2]
    · simp only [Sym.eval, ih1 _ h1, ih2 _ h2]
      cases c.eval σ <;> cases d.eval σ <;> simp [bcastI]
      rename_i x y
      by_cases hx : x = 1 <;> by_cases hy : y = 1 <;> simp [hx, hy, Int.max_comm]
  | sub a1 a2 ih1 ih2 =>
    intro b h
    cases b <;> simp [Sym.beq] at h
    simp [Sym.eval, ih1 _ h.1, ih2 _ h.2]
  | div a1 a2 ih1 ih2 =>
    intro b h
    cases b <;> simp [Sym.beq] at h
    simp [Sym.eval, ih1 _ h.1, ih2 _ h.2]
  | divCeil a1 a2 ih1 ih2 =>
    intro b h
    cases b <;> simp [Sym.beq] at h
    simp [Sym.eval, ih1 _ h.1, ih2 _ h.2]

/-- **C10.T1-equal (1 branch)**: when `Equal` folds to the constant 1 the operands evaluate to the
same number under every assignment (no hypothesis on `range`). -/
theorem c10_equal_one_sound (σ : Env) (x y : Sym) (vx vy : Int)
    (hx : x.eval σ = some vx) (hy : y.eval σ = some vy) (hi : eqOp x y = some (.val 1)) : vx = vy := by
  unfold eqOp at hi
  by_cases hb : x.beq y = true
  · have := eval_beq σ x y hb
    rw [hx, hy] at this
    exact Option.some.inj this
  · simp only [hb, Bool.false_eq_true, if_false] at hi
    split at hi <;> simp at hi

/-- `Equal`'s element rule is a homomorphism for the executed comparison (1 if equal else 0) on
operands whose `range()` is sound.  (`RangeSound` is not universally true — `rangeSound_not_universal`
— so it is a predicate on the inspected operands, discharged by `rangeSound_of_good`.) -/
theorem c10_equal_homOn (σ : Env) :
    OpHomOn σ (RangeSound σ) eqOp (fun a b => some (if a = b then 1 else 0)) := by
  intro x y r vx vy w hrx hry ho hx hy hf
  cases hf
  unfold eqOp at ho
  by_cases hb : x.beq y = true
  · simp only [hb, if_true] at ho; cases ho
    have := eval_beq σ x y hb
    rw [hx, hy] at this
    simp [Sym.eval, Option.some.inj this]
  · simp only [hb, Bool.false_eq_true, if_false] at ho
    by_cases hc : (x.range.2 < y.range.1 || y.range.2 < x.range.1) = true
    · simp only [hc, if_true] at ho; cases ho
      have h1 := hrx vx hx
      have h2 := hry vy hy
      simp only [Bool.or_eq_true, decide_eq_true_eq] at hc
      have : vx ≠ vy := by omega
      simp [Sym.eval, this]
    · simp [hc] at ho

/-- The same on operands that stay inside `i32` (`good`), with no hypothesis about `range`. -/
theorem c10_equal_hom_good (σ : Env) :
    OpHomOn σ (fun e => good σ e = true) eqOp (fun a b => some (if a = b then 1 else 0)) :=
  fun x y r vx vy w hx hy => c10_equal_homOn σ x y r vx vy w (rangeSound_of_good σ x hx) (rangeSound_of_good σ y hy)

end RtenVerif.ShapeInfer
