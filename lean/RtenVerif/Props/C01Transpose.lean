import RtenVerif.Props.C01Sem

/-!
# C01 — T2 for TransposeFusion, 2-D `perm = [1,0]` into MatMul, over the tensor semantics

`msem F` extends `tsem F` (same `Ten` values, same `Scalars`) with `Transpose` (2-D), `MatMul` (2-D) and
the fused form `matmulTB` = `TransformInputs(MatMul){1:1.0}`: MatMul that reads its second operand
through the permuted view (`B[j,l]` where MatMul reads `Bᵀ[l,j]`). Data is row-major.
`hsem_transpose_matmul`: for 2-D operands `MatMul(A, Transpose(B))` and the fused form have the same
result — shape and every entry — or both fail (inner dimensions differ).
-/
namespace RtenVerif.Optimize.TSem
open RtenVerif.Optimize

variable {α : Type}

def build2 (m n : Nat) (f : Nat → Nat → α) : List α :=
  (List.range m).flatMap fun i => (List.range n).map fun j => f i j

def at2 (d : α) (t : Ten α) (cols i j : Nat) : α := t.data.getD (i * cols + j) d

def sumK (F : Scalars α) (f : Nat → α) : Nat → α
  | 0 => F.zero
  | k + 1 => F.add (sumK F f k) (f k)

def transpose2 (F : Scalars α) (t : Ten α) : Option (Ten α) :=
  match t.shape with
  | [r, c] => some ⟨[c, r], build2 c r fun i j => at2 F.zero t c j i⟩
  | _ => none

def matmul2 (F : Scalars α) (a b : Ten α) : Option (Ten α) :=
  match a.shape, b.shape with
  | [m, k], [k2, n] =>
    if k = k2 then some ⟨[m, n], build2 m n fun i j => sumK F (fun l => F.mul (at2 F.zero a k i l) (at2 F.zero b n l j)) k⟩
    else none
  | _, _ => none

/-- MatMul with the second operand read through the transposed view -/
def matmulTB2 (F : Scalars α) (a b : Ten α) : Option (Ten α) :=
  match a.shape, b.shape with
  | [m, k], [n, k2] =>
    if k = k2 then some ⟨[m, n], build2 m n fun i j => sumK F (fun l => F.mul (at2 F.zero a k i l) (at2 F.zero b k j l)) k⟩
    else none
  | _, _ => none

inductive MK (α : Type) where
  | base (k : FK α)
  | transpose | matmul | matmulTB

def msem (F : Scalars α) : Sem (MK α) (Ten α) where
  app
    | .base k, vs => (tsem F).app k vs
    | .transpose, [b] => (transpose2 F b).map ([·])
    | .matmul, [a, b] => (matmul2 F a b).map ([·])
    | .matmulTB, [a, b] => (matmulTB2 F a b).map ([·])
    | _, _ => none

theorem build2_length (m n : Nat) (f : Nat → Nat → α) : (build2 m n f).length = m * n := by
  induction m with
  | zero => simp [build2]
  | succ m ih =>
    have : build2 (m + 1) n f = build2 m n f ++ (List.range n).map (fun j => f m j) := by
      simp [build2, List.range_succ, List.flatMap_append]
    rw [this, List.length_append, ih]; simp [Nat.succ_mul]

theorem row_getD (n : Nat) (g : Nat → α) (d : α) (j : Nat) (hj : j < n) : ((List.range n).map g).getD j d = g j := by
  simp [List.getD, hj]

theorem build2_get (m n : Nat) (f : Nat → Nat → α) (d : α) : ∀ i j, i < m → j < n →
    (build2 m n f).getD (i * n + j) d = f i j := by
  induction m with
  | zero => intro i j hi; omega
  | succ m ih =>
    intro i j hi hj
    have hsplit : build2 (m + 1) n f = build2 m n f ++ (List.range n).map (fun j => f m j) := by
      simp [build2, List.range_succ, List.flatMap_append]
    rw [hsplit]
    by_cases him : i < m
    · have hlt : i * n + j < (build2 m n f).length := by
        rw [build2_length]
        calc i * n + j < i * n + n := by omega
          _ = (i + 1) * n := by rw [Nat.succ_mul]
          _ ≤ m * n := Nat.mul_le_mul_right n him
      have := ih i j him hj
      simp only [List.getD_eq_getElem?_getD] at this ⊢
      rw [List.getElem?_append_left hlt]; exact this
    · have hi' : i = m := by omega
      subst hi'
      have hge : (build2 i n f).length ≤ i * n + j := by rw [build2_length]; omega
      have hr := row_getD n (fun j => f i j) d j hj
      simp only [List.getD_eq_getElem?_getD] at hr ⊢
      rw [List.getElem?_append_right hge, build2_length]
      have : i * n + j - i * n = j := by omega
      rw [this]
      exact hr

theorem sumK_congr (F : Scalars α) (f g : Nat → α) : ∀ k, (∀ l, l < k → f l = g l) → sumK F f k = sumK F g k := by
  intro k
  induction k with
  | zero => intro _; rfl
  | succ k ih =>
    intro h
    simp only [sumK]
    rw [ih (fun l hl => h l (by omega)), h k (by omega)]

theorem flatMap_congr' {β γ : Type} (l : List β) (f g : β → List γ) (h : ∀ x, x ∈ l → f x = g x) :
    l.flatMap f = l.flatMap g := by
  induction l with
  | nil => rfl
  | cons x xs ih =>
    simp only [List.flatMap_cons]
    rw [h x (by simp), ih (fun y hy => h y (by simp [hy]))]

theorem build2_congr (m n : Nat) (f g : Nat → Nat → α) (h : ∀ i j, i < m → j < n → f i j = g i j) :
    build2 m n f = build2 m n g := by
  unfold build2
  apply flatMap_congr'
  intro i hi
  apply List.map_congr_left
  intro j hj
  exact h i j (List.mem_range.mp hi) (List.mem_range.mp hj)

/-- **T2, Transpose into MatMul (2-D, `perm = [1,0]`, second operand).** -/
theorem matmul_transpose_eq (F : Scalars α) (a b : Ten α) (m k n k2 : Nat)
    (ha : a.shape = [m, k]) (hb : b.shape = [n, k2]) :
    (transpose2 F b).bind (matmul2 F a) = matmulTB2 F a b := by
  simp only [transpose2, hb, Option.bind_some, matmul2, ha, matmulTB2]
  by_cases hk : k = k2
  · subst hk
    simp only [if_true]
    congr 2
    apply build2_congr
    intro i j _ hj
    apply sumK_congr
    intro l hl
    congr 1
    show (build2 k n fun i j => at2 F.zero b k j i).getD (l * n + j) F.zero = at2 F.zero b k j l
    exact build2_get k n _ F.zero l j hl hj
  · simp [hk]

def oTranspose : Op (MK α) := ⟨10, .transpose, [4], [], [1]⟩
def oMatMul : Op (MK α) := ⟨11, .matmul, [0, 1], [], [2]⟩
def oMatMulTB : Op (MK α) := ⟨12, .matmulTB, [0, 4], [], [2]⟩

/-- **hsem, TransposeFusion** (value ids: 0 = A, 4 = B, 1 = Transpose(B), 2 = the product): the
hypothesis of `c01_rewrite_sound` for `MatMul(A, Transpose(B))` ↦ `TransformInputs(MatMul){1:1.0}(A, B)`
on 2-D operands. -/
theorem hsem_transpose_matmul (F : Scalars α) (E : Env (Ten α)) (a b : Ten α) (m k n k2 : Nat)
    (hA : E 0 = some a) (hB : E 4 = some b) (ha : a.shape = [m, k]) (hb : b.shape = [n, k2]) :
    run (msem F) [oTranspose, oMatMul] E 2 = step (msem F) E oMatMulTB 2 := by
  have key := matmul_transpose_eq F a b m k n k2 ha hb
  cases ht : transpose2 F b with
  | none => simp [transpose2, hb] at ht
  | some bt =>
    rw [ht, Option.bind_some] at key
    cases hm : matmulTB2 F a b with
    | none =>
      rw [hm] at key
      simp [run, step, result, readAll, Op.reads, oTranspose, oMatMul, oMatMulTB, hA, hB, msem, ht, bind, key, hm]
    | some c =>
      rw [hm] at key
      simp [run, step, result, readAll, Op.reads, oTranspose, oMatMul, oMatMulTB, hA, hB, msem, ht, bind, key, hm]

/-- concrete check over ℤ: `A = [[1,2],[3,4]]`, `B = [[5,6],[7,8]]`, `A·Bᵀ = [[17,23],[39,53]]` both ways -/
def envMM : Env (Ten Int) := fun i =>
  if i = 0 then some ⟨[2, 2], [1, 2, 3, 4]⟩ else if i = 4 then some ⟨[2, 2], [5, 6, 7, 8]⟩ else none
example : run (msem intScalars) [oTranspose, oMatMul] envMM 2 = some ⟨[2, 2], [17, 23, 39, 53]⟩ ∧
    step (msem intScalars) envMM oMatMulTB 2 = some ⟨[2, 2], [17, 23, 39, 53]⟩ := by decide

end RtenVerif.Optimize.TSem
