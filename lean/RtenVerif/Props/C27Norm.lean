import RtenVerif.Props.C30
import RtenVerif.Props.C27

/-!
# C27 × C30 — the offset-map lookup in `Tokenizer::encode_str`

`encode_str` (tokenizer.rs) looks the normalized-text position of every token up in the
normalizer's offset map: `mappings.get(offset).copied().expect("invalid normalized offset")`.
With the map of ANY normalizer tree (C30: `Good`), and chunks that are `&str` sub-slices of the
normalized text, that `expect` never fires and every reported token offset is a char boundary of
the SOURCE text, within it, non-decreasing for in-order chunks.
-/
namespace RtenVerif.ByteBpe
open RtenVerif
open RtenVerif.Normalizer (Good utf8 utf8_length isBoundary_bytes)

/-- No `expect("invalid normalized offset")` panic: every non-empty chunk starts inside the map. -/
theorem encodeStr_isSome (t : Bpe) (text : List Nat) (m : List Nat) :
    ∀ (pieces : List (Nat × Nat)), (∀ p ∈ pieces, p.1 < p.2 → p.1 < m.length) →
      ∃ r, encodeStr t text (some m) 0 pieces = some r := by
  intro pieces
  induction pieces with
  | nil => intro _; exact ⟨([], []), rfl⟩
  | cons p rest ih =>
    intro h
    obtain ⟨s, e⟩ := p
    obtain ⟨r, hr⟩ := ih (fun q hq => h q (List.mem_cons_of_mem _ hq))
    simp only [encodeStr, hr]
    by_cases hse : s < e
    · have hlt : s < m.length := h (s, e) (by simp) hse
      have hm : mapOffset (some m) (s + 0) = some m[s] := by
        simp only [mapOffset, Nat.add_zero, List.getElem?_eq_getElem hlt]
      cases hc : (if s < e then encodePiece t (slice text s e) true else []).isEmpty with
      | true => simp only [if_true]; exact ⟨_, rfl⟩
      | false => simp only [Bool.false_eq_true, if_false, hm]; exact ⟨_, rfl⟩
    · simp only [hse, if_false, List.isEmpty_nil, if_true]
      exact ⟨_, rfl⟩

/-- **C30 anchor "offset map lookup in encode_str" / C27 "offsets lie on character boundaries",
normalizer case.**  Let `(normalized, offs)` be the output of any normalizer tree on `src` (so
`Good src normalized offs`, C30), and let the pre-tokenizer's chunks be in-bounds sub-slices of
the normalized text that start on its char boundaries.  Then `encode_str` does not panic, reports
one offset per token, and every offset is `≤ src.len()` and a char boundary of the source bytes;
offsets are non-decreasing when the chunks come in order. -/
theorem c27_offsets_with_normalizer (t : Bpe) (src normalized : List Char) (offs : List Nat)
    (hg : Good src normalized offs) (pieces : List (Nat × Nat))
    (hin : ∀ p ∈ pieces, p.2 ≤ (utf8 normalized).length)
    (hbd : ∀ p ∈ pieces, Utf8.isBoundary (utf8 normalized) p.1 = true) :
    ∃ toks toffs, encodeStr t (utf8 normalized) (some offs) 0 pieces = some (toks, toffs) ∧
      toffs.length = toks.length ∧
      (∀ o ∈ toffs, o ≤ (utf8 src).length ∧ Utf8.isBoundary (utf8 src) o = true) ∧
      ((pieces.map (·.1)).Pairwise (· ≤ ·) → toffs.Pairwise (· ≤ ·)) := by
  have hlen : offs.length = (utf8 normalized).length := by rw [utf8_length]; exact hg.len
  obtain ⟨r, hr⟩ := encodeStr_isSome t (utf8 normalized) offs pieces (by
    intro p hp hlt; have := hin p hp; omega)
  obtain ⟨h1, h2, h3⟩ := c27_offsets t (utf8 normalized) (some offs) pieces r.1 r.2 hr
  refine ⟨r.1, r.2, hr, h1, ?_, fun hp => h3 hp (mapMono_some offs hg.mono)⟩
  intro o ho
  obtain ⟨p, hp, _, hmo⟩ := h2 o ho
  simp only [mapOffset] at hmo
  have hb := hbd p hp
  rw [isBoundary_bytes] at hb
  refine ⟨?_, ?_⟩
  · rw [utf8_length]; exact hg.le o (List.mem_of_getElem? hmo)
  · rw [isBoundary_bytes]; exact hg.bnd p.1 o hmo hb

/-- The same for the output of `Normalizer::normalize` itself (any tree, any Unicode table). -/
theorem c27_offsets_with_normalizer_run (t : Bpe) (u : Normalizer.Uni) (n : Normalizer.Norm)
    (src normalized : List Char) (offs : List Nat)
    (hrun : Normalizer.run u n src = some (normalized, offs)) (pieces : List (Nat × Nat))
    (hin : ∀ p ∈ pieces, p.2 ≤ (utf8 normalized).length)
    (hbd : ∀ p ∈ pieces, Utf8.isBoundary (utf8 normalized) p.1 = true) :
    ∃ toks toffs, encodeStr t (utf8 normalized) (some offs) 0 pieces = some (toks, toffs) ∧
      toffs.length = toks.length ∧
      (∀ o ∈ toffs, o ≤ (utf8 src).length ∧ Utf8.isBoundary (utf8 src) o = true) ∧
      ((pieces.map (·.1)).Pairwise (· ≤ ·) → toffs.Pairwise (· ≤ ·)) :=
  c27_offsets_with_normalizer t src normalized offs (Normalizer.run_good u n src _ hrun) pieces hin hbd

end RtenVerif.ByteBpe
