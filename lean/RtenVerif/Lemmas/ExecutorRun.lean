import RtenVerif.Lemmas.ExecutorStepMain
/-!
# C02 — the whole run refines the naive evaluation
-/
namespace RtenVerif.Executor
open RtenVerif.Graph

/-- The plan loop against the naive loop, for any prefix `pre` of the plan. -/
theorem runSteps_refines_prefix {V : Type} {ops : Ops V} {r : Run V}
    {caps0 : Nat → Option (V × Bool)} {total : Nat → Nat}
    {outs : List Nat} (hwf : WF r) (hcw : CapsWF r caps0) (hct : Contract ops r.g)
    (rest : List Nat) :
    ∀ (pre : List Nat) (st : St V) (E : Nat → Option V), Sim r caps0 total (pre ++ rest) outs st E →
      match (runSteps ops r st pre).1 with
      | .ok st' => ∃ E', naiveSteps ops r caps0 E pre = .ok E' ∧ Sim r caps0 total rest outs st' E'
      | .error e => naiveSteps ops r caps0 E pre = .error e := by
  intro pre
  induction pre with
  | nil => intro st E hs; exact ⟨E, rfl, hs⟩
  | cons i is ih =>
    intro st E hs
    have hstep := step_refines hwf hcw hct hs
    simp only [runSteps, naiveSteps]
    cases hst : step ops r st i with
    | error e =>
      rw [hst] at hstep
      simp only at hstep ⊢
      rw [hstep]
    | ok p =>
      obtain ⟨st1, tr⟩ := p
      rw [hst] at hstep
      obtain ⟨E1, hE1, hs1⟩ := hstep
      simp only [hE1]
      exact ih st1 E1 hs1

/-- The plan loop against the naive loop. -/
theorem runSteps_refines {V : Type} {ops : Ops V} {r : Run V}
    {caps0 : Nat → Option (V × Bool)} {total : Nat → Nat}
    {outs : List Nat} (hwf : WF r) (hcw : CapsWF r caps0) (hct : Contract ops r.g) :
    ∀ (plan : List Nat) (st : St V) (E : Nat → Option V), Sim r caps0 total plan outs st E →
      match (runSteps ops r st plan).1 with
      | .ok st' => ∃ E', naiveSteps ops r caps0 E plan = .ok E' ∧ Sim r caps0 total [] outs st' E'
      | .error e => naiveSteps ops r caps0 E plan = .error e := by
  intro plan st E hs
  exact runSteps_refines_prefix hwf hcw hct [] plan st E (by rw [List.append_nil]; exact hs)

theorem isValue_of_voc {g : Graph} {v : Nat} (h1 : isValueOrConstant g v = true)
    (h2 : isConstant g v = false) : isValue g v = true := by
  unfold isValueOrConstant at h1
  unfold isConstant at h2
  unfold isValue
  split at h1
  · rename_i hn; rw [hn]
  · rename_i hn; rw [hn] at h2; simp at h2
  · simp at h1

/-- The state after the counting phase satisfies `Sim`. -/
theorem Sim.init {V : Type} {r : Run V} (caps0 : Nat → Option (V × Bool)) {plan outs : List Nat}
    {rc : Nat → Nat} (hwf : WF r)
    (hrc : initRc r.g plan outs = some rc) :
    Sim r caps0 (uses r.g plan outs) plan outs { temps := initTemps r, rc := rc, caps := caps0 }
      (fun _ => none) := by
  refine ⟨?_, ?_, rfl, fun _ _ => rfl, ?_, ?_⟩
  · intro v; show rc v ≤ 255; rw [initRc_eq hrc v]; omega
  · intro v _
    refine ⟨?_, Nat.le_refl _⟩
    show rc v = _
    rw [initRc_eq hrc v]
    split <;> omega
  · intro v x hx
    simp only [initTemps, hwf.fixed, Bool.true_and] at hx
    split at hx
    · simp at hx
    · rename_i hnc
      have hnc' : isConstant r.g v = false := by simpa using hnc
      have hne : r.owned v ≠ none := by rw [hx]; simp
      have hv := isValue_of_voc (hwf.ownedKind v hne) hnc'
      have hb := hwf.disjoint v hne
      exact ⟨hv, hb, by rw [val_value hv hb, hx]⟩
  · intro v hv hb _ hval
    rw [val_value hv hb] at hval
    simp only [initTemps, hwf.fixed, Bool.true_and, isValue_not_const hv, Bool.false_eq_true,
      if_false]
    cases ho : r.owned v with
    | some x => simp
    | none => rw [ho] at hval; simp at hval

/-- Final output collection against the naive lookup. -/
theorem collectOutputs_refines {V : Type} {r : Run V} {caps0 : Nat → Option (V × Bool)}
    {E : Nat → Option V} (hcw : CapsWF r caps0)
    (hcE : ∀ v, r.g.captures.contains v = true → E v = none) :
    ∀ (os : List Nat) (st : St V), os.Nodup → st.caps = caps0 →
      (∀ v x, st.temps v = some x → isValue r.g v = true ∧ r.borrowed v = none ∧ val r E v = some x) →
      (∀ v ∈ os, isValue r.g v = true → r.borrowed v = none → val r E v ≠ none →
        st.temps v ≠ none) →
      (collectOutputs r st os).1 = naiveOutputs (valC r caps0 E) os := by
  intro os
  induction os with
  | nil => intro st _ _ _ _; rfl
  | cons o os ih =>
    intro st hnd hc hA hL
    simp only [List.nodup_cons] at hnd
    simp only [collectOutputs, naiveOutputs, constOrInput]
    cases hn : getNode r.g o with
    | none => simp [valC, naiveLook, hn]
    | some n =>
      cases n with
      | operator op => simp [valC, naiveLook, hn]
      | constant =>
        have hv : valC r caps0 E o = some (r.consts o) := by simp [valC, naiveLook, hn]
        simp only [hv]
        rw [← ih st hnd.2 hc hA (fun v hv => hL v (List.mem_cons_of_mem _ hv))]
      | value =>
        have hval : isValue r.g o = true := by simp [isValue, hn]
        cases hb : r.borrowed o with
        | some b =>
          have hv : valC r caps0 E o = some b := by simp [valC, naiveLook, hn, hb]
          simp only [hv]
          rw [← ih st hnd.2 hc hA (fun v hv => hL v (List.mem_cons_of_mem _ hv))]
        | none =>
          simp only
          have hco : st.caps o = caps0 o := by rw [hc]
          rw [hco]
          cases hcp : caps0 o with
          | some p =>
            obtain ⟨cv, cb⟩ := p
            have hcap := hcw.dom o (by rw [hcp]; simp)
            obtain ⟨_, hin, _⟩ := hcw.kind o hcap
            obtain ⟨_, ho⟩ := isInput_false hin
            have hvn : val r E o = none := by rw [val_value hval hb, ho]; exact hcE o hcap
            have hv : valC r caps0 E o = some cv := by
              rw [valC_eq, hvn]; simp [hval, hcp]
            simp only [hv]
            rw [← ih st hnd.2 hc hA (fun v hv => hL v (List.mem_cons_of_mem _ hv))]
          | none =>
            simp only
            cases ht : st.temps o with
            | some x =>
              have hv : valC r caps0 E o = some x := valC_of_val (hA o x ht).2.2
              simp only [hv]
              rw [← ih { st with temps := upd st.temps o none } hnd.2 hc]
              · intro v y hy
                simp only [upd_apply] at hy
                split at hy
                · simp at hy
                · exact hA v y hy
              · intro v hv' h1 h2 h3
                have hne : v ≠ o := by rintro rfl; exact hnd.1 hv'
                simp only [upd_apply, hne, if_false]
                exact hL v (List.mem_cons_of_mem _ hv') h1 h2 h3
            | none =>
              simp only
              have hvn : val r E o = none := by
                cases hv : val r E o with
                | none => rfl
                | some y => exact absurd ht (hL o List.mem_cons_self hval hb (by rw [hv]; simp))
              have hv : valC r caps0 E o = none := by
                rw [valC_eq, hvn]; simp [hcp]
              simp only [hv]

theorem incPlan_some (g : Graph) (plan : List Nat) (h : ∀ i ∈ plan, (getOp g i).isSome = true) :
    ∀ rc, (incPlan g rc plan).isSome = true := by
  induction plan with
  | nil => intro rc; rfl
  | cons i is ih =>
    intro rc
    simp only [incPlan]
    have := h i List.mem_cons_self
    cases hop : getOp g i with
    | none => rw [hop] at this; simp at this
    | some op => exact ih (fun j hj => h j (List.mem_cons_of_mem _ hj)) _

/-- **T3 with a capture environment.** The outcome of `run_plan` run with the capture
environment `caps0` (nothing takeable by value) is the outcome of the naive evaluation that
reads capture placeholders from `caps0`. -/
theorem runPlan_refines_caps {V : Type} {ops : Ops V} {r : Run V} {caps0 : Nat → Option (V × Bool)}
    {plan outs : List Nat} (hwf : WF r)
    (hcw : CapsWF r caps0) (hct : Contract ops r.g)
    (hplan : ∀ i ∈ plan, (getOp r.g i).isSome = true) (hnd : outs.Nodup) :
    (runPlan ops r caps0 plan outs).outcome = evalNaive ops r caps0 plan outs := by
  unfold runPlan evalNaive
  cases hrc : initRc r.g plan outs with
  | none =>
    exfalso
    rw [initRc_spec] at hrc
    unfold initRcSpec at hrc
    have := incPlan_some r.g plan hplan (fun _ => 0)
    cases hp : incPlan r.g (fun _ => 0) plan with
    | none => rw [hp] at this; simp at this
    | some rc1 => simp [hp] at hrc
  | some rc =>
    simp only
    have hs := Sim.init caps0 hwf hrc
    have hrun := runSteps_refines hwf hcw hct plan _ _ hs
    cases hst : runSteps ops r { temps := initTemps r, rc := rc, caps := caps0 } plan with
    | mk res trs =>
      rw [hst] at hrun
      cases res with
      | error e =>
        simp only at hrun ⊢
        rw [hrun]
      | ok st' =>
        simp only at hrun
        obtain ⟨E', hE', hs'⟩ := hrun
        simp only [hE']
        have := collectOutputs_refines (r := r) (E := E') hcw hs'.capE outs st' hnd hs'.caps hs'.agree
          (fun v hv h1 h2 h3 => hs'.live v h1 h2 (by
            simp only [uses]
            have := List.count_pos_iff.mpr hv
            omega) h3)
        cases hco : collectOutputs r st' outs with
        | mk res otr =>
          rw [hco] at this
          simp only at this ⊢
          exact this

/-- **T3.** The outcome of `run_plan` is the outcome of the naive evaluation. -/
theorem runPlan_refines {V : Type} {ops : Ops V} {r : Run V} {plan outs : List Nat} (hwf : WF r)
    (hcap : r.g.captures = []) (hct : Contract ops r.g)
    (hplan : ∀ i ∈ plan, (getOp r.g i).isSome = true) (hnd : outs.Nodup) :
    (runPlan ops r nocap plan outs).outcome = evalNaive ops r nocap plan outs :=
  runPlan_refines_caps hwf (capsWF_nocap r hcap) hct hplan hnd

end RtenVerif.Executor
