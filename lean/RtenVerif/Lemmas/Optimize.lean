import RtenVerif.Model.Optimize

/-! # C01 — basic lemmas about `step` / `run` (frame, congruence, dead operators, stability) -/
namespace RtenVerif.Optimize

variable {K V : Type} (sem : Sem K V)

theorem bind_off (E : Env V) : ∀ (is : List Id) (vs : List V) (j : Id), j ∉ is → bind E is vs j = E j := by
  intro is
  induction is with
  | nil => intro vs j _; simp [bind]
  | cons i is ih =>
    intro vs j hj
    cases vs with
    | nil => simp [bind]
    | cons v vs =>
      have h1 : j ≠ i := fun h => hj (by simp [h])
      have h2 : j ∉ is := fun h => hj (by simp [h])
      simp [bind, h1, ih vs j h2]

theorem bind_agree (E1 E2 : Env V) : ∀ (is : List Id) (vs : List V) (j : Id),
    E1 j = E2 j → bind E1 is vs j = bind E2 is vs j := by
  intro is
  induction is with
  | nil => intro vs j h; simpa [bind] using h
  | cons i is ih =>
    intro vs j h
    cases vs with
    | nil => simpa [bind] using h
    | cons v vs =>
      by_cases hji : j = i
      · simp [bind, hji]
      · simp [bind, hji, ih vs j h]

theorem readAll_congr (E1 E2 : Env V) : ∀ (is : List Id), (∀ i ∈ is, E1 i = E2 i) → readAll E1 is = readAll E2 is := by
  intro is
  induction is with
  | nil => intro _; rfl
  | cons i is ih =>
    intro h
    have h1 : E1 i = E2 i := h i (by simp)
    have h2 := ih (fun k hk => h k (by simp [hk]))
    simp [readAll, h1, h2]

theorem result_congr (E1 E2 : Env V) (o : Op K) (h : ∀ i ∈ o.reads, E1 i = E2 i) :
    result sem E1 o = result sem E2 o := by
  simp [result, readAll_congr E1 E2 o.reads h]

theorem step_off (E : Env V) (o : Op K) (j : Id) (hj : j ∉ o.outs) : step sem E o j = E j := by
  unfold step
  cases result sem E o with
  | none => rfl
  | some rs => exact bind_off E o.outs rs j hj

theorem step_agree (E1 E2 : Env V) (o : Op K) (j : Id) (h : ∀ i ∈ o.reads, E1 i = E2 i) (hj : E1 j = E2 j) :
    step sem E1 o j = step sem E2 o j := by
  unfold step
  rw [result_congr sem E1 E2 o h]
  cases result sem E2 o with
  | none => exact hj
  | some rs => exact bind_agree E1 E2 o.outs rs j hj

theorem run_append (a b : List (Op K)) (E : Env V) : run sem (a ++ b) E = run sem b (run sem a E) := by
  induction a generalizing E with
  | nil => rfl
  | cons o os ih => simp [run, ih]

theorem outsAll_append (a b : List (Op K)) : outsAll (a ++ b) = outsAll a ++ outsAll b := by
  induction a with
  | nil => rfl
  | cons o os ih => simp [outsAll, ih]

theorem mem_outsAll {ops : List (Op K)} {i : Id} : i ∈ outsAll ops ↔ ∃ o ∈ ops, i ∈ o.outs := by
  induction ops with
  | nil => simp [outsAll]
  | cons o os ih => simp [outsAll, ih]

theorem run_off (ops : List (Op K)) (E : Env V) (j : Id) (hj : j ∉ outsAll ops) : run sem ops E j = E j := by
  induction ops generalizing E with
  | nil => rfl
  | cons o os ih =>
    have h1 : j ∉ o.outs := fun h => hj (by simp [outsAll, h])
    have h2 : j ∉ outsAll os := fun h => hj (by simp [outsAll, h])
    simp [run, ih _ h2, step_off sem E o j h1]

/-- Agreement on a set of ids closed under "is read by the plan" is preserved by running it. -/
theorem run_agree (P : Id → Prop) (ops : List (Op K)) :
    ∀ (E1 E2 : Env V), (∀ o ∈ ops, ∀ i ∈ o.reads, P i) → (∀ i, P i → E1 i = E2 i) →
      ∀ i, P i → run sem ops E1 i = run sem ops E2 i := by
  induction ops with
  | nil => intro E1 E2 _ h i hi; exact h i hi
  | cons o os ih =>
    intro E1 E2 hr h i hi
    apply ih
    · intro o' ho' k hk; exact hr o' (by simp [ho']) k hk
    · intro k hk
      exact step_agree sem E1 E2 o k (fun r hr' => h r (hr o (by simp) r hr')) (h k hk)
    · exact hi

theorem run_congr (ops : List (Op K)) (E1 E2 : Env V) (h : ∀ i, E1 i = E2 i) (i : Id) :
    run sem ops E1 i = run sem ops E2 i :=
  run_agree sem (fun _ => True) ops E1 E2 (fun _ _ _ _ => trivial) (fun k _ => h k) i trivial

/-- Removing operators whose outputs (`D`) nobody that stays reads. -/
theorem run_filter_dead (D : Id → Prop) (inS : Op K → Bool) (ops : List (Op K)) :
    ∀ (E1 E2 : Env V), (∀ o ∈ ops, inS o = true → ∀ i ∈ o.outs, D i) →
      (∀ o ∈ ops, inS o = false → ∀ i ∈ o.reads, ¬ D i) → (∀ i, ¬ D i → E1 i = E2 i) →
      ∀ i, ¬ D i → run sem ops E1 i = run sem (ops.filter fun o => !inS o) E2 i := by
  induction ops with
  | nil => intro E1 E2 _ _ h i hi; exact h i hi
  | cons o os ih =>
    intro E1 E2 hout hread h i hi
    cases hs : inS o with
    | true =>
      simp only [run, List.filter, hs, Bool.not_true]
      apply ih
      · intro o' ho'; exact hout o' (by simp [ho'])
      · intro o' ho'; exact hread o' (by simp [ho'])
      · intro k hk
        have : k ∉ o.outs := fun hko => hk (hout o (by simp) hs k hko)
        rw [step_off sem E1 o k this]; exact h k hk
      · exact hi
    | false =>
      simp only [run, List.filter, hs, Bool.not_false]
      apply ih
      · intro o' ho'; exact hout o' (by simp [ho'])
      · intro o' ho'; exact hread o' (by simp [ho'])
      · intro k hk
        exact step_agree sem E1 E2 o k (fun r hr => h r (hread o (by simp) hs r hr)) (h k hk)
      · exact hi

/-- Stability: the operators of the subgraph, run in isolation on an environment that already
holds the values of everything else, recompute exactly what they computed inside the plan. -/
theorem run_filter_stable (inS : Op K → Bool) (ops : List (Op K)) :
    ∀ (Ec E0 : Env V), WF ops →
      (∀ i, i ∉ outsAll ops → Ec i = E0 i) →
      (∀ i, i ∈ outsAll ops → Ec i = none) →
      (∀ i, i ∈ outsAll (ops.filter inS) → E0 i = none) →
      (∀ i, i ∈ outsAll (ops.filter fun o => !inS o) → E0 i = run sem ops Ec i) →
      ∀ i, run sem (ops.filter inS) E0 i = run sem ops Ec i := by
  induction ops with
  | nil =>
    intro Ec E0 _ h _ _ _ i
    simp only [List.filter, run]
    exact (h i (by simp [outsAll])).symm
  | cons o os ih =>
    intro Ec E0 hwf hag hfresh hS hN i
    obtain ⟨hreads, houts, hwf'⟩ := hwf
    -- reads of `o` agree in both environments
    have hrd : ∀ r ∈ o.reads, Ec r = E0 r := fun r hr => hag r (hreads r hr)
    cases hs : inS o with
    | true =>
      simp only [List.filter, hs, run]
      apply ih (step sem Ec o) (step sem E0 o) hwf'
      · intro k hk
        by_cases hko : k ∈ o.outs
        · have e0 : E0 k = none := hS k (by simp [List.filter, hs, outsAll, hko])
          have ec : Ec k = none := hfresh k (by simp [outsAll, hko])
          exact step_agree sem Ec E0 o k hrd (by rw [e0, ec])
        · have : k ∉ outsAll (o :: os) := by simp [outsAll, hko, hk]
          exact step_agree sem Ec E0 o k hrd (hag k this)
      · intro k hk
        have hko : k ∉ o.outs := fun h => houts k h hk
        rw [step_off sem Ec o k hko]; exact hfresh k (by simp [outsAll, hk])
      · intro k hk
        have hk' : k ∈ outsAll os := by
          obtain ⟨o', ho', hk2⟩ := mem_outsAll.mp hk
          exact mem_outsAll.mpr ⟨o', (List.mem_filter.mp ho').1, hk2⟩
        have hko : k ∉ o.outs := fun h => houts k h hk'
        rw [step_off sem E0 o k hko]
        exact hS k (by simp [List.filter, hs, outsAll, hk])
      · intro k hk
        have hk' : k ∈ outsAll os := by
          obtain ⟨o', ho', hk2⟩ := mem_outsAll.mp hk
          exact mem_outsAll.mpr ⟨o', (List.mem_filter.mp ho').1, hk2⟩
        have hko : k ∉ o.outs := fun h => houts k h hk'
        rw [step_off sem E0 o k hko]
        have := hN k (by simpa [List.filter, hs] using hk)
        simpa [run] using this
    | false =>
      simp only [List.filter, hs, run]
      apply ih (step sem Ec o) E0 hwf'
      · intro k hk
        by_cases hko : k ∈ o.outs
        · -- E0 holds the final value of a non-subgraph output; nothing later overwrites it
          have h1 := hN k (by simp [List.filter, hs, outsAll, hko])
          rw [h1]; simp only [run]
          exact (run_off sem os _ k hk).symm
        · have : k ∉ outsAll (o :: os) := by simp [outsAll, hko, hk]
          rw [step_off sem Ec o k hko]; exact hag k this
      · intro k hk
        have hko : k ∉ o.outs := fun h => houts k h hk
        rw [step_off sem Ec o k hko]; exact hfresh k (by simp [outsAll, hk])
      · intro k hk
        exact hS k (by simpa [List.filter, hs] using hk)
      · intro k hk
        have := hN k (by simp [List.filter, hs, outsAll, hk])
        simpa [run] using this

end RtenVerif.Optimize
