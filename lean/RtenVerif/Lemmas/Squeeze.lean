import RtenVerif.Lemmas.Gather

/-! C09: `squeezed` refines `numpy.squeeze`. -/
namespace RtenVerif.Layout
open RtenVerif.Arr RtenVerif.Overlap

theorem sizes_filter_one (d : Dims) :
    sizes (d.filter (fun p => p.1 != 1)) = (sizes d).filter (· != 1) := by
  induction d with
  | nil => rfl
  | cons p ds ih =>
    simp only [sizes] at ih
    simp only [List.filter_cons, sizes, List.map_cons]
    split <;> simp_all

theorem sq_core (d : Dims) (idx : List Nat)
    (hv : validIdx (sizes (d.filter (fun p => p.1 != 1))) idx = true) :
    validIdx (sizes d) (NArr.unsqueeze (sizes d) idx) = true ∧
    offset (d.filter (fun p => p.1 != 1)) idx = offset d (NArr.unsqueeze (sizes d) idx) := by
  induction d generalizing idx with
  | nil =>
    cases idx with
    | nil => exact ⟨rfl, rfl⟩
    | cons i is => simp [sizes, validIdx] at hv
  | cons p ds ih =>
    obtain ⟨n, st⟩ := p
    by_cases hn : n = 1
    · subst hn
      have hf : ((1, st) :: ds).filter (fun p => p.1 != 1) = ds.filter (fun p => p.1 != 1) := by
        simp [List.filter_cons]
      rw [hf] at hv ⊢
      obtain ⟨h1, h2⟩ := ih idx hv
      simp only [sizes] at h1 h2
      simp only [sizes, List.map_cons, NArr.unsqueeze, if_true, validIdx, h1, offset, h2]
      simp
    · have hf : ((n, st) :: ds).filter (fun p => p.1 != 1) =
          (n, st) :: ds.filter (fun p => p.1 != 1) := by
        simp [List.filter_cons, hn]
      rw [hf] at hv ⊢
      cases idx with
      | nil => simp [sizes, validIdx] at hv
      | cons i is =>
        simp only [sizes, List.map_cons, validIdx, Bool.and_eq_true, decide_eq_true_eq] at hv
        obtain ⟨h1, h2⟩ := ih is (by simpa [sizes] using hv.2)
        simp only [sizes] at h1 h2
        simp only [sizes, List.map_cons, NArr.unsqueeze, hn, if_false, validIdx, h1, offset, h2,
          Bool.and_true, decide_eq_true_eq]
        exact ⟨hv.1, trivial⟩

theorem minDataLen_filter_one (d : Dims) :
    minDataLen (d.filter (fun p => p.1 != 1)) = minDataLen d := by
  induction d with
  | nil => rfl
  | cons p ds ih =>
    obtain ⟨n, st⟩ := p
    by_cases hn : n = 1
    · subst hn
      have hf : ((1, st) :: ds).filter (fun p => p.1 != 1) = ds.filter (fun p => p.1 != 1) := by
        simp [List.filter_cons]
      rw [hf, ih]
      unfold minDataLen
      simp only [sizes, List.map_cons, List.any_cons, List.sum_cons]
      simp only [Nat.sub_self, Nat.zero_mul, Nat.zero_add]
      rw [show ((1 : Nat) == 0) = false from rfl, Bool.false_or]
      rfl
    · have hf : ((n, st) :: ds).filter (fun p => p.1 != 1) =
          (n, st) :: ds.filter (fun p => p.1 != 1) := by
        simp [List.filter_cons, hn]
      rw [hf]
      by_cases h0 : numelD ds = 0
      · have e1 : numelD ((n, st) :: ds) = 0 := by rw [numelD_cons, h0]; simp
        have e2 : numelD (ds.filter (fun p => p.1 != 1)) = 0 := by
          apply Classical.byContradiction
          intro hne
          have := minDataLen_nonempty _ hne
          rw [ih, minDataLen_empty _ h0] at this
          omega
        have e3 : numelD ((n, st) :: ds.filter (fun p => p.1 != 1)) = 0 := by
          rw [numelD_cons, e2]; simp
        rw [minDataLen_empty _ e1, minDataLen_empty _ e3]
      · have e2 : numelD (ds.filter (fun p => p.1 != 1)) ≠ 0 := by
          intro he
          have := minDataLen_nonempty _ h0
          rw [← ih, minDataLen_empty _ he] at this
          omega
        by_cases hz : n = 0
        · subst hz
          have e1 : numelD ((0, st) :: ds) = 0 := by rw [numelD_cons]; simp
          have e3 : numelD ((0, st) :: ds.filter (fun p => p.1 != 1)) = 0 := by
            rw [numelD_cons]; simp
          rw [minDataLen_empty _ e1, minDataLen_empty _ e3]
        · rw [minDataLen_cons n st _ hz e2, minDataLen_cons n st _ hz h0, ih]

end RtenVerif.Layout
